(* C10 -- the double block loops of Model/Filters.v (median_filter, filter_bilateral) ARE the
   skeletons that translator/gen_block_loops.py reads in median.py / bilateral.py, for every
   skeleton accepted by BlockSkeleton.filter_skeleton_ok (per-run obligation of Props/C10.v). *)
From Coq Require Import ZArith QArith Qround List Bool Lia.
From Pandora Require Import Lib.Arr Lib.Blocks Lib.BlockSkeleton Model.Filters.
Import ListNotations.
Open Scope Z_scope.

Lemma filter_skeleton_ok_parts : forall k sk, filter_skeleton_ok k sk = true ->
  skeleton_wf sk = true /\ sk_oy_expr sk = half_win /\ sk_ox_expr sk = half_win
  /\ exists w, sk_writes sk = [w] /\ w_kernel w = k
               /\ exists v a, w_target w = ACopy v a /\ sk_src sk = AWindows a.
Proof.
  intros k sk H. unfold filter_skeleton_ok in H. repeat rewrite andb_true_iff in H.
  destruct H as (((H1 & H2) & H3) & H4).
  apply expr_eqb_eq in H2, H3.
  destruct (sk_writes sk) as [|w [|]]; try discriminate.
  destruct (sk_src sk) as [| | | |a|]; try discriminate.
  apply andb_true_iff in H4. destruct H4 as [H4 H5]. apply kernel_eqb_eq in H5.
  destruct (w_target w) as [| | |v a'| |] eqn:Et; try discriminate. apply aexp_eqb_eq in H4. subst a'.
  repeat split; try assumption. exists w. repeat split; try assumption. exists v, a. split; [exact Et | reflexivity].
Qed.

(* the parameters of the model's loop2 are the skeleton's own: block size >= 1 and both running
   offsets start at int(W / 2) = W / 2 for a window size W >= 0 *)
Theorem filter_loop_params : forall k sk, filter_skeleton_ok k sk = true ->
  1 <= sk_B sk /\ (forall w, 0 <= w -> sk_oy w sk = w / 2) /\ (forall w, 0 <= w -> sk_ox w sk = w / 2).
Proof.
  intros k sk Hok. destruct (filter_skeleton_ok_parts k sk Hok) as (Hwf & Hy & Hx & _).
  unfold skeleton_wf in Hwf. repeat rewrite andb_true_iff in Hwf. destruct Hwf as (((Hs & _) & _) & _).
  destruct (splits_ok_blocks sk Hs) as (HB & _).
  unfold sk_oy, sk_ox. rewrite Hy, Hx. repeat split; auto using half_win_val.
Qed.

Section Generic.
  (* a filter loop: windows of [data] of size [w], result written over a copy of [data] *)
  Variables (k : kernel) (sk : skeleton) (w : write).
  Variable f : Z -> Z -> option Q.          (* the model's per-window value *)
  Variable F : kernel -> Z -> Z -> option Q.
  Hypothesis HF : forall i j, F k i j = f i j.
  Hypothesis Hok : filter_skeleton_ok k sk = true.
  Hypothesis Hw : sk_writes sk = [w].

  Lemma filter_loop_generic : forall win ny nx my mx sy sx env0 (data : map2) r c,
    0 <= win -> 0 <= my -> 0 <= mx ->
    loop2 f (sk_B sk) ny nx my mx (win / 2) (win / 2) data r c
    = snd (exec F win my mx (w_target w) sk sy sx (env0, data)) r c.
  Proof.
    intros win ny nx my mx sy sx env0 data r c Hwin Hmy Hmx.
    destruct (filter_skeleton_ok_parts k sk Hok) as (Hwf & Hy & Hx & w' & Hw' & Hk & _).
    rewrite Hw in Hw'. injection Hw' as <-.
    destruct (filter_loop_params k sk Hok) as (HB & Hoy & Hox).
    rewrite (exec_wf_loop2 _ F win my mx (w_target w) sk k sy sx env0); try assumption.
    2:{ rewrite Hw. cbn [last_kernel]. rewrite Hk.
        destruct (aexp_eq_dec (w_target w) (w_target w)); [reflexivity | contradiction]. }
    rewrite Hoy, Hox by assumption. rewrite !loop2_spec by assumption.
    destruct ((win / 2 <=? r) && (r <? win / 2 + my) && (win / 2 <=? c) && (c <? win / 2 + mx));
      [symmetry; apply HF | reflexivity].
  Qed.
End Generic.

(* ------------------------------------------------------------------ median *)

Definition median_kernel (data : map2) (w : Z) (k : kernel) (i j : Z) : option Q :=
  match k with KNanMedian => nanmedian (window data w i j) | _ => None end.

(* For every accepted skeleton, every map, filter size w >= 0 and image size at least the filter
   size, every np.arange stops and initial environment: the model's median_filter run at the
   skeleton's block size is, at every pixel, the re-NaN-ing of what EXECUTING THE SKELETON writes
   over the copy of the data. *)
Theorem median_loop_is_skeleton : forall sk wr w ny nx (data : map2) sy sx env0 r c,
  filter_skeleton_ok KNanMedian sk = true -> sk_writes sk = [wr] ->
  0 <= w -> w <= ny -> w <= nx ->
  median_filter (sk_B sk) w ny nx data r c
  = if is_none (data r c) then None
    else snd (exec (median_kernel data w) w (ny - w + 1) (nx - w + 1) (w_target wr) sk sy sx (env0, data)) r c.
Proof.
  intros sk wr w ny nx data sy sx env0 r c Hok Hw H0 Hy Hx. unfold median_filter.
  replace ((ny <? w) || (nx <? w)) with false.
  2:{ symmetry. apply orb_false_iff. split; apply Z.ltb_ge; assumption. }
  destruct (is_none (data r c)); [reflexivity|].
  apply (filter_loop_generic KNanMedian sk wr (fun i j => nanmedian (window data w i j)) (median_kernel data w));
    try assumption; try lia. intros; reflexivity.
Qed.

(* ------------------------------------------------------------------ bilateral *)

Definition bilateral_kernel (sk : Z -> Z -> Q) (rk : Q -> Q) (data : map2) (win : Z) (k : kernel) (i j : Z)
  : option Q :=
  match k with KBilateral => bilateral_at sk rk data win (win / 2) i j | _ => None end.

Theorem bilateral_loop_is_skeleton : forall sk wr ny nx sigma gk rk (data : map2) sy sx env0 r c,
  filter_skeleton_ok KBilateral sk = true -> sk_writes sk = [wr] ->
  let win := win_width ny nx sigma in
  0 <= win ->
  filter_bilateral (sk_B sk) ny nx sigma gk rk data r c
  = if is_none (data r c) then None
    else snd (exec (bilateral_kernel gk rk data win) win (ny - win + 1) (nx - win + 1) (w_target wr) sk sy sx
                   (env0, data)) r c.
Proof.
  intros sk wr ny nx sigma gk rk data sy sx env0 r c Hok Hw win Hwin. unfold filter_bilateral. fold win.
  assert (Hle : win <= ny /\ win <= nx) by (unfold win, win_width; lia).
  destruct (is_none (data r c)); [reflexivity|].
  apply (filter_loop_generic KBilateral sk wr (fun i j => bilateral_at gk rk data win (win / 2) i j)
                             (bilateral_kernel gk rk data win));
    try assumption; try lia. intros; reflexivity.
Qed.

Corollary median_loop_is_skeleton_at : forall sk w ny nx (data : map2) sy sx env0 r c,
  filter_skeleton_ok KNanMedian sk = true -> 0 <= w -> w <= ny -> w <= nx ->
  median_filter (sk_B sk) w ny nx data r c
  = if is_none (data r c) then None
    else snd (exec (median_kernel data w) w (ny - w + 1) (nx - w + 1) (sk_target 0 sk) sk sy sx (env0, data)) r c.
Proof.
  intros sk w ny nx data sy sx env0 r c Hok H0 Hy Hx.
  destruct (filter_skeleton_ok_parts _ sk Hok) as (_ & _ & _ & wr & Hw & _).
  unfold sk_target. rewrite Hw. cbn [nth_error]. apply median_loop_is_skeleton; assumption.
Qed.

Corollary bilateral_loop_is_skeleton_at : forall sk ny nx sigma gk rk (data : map2) sy sx env0 r c,
  filter_skeleton_ok KBilateral sk = true ->
  let win := win_width ny nx sigma in
  0 <= win ->
  filter_bilateral (sk_B sk) ny nx sigma gk rk data r c
  = if is_none (data r c) then None
    else snd (exec (bilateral_kernel gk rk data win) win (ny - win + 1) (nx - win + 1) (sk_target 0 sk) sk sy sx
                   (env0, data)) r c.
Proof.
  intros sk ny nx sigma gk rk data sy sx env0 r c Hok win Hwin.
  destruct (filter_skeleton_ok_parts _ sk Hok) as (_ & _ & _ & wr & Hw & _).
  unfold sk_target. rewrite Hw. cbn [nth_error]. apply bilateral_loop_is_skeleton; assumption.
Qed.
