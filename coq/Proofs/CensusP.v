(* C02, census: Model/MatchingCost.v (census_transform, xor, popcount32b, point_interval on the
   transformed images, the early return on images smaller than the window, cv_masked) = Spec/Cost.v
   (census_spec: number of window pixels whose "greater than the centre" bits differ between the two
   windows; NaN exactly when not computable). *)
From Coq Require Import ZArith List Bool Lia ZifyBool QArith.
From Pandora Require Import Model.MatchingCost Spec.Cost Proofs.MatchingCostP Proofs.PopcountP.
Import ListNotations.
Open Scope Z_scope.

Ltac Zify.zify_post_hook ::= Z.to_euclidean_division_equations.

(* ------------------------------------------------------------------ lists *)

Lemma range_app : forall n m lo, range lo (n + m) = range lo n ++ range (lo + Z.of_nat n) m.
Proof.
  induction n; intros m lo; cbn [Nat.add range app].
  - f_equal. lia.
  - f_equal. rewrite IHn. f_equal. f_equal. lia.
Qed.

Lemma range_length : forall n lo, length (range lo n) = n.
Proof. induction n; intros; cbn [range length]; [reflexivity|]. now rewrite IHn. Qed.

Lemma zsum_app : forall l1 l2, zsum (l1 ++ l2) = zsum l1 + zsum l2.
Proof. induction l1; intros; cbn [app zsum]; [reflexivity|]. rewrite IHl1. lia. Qed.

Lemma zsum_rev : forall l, zsum (rev l) = zsum l.
Proof. induction l; cbn [rev zsum]; [reflexivity|]. rewrite zsum_app, IHl. cbn [zsum]. lia. Qed.

Lemma zsum_map_mul : forall {X} (f : X -> Z) k l, zsum (map (fun x => k * f x) l) = k * zsum (map f l).
Proof. induction l; cbn [map zsum]; lia. Qed.

(* a double sum over h rows of w columns is a single sum over the row-major index *)
Lemma zsum_flatten : forall (F : Z -> Z -> Z) w (h : nat), 0 < w ->
  zsum (map (fun a => zsum (map (F a) (zrange 0 w))) (range 0 h))
  = zsum (map (fun i => F (i / w) (i mod w)) (range 0 (h * Z.to_nat w))).
Proof.
  intros F w h Hw. induction h; [reflexivity|].
  replace (S h) with (h + 1)%nat by lia.
  rewrite range_app, map_app, zsum_app, IHh.
  rewrite Nat.mul_add_distr_r, range_app, map_app, zsum_app. f_equal.
  cbn [range map zsum]. rewrite Nat.mul_1_l. unfold zrange.
  rewrite (range_shift _ _ (0 + Z.of_nat (h * Z.to_nat w))).
  rewrite Z.add_0_r. apply zsum_map_ext. intros b Hb. rewrite range_In in Hb.
  rewrite Nat2Z.inj_mul, Z2Nat.id by lia.
  rewrite !Z.add_0_l. rewrite Z.div_add, Z.mod_add by lia.
  rewrite Z.div_small, Z.mod_small by lia. reflexivity.
Qed.

(* ------------------------------------------------------------------ the census transform is a bit string *)

(* most significant bit first in the sum = least significant bit first in the reversed list *)
Lemma msb_sum : forall (P : Z -> bool) (n : nat),
  zsum (map (fun i => if P i then 2 ^ (Z.of_nat n - 1 - i) else 0) (range 0 n))
  = bvl (rev (map P (range 0 n))).
Proof.
  intros P. induction n; [reflexivity|].
  assert (E : range 0 (S n) = range 0 n ++ [Z.of_nat n]).
  { replace (S n) with (n + 1)%nat by lia. rewrite range_app. reflexivity. }
  rewrite E, !map_app, zsum_app, rev_app_distr. cbn [map rev app zsum bvl].
  rewrite <- IHn. rewrite <- zsum_map_mul.
  replace (Z.of_nat (S n) - 1 - Z.of_nat n) with 0 by lia. change (2 ^ 0) with 1.
  rewrite (zsum_map_ext _ (fun x => 2 * (if P x then 2 ^ (Z.of_nat n - 1 - x) else 0))).
  - destruct (P (Z.of_nat n)); cbn [Z.b2z]; lia.
  - intros i Hi. rewrite range_In in Hi. destruct (P i); [|reflexivity].
    replace (Z.of_nat (S n) - 1 - i) with (Z.succ (Z.of_nat n - 1 - i)) by lia.
    rewrite Z.pow_succ_r by lia. reflexivity.
Qed.

(* the bits of the census transform of the window whose upper-left corner is (r, c): one per window
   pixel, "greater than the centre", last window pixel first *)
Definition cbits (w : Z) (I : img) (r c : Z) : list bool :=
  rev (map (fun i => I (r + i / w) (c + i mod w) >? I (r + offset w) (c + offset w))
           (range 0 (Z.to_nat w * Z.to_nat w))).

Lemma census_transform_bits : forall w I r c, 0 < w -> census_transform w I r c = bvl (cbits w I r c).
Proof.
  intros w I r c Hw. unfold census_transform, cbits. cbv zeta.
  rewrite <- msb_sum. unfold zrange at 2.
  rewrite (zsum_flatten (fun a b => if I (r + a) (c + b) >? I (r + offset w) (c + offset w)
                                    then 2 ^ (w * w - 1 - (a * w + b)) else 0) w (Z.to_nat w) Hw).
  apply zsum_map_ext. intros i Hi. cbv beta.
  destruct (I (r + i / w) (c + i mod w) >? I (r + offset w) (c + offset w)); [|reflexivity].
  f_equal. rewrite Nat2Z.inj_mul, Z2Nat.id by lia. pose proof (Z.div_mod i w). lia.
Qed.

(* census cost of two windows = Hamming distance of their bit strings = number of window pixels
   whose bits differ (popcount32b is exact because a window of at most 5 x 5 fits in 32 bits) *)
Lemma census_hamming : forall w I J r c r2 c2, 0 < w -> w * w <= 32 ->
  popcount32b (Z.lxor (census_transform w I r c) (census_transform w J r2 c2))
  = zsum (map (fun a => zsum (map (fun b =>
       Z.b2z (xorb (I (r + a) (c + b) >? I (r + offset w) (c + offset w))
                   (J (r2 + a) (c2 + b) >? J (r2 + offset w) (c2 + offset w)))) (zrange 0 w))) (zrange 0 w)).
Proof.
  intros w I J r c r2 c2 Hw Hww. rewrite !census_transform_bits by exact Hw. unfold cbits.
  set (n := (Z.to_nat w * Z.to_nat w)%nat).
  set (PL := fun i => I (r + i / w) (c + i mod w) >? I (r + offset w) (c + offset w)).
  set (PR := fun i => J (r2 + i / w) (c2 + i mod w) >? J (r2 + offset w) (c2 + offset w)).
  set (l := rev (map (fun i => (PL i, PR i)) (range 0 n))).
  assert (E1 : rev (map PL (range 0 n)) = map fst l).
  { subst l. rewrite map_rev, map_map. reflexivity. }
  assert (E2 : rev (map PR (range 0 n)) = map snd l).
  { subst l. rewrite map_rev, map_map. reflexivity. }
  rewrite E1, E2. rewrite popcount_xor_hamming.
  - subst l. rewrite map_rev, zsum_rev, map_map. cbn [fst snd].
    unfold zrange at 2.
    rewrite (zsum_flatten (fun a b => Z.b2z (xorb (I (r + a) (c + b) >? I (r + offset w) (c + offset w))
                                                  (J (r2 + a) (c2 + b) >? J (r2 + offset w) (c2 + offset w))))
                          w (Z.to_nat w) Hw).
    reflexivity.
  - subst l. rewrite rev_length, map_length, range_length. subst n.
    rewrite <- Z2Nat.inj_mul by lia. change 32%nat with (Z.to_nat 32). apply Z2Nat.inj_le; lia.
Qed.

Lemma census_transform_ext : forall w I J r c, (forall rr cc, I rr cc = J rr cc) ->
  census_transform w I r c = census_transform w J r c.
Proof.
  intros w I J r c H. unfold census_transform. cbv zeta.
  apply zsum_map_ext. intros a _. apply zsum_map_ext. intros b _. now rewrite !H.
Qed.

(* ------------------------------------------------------------------ the plane of one disparity *)

Section CensusCell.
  Variable inp : mc_input.
  Let ny := i_ny inp. Let nx := i_nx inp. Let w := i_w inp. Let s := i_s inp.
  Let off := offset w.
  Hypothesis Hw : 0 < w.
  Hypothesis Hodd : Z.odd w = true.
  Hypothesis Hs : 0 < s.

  Let Hw2 : w = 2 * off + 1 /\ 0 <= off := odd_offset w Hw Hodd.

  Lemma shift_width_crop : forall i, shift_width nx i - 2 * off = shift_width (nx - 2 * off) i.
  Proof. intros. unfold shift_width. destruct (i =? 0); lia. Qed.

  (* the range test of census_plane (ranges of point_interval on the transformed images, which have
     nx - 2 off columns) says that both windows are inside their image *)
  Lemma census_cond : forall r c D, 0 <= r < ny -> 0 <= c < nx ->
    let nx' := nx - 2 * off in
    (0 <=? r - off) && (r - off <? ny - 2 * off) && (p0_ s nx' D <=? c - off) && (c - off <? p1_ s nx' D)
    && (c - off <? nx')
    = not_border ny nx off r c && allin s ny nx w D r c.
  Proof.
    intros r c D Hr Hc nx'. apply eq_iff_eq_true.
    pose proof (model_windows inp Hw Hodd Hs r c D Hr Hc) as MW. unfold WI in MW.
    change (i_ny inp) with ny in MW. change (i_nx inp) with nx in MW. change (i_s inp) with s in MW.
    change (i_w inp) with w in MW. change (offset w) with off in MW. rewrite MW. clear MW.
    pose proof (pi_bounds s nx' D Hs) as PB. cbv zeta in PB. fold (PI s nx' D) in PB.
    fold (p0_ s nx' D) (p1_ s nx' D) (q0_ s nx' D) in PB.
    pose proof (pi_spec s nx' D Hs (c - off)) as PS. cbv zeta in PS. fold (PI s nx' D) in PS.
    fold (p0_ s nx' D) (p1_ s nx' D) in PS.
    subst nx'. split; intros H; lia.
  Qed.

  Lemma census_plane_eq : forall cl cr D r c, 0 <= r < ny -> 0 <= c < nx ->
    census_plane inp cl cr D r c =
    if not_border ny nx off r c && allin s ny nx w D r c
    then Some (popcount32b (Z.lxor (cl (r - off) (c - off)) (cr (i_right s D) (r - off) (c - off + D / s))))
    else None.
  Proof.
    intros cl cr D r c Hr Hc. unfold census_plane. cbv zeta. fold ny nx w s off.
    rewrite shift_width_crop. fold (PI s (nx - 2 * off) D).
    fold (p0_ s (nx - 2 * off) D) (p1_ s (nx - 2 * off) D) (q0_ s (nx - 2 * off) D).
    pose proof (census_cond r c D Hr Hc) as CC. cbv zeta in CC. rewrite CC.
    destruct (not_border ny nx off r c && allin s ny nx w D r c); [|reflexivity].
    pose proof (pi_offset s (nx - 2 * off) D Hs) as PO. cbv zeta in PO. fold (PI s (nx - 2 * off) D) in PO.
    fold (p0_ s (nx - 2 * off) D) (q0_ s (nx - 2 * off) D) in PO.
    replace (q0_ s (nx - 2 * off) D + (c - off - p0_ s (nx - 2 * off) D)) with (c - off + D / s) by lia.
    reflexivity.
  Qed.

  (* nothing is computable in an image smaller than the window *)
  Lemma too_small_not_windows : forall r c D, 0 <= r < ny -> 0 <= c < nx ->
    too_small ny nx w = true -> not_border ny nx off r c && allin s ny nx w D r c = false.
  Proof.
    intros r c D Hr Hc T.
    destruct (not_border ny nx off r c && allin s ny nx w D r c) eqn:E; [|reflexivity].
    apply (model_windows inp Hw Hodd Hs r c D Hr Hc) in E. unfold WI in E.
    change (i_ny inp) with ny in E. change (i_nx inp) with nx in E. change (i_s inp) with s in E.
    change (i_w inp) with w in E. change (offset w) with off in E.
    unfold too_small in T. lia.
  Qed.
End CensusCell.

(* ------------------------------------------------------------------ values *)

Lemma Qle_bool_same_den : forall a b p, Qle_bool (a # p) (b # p) = (a <=? b).
Proof.
  intros a b p. apply eq_iff_eq_true. rewrite Qle_bool_iff. unfold Qle. cbn [Qnum Qden].
  rewrite Z.leb_le. split; intros H.
  - apply Z.mul_le_mono_pos_r in H; [exact H|reflexivity].
  - apply Z.mul_le_mono_pos_r; [reflexivity|exact H].
Qed.

Lemma qgtb_scaled : forall x y a b p, x == a # p -> y == b # p -> qgtb x y = (a >? b).
Proof.
  intros x y a b p Hx Hy. unfold qgtb. rewrite Hx, Hy, Qle_bool_same_den.
  rewrite Z.gtb_ltb, Z.ltb_antisym. reflexivity.
Qed.

Lemma qsum_zsum : forall {X} (f : X -> Q) (g : X -> Z) l,
  (forall x, In x l -> f x == inject_Z (g x)) -> qsum (map f l) == inject_Z (zsum (map g l)).
Proof. intros. unfold inject_Z. apply qsum_scaled. exact H. Qed.

(* the census cost of the spec, as the count the model computes *)
Lemma census_spec_count : forall w s L R r c D, 0 < w -> Z.odd w = true -> 0 < s ->
  census_spec w s L R r c D ==
  inject_Z (zsum (map (fun a => zsum (map (fun b =>
     Z.b2z (xorb (L (r - offset w + a) (c - offset w + b) >? L (r - offset w + offset w) (c - offset w + offset w))
                 (shift_right s R (i_right s D) (r - offset w + a) (c - offset w + D / s + b)
                  >? shift_right s R (i_right s D) (r - offset w + offset w) (c - offset w + D / s + offset w))))
     (zrange 0 w))) (zrange 0 w))).
Proof.
  intros w s L R r c D Hw Hodd Hs. unfold census_spec.
  rewrite (qsum_zsum _ (fun a => zsum (map (fun b =>
     Z.b2z (xorb (L (r + a) (c + b) >? L r c)
                 (shift_right s R (i_right s D) (r + a) (c + b + D / s)
                  >? shift_right s R (i_right s D) r (c + D / s)))) (win w)))).
  - assert (E : forall x y : Z, x = y -> inject_Z x == inject_Z y) by (intros; subst; reflexivity).
    apply E. rewrite win_zrange. unfold zrange. rewrite zsum2_shift.
    apply zsum_map_ext. intros a _. apply zsum_map_ext. intros b _.
    f_equal. f_equal; f_equal; f_equal; lia.
  - intros a _. apply qsum_zsum. intros b _.
    rewrite (qgtb_scaled (lval L (r + a) (c + b)) (lval L r c) (s * L (r + a) (c + b)) (s * L r c) (Z.to_pos s))
      by (apply lval_scaled; exact Hs).
    rewrite (qgtb_scaled (rval s R (r + a) (c + b) D) (rval s R r c D) _ _ (Z.to_pos s)
               (rval_scaled R s (r + a) (c + b) D Hs) (rval_scaled R s r c D Hs)).
    replace (s * L (r + a) (c + b) >? s * L r c) with (L (r + a) (c + b) >? L r c).
    + destruct (L (r + a) (c + b) >? L r c), (_ >? _); reflexivity.
    + apply eq_iff_eq_true. rewrite !Z.gtb_lt. split; intros H.
      * apply Z.mul_lt_mono_pos_l; assumption.
      * apply Z.mul_lt_mono_pos_l in H; assumption.
Qed.

(* ------------------------------------------------------------------ C02: census *)

Lemma census_volume_z_eq : forall inp dmin dmax r c k, wf_cfg inp -> i_w inp * i_w inp <= 32 ->
  0 <= r < i_ny inp -> 0 <= c < i_nx inp -> 0 <= k < nb_disp (i_s inp) dmin dmax ->
  census_volume_z inp dmin dmax r c k =
  let D := disp_scaled (i_s inp) dmin k in
  let off := offset (i_w inp) in
  if computable_in inp r c D
  then Some (popcount32b (Z.lxor
               (census_transform (i_w inp) (i_L inp) (r - off) (c - off))
               (census_transform (i_w inp) (shift_right (i_s inp) (i_R inp) (i_right (i_s inp) D))
                                 (r - off) (c - off + D / i_s inp))))
  else None.
Proof.
  intros inp dmin dmax r c k [Hw [Hodd Hs]] Hww Hr Hc Hk. cbv zeta.
  unfold census_volume_z. cbv zeta. rewrite memo3_eq.
  unfold computable_in. rewrite <- (model_cond_computable inp Hw Hodd Hs r c _ Hr Hc).
  apply (cv_masked_eq inp Hw Hodd Hs); try assumption.
  cbv beta.
  destruct (too_small (i_ny inp) (i_nx inp) (i_w inp)) eqn:T.
  - rewrite (too_small_not_windows inp Hw Hodd Hs r c _ Hr Hc T). reflexivity.
  - rewrite memo1_eq, memo2_eq. rewrite (census_plane_eq inp Hw Hodd Hs) by assumption.
    destruct (not_border _ _ _ r c && allin _ _ _ _ _ r c); [|reflexivity].
    rewrite memo2_eq, memo1_eq, memo2_eq. do 3 f_equal.
    apply census_transform_ext. intros. apply shifted_images_eq.
Qed.

Lemma census_model_eq_spec : forall inp dmin dmax r c k, wf_cfg inp -> i_w inp * i_w inp <= 32 ->
  0 <= r < i_ny inp -> 0 <= c < i_nx inp -> 0 <= k < nb_disp (i_s inp) dmin dmax ->
  census_volume inp dmin dmax r c k =
  let D := disp_scaled (i_s inp) dmin k in
  if computable_in inp r c D
  then Some (Qred (census_spec (i_w inp) (i_s inp) (i_L inp) (i_R inp) r c D)) else None.
Proof.
  intros inp dmin dmax r c k Hwf Hww Hr Hc Hk. cbv zeta. unfold census_volume. cbv zeta.
  rewrite (census_volume_z_eq inp dmin dmax r c k Hwf Hww Hr Hc Hk). cbv zeta.
  destruct (computable_in inp r c (disp_scaled (i_s inp) dmin k)); cbn [omap]; [|reflexivity].
  f_equal. unfold cost_q. apply Qred_complete. symmetry.
  destruct Hwf as [Hw [Hodd Hs]].
  rewrite (census_spec_count _ _ _ _ r c _ Hw Hodd Hs).
  rewrite census_hamming by assumption. reflexivity.
Qed.

(* ------------------------------------------------------------------ the census cost never exceeds cmax = w * w *)

Lemma zsum_range_bound : forall {X} (f : X -> Z) hi l, (forall x, In x l -> 0 <= f x <= hi) ->
  0 <= zsum (map f l) <= Z.of_nat (length l) * hi.
Proof.
  induction l as [|a l IH]; intros H; cbn [map zsum length]; [lia|].
  rewrite Nat2Z.inj_succ. pose proof (H a (or_introl eq_refl)).
  assert (0 <= zsum (map f l) <= Z.of_nat (length l) * hi) by (apply IH; intros; apply H; now right).
  lia.
Qed.

Lemma census_cost_bounded : forall inp dmin dmax r c k z, wf_cfg inp -> i_w inp * i_w inp <= 32 ->
  0 <= r < i_ny inp -> 0 <= c < i_nx inp -> 0 <= k < nb_disp (i_s inp) dmin dmax ->
  census_volume_z inp dmin dmax r c k = Some z -> 0 <= z <= cmax Census inp.
Proof.
  intros inp dmin dmax r c k z Hwf Hww Hr Hc Hk H.
  rewrite (census_volume_z_eq inp dmin dmax r c k Hwf Hww Hr Hc Hk) in H. cbv zeta in H.
  destruct (computable_in inp r c (disp_scaled (i_s inp) dmin k)); [|discriminate].
  inversion H as [E]. clear H E. destruct Hwf as [Hw _].
  rewrite census_hamming by assumption. cbn [cmax].
  set (w := i_w inp) in *.
  assert (L : Z.of_nat (length (zrange 0 w)) = w).
  { unfold zrange. rewrite range_length. lia. }
  match goal with |- 0 <= zsum (map ?f _) <= _ =>
    pose proof (zsum_range_bound f w (zrange 0 w)) as B end.
  rewrite L in B. apply B. intros a _.
  match goal with |- 0 <= zsum (map ?g _) <= _ =>
    pose proof (zsum_range_bound g 1 (zrange 0 w)) as B2 end.
  rewrite L in B2. rewrite Z.mul_1_r in B2. apply B2. intros b _.
  destruct (xorb _ _); cbn [Z.b2z]; lia.
Qed.
