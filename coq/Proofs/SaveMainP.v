(* C19: the model of what pandora.main leaves on disk (Model/SaveMain.v main_flow) against the models of its parts:
   the text of <output>/cfg/config.json is Model/SavedFile.v main_file applied to the text of the configuration file
   given, whenever check_conf is the modelled one and the run writes into cfg what Model/SavedCfg.v run_rewrites says;
   everything else main writes is a raster of save_results. *)
From Coq Require Import ZArith QArith List Bool String.
From Pandora Require Import Model.Json Model.JsonText Model.Checker Model.Pipeline Model.Save Model.SavePrims
  Model.SaveMain Model.SavedCfg Model.SavedFile Proofs.SaveP
  Proofs.CheckerP Proofs.SavedCfgP Proofs.RewriteP Proofs.IndicatorP Proofs.JsonP Proofs.GuardP Proofs.JsonTextP Proofs.SavedFileP.
Import ListNotations.
Open Scope string_scope.

Section MainFlow.
  Variable rnd : Q -> Q.
  Variables C T M IMG : Type.
  Variable otd : list (string * string).
  Variable calls : list call.
  Variable D : input_defs.
  Variable orc : string -> jv -> option bool.
  Variable grid_ok : jv -> jv -> bool.
  Variable images_ok : dict -> bool.
  Variable bands_of : jv -> list jv.
  Variable classes : list class_def.
  Variable interp : list string.

  Notation full_check := (full_check D orc grid_ok images_ok bands_of classes interp).
  Notation main_file := (main_file D orc grid_ok images_ok bands_of classes interp).

  (* the environment of main, as far as the configuration goes: check_conf(user_cfg, machine) returns what the model
     of check_conf returns (whatever it does to the machine; a configuration that is not a dictionary is refused),
     and the cfg dictionary after run is run_rewrites of the one given (the `indicator` entries) *)
  Definition env_cfg_ok (E : env C T M IMG) : Prop :=
    (forall u m, option_map fst (e_check_conf E u m)
                 = match u with JDict ud => option_map JDict (full_check ud) | _ => None end)
    /\ (forall m il ir cd l r m' c', e_run E m il ir (JDict cd) = Some (l, r, m', c') -> c' = JDict (run_rewrites cd)).

  Definition is_tif (e : effect C T) : Prop := exists f, e = FTif f.

  Theorem main_flow_config (E : env C T M IMG) cfg_path output fx :
    cfg_path_ok otd = true -> env_cfg_ok E ->
    main_flow rnd C T M IMG otd calls E cfg_path output = Some fx ->
    exists text tifs m out,
      e_read_file E cfg_path = Some text
      /\ main_file m text = Some out
      /\ fx = (tifs ++ [FText (path_join output "./cfg/config.json") out])%list
      /\ (forall e, In e tifs -> is_tif e).
  Proof.
    intros PO [EC ER] H. unfold main_flow in H.
    destruct (e_read_file E cfg_path) as [text|] eqn:Rd; cbn [bind] in H; [|discriminate].
    destruct (parse text) as [user|] eqn:Pt; cbn [bind] in H; [|discriminate].
    destruct (e_check_conf E user (e_new_machine E)) as [[cfg m1]|] eqn:Ck; cbn [bind] in H; [|discriminate].
    pose proof (EC user (e_new_machine E)) as EC'. rewrite Ck in EC'. cbn [option_map fst] in EC'.
    destruct user as [| | | | | | | |ud]; try discriminate.
    destruct (full_check ud) as [cd|] eqn:Fc; [|discriminate]. cbn [option_map] in EC'.
    assert (cfg = JDict cd) by (inversion EC'; reflexivity). subst cfg. clear EC'.
    destruct (jv_get (JDict cd) "input") as [inp|]; cbn [bind] in H; [|discriminate].
    destruct (jv_get inp "left") as [l|]; cbn [bind] in H; [|discriminate].
    destruct (e_create_dataset E l) as [imgl|]; cbn [bind] in H; [|discriminate].
    destruct (jv_get inp "right") as [r|]; cbn [bind] in H; [|discriminate].
    destruct (right_input_of l r) as [ri|]; cbn [bind] in H; [|discriminate].
    destruct (e_create_dataset E ri) as [imgr|]; cbn [bind] in H; [|discriminate].
    destruct (e_check_datasets E imgl imgr) as [u|]; cbn [bind] in H; [|discriminate].
    destruct (e_run E m1 imgl imgr (JDict cd)) as [[[[lft rgt] m2] cfg2]|] eqn:Rn; cbn [bind] in H; [|discriminate].
    pose proof (ER _ _ _ _ _ _ _ _ Rn) as ->.
    destruct (save_results_model rnd C T otd calls lft rgt output) as [fs|] eqn:Sv; cbn [bind] in H; [|discriminate].
    cbn [jv_set bind] in H. unfold save_config_model in H.
    unfold cfg_path_ok in PO. destruct (out_path otd "config.json") as [p|]; [|discriminate].
    apply String.eqb_eq in PO. subst p. cbn [bind] in H.
    exists text, fs, (e_margins_to_dict E m2), (print (JDict (set_key "margins" (e_margins_to_dict E m2) (run_rewrites cd)))).
    split; [reflexivity|]. split; [|split].
    - unfold SavedFile.main_file. rewrite Pt. unfold main_saved. rewrite Fc. reflexivity.
    - inversion H. reflexivity.
    - unfold save_results_model in Sv. destruct lft as [lp|]; [|discriminate].
      destruct (run_calls rnd (C * T) otd lp rgt calls) as [tf|]; [|discriminate].
      inversion Sv. intros e He. apply in_map_iff in He as [f [<- _]]. exists (in_dir C T output f). reflexivity.
  Qed.

  (* ---- the saved configuration replays, at the level of main *)
  Hypothesis W : classes_wf classes = true.
  Hypothesis CW : confidence_wf classes = true.
  Hypothesis S : classes_scalar classes = true.
  Hypothesis DW : defs_wf D = true.
  Hypothesis PO : cfg_path_ok otd = true.

  Notation flow := (main_flow rnd C T M IMG otd calls).

  Theorem main_flow_replays (E : env C T M IMG) cfg_path output fx :
    env_cfg_ok E -> flow E cfg_path output = Some fx ->
    exists text user cfg m saved tifs,
      e_read_file E cfg_path = Some text /\ parse text = Some (JDict user) /\ full_check user = Some cfg
      /\ saved = set_key "margins" m (run_rewrites cfg)
      /\ fx = (tifs ++ [FText (path_join output "./cfg/config.json") (print (JDict saved))])%list
      /\ (forall e, In e tifs -> is_tif e)
      /\ (text_input_keys_once text = true -> printable (JDict saved) = true ->
          full_check saved = Some (run_rewrites cfg)
          /\ forall (E' : env C T M IMG) cfg_path' output' fx',
               env_cfg_ok E' -> e_read_file E' cfg_path' = Some (print (JDict saved)) ->
               flow E' cfg_path' output' = Some fx' ->
               exists tifs' m',
                 fx' = (tifs' ++ [FText (path_join output' "./cfg/config.json")
                                        (print (JDict (set_key "margins" m' (run_rewrites cfg))))])%list
                 /\ (forall e, In e tifs' -> is_tif e)).
  Proof.
    intros EO H.
    destruct (main_flow_config E cfg_path output fx PO EO H) as [text [tifs [m [out [Rd [Mf [Fx Tf]]]]]]].
    pose proof Mf as Mf0. unfold SavedFile.main_file in Mf0.
    destruct (parse text) as [[| | | | | | | |user]|] eqn:Pt; try discriminate.
    unfold main_saved in Mf0. destruct (full_check user) as [cfg|] eqn:Fc; [|discriminate].
    assert (out = print (JDict (set_key "margins" m (run_rewrites cfg)))) by (inversion Mf0; reflexivity). subst out.
    exists text, user, cfg, m, (set_key "margins" m (run_rewrites cfg)), tifs.
    repeat (split; [first [reflexivity|assumption]|]).
    intros KO Pr.
    destruct (saved_file_replays D orc grid_ok images_ok bands_of classes interp W CW S DW m text _ KO Mf)
      as [user' [cfg' [saved' [Pt' [Fc' [Es [Eo Rp]]]]]]].
    rewrite Pt in Pt'. inversion Pt'; subst user'. rewrite Fc in Fc'. inversion Fc'; subst cfg'. subst saved'.
    destruct (Rp Pr) as [Pp [Cf _]].
    rewrite check_file_eq, Pp in Cf.
    split; [exact Cf|].
    remember (print (JDict (set_key "margins" m (run_rewrites cfg)))) as pv eqn:Hpv.
    intros E' cfg_path' output' fx' EO' Rd' H'.
    destruct (main_flow_config E' cfg_path' output' fx' PO EO' H') as [text' [tifs' [m' [out' [Rd2 [Mf' [Fx' Tf']]]]]]].
    rewrite Rd' in Rd2. injection Rd2 as Et. subst text'.
    unfold SavedFile.main_file in Mf'. rewrite Pp in Mf'. unfold main_saved in Mf'. rewrite Cf in Mf'.
    rewrite run_rewrites_idem in Mf'. injection Mf' as Eo'. subst out'.
    exists tifs', m'. split; [exact Fx'|exact Tf'].
  Qed.
End MainFlow.
