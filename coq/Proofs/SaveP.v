(* C19: the model of save_results (Model/Save.v), run on ANY call table that passes the boolean
   test plan_wf (re-established by vm_compute on the table regenerated from /repo), writes
   exactly the files the specification (Spec/Save.v) describes, value for value. *)
From Coq Require Import ZArith QArith List Bool String Lia Permutation.
From Pandora Require Import Model.Save Spec.Save.
Import ListNotations.

(* ---------------------------------------------------------------- the documented calls *)

Definition opt_var_eqb (a b : option var) : bool :=
  match a, b with
  | None, None => true
  | Some x, Some y => var_eqb x y
  | _, _ => false
  end.

Definition call_eqb (a b : call) : bool :=
  side_eqb (c_side a) (c_side b) && var_eqb (c_var a) (c_var b) && String.eqb (c_key a) (c_key b)
  && dtype_eqb (c_dtype a) (c_dtype b) && Bool.eqb (c_names a) (c_names b)
  && side_eqb (c_geo a) (c_geo b) && opt_var_eqb (c_guard a) (c_guard b)
  && Bool.eqb (c_right_guard a) (c_right_guard b).

Lemma call_eqb_eq a b : call_eqb a b = true -> a = b.
Proof.
  destruct a as [s v k t n g gu rg], b as [s' v' k' t' n' g' gu' rg']. unfold call_eqb. cbn.
  rewrite !andb_true_iff. intros [[[[[[[H1 H2] H3] H4] H5] H6] H7] H8].
  apply String.eqb_eq in H3. apply Bool.eqb_prop in H5. apply Bool.eqb_prop in H8. subst.
  destruct s, s'; try discriminate; destruct v, v'; try discriminate; destruct t, t'; try discriminate;
    destruct g, g'; try discriminate;
    destruct gu as [[]|], gu' as [[]|]; try discriminate; reflexivity.
Qed.

Open Scope string_scope.

(* per side: the disparity map as float32, the confidence cube as float32 with its indicator
   names when the variable exists, the validity mask as uint16, georeferenced by the same
   dataset; the right ones only when right products exist *)
Definition doc_calls : list call :=
  [mkCall SLeft VDisp "left_disparity.tif" F32 false SLeft None false;
   mkCall SLeft VConf "left_confidence_measure.tif" F32 true SLeft (Some VConf) false;
   mkCall SLeft VMask "left_validity_mask.tif" U16 false SLeft None false;
   mkCall SRight VDisp "right_disparity.tif" F32 false SRight None true;
   mkCall SRight VConf "right_confidence_measure.tif" F32 true SRight (Some VConf) true;
   mkCall SRight VMask "right_validity_mask.tif" U16 false SRight None true].

Definition otd_ok (otd : list (string * string)) : bool :=
  forallb (fun c => match otd_lookup (c_key c) otd with Some d => String.eqb d "." | None => false end) doc_calls.

(* the same calls in any order, and the six products in the root of the output directory *)
Definition plan_wf (calls : list call) (otd : list (string * string)) : bool :=
  Nat.eqb (List.length calls) 6
  && forallb (fun d => existsb (call_eqb d) calls) doc_calls
  && otd_ok otd.

(* config.json goes to ./cfg (Spec: "cfg/config.json") *)
Definition cfg_path_ok (otd : list (string * string)) : bool :=
  match out_path otd "config.json" with Some p => String.eqb p "./cfg/config.json" | None => false end.

Close Scope string_scope.

Lemma doc_calls_nodup : NoDup doc_calls.
Proof.
  unfold doc_calls.
  repeat (constructor; [cbn; intuition discriminate|]). constructor.
Qed.

Lemma plan_wf_perm calls otd : plan_wf calls otd = true -> Permutation doc_calls calls /\ otd_ok otd = true.
Proof.
  unfold plan_wf. rewrite !andb_true_iff. intros [[L I] O]. split; [|exact O].
  apply NoDup_Permutation_bis.
  - exact doc_calls_nodup.
  - apply Nat.eqb_eq in L. rewrite L. cbn. lia.
  - intros d Hd. rewrite forallb_forall in I. specialize (I d Hd).
    apply existsb_exists in I as [c [Hc E]]. apply call_eqb_eq in E. subst. exact Hc.
Qed.

Section P.
  Variable rnd : Q -> Q.
  Variable f32 : Q -> Prop.
  (* IEEE-754 contract of the float32 cast: a representable value is returned unchanged *)
  Hypothesis rnd_id : forall q, f32 q -> rnd q = q.
  Variable G : Type.

  (* ------------------------------------------------------------------ casts *)

  Lemma cast_mask_exact p : mask_px_ok p -> cast rnd U16 p = p.
  Proof. intros [m [-> Hm]]. cbn. f_equal. apply Z.mod_small. lia. Qed.

  Lemma cast_float_exact p : float_px_ok f32 p -> cast rnd F32 p = p.
  Proof. intros [->|[q [-> Hq]]]; cbn; [reflexivity|]. rewrite (rnd_id q Hq). reflexivity. Qed.

  Lemma map2_id (g : px -> px) (P : px -> Prop) d :
    (forall p, P p -> g p = p) -> all2 P d -> map (map g) d = d.
  Proof.
    intros Hg H. rewrite <- (map_id d) at 2. apply map_ext_in. intros row Hr.
    rewrite <- (map_id row) at 2. apply map_ext_in. intros p Hp. apply Hg. exact (H row Hr p Hp).
  Qed.

  (* ------------------------------------------------------------------ one raster *)

  Lemma raster_written (path : string) t (P : px -> Prop) d (g : G) :
    (forall p, P p -> cast rnd t p = p) -> all2 P d ->
    raster_ok G (write_data_array rnd G (A2 d) path t None g) t d g.
  Proof.
    intros Hc Hd. unfold raster_ok, write_data_array, band_px. cbn.
    rewrite (map2_id (cast rnd t) P d Hc Hd).
    repeat split; try reflexivity. intros rows E. inversion E. reflexivity.
  Qed.

  Lemma nth_error_seq_map_aux {A} (f : nat -> A) n : forall a k,
    (k < n)%nat -> nth_error (map f (seq a n)) k = Some (f (a + k)%nat).
  Proof.
    induction n as [|n IH]; intros a k H; [lia|].
    destruct k as [|k]; cbn; [rewrite Nat.add_0_r; reflexivity|].
    rewrite IH by lia. f_equal. f_equal. lia.
  Qed.

  Lemma nth_error_seq_map {A} (f : nat -> A) n k :
    (k < n)%nat -> nth_error (map f (seq 0 n)) k = Some (f k).
  Proof. intro H. rewrite nth_error_seq_map_aux by exact H. reflexivity. Qed.

  (* ------------------------------------------------------------------ the confidence cube *)

  Lemma conf_written (path : string) names cube (g : G) :
    cube_wf names cube -> all3 (float_px_ok f32) cube ->
    conf_ok G (write_data_array rnd G (A3 (List.length names) cube) path F32 (Some names) g) names cube g.
  Proof.
    intros W A. unfold conf_ok, write_data_array. cbn [f_dtype f_geo f_bands f_names].
    repeat split; try reflexivity.
    - rewrite map_length, seq_length. reflexivity.
    - intros k Hk r c. unfold band_px. cbn [f_bands].
      rewrite (nth_error_seq_map _ _ _ Hk). unfold at2, at3, slice3.
      rewrite !nth_error_map.
      destruct (nth_error cube r) as [row|] eqn:Er; cbn; [|reflexivity].
      rewrite !nth_error_map.
      destruct (nth_error row c) as [pxs|] eqn:Ec; cbn; [|reflexivity].
      pose proof (nth_error_In _ _ Er) as Ir. pose proof (nth_error_In _ _ Ec) as Ic.
      pose proof (W row Ir pxs Ic) as L.
      assert (Hk' : (k < List.length pxs)%nat) by lia.
      destruct (nth_error pxs k) as [p|] eqn:Ek.
      + rewrite (nth_error_nth _ _ _ Ek).
        f_equal. exact (cast_float_exact p (A row Ir pxs Ic p (nth_error_In _ _ Ek))).
      + apply nth_error_None in Ek. lia.
  Qed.

  (* ------------------------------------------------------------------ permutations *)

  Lemma run_calls_perm otd left right cs cs' :
    Permutation cs cs' -> forall fs, run_calls rnd G otd left right cs = Some fs ->
    exists fs', run_calls rnd G otd left right cs' = Some fs' /\ Permutation fs fs'.
  Proof.
    induction 1 as [|c l l' Hp IH|a b l|l l' l'' H1 IH1 H2 IH2]; intros fs H.
    - exists fs. split; [exact H|apply Permutation_refl].
    - cbn in H. destruct (run_call rnd G otd left right c) as [x|] eqn:Ec; [|discriminate].
      destruct (run_calls rnd G otd left right l) as [y|] eqn:El; [|discriminate].
      inversion H; subst. destruct (IH y eq_refl) as [y' [E' P']].
      exists (x ++ y'). split; [cbn; rewrite Ec, E'; reflexivity|apply Permutation_app_head; exact P'].
    - cbn in H. cbn.
      destruct (run_call rnd G otd left right b) as [x|]; [|discriminate].
      destruct (run_call rnd G otd left right a) as [y|]; [|destruct (run_calls rnd G otd left right l); discriminate].
      destruct (run_calls rnd G otd left right l) as [z|]; [|discriminate].
      inversion H; subst. exists (y ++ x ++ z). split; [reflexivity|apply Permutation_app_swap_app].
    - destruct (IH1 fs H) as [f1 [E1 P1]]. destruct (IH2 f1 E1) as [f2 [E2 P2]].
      exists f2. split; [exact E2|eapply Permutation_trans; eassumption].
  Qed.

  Lemma written_perm fs fs' path ok : Permutation fs fs' -> written G fs path ok -> written G fs' path ok.
  Proof. intros P [f [I R]]. exists f. split; [eapply Permutation_in; eassumption|exact R]. Qed.

  Lemma not_written_perm fs fs' path : Permutation fs fs' -> not_written G fs path -> not_written G fs' path.
  Proof. intros P H f I. apply H. eapply Permutation_in; [apply Permutation_sym; exact P|exact I]. Qed.

  Lemma side_ok_perm s p fs fs' : Permutation fs fs' -> side_ok G s p fs -> side_ok G s p fs'.
  Proof.
    intros P [A [B C]]. split; [|split]; try (eapply written_perm; eassumption).
    destruct (p_conf p) as [[names cube]|]; [eapply written_perm|eapply not_written_perm]; eassumption.
  Qed.

  Lemma saved_ok_perm left right fs fs' : Permutation fs fs' -> saved_ok G left right fs -> saved_ok G left right fs'.
  Proof.
    intros P [A [B [C D]]]. split; [|split; [|split]].
    - eapply side_ok_perm; eassumption.
    - destruct right as [r|]; [eapply side_ok_perm; eassumption|].
      destruct B as [B1 [B2 B3]]. split; [|split]; eapply not_written_perm; eassumption.
    - eapply Permutation_NoDup; [apply Permutation_map; exact P|exact C].
    - intros f I. apply D. eapply Permutation_in; [apply Permutation_sym; exact P|exact I].
  Qed.

  (* ------------------------------------------------------------------ the documented table *)

  Lemma otd_paths otd : otd_ok otd = true ->
    forall c, In c doc_calls -> out_path otd (c_key c) = Some ("./" ++ c_key c)%string.
  Proof.
    unfold otd_ok. rewrite forallb_forall. intros H c Hc. specialize (H c Hc). unfold out_path.
    destruct (otd_lookup (c_key c) otd) as [d|]; [|discriminate].
    apply String.eqb_eq in H. subst. reflexivity.
  Qed.

  Definition right_ok (right : option (product G)) : Prop :=
    match right with Some r => product_ok G f32 r | None => True end.

  Ltac in_list := cbn; tauto.

  Lemma doc_saved_ok otd left right :
    otd_ok otd = true -> product_ok G f32 left -> right_ok right ->
    exists fs, run_calls rnd G otd left right doc_calls = Some fs /\ saved_ok G left right fs.
  Proof.
    intros O HL HR.
    pose proof (otd_paths otd O) as Hp.
    assert (P1 := Hp _ (or_introl eq_refl)).
    assert (P2 := Hp _ (or_intror (or_introl eq_refl))).
    assert (P3 := Hp _ (or_intror (or_intror (or_introl eq_refl)))).
    assert (P4 := Hp _ (or_intror (or_intror (or_intror (or_introl eq_refl))))).
    assert (P5 := Hp _ (or_intror (or_intror (or_intror (or_intror (or_introl eq_refl)))))).
    assert (P6 := Hp _ (or_intror (or_intror (or_intror (or_intror (or_intror (or_introl eq_refl))))))).
    cbn [c_key] in P1, P2, P3, P4, P5, P6. clear Hp.
    destruct left as [ld lm lc lg]. destruct HL as [HL1 [HL2 HL3]]. cbn [p_disp p_mask p_conf] in *.
    assert (Rd : forall path d (g : G), all2 (float_px_ok f32) d ->
                 raster_ok G (write_data_array rnd G (A2 d) path F32 None g) F32 d g)
      by (intros; eapply raster_written; [exact cast_float_exact|assumption]).
    assert (Rm : forall path d (g : G), all2 mask_px_ok d ->
                 raster_ok G (write_data_array rnd G (A2 d) path U16 None g) U16 d g)
      by (intros; eapply raster_written; [exact cast_mask_exact|assumption]).
    destruct lc as [[ln lcube]|]; destruct right as [[rd rm rc rg]|];
      try (destruct HR as [HR1 [HR2 HR3]]; cbn [p_disp p_mask p_conf] in *; destruct rc as [[rn rcube]|]);
      unfold run_calls, run_call, doc_calls;
      cbn [c_side c_var c_key c_dtype c_names c_geo c_guard c_right_guard ds_of andb negb has_var get_var
           p_disp p_mask p_conf p_geo];
      rewrite ?P1, ?P2, ?P3, ?P4, ?P5, ?P6; cbn [app];
      (eexists; split; [reflexivity|]);
      (split; [|split; [|split]]);
      try (intros f Hf; cbn in Hf; decompose [or] Hf; subst; try contradiction; in_list);
      try (cbn; repeat (constructor; [cbn; intuition discriminate|]); constructor).
    all: unfold side_ok, side_absent, written, not_written; cbn [p_disp p_mask p_conf p_geo].
    all: repeat match goal with
         | |- _ /\ _ => split
         | |- exists f, In f _ /\ f_path f = doc_path ?s ?w /\ _ =>
           first [ eexists; split; [left; reflexivity|split; [reflexivity|]]
                 | eexists; split; [right; left; reflexivity|split; [reflexivity|]]
                 | eexists; split; [right; right; left; reflexivity|split; [reflexivity|]]
                 | eexists; split; [right; right; right; left; reflexivity|split; [reflexivity|]]
                 | eexists; split; [right; right; right; right; left; reflexivity|split; [reflexivity|]]
                 | eexists; split; [right; right; right; right; right; left; reflexivity|split; [reflexivity|]] ]
         | |- forall f, In f _ -> f_path f <> _ =>
           let f := fresh "f" in let Hf := fresh "Hf" in
           intros f Hf; cbn in Hf; decompose [or] Hf; subst; try contradiction; cbn; discriminate
         | |- raster_ok _ _ F32 _ _ => apply Rd; assumption
         | |- raster_ok _ _ U16 _ _ => apply Rm; assumption
         | |- conf_ok _ _ _ _ _ => apply conf_written; tauto
         end.
  Qed.

  (* ------------------------------------------------------------------ any well-formed table *)

  Theorem save_results_meets_spec calls otd left right :
    plan_wf calls otd = true -> product_ok G f32 left -> right_ok right ->
    exists fs, run_calls rnd G otd left right calls = Some fs /\ saved_ok G left right fs.
  Proof.
    intros W HL HR. destruct (plan_wf_perm calls otd W) as [P O].
    destruct (doc_saved_ok otd left right O HL HR) as [fs [E S]].
    destruct (run_calls_perm otd left right doc_calls calls P fs E) as [fs' [E' P']].
    exists fs'. split; [exact E'|]. eapply saved_ok_perm; eassumption.
  Qed.

  (* right_* files exist exactly when right products exist *)
  Lemma right_files_iff_right_products left right fs :
    saved_ok G left right fs ->
    ((exists f, In f fs /\ (f_path f = doc_path SRight "disparity" \/ f_path f = doc_path SRight "validity_mask"
                            \/ f_path f = doc_path SRight "confidence_measure"))
     <-> right <> None).
  Proof.
    intros [_ [B _]]. split.
    - intros [f [I H]] ->. destruct B as [B1 [B2 B3]].
      destruct H as [H|[H|H]]; [exact (B1 f I H)|exact (B2 f I H)|exact (B3 f I H)].
    - intro N. destruct right as [r|]; [|contradiction]. destruct B as [[f [I [Pf _]]] _].
      exists f. split; [exact I|left; exact Pf].
  Qed.
End P.
