(* C13, vertical flip -- the matching-cost SPEC (Spec/Cost.v) read on a pair of images turned upside down:
   [computable] and the value of every measure at (r, c) of the flipped pair are those at (ny - 1 - r, c) of the pair
   (the windows being odd, a window is read upside down: the same pixels in another order).  Then the same for the
   MODEL of sad / ssd / census / zncc through C02's model = spec theorems, at EVERY pixel of the image (margins
   included).  Only the pixels INSIDE the image are assumed related: whatever a total function answers outside
   plays no role ([computable] is false as soon as a window leaves the image). *)
From Coq Require Import ZArith List Bool QArith Lia Permutation FinFun.
From Pandora Require Import Model.MatchingCost Spec.Cost Proofs.MatchingCostP Proofs.CensusP Proofs.ZnccP Proofs.LocalCostP.
Import ListNotations.
Open Scope Z_scope.

(* ------------------------------------------------------------------ the window offsets read backwards *)

Lemma range_NoDup : forall n lo, NoDup (range lo n).
Proof.
  induction n; intros lo; cbn [range]; constructor; [|apply IHn].
  rewrite range_In. lia.
Qed.

Section Win.
  Variable w : Z.
  Hypothesis Hw : 0 < w.
  Hypothesis Hodd : Z.odd w = true.

  Lemma win_opp_perm : Permutation (map Z.opp (win w)) (win w).
  Proof.
    apply NoDup_Permutation.
    - apply Injective_map_NoDup; [intros a b; lia|]. unfold win. rewrite zseq_range. apply range_NoDup.
    - unfold win. rewrite zseq_range. apply range_NoDup.
    - intro x. rewrite in_map_iff. split.
      + intros (a & <- & Ha). apply (win_In w _ Hw Hodd) in Ha. apply (win_In w _ Hw Hodd). lia.
      + intro Hx. apply (win_In w _ Hw Hodd) in Hx. exists (- x). split; [lia|]. apply (win_In w _ Hw Hodd). lia.
  Qed.

  Lemma forallb_perm : forall {X} (f : X -> bool) l m, Permutation l m -> forallb f l = forallb f m.
  Proof.
    intros X f l m H. induction H; cbn [forallb]; try congruence.
    - destruct (f x), (f y); reflexivity.
  Qed.

  Lemma forallb_map' : forall {X Y} (f : Y -> bool) (g : X -> Y) l, forallb f (map g l) = forallb (fun x => f (g x)) l.
  Proof. induction l as [|a l IH]; cbn [map forallb]; [reflexivity|]. now rewrite IH. Qed.

  Lemma forall_win_neg : forall p, forall_win w (fun a b => p (- a) b) = forall_win w p.
  Proof.
    intro p. unfold forall_win.
    rewrite <- (forallb_perm (fun a => forallb (fun b => p a b) (win w)) _ _ win_opp_perm).
    rewrite forallb_map'. reflexivity.
  Qed.

  Lemma qsum_perm : forall l m, Permutation l m -> (qsum l == qsum m)%Q.
  Proof.
    induction 1 as [|x l m H IH|x y l|l1 l2 l3 H1 IH1 H2 IH2]; cbn [qsum fold_right].
    - reflexivity.
    - fold (qsum l). fold (qsum m). rewrite IH. reflexivity.
    - fold (qsum l). ring.
    - rewrite IH1. exact IH2.
  Qed.

  Lemma qsum_win_neg : forall g : Z -> Q, (qsum (map (fun a => g (- a)%Z) (win w)) == qsum (map g (win w)))%Q.
  Proof.
    intro g. rewrite <- (map_map Z.opp g). apply qsum_perm. apply Permutation_map. apply win_opp_perm.
  Qed.

  Lemma forall_win_at : forall p a b, forall_win w p = true -> In a (win w) -> In b (win w) -> p a b = true.
  Proof.
    intros p a b H Ha Hb. unfold forall_win in H. rewrite forallb_forall in H. specialize (H a Ha).
    rewrite forallb_forall in H. apply H. exact Hb.
  Qed.
End Win.

(* ------------------------------------------------------------------ the spec on the flipped pair *)

Section CostFlip.
  Variables (ny nx w s : Z).
  Variables (L R L' R' : Z -> Z -> Z) (mL mR mL' mR' : option (Z -> Z -> Z)) (vp nd : Z).
  Variables (gmin gmax gmin' gmax' : Z -> Z -> Z).
  Variables (r c D : Z).
  Hypothesis Hw : 0 < w.
  Hypothesis Hodd : Z.odd w = true.
  Hypothesis Hs : 0 < s.
  Let h := offset w.
  Let r0 := ny - 1 - r.

  (* (L', mL') is (L, mL) upside down, (R', mR') is (R, mR) upside down -- inside the image *)
  Hypothesis HL : forall a b, in_image ny nx a b = true -> L' a b = L (ny - 1 - a) b /\ mask_agree mL' mL a b (ny - 1 - a) b.
  Hypothesis HR : forall a b, in_image ny nx a b = true -> R' a b = R (ny - 1 - a) b /\ mask_agree mR' mR a b (ny - 1 - a) b.
  Hypothesis Hg : gmin' r c = gmin r0 c /\ gmax' r c = gmax r0 c.

  Lemma in_image_flip : forall a b, in_image ny nx (r + a) b = in_image ny nx (r0 + - a) b.
  Proof. intros a b. unfold in_image, r0. lia. Qed.

  Lemma row_flip : forall a, ny - 1 - (r + a) = r0 + - a.
  Proof. intro a. unfold r0. lia. Qed.

  Lemma left_window_ok_flip : left_window_ok ny nx w mL' nd r c = left_window_ok ny nx w mL nd r0 c.
  Proof.
    unfold left_window_ok.
    rewrite <- (forall_win_neg w Hw Hodd (fun a b => in_image ny nx (r0 + a) (c + b) && negb (is_nodata nd mL (r0 + a) (c + b)))).
    unfold forall_win. apply forallb_ext_in. intros a Ha. apply forallb_ext_in. intros b Hb.
    rewrite in_image_flip. destruct (in_image ny nx (r0 + - a) (c + b)) eqn:E; [|reflexivity]. cbn [andb].
    rewrite <- in_image_flip in E. destruct (HL _ _ E) as [_ Hm]. rewrite row_flip in Hm.
    rewrite (mask_agree_nodata nd _ _ _ _ _ _ Hm). reflexivity.
  Qed.

  Lemma right_window_ok_flip : right_window_ok ny nx w s mR' nd r c D = right_window_ok ny nx w s mR nd r0 c D.
  Proof.
    unfold right_window_ok.
    rewrite <- (forall_win_neg w Hw Hodd (fun a b =>
      in_image ny nx (r0 + a) (c + b + dfloor s D) && negb (is_nodata nd mR (r0 + a) (c + b + dfloor s D)) &&
      in_image ny nx (r0 + a) (c + b + dceil s D) && negb (is_nodata nd mR (r0 + a) (c + b + dceil s D)))).
    unfold forall_win. apply forallb_ext_in. intros a Ha. apply forallb_ext_in. intros b Hb.
    rewrite !in_image_flip.
    destruct (in_image ny nx (r0 + - a) (c + b + dfloor s D)) eqn:E; [|reflexivity]. cbn [andb].
    rewrite <- in_image_flip in E. destruct (HR _ _ E) as [_ Hm]. rewrite row_flip in Hm.
    rewrite (mask_agree_nodata nd _ _ _ _ _ _ Hm).
    destruct (negb (is_nodata nd mR (r0 + - a) (c + b + dfloor s D))); [|reflexivity]. cbn [andb].
    destruct (in_image ny nx (r0 + - a) (c + b + dceil s D)) eqn:E2; [|reflexivity]. cbn [andb].
    rewrite <- in_image_flip in E2. destruct (HR _ _ E2) as [_ Hm2]. rewrite row_flip in Hm2.
    rewrite (mask_agree_nodata nd _ _ _ _ _ _ Hm2). reflexivity.
  Qed.

  Lemma h_nonneg : 0 <= h.
  Proof. unfold h. destruct (odd_offset w Hw Hodd). lia. Qed.
  Lemma In0 : In 0 (win w).
  Proof. apply (win_In w 0 Hw Hodd). pose proof h_nonneg. fold h. lia. Qed.

  (* what the two window tests give: every pixel the measure reads is inside the image *)
  Lemma left_in : left_window_ok ny nx w mL' nd r c = true -> forall a b, In a (win w) -> In b (win w) ->
    in_image ny nx (r + a) (c + b) = true.
  Proof.
    intros H a b Ha Hb. pose proof (forall_win_at w _ a b H Ha Hb) as X. cbv beta in X.
    apply andb_true_iff in X. apply X.
  Qed.
  Lemma right_in : right_window_ok ny nx w s mR' nd r c D = true -> forall a b, In a (win w) -> In b (win w) ->
    in_image ny nx (r + a) (c + b + dfloor s D) = true /\ in_image ny nx (r + a) (c + b + dceil s D) = true.
  Proof.
    intros H a b Ha Hb. pose proof (forall_win_at w _ a b H Ha Hb) as X. cbv beta in X.
    rewrite !andb_true_iff in X. destruct X as [[[X1 _] X2] _]. split; assumption.
  Qed.

  Theorem computable_flip :
    computable ny nx w s mL' mR' vp nd gmin' gmax' r c D = computable ny nx w s mL mR vp nd gmin gmax r0 c D.
  Proof.
    unfold computable. rewrite <- left_window_ok_flip, <- right_window_ok_flip.
    destruct (left_window_ok ny nx w mL' nd r c) eqn:E1; [|reflexivity].
    destruct (right_window_ok ny nx w s mR' nd r c D) eqn:E2; [|reflexivity]. cbn [andb].
    pose proof (left_in E1 0 0 In0 In0) as I1. destruct (right_in E2 0 0 In0 In0) as [I2 I3].
    rewrite !Z.add_0_r in I1, I2, I3.
    destruct (HL _ _ I1) as [_ M1]. destruct (HR _ _ I2) as [_ M2]. destruct (HR _ _ I3) as [_ M3]. fold r0 in M1, M2, M3.
    unfold centres_ok. rewrite (mask_agree_invalid vp nd _ _ _ _ _ _ M1), (mask_agree_invalid vp nd _ _ _ _ _ _ M2),
      (mask_agree_invalid vp nd _ _ _ _ _ _ M3).
    unfold in_interval. destruct Hg as [-> ->]. reflexivity.
  Qed.

  Hypothesis HwL : left_window_ok ny nx w mL' nd r c = true.
  Hypothesis HwR : right_window_ok ny nx w s mR' nd r c D = true.

  Lemma lval_flip : forall a b, In a (win w) -> In b (win w) -> lval L' (r + a) (c + b) = lval L (r0 + - a) (c + b).
  Proof.
    intros a b Ha Hb. unfold lval. destruct (HL _ _ (left_in HwL a b Ha Hb)) as [E _]. rewrite E, row_flip. reflexivity.
  Qed.

  Lemma rval_flip : forall a b, In a (win w) -> In b (win w) -> rval s R' (r + a) (c + b) D = rval s R (r0 + - a) (c + b) D.
  Proof.
    intros a b Ha Hb. unfold rval. cbv zeta. destruct (right_in HwR a b Ha Hb) as [I1 I2].
    change (D / s) with (dfloor s D). destruct (HR _ _ I1) as [E1 _]. rewrite E1, row_flip.
    destruct (D mod s =? 0) eqn:Em; [reflexivity|].
    assert (Ec : dceil s D = dfloor s D + 1).
    { unfold dceil, dfloor. rewrite ceil_floor by assumption. now rewrite Em. }
    rewrite Ec in I2. replace (c + b + (dfloor s D + 1)) with (c + b + dfloor s D + 1) in I2 by lia.
    destruct (HR _ _ I2) as [E2 _]. rewrite E2, row_flip. reflexivity.
  Qed.

  Theorem sum_win_flip : forall f, (sum_win w s L' R' f r c D == sum_win w s L R f r0 c D)%Q.
  Proof.
    intro f. unfold sum_win.
    rewrite <- (qsum_win_neg w Hw Hodd (fun a => qsum (map (fun b => f (lval L (r0 + a) (c + b)) (rval s R (r0 + a) (c + b) D)) (win w)))).
    assert (E : map (fun a => qsum (map (fun b => f (lval L' (r + a) (c + b)) (rval s R' (r + a) (c + b) D)) (win w))) (win w)
              = map (fun a => qsum (map (fun b => f (lval L (r0 + - a) (c + b)) (rval s R (r0 + - a) (c + b) D)) (win w))) (win w)).
    { apply map_ext_in. intros a Ha. f_equal. apply map_ext_in. intros b Hb.
      rewrite (lval_flip a b Ha Hb), (rval_flip a b Ha Hb). reflexivity. }
    rewrite E. reflexivity.
  Qed.

  Theorem sad_spec_flip : (sad_spec w s L' R' r c D == sad_spec w s L R r0 c D)%Q.
  Proof. apply sum_win_flip. Qed.
  Theorem ssd_spec_flip : (ssd_spec w s L' R' r c D == ssd_spec w s L R r0 c D)%Q.
  Proof. apply sum_win_flip. Qed.

  Theorem census_spec_flip : (census_spec w s L' R' r c D == census_spec w s L R r0 c D)%Q.
  Proof.
    unfold census_spec.
    pose proof (lval_flip 0 0 In0 In0) as E0. pose proof (rval_flip 0 0 In0 In0) as F0.
    rewrite !Z.add_0_r in E0, F0.
    rewrite <- (qsum_win_neg w Hw Hodd (fun a => qsum (map (fun b =>
        if Bool.eqb (qgtb (lval L (r0 + a) (c + b)) (lval L r0 c)) (qgtb (rval s R (r0 + a) (c + b) D) (rval s R r0 c D))
        then 0%Q else 1%Q) (win w)))).
    assert (E : forall X Y : list Q, X = Y -> (qsum X == qsum Y)%Q) by (intros; subst; reflexivity).
    apply E. apply map_ext_in. intros a Ha. f_equal. apply map_ext_in. intros b Hb.
    rewrite (lval_flip a b Ha Hb), (rval_flip a b Ha Hb), E0, F0. reflexivity.
  Qed.

  Theorem zncc_spec_flip :
    (zncc_cov w s L' R' r c D == zncc_cov w s L R r0 c D /\
     zncc_varl w s L' R' r c D == zncc_varl w s L R r0 c D /\
     zncc_varr w s L' R' r c D == zncc_varr w s L R r0 c D)%Q.
  Proof. unfold zncc_cov, zncc_varl, zncc_varr, mean_win. rewrite !sum_win_flip. repeat split; reflexivity. Qed.
End CostFlip.

(* ------------------------------------------------------------------ the model, through C02 *)

Section ModelFlip.
  Variables (x y : mc_input) (dmin dmax : Z) (r c k : Z).      (* x: the flipped pair, y: the pair *)
  Hypothesis Hy : wf_cfg y.
  Hypothesis Hcfg : i_ny x = i_ny y /\ i_nx x = i_nx y /\ i_w x = i_w y /\ i_s x = i_s y /\ i_vp x = i_vp y /\ i_nd x = i_nd y.
  Hypothesis Hr : 0 <= r < i_ny y.
  Hypothesis Hc : 0 <= c < i_nx y.
  Hypothesis Hk : 0 <= k < nb_disp (i_s y) dmin dmax.
  Let r0 := i_ny y - 1 - r.
  Let D := disp_scaled (i_s y) dmin k.
  Hypothesis HL : forall a b, in_image (i_ny y) (i_nx y) a b = true ->
    i_L x a b = i_L y (i_ny y - 1 - a) b /\ mask_agree (i_mL x) (i_mL y) a b (i_ny y - 1 - a) b.
  Hypothesis HR : forall a b, in_image (i_ny y) (i_nx y) a b = true ->
    i_R x a b = i_R y (i_ny y - 1 - a) b /\ mask_agree (i_mR x) (i_mR y) a b (i_ny y - 1 - a) b.
  Hypothesis Hg : i_gmin x r c = i_gmin y r0 c /\ i_gmax x r c = i_gmax y r0 c.

  Lemma wf_x : wf_cfg x.
  Proof. unfold wf_cfg in *. destruct Hcfg as (_ & _ & E1 & E2 & _). rewrite E1, E2. exact Hy. Qed.
  Lemma Hr0 : 0 <= r0 < i_ny y.
  Proof. unfold r0. lia. Qed.

  Lemma computable_in_flip : computable_in x r c D = computable_in y r0 c D.
  Proof.
    destruct Hcfg as (E1 & E2 & E3 & E4 & E5 & E6). destruct Hy as (Hw & Ho & Hs).
    unfold computable_in. rewrite E1, E2, E3, E4, E5, E6.
    apply (computable_flip (i_ny y) (i_nx y) (i_w y) (i_s y) (i_L y) (i_R y) (i_L x) (i_R x)); assumption.
  Qed.

  Lemma windows_ok : computable_in x r c D = true ->
    left_window_ok (i_ny y) (i_nx y) (i_w y) (i_mL x) (i_nd y) r c = true /\
    right_window_ok (i_ny y) (i_nx y) (i_w y) (i_s y) (i_mR x) (i_nd y) r c D = true.
  Proof.
    destruct Hcfg as (E1 & E2 & E3 & E4 & E5 & E6).
    unfold computable_in, computable. rewrite E1, E2, E3, E4, E6. rewrite !andb_true_iff. tauto.
  Qed.

  Theorem sad_model_flip : sad_volume x dmin dmax r c k = sad_volume y dmin dmax r0 c k.
  Proof.
    pose proof Hcfg as (E1 & E2 & E3 & E4 & E5 & E6). pose proof Hy as (Hw & Ho & Hs).
    rewrite (sad_model_eq_spec x dmin dmax r c k wf_x) by (rewrite ?E1, ?E2, ?E4; assumption).
    rewrite (sad_model_eq_spec y dmin dmax r0 c k Hy Hr0 Hc Hk). cbv zeta. rewrite E4. fold D.
    rewrite <- computable_in_flip. destruct (computable_in x r c D) eqn:Ec; [|reflexivity].
    destruct (windows_ok Ec) as [W1 W2]. f_equal. apply Qred_complete. rewrite E3.
    apply (sad_spec_flip (i_ny y) (i_nx y) (i_w y) (i_s y) (i_L y) (i_R y) (i_L x) (i_R x) (i_mL y) (i_mR y) (i_mL x) (i_mR x) (i_nd y));
      assumption.
  Qed.

  Theorem ssd_model_flip : ssd_volume x dmin dmax r c k = ssd_volume y dmin dmax r0 c k.
  Proof.
    pose proof Hcfg as (E1 & E2 & E3 & E4 & E5 & E6). pose proof Hy as (Hw & Ho & Hs).
    rewrite (ssd_model_eq_spec x dmin dmax r c k wf_x) by (rewrite ?E1, ?E2, ?E4; assumption).
    rewrite (ssd_model_eq_spec y dmin dmax r0 c k Hy Hr0 Hc Hk). cbv zeta. rewrite E4. fold D.
    rewrite <- computable_in_flip. destruct (computable_in x r c D) eqn:Ec; [|reflexivity].
    destruct (windows_ok Ec) as [W1 W2]. f_equal. apply Qred_complete. rewrite E3.
    apply (ssd_spec_flip (i_ny y) (i_nx y) (i_w y) (i_s y) (i_L y) (i_R y) (i_L x) (i_R x) (i_mL y) (i_mR y) (i_mL x) (i_mR x) (i_nd y));
      assumption.
  Qed.

  Theorem census_model_flip : i_w y * i_w y <= 32 -> census_volume x dmin dmax r c k = census_volume y dmin dmax r0 c k.
  Proof.
    intro Hww. pose proof Hcfg as (E1 & E2 & E3 & E4 & E5 & E6). pose proof Hy as (Hw & Ho & Hs).
    rewrite (census_model_eq_spec x dmin dmax r c k wf_x) by (rewrite ?E1, ?E2, ?E3, ?E4; assumption).
    rewrite (census_model_eq_spec y dmin dmax r0 c k Hy Hww Hr0 Hc Hk). cbv zeta. rewrite E4. fold D.
    rewrite <- computable_in_flip. destruct (computable_in x r c D) eqn:Ec; [|reflexivity].
    destruct (windows_ok Ec) as [W1 W2]. f_equal. apply Qred_complete. rewrite E3.
    apply (census_spec_flip (i_ny y) (i_nx y) (i_w y) (i_s y) (i_L y) (i_R y) (i_L x) (i_R x) (i_mL y) (i_mR y) (i_mL x) (i_mR x) (i_nd y));
      assumption.
  Qed.

  (* zncc: the same exact integer triple (cov, varL, varR), NaN included *)
  Theorem zncc_model_flip : zncc_volume x dmin dmax r c k = zncc_volume y dmin dmax r0 c k.
  Proof.
    pose proof Hcfg as (E1 & E2 & E3 & E4 & E5 & E6). pose proof Hy as (Hw & Ho & Hs).
    assert (Hrx : 0 <= r < i_ny x) by (rewrite E1; exact Hr). assert (Hcx : 0 <= c < i_nx x) by (rewrite E2; exact Hc).
    assert (Hkx : 0 <= k < nb_disp (i_s x) dmin dmax) by (rewrite E4; exact Hk).
    pose proof (zncc_model_eq_spec x dmin dmax r c k wf_x Hrx Hcx Hkx) as X.
    pose proof (zncc_model_eq_spec y dmin dmax r0 c k Hy Hr0 Hc Hk) as Y.
    cbv zeta in X, Y. rewrite E4 in X. fold D in X, Y. rewrite <- computable_in_flip in Y.
    destruct (zncc_volume x dmin dmax r c k) as [[[cm vlm] vrm]|];
      destruct (zncc_volume y dmin dmax r0 c k) as [[[cm' vlm'] vrm']|].
    - destruct X as (Ec & (X1 & X2 & X3) & _). destruct Y as (_ & (Y1 & Y2 & Y3) & _).
      destruct (windows_ok Ec) as [W1 W2].
      cbv zeta in X1, X2, X3, Y1, Y2, Y3. rewrite E3, E4 in X1, X2, X3.
      destruct (zncc_spec_flip (i_ny y) (i_nx y) (i_w y) (i_s y) (i_L y) (i_R y) (i_L x) (i_R x) (i_mL y) (i_mR y) (i_mL x) (i_mR x)
                  (i_nd y) r c D Hw Ho Hs HL HR W1 W2) as (Ecov & Evl & Evr).
      fold r0 in Ecov, Evl, Evr.
      assert (P4 : (0 < inject_Z (i_w y * i_w y * (i_w y * i_w y)))%Q) by (apply inject_Z_pos; nia).
      assert (Ps : (0 < inject_Z (i_s y))%Q) by (apply inject_Z_pos; lia).
      assert (Pss : (0 < inject_Z (i_s y * i_s y))%Q) by (apply inject_Z_pos; nia).
      rewrite Ecov, Y1 in X1. rewrite Evl, Y2 in X2. rewrite Evr, Y3 in X3.
      symmetry in X1, X2, X3.
      apply inject_Z_div_inj in X1; [|apply Qmult_lt_0_compat; assumption].
      apply inject_Z_div_inj in X2; [|assumption].
      apply inject_Z_div_inj in X3; [|apply Qmult_lt_0_compat; assumption].
      subst. reflexivity.
    - destruct X as (X & _). congruence.
    - destruct Y as (Y & _). congruence.
    - reflexivity.
  Qed.
End ModelFlip.
