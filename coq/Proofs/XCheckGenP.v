(* C07, T-gen: the row loop of CrossCheckingAccurate.disparity_checking regenerated from the Python source
   (Gen/XCheckKernel.v, numpy semantics of Lib/NpVec.v + Lib/NpRow.v) computes, on EVERY row (any width,
   any disparity / NaN entries, any uint16 masks, threshold, interval), what the hand-written model
   (Model/CrossCheck.v mask_row / conf_row) computes, and none of its partial operations fails (no shape
   mismatch, no read or write outside an array) and no uint16 store wraps around.  Then the whole generated
   method (prelude, loop, epilogue) = the model's xcheck.  Re-proved at every run against the regenerated text. *)
From Coq Require Import ZArith QArith Qround Qabs List Bool Lia.
From Pandora Require Import Lib.NpVec Lib.NpRow Model.CrossCheck Model.XCheckGen Spec.CrossCheck Proofs.CrossCheckP.
From Pandora Require Gen.ValConst Gen.XCheckKernel.
Import ListNotations.
Open Scope Z_scope.

(* ------------------------------------------------------------------ lists *)

Lemma zip2_length {A B C : Type} (f : A -> B -> C) a : forall b, length a = length b -> length (zip2 f a b) = length a.
Proof. induction a; destruct b; simpl; intros; try discriminate; auto. Qed.

Lemma vv2_some {A B C : Type} (f : A -> B -> C) a b : length a = length b -> vv2 f a b = Some (zip2 f a b).
Proof. intro H. unfold vv2. rewrite H, Nat.eqb_refl. reflexivity. Qed.

Lemma zip2_maps {A B C D : Type} (f : B -> C -> D) (g : A -> B) (h : A -> C) l :
  zip2 f (map g l) (map h l) = map (fun x => f (g x) (h x)) l.
Proof. induction l; simpl; congruence. Qed.

Lemma vv2_maps {A B C D : Type} (f : B -> C -> D) (g : A -> B) (h : A -> C) l :
  vv2 f (map g l) (map h l) = Some (map (fun x => f (g x) (h x)) l).
Proof. rewrite vv2_some by (rewrite !map_length; reflexivity). rewrite zip2_maps. reflexivity. Qed.

Lemma vv2_map_r {A C D : Type} (f : A -> C -> D) (h : A -> C) l :
  vv2 f l (map h l) = Some (map (fun x => f x (h x)) l).
Proof. rewrite <- (map_id l) at 1. apply vv2_maps. Qed.

Lemma zip2_app {A B C : Type} (f : A -> B -> C) a1 b1 a2 b2 : length a1 = length b1 ->
  zip2 f (a1 ++ a2) (b1 ++ b2) = zip2 f a1 b1 ++ zip2 f a2 b2.
Proof.
  revert b1; induction a1; destruct b1; simpl; intros; try discriminate; [reflexivity|].
  rewrite IHa1 by lia. reflexivity.
Qed.

Lemma zip2_repeat_l {A B C : Type} (f : A -> B -> C) x l : zip2 f (repeat x (length l)) l = map (f x) l.
Proof. induction l; simpl; congruence. Qed.

Lemma pick_map {A B : Type} (f : A -> B) : forall l b, pick (map f l) b = map f (pick l b).
Proof. induction l; destruct b; simpl; try reflexivity. destruct b; simpl; congruence. Qed.

Lemma pick_map_filter {A : Type} (p : A -> bool) l : pick l (map p l) = filter p l.
Proof. induction l; simpl; [reflexivity|]. destruct (p a); congruence. Qed.

Lemma map_const_repeat {A B : Type} (a : B) (l : list A) : map (fun _ => a) l = repeat a (length l).
Proof. induction l; simpl; congruence. Qed.

Lemma setmask_map {A : Type} (p : A -> bool) (v : list A) s :
  v_setmask v (map p v) s = Some (map (fun x => if p x then s else x) v).
Proof. unfold v_setmask. rewrite vv2_map_r. reflexivity. Qed.

Lemma b_sum_filter {A : Type} (p : A -> bool) l : b_sum (map p l) = Z.of_nat (length (filter p l)).
Proof. induction l; simpl b_sum; simpl filter; [reflexivity|]. destruct (p a); simpl length; lia. Qed.

Lemma existsb_filter (p : Z -> bool) l c : existsb (Z.eqb c) (filter p l) = p c && existsb (Z.eqb c) l.
Proof.
  induction l; simpl; [rewrite andb_false_r; reflexivity|].
  destruct (p a) eqn:E; simpl; rewrite IHl.
  - destruct (Z.eqb_spec c a) as [->|]; [rewrite E; reflexivity|reflexivity].
  - destruct (Z.eqb_spec c a) as [->|]; [rewrite E; reflexivity|reflexivity].
Qed.

(* ------------------------------------------------------------------ indices *)

Lemma vlen_nonneg {A : Type} (v : list A) : 0 <= vlen v.
Proof. unfold vlen. lia. Qed.

Lemma In_arange n c : In c (np_arange n) <-> 0 <= c < n.
Proof.
  unfold np_arange. rewrite in_map_iff. split.
  - intros [i [<- H]]. apply in_seq in H. lia.
  - intro H. exists (Z.to_nat c). split; [lia|]. apply in_seq. lia.
Qed.

Lemma existsb_arange n c : existsb (Z.eqb c) (np_arange n) = (0 <=? c) && (c <? n).
Proof.
  destruct ((0 <=? c) && (c <? n)) eqn:E.
  - apply existsb_exists. exists c. split; [apply In_arange; lia|apply Z.eqb_refl].
  - destruct (existsb (Z.eqb c) (np_arange n)) eqn:E2; [|reflexivity].
    apply existsb_exists in E2. destruct E2 as [x [Hx Hc]]. apply In_arange in Hx. lia.
Qed.

Lemma arange_length n : length (np_arange n) = Z.to_nat n.
Proof. unfold np_arange. rewrite map_length, seq_length. reflexivity. Qed.

Lemma vlen_tab {A : Type} n (f : Z -> A) : 0 <= n -> vlen (tab n f) = n.
Proof. intro H. unfold vlen, tab. rewrite map_length, arange_length. lia. Qed.

Lemma tab_ext {A : Type} n (f g : Z -> A) : (forall c, 0 <= c < n -> f c = g c) -> tab n f = tab n g.
Proof. intro H. unfold tab. apply map_ext_in. intros c Hc. apply H. apply In_arange. exact Hc. Qed.

Lemma map_seq_nth {A : Type} (d : A) : forall (l pre : list A),
  map (fun j => nth j (pre ++ l) d) (seq (length pre) (length l)) = l.
Proof.
  induction l; intro pre; simpl; [reflexivity|].
  rewrite app_nth2 by lia. rewrite Nat.sub_diag. simpl. f_equal.
  specialize (IHl (pre ++ [a])). rewrite <- app_assoc in IHl. simpl in IHl.
  rewrite app_length in IHl. simpl in IHl. rewrite Nat.add_1_r in IHl. exact IHl.
Qed.

Lemma tab_fn_of {A : Type} (d : A) (v : list A) : tab (vlen v) (fn_of d v) = v.
Proof.
  unfold tab, np_arange, vlen, fn_of. rewrite Nat2Z.id, map_map.
  rewrite <- (map_seq_nth d v []) at 2. simpl. apply map_ext. intro j. rewrite Nat2Z.id. reflexivity.
Qed.

Lemma fn_of_tab {A : Type} n (f : Z -> A) d c : 0 <= c < n -> fn_of d (tab n f) c = f c.
Proof.
  intro H. unfold fn_of, tab, np_arange. rewrite map_map.
  rewrite nth_indep with (d' := f (Z.of_nat 0)) by (rewrite map_length, seq_length; lia).
  rewrite (map_nth (fun i => f (Z.of_nat i)) (seq 0 (Z.to_nat n)) 0%nat).
  rewrite seq_nth by lia. simpl. f_equal. lia.
Qed.

Lemma fn_of_map {A B : Type} (f : A -> B) d l c : fn_of (f d) (map f l) c = f (fn_of d l c).
Proof. unfold fn_of. apply map_nth. Qed.

Lemma norm_index_in n i : 0 <= i < n -> norm_index n i = Some (Z.to_nat i).
Proof.
  intro H. unfold norm_index.
  replace (i <? 0) with false by lia. replace ((0 <=? i) && (i <? n)) with true by lia. reflexivity.
Qed.

Lemma v_get_fn {A : Type} (v : list A) d i : 0 <= i < vlen v -> v_get v i = Some (fn_of d v i).
Proof.
  intro H. unfold v_get. rewrite norm_index_in by exact H. unfold fn_of.
  apply nth_error_nth'. unfold vlen in H. lia.
Qed.

Lemma v_take_fn {A : Type} (v : list A) d : forall idx, (forall i, In i idx -> 0 <= i < vlen v) ->
  v_take v idx = Some (map (fn_of d v) idx).
Proof.
  induction idx; intro H; simpl; [reflexivity|].
  rewrite (v_get_fn v d) by (apply H; left; reflexivity).
  rewrite IHidx by (intros i Hi; apply H; right; exact Hi). reflexivity.
Qed.

Lemma v_get_app_len {A : Type} (pre : list A) x r : v_get (pre ++ x :: r) (vlen pre) = Some x.
Proof.
  unfold v_get. rewrite norm_index_in.
  - unfold vlen. rewrite Nat2Z.id. rewrite nth_error_app2 by lia. rewrite Nat.sub_diag. reflexivity.
  - unfold vlen. rewrite app_length. simpl. lia.
Qed.

Lemma vlen_snoc {A : Type} (pre : list A) a : vlen (pre ++ [a]) = vlen pre + 1.
Proof. unfold vlen. rewrite app_length. simpl. lia. Qed.

Lemma take_where_gen {A : Type} : forall (l : list A) b pre, length l = length b ->
  v_take (pre ++ l) (where_from (vlen pre) b) = Some (pick l b).
Proof.
  induction l; destruct b; simpl; intros pre H; try discriminate; [reflexivity|].
  assert (IH := IHl b0 (pre ++ [a])). rewrite <- app_assoc, vlen_snoc in IH. simpl in IH.
  destruct b.
  - simpl. rewrite v_get_app_len. rewrite IH by lia. reflexivity.
  - apply IH. lia.
Qed.

Lemma take_where {A : Type} (l : list A) b : length l = length b -> v_take l (np_where1 b) = Some (pick l b).
Proof. intro H. exact (take_where_gen l b [] H). Qed.

Lemma where_from_range : forall b i k, In k (where_from i b) -> i <= k < i + vlen b.
Proof.
  induction b; intros i k H; simpl in H; [contradiction|].
  unfold vlen. simpl length. destruct a.
  - destruct H as [<-|H]; [lia|]. apply IHb in H. unfold vlen in H. lia.
  - apply IHb in H. unfold vlen in H. lia.
Qed.

Lemma where_range b k : In k (np_where1 b) -> 0 <= k < vlen b.
Proof. intro H. apply where_from_range in H. lia. Qed.

(* ------------------------------------------------------------------ stores *)

Lemma set_at_length {A : Type} (v : list A) : forall j x, length (set_at v j x) = length v.
Proof. induction v; intros [|j] x; simpl; auto. Qed.

Lemma nth_set_at {A : Type} (d : A) : forall (v : list A) j x k, (j < length v)%nat ->
  nth k (set_at v j x) d = if Nat.eqb k j then x else nth k v d.
Proof.
  induction v; intros j x k H; simpl in H; [lia|].
  destruct j; destruct k; simpl; try reflexivity. apply IHv. lia.
Qed.

Lemma fn_of_set_at {A : Type} (d : A) (v : list A) i x c : 0 <= i < vlen v -> 0 <= c ->
  fn_of d (set_at v (Z.to_nat i) x) c = if c =? i then x else fn_of d v c.
Proof.
  intros H Hc. unfold fn_of. rewrite nth_set_at by (unfold vlen in H; lia).
  destruct (Z.eqb_spec c i) as [->|N]; [rewrite Nat.eqb_refl; reflexivity|].
  replace (Nat.eqb (Z.to_nat c) (Z.to_nat i)) with false; [reflexivity|].
  symmetry. apply Nat.eqb_neq. lia.
Qed.

Lemma v_store_in {A : Type} (v : list A) i x : 0 <= i < vlen v -> v_store v i x = Some (set_at v (Z.to_nat i) x).
Proof. intro H. unfold v_store. rewrite norm_index_in by exact H. reflexivity. Qed.

Lemma vlen_set_at {A : Type} (v : list A) j x : vlen (set_at v j x) = vlen v.
Proof. unfold vlen. rewrite set_at_length. reflexivity. Qed.

(* v[idx] = [g i for i in idx] *)
Lemma scatter_map {A : Type} (d : A) (g : Z -> A) : forall idx v, (forall i, In i idx -> 0 <= i < vlen v) ->
  v_scatter v idx (map g idx)
  = Some (tab (vlen v) (fun c => if existsb (Z.eqb c) idx then g c else fn_of d v c)).
Proof.
  induction idx; intros v H; simpl.
  - rewrite tab_fn_of. reflexivity.
  - assert (Ha : 0 <= a < vlen v) by (apply H; left; reflexivity).
    rewrite v_store_in by exact Ha.
    rewrite IHidx by (intros i Hi; rewrite vlen_set_at; apply H; right; exact Hi).
    rewrite vlen_set_at. f_equal. apply tab_ext. intros c Hc.
    rewrite fn_of_set_at by lia.
    destruct (c =? a) eqn:E; simpl; [|reflexivity].
    apply Z.eqb_eq in E. subst c. destruct (existsb (Z.eqb a) idx); reflexivity.
Qed.

Lemma take_maps_zip {A B C : Type} (f : A -> B -> C) (g : Z -> A) (h : Z -> B) idx :
  vv2 f (map g idx) (map h idx) = Some (map (fun i => f (g i) (h i)) idx).
Proof. apply vv2_maps. Qed.

(* v[idx] += [g i for i in idx]  (uint16) *)
Lemma iadd_map (g : Z -> Z) idx v : (forall i, In i idx -> 0 <= i < vlen v) ->
  v_iadd_u16 v idx (map g idx)
  = Some (tab (vlen v) (fun c => if existsb (Z.eqb c) idx then u16 (fn_of 0 v c + g c) else fn_of 0 v c)).
Proof.
  intro H. unfold v_iadd_u16. rewrite (v_take_fn v 0) by exact H. rewrite vv2_maps.
  apply (scatter_map 0 (fun i => u16 (fn_of 0 v i + g i))). exact H.
Qed.

Lemma isub_map (g : Z -> Z) idx v : (forall i, In i idx -> 0 <= i < vlen v) ->
  v_isub_u16 v idx (map g idx)
  = Some (tab (vlen v) (fun c => if existsb (Z.eqb c) idx then u16 (fn_of 0 v c - g c) else fn_of 0 v c)).
Proof.
  intro H. unfold v_isub_u16. rewrite (v_take_fn v 0) by exact H. rewrite vv2_maps.
  apply (scatter_map 0 (fun i => u16 (fn_of 0 v i - g i))). exact H.
Qed.

Lemma iadd_s_map (k : Z) idx v : (forall i, In i idx -> 0 <= i < vlen v) ->
  v_iadd_u16_s v idx k
  = Some (tab (vlen v) (fun c => if existsb (Z.eqb c) idx then u16 (fn_of 0 v c + k) else fn_of 0 v c)).
Proof.
  intro H. unfold v_iadd_u16_s. rewrite <- map_const_repeat. apply (iadd_map (fun _ => k)). exact H.
Qed.

Lemma v_store_app_len {A : Type} (pre : list A) x r y : v_store (pre ++ x :: r) (vlen pre) y = Some (pre ++ y :: r).
Proof.
  rewrite v_store_in by (unfold vlen; rewrite app_length; simpl; lia).
  unfold vlen. rewrite Nat2Z.id. f_equal.
  induction pre; simpl; [reflexivity|]. rewrite IHpre. reflexivity.
Qed.

(* D[np.where(p(l))] = [g x for x in l if p x]  on two arrays of the same size *)
Lemma scatter_where_gen {A B : Type} (p : B -> bool) (g : B -> A) : forall l D pre, length D = length l ->
  v_scatter (pre ++ D) (where_from (vlen pre) (map p l)) (map g (filter p l))
  = Some (pre ++ zip2 (fun d x => if p x then g x else d) D l).
Proof.
  induction l; destruct D; simpl; intros pre H; try discriminate; [reflexivity|].
  assert (IH := fun y => IHl D (pre ++ [y])).
  destruct (p a) eqn:E; simpl.
  - rewrite v_store_app_len. specialize (IH (g a)). rewrite <- app_assoc, vlen_snoc in IH. simpl in IH.
    rewrite IH by lia. rewrite <- app_assoc. reflexivity.
  - specialize (IH a0). rewrite <- app_assoc, vlen_snoc in IH. simpl in IH.
    rewrite IH by lia. rewrite <- app_assoc. reflexivity.
Qed.

Lemma scatter_where {A B : Type} (p : B -> bool) (g : B -> A) l D : length D = length l ->
  v_scatter D (np_where1 (map p l)) (map g (filter p l))
  = Some (zip2 (fun d x => if p x then g x else d) D l).
Proof. intro H. exact (scatter_where_gen p g l D [] H). Qed.

(* ------------------------------------------------------------------ the 2-D arrays of the mismatch search *)

(* entry (c, d) for c in xs (one row per invalidated pixel), d in R (one column per disparity), row-major *)
Definition G {T : Type} (h : Z -> Z -> T) (xs R : list Z) : list T := flat_map (fun c => map (h c) R) xs.

Lemma G_length {T : Type} (h : Z -> Z -> T) xs R : length (G h xs R) = (length xs * length R)%nat.
Proof. unfold G. induction xs; simpl; [reflexivity|]. rewrite app_length, map_length, IHxs. reflexivity. Qed.

Lemma map_G {T U : Type} (f : T -> U) (h : Z -> Z -> T) xs R : map f (G h xs R) = G (fun c d => f (h c d)) xs R.
Proof. unfold G. induction xs; simpl; [reflexivity|]. rewrite map_app, map_map, IHxs. reflexivity. Qed.

Lemma zip2_G {T U V : Type} (f : T -> U -> V) (h1 : Z -> Z -> T) (h2 : Z -> Z -> U) xs R :
  zip2 f (G h1 xs R) (G h2 xs R) = G (fun c d => f (h1 c d) (h2 c d)) xs R.
Proof.
  unfold G. induction xs; simpl; [reflexivity|].
  rewrite zip2_app by (rewrite !map_length; reflexivity). rewrite zip2_maps, IHxs. reflexivity.
Qed.

Lemma G_ext {T : Type} (h1 h2 : Z -> Z -> T) xs R :
  (forall c d, In c xs -> In d R -> h1 c d = h2 c d) -> G h1 xs R = G h2 xs R.
Proof.
  intro H. unfold G. induction xs; simpl; [reflexivity|]. f_equal.
  - apply map_ext_in. intros d Hd. apply H; [left; reflexivity|exact Hd].
  - apply IHxs. intros c d Hc Hd. apply H; [right; exact Hc|exact Hd].
Qed.

Lemma tile_G {T : Type} (k : Z -> T) (xs R : list Z) :
  concat (repeat (map k R) (length xs)) = G (fun _ => k) xs R.
Proof. unfold G. induction xs; simpl; congruence. Qed.

Lemma chunks_tile {A : Type} (v : list A) : forall k, chunks k (length v) (concat (repeat v k)) = repeat v k.
Proof.
  induction k; simpl; [reflexivity|].
  rewrite firstn_app, Nat.sub_diag, firstn_all, firstn_O, app_nil_r.
  rewrite skipn_app, Nat.sub_diag, skipn_all, skipn_O. simpl. rewrite IHk. reflexivity.
Qed.

Lemma columns_repeat {A : Type} (k : nat) : forall (v : list A),
  columns (length v) (repeat v k) = map (fun x => repeat x k) v.
Proof.
  induction v; simpl; [reflexivity|]. f_equal.
  - clear. induction k; simpl; congruence.
  - rewrite <- IHv. f_equal. clear. induction k; simpl; congruence.
Qed.

(* np.tile(xs, (|R|, 1)).transpose() *)
Lemma T_tile_G (xs R : list Z) :
  fm_T (np_tile_rows xs (vlen R)) = mkF (length xs) (length R) (G (fun c _ => c) xs R).
Proof.
  unfold fm_T, np_tile_rows, vlen. cbn [fm_r fm_c fm_d]. rewrite Nat2Z.id.
  rewrite chunks_tile, columns_repeat. f_equal.
  unfold G. rewrite flat_map_concat_map. f_equal. apply map_ext. intro c.
  rewrite map_const_repeat. reflexivity.
Qed.

Lemma tile_rows_G (k : Z -> Z) (xs R : list Z) :
  np_tile_rows (map k R) (vlen xs) = mkF (length xs) (length R) (G (fun _ => k) xs R).
Proof. unfold np_tile_rows, vlen. rewrite Nat2Z.id, map_length, tile_G. reflexivity. Qed.

Lemma chunks_G {T : Type} (h : Z -> Z -> T) xs R :
  chunks (length xs) (length R) (G h xs R) = map (fun c => map (h c) R) xs.
Proof.
  unfold G. induction xs; simpl; [reflexivity|].
  assert (F : firstn (length R) (map (h a) R) = map (h a) R)
    by (rewrite <- (map_length (h a) R); apply firstn_all).
  assert (S : skipn (length R) (map (h a) R) = [])
    by (rewrite <- (map_length (h a) R); apply skipn_all).
  rewrite firstn_app, map_length, Nat.sub_diag, firstn_O, app_nil_r, F.
  rewrite skipn_app, map_length, Nat.sub_diag, skipn_O, S. simpl. rewrite IHxs. reflexivity.
Qed.

Lemma fm_zip_G {T U V : Type} (f : T -> U -> V) (h1 : Z -> Z -> T) (h2 : Z -> Z -> U) n k xs R :
  fm_zip f (mkF n k (G h1 xs R)) (mkF n k (G h2 xs R)) = Some (mkF n k (G (fun c d => f (h1 c d) (h2 c d)) xs R)).
Proof.
  unfold fm_zip. cbn [fm_r fm_c fm_d]. rewrite !Nat.eqb_refl, !G_length, Nat.eqb_refl. cbn [andb].
  rewrite zip2_G. reflexivity.
Qed.

(* the flat positions of np.where on a 2-D array, read back through (row, column) *)
Lemma lin_unlin {A : Type} (m : fmat A) (b : bvec) : vlen b = Z.of_nat (fm_r m) * Z.of_nat (fm_c m) ->
  omap (fm_lin m) (map (fun k => (k / Z.of_nat (fm_c m), k mod Z.of_nat (fm_c m))) (np_where1 b))
  = Some (np_where1 b).
Proof.
  intro H.
  assert (R : forall k, In k (np_where1 b) -> 0 <= k < Z.of_nat (fm_r m) * Z.of_nat (fm_c m))
    by (intros k Hk; apply where_range in Hk; lia).
  induction (np_where1 b) as [|k l IH]; simpl; [reflexivity|].
  rewrite IH by (intros j Hj; apply R; right; exact Hj).
  assert (Hk := R k (or_introl eq_refl)).
  set (c := Z.of_nat (fm_c m)) in *. set (r := Z.of_nat (fm_r m)) in *.
  assert (0 < c) by nia.
  assert (0 <= k mod c < c) by (apply Z.mod_pos_bound; lia).
  assert (k = c * (k / c) + k mod c) by (apply Z.div_mod; lia).
  assert (0 <= k / c) by (apply Z.div_pos; lia).
  assert (k / c < r) by (apply Z.div_lt_upper_bound; nia).
  replace ((0 <=? k / c) && (k / c <? r) && (0 <=? k mod c) && (k mod c <? c)) with true by lia.
  replace (k / c * c + k mod c) with k by lia. reflexivity.
Qed.

(* ------------------------------------------------------------------ more array lemmas *)

Lemma pick_arange {A : Type} (p : A -> bool) d l :
  pick (np_arange (vlen l)) (map p l) = filter (fun c => p (fn_of d l c)) (np_arange (vlen l)).
Proof.
  rewrite <- pick_map_filter. f_equal.
  rewrite <- (map_map (fn_of d l) p). change (map (fn_of d l) (np_arange (vlen l))) with (tab (vlen l) (fn_of d l)).
  rewrite tab_fn_of. reflexivity.
Qed.

Lemma take_oq l idx : (forall i, In i idx -> 0 <= i < vlen l) ->
  v_take (map x_of_oq l) idx = Some (map (fun c => x_of_oq (fn_of None l c)) idx).
Proof.
  intro H. rewrite (v_take_fn _ (x_of_oq None)) by (unfold vlen; rewrite map_length; exact H).
  f_equal. apply map_ext. intro c. apply fn_of_map.
Qed.

Lemma mask_map {A : Type} (p : A -> bool) l : v_mask l (map p l) = Some (filter p l).
Proof. unfold v_mask. rewrite map_length, Nat.eqb_refl, pick_map_filter. reflexivity. Qed.

Lemma take_where_map {A : Type} (p : A -> bool) l : v_take l (np_where1 (map p l)) = Some (filter p l).
Proof. rewrite take_where by (rewrite map_length; reflexivity). rewrite pick_map_filter. reflexivity. Qed.

Lemma take_where_map2 {A B : Type} (f : A -> B) (p : A -> bool) l :
  v_take (map f l) (np_where1 (map p l)) = Some (map f (filter p l)).
Proof. rewrite take_where by (rewrite !map_length; reflexivity). rewrite pick_map, pick_map_filter. reflexivity. Qed.

Lemma tile_rows_id (xs R : list Z) :
  np_tile_rows R (vlen xs) = mkF (length xs) (length R) (G (fun _ d => d) xs R).
Proof.
  unfold np_tile_rows, vlen. rewrite Nat2Z.id. f_equal.
  unfold G. induction xs; simpl; [reflexivity|]. rewrite IHxs, map_id. reflexivity.
Qed.

Lemma fm_zip_maps {A B C D : Type} (f : B -> C -> D) (g : A -> B) (h : A -> C) (m : fmat A) :
  fm_zip f (fm_map g m) (fm_map h m) = Some (fm_map (fun x => f (g x) (h x)) m).
Proof.
  unfold fm_zip, fm_map. cbn [fm_r fm_c fm_d]. rewrite !Nat.eqb_refl, !map_length, Nat.eqb_refl. cbn [andb].
  rewrite zip2_maps. reflexivity.
Qed.

Lemma take2_where2 {A : Type} (m : fmat A) (p : A -> bool) : length (fm_d m) = (fm_r m * fm_c m)%nat ->
  fm_take2 m (np_where2 (fm_map p m)) = Some (filter p (fm_d m)).
Proof.
  intro H. unfold fm_take2, np_where2, fm_map. cbn [fm_r fm_c fm_d].
  rewrite lin_unlin by (unfold vlen; rewrite map_length, H; lia).
  apply take_where_map.
Qed.

Lemma scatter2_where2 {A B : Type} (m : fmat A) (p : A -> bool) (g : A -> B) (x : B) :
  length (fm_d m) = (fm_r m * fm_c m)%nat ->
  fm_scatter2 (fm_full_like m x) (np_where2 (fm_map p m)) (map g (filter p (fm_d m)))
  = Some (mkF (fm_r m) (fm_c m) (map (fun y => if p y then g y else x) (fm_d m))).
Proof.
  intro H. unfold fm_scatter2, np_where2, fm_map. cbn [fm_r fm_c fm_d].
  rewrite (lin_unlin (fm_full_like m x)) by (cbn [fm_full_like fm_r fm_c]; unfold vlen; rewrite map_length, H; lia).
  cbn [fm_full_like fm_r fm_c fm_d]. rewrite <- H.
  rewrite scatter_where by (rewrite repeat_length; reflexivity).
  rewrite zip2_repeat_l. reflexivity.
Qed.

Lemma In_G {T : Type} (h : Z -> Z -> T) xs R x : In x (G h xs R) -> exists c d, In c xs /\ In d R /\ x = h c d.
Proof.
  unfold G. rewrite in_flat_map. intros [c [Hc Hx]]. apply in_map_iff in Hx. destruct Hx as [d [E Hd]].
  exists c, d. auto.
Qed.

(* ------------------------------------------------------------------ scalars *)

Lemma x_to_int_rint o : x_to_int (xrint (x_of_oq o)) = match o with Some d => rint d | None => INT_MIN end.
Proof. destruct o; [|reflexivity]. cbn [x_of_oq xrint x_to_int inject_Z Qnum Qden]. apply Z.quot_1_r. Qed.

Definition hidx (c d : Z) : xf := xadd (xofz d) (xofz c).

Lemma hidx_ge0 c d : xge (hidx c d) (xofz 0) = (0 <=? d + c).
Proof.
  unfold hidx, xge, xle, xadd, xofz, Qle_bool, Qplus, inject_Z. cbn [Qnum Qden].
  apply Bool.eq_iff_eq_true. rewrite !Z.leb_le. change (Z.pos (1 * 1)) with 1. lia.
Qed.
Lemma hidx_lt c d n : xlt (hidx c d) (xofz n) = (d + c <? n).
Proof.
  unfold hidx, xlt, qltb, xadd, xofz, Qle_bool, Qplus, inject_Z. cbn [Qnum Qden].
  apply Bool.eq_iff_eq_true. rewrite negb_true_iff, Z.leb_gt, Z.ltb_lt. change (Z.pos (1 * 1)) with 1. lia.
Qed.
Lemma hidx_int c d : x_to_int (hidx c d) = d + c.
Proof.
  unfold hidx, x_to_int, xadd, xofz, Qplus, inject_Z. cbn [Qnum Qden]. change (Z.pos (1 * 1)) with 1.
  rewrite Z.quot_1_r. lia.
Qed.

(* ------------------------------------------------------------------ generated row function = model row function *)

Definition xinf (o : option Q) := match o with Some q => XFin q | None => XPInf end.
Lemma nan_to_inf o : (if xisnan (x_of_oq o) then XPInf else x_of_oq o) = xinf o.
Proof. destruct o; reflexivity. Qed.
Lemma Qeq_bool_inject a b : Qeq_bool (inject_Z a) (inject_Z b) = (a =? b).
Proof.
  unfold Qeq_bool, inject_Z. cbn [Qnum Qden]. apply Bool.eq_iff_eq_true.
  rewrite <- Zeq_is_eq_bool, Z.eqb_eq. lia.
Qed.
Lemma hit_gen nn dRf c d :
  xeqb (xrint (if xge (hidx c d) (xofz 0) && xlt (hidx c d) (xofz nn)
               then x_of_oq (dRf (x_to_int (hidx c d))) else XPInf)) (xofz (-1 * d))
  = hit nn dRf c d.
Proof.
  rewrite hidx_ge0, hidx_lt, hidx_int. unfold hit.
  destruct ((0 <=? d + c) && (d + c <? nn)); [|reflexivity].
  destruct (dRf (d + c)); [|reflexivity].
  cbn [x_of_oq xrint xeqb xofz]. rewrite Qeq_bool_inject. f_equal; try lia.
Qed.
Definition hbx nn (dRf : Z -> option Q) (c d : Z) : bool :=
  xeqb (xrint (if xge (hidx c d) (xofz 0) && xlt (hidx c d) (xofz nn)
               then x_of_oq (dRf (x_to_int (hidx c d))) else XPInf)) (xofz (-1 * d)).
Lemma comp_gen nn dRf dmin dmax c :
  (if b_sum (map (hbx nn dRf c) (np_arange2 dmin (dmax + 1))) >? 1 then 1
   else b_sum (map (hbx nn dRf c) (np_arange2 dmin (dmax + 1)))) = comp nn dRf dmin dmax c.
Proof.
  unfold hbx. rewrite (map_ext _ _ (hit_gen nn dRf c)), b_sum_filter. unfold comp. rewrite Z.gtb_ltb. reflexivity.
Qed.
Lemma valid_768 m : 0 <= m < 65536 -> Z.land m 963 = 0 -> m + 768 < 65536.
Proof.
  intros Hm H. rewrite (add_bit_lor m 768 H eq_refl).
  destruct (Z.eq_dec m 0) as [->|N]; [cbn; lia|].
  change 65536 with (2 ^ 16). apply Z.log2_lt_pow2.
  - assert (0 <= Z.lor m 768) by (apply Z.lor_nonneg; lia).
    assert (Z.lor m 768 <> 0) by (intro E; apply Z.lor_eq_0_iff in E; lia). lia.
  - rewrite Z.log2_lor by lia.
    assert (Z.log2 m < 16) by (apply Z.log2_lt_pow2; lia).
    change (Z.log2 768) with 9. lia.
Qed.
Lemma comp_01 nn dRf dmin dmax c : 0 <= comp nn dRf dmin dmax c <= 1.
Proof. unfold comp. destruct (1 <? _) eqn:E; lia. Qed.
Lemma xgt_egt thr (a b : option Q) :
  xgt (xabs (xadd (xinf a) (xinf b))) (XFin thr) = egt (eabs (eadd (ext_of a) (ext_of b))) thr.
Proof. destruct a, b; reflexivity. Qed.
Lemma xdist_conf (a b : option Q) :
  xabs (xadd (xinf a) (xinf b)) = x_of_conf (conf_of_ext (eabs (eadd (ext_of a) (ext_of b)))).
Proof. destruct a, b; reflexivity. Qed.
Section Row.
  Variables (thr : Q) (dmin dmax : Z) (mk : list Z) (dL dR : list (option Q)).
  Hypothesis HL : length dL = length mk.
  Hypothesis HR : length dR = length mk.
  Hypothesis Hm : Forall (fun m => 0 <= m < 65536) mk.
  Let n := vlen mk.
  Let mkf := fn_of 0 mk.
  Let dLf := fn_of None dL.
  Let dRf := fn_of None dR.
  Let R := np_arange2 dmin (dmax + 1).
  Let cr := col_right_of true dLf.
  Let pv c := is_valid (mkf c).
  Let CL := filter pv (np_arange n).
  Let pin c := in_img n (cr c).
  Let CLI := filter pin CL.
  Let xdist c := xabs (xadd (xinf (dRf (cr c))) (xinf (dLf c))).
  Let pinv c := xgt (xdist c) (XFin thr).
  Let INV := filter pinv CLI.
  Let pout c := (cr c <? 0) || (n <=? cr c).
  Let OUT := filter pout CL.

  Lemma HCL : forall i, In i CL -> 0 <= i < n.
  Proof. intros i H. apply filter_In in H. apply In_arange. tauto. Qed.
  Lemma HCLI : forall i, In i CLI -> 0 <= i < n /\ 0 <= cr i < n.
  Proof. intros i H. apply filter_In in H. destruct H as [H1 H2]. split; [apply HCL; exact H1|]. unfold pin, in_img in H2. lia. Qed.
  Lemma HINV : forall i, In i INV -> 0 <= i < n.
  Proof. intros i H. apply filter_In in H. apply HCLI. tauto. Qed.

  Theorem gen_row_eq_model :
    XCheckKernel.g_row (XFin thr) n R mk (map x_of_oq dL) (map x_of_oq dR) (repeat XNaN (length mk))
    = Some (tab n (mask_row true true n dLf dRf mkf thr dmin dmax),
            tab n (fun c => x_of_conf (conf_row true n dLf dRf mkf c))).
  Proof.
    unfold XCheckKernel.g_row. cbv zeta.
    (* valid_pixel, col_left *)
    unfold vs at 1 2. rewrite map_map.
    rewrite take_where by (rewrite arange_length, map_length; unfold n, vlen; lia).
    cbv beta iota.
    match goal with |- context [pick (np_arange n) ?b] =>
      replace (pick (np_arange n) b) with CL by (unfold n; rewrite (pick_arange _ 0); reflexivity) end.
    (* col_right *)
    rewrite take_oq by (intros i Hi; apply HCL in Hi; unfold n, vlen in *; lia).
    cbv beta iota. rewrite !map_map, vv2_map_r. cbv beta iota.
    rewrite (map_ext _ cr) by (intro c; unfold cr, col_right_of; rewrite x_to_int_rint; reflexivity).
    (* inside_right *)
    unfold vs at 1 2. rewrite !map_map, vv2_maps. cbv beta iota.
    rewrite (map_ext _ pin) by (intro c; unfold pin, in_img; rewrite Z.geb_leb; reflexivity).
    rewrite take_where_map2, !take_where_map. cbv beta iota.
    change (filter pin CL) with CLI.
    (* right_disp, left_disp *)
    rewrite take_oq by (intros i Hi; apply in_map_iff in Hi; destruct Hi as [c [<- Hc]]; apply HCLI in Hc; unfold n, vlen in *; lia).
    cbv beta iota. rewrite map_map, setmask_map, map_map. cbv beta iota.
    rewrite (map_ext _ _ (fun c => nan_to_inf (dRf (cr c)))).
    rewrite take_oq by (intros i Hi; apply HCLI in Hi; unfold n, vlen in *; lia).
    cbv beta iota. rewrite setmask_map, map_map. cbv beta iota.
    rewrite (map_ext _ _ (fun c => nan_to_inf (dLf c))).
    (* conf_measure, invalid *)
    rewrite vv2_maps. cbv beta iota. rewrite map_map.
    change (map _ CLI) with (map xdist CLI).
    rewrite (scatter_map XNaN) by (intros i Hi; apply HCLI in Hi; unfold n, vlen in *; rewrite repeat_length; lia).
    cbv beta iota.
    unfold vs at 1 2 3 4 5 6. rewrite !map_map. fold pinv. rewrite !mask_map. cbv beta iota. fold INV.
    (* the mismatch search *)
    rewrite tile_rows_id, T_tile_G. unfold fm_map at 1 2. cbn [fm_r fm_c fm_d]. rewrite !map_G, fm_zip_G.
    cbv beta iota.
    change (G (fun c d => xadd (xofz d) (xofz c)) INV R) with (G hidx INV R).
    set (IDX := mkF (length INV) (length R) (G hidx INV R)).
    assert (HIDX : length (fm_d IDX) = (fm_r IDX * fm_c IDX)%nat) by apply G_length.
    rewrite fm_zip_maps. cbv beta iota.
    set (pin2 := fun x : xf => xge x (xofz 0) && xlt x (xofz n)).
    rewrite take2_where2 by exact HIDX. cbv beta iota.
    assert (Hpin2 : forall x, In x (filter pin2 (fm_d IDX)) -> 0 <= x_to_int x < n).
    { intros x Hx. apply filter_In in Hx. destruct Hx as [Hx Hp]. apply In_G in Hx.
      destruct Hx as [c [d [_ [_ ->]]]]. unfold pin2 in Hp. rewrite hidx_ge0, hidx_lt in Hp. rewrite hidx_int. lia. }
    rewrite take_oq by (intros i Hi; apply in_map_iff in Hi; destruct Hi as [x [<- Hx]]; apply Hpin2 in Hx;
                        unfold n, vlen in *; lia).
    cbv beta iota. rewrite map_map.
    rewrite scatter2_where2 by exact HIDX. cbv beta iota.
    (* comp *)
    unfold sv at 1. rewrite tile_rows_G. unfold fm_map. unfold IDX. cbn [fm_r fm_c fm_d].
    rewrite !map_map, !map_G, fm_zip_G. cbv beta iota.
    unfold fbm_sum1. cbn [fm_r fm_c fm_d]. rewrite chunks_G, map_map, setmask_map, map_map. cbv beta iota.
    rewrite (map_ext _ _ (comp_gen n dRf dmin dmax)).
    (* the flag updates *)
    unfold sv, vs. rewrite !map_map. fold pinv. rewrite !mask_map. cbv beta iota. fold INV.
    rewrite iadd_s_map by exact HINV. cbv beta iota.
    rewrite iadd_map by (intros i Hi; rewrite vlen_tab by apply vlen_nonneg; apply HINV; exact Hi). cbv beta iota.
    rewrite isub_map by (intros i Hi; rewrite !vlen_tab by apply vlen_nonneg; apply HINV; exact Hi). cbv beta iota.
    rewrite vv2_maps. cbv beta iota.
    rewrite (map_ext _ pout) by (intro c; unfold pout; rewrite Z.geb_leb; reflexivity).
    rewrite take_where_map. cbv beta iota. fold OUT.
    rewrite iadd_s_map by (intros i Hi; rewrite !vlen_tab by apply vlen_nonneg; apply filter_In in Hi; apply HCL; tauto).
    cbv beta iota. rewrite !vlen_tab by apply vlen_nonneg.
    replace (vlen (repeat XNaN (length mk))) with n by (unfold n, vlen; rewrite repeat_length; reflexivity).
    fold n. f_equal. f_equal.
    - apply tab_ext. intros c Hc.
      repeat (rewrite fn_of_tab by exact Hc; cbv beta).
      unfold OUT, INV, CLI, CL. rewrite !existsb_filter, existsb_arange.
      replace ((0 <=? c) && (c <? n)) with true by lia. rewrite !andb_true_r.
      rewrite mask_row_pixel. unfold pixel_mask. cbv zeta beta.
      replace ((0 <=? c) && (c <? n)) with true by lia. cbn [andb].
      change (fn_of 0 mk c) with (mkf c). change (col_right_of true dLf c) with (cr c).
      change (is_valid (mkf c)) with (pv c). change (in_img n (cr c)) with (pin c).
      assert (Hmc : 0 <= mkf c < 65536).
      { unfold mkf, fn_of. rewrite Forall_forall in Hm. apply Hm. apply nth_In. unfold n, vlen in Hc. lia. }
      assert (H01 := comp_01 n dRf dmin dmax c).
      assert (Epinv : pinv c = egt (dist dLf dRf (c, cr c)) thr) by apply xgt_egt.
      change ValConst.PANDORA_MSK_PIXEL_OCCLUSION with 256. change ValConst.PANDORA_MSK_PIXEL_MISMATCH with 512.
      change MSK_OCCLUSION with 256. change MSK_MISMATCH with 512.
      rewrite <- Epinv.
      assert (Eout : pout c = negb (pin c)) by (unfold pout, pin, in_img; lia).
      change (is_outside true n (cr c)) with (pout c). rewrite Eout.
      destruct (pv c) eqn:Ev; [|rewrite !andb_false_r; reflexivity].
      assert (H768 : mkf c + 768 < 65536)
        by (apply valid_768; [exact Hmc | unfold pv, is_valid in Ev; apply Z.eqb_eq; exact Ev]).
      destruct (pin c), (pinv c); cbn [andb negb]; try reflexivity; unfold u16.
      + destruct (Z.eq_dec (comp n dRf dmin dmax c) 0) as [E0|E0].
        * rewrite E0. change (512 * 0) with 0. change (256 * 0) with 0. change (0 mod 65536) with 0.
          rewrite !Z.add_0_r, !Z.sub_0_r. repeat rewrite (Z.mod_small (mkf c + 256)) by lia. reflexivity.
        * assert (E1 : comp n dRf dmin dmax c = 1) by lia. rewrite E1.
          change (512 * 1) with 512. change (256 * 1) with 256.
          change (512 mod 65536) with 512. change (256 mod 65536) with 256.
          rewrite (Z.mod_small (mkf c + 256)) by lia. rewrite (Z.mod_small (mkf c + 256 + 512)) by lia.
          rewrite Z.mod_small by lia. reflexivity.
      + rewrite Z.mod_small by lia. reflexivity.
      + rewrite Z.mod_small by lia. reflexivity.
    - apply tab_ext. intros c Hc.
      unfold CLI, CL. rewrite !existsb_filter, existsb_arange.
      replace ((0 <=? c) && (c <? n)) with true by lia. rewrite !andb_true_r.
      rewrite conf_row_pixel. unfold pixel_conf. cbv zeta beta.
      replace ((0 <=? c) && (c <? n)) with true by lia. cbn [andb].
      change (fn_of 0 mk c) with (mkf c). change (col_right_of true dLf c) with (cr c).
      change (is_valid (mkf c)) with (pv c). change (in_img n (cr c)) with (pin c).
      rewrite (andb_comm (pin c)).
      destruct (pv c && pin c).
      + apply xdist_conf.
      + unfold fn_of. destruct (nth_in_or_default (Z.to_nat c) (repeat XNaN (length mk)) XNaN) as [H|H]; [|exact H].
        apply repeat_spec in H. exact H.
  Qed.
End Row.

(* ------------------------------------------------------------------ the row loop *)

Lemma skipn_nth_error {A : Type} : forall (l : list A) s x, nth_error l s = Some x -> skipn s l = x :: skipn (S s) l.
Proof. induction l; destruct s; simpl; intros x H; try discriminate; [congruence|]. apply IHl. exact H. Qed.

Lemma nth_error_app_len {A : Type} (pre l : list A) : nth_error (pre ++ l) (length pre) = nth_error l 0.
Proof. rewrite nth_error_app2 by lia. rewrite Nat.sub_diag. reflexivity. Qed.

Lemma v_get_nat {A : Type} (v : list A) i x : nth_error v i = Some x -> v_get v (Z.of_nat i) = Some x.
Proof.
  intro H. assert (i < length v)%nat by (apply nth_error_Some; congruence).
  unfold v_get. rewrite norm_index_in by (unfold vlen; lia). rewrite Nat2Z.id. exact H.
Qed.

Lemma v_get_app_nat {A : Type} (pre : list A) x r s : length pre = s -> v_get (pre ++ x :: r) (Z.of_nat s) = Some x.
Proof. intros <-. apply v_get_app_len. Qed.
Lemma v_store_app_nat {A : Type} (pre : list A) x r y s : length pre = s ->
  v_store (pre ++ x :: r) (Z.of_nat s) y = Some (pre ++ y :: r).
Proof. intros <-. apply v_store_app_len. Qed.

Section Loop.
  Context {A B C D : Type}.
  Variable body : A -> B -> C -> D -> option (A * D).
  Variables (fa : Z -> A) (fd : Z -> D).
  Variables (ma : list A) (mb : list B) (mc : list C) (md : list D) (n : nat).
  Hypothesis Ha : length ma = n.
  Hypothesis Hd : length md = n.
  Hypothesis Hbody : forall i a b c d, nth_error ma i = Some a -> nth_error mb i = Some b ->
    nth_error mc i = Some c -> nth_error md i = Some d -> body a b c d = Some (fa (Z.of_nat i), fd (Z.of_nat i)).
  Hypothesis Hb : length mb = n.
  Hypothesis Hc : length mc = n.

  Let F := fun row (st : list A * list D) =>
    let '(ma, md) := st in
    match v_get ma row, v_get mb row, v_get mc row, v_get md row with
    | Some a, Some b, Some c, Some d =>
        match body a b c d with
        | Some (a', d') =>
            match v_store ma row a', v_store md row d' with
            | Some ma', Some md' => Some (ma', md')
            | _, _ => None
            end
        | None => None
        end
    | _, _, _, _ => None
    end.
  Let stA s := map (fun i => fa (Z.of_nat i)) (seq 0 s) ++ skipn s ma.
  Let stD s := map (fun i => fd (Z.of_nat i)) (seq 0 s) ++ skipn s md.

  Lemma rows_step : forall k s, (s + k = n)%nat ->
    for_list (map Z.of_nat (seq s k)) F (stA s, stD s) = Some (stA n, stD n).
  Proof.
    induction k; intros s Hs.
    - simpl. replace s with n by lia. reflexivity.
    - cbn [seq map for_list].
      destruct (nth_error ma s) as [a|] eqn:Ea; [|apply nth_error_None in Ea; lia].
      destruct (nth_error mb s) as [b|] eqn:Eb; [|apply nth_error_None in Eb; lia].
      destruct (nth_error mc s) as [c|] eqn:Ec; [|apply nth_error_None in Ec; lia].
      destruct (nth_error md s) as [d|] eqn:Ed; [|apply nth_error_None in Ed; lia].
      assert (La : vlen (map (fun i => fa (Z.of_nat i)) (seq 0 s)) = Z.of_nat s)
        by (unfold vlen; rewrite map_length, seq_length; reflexivity).
      assert (Ld : vlen (map (fun i => fd (Z.of_nat i)) (seq 0 s)) = Z.of_nat s)
        by (unfold vlen; rewrite map_length, seq_length; reflexivity).
      unfold F at 1. unfold stA at 1 2, stD at 1 2.
      rewrite (skipn_nth_error ma s a Ea), (skipn_nth_error md s d Ed).
      rewrite !v_get_app_nat by (rewrite map_length, seq_length; reflexivity).
      rewrite (v_get_nat mb s b Eb), (v_get_nat mc s c Ec).
      rewrite (Hbody s a b c d Ea Eb Ec Ed).
      rewrite !v_store_app_nat by (rewrite map_length, seq_length; reflexivity).
      specialize (IHk (S s)). unfold stA at 1, stD at 1 in IHk.
      rewrite !seq_S, !map_app in IHk. simpl in IHk. rewrite <- !app_assoc in IHk. simpl in IHk.
      apply IHk. lia.
  Qed.

  Lemma rows_loop_tab :
    rows_loop (Z.of_nat n) body ma mb mc md = Some (tab (Z.of_nat n) fa, tab (Z.of_nat n) fd).
  Proof.
    unfold rows_loop, for_range, np_arange. rewrite Nat2Z.id.
    change (for_list (map Z.of_nat (seq 0 n)) F (stA 0, stD 0) = Some (tab (Z.of_nat n) fa, tab (Z.of_nat n) fd)).
    rewrite (rows_step n 0) by lia. unfold stA, stD.
    replace (skipn n ma) with (@nil A) by (symmetry; rewrite <- Ha; apply skipn_all).
    replace (skipn n md) with (@nil D) by (symmetry; rewrite <- Hd; apply skipn_all).
    rewrite !app_nil_r.
    unfold tab, np_arange. rewrite Nat2Z.id, !map_map. reflexivity.
  Qed.
End Loop.

(* ------------------------------------------------------------------ the model reads its rows only inside the image *)

Lemma hit_ext nc dR dR' c d : (forall x, 0 <= x < nc -> dR x = dR' x) -> hit nc dR c d = hit nc dR' c d.
Proof.
  intro H. unfold hit. destruct ((0 <=? d + c) && (d + c <? nc)) eqn:E; [|reflexivity].
  rewrite H by lia. reflexivity.
Qed.

Lemma comp_ext nc dR dR' dmin dmax c : (forall x, 0 <= x < nc -> dR x = dR' x) ->
  comp nc dR dmin dmax c = comp nc dR' dmin dmax c.
Proof. intro H. unfold comp. rewrite (filter_ext _ _ (fun d => hit_ext nc dR dR' c d H)). reflexivity. Qed.

Lemma row_ext nc dL dL' dR dR' mk mk' thr dmin dmax c :
  (forall x, 0 <= x < nc -> dL x = dL' x /\ dR x = dR' x /\ mk x = mk' x) -> 0 <= c < nc ->
  mask_row true true nc dL dR mk thr dmin dmax c = mask_row true true nc dL' dR' mk' thr dmin dmax c
  /\ conf_row true nc dL dR mk c = conf_row true nc dL' dR' mk' c.
Proof.
  intros H Hc. destruct (H c Hc) as (E1 & E2 & E3).
  rewrite !mask_row_pixel, !conf_row_pixel. unfold pixel_mask, pixel_conf. cbv zeta.
  assert (Ecr : col_right_of true dL c = col_right_of true dL' c) by (unfold col_right_of; rewrite E1; reflexivity).
  rewrite <- Ecr, <- E3.
  rewrite <- (comp_ext nc dR dR' dmin dmax c (fun x Hx => proj1 (proj2 (H x Hx)))).
  set (q := col_right_of true dL c).
  destruct (in_img nc q) eqn:Ein.
  - assert (Ed : dist dL dR (c, q) = dist dL' dR' (c, q)).
    { unfold dist. cbn [fst snd]. rewrite <- E1. unfold in_img in Ein.
      rewrite <- (proj1 (proj2 (H q ltac:(lia)))). reflexivity. }
    rewrite <- Ed. split; reflexivity.
  - rewrite !andb_false_r. split; reflexivity.
Qed.

Lemma mask_border_ext nr nc off m m' r c : m r c = m' r c -> mask_border nr nc off m r c = mask_border nr nc off m' r c.
Proof. intro H. unfold mask_border. rewrite H. reflexivity. Qed.

Lemma nth_error_tab {A : Type} n (f : Z -> A) i a : nth_error (tab n f) i = Some a ->
  a = f (Z.of_nat i) /\ 0 <= Z.of_nat i < n.
Proof.
  intro H. assert (Hi : (i < length (tab n f))%nat) by (apply nth_error_Some; congruence).
  unfold tab in *. rewrite map_length, arange_length in Hi.
  unfold np_arange in H. rewrite map_map in H. rewrite nth_error_map in H.
  rewrite (nth_error_nth' (seq 0 (Z.to_nat n)) 0%nat) in H by (rewrite seq_length; exact Hi).
  rewrite seq_nth in H by exact Hi. simpl in H. split; [congruence|lia].
Qed.

Lemma tab_length {A : Type} n (f : Z -> A) : length (tab n f) = Z.to_nat n.
Proof. unfold tab. rewrite map_length, arange_length. reflexivity. Qed.

(* ------------------------------------------------------------------ the whole generated method = the model's xcheck *)

Section DS.
  Variables (thr : Q) (me other : dataset).
  Hypothesis Hnr : 0 < ds_nr me.
  Hypothesis Hnc : 0 <= ds_nc me.
  Hypothesis Hr : ds_nr other = ds_nr me.
  Hypothesis Hc : ds_nc other = ds_nc me.
  Hypothesis Hm : forall r c, 0 <= r < ds_nr me -> 0 <= c < ds_nc me -> 0 <= ds_mask me r c < 65536.

  Theorem gen_xcheck_eq_model :
    XCheckKernel.g_disparity_checking x_append_band (x_mask_border (ds_nr me) (ds_nc me)) (XFin thr) (to_x me) (to_x other)
    = Some (to_x (xcheck thr me other)).
  Proof.
    unfold XCheckKernel.g_disparity_checking.
    assert (Esh : x_shape (to_x me) = (ds_nr me, ds_nc me)).
    { unfold x_shape, to_x. cbn [x_disp]. unfold tab2. rewrite vlen_tab by lia. f_equal.
      unfold tab at 1, np_arange. destruct (Z.to_nat (ds_nr me)) eqn:E; [lia|]. cbn [seq map hd].
      apply vlen_tab. exact Hnc. }
    rewrite Esh.
    change (XCheckKernel.g_extract_disparity_range (to_x me)) with (np_arange2 (ds_dmin me) (ds_dmax me + 1)).
    cbv zeta.
    set (fa := fun r => tab (ds_nc me) (xcheck_mask true true thr me other r)).
    set (fd := fun r => tab (ds_nc me) (fun c => x_of_conf (xcheck_conf true me other r c))).
    assert (EL := rows_loop_tab (XCheckKernel.g_row (XFin thr) (ds_nc me) (np_arange2 (ds_dmin me) (ds_dmax me + 1)))
                    fa fd (x_mask (to_x me)) (x_disp (to_x me)) (x_disp (to_x other))
                    (np_full2 (ds_nr me) (ds_nc me) XNaN) (Z.to_nat (ds_nr me))).
    rewrite Z2Nat.id in EL by lia.
    rewrite EL; clear EL.
    - cbn [x_offset x_append_band x_set_validation x_set_mask to_x].
      unfold to_x, xcheck, xcheck_gen. cbn [ds_nr ds_nc ds_disp ds_mask ds_bands ds_dmin ds_dmax ds_offset].
      rewrite Z.gtb_ltb. f_equal.
      destruct (0 <? ds_offset me) eqn:Eo.
      + unfold x_set_mask, x_append_band, x_set_validation, x_mask_border.
        cbn [x_disp x_mask x_bands x_interval x_offset x_validation]. rewrite map_app. cbn [map].
        f_equal. unfold tab2. apply tab_ext. intros r Hr'. apply tab_ext. intros c Hc'.
        apply mask_border_ext. unfold fa. rewrite !fn_of_tab by lia. reflexivity.
      + unfold x_set_mask, x_append_band, x_set_validation.
        cbn [x_disp x_mask x_bands x_interval x_offset x_validation]. rewrite map_app. cbn [map]. reflexivity.
    - unfold to_x. cbn [x_mask]. apply tab_length.
    - unfold np_full2. apply repeat_length.
    - intros i a b c d Ea Eb Ec Ed.
      unfold to_x in Ea, Eb, Ec. cbn [x_mask x_disp] in Ea, Eb, Ec. unfold tab2 in Ea, Eb, Ec.
      apply nth_error_tab in Ea. destruct Ea as [-> Hi].
      apply nth_error_tab in Eb. destruct Eb as [-> _].
      apply nth_error_tab in Ec. destruct Ec as [-> _].
      unfold np_full2 in Ed. apply nth_error_In, repeat_spec in Ed. subst d.
      set (r := Z.of_nat i) in *. rewrite Hc.
      assert (G := gen_row_eq_model thr (ds_dmin me) (ds_dmax me) (tab (ds_nc me) (ds_mask me r))
                     (tab (ds_nc me) (ds_disp me r)) (tab (ds_nc me) (ds_disp other r))).
      rewrite !tab_length, vlen_tab in G by lia.
      replace (tab (ds_nc me) (fun c => x_of_oq (ds_disp me r c))) with (map x_of_oq (tab (ds_nc me) (ds_disp me r)))
        by (unfold tab; rewrite map_map; reflexivity).
      replace (tab (ds_nc me) (fun c => x_of_oq (ds_disp other r c))) with (map x_of_oq (tab (ds_nc me) (ds_disp other r)))
        by (unfold tab; rewrite map_map; reflexivity).
      rewrite G; clear G; try reflexivity.
      + unfold fa, fd. f_equal. f_equal.
        * apply tab_ext. intros x Hx. unfold xcheck_mask.
          replace ((0 <=? r) && (r <? ds_nr me)) with true by lia.
          apply row_ext; [|exact Hx]. intros y Hy. rewrite !fn_of_tab by exact Hy. auto.
        * apply tab_ext. intros x Hx. unfold xcheck_conf.
          replace ((0 <=? r) && (r <? ds_nr me)) with true by lia. f_equal.
          apply (row_ext (ds_nc me) _ _ _ _ _ _ thr (ds_dmin me) (ds_dmax me)); [|exact Hx].
          intros y Hy. rewrite !fn_of_tab by exact Hy. auto.
      + apply Forall_forall. intros m Hin. unfold tab in Hin. apply in_map_iff in Hin.
        destruct Hin as [x [<- Hx]]. apply In_arange in Hx. apply Hm; lia.
    - unfold to_x. cbn [x_disp]. apply tab_length.
    - unfold to_x. cbn [x_disp]. rewrite Hr. apply tab_length.
  Qed.
End DS.

(* ------------------------------------------------------------------ the headline theorems on the generated method *)

(* cell (r, c) of a 2-D int array given as rows *)
Definition cell2 (m : list (list Z)) (r c : Z) : Z := fn_of 0 (fn_of [] m r) c.

Lemma cell2_tab2 nr nc f r c : 0 <= r < nr -> 0 <= c < nc -> cell2 (tab2 nr nc f) r c = f r c.
Proof. intros Hr Hc. unfold cell2, tab2. rewrite (fn_of_tab nr) by exact Hr. apply fn_of_tab. exact Hc. Qed.

(* the well-shapedness of a call: a non-empty checked dataset, a reference dataset of the same shape, uint16 masks *)
Definition gen_pre (me other : dataset) : Prop :=
  0 < ds_nr me /\ 0 <= ds_nc me /\ ds_nr other = ds_nr me /\ ds_nc other = ds_nc me /\
  forall r c, 0 <= r < ds_nr me -> 0 <= c < ds_nc me -> 0 <= ds_mask me r c < 65536.

Definition gen_call (thr : Q) (me other : dataset) : option xds :=
  XCheckKernel.g_disparity_checking x_append_band (x_mask_border (ds_nr me) (ds_nc me)) (XFin thr) (to_x me) (to_x other).

Lemma gen_call_eq thr me other : gen_pre me other -> gen_call thr me other = Some (to_x (xcheck thr me other)).
Proof. intros (H1 & H2 & H3 & H4 & H5). apply gen_xcheck_eq_model; assumption. Qed.

Lemma gen_xcheck_eq_spec thr me other : gen_pre me other -> forall r c,
  in_ds me r c -> ds_nc me <= 2 ^ 63 -> border_at me r c = false ->
  spec_valid (ds_mask me r c) = true -> finding_at me other r c = false ->
  exists out, gen_call thr me other = Some out /\
    cell2 (x_mask out) r c = Z.lor (ds_mask me r c) (verdict_bit (verdict_at thr me other r c)).
Proof.
  intros Hp r c Hin Hnc Hb Hv Hf. eexists. split; [apply gen_call_eq; exact Hp|].
  unfold to_x. cbn [x_mask]. destruct Hin as [Hr Hc].
  rewrite cell2_tab2 by (unfold xcheck, xcheck_gen; cbn [ds_nr ds_nc]; assumption).
  apply xcheck_eq_spec; [split|..]; assumption.
Qed.

Lemma gen_xcheck_keep_iff thr me other : gen_pre me other -> forall r c,
  in_ds me r c -> ds_nc me <= 2 ^ 63 -> border_at me r c = false -> spec_valid (ds_mask me r c) = true ->
  exists out, gen_call thr me other = Some out /\
    (cell2 (x_mask out) r c = ds_mask me r c <-> verdict_at thr me other r c = Keep).
Proof.
  intros Hp r c Hin Hnc Hb Hv. eexists. split; [apply gen_call_eq; exact Hp|].
  unfold to_x. cbn [x_mask]. destruct Hin as [Hr Hc].
  rewrite cell2_tab2 by (unfold xcheck, xcheck_gen; cbn [ds_nr ds_nc]; assumption).
  apply xcheck_keep_iff; [split|..]; assumption.
Qed.

Lemma gen_invalid_untouched thr me other : gen_pre me other -> forall r c,
  in_ds me r c -> border_at me r c = false -> spec_valid (ds_mask me r c) = false ->
  exists out, gen_call thr me other = Some out /\ cell2 (x_mask out) r c = ds_mask me r c.
Proof.
  intros Hp r c Hin Hb Hv. eexists. split; [apply gen_call_eq; exact Hp|].
  unfold to_x. cbn [x_mask]. destruct Hin as [Hr Hc].
  rewrite cell2_tab2 by (unfold xcheck, xcheck_gen; cbn [ds_nr ds_nc]; assumption).
  apply xcheck_invalid_untouched; [split|..]; assumption.
Qed.

(* every uint16 cell the generated method leaves is a uint16 value, and it is the value of the model, which computes
   in Z without any reduction: none of the [u16] of the generated code ever changed a number *)
Lemma gen_no_wrap thr me other : gen_pre me other -> ds_nc me <= 2 ^ 63 ->
  exists out, gen_call thr me other = Some out /\
    forall r c, in_ds me r c ->
      cell2 (x_mask out) r c = ds_mask (xcheck thr me other) r c /\ 0 <= cell2 (x_mask out) r c < 65536.
Proof.
  intros Hp Hnc. eexists. split; [apply gen_call_eq; exact Hp|].
  intros r c [Hr Hc]. unfold to_x. cbn [x_mask].
  rewrite cell2_tab2 by (unfold xcheck, xcheck_gen; cbn [ds_nr ds_nc]; assumption).
  split; [reflexivity|]. destruct Hp as (_ & _ & _ & _ & Hm).
  apply xcheck_no_wrap; [split; assumption|exact Hnc|apply Hm; assumption].
Qed.

(* for ANY two datasets (well-shaped or not) and any callee for mask_border: when the generated method returns, the
   disparity map, the interval and the offset of the result are those of dataset_left, and one band was appended;
   dataset_right is an argument that is only read (the translator refuses every store into it) *)
Lemma gen_disparity_unchanged h_mb thr dl dr out :
  XCheckKernel.g_disparity_checking x_append_band h_mb thr dl dr = Some out ->
  x_disp out = x_disp dl /\ x_interval out = x_interval dl /\ x_offset out = x_offset dl /\
  exists band, x_bands out = x_bands dl ++ [band].
Proof.
  unfold XCheckKernel.g_disparity_checking. destruct (x_shape dl) as [nr nc]. cbv zeta.
  destruct (rows_loop _ _ _ _ _ _) as [[mrows conf]|]; [|discriminate].
  intro H. injection H as <-.
  destruct (x_offset _ >? 0); cbn; repeat split; eexists; reflexivity.
Qed.
