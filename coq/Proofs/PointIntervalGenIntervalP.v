(* C09 side of the T-gen tie of the index arithmetic (Gen/PointInterval.v, regenerated at every run): the
   interval-related facts restated on the GENERATED iteration of cv_masked, the generated out-of-interval test
   and the generated get_min_max_from_grid.  Per-run obligations, like Proofs/PointIntervalGenP.v. *)
From Coq Require Import ZArith List Bool Lia QArith Qround.
From Pandora Require Import Model.PyArith Model.MatchingCost Spec.Cost Proofs.MatchingCostP Model.Interval
                            Proofs.IntervalP Proofs.PointIntervalGenP.
From Pandora Require Gen.PointInterval.
Open Scope Z_scope.

(* the plane that receives the masks for sample k of the axis that starts at get_min_max_from_grid(...)[0] is k;
   it is also the value of the float expression on the rational coordinate of the sample; the shifted right
   image is the fractional part, idem *)
Lemma gen_dsp_index_consistent : forall s ny nx g h nxl nxr k, 0 < s ->
  let dmin := fst (G.get_min_max_from_grid ny nx g h) in
  let '(i, pq, im, dsp) := G.cv_masked_loop s ny nx g h nxl nxr (disp_scaled s dmin k) in
  dsp = k /\ dsp = dsp_float s dmin (sample_q s dmin k)
  /\ i = i_right s (disp_scaled s dmin k) /\ i = i_right_float s (sample_q s dmin k).
Proof.
  intros s ny nx g h nxl nxr k Hs. rewrite gen_get_min_max_from_grid_eq. cbn [fst].
  rewrite (gen_cv_masked_loop_eq _ _ _ _ _ _ _ _ Hs).
  destruct (dsp_index_consistent s (grid_min ny nx g) k Hs) as (A & B & C).
  rewrite A, C. repeat split; try reflexivity; exact B.
Qed.

(* the generated test of the second loop: NaN exactly outside the pixel's own [min, max]; it is the test of the
   model's [mask_interval] *)
Lemma gen_interval_test : forall s g h r c D,
  G.cv_masked_out_of_range s g h r c D = negb (in_interval s g h r c D)
  /\ forall (A : Type) dmin (cv : Z -> Z -> Z -> option A) j,
       mask_interval s dmin g h cv r c j
       = if G.cv_masked_out_of_range s g h r c (disp_scaled s dmin j) then None else cv r c j.
Proof.
  intros s g h r c D. split; [apply gen_out_of_range_spec|].
  intros A dmin cv j. unfold mask_interval. cbv zeta. rewrite gen_out_of_range_eq. reflexivity.
Qed.

(* the generated get_min_max_from_grid returns the attained extrema of the two grids: the axis is the hull of the
   per-pixel intervals *)
Lemma gen_axis_origin : forall ny nx g h, 1 <= ny -> 1 <= nx ->
  let mm := G.get_min_max_from_grid ny nx g h in
  (forall r c, 0 <= r < ny -> 0 <= c < nx -> fst mm <= g r c)
  /\ (exists r c, 0 <= r < ny /\ 0 <= c < nx /\ fst mm = g r c)
  /\ (forall r c, 0 <= r < ny -> 0 <= c < nx -> h r c <= snd mm)
  /\ (exists r c, 0 <= r < ny /\ 0 <= c < nx /\ snd mm = h r c).
Proof.
  intros ny nx g h Hy Hx. cbv zeta. rewrite gen_get_min_max_from_grid_eq. cbn [fst snd].
  exact (grid_extrema ny nx g h Hy Hx).
Qed.

