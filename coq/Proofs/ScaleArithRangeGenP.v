(* Per-run obligations on Gen/ScaleArithRange.v (regenerated from /repo by translator/gen_scale_arith_range.py: the
   interval expressions of FixedZoomPyramid.disparity_range -- window offset, np.full_like initial values, values
   stored for a window and at the invalid indices, zoom calls -- translated from the ast):
   GENERATED = HAND-WRITTEN MODEL for ALL inputs (Model/Multiscale.v: fallback, win_range, offset), then the
   fallback finding class and the interior interval of C15 restated on the generated expressions composed with the
   generated matching_cost_prepare (Gen/ScaleArith.v). *)
From Coq Require Import ZArith QArith Qround List Bool Lia Lqa.
From Pandora Require Import Lib.Blocks Model.Dataset Model.Machine Model.Multiscale Model.ScaleArith.
From Pandora Require Import Spec.Multiscale Proofs.MultiscaleP Gen.ScaleArith Gen.ScaleArithRange Proofs.ScaleArithGenP.
Import ListNotations.
Open Scope Z_scope.

(* ---- disparity_range.  The four reductions of the two parameters are independent inputs of the generated
   functions: the model reads np.nanmin(disp_min) and np.nanmax(disp_max) only *)
Lemma gen_range_fallback_is_model a b c d :
  (Some (inject_Z (range_min_invalid a b c d)), Some (inject_Z (range_max_invalid a b c d))) = fallback a d.
Proof. reflexivity. Qed.

(* the value the maps are initialised with (kept by the border pixels, which no window store reaches) is the
   same fallback *)
Lemma gen_range_init_is_model a b c d :
  (Some (inject_Z (range_min_init a b c d)), Some (inject_Z (range_max_init a b c d))) = fallback a d.
Proof. reflexivity. Qed.

Lemma gen_range_window_is_model m M m' M' marge :
  range_min_window m M' marge = (m - qz marge)%Q /\ range_max_window m' M marge = (M + qz marge)%Q.
Proof. split; reflexivity. Qed.

(* ... hence win_range of the model is the generated pair applied to the window's nanmin / nanmax *)
Lemma gen_win_range_is_model ib ws marge D V i j :
  win_range ib ws marge D V i j =
  (option_map (fun m => range_min_window m m marge) (qfold qmin2 (win_vals ib ws D V i j)),
   option_map (fun M => range_max_window M M marge) (qfold qmax2 (win_vals ib ws D V i j))).
Proof. reflexivity. Qed.

Lemma gen_range_offset_is_model ws : 1 <= ws -> range_offset ws = offset ws.
Proof.
  intros H. unfold range_offset, offset, py_int, Qdiv, Qmult, Qinv, inject_Z. cbn [Qnum Qden].
  rewrite Z.mul_1_r. change (Z.pos (1 * 2)) with 2. apply Z.quot_div_nonneg; lia.
Qed.

(* the two maps are zoomed by scale_factor, order 0, mode "nearest"; no zoom for factor 1 *)
Lemma gen_range_zoom_is_model sf :
  range_min_zoom sf = (sf, 0, ZoomNearest) /\ range_max_zoom sf = (sf, 0, ZoomNearest) /\
  range_zoom_skipped sf = (sf =? 1).
Proof. repeat split. Qed.

(* the finding's class on the generated expressions: at a pixel whose coarse pixel is invalid or on the border,
   the next level is given (generated disparity_range value, then generated matching_cost_prepare)
   scale_factor * int(user bound), which is the level's user bound iff the coarser bound is an integer *)
Theorem gen_fallback_finding_class sf g umin umax x1 x2 y1 y2 : 1 <= sf ->
  let lo := inject_Z (range_min_invalid umin x1 x2 umax) in
  let hi := inject_Z (range_max_invalid umin x1 x2 umax) in
  let m := matching_cost_prepare sf g lo hi y1 y2 in
  lo = inject_Z (range_min_init umin x1 x2 umax) /\ hi = inject_Z (range_max_init umin x1 x2 umax) /\
  mc_alloc_left m = Some (mc_disp_min m, mc_disp_max m) /\
  mc_disp_min m = (inject_Z (qtrunc umin) * inject_Z sf)%Q /\ mc_disp_max m = (inject_Z (qtrunc umax) * inject_Z sf)%Q /\
  (integral umin -> (mc_disp_min m == umin * inject_Z sf)%Q) /\
  (integral umax -> (mc_disp_max m == umax * inject_Z sf)%Q) /\
  (~ integral umin -> ~ (mc_disp_min m == umin * inject_Z sf)%Q) /\
  (~ integral umax -> ~ (mc_disp_max m == umax * inject_Z sf)%Q).
Proof.
  intros Hsf lo hi m.
  assert (E1 : mc_disp_min m = (inject_Z (qtrunc umin) * inject_Z sf)%Q) by (unfold m; destruct g; reflexivity).
  assert (E2 : mc_disp_max m = (inject_Z (qtrunc umax) * inject_Z sf)%Q) by (unfold m; destruct g; reflexivity).
  split; [reflexivity|]. split; [reflexivity|]. split; [unfold m; destruct g; reflexivity|].
  split; [exact E1|]. split; [exact E2|]. rewrite E1, E2.
  split; [intros I; unfold integral in I; rewrite I; reflexivity|].
  split; [intros I; unfold integral in I; rewrite I; reflexivity|].
  split; [exact (not_integral_differs umin sf Hsf) | exact (not_integral_differs umax sf Hsf)].
Qed.

(* the interior pixels: [min - marge, max + marge] of the window, then x scale_factor *)
Theorem gen_window_interval sf g m M marge y1 y2 :
  let c := matching_cost_prepare sf g (range_min_window m M marge) (range_max_window m M marge) y1 y2 in
  mc_alloc_left c = Some ((m - inject_Z marge) * inject_Z sf, (M + inject_Z marge) * inject_Z sf)%Q.
Proof. destruct g; reflexivity. Qed.

