(* C03 -- the functions GENERATED from pandora/disparity/disparity.py (Gen/WtaFns.v: to_disp,
   argmin_split, argmax_split, extract_disparity_interval_from_cost_volume, statement by statement
   over the numpy combinators of Lib/NpNd.v / Lib/NpNd3.v) compute what the hand-written model
   Model/Wta.v computes, for ALL cost volume datasets, and the C03 statements on the generated
   functions.  The block loop hole is instantiated with BlockSkeleton.exec of ANY skeleton accepted by
   wta_skeleton_ok (the per-run obligation of Props/C03.v on Gen/BlockLoops.v). *)
From Coq Require Import ZArith QArith List Bool Lia String.
From Pandora Require Import Lib.Arr Lib.Ext Lib.NpNd Lib.NpNd3 Lib.Blocks Lib.BlockSkeleton.
From Pandora Require Import Proofs.NpNdP Proofs.NpNd3P Model.Wta Model.WtaNp Spec.Wta Proofs.WtaP Proofs.SkelWtaP.
From Pandora Require Import Gen.WtaFns.
Import ListNotations.
Open Scope Z_scope.

(* ================================================================== arg-min / arg-max *)

(* the library's scan is the model's *)
Lemma arg_first_min_model : forall l, NpNd3.arg_first lt_ext l = np_argmin l.
Proof. reflexivity. Qed.
Lemma arg_first_max_model : forall l, NpNd3.arg_first gt_ext l = np_argmax l.
Proof. reflexivity. Qed.

Lemma first_nan_lt : forall l i k, first_nan l i = Some k -> (i <= k < i + List.length l)%nat.
Proof.
  induction l as [|c l IH]; intros i k H; [discriminate|]. cbn [first_nan List.length] in *.
  destruct c as [e|].
  - apply IH in H. lia.
  - injection H as <-. lia.
Qed.

(* np.argmin / np.argmax never point outside a non-empty axis *)
Lemma arg_cost_range : forall better l, l <> [] -> 0 <= arg_cost better l < Z.of_nat (List.length l).
Proof.
  intros better l Hl. unfold arg_cost. destruct (first_nan l 0) as [k|] eqn:E.
  - apply first_nan_lt in E. lia.
  - pose proof (arg_first_lt better (map ext_of l)) as H. rewrite map_length in H.
    assert (map ext_of l <> []) by (destruct l; [contradiction | discriminate]). specialize (H H0). lia.
Qed.

(* on a list without NaN: the model's scan *)
Lemma arg_cost_no_nan : forall better (el : list ext),
  arg_cost better (map Some el) = Z.of_nat (NpNd3.arg_first better el).
Proof.
  intros better el. unfold arg_cost. rewrite first_nan_none.
  - rewrite map_map. cbn [ext_of]. rewrite map_id. reflexivity.
  - intros c Hc. apply in_map_iff in Hc. destruct Hc as (e & <- & _). discriminate.
Qed.

Lemma zrange_length : forall n, 0 <= n -> Z.of_nat (List.length (zrange n)) = n.
Proof. intros n Hn. unfold zrange. rewrite map_length, seq_length. lia. Qed.

Lemma zrange_nonempty : forall n, 0 < n -> zrange n <> [].
Proof. intros n Hn H. apply (f_equal (@List.length Z)) in H. pose proof (zrange_length n ltac:(lia)). rewrite H in H0. cbn in H0. lia. Qed.

(* ================================================================== the written expressions
   coords["disp"].data[np.argmin(chunk, axis=2)] / [np.argmax(...)]: pointwise in the first two axes *)

Definition lookup (better : ext -> ext -> bool) (D : nd oq) : nd cost -> nd oq :=
  fun X => np_take D (np_reduce_2 (arg_cost better) X).

Lemma lookup_is : forall better D W a b n d g, is1 D n d -> is3 W a b n g -> 0 < n ->
  is2 (lookup better D W) a b (fun i j => d (arg_cost better (map (g i j) (zrange n)))).
Proof.
  intros better D W a b n d g HD HW Hn. unfold lookup.
  apply (take_2 _ D _ n d a b (fun i j => arg_cost better (map (g i j) (zrange n)))); [assumption | apply reduce_2; assumption |].
  intros i j Hi Hj. pose proof (arg_cost_range better (map (g i j) (zrange n))) as H.
  rewrite map_length, zrange_length in H by lia. apply H.
  intros E. apply map_eq_nil in E. revert E. apply zrange_nonempty. assumption.
Qed.

(* for EVERY chunk W[y0:y1, x0:x1] of the volume: no error, the shape of the chunk's first two axes,
   and element (i - y0, j - x0) is what the 1 x 1 chunk of pixel (i, j) yields (the reading of the
   block loop by Model/WtaNp.skel_block_loop3), i.e. the disparity at the arg-min / arg-max of the
   pixel's costs; the looked-up position is inside the disparity axis (no IndexError, no wrap-around) *)
Theorem gen_lookup_chunk : forall better D W my mx n d g y0 y1 x0 x1 i j,
  is1 D n d -> is3 W my mx n g -> 0 < n ->
  0 <= y0 -> y1 <= my -> 0 <= x0 -> x1 <= mx -> y0 <= i < y1 -> x0 <= j < x1 ->
  let K := lookup better D in
  err (K (np_slice01 W y0 y1 x0 x1)) = false /\ shp (K (np_slice01 W y0 y1 x0 x1)) = [y1 - y0; x1 - x0] /\
  elt (K (np_slice01 W y0 y1 x0 x1)) [i - y0; j - x0] = kernel_at K W i j /\
  kernel_at K W i j = d (arg_cost better (map (g i j) (zrange n))) /\
  0 <= arg_cost better (map (g i j) (zrange n)) < n.
Proof.
  intros better D W my mx n d g y0 y1 x0 x1 i j HD HW Hn ? ? ? ? Hi Hj K.
  destruct (lookup_is better D _ _ _ n d _ HD (slice01_3 _ W _ _ _ _ y0 y1 x0 x1 HW ltac:(lia) ltac:(lia) ltac:(lia) ltac:(lia)) Hn)
    as (He & Hs & Hg).
  destruct (lookup_is better D _ _ _ n d _ HD (slice01_3 _ W _ _ _ _ i (i + 1) j (j + 1) HW ltac:(lia) ltac:(lia) ltac:(lia) ltac:(lia)) Hn)
    as (_ & _ & Hg1).
  assert (E1 : kernel_at K W i j = d (arg_cost better (map (g i j) (zrange n)))).
  { unfold kernel_at, K. rewrite Hg1 by lia. rewrite !Z.add_0_r. reflexivity. }
  repeat split; try assumption.
  - rewrite E1. unfold K. rewrite Hg by lia. replace (y0 + (i - y0)) with i by lia. replace (x0 + (j - x0)) with j by lia.
    reflexivity.
  - pose proof (arg_cost_range better (map (g i j) (zrange n))) as H3. rewrite map_length, zrange_length in H3 by lia.
    apply H3. intros E. apply map_eq_nil in E. revert E. apply zrange_nonempty. assumption.
  - pose proof (arg_cost_range better (map (g i j) (zrange n))) as H3. rewrite map_length, zrange_length in H3 by lia.
    apply H3. intros E. apply map_eq_nil in E. revert E. apply zrange_nonempty. assumption.
Qed.

(* ================================================================== the block loop hole *)

(* the hole instantiated with a GENERATED skeleton accepted by wta_skeleton_ok: for every well-formed
   my x mx x n volume W and my x mx map T, the loop writes K's value for pixel (r, c) at (r, c), on the
   whole map, whatever the block size of the skeleton *)
Lemma skel_block_loop3_is : forall (A : Type) m sk (K : nd A -> nd oq) W T my mx n gW gT,
  wta_skeleton_ok m sk = true ->
  is3 W my mx n gW -> is2 T my mx gT -> 0 <= my -> 0 <= mx ->
  is2 (skel_block_loop3 sk K W T) my mx (fun r c => kernel_at K W r c).
Proof.
  intros A m sk K W T my mx n gW gT Hok HW HT Hmy Hmx.
  destruct (is3_shape _ _ _ _ _ _ HW) as (S0 & S1 & _).
  destruct HW as (EW & SW & _). destruct HT as (ET & ST & _).
  unfold skel_block_loop3, is2. cbn [err shp elt]. rewrite EW, ET, S0, S1, SW, ST, shape_eqb_refl.
  repeat split; auto. intros r c Hr Hc.
  destruct (wta_skeleton_ok_parts m sk Hok) as (Hwf & Hy & Hx & w & Hw & Hk).
  unfold sk_target. rewrite Hw. cbn [nth_error].
  rewrite (exec_wf_loop2 _ (fun _ i j => kernel_at K W i j) 0 my mx (w_target w) sk (w_kernel w) my mx (fun _ => 0)); try assumption.
  2:{ rewrite Hw. cbn [last_kernel]. destruct (aexp_eq_dec (w_target w) (w_target w)); [reflexivity | contradiction]. }
  destruct (wta_loop_params m sk Hok) as (HB & Hoy & Hox).
  rewrite loop2_spec by assumption. rewrite Hoy, Hox.
  replace ((0 <=? r) && (r <? 0 + my) && (0 <=? c) && (c <? 0 + mx)) with true by lia.
  rewrite !Z.sub_0_r. reflexivity.
Qed.

(* ================================================================== argmin_split / argmax_split *)

(* generated split function with a generated skeleton: a well-formed nr x nc map holding, at every
   pixel, the disparity at the arg-min (arg-max) of the pixel's costs *)
Theorem gen_argmin_split_is : forall sk CV nr nc n g d,
  wta_skeleton_ok false sk = true -> is3 (cv_cost CV) nr nc n g -> is1 (cv_disp CV) n d -> 0 < n -> 0 <= nr -> 0 <= nc ->
  is2 (g_argmin_split (skel_block_loop3 sk) CV) nr nc (fun r c => d (arg_cost lt_ext (map (g r c) (zrange n)))).
Proof.
  intros sk CV nr nc n g d Hok HW HD Hn Hnr Hnc. unfold g_argmin_split. cbv zeta.
  destruct (is3_shape _ _ _ _ _ _ HW) as (S0 & S1 & _). rewrite S0, S1.
  pose proof (skel_block_loop3_is _ false sk (fun X => np_take (cv_disp CV) (np_argmin_2 X)) _ _ _ _ _ _ _ Hok HW
                (zeros2_2 nr nc Hnr Hnc) Hnr Hnc) as HL.
  eapply is2_ext; [exact HL|]. intros r c Hr Hc. cbv beta.
  destruct (gen_lookup_chunk lt_ext (cv_disp CV) _ _ _ n d g 0 nr 0 nc r c HD HW Hn) as (_ & _ & _ & E & _); try lia.
  exact E.
Qed.

Theorem gen_argmax_split_is : forall sk CV nr nc n g d,
  wta_skeleton_ok true sk = true -> is3 (cv_cost CV) nr nc n g -> is1 (cv_disp CV) n d -> 0 < n -> 0 <= nr -> 0 <= nc ->
  is2 (g_argmax_split (skel_block_loop3 sk) CV) nr nc (fun r c => d (arg_cost gt_ext (map (g r c) (zrange n)))).
Proof.
  intros sk CV nr nc n g d Hok HW HD Hn Hnr Hnc. unfold g_argmax_split. cbv zeta.
  destruct (is3_shape _ _ _ _ _ _ HW) as (S0 & S1 & _). rewrite S0, S1.
  pose proof (skel_block_loop3_is _ true sk (fun X => np_take (cv_disp CV) (np_argmax_2 X)) _ _ _ _ _ _ _ Hok HW
                (zeros2_2 nr nc Hnr Hnc) Hnr Hnc) as HL.
  eapply is2_ext; [exact HL|]. intros r c Hr Hc. cbv beta.
  destruct (gen_lookup_chunk gt_ext (cv_disp CV) _ _ _ n d g 0 nr 0 nc r c HD HW Hn) as (_ & _ & _ & E & _); try lia.
  exact E.
Qed.

(* ================================================================== extract_disparity_interval_from_cost_volume *)

(* the pair (first, last) sampled disparity: the index -1 wraps around once, inside the axis *)
Theorem gen_extract_interval_is : forall CV n d, is1 (cv_disp CV) n d -> 0 < n ->
  is1 (g_extract_disparity_interval_from_cost_volume CV) 2 (fun i => if i =? 0 then d 0 else d (n - 1)).
Proof.
  intros CV n d HD Hn. unfold g_extract_disparity_interval_from_cost_volume. cbv zeta.
  pose proof (take_1 _ (cv_disp CV) (nd1_z [0; -1]) n d 2 _ HD (nd1_z_is [0; -1])) as H.
  destruct H as (He & Hs & Hg).
  { intros i Hi. assert (i = 0 \/ i = 1) as [-> | ->] by lia; [change (- n <= 0 < n) | change (- n <= -1 < n)]; lia. }
  unfold xr_dataarray1, is1. cbn [err shp elt]. rewrite He, Hs. cbn [List.length shape_eqb Z.of_nat Pos.of_succ_nat Pos.succ].
  cbn [Z.eqb Pos.eqb andb negb orb]. repeat split; auto.
  intros i Hi. rewrite Hg by assumption. assert (i = 0 \/ i = 1) as [-> | ->] by lia.
  - reflexivity.
  - change (d (idx_wrap n (-1)) = d (n - 1)). unfold idx_wrap. cbn [Z.ltb Z.compare]. f_equal. lia.
Qed.

(* ================================================================== to_disp *)

(* how a cost volume dataset holds the inputs of the model: the volume (a pixel = the list of its costs
   along the disparity axis), the disparity axis (no NaN among the sampled disparities), one coordinate
   per row / column *)
Definition cv_rep (CV : cvds) (nr nc n : Z) (cv : Z -> Z -> list cost) (disps : list Q) : Prop :=
  is3 (cv_cost CV) nr nc n (fun r c k => nth (Z.to_nat k) (cv r c) None)
  /\ (forall r c, 0 <= r < nr -> 0 <= c < nc -> Z.of_nat (List.length (cv r c)) = n)
  /\ is1 (cv_disp CV) n (fun k => Some (nth (Z.to_nat k) disps 0%Q))
  /\ Z.of_nat (List.length (cv_row CV)) = nr /\ Z.of_nat (List.length (cv_col CV)) = nc.

Definition mx_of (CV : cvds) : bool := String.eqb (at_type_measure (cv_attrs CV)) "max"%string.

Lemma map_nth_seq : forall (A : Type) (l : list A) (d : A), map (fun k => nth k l d) (seq 0 (List.length l)) = l.
Proof.
  induction l as [|x l IH]; intros d; [reflexivity|]. cbn [List.length seq map nth]. f_equal.
  rewrite <- seq_shift, map_map. apply IH.
Qed.

Lemma map_nth_zrange : forall (A B : Type) (f : A -> B) (l : list A) (d : A) n, Z.of_nat (List.length l) = n ->
  map (fun k => f (nth (Z.to_nat k) l d)) (zrange n) = map f l.
Proof.
  intros A B f l d n <-. unfold zrange. rewrite Nat2Z.id, map_map.
  rewrite <- (map_nth_seq _ l d) at 2. rewrite map_map. apply map_ext. intros k. rewrite Nat2Z.id. reflexivity.
Qed.

(* the substitution of to_disp, element by element, is the model's [subst] *)
Lemma subst_elt : forall mx (c : cost), (if o_none c then Some (sub_inf mx) else c) = Some (subst mx c).
Proof. intros mx [e|]; reflexivity. Qed.

(* ... and the restoration gives back the element *)
Lemma restore_elt : forall (v : cost) (c : cost), (if o_none c then None else (if o_none c then v else c)) = c.
Proof. intros v [e|]; reflexivity. Qed.

Lemma subst_list : forall mx (l : list cost) n, Z.of_nat (List.length l) = n ->
  map (fun k => if o_none (nth (Z.to_nat k) l None) then Some (sub_inf mx) else nth (Z.to_nat k) l None) (zrange n)
  = map Some (map (subst mx) l).
Proof.
  intros mx l n H. rewrite map_map. rewrite <- (map_ext _ _ (subst_elt mx)).
  exact (map_nth_zrange _ _ (fun x : cost => if o_none x then Some (sub_inf mx) else x) l None n H).
Qed.

Lemma pixel_lookup : forall (mx : bool) (L : list cost) (l : list cost) (disps : list Q),
  L = map Some (map (subst mx) l) ->
  Some (nth (Z.to_nat (arg_cost (if mx then gt_ext else lt_ext) L)) disps 0%Q)
  = Some (nth ((if mx then np_argmax else np_argmin) (map (subst mx) l)) disps 0%Q).
Proof.
  intros mx L l disps ->. rewrite arg_cost_no_nan, Nat2Z.id.
  destruct mx; [rewrite arg_first_max_model | rewrite arg_first_min_model]; reflexivity.
Qed.

Lemma invalid_list : forall (l : list cost) n, Z.of_nat (List.length l) = n ->
  forallb (fun b : bool => b) (map (fun k => o_none (nth (Z.to_nat k) l None)) (zrange n))
  = forallb (fun b : bool => b) (map is_nan l).
Proof. intros l n H. f_equal. exact (map_nth_zrange _ _ o_none l None n H). Qed.

Section ToDisp.
  (* ANY two skeletons accepted by wta_skeleton_ok (Props/C03.v instantiates them with the generated ones) *)
  Variables (skmin skmax : skeleton).
  Hypothesis Hmin : wta_skeleton_ok false skmin = true.
  Hypothesis Hmax : wta_skeleton_ok true skmax = true.

  Definition gen_to_disp (inv : oq) (CV : cvds) : cvds * dmds :=
    g_to_disp (skel_block_loop3 skmin) (skel_block_loop3 skmax) inv CV.

  Definition sk_of (mx : bool) : skeleton := if mx then skmax else skmin.

  (* the split function chosen by the measure type, after the substitution: at every pixel the sampled
     disparity at the model's arg-min / arg-max of the substituted costs *)
  Lemma gen_split_after_subst : forall (mx : bool) CV nr nc n cv disps,
    cv_rep CV nr nc n cv disps -> 0 < n -> 0 <= nr -> 0 <= nc ->
    let CV1 := cv_set_cost CV (np_setitem_mask (cv_cost CV) (np_isnan_o (cv_cost CV)) (Some (sub_inf mx))) in
    is2 (if mx then g_argmax_split (skel_block_loop3 skmax) CV1 else g_argmin_split (skel_block_loop3 skmin) CV1) nr nc
        (fun r c => Some (nth ((if mx then np_argmax else np_argmin) (map (subst mx) (cv r c))) disps 0%Q)).
  Proof.
    intros mx CV nr nc n cv disps (HW & Hlen & HD & _ & _) Hn Hnr Hnc CV1.
    pose proof (setitem_mask_3 _ _ _ (Some (sub_inf mx)) _ _ _ _ _ HW (map_3 _ _ o_none _ _ _ _ _ HW)) as H1.
    assert (HW1 : is3 (cv_cost CV1) nr nc n
                      (fun r c k => if o_none (nth (Z.to_nat k) (cv r c) None) then Some (sub_inf mx) else nth (Z.to_nat k) (cv r c) None))
      by exact H1.
    assert (HD1 : is1 (cv_disp CV1) n (fun k => Some (nth (Z.to_nat k) disps 0%Q))) by exact HD.
    destruct mx.
    - eapply is2_ext; [exact (gen_argmax_split_is skmax CV1 nr nc n _ _ Hmax HW1 HD1 Hn Hnr Hnc)|].
      intros r c Hr Hc. cbv beta.
      apply (pixel_lookup true). apply (subst_list true). apply Hlen; assumption.
    - eapply is2_ext; [exact (gen_argmin_split_is skmin CV1 nr nc n _ _ Hmin HW1 HD1 Hn Hnr Hnc)|].
      intros r c Hr Hc. cbv beta.
      apply (pixel_lookup false). apply (subst_list false). apply Hlen; assumption.
  Qed.

  (* generated to_disp with the generated skeletons = the model (at the block size of the skeleton the
     measure type selects), for every cost volume dataset of every shape with a non-empty disparity axis,
     every invalid_disparity (None = NaN): the disparity map, the cost volume afterwards, disp_indices;
     what is merely carried over is carried over as it is (same arrays, not only the same values) *)
  Theorem gen_to_disp_is_model : forall inv CV nr nc n cv disps conf mask,
    cv_rep CV nr nc n cv disps -> 0 < n -> 0 <= nr -> 0 <= nc ->
    let mx := mx_of CV in
    let o := to_disp mx (sk_B (sk_of mx)) nr nc disps inv cv conf mask in
    let CV' := fst (gen_to_disp inv CV) in
    let DM := snd (gen_to_disp inv CV) in
    is2 (dm_disp DM) nr nc (o_disp o)
    /\ is3 (cv_cost CV') nr nc n (fun r c k => nth (Z.to_nat k) (o_cv o r c) None)
    /\ (exists X, cv_disp_indices CV' = Some X /\ is2 X nr nc (o_disp_indices o))
    /\ dm_conf DM = cv_conf CV /\ dm_mask DM = Some (cv_mask CV) /\ dm_attrs DM = Some (cv_attrs CV)
    /\ dm_row DM = cv_row CV /\ dm_col DM = cv_col CV
    /\ cv_disp CV' = cv_disp CV /\ cv_conf CV' = cv_conf CV /\ cv_mask CV' = cv_mask CV
    /\ cv_attrs CV' = cv_attrs CV /\ cv_row CV' = cv_row CV /\ cv_col CV' = cv_col CV
    /\ (exists I, dm_interval DM = Some I
                  /\ is1 I 2 (fun i => Some (nth (if i =? 0 then O else Z.to_nat (n - 1)) disps 0%Q))).
  Proof.
    intros inv CV nr nc n cv disps conf mask Hrep Hn Hnr Hnc mx o CV' DM.
    pose proof (gen_split_after_subst mx CV nr nc n cv disps Hrep Hn Hnr Hnc) as Hsplit. cbv zeta in Hsplit.
    destruct Hrep as (HW & Hlen & HD & Hrow & Hcol).
    pose proof (map_3 _ _ o_none _ _ _ _ _ HW) as Hnan.
    (* the volume after substitution and restoration *)
    pose proof (setitem_mask_3 _ _ _ None _ _ _ _ _
                  (setitem_mask_3 _ _ _ (Some (sub_inf mx)) _ _ _ _ _ HW Hnan) Hnan) as Hcv2.
    (* the map of all-NaN pixels *)
    pose proof (reduce_2 _ _ (forallb (fun b : bool => b)) _ _ _ _ _ Hnan Hn) as Hinv.
    (* 1 <= B *)
    assert (HB : 1 <= sk_B (sk_of mx)).
    { unfold sk_of. destruct mx; [apply (wta_loop_params true skmax Hmax) | apply (wta_loop_params false skmin Hmin)]. }
    assert (Hsh : shape_eqb [nr; nc] [Z.of_nat (List.length (cv_row CV)); Z.of_nat (List.length (cv_col CV))] = true).
    { rewrite Hrow, Hcol. apply shape_eqb_refl. }
    (* the generated function, branch by branch *)
    unfold CV', DM, gen_to_disp, g_to_disp. cbv zeta. fold (mx_of CV). fold mx.
    assert (Hdisp : forall (D : nd oq) (CVa : cvds), is2 D nr nc (fun r c => Some (nth ((if mx then np_argmax else np_argmin) (map (subst mx) (cv r c))) disps 0%Q)) ->
              cv_row CVa = cv_row CV -> cv_col CVa = cv_col CV ->
              is2 (np_setitem_mask (dm_disp (dm_new D (cv_row CVa) (cv_col CVa)))
                                   (np_where (np_min_bool_2 (np_isnan_o (cv_cost CV)))) inv) nr nc (o_disp o)).
    { intros D CVa HDm Er Ec. rewrite Er, Ec.
      assert (HD0 : is2 (dm_disp (dm_new D (cv_row CV) (cv_col CV))) nr nc
                        (fun r c => Some (nth ((if mx then np_argmax else np_argmin) (map (subst mx) (cv r c))) disps 0%Q))).
      { destruct HDm as (He & Hs & Hg). unfold dm_new, is2. cbn [dm_disp err shp elt]. rewrite He, Hs, Hsh. repeat split; auto. }
      eapply is2_ext; [exact (setitem_mask_2 _ _ _ inv _ _ _ _ HD0 Hinv)|].
      intros r c Hr Hc. cbv beta. unfold o, to_disp. cbn [o_disp].
      match goal with |- context [forallb ?f ?L] =>
        replace (forallb f L) with (forallb (fun b : bool => b) (map is_nan (cv r c)))
          by (symmetry; apply invalid_list; apply Hlen; assumption) end.
      destruct (forallb (fun b : bool => b) (map is_nan (cv r c))); [reflexivity|].
      rewrite loop2_spec by assumption.
      replace ((0 <=? r) && (r <? 0 + nr) && (0 <=? c) && (c <? 0 + nc)) with true by lia.
      rewrite !Z.sub_0_r. destruct mx; reflexivity. }
    assert (Hcv : is3 (np_setitem_mask (np_setitem_mask (cv_cost CV) (np_isnan_o (cv_cost CV)) (Some (sub_inf mx))) (np_isnan_o (cv_cost CV)) None)
                      nr nc n (fun r c k => nth (Z.to_nat k) (o_cv o r c) None)).
    { eapply is3_ext; [exact Hcv2|]. intros r c k Hr Hc Hk. cbv beta. rewrite restore_elt.
      unfold o, to_disp. cbn [o_cv]. rewrite restore_subst. reflexivity. }
    assert (Hint : forall CVa, cv_disp CVa = cv_disp CV ->
              is1 (g_extract_disparity_interval_from_cost_volume CVa) 2
                  (fun i => Some (nth (if i =? 0 then O else Z.to_nat (n - 1)) disps 0%Q))).
    { intros CVa E. assert (HDa : is1 (cv_disp CVa) n (fun k => Some (nth (Z.to_nat k) disps 0%Q))) by (rewrite E; exact HD).
      pose proof (gen_extract_interval_is CVa n _ HDa Hn) as (He & Hs & Hg). repeat split; auto.
      intros i Hi. rewrite Hg by assumption. destruct (i =? 0); reflexivity. }
    destruct mx eqn:Emx; cbn [fst snd];
      cbn [cv_set_cost cv_set_disp_indices cv_cost cv_disp cv_row cv_col cv_attrs cv_conf cv_mask cv_disp_indices];
      destruct (cv_conf CV) as [cf|] eqn:Ecf;
      cbn [o_some dm_set_disp dm_set_interval dm_set_attrs dm_set_conf dm_set_mask dm_disp dm_row dm_col dm_interval dm_attrs
           dm_conf dm_mask np_copy];
      (split; [apply (Hdisp _ CV Hsplit); reflexivity|]);
      (split; [exact Hcv|]);
      (split; [eexists; split; [reflexivity|]; apply (Hdisp _ CV Hsplit); reflexivity|]);
      repeat (split; [reflexivity|]);
      (eexists; split; [reflexivity|]; apply Hint; reflexivity).
  Qed.

  (* ---------------------------------------------------------------- the C03 statements on the generated to_disp *)

  Lemma rep_nonempty : forall CV nr nc n cv disps r c, cv_rep CV nr nc n cv disps -> 0 < n ->
    0 <= r < nr -> 0 <= c < nc -> cv r c <> [].
  Proof.
    intros CV nr nc n cv disps r c (_ & Hlen & _) Hn Hr Hc E. specialize (Hlen r c Hr Hc). rewrite E in Hlen. cbn in Hlen. lia.
  Qed.

  Lemma sk_of_B : forall mx, 1 <= sk_B (sk_of mx).
  Proof. intros [|]; [apply (wta_loop_params true skmax Hmax) | apply (wta_loop_params false skmin Hmin)]. Qed.

  (* the disparity map is a well-formed nr x nc array (no operation of the generated code raises: shapes
     agree, the looked-up positions are inside the disparity axis) holding at every pixel the Spec's answer *)
  Theorem gen_wta_eq_spec : forall inv CV nr nc n cv disps,
    cv_rep CV nr nc n cv disps -> 0 < n -> 0 <= nr -> 0 <= nc ->
    let DM := snd (gen_to_disp inv CV) in
    err (dm_disp DM) = false /\ shp (dm_disp DM) = [nr; nc] /\
    forall r c, 0 <= r < nr -> 0 <= c < nc -> no_subst_inf (mx_of CV) (cv r c) ->
      elt (dm_disp DM) [r; c] = wta_pixel (mx_of CV) disps inv (cv r c).
  Proof.
    intros inv CV nr nc n cv disps Hrep Hn Hnr Hnc DM.
    destruct (gen_to_disp_is_model inv CV nr nc n cv disps (fun _ _ => []) (fun _ _ => 0) Hrep Hn Hnr Hnc) as ((He & Hs & Hg) & _).
    repeat split; try assumption. intros r c Hr Hc Hguard. unfold DM. rewrite Hg by assumption.
    apply wta_eq_spec_all; try assumption; [apply sk_of_B | eapply rep_nonempty; eassumption].
  Qed.

  (* the step leaves the cost volume values unchanged: the dataset afterwards holds the same volume (EVERY
     volume, also those that contain +-inf), the same disparity axis, coordinates, attributes, bands and flags
     (the same arrays); only disp_indices is new *)
  Theorem gen_wta_cv_unchanged : forall inv CV nr nc n cv disps,
    cv_rep CV nr nc n cv disps -> 0 < n -> 0 <= nr -> 0 <= nc ->
    let CV' := fst (gen_to_disp inv CV) in
    cv_rep CV' nr nc n cv disps
    /\ cv_disp CV' = cv_disp CV /\ cv_conf CV' = cv_conf CV /\ cv_mask CV' = cv_mask CV
    /\ cv_attrs CV' = cv_attrs CV /\ cv_row CV' = cv_row CV /\ cv_col CV' = cv_col CV.
  Proof.
    intros inv CV nr nc n cv disps Hrep Hn Hnr Hnc CV'.
    destruct (gen_to_disp_is_model inv CV nr nc n cv disps (fun _ _ => []) (fun _ _ => 0) Hrep Hn Hnr Hnc)
      as (_ & Hcv & _ & _ & _ & _ & _ & _ & E1 & E2 & E3 & E4 & E5 & E6 & _).
    fold CV' in Hcv, E1, E2, E3, E4, E5, E6.
    destruct Hrep as (HW & Hlen & HD & Hrow & Hcol).
    repeat split; try assumption; try (rewrite ?E1, ?E5, ?E6; assumption); try apply HD.
    - apply Hcv.
    - apply Hcv.
    - intros i j k Hi Hj Hk. destruct Hcv as (_ & _ & Hg). rewrite Hg by assumption. rewrite wta_cv_unchanged_all. reflexivity.
    - rewrite E1. apply HD.
    - rewrite E1. apply HD.
    - rewrite E1. apply HD.
  Qed.

  (* confidence bands and validity flags are carried over unaltered (the confidence DataArray itself, a copy
     of the validity mask), with the attributes and the coordinates; disp_indices holds the values of the map;
     disparity_interval is (first, last) sampled disparity *)
  Theorem gen_wta_carries : forall inv CV nr nc n cv disps,
    cv_rep CV nr nc n cv disps -> 0 < n -> 0 <= nr -> 0 <= nc ->
    let CV' := fst (gen_to_disp inv CV) in
    let DM := snd (gen_to_disp inv CV) in
    dm_conf DM = cv_conf CV /\ dm_mask DM = Some (cv_mask CV) /\ dm_attrs DM = Some (cv_attrs CV)
    /\ dm_row DM = cv_row CV /\ dm_col DM = cv_col CV
    /\ (exists X, cv_disp_indices CV' = Some X /\ err X = false /\ shp X = [nr; nc]
                  /\ forall r c, 0 <= r < nr -> 0 <= c < nc -> elt X [r; c] = elt (dm_disp DM) [r; c])
    /\ (exists I, dm_interval DM = Some I
                  /\ is1 I 2 (fun i => Some (nth (if i =? 0 then O else Z.to_nat (n - 1)) disps 0%Q))).
  Proof.
    intros inv CV nr nc n cv disps Hrep Hn Hnr Hnc CV' DM.
    destruct (gen_to_disp_is_model inv CV nr nc n cv disps (fun _ _ => []) (fun _ _ => 0) Hrep Hn Hnr Hnc)
      as ((_ & _ & Hg) & _ & (X & EX & (HXe & HXs & HXg)) & E1 & E2 & E3 & E4 & E5 & _ & _ & _ & _ & _ & _ & HI).
    repeat split; try assumption.
    exists X. repeat split; try assumption. intros r c Hr Hc. rewrite HXg by assumption. fold DM in Hg. rewrite Hg by assumption.
    reflexivity.
  Qed.
End ToDisp.

(* the result does not depend on the block sizes: any two pairs of accepted skeletons (whatever their block
   sizes >= 1), every dataset, every pixel *)
Theorem gen_wta_block_independent : forall skmin skmax skmin' skmax' inv CV nr nc n cv disps r c,
  wta_skeleton_ok false skmin = true -> wta_skeleton_ok true skmax = true ->
  wta_skeleton_ok false skmin' = true -> wta_skeleton_ok true skmax' = true ->
  cv_rep CV nr nc n cv disps -> 0 < n -> 0 <= nr -> 0 <= nc -> 0 <= r < nr -> 0 <= c < nc ->
  elt (dm_disp (snd (gen_to_disp skmin skmax inv CV))) [r; c] = elt (dm_disp (snd (gen_to_disp skmin' skmax' inv CV))) [r; c].
Proof.
  intros skmin skmax skmin' skmax' inv CV nr nc n cv disps r c H1 H2 H3 H4 Hrep Hn Hnr Hnc Hr Hc.
  destruct (gen_to_disp_is_model skmin skmax H1 H2 inv CV nr nc n cv disps (fun _ _ => []) (fun _ _ => 0) Hrep Hn Hnr Hnc) as ((_ & _ & Hg) & _).
  destruct (gen_to_disp_is_model skmin' skmax' H3 H4 inv CV nr nc n cv disps (fun _ _ => []) (fun _ _ => 0) Hrep Hn Hnr Hnc) as ((_ & _ & Hg') & _).
  rewrite Hg, Hg' by assumption.
  apply wta_block_independent_all; try assumption; apply sk_of_B; assumption.
Qed.

(* an index map narrower than the disparity axis would not do: the int16 cast of a position beyond 32767
   is another position (why the translator keeps the cast in the generated text instead of dropping it) *)
Lemma astype_int16_wraps : wrap_int 16 32768 = -32768 /\ wrap_int 16 40000 = -25536 /\ wrap_int 16 65536 = 0.
Proof. vm_compute. repeat split; reflexivity. Qed.
