(* The per-run obligations on the REGENERATED schemas (Gen/Schemas.v): every built-in class
   agrees with its documented parameter table (Spec/Domains.v). *)
From Coq Require Import ZArith QArith List Bool String.
From Pandora Require Import Model.Json Model.Checker Spec.Domains Gen.Schemas Proofs.CheckerP.
Import ListNotations.

Lemma all_classes_agree : Forall class_agrees classes.
Proof.
  unfold classes.
  repeat (apply Forall_cons; [solve_class |]); apply Forall_nil.
Qed.
