(* C19, per-run obligations of the T-gen tie: the functions of Gen/SaveFns.v (translated statement by statement from
   pandora/common.py, output_tree_design.py, check_configuration.py, __init__.py at every run) compute what the
   hand-written models compute, for ALL inputs:
     write_data_array  = Model/Save.v write_data_array (2-D branch, 3-D branch with its band loop, dtype,
                         descriptions, crs / transform) on every rectangular array;
     save_results      = Model/Save.v run_calls on the regenerated call table, under <output>;
     save_config       = Model/SaveMain.v save_config_model;  main = Model/SaveMain.v main_flow. *)
From Coq Require Import ZArith QArith List Bool String Lia.
From Pandora Require Import Model.Json Model.JsonText Model.Save Model.SavePrims Model.SaveMain
  Gen.SavePlan Gen.SaveFns.
Import ListNotations.
Open Scope Z_scope.

(* ---- the numpy invariant: every row of an array has the same length (and every pixel of a cube `depth` values) *)
Definition rect2 {A : Type} (d : list (list A)) : Prop := forall r, In r d -> py_len r = ncols d.

Definition arr_wf (a : arr) : Prop :=
  match a with
  | A2 d => rect2 d
  | A3 depth d => rect2 d /\ forall row, In row d -> forall pxs, In pxs row -> List.length pxs = depth
  end.

(* the descriptions given with a cube: one per plane (rasterio refuses anything else) *)
Definition names_wf (a : arr) (names : option (list string)) : Prop :=
  match a, names with
  | A3 depth _, Some l => List.length l = depth
  | _, _ => True
  end.

Lemma rect_of_rect2 d : rect2 d -> rect (py_len d) (ncols d) d = true.
Proof.
  intro H. unfold rect. rewrite Z.eqb_refl. cbn [andb]. apply forallb_forall. intros r Hr.
  apply Z.eqb_eq. exact (H r Hr).
Qed.

Lemma slice3_rect k (d : list (list (list px))) : rect2 d -> rect (py_len d) (ncols d) (slice3 k d) = true.
Proof.
  intro H. unfold rect, slice3, py_len. rewrite map_length, Z.eqb_refl. cbn [andb].
  apply forallb_forall. intros r Hr. apply in_map_iff in Hr as [r0 [<- Hr0]].
  rewrite map_length. apply Z.eqb_eq. exact (H r0 Hr0).
Qed.

Section W.
  Variable rnd : Q -> Q.
  Variables C T : Type.
  Notation G := (C * T)%type.

  Definition add_writes (ds : wfile C T) (l : list (Z * list (list px))) : wfile C T :=
    mkW (w_path ds) (w_width ds) (w_height ds) (w_count ds) (w_dtype ds) (w_crs ds) (w_transform ds)
        (w_writes ds ++ l) (w_desc ds).

  Lemma add_writes_nil ds : add_writes ds [] = ds.
  Proof. destruct ds. unfold add_writes. cbn. rewrite app_nil_r. reflexivity. Qed.

  Lemma add_writes_app ds a b : add_writes (add_writes ds a) b = add_writes ds (a ++ b).
  Proof. unfold add_writes. cbn. rewrite app_assoc. reflexivity. Qed.

  (* the band loop: for dsp in range(1, depth + 1): ds.write(data[:, :, dsp - 1], dsp) *)
  Definition loop_body (depth : nat) (d : list (list (list px))) (dsp : Z) (ds : wfile C T) : option (wfile C T) :=
    t1_ <- nd_slice_last (A3 depth d) (dsp - 1) ;;
    source_ds <- rio_write rnd ds t1_ dsp ;;
    Some source_ds.

  Definition plane (t : dtype) (d : list (list (list px))) (k : nat) : list (list px) :=
    map (map (cast rnd t)) (slice3 k d).

  Lemma band_loop depth d : rect2 d -> forall n a ds,
    (a + n <= depth)%nat -> w_count ds = Z.of_nat depth -> w_height ds = py_len d -> w_width ds = ncols d ->
    for_each (map (fun i => 1 + Z.of_nat i) (seq a n)) ds (loop_body depth d)
    = Some (add_writes ds (map (fun k => (1 + Z.of_nat k, plane (w_dtype ds) d k)) (seq a n))).
  Proof.
    intros R. induction n as [|n IH]; intros a ds Hn Hc Hh Hw.
    - cbn. rewrite add_writes_nil. reflexivity.
    - cbn [seq map for_each]. unfold loop_body at 1. unfold nd_slice_last.
      replace (1 + Z.of_nat a - 1) with (Z.of_nat a) by lia.
      assert (E1 : (0 <=? Z.of_nat a) && (Z.of_nat a <? Z.of_nat depth) = true).
      { apply andb_true_intro. split; [apply Z.leb_le|apply Z.ltb_lt]; lia. }
      rewrite E1, Nat2Z.id. cbn [bind]. unfold rio_write.
      assert (E2 : (1 <=? 1 + Z.of_nat a) && (1 + Z.of_nat a <=? w_count ds) = true).
      { apply andb_true_intro. split; apply Z.leb_le; lia. }
      rewrite E2, Hh, Hw, (slice3_rect a d R). cbn [andb bind].
      rewrite IH; [|lia|exact Hc|reflexivity|reflexivity].
      f_equal. unfold add_writes, plane.
      cbn [w_path w_width w_height w_count w_dtype w_crs w_transform w_writes w_desc map].
      rewrite <- app_assoc, Hh, Hw. reflexivity.
  Qed.

  (* what a band holds after the loop *)
  Lemma last_write_planes (B : nat -> list (list px)) k : forall n a acc,
    last_write (1 + Z.of_nat k) (map (fun j => (1 + Z.of_nat j, B j)) (seq a n)) acc
    = if (a <=? k)%nat && (k <? a + n)%nat then Some (B k) else acc.
  Proof.
    induction n as [|n IH]; intros a acc.
    - cbn [seq map last_write]. destruct (a <=? k)%nat eqn:E1; cbn [andb]; [|reflexivity].
      destruct (k <? a + 0)%nat eqn:E2; [|reflexivity].
      apply Nat.leb_le in E1. apply Nat.ltb_lt in E2. lia.
    - cbn [seq map last_write]. rewrite IH.
      destruct (Z.eqb_spec (1 + Z.of_nat a) (1 + Z.of_nat k)) as [E|E].
      + assert (a = k) by lia. subst a.
        replace ((S k <=? k)%nat) with false by (symmetry; apply Nat.leb_gt; lia).
        replace ((k <=? k)%nat) with true by (symmetry; apply Nat.leb_le; lia).
        replace ((k <? k + S n)%nat) with true by (symmetry; apply Nat.ltb_lt; lia).
        reflexivity.
      + assert (a <> k) by lia.
        destruct (Nat.leb_spec a k) as [L|L].
        * replace ((S a <=? k)%nat) with true by (symmetry; apply Nat.leb_le; lia).
          replace (S a + n)%nat with (a + S n)%nat by lia. reflexivity.
        * replace ((S a <=? k)%nat) with false by (symmetry; apply Nat.leb_gt; lia). reflexivity.
  Qed.

  Lemma zrange_1 n : zrange 1 (Z.of_nat n + 1) = map (fun i => 1 + Z.of_nat i) (seq 0 n).
  Proof. unfold zrange. replace (Z.of_nat n + 1 - 1) with (Z.of_nat n) by lia. rewrite Nat2Z.id. reflexivity. Qed.

  (* ---- write_data_array, generated = model *)
  Theorem gen_write_data_array a path t names crs tr :
    arr_wf (xa_arr a) -> names_wf (xa_arr a) names ->
    SaveFns.write_data_array rnd C T a path t names crs tr = Some (write_model rnd C T a path t names crs tr).
  Proof.
    destruct a as [[d|depth d] ind]; cbn [xa_arr]; intros W N.
    - (* 2-D *)
      unfold SaveFns.write_data_array, write_model, xda_shape, xda_data, arr_shape. cbn [xa_arr].
      change (py_len [py_len d; ncols d] =? 2) with true. cbn iota. cbn [unpack2 bind].
      unfold rio_open_w. cbn [String.eqb Ascii.eqb Bool.eqb orb andb Z.leb Z.compare bind].
      unfold rio_write. cbn [w_count w_height w_width w_dtype w_path w_crs w_transform w_writes w_desc].
      rewrite (rect_of_rect2 d W). cbn [Z.leb Z.compare andb bind app].
      unfold rio_close, band_of. cbn [w_count w_height w_width w_dtype w_path w_crs w_transform w_writes w_desc].
      change (zrange 1 (1 + 1)) with [1]. cbn [map last_write Z.eqb Pos.eqb]. reflexivity.
    - (* 3-D *)
      destruct W as [R D].
      unfold SaveFns.write_data_array, write_model, xda_shape, xda_data, arr_shape. cbn [xa_arr].
      change (py_len [py_len d; ncols d; Z.of_nat depth] =? 2) with false. cbn iota. cbn [unpack3 bind].
      unfold rio_open_w. cbn [String.eqb Ascii.eqb Bool.eqb orb andb].
      assert (E0 : (0 <=? Z.of_nat depth) = true) by (apply Z.leb_le; lia). rewrite E0. cbn [bind].
      rewrite zrange_1.
      change (fun (dsp : Z) (source_ds : wfile C T) =>
                t1_ <- nd_slice_last (A3 depth d) (dsp - 1);; source_ds0 <- rio_write rnd source_ds t1_ dsp;; Some source_ds0)
        with (loop_body depth d).
      rewrite (band_loop depth d R depth 0%nat); [|lia|reflexivity|reflexivity|reflexivity].
      cbn [bind].
      assert (Close : forall desc,
        rio_close (mkW path (ncols d) (py_len d) (Z.of_nat depth) t crs tr
                       (map (fun k => (1 + Z.of_nat k, plane t d k)) (seq 0 depth)) desc)
        = Save.write_data_array rnd G (A3 depth d) path t desc (crs, tr)).
      { intro desc. unfold rio_close, Save.write_data_array.
        cbn [w_count w_height w_width w_dtype w_path w_crs w_transform w_writes w_desc].
        rewrite zrange_1, map_map. f_equal. apply map_ext_in. intros k Hk. apply in_seq in Hk.
        unfold band_of. cbn [w_writes]. rewrite (last_write_planes (plane t d) k depth 0%nat None).
        assert (E1 : (0 <=? k)%nat = true) by (apply Nat.leb_le; lia).
        assert (E2 : (k <? 0 + depth)%nat = true) by (apply Nat.ltb_lt; lia).
        rewrite E1, E2. reflexivity. }
      unfold add_writes.
      cbn [w_count w_height w_width w_dtype w_path w_crs w_transform w_writes w_desc app bind].
      destruct names as [l|].
      + unfold rio_set_descriptions. cbn [w_count w_height w_width w_dtype w_path w_crs w_transform w_writes w_desc].
        cbn in N. unfold py_len. rewrite N, Z.eqb_refl. cbn [bind app]. rewrite Close. reflexivity.
      + cbn [bind app]. rewrite Close. reflexivity.
  Qed.

  (* ---- output tree *)
  Lemma gen_out_paths :
    SaveFns.get_out_file_path "left_disparity.tif" = out_path otd "left_disparity.tif"
    /\ SaveFns.get_out_file_path "left_confidence_measure.tif" = out_path otd "left_confidence_measure.tif"
    /\ SaveFns.get_out_file_path "left_validity_mask.tif" = out_path otd "left_validity_mask.tif"
    /\ SaveFns.get_out_file_path "right_disparity.tif" = out_path otd "right_disparity.tif"
    /\ SaveFns.get_out_file_path "right_confidence_measure.tif" = out_path otd "right_confidence_measure.tif"
    /\ SaveFns.get_out_file_path "right_validity_mask.tif" = out_path otd "right_validity_mask.tif"
    /\ SaveFns.get_out_file_path "config.json" = out_path otd "config.json".
  Proof. repeat split; vm_compute; reflexivity. Qed.

  (* ---- save_results, generated = model (the call table of Gen/SavePlan.v interpreted by Model/Save.v) *)
  Definition product_rect (p : product G) : Prop :=
    rect2 (p_disp p) /\ rect2 (p_mask p)
    /\ match p_conf p with
       | Some (names, cube) =>
         rect2 cube /\ forall row, In row cube -> forall pxs, In pxs row -> List.length pxs = List.length names
       | None => True
       end.
  Definition right_rect (r : option (product G)) : Prop :=
    match r with Some p => product_rect p | None => True end.

  Lemma sizes_some (p : product G) : negb (py_len (ds_sizes (Some p)) =? 0) = true.
  Proof. destruct p as [a b [[n c]|] g]; reflexivity. Qed.

  Theorem gen_save_results l right output :
    product_rect l -> right_rect right ->
    SaveFns.save_results rnd C T (Some l) right output
    = save_results_model rnd C T otd save_calls (Some l) right output.
  Proof.
    destruct gen_out_paths as [P1 [P2 [P3 [P4 [P5 [P6 _]]]]]].
    intros [L1 [L2 L3]] HR.
    unfold SaveFns.save_results. rewrite P1, P2, P3, P4, P5, P6.
    repeat match goal with
           | |- context [out_path otd ?k] =>
             let v := eval vm_compute in (out_path otd k) in change (out_path otd k) with v
           end.
    destruct right as [r|]; [rewrite (sizes_some r)|change (negb (py_len (ds_sizes (@None (product G))) =? 0)) with false];
      cbn iota.
    - destruct l as [ld lm lc [lcrs ltr]], r as [rd rm rc [rcrs rtr]]. destruct HR as [R1 [R2 R3]].
      cbn [p_disp p_mask p_conf] in *.
      destruct lc as [[ln lcube]|], rc as [[rn rcube]|].
      all: cbn [ds_get ds_has ds_attr_crs ds_attr_transform p_disp p_mask p_conf p_geo fst snd String.eqb
                Ascii.eqb Bool.eqb bind xda_coord xa_indicator].
      all: rewrite ?gen_write_data_array by (cbn [xa_arr arr_wf names_wf]; tauto).
      all: cbn [bind]; reflexivity.
    - destruct l as [ld lm lc [lcrs ltr]]. cbn [p_disp p_mask p_conf] in *.
      destruct lc as [[ln lcube]|].
      all: cbn [ds_get ds_has ds_attr_crs ds_attr_transform p_disp p_mask p_conf p_geo fst snd String.eqb
                Ascii.eqb Bool.eqb bind xda_coord xa_indicator].
      all: rewrite ?gen_write_data_array by (cbn [xa_arr arr_wf names_wf]; tauto).
      all: cbn [bind]; reflexivity.
  Qed.

  (* ---- save_config, generated = model *)
  Theorem gen_save_config output cfg :
    SaveFns.save_config C T output cfg = save_config_model C T otd output cfg.
  Proof.
    destruct gen_out_paths as [_ [_ [_ [_ [_ [_ P7]]]]]].
    unfold SaveFns.save_config, save_config_model. rewrite P7.
    destruct (out_path otd "config.json") as [p|]; reflexivity.
  Qed.

  Section Main.
    Variables M IMG : Type.

    (* read_config_file, generated = json.load of the text of the file *)
    Theorem gen_read_config_file (E : env C T M IMG) path :
      SaveFns.read_config_file C T M IMG E path = (text <- e_read_file E path ;; parse text).
    Proof.
      unfold SaveFns.read_config_file, open_r, json_load. cbn [String.eqb Ascii.eqb Bool.eqb].
      destruct (e_read_file E path) as [text|]; cbn [bind]; [|reflexivity].
      destruct (parse text); reflexivity.
    Qed.

    (* what run returns are xarray datasets: the left one is not empty, arrays are rectangular, a cube has one value
       per indicator at every pixel *)
    Definition env_products_ok (E : env C T M IMG) : Prop :=
      forall m il ir c l r m' c', e_run E m il ir c = Some (l, r, m', c') ->
        exists lp, l = Some lp /\ product_rect lp /\ right_rect r.

    (* ---- main, generated = model *)
    Theorem gen_main (E : env C T M IMG) cfg_path output verbose :
      env_products_ok E ->
      SaveFns.main rnd C T M IMG E cfg_path output verbose
      = main_flow rnd C T M IMG otd save_calls E cfg_path output.
    Proof.
      intro OK. unfold SaveFns.main, main_flow. rewrite gen_read_config_file.
      destruct (e_read_file E cfg_path) as [text|]; cbn [bind]; [|reflexivity].
      destruct (parse text) as [user|]; cbn [bind]; [|reflexivity].
      destruct (e_check_conf E user (e_new_machine E)) as [[cfg m1]|]; cbn [bind]; [|reflexivity].
      destruct (jv_get cfg "input") as [inp|]; cbn [bind]; [|reflexivity].
      destruct (jv_get inp "left") as [l|]; cbn [bind]; [|reflexivity].
      destruct (e_create_dataset E l) as [imgl|]; cbn [bind]; [|reflexivity].
      destruct (jv_get inp "right") as [r|]; cbn [bind]; [|reflexivity].
      unfold right_input_of.
      destruct (jv_get r "disp") as [rd|]; cbn [bind]; [|reflexivity].
      assert (Tail : forall ri,
        (t23_ <- e_create_dataset E ri;;
         t24_ <- e_check_datasets E imgl t23_;;
         st_ <- e_run E m1 imgl t23_ cfg;;
         (let '(left_py, right_py, pandora_machine, cfg0) := st_ in
          t25_ <- save_results rnd C T left_py right_py output;;
          cfg1 <- jv_set cfg0 "margins" (e_margins_to_dict E pandora_machine);;
          t26_ <- save_config C T output cfg1;; Some (([] ++ t25_) ++ t26_)%list))
        = (imgr <- e_create_dataset E ri;;
           _ <- e_check_datasets E imgl imgr;;
           res <- e_run E m1 imgl imgr cfg;;
           (let '(lft, rgt, m2, cfg2) := res in
            fs <- save_results_model rnd C T otd save_calls lft rgt output;;
            saved <- jv_set cfg2 "margins" (e_margins_to_dict E m2);;
            cf <- save_config_model C T otd output saved;; Some (fs ++ cf)%list))).
      { intro ri.
        destruct (e_create_dataset E ri) as [imgr|]; cbn [bind]; [|reflexivity].
        destruct (e_check_datasets E imgl imgr) as [u|]; cbn [bind]; [|reflexivity].
        destruct (e_run E m1 imgl imgr cfg) as [[[[lft rgt] m2] cfg2]|] eqn:ER; cbn [bind]; [|reflexivity].
        destruct (OK _ _ _ _ _ _ _ _ ER) as [lp [-> [RL RR]]].
        rewrite (gen_save_results lp rgt output RL RR).
        destruct (save_results_model rnd C T otd save_calls (Some lp) rgt output) as [fs|]; cbn [bind]; [|reflexivity].
        destruct (jv_set cfg2 "margins" (e_margins_to_dict E m2)) as [saved|]; cbn [bind]; [|reflexivity].
        rewrite gen_save_config.
        destruct (save_config_model C T otd output saved) as [cf|]; reflexivity. }
      destruct (jv_is_none rd); cbn [bind]; [|apply Tail].
      destruct (jv_get l "disp") as [ld|]; cbn [bind]; [|reflexivity].
      destruct (jv_is_str ld); cbn [bind negb]; [apply Tail|].
      destruct (jv_dict_copy r) as [r'|]; cbn [bind]; [|reflexivity].
      destruct (jv_idx ld 1) as [a|]; cbn [bind]; [|reflexivity].
      destruct (jv_neg a) as [na|]; cbn [bind]; [|reflexivity].
      destruct (jv_idx ld 0) as [b|]; cbn [bind]; [|reflexivity].
      destruct (jv_neg b) as [nb|]; cbn [bind]; [|reflexivity].
      destruct (jv_set r' "disp" (JList [na; nb])) as [ri|]; cbn [bind]; [apply Tail|reflexivity].
    Qed.
  End Main.
End W.
