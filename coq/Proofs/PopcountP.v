(* Word-level correctness of Census.popcount32b (Model/MatchingCost.v): for every 0 <= x < 2^32 the
   SWAR computation returns the number of set bits of x, and the Hamming-distance reading of
   popcount (xor) on two bit strings given least-significant bit first.

   Method: the three field-wise steps (2-, 4-, 8-bit fields) act independently on the two 16-bit
   halves of the word ([s1_split], [s2_split], [s3_split], from [land_split]); on one 16-bit half
   everything is a finite computation over the 65536 values ([chk16_all], vm_compute: a complete
   enumeration, not a sample); the two final folding steps are linear arithmetic on the four byte
   counts. *)
From Coq Require Import ZArith List Bool Lia ZifyBool.
From Pandora Require Import Model.MatchingCost Proofs.MatchingCostP.
Import ListNotations.
Open Scope Z_scope.

Ltac Zify.zify_post_hook ::= Z.to_euclidean_division_equations.

(* number of set bits among the n low bits *)
Fixpoint pc (n : nat) (x : Z) : Z := match n with O => 0 | S k => x mod 2 + pc k (x / 2) end.

Lemma pc_0 : forall n, pc n 0 = 0.
Proof. induction n; cbn [pc]; [reflexivity|]. change (0 / 2) with 0. rewrite IHn. reflexivity. Qed.

Lemma pc_low : forall n x q, pc n (x + 2 ^ Z.of_nat n * q) = pc n x.
Proof.
  induction n; intros x q; [reflexivity|]. cbn [pc].
  rewrite Nat2Z.inj_succ, Z.pow_succ_r by lia.
  set (y := 2 ^ Z.of_nat n * q).
  replace (x + 2 * 2 ^ Z.of_nat n * q) with (x + 2 * y) by (subst y; ring).
  replace ((x + 2 * y) mod 2) with (x mod 2) by lia.
  replace ((x + 2 * y) / 2) with (x / 2 + y) by lia.
  subst y. now rewrite IHn.
Qed.

Lemma pc_add : forall n m x, pc (n + m) x = pc n x + pc m (x / 2 ^ Z.of_nat n).
Proof.
  induction n; intros m x.
  - cbn [Nat.add pc Z.of_nat]. change (2 ^ 0) with 1. rewrite Z.div_1_r. lia.
  - cbn [Nat.add pc]. rewrite IHn. rewrite Nat2Z.inj_succ, Z.pow_succ_r by lia.
    rewrite Z.div_div by lia. lia.
Qed.

(* ------------------------------------------------------------------ land on two halves *)

Lemma land_split : forall k a b, 0 <= k ->
  Z.land a b = Z.land (a mod 2 ^ k) (b mod 2 ^ k) + 2 ^ k * Z.land (a / 2 ^ k) (b / 2 ^ k).
Proof.
  intros k a b Hk.
  rewrite <- !Z.land_ones by exact Hk. rewrite <- !Z.shiftr_div_pow2 by exact Hk.
  rewrite <- Z.shiftr_land.
  replace (Z.land (Z.land a (Z.ones k)) (Z.land b (Z.ones k))) with (Z.land (Z.land a b) (Z.ones k)).
  - rewrite Z.land_ones, Z.shiftr_div_pow2 by exact Hk.
    assert (0 < 2 ^ k) by (apply Z.pow_pos_nonneg; lia).
    pose proof (Z.div_mod (Z.land a b) (2 ^ k)). lia.
  - rewrite <- !Z.land_assoc. f_equal. rewrite (Z.land_comm (Z.ones k)).
    rewrite <- Z.land_assoc. now rewrite Z.land_diag.
Qed.

Lemma land_hi_lo : forall u v m m', 0 <= u < 65536 -> 0 <= m < 65536 ->
  Z.land (u + 65536 * v) (m + 65536 * m') = Z.land u m + 65536 * Z.land v m'.
Proof.
  intros u v m m' Hu Hm. rewrite (land_split 16) by lia. change (2 ^ 16) with 65536.
  replace ((u + 65536 * v) mod 65536) with u by lia.
  replace ((m + 65536 * m') mod 65536) with m by lia.
  replace ((u + 65536 * v) / 65536) with v by lia.
  replace ((m + 65536 * m') / 65536) with m' by lia. reflexivity.
Qed.

(* a mask below 2^k only sees the k low bits *)
Lemma land_low : forall k a m, 0 <= k -> 0 <= m < 2 ^ k -> Z.land a m = Z.land (a mod 2 ^ k) m.
Proof.
  intros k a m Hk Hm. rewrite (land_split k a m) by exact Hk.
  rewrite (Z.div_small m) by exact Hm. rewrite Z.land_0_r.
  rewrite (Z.mod_small m) by exact Hm. lia.
Qed.

(* ------------------------------------------------------------------ the steps of popcount32b *)

Definition s1 x := x - Z.land (Z.shiftr x 1) 1431655765.
Definition s2 x := Z.land x 858993459 + Z.land (Z.shiftr x 2) 858993459.
Definition s3 x := Z.land (x + Z.shiftr x 4) 252645135.
Definition fin x := let x := x + Z.shiftr x 8 in let x := x + Z.shiftr x 16 in Z.land x 127.

Lemma popcount_steps : forall x, popcount32b x = fin (s3 (s2 (s1 x))).
Proof. reflexivity. Qed.

(* the same steps on a 16-bit half *)
Definition t1 v := v - Z.land (v / 2) 21845.
Definition t2 v := Z.land v 13107 + Z.land (v / 4) 13107.
Definition t3 v := Z.land (v + v / 16) 3855.

Lemma s1_split : forall lo hi, 0 <= lo < 65536 -> 0 <= hi ->
  s1 (lo + 65536 * hi) = t1 lo + 65536 * t1 hi.
Proof.
  intros lo hi Hlo Hhi. unfold s1, t1. rewrite Z.shiftr_div_pow2 by lia. change (2 ^ 1) with 2.
  replace ((lo + 65536 * hi) / 2) with ((lo / 2 + 32768 * (hi mod 2)) + 65536 * (hi / 2)) by lia.
  change 1431655765 with (21845 + 65536 * 21845).
  rewrite land_hi_lo by lia.
  rewrite (land_low 15 (lo / 2 + 32768 * (hi mod 2))) by (cbn; lia). change (2 ^ 15) with 32768.
  replace ((lo / 2 + 32768 * (hi mod 2)) mod 32768) with (lo / 2) by lia.
  lia.
Qed.

Lemma s2_split : forall lo hi, 0 <= lo < 65536 -> 0 <= hi ->
  s2 (lo + 65536 * hi) = t2 lo + 65536 * t2 hi.
Proof.
  intros lo hi Hlo Hhi. unfold s2, t2. rewrite Z.shiftr_div_pow2 by lia. change (2 ^ 2) with 4.
  replace ((lo + 65536 * hi) / 4) with ((lo / 4 + 16384 * (hi mod 4)) + 65536 * (hi / 4)) by lia.
  change 858993459 with (13107 + 65536 * 13107).
  rewrite !land_hi_lo by lia.
  rewrite (land_low 14 (lo / 4 + 16384 * (hi mod 4))) by (cbn; lia). change (2 ^ 14) with 16384.
  replace ((lo / 4 + 16384 * (hi mod 4)) mod 16384) with (lo / 4) by lia.
  lia.
Qed.

(* here the addition precedes the mask: no carry may leave the low half *)
Lemma s3_split : forall lo hi, 0 <= lo < 20480 -> 0 <= hi -> hi mod 16 <= 4 ->
  s3 (lo + 65536 * hi) = t3 lo + 65536 * t3 hi.
Proof.
  intros lo hi Hlo Hhi Hn. unfold s3, t3. rewrite Z.shiftr_div_pow2 by lia. change (2 ^ 4) with 16.
  replace (lo + 65536 * hi + (lo + 65536 * hi) / 16)
    with ((lo + lo / 16 + 4096 * (hi mod 16)) + 65536 * (hi + hi / 16)) by lia.
  change 252645135 with (3855 + 65536 * 3855).
  rewrite land_hi_lo by lia.
  rewrite (land_low 12 (lo + lo / 16 + 4096 * (hi mod 16))) by (cbn; lia).
  rewrite (land_low 12 (lo + lo / 16)) by (cbn; lia). change (2 ^ 12) with 4096.
  replace ((lo + lo / 16 + 4096 * (hi mod 16)) mod 4096) with ((lo + lo / 16) mod 4096) by lia.
  reflexivity.
Qed.

(* everything about one 16-bit half, by complete enumeration *)
Definition chk16 (v : Z) : bool :=
  let a := t1 v in let b := t2 a in let c := t3 b in
  (0 <=? a) && (a <? 65536) && (0 <=? b) && (b <? 20480) && (b mod 16 <=? 4)
  && (0 <=? c) && (c <? 65536) && (c mod 256 + c / 256 =? pc 16 v) && (c mod 256 <=? 8) && (c / 256 <=? 8).

Lemma chk16_all : forallb chk16 (zrange 0 65536) = true.
Proof. vm_compute. reflexivity. Qed.

Lemma chk16_at : forall v, 0 <= v < 65536 -> chk16 v = true.
Proof.
  intros v Hv. pose proof chk16_all as H. rewrite forallb_forall in H. apply H.
  apply zrange_In. lia.
Qed.

Lemma fin_bytes : forall a b c d, 0 <= a <= 8 -> 0 <= b <= 8 -> 0 <= c <= 8 -> 0 <= d <= 8 ->
  fin ((a + 256 * b) + 65536 * (c + 256 * d)) = a + b + c + d.
Proof.
  intros a b c d Ha Hb Hc Hd. unfold fin. cbv zeta.
  rewrite !Z.shiftr_div_pow2 by lia. change (2 ^ 8) with 256. change (2 ^ 16) with 65536.
  change 127 with (Z.ones 7). rewrite Z.land_ones by lia. change (2 ^ 7) with 128.
  set (y := a + 256 * b + 65536 * (c + 256 * d)).
  replace (y / 256) with (b + 256 * c + 65536 * d) by (subst y; lia).
  set (y1 := y + (b + 256 * c + 65536 * d)).
  replace (y1 / 65536) with (c + d + 256 * d) by (subst y1 y; lia).
  subst y1 y. lia.
Qed.

(* Census.popcount32b counts the set bits of a uint32 *)
Theorem popcount32b_correct : forall x, 0 <= x < 2 ^ 32 -> popcount32b x = pc 32 x.
Proof.
  intros x Hx. change (2 ^ 32) with 4294967296 in Hx.
  set (lo := x mod 65536). set (hi := x / 65536).
  assert (Hlo : 0 <= lo < 65536) by (subst lo; lia).
  assert (Hhi : 0 <= hi < 65536) by (subst hi; lia).
  assert (E : x = lo + 65536 * hi) by (subst lo hi; lia).
  pose proof (chk16_at lo Hlo) as Clo. pose proof (chk16_at hi Hhi) as Chi.
  unfold chk16 in Clo, Chi. cbv zeta in Clo, Chi.
  rewrite popcount_steps, E.
  rewrite s1_split by lia. rewrite s2_split by lia. rewrite s3_split by lia.
  set (cl := t3 (t2 (t1 lo))) in *. set (ch := t3 (t2 (t1 hi))) in *.
  replace cl with (cl mod 256 + 256 * (cl / 256)) at 1 by lia.
  replace ch with (ch mod 256 + 256 * (ch / 256)) at 1 by lia.
  rewrite fin_bytes by lia.
  change 32%nat with (16 + 16)%nat. rewrite pc_add. change (2 ^ Z.of_nat 16) with 65536.
  replace ((lo + 65536 * hi) / 65536) with hi by lia.
  change 65536 with (2 ^ Z.of_nat 16) at 1. rewrite pc_low. lia.
Qed.

(* ------------------------------------------------------------------ bit strings, least significant bit first *)

Fixpoint bvl (l : list bool) : Z := match l with [] => 0 | b :: r => Z.b2z b + 2 * bvl r end.

Lemma bvl_bound : forall l, 0 <= bvl l < 2 ^ Z.of_nat (length l).
Proof.
  induction l as [|b l IH]; cbn [bvl length]; [cbn; lia|].
  rewrite Nat2Z.inj_succ, Z.pow_succ_r by lia. destruct b; cbn [Z.b2z]; lia.
Qed.

Lemma lxor_step : forall b b' u u',
  Z.lxor (Z.b2z b + 2 * u) (Z.b2z b' + 2 * u') = Z.b2z (xorb b b') + 2 * Z.lxor u u'.
Proof.
  intros b b' u u'.
  set (X := Z.lxor (Z.b2z b + 2 * u) (Z.b2z b' + 2 * u')).
  assert (H0 : X mod 2 = Z.b2z (xorb b b')).
  { rewrite <- Z.bit0_mod. subst X. rewrite Z.lxor_spec.
    rewrite !(Z.add_comm (Z.b2z _)). rewrite !Z.testbit_0_r. reflexivity. }
  assert (H1 : X / 2 = Z.lxor u u').
  { change 2 with (2 ^ 1) at 1. rewrite <- Z.shiftr_div_pow2 by lia. subst X. rewrite Z.shiftr_lxor.
    rewrite !Z.shiftr_div_pow2 by lia. change (2 ^ 1) with 2.
    f_equal; destruct b, b'; cbn [Z.b2z]; lia. }
  pose proof (Z.div_mod X 2). lia.
Qed.

Lemma lxor_bvl : forall (l : list (bool * bool)),
  Z.lxor (bvl (map fst l)) (bvl (map snd l)) = bvl (map (fun p => xorb (fst p) (snd p)) l).
Proof.
  induction l as [|[b b'] l IH]; cbn [map bvl fst snd]; [reflexivity|].
  rewrite lxor_step, IH. reflexivity.
Qed.

Lemma pc_bvl : forall l n, (length l <= n)%nat -> pc n (bvl l) = zsum (map Z.b2z l).
Proof.
  induction l as [|b l IH]; intros n Hn; cbn [bvl map zsum].
  - apply pc_0.
  - destruct n; [cbn in Hn; lia|]. cbn [pc]. cbn [length] in Hn.
    replace ((Z.b2z b + 2 * bvl l) mod 2) with (Z.b2z b) by (destruct b; cbn [Z.b2z]; lia).
    replace ((Z.b2z b + 2 * bvl l) / 2) with (bvl l) by (destruct b; cbn [Z.b2z]; lia).
    rewrite IH by lia. reflexivity.
Qed.

(* popcount of the xor of two bit strings of at most 32 bits = number of positions where they differ *)
Theorem popcount_xor_hamming : forall (l : list (bool * bool)), (length l <= 32)%nat ->
  popcount32b (Z.lxor (bvl (map fst l)) (bvl (map snd l)))
  = zsum (map (fun p => Z.b2z (xorb (fst p) (snd p))) l).
Proof.
  intros l Hl. rewrite lxor_bvl.
  set (xs := map (fun p => xorb (fst p) (snd p)) l).
  assert (Hlen : length xs = length l) by (subst xs; apply map_length).
  rewrite popcount32b_correct.
  - rewrite pc_bvl by lia. subst xs. rewrite map_map. reflexivity.
  - pose proof (bvl_bound xs) as B. split; [lia|].
    apply Z.lt_le_trans with (1 := proj2 B). apply Z.pow_le_mono_r; lia.
Qed.
