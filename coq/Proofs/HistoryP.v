(* C18, history part: the products of a run do not depend on what earlier calls left.

   (1) noninterference on attribute stores: if the datum passes [covered], then for ANY
       meaning of the callbacks respecting their frames and any two stores that agree on the
       persistent attribute (step; right_disp_map is reassigned by run_prepare) -- e.g. a fresh machine and a machine after an
       arbitrary history -- run_prepare followed by any callback sequence that starts with
       the callbacks of the first trigger yields the same products.
   (2) the callback sequence of a run of an accepted pipeline starts with those callbacks.
   (3) along every history of check/run calls of one accepted pipeline on one machine, every
       run has the same trace and reads the same persistent pair (on top of C01).
   (4) shared dictionaries: whatever writers ran before, a writer validates with the literal
       overwritten by its own keys. *)
From Coq Require Import List String Bool ZArith Lia.
From Pandora Require Import Model.Machine Spec.Language Proofs.MachineP Model.History.
Import ListNotations.
Open Scope string_scope.
Open Scope list_scope.

Lemma mem_s_In x l : mem_s x l = true <-> In x l.
Proof.
  unfold mem_s. rewrite existsb_exists. split.
  - intros (y & Hy & E). apply String.eqb_eq in E. now subst.
  - intros H. exists x. split; [exact H|apply String.eqb_refl].
Qed.

Lemma subset_s_In a b : subset_s a b = true -> forall x, In x a -> In x b.
Proof. unfold subset_s. rewrite forallb_forall. intros H x Hx. apply mem_s_In. now apply H. Qed.

Lemma find_cb_name n l c : find_cb n l = Some c -> cb_name c = n /\ In c l.
Proof.
  unfold find_cb. intros H. apply find_some in H. destruct H as [H1 H2].
  apply String.eqb_eq in H2. auto.
Qed.

Section Stores.
  Variable value : Type.
  Notation store := (store value).
  Notation agree := (agree value).
  Variable sem : string -> Z -> store -> store.

  Lemma agree_mono A B s1 s2 : (forall a, In a B -> In a A) -> agree A s1 s2 -> agree B s1 s2.
  Proof. intros H Ha a Hb. apply Ha. now apply H. Qed.

  (* one callback keeps two runs in agreement, and adds what it assigns on every path *)
  Lemma respects_step c f A s1 s2 :
    respects value c f -> (forall a, In a (cb_reads c) -> In a A) ->
    agree A s1 s2 -> agree (cb_must c ++ A) (f s1) (f s2).
  Proof.
    intros [Hdep Hframe] Hsub Hag.
    assert (Hr : agree (cb_reads c) s1 s2) by (eapply agree_mono; eauto).
    destruct (Hdep s1 s2 Hr) as [H1 H2].
    intros a Ha. apply in_app_or in Ha.
    destruct (in_dec string_dec a (cb_must c)) as [Hm|Hm]; [apply H1; now right|].
    destruct Ha as [Ha|Ha]; [contradiction|].
    destruct (in_dec string_dec a (cb_reads c)) as [Hrd|Hrd]; [apply H1; now left|].
    destruct (in_dec string_dec a (cb_may c)) as [Hy|Hy]; [apply H2; auto|].
    rewrite !Hframe by assumption. now apply Hag.
  Qed.

  Variable cbs : list cbinfo.
  Hypothesis Hsem : forall c id, In c cbs -> respects value c (sem (cb_name c) id).

  Lemma walk_agree : forall names A A' s1 s2 ids,
    walk cbs names A = Some A' -> List.length ids = List.length names -> agree A s1 s2 ->
    agree A' (exec value sem (combine names ids) s1) (exec value sem (combine names ids) s2)
    /\ (forall a, In a A -> In a A').
  Proof.
    induction names as [|n r IH]; intros A A' s1 s2 ids Hw Hl Hag.
    - cbn in Hw. inversion Hw; subst. cbn. auto.
    - destruct ids as [|id ids]; [discriminate|]. cbn in Hw.
      destruct (find_cb n cbs) as [c|] eqn:Ec; [|discriminate].
      destruct (subset_s (cb_reads c) A) eqn:Es; [|discriminate].
      destruct (find_cb_name _ _ _ Ec) as [En Hin]. cbn [combine exec].
      assert (Hag' : agree (cb_must c ++ A) (sem n id s1) (sem n id s2)).
      { rewrite <- En. apply respects_step; auto. apply subset_s_In. exact Es. }
      destruct (IH _ _ _ _ ids Hw (eq_add_S _ _ Hl) Hag') as [H1 H2].
      split; [exact H1|]. intros a Ha. apply H2. apply in_or_app. now right.
  Qed.

  (* any further callbacks whose reads are inside the agreement set *)
  Lemma rest_agree (skip : list string) : forall (l : list (string * Z)) A s1 s2,
    forallb (fun c => mem_s (cb_name c) skip || subset_s (cb_reads c) A) cbs = true ->
    (forall n id, In (n, id) l -> (exists c, In c cbs /\ cb_name c = n) /\ ~ In n skip) ->
    agree A s1 s2 ->
    forall a, In a A -> exec value sem l s1 a = exec value sem l s2 a.
  Proof.
    induction l as [|[n id] r IH]; intros A s1 s2 Hall Hl Hag a Ha; cbn [exec].
    - now apply Hag.
    - destruct (Hl n id (or_introl eq_refl)) as [(c & Hc & En) Hns].
      pose proof (proj1 (forallb_forall _ _) Hall c Hc) as Hcv.
      apply orb_true_iff in Hcv. destruct Hcv as [Hcv|Hcv].
      { apply mem_s_In in Hcv. rewrite En in Hcv. contradiction. }
      assert (Hag' : agree (cb_must c ++ A) (sem n id s1) (sem n id s2)).
      { rewrite <- En. apply respects_step; auto. apply subset_s_In. exact Hcv. }
      assert (Hall' : forallb (fun c0 => mem_s (cb_name c0) skip || subset_s (cb_reads c0) (cb_must c ++ A)) cbs = true).
      { apply forallb_forall. intros c0 Hc0. pose proof (proj1 (forallb_forall _ _) Hall c0 Hc0) as H0.
        apply orb_true_iff in H0. apply orb_true_iff. destruct H0 as [H0|H0]; [now left|right].
        unfold subset_s in *. rewrite forallb_forall in *. intros x Hx. specialize (H0 x Hx).
        apply mem_s_In. apply mem_s_In in H0. apply in_or_app. now right. }
      apply (IH (cb_must c ++ A)%list); auto.
      + intros n' id' H'. apply (Hl n' id'). now right.
      + apply in_or_app. now right.
  Qed.

  (* The products of a run are a function of (callback sequence, persistent pair) only. *)
  Theorem run_products_history_free (prep : cbinfo) (first skip : list string)
          (prep_sem : store -> store) :
    covered prep cbs first skip = true ->
    respects value prep prep_sem ->
    forall (ids : list Z) (rest : list (string * Z)) (s1 s2 : store),
      List.length ids = List.length first ->
      (forall n id, In (n, id) rest -> (exists c, In c cbs /\ cb_name c = n) /\ ~ In n skip) ->
      agree persist s1 s2 ->
      agree products (exec value sem (combine first ids ++ rest) (prep_sem s1))
                     (exec value sem (combine first ids ++ rest) (prep_sem s2)).
  Proof.
    intros Hcov Hprep ids rest s1 s2 Hl Hrest Hag.
    unfold covered in Hcov. apply andb_true_iff in Hcov. destruct Hcov as [Hcov Hw].
    apply andb_true_iff in Hcov. destruct Hcov as [Hpr Hprod].
    destruct (walk cbs first (cb_must prep ++ persist)) as [A|] eqn:Ew; [|discriminate].
    assert (H0 : agree (cb_must prep ++ persist) (prep_sem s1) (prep_sem s2)).
    { apply respects_step; auto. apply subset_s_In. exact Hpr. }
    destruct (walk_agree _ _ _ _ _ ids Ew Hl H0) as [H1 H2].
    assert (Hexec : forall s, exec value sem (combine first ids ++ rest) s
                              = exec value sem rest (exec value sem (combine first ids) s)).
    { generalize (combine first ids). intros l. induction l as [|[n id] l IHl]; intros s; cbn; auto. }
    intros a Ha. rewrite !Hexec.
    apply (rest_agree skip rest A); auto.
    apply H2. apply in_or_app. left. apply (subset_s_In _ _ Hprod). exact Ha.
  Qed.
End Stores.

(* ---------------------------------------------------------------- (2) shape of the callback sequence *)

Lemma path_first_mc p d : path_ok Begin p = Some d -> p <> [] ->
  exists s r, p = s :: r /\ s_kind s = Some MC.
Proof.
  destruct p as [|s r]; [congruence|]. intros H _. exists s, r. split; [reflexivity|].
  cbn in H. destruct (s_kind s) as [k|]; [|discriminate]. destruct k; try discriminate; reflexivity.
Qed.

Lemma is_kind_msc_mc s : s_kind s = Some MC -> is_kind Msc s = false.
Proof. unfold is_kind. intros ->. reflexivity. Qed.

(* the executed callbacks of a run of an accepted, non-empty pipeline start with the callbacks
   of the trigger `matching_cost` *)
Lemma trace_starts_with_mc tbl p d n rdm : path_ok Begin p = Some d -> p <> [] -> (n >= 1)%nat ->
  exists s rest,
    s_kind s = Some MC /\
    cbs_of_trace tbl (expected_trace p n rdm)
    = map (fun nm => (nm, s_id s)) (callbacks_of tbl MC) ++ rest.
Proof.
  intros Hp Hne Hn. destruct (path_first_mc p d Hp Hne) as (s & r & -> & Hs).
  exists s. unfold expected_trace.
  destruct (n - 1)%nat as [|j] eqn:Ej.
  - cbn [coarse_traces app]. cbn [filter]. rewrite (is_kind_msc_mc s Hs). cbn [negb].
    unfold scale_trace. cbn [flat_map]. unfold step_evs at 1. rewrite Hs. unfold evs.
    eexists. split; [reflexivity|]. unfold cbs_of_trace. cbn [flat_map app]. reflexivity.
  - cbn [coarse_traces]. cbn [upto_msc]. rewrite (is_kind_msc_mc s Hs).
    unfold scale_trace at 1. cbn [flat_map]. unfold step_evs at 1. rewrite Hs. unfold evs.
    eexists. split; [reflexivity|]. unfold cbs_of_trace. cbn [flat_map app]. rewrite <- app_assoc. reflexivity.
Qed.

(* which callbacks a trace can name *)
Lemma cbs_of_trace_names tbl : forall tr n id,
  In (n, id) (cbs_of_trace tbl tr) ->
  exists k sc, In (Ev id k sc false) tr /\ In n (callbacks_of tbl k).
Proof.
  induction tr as [|e tr IH]; intros n id H; [contradiction|].
  unfold cbs_of_trace in H. cbn [flat_map] in H. apply in_app_or in H. destruct H as [H|H].
  - destruct e as [id' k sc [|]]; [contradiction|].
    apply in_map_iff in H. destruct H as (nm & E & Hin). inversion E; subst.
    exists k, sc. split; [now left|exact Hin].
  - destruct (IH n id H) as (k & sc & H1 & H2). exists k, sc. split; [now right|exact H2].
Qed.

Lemma scale_trace_kinds rdm sc l id k sc' r :
  In (Ev id k sc' r) (scale_trace rdm sc l) -> exists s, In s l /\ s_kind s = Some k.
Proof.
  unfold scale_trace. intros H. apply in_flat_map in H. destruct H as (s & Hs & He).
  exists s. split; [exact Hs|]. unfold step_evs in He. destruct (s_kind s) as [k'|]; [|contradiction].
  unfold evs in He. destruct He as [He|He]; [inversion He; reflexivity|].
  destruct rdm; [|contradiction]. destruct He as [He|[]]. inversion He; reflexivity.
Qed.

(* a single-scale run never names the multiscale kind *)
Lemma single_scale_no_msc p rdm id sc r :
  ~ In (Ev id Msc sc r) (expected_trace p 1 rdm).
Proof.
  unfold expected_trace. cbn [Nat.sub coarse_traces app]. intros H.
  apply scale_trace_kinds in H. destruct H as (s & Hs & Hk).
  apply filter_In in Hs. destruct Hs as [_ Hf]. unfold is_kind in Hf. rewrite Hk in Hf. discriminate.
Qed.

Lemma map_pair_combine (l : list string) (id : Z) :
  map (fun nm => (nm, id)) l = combine l (repeat id (List.length l)).
Proof. induction l; cbn; [reflexivity|]. now rewrite IHl. Qed.

(* boolean obligation on the trigger table: the callbacks of `matching_cost` are the first
   callbacks, every named callback has an entry, only `multiscale` names the multiscale ones *)
Definition table_ok (tbl : list (string * list string)) (cbs : list cbinfo) (first msc : list string) : bool :=
  (if list_eq_dec string_dec (callbacks_of tbl MC) first then true else false) &&
  forallb (fun k => forallb (fun nm => match find_cb nm cbs with Some _ => true | None => false end)
                            (callbacks_of tbl k)) all_kinds &&
  forallb (fun k => kind_eqb k Msc || forallb (fun nm => negb (mem_s nm msc)) (callbacks_of tbl k)) all_kinds.

Lemma all_kinds_complete k : In k all_kinds.
Proof. destruct k; cbn; tauto. Qed.

Section RunData.
  Variable value : Type.
  Variable sem : string -> Z -> store value -> store value.
  Variable prep_sem : store value -> store value.
  Variable tbl : list (string * list string).
  Variables (prep : cbinfo) (cbs : list cbinfo) (first msc : list string).

  (* the attribute store after pandora.run: run_prepare, then the callbacks of the trace *)
  Definition run_data (p : list step) (n : nat) (rdm : bool) (s : store value) : store value :=
    exec value sem (cbs_of_trace tbl (expected_trace p n rdm)) (prep_sem s).

  Theorem run_data_history_free (p : list step) (d : state) (n : nat) (rdm : bool) :
    table_ok tbl cbs first msc = true ->
    covered prep cbs first (if (1 <? n)%nat then [] else msc) = true ->
    respects value prep prep_sem ->
    (forall c id, In c cbs -> respects value c (sem (cb_name c) id)) ->
    path_ok Begin p = Some d -> p <> [] -> (n >= 1)%nat ->
    forall s1 s2, agree value persist s1 s2 ->
      agree value products (run_data p n rdm s1) (run_data p n rdm s2).
  Proof.
    intros Htbl Hcov Hprep Hsem Hp Hne Hn s1 s2 Hag.
    unfold table_ok in Htbl. apply andb_true_iff in Htbl. destruct Htbl as [Htbl Hmsc].
    apply andb_true_iff in Htbl. destruct Htbl as [Hfirst Hall].
    destruct (list_eq_dec string_dec (callbacks_of tbl MC) first) as [Ef|]; [|discriminate].
    destruct (trace_starts_with_mc tbl p d n rdm Hp Hne Hn) as (s & rest & Hs & Etr).
    unfold run_data. rewrite Etr, Ef, map_pair_combine.
    apply (run_products_history_free value sem cbs Hsem prep first _ prep_sem Hcov Hprep).
    - now rewrite repeat_length.
    - intros nm id Hin.
      assert (Hin' : In (nm, id) (cbs_of_trace tbl (expected_trace p n rdm))).
      { rewrite Etr. apply in_or_app. now right. }
      destruct (cbs_of_trace_names tbl _ _ _ Hin') as (k & sc & Hev & Hnm). split.
      + rewrite forallb_forall in Hall. specialize (Hall k (all_kinds_complete k)).
        rewrite forallb_forall in Hall. specialize (Hall nm Hnm).
        destruct (find_cb nm cbs) as [c|] eqn:Ec; [|discriminate].
        destruct (find_cb_name _ _ _ Ec) as [E1 E2]. exists c. auto.
      + destruct (Nat.ltb_spec 1 n) as [Hgt|Hle]; [intros []|].
        assert (n = 1)%nat by lia. subst n.
        rewrite forallb_forall in Hmsc. specialize (Hmsc k (all_kinds_complete k)).
        apply orb_true_iff in Hmsc. destruct Hmsc as [Hk|Hk].
        * destruct k; try discriminate. exfalso. eapply single_scale_no_msc. exact Hev.
        * rewrite forallb_forall in Hk. specialize (Hk nm Hnm). intros Hc.
          apply mem_s_In in Hc. rewrite Hc in Hk. discriminate.
    - exact Hag.
  Qed.
End RunData.

(* ---------------------------------------------------------------- (3) histories on one machine *)
Section Hist.
  Variable check_tbl run_tbl : list transition.
  Variable step_ok : step -> bool -> bool.
  Hypothesis Hcwf : check_tbl_wf check_tbl = true.
  Hypothesis Hrwf : run_tbl_wf run_tbl = true.
  Variable mc_step : Z.

  Definition hexpected (n : nat) (p : list step) (c : hcall) : houtcome :=
    match c with
    | HCheck => HAccepted
    | HRun => HRan (expected_trace p n (has_kind Val p)) (has_kind Val p) 1%Z
    end.

  (* the machine is fresh or went through ANY history of successful checks/runs of ANY
     pipelines (it is clean; what it holds in right_disp_map does not matter: check_conf and
     run_prepare both reassign it): every run has the expected trace and reads
     right_disp_map = (a validation step is configured in THIS pipeline), step = 1 *)
  Theorem hhistory_spec n p d : forall h m st,
    clean m -> st = 1%Z -> mc_step = 1%Z ->
    path_ok Begin p = Some d -> accept_b step_ok p = true ->
    (n >= 1)%nat -> ((n > 1)%nat -> has_kind Msc p = true) ->
    hhistory check_tbl run_tbl step_ok mc_step n p (m, st) h = map (hexpected n p) h.
  Proof.
    induction h as [|c r IH]; intros m st Hm Hst Hmc Hp Hacc Hn Hmsc; [reflexivity|].
    cbn [hhistory map]. destruct c; cbn [do_hcall hexpected].
    - pose proof (check_conf_spec check_tbl step_ok Hcwf m p Hm) as H.
      rewrite Hacc in H. rewrite H. f_equal.
      apply IH; auto; split; reflexivity.
    - rewrite (run_spec run_tbl Hrwf m p n d Hm Hp Hn Hmsc). subst st. f_equal.
      apply IH; auto; split; reflexivity.
  Qed.
End Hist.

(* ---------------------------------------------------------------- (3b) other machine objects in between *)
Section World.
  Variable check_tbl run_tbl : list transition.
  Variable step_ok : step -> bool -> bool.
  Hypothesis Hcwf : check_tbl_wf check_tbl = true.
  Hypothesis Hrwf : run_tbl_wf run_tbl = true.
  Variable mc_step_of : list step -> Z.

  (* calls on other objects do not change object a *)
  Lemma whistory_projection a n p : forall ops w,
    (forall o, In o ops -> w_mid o = a -> w_n o = n /\ w_p o = p) ->
    whistory check_tbl run_tbl step_ok mc_step_of a w ops
    = hhistory check_tbl run_tbl step_ok (mc_step_of p) n p (w a)
        (map w_call (filter (fun o => Z.eqb (w_mid o) a) ops)).
  Proof.
    induction ops as [|o r IH]; intros w Hops; [reflexivity|].
    cbn [whistory filter]. unfold wstep.
    destruct (Z.eqb (w_mid o) a) eqn:E.
    - apply Z.eqb_eq in E. destruct (Hops o (or_introl eq_refl) E) as [En Ep].
      rewrite En, Ep, E. cbn [map hhistory].
      destruct (do_hcall check_tbl run_tbl step_ok (mc_step_of p) n p (w a) (w_call o)) as [ms' out].
      f_equal. rewrite IH by (intros o' H'; apply Hops; now right).
      rewrite Z.eqb_refl. reflexivity.
    - destruct (do_hcall check_tbl run_tbl step_ok (mc_step_of (w_p o)) (w_n o) (w_p o) (w (w_mid o)) (w_call o))
        as [ms' out].
      rewrite IH by (intros o' H'; apply Hops; now right).
      rewrite Z.eqb_sym, E. reflexivity.
  Qed.

  (* Every sequence of check/run calls in one process, on any machine objects, with any
     pipelines (accepted or not) on the OTHER objects: the calls made on object a -- all with
     the accepted pipeline p -- each return what the first would return. *)
  Theorem whistory_spec a n p d : forall ops w,
    (forall o, In o ops -> w_mid o = a -> w_n o = n /\ w_p o = p) ->
    clean (fst (w a)) -> snd (w a) = 1%Z ->
    mc_step_of p = 1%Z ->
    path_ok Begin p = Some d -> accept_b step_ok p = true ->
    (n >= 1)%nat -> ((n > 1)%nat -> has_kind Msc p = true) ->
    whistory check_tbl run_tbl step_ok mc_step_of a w ops
    = map (hexpected n p) (map w_call (filter (fun o => Z.eqb (w_mid o) a) ops)).
  Proof.
    intros ops w Hops Hc Hs Hmc Hp Ha Hn Hm.
    rewrite (whistory_projection a n p ops w Hops).
    destruct (w a) as [m st] eqn:Ew. cbn [fst snd] in *.
    apply (hhistory_spec check_tbl run_tbl step_ok Hcwf Hrwf (mc_step_of p) n p d); auto.
  Qed.
End World.

(* ---------------------------------------------------------------- (4) shared dictionaries *)
Section Dicts.
  Variable V : Type.
  Notation dict := (dict V).

  Lemma lookup_dset_same k v (d : dict) : lookup V k (dset V k v d) = Some v.
  Proof.
    induction d as [|[k' v'] r IH]; cbn.
    - now rewrite String.eqb_refl.
    - destruct (String.eqb k' k) eqn:E; cbn; rewrite E; [reflexivity|exact IH].
  Qed.

  Lemma lookup_dset_other k k' v (d : dict) : k' <> k -> lookup V k' (dset V k v d) = lookup V k' d.
  Proof.
    intros Hne. induction d as [|[k0 v0] r IH]; cbn.
    - destruct (String.eqb k k') eqn:E; [apply String.eqb_eq in E; congruence|reflexivity].
    - destruct (String.eqb k0 k) eqn:E; cbn.
      + apply String.eqb_eq in E. subst k0.
        destruct (String.eqb k k') eqn:E'; [apply String.eqb_eq in E'; congruence|reflexivity].
      + destruct (String.eqb k0 k'); [reflexivity|exact IH].
  Qed.

  (* after a writer: its keys hold its values (last write wins), the other keys are as before *)
  Lemma lookup_write_all_other kvs : forall (d : dict) k,
    ~ In k (map fst kvs) -> lookup V k (write_all V kvs d) = lookup V k d.
  Proof.
    unfold write_all. induction kvs as [|[k0 v0] r IH]; intros d k Hn; cbn; [reflexivity|].
    rewrite IH by (intros H; apply Hn; now right).
    apply lookup_dset_other. intros ->. apply Hn. now left.
  Qed.

  Lemma lookup_write_all_indep kvs : forall (d d' : dict) k,
    In k (map fst kvs) -> lookup V k (write_all V kvs d) = lookup V k (write_all V kvs d').
  Proof.
    unfold write_all. induction kvs as [|[k0 v0] r IH]; intros d d' k Hin; cbn; [contradiction|].
    destruct (in_dec string_dec k (map fst r)) as [Hr|Hr]; [now apply IH|].
    destruct Hin as [<-|Hin]; [|contradiction]. cbn [fst snd].
    fold (write_all V r (dset V k0 v0 d)). fold (write_all V r (dset V k0 v0 d')).
    rewrite !lookup_write_all_other by exact Hr. now rewrite !lookup_dset_same.
  Qed.

  (* a history of writers: each overwrites its own keys with its own values *)
  Definition after_history (h : list (list (string * V))) (base : dict) : dict :=
    fold_left (fun d kvs => write_all V kvs d) h base.

  Lemma history_keeps_other_keys (keys : list string) : forall h (base : dict) k,
    (forall kvs, In kvs h -> forall x, In x (map fst kvs) -> In x keys) ->
    ~ In k keys -> lookup V k (after_history h base) = lookup V k base.
  Proof.
    unfold after_history. induction h as [|kvs r IH]; intros base k Hk Hn; cbn; [reflexivity|].
    rewrite IH; auto.
    - apply lookup_write_all_other. intros H. apply Hn. apply (Hk kvs); auto. now left.
    - intros kvs' H'. apply Hk. now right.
  Qed.

  (* The dictionary a writer validates with does not depend on which writers ran before, as
     long as every writer overwrites the same key set. *)
  Theorem shared_dict_history_free (keys : list string) (h : list (list (string * V)))
          (mine : list (string * V)) (base : dict) :
    (forall kvs, In kvs h -> forall x, In x (map fst kvs) -> In x keys) ->
    (forall x, In x keys -> In x (map fst mine)) ->
    forall k, lookup V k (write_all V mine (after_history h base)) = lookup V k (write_all V mine base).
  Proof.
    intros Hh Hmine k.
    destruct (in_dec string_dec k (map fst mine)) as [Hin|Hin].
    - now apply lookup_write_all_indep.
    - rewrite !lookup_write_all_other by exact Hin.
      apply (history_keeps_other_keys keys); auto.
  Qed.
End Dicts.

Lemma same_keys_In a b : same_keys a b = true -> forall x, In x a <-> In x b.
Proof.
  unfold same_keys. rewrite andb_true_iff. intros [H1 H2] x. split; apply subset_s_In; assumption.
Qed.

(* from the boolean obligation on a generated shared dictionary to the hypotheses above *)
Theorem shared_wf_sound (V : Type) (d : shared) : shared_wf d = true ->
  forall (h : list (list (string * V))) (mine : list (string * V)) (base : dict V) w0 ks0,
    In (w0, ks0) (sd_writers d) ->
    (forall kvs, In kvs h -> exists w, In w (sd_writers d) /\ map fst kvs = snd w) ->
    (exists w, In w (sd_writers d) /\ map fst mine = snd w) ->
    forall k, lookup V k (write_all V mine (after_history V h base)) = lookup V k (write_all V mine base).
Proof.
  intros Hwf h mine base w0 ks0 Hin Hh (wm & Hwm & Em).
  unfold shared_wf in Hwf. destruct (sd_writers d) as [|[w1 ks1] ws] eqn:E; [contradiction|].
  rewrite forallb_forall in Hwf.
  apply (shared_dict_history_free V ks1).
  - intros kvs Hk x Hx. destruct (Hh kvs Hk) as (w & Hw & Ew). rewrite Ew in Hx.
    apply (same_keys_In _ _ (Hwf w Hw)). exact Hx.
  - intros x Hx. rewrite Em. apply (same_keys_In _ _ (Hwf wm Hwm)). exact Hx.
Qed.
