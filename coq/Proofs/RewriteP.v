(* C19: what the run writes into the configuration (cost_volume_confidence_run: `indicator`)
   is idempotent: a configuration saved by a run is not rewritten again by the replay. *)
From Coq Require Import List Bool String.
From Pandora Require Import Model.Json Model.Pipeline Model.SavedCfg.
Import ListNotations.
Open Scope string_scope.

Lemma set_key_twice k v w d : set_key k w (set_key k v d) = set_key k w d.
Proof.
  induction d as [|[k' v'] d IH]; cbn; [rewrite String.eqb_refl; reflexivity|].
  destruct (String.eqb k k') eqn:E; cbn; rewrite E; [reflexivity|rewrite IH; reflexivity].
Qed.

Lemma lookup_set_key k v d : lookup k (set_key k v d) = Some v.
Proof.
  induction d as [|[k' v'] d IH]; cbn; [rewrite String.eqb_refl; reflexivity|].
  destruct (String.eqb k k') eqn:E; cbn; rewrite E; [reflexivity|exact IH].
Qed.

Lemma rewrite_step_idem name v : rewrite_step name (rewrite_step name v) = rewrite_step name v.
Proof.
  destruct v; try reflexivity. cbn.
  destruct (String.eqb (kind_of_step name) "cost_volume_confidence") eqn:E; cbn; rewrite E; [|reflexivity].
  rewrite set_key_twice. reflexivity.
Qed.

Theorem run_rewrites_idem cfg : run_rewrites (run_rewrites cfg) = run_rewrites cfg.
Proof.
  unfold run_rewrites at 2. destruct (lookup "pipeline" cfg) as [[| | | | | | | |steps]|] eqn:L;
    try (unfold run_rewrites; rewrite L; reflexivity).
  unfold run_rewrites. rewrite L, lookup_set_key. rewrite set_key_twice. f_equal. f_equal.
  rewrite map_map. apply map_ext. intros [k v]. cbn [fst snd]. rewrite rewrite_step_idem. reflexivity.
Qed.
