(* C19 (c): parse (print v) = Some v for every value of the JSON subset (Model/JsonText.v). *)
From Coq Require Import ZArith QArith List Bool String Ascii NArith Lia Decimal DecimalFacts DecimalString DecimalN DecimalPos.
From Pandora Require Import Model.Json Model.JsonText Proofs.JsonP.
Import ListNotations.
Open Scope string_scope.

(* ------------------------------------------------------------------ strings *)

Lemma sapp_assoc (a b c : string) : (a ++ b) ++ c = a ++ (b ++ c).
Proof. induction a as [|x a IH]; cbn; [reflexivity|rewrite IH; reflexivity]. Qed.

Lemma sapp_nil_r (a : string) : a ++ "" = a.
Proof. induction a as [|x a IH]; cbn; [reflexivity|rewrite IH; reflexivity]. Qed.

Lemma slength_app (a b : string) : String.length (a ++ b) = (String.length a + String.length b)%nat.
Proof. induction a as [|x a IH]; cbn; [reflexivity|rewrite IH; reflexivity]. Qed.

Definition stops (p : ascii -> bool) (rest : string) : bool :=
  match rest with EmptyString => true | String c _ => negb (p c) end.

Lemma span_app p a rest : all_chars p a = true -> stops p rest = true -> span p (a ++ rest) = (a, rest).
Proof.
  induction a as [|x a IH]; cbn [all_chars append]; intros A S.
  - destruct rest as [|c r]; [reflexivity|]. cbn in *. apply negb_true_iff in S. rewrite S. reflexivity.
  - apply andb_prop in A as [A1 A2]. cbn [span]. rewrite A1, (IH A2 S). reflexivity.
Qed.

Lemma span_all p a : all_chars p a = true -> span p a = (a, "").
Proof. intro A. pose proof (span_app p a "" A eq_refl) as H. rewrite sapp_nil_r in H. exact H. Qed.

Lemma all_chars_app p a b : all_chars p (a ++ b) = all_chars p a && all_chars p b.
Proof. induction a as [|x a IH]; cbn; [reflexivity|rewrite IH; apply andb_assoc]. Qed.

Lemma all_chars_weaken (p q : ascii -> bool) s :
  (forall c, p c = true -> q c = true) -> all_chars p s = true -> all_chars q s = true.
Proof.
  intro H. induction s as [|x s IH]; cbn; [reflexivity|]. intro A. apply andb_prop in A as [A1 A2].
  rewrite (H x A1), (IH A2). reflexivity.
Qed.

Lemma skip_ws_head c r : is_ws c = false -> skip_ws (String c r) = String c r.
Proof. intro H. cbn. rewrite H. reflexivity. Qed.

(* ------------------------------------------------------------------ character classes *)

Ltac by_cases_on_ascii c :=
  destruct c as [[|] [|] [|] [|] [|] [|] [|] [|]]; vm_compute; try reflexivity; try discriminate.

Lemma atom_char_head c :
  atom_char c = true ->
  is_ws c = false /\ Ascii.eqb c "[" = false /\ Ascii.eqb c "{" = false /\ Ascii.eqb c """" = false
  /\ Ascii.eqb c "]" = false /\ Ascii.eqb c "}" = false.
Proof. by_cases_on_ascii c; intro; repeat split; reflexivity. Qed.

Lemma digit_atom c : is_digit c = true -> atom_char c = true.
Proof. by_cases_on_ascii c. Qed.

Lemma digit_not_minus c : is_digit c = true -> Ascii.eqb c "-" = false.
Proof. by_cases_on_ascii c. Qed.

Lemma digit_char_ok d : (0 <= d <= 9)%Z ->
  is_digit (digit_char d) = true /\ (Z.of_N (code (digit_char d)) - 48 = d)%Z.
Proof.
  intro H.
  assert (C : (d = 0 \/ d = 1 \/ d = 2 \/ d = 3 \/ d = 4 \/ d = 5 \/ d = 6 \/ d = 7 \/ d = 8 \/ d = 9)%Z) by lia.
  repeat (destruct C as [->|C]; [vm_compute; split; reflexivity|]). subst. vm_compute. split; reflexivity.
Qed.

(* ------------------------------------------------------------------ numbers *)

Lemma pow10_pos k : (0 < pow10 k)%Z.
Proof. induction k; cbn [pow10]; lia. Qed.

Lemma sou_digits d : all_chars is_digit (NilEmpty.string_of_uint d) = true.
Proof. induction d; cbn [NilEmpty.string_of_uint all_chars]; rewrite ?IHd; reflexivity. Qed.

Lemma to_uint_nonnil n : N.to_uint n <> Nil.
Proof. destruct n; [discriminate|]. apply Unsigned.to_uint_nonnil. Qed.

Lemma pn_digits n : all_chars is_digit (pn n) = true.
Proof. apply sou_digits. Qed.

Lemma pn_nonempty n : exists c t, pn n = String c t /\ is_digit c = true.
Proof.
  pose proof (pn_digits n) as D. unfold pn in *. pose proof (to_uint_nonnil (Z.to_N n)) as N.
  destruct (N.to_uint (Z.to_N n)); try (exfalso; apply N; reflexivity);
    cbn [NilEmpty.string_of_uint all_chars] in *; apply andb_prop in D as [D _]; eexists; eexists; split; try reflexivity; exact D.
Qed.

Lemma to_uint_norm n d : N.to_uint n = D0 d -> d = Nil.
Proof.
  intro H. pose proof (DecimalN.Unsigned.to_of (N.to_uint n)) as T. rewrite DecimalN.Unsigned.of_to in T.
  rewrite H in T. unfold unorm in T. destruct (nzhead (D0 d)) eqn:E; try discriminate.
  - inversion T. reflexivity.
  - exfalso. exact (DecimalFacts.nzhead_nonzero _ _ E).
Qed.

Lemma pn_no_leading_zero n c t : pn n = String c t -> Ascii.eqb c "0" && negb (String.eqb t "") = false.
Proof.
  unfold pn. intro H. destruct (N.to_uint (Z.to_N n)) eqn:E; cbn [NilEmpty.string_of_uint] in H; try discriminate;
    inversion H; subst; try reflexivity.
  apply to_uint_norm in E. subst. reflexivity.
Qed.

Lemma pn_parse n : (0 <= n)%Z ->
  NilEmpty.uint_of_string (pn n) = Some (N.to_uint (Z.to_N n))
  /\ Z.of_N (N.of_uint (N.to_uint (Z.to_N n))) = n.
Proof.
  intro H. split; [apply NilEmpty.usu|]. rewrite DecimalN.Unsigned.of_to. apply Z2N.id. exact H.
Qed.

Lemma dval_fixw k : forall n acc, (0 <= n < pow10 k)%Z ->
  dval acc (fixw k n) = Some (acc * pow10 k + n)%Z /\ String.length (fixw k n) = k.
Proof.
  induction k as [|k IH]; intros n acc H; cbn [fixw pow10 dval String.length] in *.
  - split; [f_equal; lia|reflexivity].
  - pose proof (pow10_pos k) as P.
    assert (D : (0 <= n / pow10 k <= 9)%Z).
    { split; [apply Z.div_pos; lia|]. apply Z.lt_succ_r. apply Z.div_lt_upper_bound; lia. }
    destruct (digit_char_ok _ D) as [D1 D2]. rewrite D1, D2.
    assert (M : (0 <= n mod pow10 k < pow10 k)%Z) by (apply Z.mod_pos_bound; exact P).
    destruct (IH (n mod pow10 k)%Z (acc * 10 + n / pow10 k)%Z M) as [I1 I2]. rewrite I1, I2. split; [|reflexivity].
    f_equal. pose proof (Z.div_mod n (pow10 k)). nia.
Qed.

Lemma fixw_digits k : forall n, (0 <= n < pow10 k)%Z -> all_chars is_digit (fixw k n) = true.
Proof.
  induction k as [|k IH]; intros n H; cbn [fixw all_chars pow10] in *; [reflexivity|].
  pose proof (pow10_pos k) as P.
  assert (D : (0 <= n / pow10 k <= 9)%Z).
  { split; [apply Z.div_pos; lia|]. apply Z.lt_succ_r. apply Z.div_lt_upper_bound; lia. }
  destruct (digit_char_ok _ D) as [D1 _]. rewrite D1. apply IH. apply Z.mod_pos_bound. exact P.
Qed.

Lemma find_k_spec den : forall fuel k0 k, find_k fuel k0 den = Some k -> (k0 <= k)%nat /\ (pow10 k mod den = 0)%Z.
Proof.
  induction fuel as [|f IH]; intros k0 k H; cbn [find_k] in H; [discriminate|].
  destruct (pow10 k0 mod den =? 0)%Z eqn:E.
  - inversion H; subst. split; [lia|apply Z.eqb_eq; exact E].
  - destruct (IH _ _ H) as [A B]. split; [lia|exact B].
Qed.

Lemma num_body_int neg n : (0 <= n)%Z ->
  num_body neg (pn n) = Some (JInt (if neg then (- n)%Z else n)).
Proof.
  intro H. unfold num_body. rewrite (span_all is_digit (pn n) (pn_digits _)).
  destruct (pn_nonempty n) as [c [t [E _]]]. destruct (pn_parse n H) as [P1 P2].
  rewrite E at 1. rewrite (pn_no_leading_zero n c t E). rewrite P1, P2. reflexivity.
Qed.

(* the token of an integer *)
Lemma num_of_print_int z : num_of_token (print_int z) = Some (JInt z).
Proof.
  unfold print_int. destruct (z <? 0)%Z eqn:S.
  - apply Z.ltb_lt in S. unfold num_of_token. change (Ascii.eqb "-" "-") with true. cbv iota.
    rewrite num_body_int by lia. f_equal. f_equal. lia.
  - apply Z.ltb_ge in S. unfold num_of_token.
    destruct (pn_nonempty z) as [c [t [E Dc]]]. rewrite E at 1. rewrite (digit_not_minus c Dc).
    rewrite num_body_int by lia. reflexivity.
Qed.

Lemma print_int_atoms z : all_chars atom_char (print_int z) = true /\ exists c t, print_int z = String c t.
Proof.
  unfold print_int. destruct (z <? 0)%Z.
  - split; [|eexists; eexists; reflexivity]. cbn [all_chars].
    rewrite (all_chars_weaken _ _ _ digit_atom (pn_digits _)). reflexivity.
  - split; [exact (all_chars_weaken _ _ _ digit_atom (pn_digits _))|].
    destruct (pn_nonempty z) as [c [t [E _]]]. exists c, t. exact E.
Qed.

Lemma q_eqb_eq a b : q_eqb a b = true -> a = b.
Proof.
  unfold q_eqb. intro H. apply andb_prop in H as [H1 H2]. apply Z.eqb_eq in H1. apply Pos.eqb_eq in H2.
  destruct a, b; cbn in *; subst; reflexivity.
Qed.

Section Float.
  Variable q : Q.
  Hypothesis OK : float_ok q = true.

  Lemma float_parts : exists k,
    frac_digits q = Some k /\ (1 <= k)%nat /\ (pow10 k mod Zpos (Qden q) = 0)%Z /\ Qred q = q.
  Proof.
    unfold float_ok in OK. apply andb_prop in OK as [C F]. apply q_eqb_eq in C.
    destruct (frac_digits q) as [k|] eqn:E; [|discriminate]. exists k.
    destruct (find_k_spec _ _ _ _ E) as [A B]. auto.
  Qed.

  (* the token of a float *)
  Lemma num_of_print_float : num_of_token (print_float q) = Some (JFloat q).
  Proof.
    destruct float_parts as [k [E [K1 [Dv Cn]]]]. unfold print_float. rewrite E.
    set (den := Zpos (Qden q)) in *. set (p := pow10 k). set (m := (Z.abs (Qnum q) * (p / den))%Z).
    pose proof (pow10_pos k) as Pp. fold p in Pp.
    assert (Dd : (p = den * (p / den))%Z) by (apply Z.div_exact; [unfold den; lia|exact Dv]).
    assert (Qd : (0 <= p / den)%Z) by (apply Z.div_pos; unfold den; lia).
    assert (M0 : (0 <= m)%Z) by (unfold m; apply Z.mul_nonneg_nonneg; [apply Z.abs_nonneg|exact Qd]).
    assert (I0 : (0 <= m / p)%Z) by (apply Z.div_pos; lia).
    assert (Fm : (0 <= m mod p < p)%Z) by (apply Z.mod_pos_bound; exact Pp).
    destruct (dval_fixw k (m mod p)%Z 0%Z Fm) as [Dv1 Dv2].
    destruct (pn_nonempty (m / p)) as [c [t [Ec Dc]]]. destruct (pn_parse (m / p) I0) as [P1 P2].
    assert (Fne : exists c' t', fixw k (m mod p) = String c' t').
    { destruct k; [lia|]. cbn [fixw]. eexists; eexists; reflexivity. }
    destruct Fne as [c' [t' Ef]].
    assert (Sp : span is_digit (pn (m / p) ++ String "." (fixw k (m mod p))) = (pn (m / p), String "." (fixw k (m mod p))))
      by (apply span_app; [apply pn_digits|reflexivity]).
    assert (Val : forall neg : bool, neg = (Qnum q <? 0)%Z ->
      Qred (Qmake ((if neg then Z.opp else fun z => z) (m / p * p + (0 * p + m mod p))%Z) (Z.to_pos p)) = q).
    { intros neg En. transitivity (Qred q); [|exact Cn]. apply Qred_complete. unfold Qeq. cbn [Qnum Qden].
      rewrite Z2Pos.id by exact Pp. fold den.
      assert (Em : (m / p * p + (0 * p + m mod p) = m)%Z) by (pose proof (Z.div_mod m p); lia).
      rewrite Em. unfold m. destruct (Qnum q <? 0)%Z eqn:Sg; subst neg.
      - apply Z.ltb_lt in Sg. rewrite (Z.abs_neq (Qnum q)) by lia. rewrite Dd at 2. ring.
      - apply Z.ltb_ge in Sg. rewrite (Z.abs_eq (Qnum q)) by lia. rewrite Dd at 2. ring. }
    assert (Body : forall neg : bool, neg = (Qnum q <? 0)%Z ->
      num_body neg (pn (m / p) ++ String "." (fixw k (m mod p))) = Some (JFloat q)).
    { intros neg En. unfold num_body. rewrite Sp. rewrite Ec at 1. rewrite (pn_no_leading_zero _ c t Ec).
      rewrite P1, P2.
      change (Ascii.eqb "." ".") with true. cbv iota. rewrite Ef at 1. rewrite Dv1, Dv2.
      f_equal. f_equal. destruct neg; exact (Val _ En). }
    destruct (Qnum q <? 0)%Z eqn:Sg.
    - unfold num_of_token. change (Ascii.eqb "-" "-") with true. cbv iota. exact (Body true eq_refl).
    - unfold num_of_token. rewrite Ec at 1. cbn [append]. rewrite (digit_not_minus c Dc).
      exact (Body false eq_refl).
  Qed.

  Lemma print_float_atoms : all_chars atom_char (print_float q) = true /\ exists c t, print_float q = String c t.
  Proof.
    destruct float_parts as [k [E [K1 [Dv Cn]]]]. unfold print_float. rewrite E.
    set (p := pow10 k). set (m := (Z.abs (Qnum q) * (p / Zpos (Qden q)))%Z).
    assert (Fm : (0 <= m mod p < p)%Z) by (apply Z.mod_pos_bound; apply pow10_pos).
    assert (B : all_chars atom_char (pn (m / p) ++ String "." (fixw k (m mod p))) = true).
    { rewrite all_chars_app. rewrite (all_chars_weaken _ _ _ digit_atom (pn_digits _)). cbn [all_chars andb].
      change (atom_char ".") with true. cbn [andb].
      exact (all_chars_weaken _ _ _ digit_atom (fixw_digits k _ Fm)). }
    destruct (Qnum q <? 0)%Z.
    - split; [cbn [all_chars]; rewrite B; reflexivity|eexists; eexists; reflexivity].
    - split; [exact B|]. destruct (pn_nonempty (m / p)) as [c [t [Ec _]]]. rewrite Ec. eexists; eexists; reflexivity.
  Qed.
End Float.

(* ------------------------------------------------------------------ named loops *)

Fixpoint lsum (l : list jv) : nat := match l with [] => O | x :: r => S (jsize x + lsum r) end.
Fixpoint dsum (d : list (string * jv)) : nat := match d with [] => O | (_, x) :: r => S (jsize x + dsum r) end.

Lemma jsize_list l : jsize (JList l) = S (lsum l).
Proof. reflexivity. Qed.

Lemma jsize_dict d : jsize (JDict d) = S (dsum d).
Proof. reflexivity. Qed.

Lemma print_list x r : print (JList (x :: r)) = String "[" (print x ++ print_elems r).
Proof. reflexivity. Qed.

Lemma print_dict k x r : print (JDict ((k, x) :: r)) = String "{" (quote k ++ String ":" (print x ++ print_members r)).
Proof. reflexivity. Qed.

Definition dict_ok (d : list (string * jv)) : bool := forallb (fun kv => str_ok (fst kv) && printable (snd kv)) d.

Lemma printable_list l : printable (JList l) = forallb printable l.
Proof. reflexivity. Qed.

Lemma printable_dict d : printable (JDict d) = dict_ok d.
Proof.
  cbn [printable]. unfold dict_ok. induction d as [|[k x] r IH]; [reflexivity|]. cbn [forallb fst snd]. rewrite <- IH. reflexivity.
Qed.

(* ------------------------------------------------------------------ the parser on printed text *)

Lemma parse_string_ok k X : str_ok k = true -> parse_string (k ++ String """" X) = Some (k, X).
Proof.
  intro H. unfold parse_string. rewrite (span_app str_char k (String """" X) H eq_refl). reflexivity.
Qed.

Lemma quote_app k X : quote k ++ X = String """" (k ++ String """" X).
Proof. unfold quote. cbn [append]. rewrite sapp_assoc. reflexivity. Qed.

(* an unquoted token followed by something that is not a token character *)
Lemma parse_atom f tok v rest :
  all_chars atom_char tok = true -> (exists c t, tok = String c t) -> atom_of_token tok = Some v ->
  stops atom_char rest = true -> parse_value (S f) (tok ++ rest) = Some (v, rest).
Proof.
  intros A [c [t E]] T S. pose proof (span_app atom_char tok rest A S) as Sp. subst tok.
  cbn [all_chars] in A. apply andb_prop in A as [Ac _].
  destruct (atom_char_head c Ac) as [H1 [H2 [H3 [H4 _]]]].
  cbn [append] in *. cbn [parse_value]. rewrite (skip_ws_head c _ H1). rewrite H2, H3, H4. rewrite Sp, T. reflexivity.
Qed.

(* the first character of a printed value *)
Lemma print_head v : printable v = true ->
  exists c t, print v = String c t /\ is_ws c = false /\ Ascii.eqb c "]" = false /\ Ascii.eqb c "}" = false.
Proof.
  intro P. destruct v as [z|q| |[|]|s|[|]| |[|x l]|[|[k x] d]];
    try (eexists; eexists; split; [reflexivity|repeat split; reflexivity]).
  - destruct (print_int_atoms z) as [A [c [t E]]]. exists c, t. cbn [print]. rewrite E in *.
    cbn [all_chars] in A. apply andb_prop in A as [A _]. destruct (atom_char_head c A) as [H1 [_ [_ [_ [H5 H6]]]]]. auto.
  - destruct (print_float_atoms q P) as [A [c [t E]]]. exists c, t. cbn [print]. rewrite E in *.
    cbn [all_chars] in A. apply andb_prop in A as [A _]. destruct (atom_char_head c A) as [H1 [_ [_ [_ [H5 H6]]]]]. auto.
Qed.

Lemma stops_elems l rest : stops atom_char (print_elems l ++ rest) = true.
Proof. destruct l; reflexivity. Qed.

Lemma stops_members d rest : stops atom_char (print_members d ++ rest) = true.
Proof. destruct d as [|[k x] d]; reflexivity. Qed.

Lemma roundtrip_fuel : forall fuel,
  (forall v rest, printable v = true -> (jsize v <= fuel)%nat -> stops atom_char rest = true ->
     parse_value fuel (print v ++ rest) = Some (v, rest))
  /\ (forall x l rest, printable x = true -> forallb printable l = true -> (S (jsize x + lsum l) <= fuel)%nat ->
        parse_elems fuel (print x ++ print_elems l ++ rest) = Some (x :: l, rest))
  /\ (forall k x d rest, str_ok k = true -> printable x = true -> dict_ok d = true ->
        (S (jsize x + dsum d) <= fuel)%nat ->
        parse_members fuel (quote k ++ String ":" (print x ++ print_members d ++ rest)) = Some ((k, x) :: d, rest)).
Proof.
  induction fuel as [|f [IH1 [IH2 IH3]]].
  - split; [|split]; intros; try lia. destruct v; cbn [jsize] in *; lia.
  - split; [|split].
    + (* values *)
      intros v rest P Sz St. destruct v as [z|q| |[|]|s|[|]| |[|x l]|[|[k x] d]].
      * destruct (print_int_atoms z) as [A N]. apply (parse_atom f _ _ rest A N); [|exact St].
        unfold atom_of_token. cbn [print]. rewrite num_of_print_int. reflexivity.
      * destruct (print_float_atoms q P) as [A N]. apply (parse_atom f _ _ rest A N); [|exact St].
        unfold atom_of_token. cbn [print]. rewrite (num_of_print_float q P). reflexivity.
      * apply (parse_atom f "NaN" JNan rest); [reflexivity|eexists; eexists; reflexivity|reflexivity|exact St].
      * apply (parse_atom f "-Infinity" (JInf true) rest); [reflexivity|eexists; eexists; reflexivity|reflexivity|exact St].
      * apply (parse_atom f "Infinity" (JInf false) rest); [reflexivity|eexists; eexists; reflexivity|reflexivity|exact St].
      * cbn [print]. rewrite quote_app. cbn [parse_value]. rewrite skip_ws_head by reflexivity.
        change (Ascii.eqb """" "[") with false. change (Ascii.eqb """" "{") with false.
        change (Ascii.eqb """" """") with true. cbv iota.
        cbn [printable] in P. rewrite (parse_string_ok s rest P). reflexivity.
      * apply (parse_atom f "true" (JBool true) rest); [reflexivity|eexists; eexists; reflexivity|reflexivity|exact St].
      * apply (parse_atom f "false" (JBool false) rest); [reflexivity|eexists; eexists; reflexivity|reflexivity|exact St].
      * apply (parse_atom f "null" JNull rest); [reflexivity|eexists; eexists; reflexivity|reflexivity|exact St].
      * reflexivity.
      * rewrite print_list. rewrite printable_list in P. cbn [forallb] in P. apply andb_prop in P as [Px Pl].
        rewrite jsize_list in Sz. cbn [lsum] in Sz.
        cbn [append]. rewrite sapp_assoc. cbn [parse_value]. rewrite skip_ws_head by reflexivity.
        change (Ascii.eqb "[" "[") with true. cbv iota.
        destruct (print_head x Px) as [c [t [E [H1 [H2 _]]]]].
        rewrite E at 1. cbn [append]. rewrite (skip_ws_head c _ H1), H2.
        rewrite (IH2 x l rest Px Pl) by lia. reflexivity.
      * reflexivity.
      * rewrite print_dict. rewrite printable_dict in P. cbn [dict_ok forallb fst snd] in P.
        apply andb_prop in P as [Pkx Pd]. apply andb_prop in Pkx as [Pk Px].
        rewrite jsize_dict in Sz. cbn [dsum] in Sz.
        cbn [append]. rewrite sapp_assoc. cbn [append]. rewrite sapp_assoc.
        cbn [parse_value]. rewrite skip_ws_head by reflexivity.
        change (Ascii.eqb "{" "[") with false. change (Ascii.eqb "{" "{") with true. cbv iota.
        rewrite quote_app at 1. rewrite skip_ws_head by reflexivity.
        change (Ascii.eqb """" "}") with false. cbv iota.
        rewrite (IH3 k x d rest Pk Px Pd) by lia. reflexivity.
    + (* elements *)
      intros x l rest Px Pl Sz. cbn [parse_elems].
      rewrite (IH1 x (print_elems l ++ rest) Px) by (try lia; apply stops_elems).
      destruct l as [|y l'].
      * cbn [print_elems append]. rewrite skip_ws_head by reflexivity. reflexivity.
      * cbn [print_elems append]. rewrite skip_ws_head by reflexivity.
        change (Ascii.eqb "," ",") with true. cbv iota. rewrite sapp_assoc.
        cbn [forallb] in Pl. apply andb_prop in Pl as [Py Pl']. cbn [lsum] in Sz.
        rewrite (IH2 y l' rest Py Pl') by lia. reflexivity.
    + (* members *)
      intros k x d rest Pk Px Pd Sz. cbn [parse_members]. rewrite quote_app. rewrite skip_ws_head by reflexivity.
      change (Ascii.eqb """" """") with true. cbv iota. rewrite (parse_string_ok k _ Pk).
      rewrite skip_ws_head by reflexivity. change (Ascii.eqb ":" ":") with true. cbv iota.
      rewrite (IH1 x (print_members d ++ rest) Px) by (try lia; apply stops_members).
      destruct d as [|[k' y] d'].
      * cbn [print_members append]. rewrite skip_ws_head by reflexivity. reflexivity.
      * cbn [print_members append]. rewrite skip_ws_head by reflexivity.
        change (Ascii.eqb "," ",") with true. cbv iota.
        rewrite sapp_assoc. cbn [append]. rewrite sapp_assoc.
        cbn [dict_ok forallb fst snd] in Pd. apply andb_prop in Pd as [Pky Pd']. apply andb_prop in Pky as [Pk' Py].
        cbn [dsum] in Sz. rewrite (IH3 k' y d' rest Pk' Py Pd') by lia. reflexivity.
Qed.

(* ------------------------------------------------------------------ the text is long enough *)

Lemma print_nonempty v : printable v = true -> (1 <= String.length (print v))%nat.
Proof. intro P. destruct (print_head v P) as [c [t [E _]]]. rewrite E. cbn. lia. Qed.

Lemma jsize_le_length : forall v, printable v = true -> (jsize v <= String.length (print v))%nat.
Proof.
  intro v. induction v as [v A|l IH|d IH] using jv_ind2; intro P.
  - destruct v; try contradiction; try (cbn [jsize]; apply print_nonempty; exact P).
  - destruct l as [|x r]; [cbn; lia|]. rewrite print_list, jsize_list. rewrite printable_list in P.
    cbn [String.length]. rewrite slength_app. apply le_n_S.
    revert x IH P. induction r as [|y r IHr]; intros x IH P.
    + inversion IH as [|? ? Hx _]; subst. cbn [forallb] in P. apply andb_prop in P as [Px _].
      specialize (Hx Px). cbn. lia.
    + inversion IH as [|? ? Hx Hr]; subst. cbn [forallb] in P. apply andb_prop in P as [Px Pr].
      specialize (Hx Px). specialize (IHr y Hr Pr). cbn [lsum print_elems String.length] in *.
      rewrite slength_app in *. lia.
  - destruct d as [|[k x] r]; [cbn; lia|]. rewrite print_dict, jsize_dict. rewrite printable_dict in P.
    cbn [String.length]. rewrite slength_app. cbn [String.length]. rewrite slength_app. apply le_n_S.
    revert k x IH P. induction r as [|[k' y] r IHr]; intros k x IH P.
    + inversion IH as [|? ? Hx _]; subst. cbn [dict_ok forallb fst snd] in P. apply andb_prop in P as [Px _].
      apply andb_prop in Px as [_ Px]. specialize (Hx Px). cbn in *. lia.
    + inversion IH as [|? ? Hx Hr]; subst. cbn [dict_ok forallb fst snd] in P. apply andb_prop in P as [Px Pr].
      apply andb_prop in Px as [_ Px]. specialize (Hx Px). specialize (IHr k' y Hr Pr).
      cbn [dsum print_members String.length snd] in *. rewrite !slength_app in *. cbn [String.length] in *.
      rewrite !slength_app in *. lia.
Qed.

(* JSON ROUND TRIP: the text printed for a value of the subset parses back to that value *)
Theorem parse_print : forall v, printable v = true -> parse (print v) = Some v.
Proof.
  intros v P. unfold parse. rewrite <- (sapp_nil_r (print v)) at 2.
  destruct (roundtrip_fuel (S (String.length (print v)))) as [R _].
  rewrite (R v "" P); [reflexivity| |reflexivity].
  pose proof (jsize_le_length v P). lia.
Qed.
