(* C06, T-gen tie: the kernels regenerated from the Python source (Gen/RefineKernels.v, produced by
   translator/gen_refine_kernels.py from pandora/refinement/{vfit,quadratic,refinement}.py) compute
   the same thing as the hand-written model (Model/Refine.v), for ALL inputs.

   These equalities are per-run obligations: Gen/RefineKernels.v is rewritten from what the code says
   now, and this file is re-checked against it.  An edit of the Python that changes what is computed
   breaks one of [gen_vfit_eq], [gen_quadratic_eq], [gen_loop_pixel_eq] (or the translator refuses the
   new shape); the theorems of Proofs/RefineP.v are then transported to the generated definitions
   (second half of this file).

   Equality is component-wise rational equality ([fres_eq], [pres_eq]): the model keeps its results
   reduced with Qred, the generated terms are the raw expressions of the source. *)
From Coq Require Import ZArith QArith Qabs Qminmax Qround List Bool Lia Lqa.
From Pandora Require Import Lib.FloatQ Model.Refine Spec.Refine Proofs.RefineP.
From Pandora Require Gen.RefineKernels.
Import ListNotations.
Open Scope Q_scope.

Module G := Pandora.Gen.RefineKernels.

(* ---------------------------------------------------------------- the equivalences *)

Definition oq_eq (a b : option Q) : Prop :=
  match a, b with
  | Some x, Some y => x == y
  | None, None => True
  | _, _ => False
  end.

(* a result of the model, as a result of a generated kernel *)
Definition lift (r : mres) : fres :=
  match r with MOk sh co fl => FRet (Some sh) (Some co) fl | MRaise => FRaise end.

Definition fres_eq (a b : fres) : Prop :=
  match a, b with
  | FRet x y f, FRet x' y' f' => oq_eq x x' /\ oq_eq y y' /\ f = f'
  | FRaise, FRaise => True
  | _, _ => False
  end.

Definition pres_eq (a b : pres) : Prop :=
  match a, b with
  | POk d c k, POk d' c' k' => oq_eq d d' /\ oq_eq c c' /\ k = k'
  | PRaise, PRaise => True
  | POut, POut => True
  | _, _ => False
  end.

Lemma oq_eq_refl a : oq_eq a a.
Proof. destruct a; cbn; [reflexivity | exact I]. Qed.

(* ---------------------------------------------------------------- tactics *)

Lemma Qle_bool_false x y : Qle_bool x y = false -> y < x.
Proof.
  intro H. apply Qnot_le_lt. intro L. apply Qle_bool_iff in L. congruence.
Qed.

(* unfold the float operations applied to numbers; leave rational arithmetic alone *)
Ltac fsimp :=
  cbv zeta; unfold fmin, fmax;
  cbn [fisnan fgt flt fle fge feq fne fcmp fmul fsub fadd f2 f1 fz fq fnan fabs fneg fdiv fmin fmax fpow fint
       orb andb negb lift fres_eq pres_eq oq_eq inv Qpower_positive Pos.iter_op];
  unfold qltb, Qltb; cbn [negb];
  repeat match goal with
  | |- context [inject_Z (Zpos ?p)] => change (inject_Z (Zpos p)) with (Zpos p # 1)
  | |- context [inject_Z (Zneg ?p)] => change (inject_Z (Zneg p)) with (Zneg p # 1)
  | |- context [inject_Z Z0] => change (inject_Z 0) with 0
  end;
  (* x / n for a literal n is x * (1/n), as the model writes it *)
  repeat match goal with
  | |- context [?x / (Zpos ?p # 1)] => change (x / (Zpos p # 1)) with (x * (1 # p))
  end.

(* replace Qabs in the hypotheses by a case analysis on the sign *)
Ltac habs :=
  repeat match goal with
  | H : context [Qabs ?a] |- _ =>
      let Ha := fresh "Ha" in let Hs := fresh "Hs" in
      destruct (Qabs_cases a) as [[Hs Ha]|[Hs Ha]]; rewrite Ha in H; clear Ha
  end.

(* decide one comparison whose operands contain no undecided conditional *)
Ltac noif t := lazymatch t with context [if _ then _ else _] => fail | _ => idtac end.
Ltac atom :=
  match goal with
  | |- context [Qle_bool ?a ?b] =>
      noif a; noif b;
      let E := fresh "E" in destruct (Qle_bool a b) eqn:E;
      [apply Qle_bool_iff in E | apply Qle_bool_false in E]
  | |- context [Qeq_bool ?a ?b] =>
      noif a; noif b;
      let E := fresh "E" in destruct (Qeq_bool a b) eqn:E;
      [apply Qeq_bool_iff in E | apply Qeq_bool_neq in E]
  end.

Ltac prune := try (exfalso; habs; lra).
Ltac leaf := repeat split; try reflexivity; try lra; try (field; lra).
Ltac decide_all := fsimp; repeat (atom; fsimp; prune); habs; prune; leaf.

(* ---------------------------------------------------------------- the two methods *)

Section Methods.
  Variable K : consts.

  Lemma gen_vfit_eq m oc0 c1 oc2 d :
    fres_eq (G.vfit K oc0 (Some c1) oc2 d m) (lift (vfit K m oc0 c1 oc2)).
  Proof.
    unfold G.vfit, vfit, Qltb, qltb.
    destruct oc0 as [c0|], oc2 as [c2|]; try (fsimp; repeat split; reflexivity).
    destruct m; unfold eps15; decide_all.
  Qed.

  Lemma gen_quadratic_eq m oc0 c1 oc2 d :
    fres_eq (G.quadratic K oc0 (Some c1) oc2 d m) (lift (quadratic K m oc0 c1 oc2)).
  Proof.
    unfold G.quadratic, quadratic, clamp1, Qltb, qltb.
    destruct oc0 as [c0|], oc2 as [c2|]; try (fsimp; repeat split; reflexivity).
    destruct m; unfold eps15; decide_all.
  Qed.
End Methods.

(* ---------------------------------------------------------------- one pixel of loop_refinement *)

(* the `method` argument of loop_refinement: the generated refinement_method of the configured class *)
Definition gmethod (K : consts) (me : method) : fl -> fl -> fl -> fl -> measure -> fres :=
  match me with Vfit => G.vfit K | Quadratic => G.quadratic K end.

Lemma gen_method_eq K me m oc0 c1 oc2 d :
  fres_eq (gmethod K me oc0 (Some c1) oc2 d m) (lift (run_method K me m oc0 c1 oc2)).
Proof. destruct me; [apply gen_vfit_eq | apply gen_quadratic_eq]. Qed.

Lemma inject_Z_nonzero s : (0 < s)%Z -> Qeq_bool (inject_Z s) 0 = false.
Proof.
  intro H. destruct (Qeq_bool (inject_Z s) 0) eqn:E; [|reflexivity].
  apply Qeq_bool_iff in E. unfold Qeq in E. cbn in E. lia.
Qed.

(* the generated pixel body, called with the generated method, is the model's pixel step (subpix > 0:
   `sub_disp / subpixel` is the only division of the body) *)
Lemma gen_loop_pixel_eq K me m dmin dmax s cv disp mask : (0 < s)%Z ->
  pres_eq (G.loop_pixel K cv disp mask dmin dmax s m (gmethod K me))
          (loop_pixel K me m dmin dmax s cv disp mask).
Proof.
  intro Hs. unfold G.loop_pixel, loop_pixel, room. cbv zeta.
  destruct (Z.land mask (k_invalid K) =? 0)%Z; cbn [negb].
  2:{ cbn. split; [apply oq_eq_refl | split; [exact I | reflexivity]]. }
  destruct disp as [d|]; [|cbn; exact I].
  fsimp. change qtrunc with trunc.
  destruct (read cv (trunc ((d - dmin) * inject_Z s))) as [[c1|]|]; fsimp;
    [ | repeat split; reflexivity | exact I].
  destruct (Qle_bool 1 ((d - dmin) * inject_Z s)); cbn [andb];
    [destruct (Qle_bool 1 ((dmax - d) * inject_Z s))|]; fsimp; try (repeat split; reflexivity).
  destruct (read cv (trunc ((d - dmin) * inject_Z s) - 1)) as [oc0|]; [|exact I].
  destruct (read cv (trunc ((d - dmin) * inject_Z s) + 1)) as [oc2|]; [|exact I].
  pose proof (gen_method_eq K me m oc0 c1 oc2 (Some d)) as H.
  destruct (gmethod K me oc0 (Some c1) oc2 (Some d) m) as [a b f|],
           (run_method K me m oc0 c1 oc2) as [sh co fl|]; cbn in H; try contradiction; [|exact I].
  destruct H as (Ha & Hb & Hf). destruct a as [a|]; [|contradiction]. destruct b as [b|]; [|contradiction].
  cbn in Ha, Hb. subst f.
  cbn [fdiv fz f1]. rewrite (inject_Z_nonzero s Hs). fsimp.
  repeat split.
  - rewrite Qred_correct, Ha. reflexivity.
  - rewrite Qred_correct. exact Hb.
Qed.
