(* C06, T-gen tie: the kernels regenerated from the Python source (Gen/RefineKernels.v, produced by
   translator/gen_refine_kernels.py from pandora/refinement/{vfit,quadratic,refinement}.py) compute
   the same thing as the hand-written model (Model/Refine.v), for ALL inputs.

   These equalities are per-run obligations: Gen/RefineKernels.v is rewritten from what the code says
   now, and this file is re-checked against it.  An edit of the Python that changes what is computed
   breaks one of [gen_vfit_eq], [gen_quadratic_eq], [gen_loop_pixel_eq] (or the translator refuses the
   new shape); the theorems of Proofs/RefineP.v are then transported to the generated definitions
   (second half of this file).

   Equality is component-wise rational equality ([fres_eq], [pres_eq]): the model keeps its results
   reduced with Qred, the generated terms are the raw expressions of the source. *)
From Coq Require Import ZArith QArith Qabs Qminmax Qround List Bool Lia Lqa.
From Pandora Require Import Lib.FloatQ Model.Refine Model.RefineGen Spec.Refine Proofs.RefineP.
From Pandora Require Gen.RefineKernels.
Import ListNotations.
Open Scope Q_scope.

(* ---------------------------------------------------------------- the equivalences *)

Definition oq_eq (a b : option Q) : Prop :=
  match a, b with
  | Some x, Some y => x == y
  | None, None => True
  | _, _ => False
  end.

(* a result of the model, as a result of a generated kernel *)
Definition lift (r : mres) : fres :=
  match r with MOk sh co fl => FRet (Some sh) (Some co) fl | MRaise => FRaise end.

Definition fres_eq (a b : fres) : Prop :=
  match a, b with
  | FRet x y f, FRet x' y' f' => oq_eq x x' /\ oq_eq y y' /\ f = f'
  | FRaise, FRaise => True
  | _, _ => False
  end.

Definition pres_eq (a b : pres) : Prop :=
  match a, b with
  | POk d c k, POk d' c' k' => oq_eq d d' /\ oq_eq c c' /\ k = k'
  | PRaise, PRaise => True
  | POut, POut => True
  | _, _ => False
  end.

Lemma oq_eq_refl a : oq_eq a a.
Proof. destruct a; cbn; [reflexivity | exact I]. Qed.

(* ---------------------------------------------------------------- tactics *)

Lemma Qle_bool_false x y : Qle_bool x y = false -> y < x.
Proof.
  intro H. apply Qnot_le_lt. intro L. apply Qle_bool_iff in L. congruence.
Qed.

(* unfold the float operations applied to numbers; leave rational arithmetic alone *)
Ltac fsimp :=
  cbv zeta; unfold fmin, fmax;
  cbn [fisnan fgt flt fle fge feq fne fcmp fmul fsub fadd f2 f1 fz fq fnan fabs fneg fdiv fmin fmax fpow fint
       orb andb negb lift fres_eq pres_eq oq_eq inv Qpower_positive Pos.iter_op];
  unfold qltb, Qltb; cbn [negb];
  repeat match goal with
  | |- context [inject_Z (Zpos ?p)] => change (inject_Z (Zpos p)) with (Zpos p # 1)
  | |- context [inject_Z (Zneg ?p)] => change (inject_Z (Zneg p)) with (Zneg p # 1)
  | |- context [inject_Z Z0] => change (inject_Z 0) with 0
  end;
  (* x / n for a literal n is x * (1/n), as the model writes it *)
  repeat match goal with
  | |- context [?x / (Zpos ?p # 1)] => change (x / (Zpos p # 1)) with (x * (1 # p))
  end.

(* replace Qabs in the hypotheses by a case analysis on the sign *)
Ltac habs :=
  repeat match goal with
  | H : context [Qabs ?a] |- _ =>
      let Ha := fresh "Ha" in let Hs := fresh "Hs" in
      destruct (Qabs_cases a) as [[Hs Ha]|[Hs Ha]]; rewrite Ha in H; clear Ha
  end.

(* decide one comparison whose operands contain no undecided conditional *)
Ltac noif t := lazymatch t with context [if _ then _ else _] => fail | _ => idtac end.
Ltac atom :=
  match goal with
  | |- context [Qle_bool ?a ?b] =>
      noif a; noif b;
      let E := fresh "E" in destruct (Qle_bool a b) eqn:E;
      [apply Qle_bool_iff in E | apply Qle_bool_false in E]
  | |- context [Qeq_bool ?a ?b] =>
      noif a; noif b;
      let E := fresh "E" in destruct (Qeq_bool a b) eqn:E;
      [apply Qeq_bool_iff in E | apply Qeq_bool_neq in E]
  end.

Ltac prune := try (exfalso; habs; lra).
Ltac leaf := repeat split; try reflexivity; try lra; try (field; lra).
Ltac decide_all := fsimp; repeat (atom; fsimp; prune); habs; prune; leaf.

(* ---------------------------------------------------------------- the two methods *)

Section Methods.
  Variable K : consts.

  Lemma gen_vfit_eq m oc0 c1 oc2 d :
    fres_eq (G.vfit K oc0 (Some c1) oc2 d m) (lift (vfit K m oc0 c1 oc2)).
  Proof.
    unfold G.vfit, vfit, Qltb, qltb.
    destruct oc0 as [c0|], oc2 as [c2|]; try (fsimp; repeat split; reflexivity).
    destruct m; unfold eps15; decide_all.
  Qed.

  Lemma gen_quadratic_eq m oc0 c1 oc2 d :
    fres_eq (G.quadratic K oc0 (Some c1) oc2 d m) (lift (quadratic K m oc0 c1 oc2)).
  Proof.
    unfold G.quadratic, quadratic, clamp1, Qltb, qltb.
    destruct oc0 as [c0|], oc2 as [c2|]; try (fsimp; repeat split; reflexivity).
    destruct m; unfold eps15; decide_all.
  Qed.
End Methods.

(* ---------------------------------------------------------------- one pixel of loop_refinement *)

Lemma gen_method_eq K me m oc0 c1 oc2 d :
  fres_eq (gmethod K me oc0 (Some c1) oc2 d m) (lift (run_method K me m oc0 c1 oc2)).
Proof. destruct me; [apply gen_vfit_eq | apply gen_quadratic_eq]. Qed.

Lemma inject_Z_nonzero s : (0 < s)%Z -> Qeq_bool (inject_Z s) 0 = false.
Proof.
  intro H. destruct (Qeq_bool (inject_Z s) 0) eqn:E; [|reflexivity].
  apply Qeq_bool_iff in E. unfold Qeq in E. cbn in E. lia.
Qed.

(* the generated pixel body, called with the generated method, is the model's pixel step (subpix > 0:
   `sub_disp / subpixel` is the only division of the body) *)
Lemma gen_loop_pixel_eq K me m dmin dmax s cv disp mask : (0 < s)%Z ->
  pres_eq (G.loop_pixel K cv disp mask dmin dmax s m (gmethod K me))
          (loop_pixel K me m dmin dmax s cv disp mask).
Proof.
  intro Hs. unfold G.loop_pixel, loop_pixel, room. cbv zeta.
  destruct (Z.land mask (k_invalid K) =? 0)%Z; cbn [negb].
  2:{ cbn. split; [apply oq_eq_refl | split; [exact I | reflexivity]]. }
  destruct disp as [d|]; [|cbn; exact I].
  fsimp. change qtrunc with trunc.
  destruct (read cv (trunc ((d - dmin) * inject_Z s))) as [[c1|]|]; fsimp;
    [ | repeat split; reflexivity | exact I].
  destruct (Qle_bool 1 ((d - dmin) * inject_Z s)); cbn [andb];
    [destruct (Qle_bool 1 ((dmax - d) * inject_Z s))|]; fsimp; try (repeat split; reflexivity).
  destruct (read cv (trunc ((d - dmin) * inject_Z s) - 1)) as [oc0|]; [|exact I].
  destruct (read cv (trunc ((d - dmin) * inject_Z s) + 1)) as [oc2|]; [|exact I].
  pose proof (gen_method_eq K me m oc0 c1 oc2 (Some d)) as H.
  destruct (gmethod K me oc0 (Some c1) oc2 (Some d) m) as [a b f|],
           (run_method K me m oc0 c1 oc2) as [sh co fl|]; cbn in H; try contradiction; [|exact I].
  destruct H as (Ha & Hb & Hf). destruct a as [a|]; [|contradiction]. destruct b as [b|]; [|contradiction].
  cbn in Ha, Hb. subst f.
  cbn [fdiv fz f1]. rewrite (inject_Z_nonzero s Hs). fsimp.
  repeat split.
  - rewrite Qred_correct, Ha. reflexivity.
  - rewrite Qred_correct. exact Hb.
Qed.

(* ================================================================ transport of the theorems
   From here on nothing looks inside the generated definitions: everything follows from the three
   equivalences above and from the theorems of Proofs/RefineP.v about the model. *)

(* reading an equivalence from the generated side *)
Lemma fres_eq_ret g r a b f : fres_eq g (lift r) -> g = FRet a b f ->
  exists sh co sh' co', r = MOk sh co f /\ a = Some sh' /\ b = Some co' /\ sh' == sh /\ co' == co.
Proof.
  intros H E. subst g. destruct r as [sh co fl|]; cbn in H; [|contradiction].
  destruct H as (Ha & Hb & Hf). destruct a as [a|]; [|contradiction]. destruct b as [b|]; [|contradiction].
  cbn in Ha, Hb. subst fl. exists sh, co, a, b. repeat split; assumption.
Qed.

(* ... and from the model's side *)
Lemma fres_eq_ok g sh co fl : fres_eq g (lift (MOk sh co fl)) ->
  exists sh' co', g = FRet (Some sh') (Some co') fl /\ sh' == sh /\ co' == co.
Proof.
  intro H. destruct g as [a b f|]; cbn in H; [|contradiction].
  destruct H as (Ha & Hb & Hf). destruct a as [a|]; [|contradiction]. destruct b as [b|]; [|contradiction].
  cbn in Ha, Hb. subst f. exists a, b. repeat split; assumption.
Qed.

Lemma pres_eq_ok g d c k : pres_eq g (POk d c k) -> exists d' c', g = POk d' c' k /\ oq_eq d' d /\ oq_eq c' c.
Proof.
  intro H. destruct g as [d' c' k'| |]; cbn in H; try contradiction.
  destruct H as (A & B & C). subst k'. exists d', c'. repeat split; assumption.
Qed.

Lemma pres_eq_ret g r d c k : pres_eq g r -> g = POk d c k -> exists d' c', r = POk d' c' k /\ oq_eq d d' /\ oq_eq c c'.
Proof.
  intros H E. subst g. destruct r as [d' c' k'| |]; cbn in H; try contradiction.
  destruct H as (A & B & C). subst k'. exists d', c'. repeat split; assumption.
Qed.

Lemma oq_eq_some_r a q : oq_eq a (Some q) -> exists q', a = Some q' /\ q' == q.
Proof. destruct a as [q'|]; cbn; [|contradiction]. intro H. exists q'. split; [reflexivity | exact H]. Qed.
Lemma oq_eq_none_r a : oq_eq a None -> a = None.
Proof. destruct a; cbn; [contradiction | reflexivity]. Qed.

Lemma not_worse_wd k a a' b : a' == a -> not_worse k a b -> not_worse k a' b.
Proof. intros E H. destruct k; cbn in *; rewrite E; exact H. Qed.

Section GenMethods.
  Variable K : consts.

  (* every call of a generated method on a numeric centre cost returns numbers (no exception, no NaN):
     a shift of at most half a sample and a cost that is not worse than the centre's *)
  Lemma gen_method_props me m oc0 c1 oc2 d :
    exists sh co fl, gmethod K me oc0 (Some c1) oc2 d m = FRet (Some sh) (Some co) fl
      /\ Qabs sh <= 1 # 2 /\ not_worse (kind_of m) co c1.
  Proof.
    pose proof (gen_method_eq K me m oc0 c1 oc2 d) as H.
    destruct (run_method K me m oc0 c1 oc2) as [sh co fl|] eqn:R.
    2:{ exfalso. exact (run_method_total K me m oc0 c1 oc2 R). }
    destruct (fres_eq_ok _ _ _ _ H) as (sh' & co' & E & Es & Ec).
    exists sh', co', fl. split; [exact E|]. split.
    - rewrite Es. exact (run_method_shift_half K me m oc0 c1 oc2 sh co fl R).
    - apply (not_worse_wd _ co); [exact Ec|]. exact (run_method_not_worse K me m oc0 c1 oc2 sh co fl R).
  Qed.

  Lemma gen_method_ret me m oc0 c1 oc2 d a b f :
    gmethod K me oc0 (Some c1) oc2 d m = FRet a b f ->
    exists sh co, a = Some sh /\ b = Some co /\ Qabs sh <= 1 # 2 /\ not_worse (kind_of m) co c1.
  Proof.
    intro E. destruct (gen_method_props me m oc0 c1 oc2 d) as (sh & co & fl & E' & A & B).
    rewrite E in E'. inversion E'. subst. exists sh, co. repeat split; assumption.
  Qed.

  Lemma gen_method_total me m oc0 c1 oc2 d : gmethod K me oc0 (Some c1) oc2 d m <> FRaise.
  Proof.
    destruct (gen_method_props me m oc0 c1 oc2 d) as (sh & co & fl & E & _). rewrite E. discriminate.
  Qed.

  (* the flag of a generated method: bit 3 as soon as a neighbour is NaN or the centre is not an
     extremum (shift 0, the centre's cost), 0 otherwise *)
  Lemma gen_method_stop me m oc0 c1 oc2 d :
    (oc0 = None \/ oc2 = None
     \/ exists c0 c2, oc0 = Some c0 /\ oc2 = Some c2 /\ ~ is_extremum (kind_of m) c0 c1 c2) ->
    exists sh co, gmethod K me oc0 (Some c1) oc2 d m = FRet (Some sh) (Some co) (k_stopped K)
                  /\ sh == 0 /\ co == c1.
  Proof.
    intro S. pose proof (gen_method_eq K me m oc0 c1 oc2 d) as H.
    rewrite (run_method_stop K me m oc0 c1 oc2 S) in H.
    destruct (fres_eq_ok _ _ _ _ H) as (sh' & co' & E & Es & Ec). exists sh', co'. repeat split; assumption.
  Qed.

  Lemma gen_method_go me m c0 c1 c2 d : is_extremum (kind_of m) c0 c1 c2 ->
    exists sh co, gmethod K me (Some c0) (Some c1) (Some c2) d m = FRet (Some sh) (Some co) 0.
  Proof.
    intro X. destruct (run_method_go K me m c0 c1 c2 X) as (sh & co & R).
    pose proof (gen_method_eq K me m (Some c0) c1 (Some c2) d) as H. rewrite R in H.
    destruct (fres_eq_ok _ _ _ _ H) as (sh' & co' & E & _). exists sh', co'. exact E.
  Qed.

  (* the closed forms of the user guide, on the generated methods *)
  Lemma gen_vfit_closed_form m c0 c1 c2 d :
    is_extremum (kind_of m) c0 c1 c2 ->
    (eps15 <= Qabs (vfit_slope (kind_of m) c0 c1 c2) ->
       exists sh co, G.vfit K (Some c0) (Some c1) (Some c2) d m = FRet (Some sh) (Some co) 0
                     /\ sh == vfit_x (kind_of m) c0 c1 c2 /\ co == vfit_y (kind_of m) c0 c1 c2)
    /\ (Qabs (vfit_slope (kind_of m) c0 c1 c2) < eps15 ->
        exists sh co, G.vfit K (Some c0) (Some c1) (Some c2) d m = FRet (Some sh) (Some co) 0
                      /\ sh == 0 /\ co == c1).
  Proof.
    intro X. destruct (vfit_closed_form K m c0 c1 c2 X) as [A B].
    pose proof (gen_vfit_eq K m (Some c0) c1 (Some c2) d) as H. split; intro L.
    - destruct (A L) as (sh & co & R & Es & Ec). rewrite R in H.
      destruct (fres_eq_ok _ _ _ _ H) as (sh' & co' & E & Es' & Ec'). exists sh', co'.
      split; [exact E|]. split; [rewrite Es'; exact Es | rewrite Ec'; exact Ec].
    - rewrite (B L) in H. destruct (fres_eq_ok _ _ _ _ H) as (sh' & co' & E & Es' & Ec').
      exists sh', co'. repeat split; assumption.
  Qed.

  Lemma gen_quad_closed_form m c0 c1 c2 d :
    is_extremum (kind_of m) c0 c1 c2 ->
    (eps15 <= Qabs (quad_a c0 c1 c2) ->
       exists sh co, G.quadratic K (Some c0) (Some c1) (Some c2) d m = FRet (Some sh) (Some co) 0
                     /\ sh == quad_x c0 c1 c2 /\ co == quad_y c0 c1 c2)
    /\ (Qabs (quad_a c0 c1 c2) < eps15 ->
        exists sh co, G.quadratic K (Some c0) (Some c1) (Some c2) d m = FRet (Some sh) (Some co) 0
                      /\ sh == 0 /\ co == c1).
  Proof.
    intro X. destruct (quad_closed_form K m c0 c1 c2 X) as [A B].
    pose proof (gen_quadratic_eq K m (Some c0) c1 (Some c2) d) as H. split; intro L.
    - destruct (A L) as (sh & co & R & Es & Ec). rewrite R in H.
      destruct (fres_eq_ok _ _ _ _ H) as (sh' & co' & E & Es' & Ec'). exists sh', co'.
      split; [exact E|]. split; [rewrite Es'; exact Es | rewrite Ec'; exact Ec].
    - rewrite (B L) in H. destruct (fres_eq_ok _ _ _ _ H) as (sh' & co' & E & Es' & Ec').
      exists sh', co'. repeat split; assumption.
  Qed.
End GenMethods.

(* ---------------------------------------------------------------- one pixel, generated body *)

Section GenPixel.
  Variable K : consts.
  Hypothesis KW : consts_wf K = true.
  Variables (me : method) (m : measure) (dmin dmax : Q) (s : Z).
  Hypothesis Hs : (0 < s)%Z.

  (* the generated pixel body with the generated method of the configured class (Model/RefineGen.v) *)
  Let gstep := gstep K me m dmin dmax s.
  Let step := loop_pixel K me m dmin dmax s.

  Lemma gstep_eq cv disp mask : pres_eq (gstep cv disp mask) (step cv disp mask).
  Proof. apply gen_loop_pixel_eq. exact Hs. Qed.

  Lemma gen_pixel_invalid cv disp mask : ~ is_valid K mask ->
    exists d', gstep cv disp mask = POk d' None mask /\ oq_eq d' disp.
  Proof.
    intro V. pose proof (gstep_eq cv disp mask) as H. unfold step in H.
    rewrite (pixel_invalid K me m dmin dmax s cv disp mask V) in H.
    destruct (pres_eq_ok _ _ _ _ H) as (d' & c' & E & A & B). apply oq_eq_none_r in B. subst c'.
    exists d'. split; assumption.
  Qed.

  Lemma in_interval_wd d d' : d' == d -> in_interval dmin dmax d -> in_interval dmin dmax d'.
  Proof. unfold in_interval. intros E [A B]. rewrite E. split; assumption. Qed.

  Lemma gen_pixel_props cv d mask r :
    is_valid K mask -> cv_fits dmin dmax s cv -> in_interval dmin dmax d ->
    gstep cv (Some d) mask = r ->
    exists d' c' mask', r = POk (Some d') c' mask'
      /\ in_interval dmin dmax d'
      /\ Qabs (d' - d) * inject_Z s <= 1 # 2
      /\ (mask' = mask \/ mask' = Z.lor mask bit3)
      /\ (forall c1, cost_at cv (sample_index dmin s d) = Some c1 ->
            exists co, c' = Some co /\ not_worse (kind_of m) co c1)
      /\ (cost_at cv (sample_index dmin s d) = None -> d' == d /\ c' = None /\ mask' = mask).
  Proof.
    intros V F I R. pose proof (gstep_eq cv (Some d) mask) as H. rewrite R in H.
    destruct (pixel_props K KW me m dmin dmax s Hs cv d mask _ V F I eq_refl)
      as (d1 & c1' & k1 & E1 & I1 & A1 & M1 & C1 & N1).
    unfold step in H. rewrite E1 in H.
    destruct (pres_eq_ok _ _ _ _ H) as (od & oc & E & Ed & Ec).
    destruct (oq_eq_some_r _ _ Ed) as (d' & -> & Edd).
    exists d', oc, k1. split; [exact E|]. split; [exact (in_interval_wd _ _ Edd I1)|].
    split; [rewrite Edd; exact A1|]. split; [exact M1|]. split.
    - intros c1 EC. destruct (C1 c1 EC) as (co & -> & NW).
      destruct (oq_eq_some_r _ _ Ec) as (co' & -> & Eco). exists co'. split; [reflexivity|].
      exact (not_worse_wd _ _ _ _ Eco NW).
    - intro EC. destruct (N1 EC) as (X & -> & Y). split; [rewrite Edd, X; reflexivity|].
      split; [exact (oq_eq_none_r _ Ec) | exact Y].
  Qed.

  Lemma gen_pixel_total cv disp mask :
    cv_fits dmin dmax s cv -> (is_valid K mask -> exists d, disp = Some d /\ in_interval dmin dmax d) ->
    exists d' c' mask', gstep cv disp mask = POk d' c' mask'.
  Proof.
    intros F R. destruct (pixel_total K KW me m dmin dmax s Hs cv disp mask F R) as (d1 & c1 & k1 & E1).
    pose proof (gstep_eq cv disp mask) as H. unfold step in H. rewrite E1 in H.
    destruct (pres_eq_ok _ _ _ _ H) as (d' & c' & E & _). exists d', c', k1. exact E.
  Qed.

  Lemma gen_pixel_bits cv disp mask d' c' mask' :
    gstep cv disp mask = POk d' c' mask' -> (mask' = mask \/ mask' = Z.lor mask bit3).
  Proof.
    intro E. destruct (pres_eq_ret _ _ _ _ _ (gstep_eq cv disp mask) E) as (d1 & c1 & E1 & _).
    exact (pixel_bits K KW me m dmin dmax s _ _ _ _ _ _ E1).
  Qed.

  Lemma gen_pixel_bit3_iff cv d mask c1 :
    is_valid K mask -> cv_fits dmin dmax s cv -> in_interval dmin dmax d ->
    let k := sample_index dmin s d in
    cost_at cv k = Some c1 ->
    (must_stop (kind_of m) dmin dmax s cv d c1 ->
       exists d' c', gstep cv (Some d) mask = POk (Some d') (Some c') (Z.lor mask bit3) /\ d' == d /\ c' == c1)
    /\ (~ must_stop (kind_of m) dmin dmax s cv d c1 ->
        exists c0 c2 sh co d' c', cost_at cv (k - 1) = Some c0 /\ cost_at cv (k + 1) = Some c2
          /\ is_extremum (kind_of m) c0 c1 c2
          /\ gmethod K me (Some c0) (Some c1) (Some c2) (Some d) m = FRet (Some sh) (Some co) 0
          /\ gstep cv (Some d) mask = POk (Some d') (Some c') mask
          /\ d' == d + sh / inject_Z s /\ c' == co).
  Proof.
    intros V F I k EC.
    destruct (pixel_bit3_iff K KW me m dmin dmax s Hs cv d mask c1 V F I EC) as [A B].
    pose proof (gstep_eq cv (Some d) mask) as H. unfold step in H. split; intro MS.
    - destruct (A MS) as (d1 & c1' & E1 & Ed & Ec). rewrite E1 in H.
      destruct (pres_eq_ok _ _ _ _ H) as (od & oc & E & Xd & Xc).
      destruct (oq_eq_some_r _ _ Xd) as (d' & -> & Yd). destruct (oq_eq_some_r _ _ Xc) as (c' & -> & Yc).
      exists d', c'. split; [exact E|]. split; [rewrite Yd; exact Ed | rewrite Yc; exact Ec].
    - destruct (B MS) as (c0 & c2 & sh & co & E0 & E2 & EX & RM & E1). fold k in E0, E2. rewrite E1 in H.
      destruct (pres_eq_ok _ _ _ _ H) as (od & oc & E & Xd & Xc).
      destruct (oq_eq_some_r _ _ Xd) as (d' & -> & Yd). destruct (oq_eq_some_r _ _ Xc) as (c' & -> & Yc).
      pose proof (gen_method_eq K me m (Some c0) c1 (Some c2) (Some d)) as HM. rewrite RM in HM.
      destruct (fres_eq_ok _ _ _ _ HM) as (sh' & co' & EM & Es & Eco).
      exists c0, c2, sh', co', d', c'.
      split; [exact E0|]. split; [exact E2|]. split; [exact EX|]. split; [exact EM|]. split; [exact E|]. split.
      + rewrite Yd, Qred_correct, Es. reflexivity.
      + rewrite Yc, Qred_correct, Eco. reflexivity.
  Qed.

  Lemma gen_pixel_moved_costed cv d mask d' c' mask' :
    is_valid K mask -> cv_fits dmin dmax s cv -> in_interval dmin dmax d ->
    gstep cv (Some d) mask = POk (Some d') c' mask' -> ~ d' == d ->
    exists c0 c1 c2, cost_at cv (sample_index dmin s d - 1) = Some c0
                     /\ cost_at cv (sample_index dmin s d) = Some c1
                     /\ cost_at cv (sample_index dmin s d + 1) = Some c2
                     /\ is_extremum (kind_of m) c0 c1 c2
                     /\ ~ near_end dmin dmax s d
                     /\ mask' = mask.
  Proof.
    intros V F I E N.
    destruct (pres_eq_ret _ _ _ _ _ (gstep_eq cv (Some d) mask) E) as (od & c1' & E1 & Xd & _).
    destruct od as [d1|]; [|contradiction]. cbn in Xd.
    apply (pixel_moved_costed K KW me m dmin dmax s Hs cv d mask d1 c1' mask' V F I E1).
    intro Y. apply N. rewrite Xd. exact Y.
  Qed.
End GenPixel.

(* ---------------------------------------------------------------- all pixels, any number of steps *)

Section GenSteps.
  Variable K : consts.
  Hypothesis KW : consts_wf K = true.
  Variables (m : measure) (dmin dmax : Q) (s : Z).
  Hypothesis Hs : (0 < s)%Z.
  Let pixel_ok := pixel_ok K dmin dmax s.
  Let flags_kept := flags_kept K.

  Lemma grefine_map_ok me px : Forall pixel_ok px ->
    exists l, grefine_map K me m dmin dmax s px = IOk l
      /\ Forall pixel_ok (reload px l)
      /\ Forall2 (fun p t => flags_kept (px_mask p) (out_mask t)) px l.
  Proof.
    induction 1 as [|p r [F H] _ IH].
    - exists []. repeat split; constructor.
    - destruct IH as (l & E & OK & FL).
      destruct (gen_pixel_total K KW me m dmin dmax s Hs (px_cv p) (px_disp p) (px_mask p) F H) as (d' & c' & mask' & R).
      exists ((d', c', mask') :: l). cbn [grefine_map]. rewrite R, E.
      pose proof (gen_pixel_bits K KW me m dmin dmax s Hs _ _ _ _ _ _ R) as B.
      apply (bits_of_step K KW) in B.
      split; [reflexivity|]. split.
      + cbn. constructor; [|exact OK]. split; [exact F|]. cbn [px_mask px_disp].
        intro V. unfold is_valid in V. destruct B as (_ & _ & B3). rewrite B3 in V.
        destruct (H V) as (d & Ed & I). rewrite Ed in R.
        destruct (gen_pixel_props K KW me m dmin dmax s Hs _ _ _ _ V F I R) as (d'' & c'' & mask'' & R' & I' & _).
        inversion R'. exists d''. split; [reflexivity | exact I'].
      + constructor; [exact B | exact FL].
  Qed.

  Lemma grefine_steps_ok mes : forall px last, Forall pixel_ok px ->
    exists l, grefine_steps K mes m dmin dmax s px last = IOk l
      /\ ((mes = [] /\ l = last)
          \/ (Forall2 (fun p t => flags_kept (px_mask p) (out_mask t)) px l /\ Forall pixel_ok (reload px l))).
  Proof.
    induction mes as [|me r IH]; intros px last OK.
    - exists last. split; [reflexivity|]. left. split; reflexivity.
    - destruct (grefine_map_ok me px OK) as (l1 & E & OK1 & FL1).
      destruct (IH (reload px l1) l1 OK1) as (l & E2 & D).
      exists l. cbn [grefine_steps]. rewrite E. split; [exact E2|]. right.
      destruct D as [[_ D]|[D1 D2]].
      + subst l. split; assumption.
      + destruct (flags_compose K px l1 l FL1 D1) as [C R]. split; [exact C|]. rewrite <- R. exact D2.
  Qed.
End GenSteps.
