(* C09 -- the requested disparity interval is honoured and does not leak into costs.
   Proofs about the matching-cost model of C02 (Model/MatchingCost.v), for the four measures at once
   and WITHOUT going through model = spec: the interval enters the computation only through the range
   of the plane index k and through cv_masked, so every cost is a function [mcell] of the disparity
   sample D = d * subpix, the pixel, the images and the masks -- not of dmin, dmax, the index k, the
   other planes or the other pixels' intervals -- guarded by the pixel's own [gmin, gmax] test. *)
From Coq Require Import ZArith List Bool Lia ZifyBool QArith Qround.
From Pandora Require Import Lib.Ext Model.MatchingCost Spec.Cost Proofs.MatchingCostP Model.Interval.
Import ListNotations.
Open Scope Z_scope.

(* ------------------------------------------------------------------ cv_masked, cell by cell *)

(* the image-mask part of cv_masked for the plane of sample D (same memo tables as the model) *)
Definition img_mask {A : Type} (inp : mc_input) (D r c : Z) (v : option A) : option A :=
  let ny := i_ny inp in let nx := i_nx inp in let w := i_w inp in let s := i_s inp in
  let ml := memo2 ny nx (mask_nan ny nx w (i_vp inp) (i_nd inp) (i_mL inp)) in
  let mr0 := memo2 ny nx (mask_nan ny nx w (i_vp inp) (i_nd inp) (i_mR inp)) in
  let mr1 := memo2 ny (nx - 1) (mask_shift mr0) in
  let mr := fun i => if i =? 0 then mr0 else mr1 in
  if (p0_ s nx D <=? c) && (c <? p1_ s nx D)
  then let v' := omask v (ml r c) in
       if q0_ s nx D <? q1_ s nx D
       then omask v' (mr (Z.min 1 (i_right s D)) r (q0_ s nx D + (c - p0_ s nx D))) else v'
  else v.

(* gmin(r,c) <= d <= gmax(r,c), on scaled disparities: the test of the second loop of cv_masked *)
Definition in_pixel_interval (s : Z) (g h : img) (r c D : Z) : bool :=
  negb ((D <? g r c * s) || (h r c * s <? D)).

Lemma in_pixel_interval_spec : forall s g h r c D,
  in_pixel_interval s g h r c D = in_interval s g h r c D.
Proof. intros. unfold in_pixel_interval, in_interval. lia. Qed.

Lemma cv_masked_cell : forall {A} inp dmin dmax (cv : Z -> Z -> Z -> option A) r c k,
  0 <= k < nb_disp (i_s inp) dmin dmax ->
  cv_masked inp dmin dmax cv r c k =
  let D := disp_scaled (i_s inp) dmin k in
  if in_pixel_interval (i_s inp) (i_gmin inp) (i_gmax inp) r c D then img_mask inp D r c (cv r c k) else None.
Proof.
  intros A inp dmin dmax cv r c k Hk. cbv zeta.
  unfold cv_masked, in_pixel_interval, img_mask. cbv zeta. unfold mask_interval.
  destruct ((disp_scaled (i_s inp) dmin k <? i_gmin inp r c * i_s inp)
            || (i_gmax inp r c * i_s inp <? disp_scaled (i_s inp) dmin k)); cbn [negb]; [reflexivity|].
  unfold zrange. rewrite mask_fold_eq.
  destruct ((0 <=? k) && (k <? 0 + Z.of_nat (Z.to_nat (nb_disp (i_s inp) dmin dmax)))) eqn:E; [|lia].
  reflexivity.
Qed.

(* ------------------------------------------------------------------ the raw planes: functions of D only *)

Definition sadssd_raw (pw : Z -> Z -> Z) (inp : mc_input) (D r c : Z) : option Z :=
  sadssd_plane pw inp (shifted_images inp) D r c.

Definition census_raw (inp : mc_input) (D r c : Z) : option Z :=
  let ny := i_ny inp in let nx := i_nx inp in let s := i_s inp in let w := i_w inp in
  let off := offset w in
  if too_small ny nx w then None else      (* all-NaN volume when no window fits in the image *)
  let Rs := shifted_images inp in
  let cl := memo2 (ny - 2 * off) (nx - 2 * off) (census_transform w (i_L inp)) in
  let cr := memo1 s (fun i => memo2 (ny - 2 * off) (nx - 2 * off) (census_transform w (Rs i))) in
  census_plane inp cl cr D r c.

Definition zncc_raw (inp : mc_input) (D r c : Z) : option (Z * Z * Z) :=
  let ny := i_ny inp in let nx := i_nx inp in let s := i_s inp in let w := i_w inp in
  let off := offset w in
  if too_small ny nx w then None else
  let Rs := shifted_images inp in
  let ml := memo2 (ny - 2 * off) (nx - 2 * off) (sum_raster w ny nx (i_L inp)) in
  let vl := memo2 (ny - 2 * off) (nx - 2 * off) (var_raster w ny nx (i_L inp)) in
  let mr := memo1 s (fun i => memo2 (ny - 2 * off) (nx - 2 * off) (sum_raster w ny (shift_width nx i) (Rs i))) in
  let vr := memo1 s (fun i => memo2 (ny - 2 * off) (nx - 2 * off) (var_raster w ny (shift_width nx i) (Rs i))) in
  zncc_plane inp Rs ml vl mr vr D r c.

(* the cost of pixel (r, c) at the sample D when the pixel's interval allows it: no dmin, no dmax, no
   plane index, no grid *)
Definition mcell (m : measure) (inp : mc_input) (D r c : Z) : option cellv :=
  match m with
  | Sad => omap CQ (omap (cost_q (i_s inp)) (img_mask inp D r c (sadssd_raw ad_cost inp D r c)))
  | Ssd => omap CQ (omap (cost_q (i_s inp * i_s inp)) (img_mask inp D r c (sadssd_raw sd_cost inp D r c)))
  | Census => omap CQ (omap (cost_q 1) (img_mask inp D r c (census_raw inp D r c)))
  | Zncc => omap ct (img_mask inp D r c (zncc_raw inp D r c))
  end.

(* [mcell] does not look at the grids *)
Lemma mcell_with_grids : forall m inp g h D r c, mcell m (with_grids inp g h) D r c = mcell m inp D r c.
Proof. intros. destruct m; reflexivity. Qed.

(* MAIN LEMMA: every cell of the masked volume of every measure is [mcell] of its disparity sample,
   guarded by the pixel's own interval test.  Every r, c (also outside the image), every dmin, dmax. *)
Lemma mvolume_cell : forall m inp dmin dmax r c k,
  0 <= k < nb_disp (i_s inp) dmin dmax ->
  mvolume m inp dmin dmax r c k =
  let D := disp_scaled (i_s inp) dmin k in
  if in_pixel_interval (i_s inp) (i_gmin inp) (i_gmax inp) r c D then mcell m inp D r c else None.
Proof.
  intros m inp dmin dmax r c k Hk. cbv zeta. destruct m; unfold mvolume, mcell.
  - unfold sad_volume, sadssd_volume_z. cbv zeta. rewrite memo3_eq.
    rewrite (cv_masked_cell inp dmin dmax _ r c k Hk). cbv zeta. rewrite memo1_eq, memo2_eq.
    destruct (in_pixel_interval _ _ _ r c _); reflexivity.
  - unfold ssd_volume, sadssd_volume_z. cbv zeta. rewrite memo3_eq.
    rewrite (cv_masked_cell inp dmin dmax _ r c k Hk). cbv zeta. rewrite memo1_eq, memo2_eq.
    destruct (in_pixel_interval _ _ _ r c _); reflexivity.
  - unfold census_volume, census_volume_z, census_raw. cbv zeta. rewrite memo3_eq.
    rewrite (cv_masked_cell inp dmin dmax _ r c k Hk). cbv zeta.
    destruct (too_small (i_ny inp) (i_nx inp) (i_w inp)).
    + destruct (in_pixel_interval _ _ _ r c _); reflexivity.
    + rewrite memo1_eq, memo2_eq. destruct (in_pixel_interval _ _ _ r c _); reflexivity.
  - unfold zncc_volume, zncc_raw. cbv zeta. rewrite memo3_eq.
    rewrite (cv_masked_cell inp dmin dmax _ r c k Hk). cbv zeta.
    destruct (too_small (i_ny inp) (i_nx inp) (i_w inp)).
    + destruct (in_pixel_interval _ _ _ r c _); reflexivity.
    + rewrite memo1_eq, memo2_eq. destruct (in_pixel_interval _ _ _ r c _); reflexivity.
Qed.

(* ------------------------------------------------------------------ two runs, one sample *)

(* Two runs on the same images/masks/window/subpix, with ANY grids, ANY axes: at a pixel and a disparity
   sample present on both axes, the run with grids (g, h) gives the cost of the run with grids (g', h')
   when the sample is inside [g, h] at this pixel, NaN otherwise -- provided the second run allows the
   sample at this pixel. *)
Lemma mvolume_two_runs : forall m inp g h g' h' dmin dmax dmin' dmax' r c k k',
  0 <= k < nb_disp (i_s inp) dmin dmax -> 0 <= k' < nb_disp (i_s inp) dmin' dmax' ->
  disp_scaled (i_s inp) dmin k = disp_scaled (i_s inp) dmin' k' ->
  in_pixel_interval (i_s inp) g' h' r c (disp_scaled (i_s inp) dmin k) = true ->
  mvolume m (with_grids inp g h) dmin dmax r c k =
  if in_pixel_interval (i_s inp) g h r c (disp_scaled (i_s inp) dmin k)
  then mvolume m (with_grids inp g' h') dmin' dmax' r c k' else None.
Proof.
  intros m inp g h g' h' dmin dmax dmin' dmax' r c k k' Hk Hk' HD Hin.
  rewrite (mvolume_cell m (with_grids inp g h) dmin dmax r c k Hk).
  rewrite (mvolume_cell m (with_grids inp g' h') dmin' dmax' r c k' Hk').
  cbv zeta. cbn [with_grids i_s i_gmin i_gmax]. rewrite <- HD. rewrite Hin.
  rewrite !mcell_with_grids. reflexivity.
Qed.

(* the grids matter only through their values at the pixel itself *)
Lemma mvolume_grids_pointwise : forall m inp g h g' h' dmin dmax r c k,
  0 <= k < nb_disp (i_s inp) dmin dmax -> g r c = g' r c -> h r c = h' r c ->
  mvolume m (with_grids inp g h) dmin dmax r c k = mvolume m (with_grids inp g' h') dmin dmax r c k.
Proof.
  intros m inp g h g' h' dmin dmax r c k Hk Hg Hh.
  rewrite (mvolume_cell m (with_grids inp g h) dmin dmax r c k Hk).
  rewrite (mvolume_cell m (with_grids inp g' h') dmin dmax r c k Hk).
  cbv zeta. cbn [with_grids i_s i_gmin i_gmax]. unfold in_pixel_interval. rewrite Hg, Hh.
  rewrite !mcell_with_grids. reflexivity.
Qed.

(* outside the pixel's interval the cost is NaN (the hypothesis of C03_wta_within_pixel_interval) *)
Lemma mvolume_outside_is_nan : forall m inp dmin dmax r c k,
  0 <= k < nb_disp (i_s inp) dmin dmax ->
  in_pixel_interval (i_s inp) (i_gmin inp) (i_gmax inp) r c (disp_scaled (i_s inp) dmin k) = false ->
  mvolume m inp dmin dmax r c k = None.
Proof. intros m inp dmin dmax r c k Hk H. rewrite mvolume_cell by exact Hk. cbv zeta. now rewrite H. Qed.

(* ------------------------------------------------------------------ index arithmetic of a slice *)

(* [a, b] inside [a', b']: sample k of the small axis is sample k + (a - a') * s of the large axis *)
Lemma slice_index : forall s a b a' b' k, 0 <= s -> a' <= a -> b <= b' ->
  0 <= k < nb_disp s a b ->
  0 <= k + (a - a') * s < nb_disp s a' b' /\
  disp_scaled s a k = disp_scaled s a' (k + (a - a') * s).
Proof.
  intros s a b a' b' k Hs Ha Hb Hk. unfold nb_disp, disp_scaled in *.
  assert (0 <= (a - a') * s) by (apply Z.mul_nonneg_nonneg; lia).
  assert (0 <= (b' - b) * s) by (apply Z.mul_nonneg_nonneg; lia).
  split; [|ring]. split; [lia|].
  replace ((b' - a') * s) with ((b' - b) * s + (b - a) * s + (a - a') * s) by ring. lia.
Qed.

Lemma sample_in_scalar_interval : forall s a b k, 0 <= k < nb_disp s a b ->
  in_pixel_interval s (const_grid a) (const_grid b) 0 0 (disp_scaled s a k) = true.
Proof.
  intros s a b k Hk. unfold in_pixel_interval, const_grid, nb_disp, disp_scaled in *.
  replace (b * s) with ((b - a) * s + a * s) by ring. lia.
Qed.

(* ------------------------------------------------------------------ C09: the named statements *)

(* cost_indep_of_interval: nested scalar intervals, the volume of the small one is the slice of the
   volume of the large one -- every measure, subpix, window, mask, image size, pixel, sample *)
Theorem cost_indep_of_interval : forall m inp a b a' b' r c k,
  0 <= i_s inp -> a' <= a -> b <= b' -> 0 <= k < nb_disp (i_s inp) a b ->
  mvolume m (scalar_grids inp a b) a b r c k
  = mvolume m (scalar_grids inp a' b') a' b' r c (k + (a - a') * i_s inp).
Proof.
  intros m inp a b a' b' r c k Hs Ha Hb Hk.
  destruct (slice_index (i_s inp) a b a' b' k Hs Ha Hb Hk) as [Hk' HD].
  unfold scalar_grids.
  rewrite (mvolume_two_runs m inp (const_grid a) (const_grid b) (const_grid a') (const_grid b')
             a b a' b' r c k _ Hk Hk' HD).
  - change (in_pixel_interval (i_s inp) (const_grid a) (const_grid b) r c (disp_scaled (i_s inp) a k))
      with (in_pixel_interval (i_s inp) (const_grid a) (const_grid b) 0 0 (disp_scaled (i_s inp) a k)).
    now rewrite sample_in_scalar_interval.
  - rewrite HD.
    change (in_pixel_interval (i_s inp) (const_grid a') (const_grid b') r c
              (disp_scaled (i_s inp) a' (k + (a - a') * i_s inp)))
      with (in_pixel_interval (i_s inp) (const_grid a') (const_grid b') 0 0
              (disp_scaled (i_s inp) a' (k + (a - a') * i_s inp))).
    now apply sample_in_scalar_interval.
Qed.

(* grid_inside_outside: per-pixel grids (g, h) searched on the axis [dmin, dmax] against the scalar
   interval [a', b'] containing that axis: same cost inside the pixel's [g, h], NaN outside.
   No hypothesis relates dmin, dmax to the grids: in the code they are the extrema of the grids
   ([grid_extrema] below), the statement holds for any axis. *)
Theorem grid_inside_outside : forall m inp g h dmin dmax a' b' r c k,
  0 <= i_s inp -> a' <= dmin -> dmax <= b' -> 0 <= k < nb_disp (i_s inp) dmin dmax ->
  mvolume m (with_grids inp g h) dmin dmax r c k
  = if (g r c * i_s inp <=? disp_scaled (i_s inp) dmin k) && (disp_scaled (i_s inp) dmin k <=? h r c * i_s inp)
    then mvolume m (scalar_grids inp a' b') a' b' r c (k + (dmin - a') * i_s inp)
    else None.
Proof.
  intros m inp g h dmin dmax a' b' r c k Hs Ha Hb Hk.
  destruct (slice_index (i_s inp) dmin dmax a' b' k Hs Ha Hb Hk) as [Hk' HD].
  unfold scalar_grids.
  rewrite (mvolume_two_runs m inp g h (const_grid a') (const_grid b') dmin dmax a' b' r c k _ Hk Hk' HD).
  - unfold in_pixel_interval.
    destruct ((g r c * i_s inp <=? disp_scaled (i_s inp) dmin k)
              && (disp_scaled (i_s inp) dmin k <=? h r c * i_s inp)) eqn:E;
    destruct (negb ((disp_scaled (i_s inp) dmin k <? g r c * i_s inp)
                    || (h r c * i_s inp <? disp_scaled (i_s inp) dmin k))) eqn:E2; try reflexivity; lia.
  - rewrite HD.
    change (in_pixel_interval (i_s inp) (const_grid a') (const_grid b') r c
              (disp_scaled (i_s inp) a' (k + (dmin - a') * i_s inp)))
      with (in_pixel_interval (i_s inp) (const_grid a') (const_grid b') 0 0
              (disp_scaled (i_s inp) a' (k + (dmin - a') * i_s inp))).
    now apply sample_in_scalar_interval.
Qed.

(* grid_vs_scalar: grids that hold a and b at the pixel give the costs of the scalar interval [a, b];
   with [grid_extrema_const] the axis is the same too *)
Theorem grid_vs_scalar : forall m inp g h a b r c k,
  0 <= k < nb_disp (i_s inp) a b -> g r c = a -> h r c = b ->
  mvolume m (with_grids inp g h) a b r c k = mvolume m (scalar_grids inp a b) a b r c k.
Proof.
  intros m inp g h a b r c k Hk Hg Hh. unfold scalar_grids.
  apply mvolume_grids_pointwise; [exact Hk| |]; unfold const_grid; assumption.
Qed.

(* for a scalar interval the second loop of cv_masked masks nothing on the axis *)
Theorem scalar_interval_masks_nothing : forall m inp a b r c k,
  0 <= k < nb_disp (i_s inp) a b ->
  mvolume m (scalar_grids inp a b) a b r c k = mcell m inp (disp_scaled (i_s inp) a k) r c.
Proof.
  intros m inp a b r c k Hk. unfold scalar_grids. rewrite mvolume_cell by exact Hk.
  cbv zeta. cbn [with_grids i_s i_gmin i_gmax].
  change (in_pixel_interval (i_s inp) (const_grid a) (const_grid b) r c (disp_scaled (i_s inp) a k))
    with (in_pixel_interval (i_s inp) (const_grid a) (const_grid b) 0 0 (disp_scaled (i_s inp) a k)).
  rewrite sample_in_scalar_interval by exact Hk. apply mcell_with_grids.
Qed.

(* ------------------------------------------------------------------ get_min_max_from_grid *)

Lemma fold_flat_map : forall {X Y} (f : Y -> X -> Y) (hh : Z -> list X) l a,
  fold_left (fun acc r => fold_left f (hh r) acc) l a = fold_left f (flat_map hh l) a.
Proof.
  intros X Y f hh l. induction l; intros a0; cbn [fold_left flat_map]; [reflexivity|].
  rewrite fold_left_app. apply IHl.
Qed.

Lemma fold_left_map : forall {X Y W} (f : Y -> W -> Y) (g : X -> W) l a,
  fold_left (fun acc x => f acc (g x)) l a = fold_left f (map g l) a.
Proof. intros X Y W f g l. induction l; intros; cbn [fold_left map]; [reflexivity|]. apply IHl. Qed.

Definition grid_values (ny nx : Z) (g : img) : list Z :=
  flat_map (fun r => map (g r) (zrange 0 nx)) (zrange 0 ny).

Lemma grid_fold_flat : forall op ny nx g, grid_fold op ny nx g = fold_left op (grid_values ny nx g) (g 0 0).
Proof.
  intros. unfold grid_fold, grid_values.
  rewrite <- (fold_flat_map op (fun r => map (g r) (zrange 0 nx))).
  generalize (g 0 0). induction (zrange 0 ny); intros a0; cbn [fold_left]; [reflexivity|].
  rewrite fold_left_map. apply IHl.
Qed.

Lemma grid_values_In : forall ny nx g v,
  In v (grid_values ny nx g) <-> exists r c, 0 <= r < ny /\ 0 <= c < nx /\ v = g r c.
Proof.
  intros. unfold grid_values. rewrite in_flat_map. split.
  - intros [r [Hr Hv]]. rewrite in_map_iff in Hv. destruct Hv as [c [E Hc]].
    rewrite zrange_In in Hr, Hc. exists r, c. lia.
  - intros [r [c [Hr [Hc E]]]]. exists r. split; [rewrite zrange_In; lia|].
    rewrite in_map_iff. exists c. split; [now symmetry|rewrite zrange_In; lia].
Qed.

Lemma fold_min_spec : forall l a,
  fold_left Z.min l a <= a /\ (forall x, In x l -> fold_left Z.min l a <= x)
  /\ (fold_left Z.min l a = a \/ In (fold_left Z.min l a) l).
Proof.
  induction l; intros a0; cbn [fold_left In].
  - split; [lia|]. split; [tauto|now left].
  - destruct (IHl (Z.min a0 a)) as [H1 [H2 H3]]. split; [lia|]. split.
    + intros x [->|Hx]; [lia|now apply H2].
    + destruct H3 as [H3|H3]; [|now right; right].
      destruct (Z.min_spec a0 a) as [[_ E]|[_ E]]; [left|right; left]; lia.
Qed.

Lemma fold_max_spec : forall l a,
  a <= fold_left Z.max l a /\ (forall x, In x l -> x <= fold_left Z.max l a)
  /\ (fold_left Z.max l a = a \/ In (fold_left Z.max l a) l).
Proof.
  induction l; intros a0; cbn [fold_left In].
  - split; [lia|]. split; [tauto|now left].
  - destruct (IHl (Z.max a0 a)) as [H1 [H2 H3]]. split; [lia|]. split.
    + intros x [->|Hx]; [lia|now apply H2].
    + destruct H3 as [H3|H3]; [|now right; right].
      destruct (Z.max_spec a0 a) as [[_ E]|[_ E]]; [right; left|left]; lia.
Qed.

(* the axis bounds computed from the grids are the extrema of the grids over the image: the axis is the
   hull of the per-pixel intervals, no sample of any pixel's interval is missing from it *)
Theorem grid_extrema : forall ny nx g h, 1 <= ny -> 1 <= nx ->
  (forall r c, 0 <= r < ny -> 0 <= c < nx -> grid_min ny nx g <= g r c)
  /\ (exists r c, 0 <= r < ny /\ 0 <= c < nx /\ grid_min ny nx g = g r c)
  /\ (forall r c, 0 <= r < ny -> 0 <= c < nx -> h r c <= grid_max ny nx h)
  /\ (exists r c, 0 <= r < ny /\ 0 <= c < nx /\ grid_max ny nx h = h r c).
Proof.
  intros ny nx g h Hy Hx. unfold grid_min, grid_max. rewrite !grid_fold_flat.
  destruct (fold_min_spec (grid_values ny nx g) (g 0 0)) as [A1 [A2 A3]].
  destruct (fold_max_spec (grid_values ny nx h) (h 0 0)) as [B1 [B2 B3]].
  repeat split.
  - intros r c Hr Hc. apply A2. apply grid_values_In. exists r, c. auto.
  - destruct A3 as [E|I]; [exists 0, 0; lia|]. apply grid_values_In in I. exact I.
  - intros r c Hr Hc. apply B2. apply grid_values_In. exists r, c. auto.
  - destruct B3 as [E|I]; [exists 0, 0; lia|]. apply grid_values_In in I. exact I.
Qed.

(* constant grids (a scalar interval through add_disparity): the axis bounds are the two scalars *)
Theorem grid_extrema_const : forall ny nx g h a b,
  (forall r c, 0 <= r < Z.max 1 ny -> 0 <= c < Z.max 1 nx -> g r c = a /\ h r c = b) ->
  grid_min ny nx g = a /\ grid_max ny nx h = b.
Proof.
  intros ny nx g h a b H. unfold grid_min, grid_max. rewrite !grid_fold_flat.
  assert (G0 : g 0 0 = a /\ h 0 0 = b) by (apply H; lia). destruct G0 as [G0 H0].
  destruct (fold_min_spec (grid_values ny nx g) (g 0 0)) as [A1 [A2 A3]].
  destruct (fold_max_spec (grid_values ny nx h) (h 0 0)) as [B1 [B2 B3]].
  split.
  - destruct A3 as [E|I]; [congruence|]. apply grid_values_In in I. destruct I as [r [c [Hr [Hc E]]]].
    rewrite E. apply H; lia.
  - destruct B3 as [E|I]; [congruence|]. apply grid_values_In in I. destruct I as [r [c [Hr [Hc E]]]].
    rewrite E. apply H; lia.
Qed.

(* ------------------------------------------------------------------ the disparity axis *)

Lemma range_snoc : forall n lo, range lo (S n) = range lo n ++ [lo + Z.of_nat n].
Proof.
  induction n; intros lo.
  - cbn. f_equal. lia.
  - change (range lo (S (S n))) with (lo :: range (lo + 1) (S n)). rewrite IHn.
    cbn [range app]. do 3 f_equal. lia.
Qed.

Lemma range_length : forall n lo, length (range lo n) = n.
Proof. induction n; intros; cbn [range length]; [reflexivity|]. now rewrite IHn. Qed.

Lemma disp_axis_length : forall s dmin dmax, length (disp_axis s dmin dmax) = Z.to_nat (nb_disp s dmin dmax).
Proof. intros. unfold disp_axis, zrange. now rewrite map_length, range_length. Qed.

Lemma disp_axis_nth : forall s dmin dmax k dflt, 0 <= k < nb_disp s dmin dmax ->
  nth (Z.to_nat k) (disp_axis s dmin dmax) dflt = sample_q s dmin k.
Proof.
  intros s dmin dmax k dflt Hk. unfold disp_axis, zrange.
  apply nth_error_nth. rewrite nth_error_map, nth_error_range by lia. cbn. f_equal. f_equal. lia.
Qed.

Lemma sample_q_value : forall s dmin k, 0 < s -> sample_q s dmin k == inject_Z dmin + (k # Z.to_pos s).
Proof.
  intros s dmin k Hs. unfold sample_q, disp_scaled, Qeq, Qplus, inject_Z. cbn [Qnum Qden].
  rewrite Pos2Z.inj_mul, Z2Pos.id by lia. ring.
Qed.

(* stored_interval_is_searched: disparity_interval = first and last coordinate of the axis = the bounds
   the axis was built from *)
Theorem stored_interval_is_searched : forall s dmin dmax, 0 < s -> dmin <= dmax ->
  let iv := disparity_interval (disp_axis s dmin dmax) in
  fst iv = sample_q s dmin 0 /\ snd iv = sample_q s dmin (nb_disp s dmin dmax - 1)
  /\ fst iv == inject_Z dmin /\ snd iv == inject_Z dmax
  /\ (forall k, 0 <= k < nb_disp s dmin dmax ->
        (fst iv <= sample_q s dmin k)%Q /\ (sample_q s dmin k <= snd iv)%Q).
Proof.
  intros s dmin dmax Hs Hd. cbv zeta.
  assert (Hn : 1 <= nb_disp s dmin dmax).
  { unfold nb_disp. assert (0 <= (dmax - dmin) * s) by (apply Z.mul_nonneg_nonneg; lia). lia. }
  assert (F : fst (disparity_interval (disp_axis s dmin dmax)) = sample_q s dmin 0).
  { unfold disparity_interval. cbn [fst]. apply (disp_axis_nth s dmin dmax 0). lia. }
  assert (L : snd (disparity_interval (disp_axis s dmin dmax)) = sample_q s dmin (nb_disp s dmin dmax - 1)).
  { unfold disparity_interval. cbn [snd]. unfold disp_axis, zrange.
    destruct (Z.to_nat (nb_disp s dmin dmax)) as [|n] eqn:E; [lia|].
    rewrite range_snoc, map_app. cbn [map]. rewrite last_last. f_equal. lia. }
  assert (F' : sample_q s dmin 0 == inject_Z dmin).
  { unfold sample_q, disp_scaled, Qeq, inject_Z. cbn [Qnum Qden]. rewrite Z2Pos.id by lia. ring. }
  assert (L' : sample_q s dmin (nb_disp s dmin dmax - 1) == inject_Z dmax).
  { unfold sample_q, disp_scaled, nb_disp, Qeq, inject_Z. cbn [Qnum Qden]. rewrite Z2Pos.id by lia. ring. }
  split; [exact F|]. split; [exact L|]. split; [now rewrite F|]. split; [now rewrite L|].
  intros k Hk. rewrite F, L. unfold sample_q, Qle. cbn [Qnum Qden]. unfold disp_scaled.
  split; apply Z.mul_le_mono_nonneg_r; lia.
Qed.

(* disp_dsp_index_consistent: the index the code computes in floating point for the coordinate of
   sample k, int((disp - dmin) * subpix), is k; the resampled image it selects, int((disp % 1) * subpix),
   is the one the model selects *)
Theorem dsp_index_consistent : forall s dmin k, 0 < s ->
  dsp_float s dmin (sample_q s dmin k) = k
  /\ dsp_index s dmin (disp_scaled s dmin k) = k
  /\ i_right_float s (sample_q s dmin k) = i_right s (disp_scaled s dmin k).
Proof.
  intros s dmin k Hs. split; [|split].
  - unfold dsp_float.
    assert (E : (sample_q s dmin k - inject_Z dmin) * inject_Z s == inject_Z k).
    { unfold sample_q, disp_scaled, Qeq, Qminus, Qplus, Qmult, Qopp, inject_Z. cbn [Qnum Qden].
      rewrite !Pos2Z.inj_mul, Z2Pos.id by lia. ring. }
    rewrite E. apply Qfloor_Z.
  - unfold dsp_index, disp_scaled. ring.
  - unfold i_right_float, i_right. set (D := disp_scaled s dmin k).
    assert (F : Qfloor (sample_q s dmin k) = D / s).
    { unfold sample_q. fold D. unfold Qfloor. rewrite Z2Pos.id by lia. reflexivity. }
    rewrite F.
    assert (E : (sample_q s dmin k - inject_Z (D / s)) * inject_Z s == inject_Z (D mod s)).
    { unfold sample_q. fold D. rewrite (Z.mod_eq D s) by lia.
      unfold Qeq, Qminus, Qplus, Qmult, Qopp, inject_Z. cbn [Qnum Qden].
      rewrite !Pos2Z.inj_mul, Z2Pos.id by lia. ring. }
    rewrite E. apply Qfloor_Z.
Qed.
