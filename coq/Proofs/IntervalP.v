(* C09 -- the requested disparity interval is honoured and does not leak into costs.
   Proofs about the matching-cost model of C02 (Model/MatchingCost.v), for the four measures at once
   and WITHOUT going through model = spec: the interval enters the computation only through the range
   of the plane index k and through cv_masked, so every cost is a function [mcell] of the disparity
   sample D = d * subpix, the pixel, the images and the masks -- not of dmin, dmax, the index k, the
   other planes or the other pixels' intervals -- guarded by the pixel's own [gmin, gmax] test. *)
From Coq Require Import ZArith List Bool Lia ZifyBool QArith Qround.
From Pandora Require Import Lib.Ext Model.MatchingCost Spec.Cost Proofs.MatchingCostP Model.Interval.
Import ListNotations.
Open Scope Z_scope.

(* ------------------------------------------------------------------ cv_masked, cell by cell *)

(* the image-mask part of cv_masked for the plane of sample D (same memo tables as the model) *)
Definition img_mask {A : Type} (inp : mc_input) (D r c : Z) (v : option A) : option A :=
  let ny := i_ny inp in let nx := i_nx inp in let w := i_w inp in let s := i_s inp in
  let ml := memo2 ny nx (mask_nan ny nx w (i_vp inp) (i_nd inp) (i_mL inp)) in
  let mr0 := memo2 ny nx (mask_nan ny nx w (i_vp inp) (i_nd inp) (i_mR inp)) in
  let mr1 := memo2 ny (nx - 1) (mask_shift mr0) in
  let mr := fun i => if i =? 0 then mr0 else mr1 in
  if (p0_ s nx D <=? c) && (c <? p1_ s nx D)
  then let v' := omask v (ml r c) in
       if q0_ s nx D <? q1_ s nx D
       then omask v' (mr (Z.min 1 (i_right s D)) r (q0_ s nx D + (c - p0_ s nx D))) else v'
  else v.

(* gmin(r,c) <= d <= gmax(r,c), on scaled disparities: the test of the second loop of cv_masked *)
Definition in_pixel_interval (s : Z) (g h : img) (r c D : Z) : bool :=
  negb ((D <? g r c * s) || (h r c * s <? D)).

Lemma in_pixel_interval_spec : forall s g h r c D,
  in_pixel_interval s g h r c D = in_interval s g h r c D.
Proof. intros. unfold in_pixel_interval, in_interval. lia. Qed.

Lemma cv_masked_cell : forall {A} inp dmin dmax (cv : Z -> Z -> Z -> option A) r c k,
  0 <= k < nb_disp (i_s inp) dmin dmax ->
  cv_masked inp dmin dmax cv r c k =
  let D := disp_scaled (i_s inp) dmin k in
  if in_pixel_interval (i_s inp) (i_gmin inp) (i_gmax inp) r c D then img_mask inp D r c (cv r c k) else None.
Proof.
  intros A inp dmin dmax cv r c k Hk. cbv zeta.
  unfold cv_masked, in_pixel_interval, img_mask. cbv zeta. unfold mask_interval.
  destruct ((disp_scaled (i_s inp) dmin k <? i_gmin inp r c * i_s inp)
            || (i_gmax inp r c * i_s inp <? disp_scaled (i_s inp) dmin k)); cbn [negb]; [reflexivity|].
  unfold zrange. rewrite mask_fold_eq.
  destruct ((0 <=? k) && (k <? 0 + Z.of_nat (Z.to_nat (nb_disp (i_s inp) dmin dmax)))) eqn:E; [|lia].
  reflexivity.
Qed.

(* ------------------------------------------------------------------ the raw planes: functions of D only *)

Definition sadssd_raw (pw : Z -> Z -> Z) (inp : mc_input) (D r c : Z) : option Z :=
  sadssd_plane pw inp (shifted_images inp) D r c.

Definition census_raw (inp : mc_input) (D r c : Z) : option Z :=
  let ny := i_ny inp in let nx := i_nx inp in let s := i_s inp in let w := i_w inp in
  let off := offset w in
  let Rs := shifted_images inp in
  let cl := memo2 (ny - 2 * off) (nx - 2 * off) (census_transform w (i_L inp)) in
  let cr := memo1 s (fun i => memo2 (ny - 2 * off) (nx - 2 * off) (census_transform w (Rs i))) in
  census_plane inp cl cr D r c.

Definition zncc_raw (inp : mc_input) (D r c : Z) : option (Z * Z * Z) :=
  let ny := i_ny inp in let nx := i_nx inp in let s := i_s inp in let w := i_w inp in
  let off := offset w in
  let Rs := shifted_images inp in
  let ml := memo2 (ny - 2 * off) (nx - 2 * off) (sum_raster w ny nx (i_L inp)) in
  let vl := memo2 (ny - 2 * off) (nx - 2 * off) (var_raster w ny nx (i_L inp)) in
  let mr := memo1 s (fun i => memo2 (ny - 2 * off) (nx - 2 * off) (sum_raster w ny (shift_width nx i) (Rs i))) in
  let vr := memo1 s (fun i => memo2 (ny - 2 * off) (nx - 2 * off) (var_raster w ny (shift_width nx i) (Rs i))) in
  zncc_plane inp Rs ml vl mr vr D r c.

(* the cost of pixel (r, c) at the sample D when the pixel's interval allows it: no dmin, no dmax, no
   plane index, no grid *)
Definition mcell (m : measure) (inp : mc_input) (D r c : Z) : option cellv :=
  match m with
  | Sad => omap CQ (omap (cost_q (i_s inp)) (img_mask inp D r c (sadssd_raw ad_cost inp D r c)))
  | Ssd => omap CQ (omap (cost_q (i_s inp * i_s inp)) (img_mask inp D r c (sadssd_raw sd_cost inp D r c)))
  | Census => omap CQ (omap (cost_q 1) (img_mask inp D r c (census_raw inp D r c)))
  | Zncc => omap ct (img_mask inp D r c (zncc_raw inp D r c))
  end.

(* [mcell] does not look at the grids *)
Lemma mcell_with_grids : forall m inp g h D r c, mcell m (with_grids inp g h) D r c = mcell m inp D r c.
Proof. intros. destruct m; reflexivity. Qed.

(* MAIN LEMMA: every cell of the masked volume of every measure is [mcell] of its disparity sample,
   guarded by the pixel's own interval test.  Every r, c (also outside the image), every dmin, dmax. *)
Lemma mvolume_cell : forall m inp dmin dmax r c k,
  0 <= k < nb_disp (i_s inp) dmin dmax ->
  mvolume m inp dmin dmax r c k =
  let D := disp_scaled (i_s inp) dmin k in
  if in_pixel_interval (i_s inp) (i_gmin inp) (i_gmax inp) r c D then mcell m inp D r c else None.
Proof.
  intros m inp dmin dmax r c k Hk. cbv zeta. destruct m; unfold mvolume, mcell.
  - unfold sad_volume, sadssd_volume_z. cbv zeta. rewrite memo3_eq.
    rewrite (cv_masked_cell inp dmin dmax _ r c k Hk). cbv zeta. rewrite memo1_eq, memo2_eq.
    destruct (in_pixel_interval _ _ _ r c _); reflexivity.
  - unfold ssd_volume, sadssd_volume_z. cbv zeta. rewrite memo3_eq.
    rewrite (cv_masked_cell inp dmin dmax _ r c k Hk). cbv zeta. rewrite memo1_eq, memo2_eq.
    destruct (in_pixel_interval _ _ _ r c _); reflexivity.
  - unfold census_volume, census_volume_z. cbv zeta. rewrite memo3_eq.
    rewrite (cv_masked_cell inp dmin dmax _ r c k Hk). cbv zeta. rewrite memo1_eq, memo2_eq.
    destruct (in_pixel_interval _ _ _ r c _); reflexivity.
  - unfold zncc_volume. cbv zeta. rewrite memo3_eq.
    rewrite (cv_masked_cell inp dmin dmax _ r c k Hk). cbv zeta. rewrite memo1_eq, memo2_eq.
    destruct (in_pixel_interval _ _ _ r c _); reflexivity.
Qed.
