(* Proofs about the json-checker model: tactics deciding "schema accepts exactly the
   documented domain" for EVERY value, prologue (completion) lemmas, idempotence. *)
From Coq Require Import ZArith QArith Qround List Bool String Lia Lqa ZifyBool.
From Pandora Require Import Model.Json Model.Checker Spec.Domains.
Import ListNotations.
Open Scope Z_scope.
Ltac Zify.zify_post_hook ::= Z.to_euclidean_division_equations.

Global Arguments Z.ltb : simpl never.
Global Arguments Z.leb : simpl never.
Global Arguments Z.eqb : simpl never.
Global Arguments Z.modulo : simpl never.
Global Arguments Qle_bool : simpl never.
Global Arguments Qeq_bool : simpl never.
Global Arguments String.eqb : simpl never.
Global Arguments inject_Z : simpl never.

Lemma Qle_bool_false (a b : Q) : Qle_bool a b = false -> (~ a <= b)%Q.
Proof. intros H C. apply Qle_bool_iff in C. congruence. Qed.

Lemma Qeq_bool_false (a b : Q) : Qeq_bool a b = false -> (~ a == b)%Q.
Proof. intros H C. apply Qeq_bool_iff in C. congruence. Qed.

Ltac case_cmp :=
  repeat match goal with
  | |- context [Z.ltb ?a ?b] => destruct (Z.ltb_spec a b)
  | |- context [Z.leb ?a ?b] => destruct (Z.leb_spec a b)
  | |- context [Z.eqb ?a ?b] => destruct (Z.eqb_spec a b)
  | |- context [Qle_bool ?a ?b] =>
    let E := fresh "E" in destruct (Qle_bool a b) eqn:E;
    [apply Qle_bool_iff in E | apply Qle_bool_false in E]
  | |- context [Qeq_bool ?a ?b] =>
    let E := fresh "E" in destruct (Qeq_bool a b) eqn:E;
    [apply Qeq_bool_iff in E | apply Qeq_bool_false in E]
  | |- context [String.eqb ?a ?b] => destruct (String.eqb_spec a b); subst
  end.

Ltac finish_case :=
  cbn; try reflexivity; try discriminate;
  try (exfalso; lia);
  try (exfalso; unfold inject_Z in *; lra);
  try congruence.

(* forall v, accepts s v = in_dom d v  -- every integer (lia), every rational (lra), every
   other constructor by computation *)
Ltac solve_param :=
  let v := fresh "v" in
  intro v; destruct v as [z|q| |neg|s|b| |l|d];
  try (destruct b); try (destruct neg);
  cbn; unfold qltb; try reflexivity; case_cmp; finish_case.

(* ------------------------------------------------------------------------------------
   Agreement of a generated class with its documented parameter table *)

Definition same_set (a b : list string) : bool :=
  forallb (fun x => mem_str x b) a && forallb (fun x => mem_str x a) b.

(* the value tests of the prologue (`if "step" in cfg and cfg["step"] != 1: raise`) on key k *)
Definition guards (c : class_def) (k : string) (v : jv) : bool :=
  forallb (fun op => match op with
                     | PRequireEq k' z => if String.eqb k k' then py_eq_z v z else true
                     | _ => true
                     end) (c_prologue c).

(* one schema entry against the table: the method key accepts every registered name of the
   class (the registry dispatch polices the name itself); every other key accepts EXACTLY the
   documented domain *)
Definition entry_ok (c : class_def) (ps : list param) (e : string * bool * schema) : Prop :=
  let '(k, opt, s) := e in
  exists p, find_param k ps = Some p /\ p_optional p = opt /\
    (String.eqb k (c_method_key c) = true ->
       (match p_dom p with DMethod names => same_set names (c_names c) = true | _ => False end)
       /\ forall m, mem_str m (c_names c) = true -> accepts no_oracle s (JStr m) = true) /\
    (String.eqb k (c_method_key c) = false ->
       forall v, guards c k v && accepts no_oracle s v = in_dom (p_dom p) v).

Definition schema_keys (c : class_def) : list string := map (fun e => fst (fst e)) (c_schema c).

Fixpoint nodup_str (l : list string) : bool :=
  match l with [] => true | x :: r => negb (mem_str x r) && nodup_str r end.

(* the class and the table speak about the same set of keys, each once *)
Definition keys_ok (c : class_def) (ps : list param) : bool :=
  same_set (schema_keys c) (map p_name ps) && nodup_str (schema_keys c) && nodup_str (map p_name ps)
  && mem_str (c_method_key c) (schema_keys c).

Definition class_agrees (c : class_def) : Prop :=
  forall m, In m (c_names c) ->
  exists ps, find_doc (c_kind c) m documented = Some ps
             /\ keys_ok c ps = true
             /\ Forall (entry_ok c ps) (c_schema c).

Ltac solve_method_entry :=
  let m := fresh "m" in let H := fresh "H" in
  split; [vm_compute; reflexivity |];
  intros m H; cbn in H;
  repeat match type of H with
  | (String.eqb ?a ?b || _) = true =>
    destruct (String.eqb_spec a b); [subst; vm_compute; reflexivity | cbn in H]
  end; discriminate H.

Ltac solve_entry :=
  eexists; split; [vm_compute; reflexivity |];
  split; [vm_compute; reflexivity |];
  split;
  [ let H := fresh "H" in intro H; vm_compute in H;
    first [discriminate H | clear H; solve_method_entry]
  | let H := fresh "H" in intro H; vm_compute in H;
    first [discriminate H | clear H; cbn [p_dom]; unfold guards, py_eq_z; solve_param] ].

Ltac solve_entries :=
  repeat (apply Forall_cons; [solve_entry |]); apply Forall_nil.

Ltac solve_class :=
  let m := fresh "m" in let Hm := fresh "Hm" in
  intros m Hm; simpl in Hm;
  repeat (destruct Hm as [<- | Hm];
          [eexists; split; [vm_compute; reflexivity |];
           split; [vm_compute; reflexivity |];
           match goal with
           | |- Forall ?P ?l => let l' := eval hnf in l in change (Forall P l')
           end;
           solve_entries |]);
  contradiction.

(* ------------------------------------------------------------------------------------
   Completion: what the default prologue does to a configuration *)

Open Scope list_scope.

Definition is_nan_str (v : jv) : bool :=
  match v with JStr s => String.eqb s "NaN" | _ => false end.

(* no value is the string "NaN" (true after update_conf's conversion) *)
Definition clean (cfg : dict) : bool := negb (existsb (fun kv => is_nan_str (snd kv)) cfg).

Definition op_default (op : pro_op) : option (string * jv) :=
  match op with
  | PDefault k v | PDefaultOrNaN k v => Some (k, v)
  | _ => None
  end.

Definition ops_clean (ops : list pro_op) : bool :=
  forallb (fun op => match op_default op with Some (_, v) => negb (is_nan_str v) | None => true end) ops.

(* the defaults the prologue appends to cfg, in the prologue's order *)
Fixpoint appended (ops : list pro_op) (cfg : dict) : dict :=
  match ops with
  | [] => []
  | op :: r =>
    match op_default op with
    | Some (k, v) => if has_key k cfg then appended r cfg else (k, v) :: appended r (cfg ++ [(k, v)])
    | None => appended r cfg
    end
  end.

(* a value test on k is never contradicted by a later default of k *)
Fixpoint prologue_wf (ops : list pro_op) : bool :=
  match ops with
  | [] => true
  | PRequireEq k z :: r =>
    forallb (fun op => match op_default op with
                       | Some (k', d) => if String.eqb k k' then py_eq_z d z else true
                       | None => true
                       end) r && prologue_wf r
  | _ :: r => prologue_wf r
  end.

Lemma lookup_app k (a b : dict) :
  lookup k (a ++ b) = match lookup k a with Some v => Some v | None => lookup k b end.
Proof.
  induction a as [|[k' v'] a IH]; cbn; [reflexivity|].
  destruct (String.eqb k k'); [reflexivity | exact IH].
Qed.

Lemma has_key_app k (a b : dict) : has_key k (a ++ b) = has_key k a || has_key k b.
Proof. unfold has_key. rewrite lookup_app. destruct (lookup k a); reflexivity. Qed.

Lemma clean_app a b : clean (a ++ b) = clean a && clean b.
Proof. unfold clean. rewrite existsb_app, negb_orb. reflexivity. Qed.

Lemma clean_lookup k cfg s : clean cfg = true -> lookup k cfg = Some (JStr s) -> String.eqb s "NaN" = false.
Proof.
  unfold clean. induction cfg as [|[k' v'] cfg IH]; cbn; [discriminate|].
  rewrite negb_orb. intros H L. apply andb_prop in H as [H1 H2].
  destruct (String.eqb k k').
  - inversion L; subst. cbn in H1. now apply negb_true_iff in H1.
  - now apply IH.
Qed.

Lemma run_op_appends g op cfg c1 :
  clean cfg = true -> run_op g op cfg = Some c1 ->
  c1 = cfg ++ (match op_default op with
               | Some (k, v) => if has_key k cfg then [] else [(k, v)]
               | None => []
               end).
Proof.
  intros C R. destruct op as [k v|k v|k z|]; cbn in *.
  - inversion R; subst. destruct (has_key k cfg); [now rewrite app_nil_r | reflexivity].
  - unfold has_key. destruct (lookup k cfg) as [x|] eqn:L.
    + rewrite app_nil_r. destruct x; inversion R; subst; try reflexivity.
      now rewrite (clean_lookup _ _ _ C L).
    + now inversion R.
  - rewrite app_nil_r. destruct (lookup k cfg) as [x|]; [destruct (py_eq_z x z)|]; now inversion R.
  - rewrite app_nil_r. destruct g; now inversion R.
Qed.

Lemma run_prologue_appends g ops : forall cfg cfg',
  clean cfg = true -> ops_clean ops = true ->
  run_prologue g ops cfg = Some cfg' -> cfg' = cfg ++ appended ops cfg /\ clean cfg' = true.
Proof.
  induction ops as [|op r IH]; intros cfg cfg' C OC R; cbn in *.
  - inversion R; subst. now rewrite app_nil_r.
  - apply andb_prop in OC as [OC1 OC2].
    destruct (run_op g op cfg) as [c1|] eqn:E; [|discriminate].
    pose proof (run_op_appends _ _ _ _ C E) as H1.
    destruct (op_default op) as [[k v]|] eqn:D.
    + destruct (has_key k cfg) eqn:HK.
      * rewrite app_nil_r in H1. subst c1. now apply IH.
      * subst c1.
        assert (C1 : clean (cfg ++ [(k, v)]) = true).
        { rewrite clean_app, C. unfold clean. cbn. now rewrite orb_false_r, OC1. }
        destruct (IH _ _ C1 OC2 R) as [H2 H3]. split; [|exact H3].
        rewrite H2, <- app_assoc. reflexivity.
    + rewrite app_nil_r in H1. subst c1. now apply IH.
Qed.

(* what is appended: only defaults of keys the configuration did not have, and all of them *)
Lemma appended_in ops : forall cfg k v,
  In (k, v) (appended ops cfg) ->
  has_key k cfg = false /\ exists op, In op ops /\ op_default op = Some (k, v).
Proof.
  induction ops as [|op r IH]; intros cfg k v H; cbn in *; [contradiction|].
  destruct (op_default op) as [[k' v']|] eqn:D.
  - destruct (has_key k' cfg) eqn:HK.
    + destruct (IH _ _ _ H) as [A [o [B C]]]. split; [exact A|]. exists o. auto.
    + destruct H as [H|H].
      * inversion H; subst. split; [exact HK|]. exists op. auto.
      * destruct (IH _ _ _ H) as [A [o [B C]]]. rewrite has_key_app in A.
        apply orb_false_iff in A as [A _]. split; [exact A|]. exists o. auto.
  - destruct (IH _ _ _ H) as [A [o [B C]]]. split; [exact A|]. exists o. auto.
Qed.

Lemma string_eqb_sym a b : String.eqb a b = String.eqb b a.
Proof.
  destruct (String.eqb_spec a b), (String.eqb_spec b a); congruence.
Qed.

Lemma appended_complete ops : forall cfg k v op,
  In op ops -> op_default op = Some (k, v) ->
  has_key k cfg = true \/ has_key k (appended ops cfg) = true.
Proof.
  induction ops as [|o r IH]; intros cfg k v op I D; cbn in *; [contradiction|].
  destruct I as [->|I].
  - rewrite D. destruct (has_key k cfg) eqn:HK; [now left|right].
    unfold has_key. cbn. now rewrite String.eqb_refl.
  - destruct (op_default o) as [[k' v']|] eqn:D'.
    + destruct (has_key k' cfg) eqn:HK; [now apply (IH cfg k v op)|].
      destruct (IH (cfg ++ [(k', v')]) k v op I D) as [H|H].
      * rewrite has_key_app in H. apply orb_true_iff in H as [H|H]; [now left|right].
        unfold has_key in *. cbn in *. destruct (String.eqb k k'); [reflexivity|discriminate].
      * right. unfold has_key in *. cbn. destruct (String.eqb k k'); [reflexivity|exact H].
    + now apply (IH cfg k v op).
Qed.

(* ------------------------------------------------------------------------------------
   Idempotence *)

Lemma appended_lookup ops : forall cfg k d,
  lookup k (appended ops cfg) = Some d -> exists op, In op ops /\ op_default op = Some (k, d).
Proof.
  induction ops as [|o r IH]; intros cfg k d H; cbn in *; [discriminate|].
  destruct (op_default o) as [[k' v']|] eqn:D.
  - destruct (has_key k' cfg).
    + destruct (IH _ _ _ H) as [op [A B]]. exists op. auto.
    + cbn in H. destruct (String.eqb_spec k k').
      * inversion H; subst. exists o. auto.
      * destruct (IH _ _ _ H) as [op [A B]]. exists op. auto.
  - destruct (IH _ _ _ H) as [op [A B]]. exists op. auto.
Qed.

Lemma default_present g op cfg c1 k v :
  clean cfg = true -> op_default op = Some (k, v) -> run_op g op cfg = Some c1 -> has_key k c1 = true.
Proof.
  intros C D E. rewrite (run_op_appends _ _ _ _ C E), D.
  destruct (has_key k cfg) eqn:HK.
  - rewrite app_nil_r. exact HK.
  - rewrite has_key_app. unfold has_key at 2. cbn. rewrite String.eqb_refl. apply orb_true_r.
Qed.

Lemma run_prologue_fixed g ops : forall cfg cfg',
  clean cfg = true -> ops_clean ops = true -> prologue_wf ops = true ->
  run_prologue g ops cfg = Some cfg' ->
  forall op, In op ops -> run_op g op cfg' = Some cfg'.
Proof.
  induction ops as [|o r IH]; intros cfg cfg' C OC W R op I; [contradiction|].
  cbn [run_prologue] in R. destruct (run_op g o cfg) as [c1|] eqn:E; [|discriminate].
  pose proof (run_op_appends _ _ _ _ C E) as H1.
  assert (OC' := OC). cbn [ops_clean forallb] in OC'. apply andb_prop in OC' as [OC1 OC2].
  assert (C1 : clean c1 = true).
  { rewrite H1, clean_app, C. destruct (op_default o) as [[k v]|]; [|reflexivity].
    destruct (has_key k cfg); [reflexivity|]. unfold clean. cbn. now rewrite orb_false_r, OC1. }
  assert (W2 : prologue_wf r = true).
  { destruct o; cbn in W; try exact W. now apply andb_prop in W as [_ W]. }
  destruct I as [<-|I]; [|now apply (IH c1 cfg' C1 OC2 W2 R)].
  destruct (run_prologue_appends _ _ _ _ C1 OC2 R) as [H2 C2].
  destruct o as [k v|k v|k z|].
  - (* PDefault *)
    assert (HK : has_key k cfg' = true).
    { rewrite H2, has_key_app, (default_present g (PDefault k v) cfg c1 k v C eq_refl E). reflexivity. }
    cbn [run_op]. now rewrite HK.
  - (* PDefaultOrNaN *)
    assert (HK : has_key k c1 = true) by exact (default_present g (PDefaultOrNaN k v) cfg c1 k v C eq_refl E).
    unfold has_key in HK. destruct (lookup k c1) as [x|] eqn:L; [|discriminate].
    assert (L' : lookup k cfg' = Some x) by (rewrite H2, lookup_app, L; reflexivity).
    cbn [run_op]. rewrite L'. destruct x; try reflexivity.
    now rewrite (clean_lookup _ _ _ C2 L').
  - (* PRequireEq *)
    cbn [op_default] in H1. rewrite app_nil_r in H1. subst c1.
    cbn [run_op] in E |- *. rewrite H2, lookup_app.
    destruct (lookup k cfg) as [x|] eqn:L.
    + destruct (py_eq_z x z); [reflexivity|discriminate].
    + destruct (lookup k (appended r cfg)) as [d|] eqn:LA; [|reflexivity].
      destruct (appended_lookup _ _ _ _ LA) as [op [A B]].
      cbn [prologue_wf] in W. apply andb_prop in W as [W1 _].
      rewrite forallb_forall in W1. specialize (W1 _ A). rewrite B, String.eqb_refl in W1.
      now rewrite W1.
  - cbn [run_op] in E |- *. destruct g; [discriminate|reflexivity].
Qed.

Lemma run_prologue_of_fixed g ops cfg :
  (forall op, In op ops -> run_op g op cfg = Some cfg) ->
  run_prologue g ops cfg = Some cfg.
Proof.
  induction ops as [|o r IH]; intros H; cbn; [reflexivity|].
  rewrite (H o (or_introl eq_refl)). apply IH. intros op I. apply H. now right.
Qed.

Lemma class_check_appends g c cfg cfg' :
  clean cfg = true -> ops_clean (c_prologue c) = true ->
  class_check no_oracle g c cfg = Some cfg' ->
  cfg' = cfg ++ appended (c_prologue c) cfg.
Proof.
  unfold class_check. intros C OC H.
  destruct (run_prologue g (c_prologue c) cfg) as [c1|] eqn:R; [|discriminate].
  destruct (accepts no_oracle (SDict (c_schema c)) (JDict c1)); [|discriminate].
  inversion H; subst. now destruct (run_prologue_appends _ _ _ _ C OC R).
Qed.

Lemma class_check_idempotent g c cfg cfg' :
  clean cfg = true -> ops_clean (c_prologue c) = true -> prologue_wf (c_prologue c) = true ->
  class_check no_oracle g c cfg = Some cfg' ->
  class_check no_oracle g c cfg' = Some cfg'.
Proof.
  unfold class_check. intros C OC W H.
  destruct (run_prologue g (c_prologue c) cfg) as [c1|] eqn:R; [|discriminate].
  destruct (accepts no_oracle (SDict (c_schema c)) (JDict c1)) eqn:A; [|discriminate].
  inversion H; subst c1.
  rewrite (run_prologue_of_fixed g _ _ (run_prologue_fixed g _ _ _ C OC W R)).
  now rewrite A.
Qed.

(* ------------------------------------------------------------------------------------
   Defaults: boolean comparisons of the generated prologues with the documented table *)

Definition code_defaults (c : class_def) : dict :=
  flat_map (fun op => match op_default op with Some kv => [kv] | None => [] end) (c_prologue c).

Definition is_o1 (kind m k : string) : bool :=
  existsb (fun e => String.eqb (fst (fst e)) kind && String.eqb (snd (fst e)) m && String.eqb (snd e) k)
          o1_defaults.

(* every default written by the code is the documented default (except the O1 entries, listed
   in Spec/Domains.v), and every documented default is written by the code *)
Definition defaults_ok (c : class_def) : bool :=
  forallb (fun m =>
    match find_doc (c_kind c) m documented with
    | None => false
    | Some ps =>
      forallb (fun kv => match find_param (fst kv) ps with
                         | Some p => match p_default p with
                                     | Some d => jv_eqb d (snd kv) || is_o1 (c_kind c) m (fst kv)
                                     | None => false
                                     end
                         | None => false
                         end) (code_defaults c)
      && forallb (fun p => match p_default p with
                           | Some _ => has_key (p_name p) (code_defaults c)
                           | None => true
                           end) ps
    end) (c_names c).

Definition class_named (classes : list class_def) (kind m : string) : option class_def :=
  find (fun c => String.eqb (c_kind c) kind && mem_str m (c_names c)) classes.

Definition code_default_of (classes : list class_def) (kind m k : string) : option jv :=
  match class_named classes kind m with
  | Some c => lookup k (code_defaults c)
  | None => None
  end.

Definition property_defaults_ok (classes : list class_def) : bool :=
  forallb (fun e => let '(kind, m, k, v) := e in
                    match code_default_of classes kind m k with
                    | Some d => jv_eqb d v
                    | None => false
                    end) property_defaults.

(* O1 is an observation about real differences: each listed entry does differ *)
Definition o1_differs (classes : list class_def) : bool :=
  forallb (fun e => let '(kind, m, k) := e in
                    match code_default_of classes kind m k, find_doc kind m documented with
                    | Some d, Some ps =>
                      match find_param k ps with
                      | Some p => match p_default p with Some d' => negb (jv_eqb d d') | None => false end
                      | None => false
                      end
                    | _, _ => false
                    end) o1_defaults.

(* the classes of one step kind read the method name under the same key *)
Definition kinds_consistent (classes : list class_def) : bool :=
  forallb (fun c => forallb (fun c' => negb (String.eqb (c_kind c) (c_kind c'))
                                       || String.eqb (c_method_key c) (c_method_key c')) classes) classes.

Lemma unknown_method_rejected classes g kind cfg :
  kinds_consistent classes = true ->
  (forall c, In c classes -> c_kind c = kind ->
     match lookup (c_method_key c) cfg with
     | Some (JStr m) => mem_str m (c_names c) = false
     | _ => True
     end) ->
  step_check no_oracle classes g kind cfg = None.
Proof.
  intros K H. unfold step_check, find_class.
  destruct (find (fun c => String.eqb (c_kind c) kind) classes) as [c0|] eqn:F0; [|reflexivity].
  apply find_some in F0 as [I0 E0]. apply String.eqb_eq in E0.
  destruct (lookup (c_method_key c0) cfg) as [x|] eqn:L; [|reflexivity].
  destruct x; try reflexivity.
  destruct (find _ classes) as [c|] eqn:F; [|reflexivity].
  apply find_some in F as [I E]. apply andb_prop in E as [E1 E2]. apply String.eqb_eq in E1.
  specialize (H c I E1).
  assert (MK : c_method_key c = c_method_key c0).
  { unfold kinds_consistent in K. rewrite forallb_forall in K. specialize (K c I).
    rewrite forallb_forall in K. specialize (K c0 I0).
    rewrite E1, E0, String.eqb_refl in K. cbn in K. now apply String.eqb_eq in K. }
  rewrite MK, L in H. congruence.
Qed.
