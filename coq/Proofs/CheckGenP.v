(* C17, T-gen tie: the check functions regenerated from the Python source (Gen/CheckFns.v, produced by
   translator/gen_check_fns.py from pandora/check_configuration.py: check_shape, check_attributes,
   check_band_names, check_disparities_from_dataset, check_dataset, check_datasets,
   check_image_dimension, check_images, check_disparities_from_input) compute what the hand-written
   models (Model/DatasetCheck.v, Model/InputCheck.v) compute, for ALL inputs.

   These equalities are per-run obligations: Gen/CheckFns.v is rewritten from what the code says now
   and this file is re-checked against it.  An edit of the Python that changes what is computed
   breaks one of [gen_*_eq] (or the translator refuses the new shape).  The theorems of
   Proofs/DatasetCheckP.v / InputCheckP.v are then transported to the generated definitions.

   Datasets: equality holds for every dataset that is a mapping ([py_dataset]: variable names are
   unique).  Files: the generated functions read rasters ([rfile]: width, height, the samples of
   every band); the model reads the oracle [finfo]; they agree through the abstraction [finfo_of],
   whose bit f_gt is np_any (np_gt band1 band2). *)
From Coq Require Import ZArith QArith List Bool String Lia.
From Pandora Require Import Model.Json Model.Checker Model.DatasetCheck Model.InputCheck Model.InputInst
  Model.CheckPrims Spec.WellFormed Proofs.DatasetCheckP Proofs.InputCheckP Gen.Schemas Gen.InputFlow.
From Pandora Require Gen.CheckFns.
Import ListNotations.
Open Scope string_scope.
Open Scope list_scope.
Open Scope Z_scope.

Module G := Pandora.Gen.CheckFns.

(* ------------------------------------------------------------------ association lists *)

Lemma assoc_In {A} k (a : A) l : NoDup (map fst l) -> In (k, a) l -> assoc k l = Some a.
Proof.
  induction l as [|[k' a'] l IH]; intros ND H; [destruct H|].
  cbn [assoc]. inversion ND as [|? ? Hn ND']; subst. destruct H as [H|H].
  - inversion H; subst. now rewrite String.eqb_refl.
  - destruct (String.eqb k k') eqn:E; [|now apply IH].
    apply String.eqb_eq in E; subst. exfalso. apply Hn. change k' with (fst (k', a)). now apply in_map.
Qed.

Lemma assoc_None {A} k (l : list (string * A)) : ~ In k (map fst l) -> assoc k l = None.
Proof.
  induction l as [|[k' a'] l IH]; intro H; [reflexivity|]. cbn [assoc].
  destruct (String.eqb k k') eqn:E.
  - apply String.eqb_eq in E; subst. exfalso. apply H. now left.
  - apply IH. intro H'. apply H. now right.
Qed.

Lemma filter_all {A} (f : A -> bool) l : (forall x, In x l -> f x = true) -> filter f l = l.
Proof.
  induction l as [|x l IH]; intro H; [reflexivity|]. cbn [filter].
  rewrite (H x (or_introl eq_refl)). f_equal. apply IH. intros y Hy. apply H. now right.
Qed.

Lemma forallb_map' {A B} (f : A -> B) (g : B -> bool) l : forallb g (map f l) = forallb (fun x => g (f x)) l.
Proof. induction l as [|x l IH]; [reflexivity|]. cbn [map forallb]. now rewrite IH. Qed.

(* ------------------------------------------------------------------ the Dataset as a mapping *)

Definition var_entries (ds : dataset) : list (string * dataarray) :=
  map (fun e => (fst e, DAOther (snd e))) (ds_vars ds).

Lemma var_entries_keys ds : map fst (var_entries ds) = map fst (ds_vars ds).
Proof. unfold var_entries. rewrite map_map. reflexivity. Qed.

(* the entries after the image *)
Definition other_entries (ds : dataset) : list (string * dataarray) :=
  (match ds_disp ds with Some d => [("disparity", DADisp d)] | None => [] end) ++ var_entries ds.

Lemma ds_table_split ds :
  ds_table ds = (match ds_im ds with Some im => [("im", DAImage im)] | None => [] end) ++ other_entries ds.
Proof. reflexivity. Qed.

Lemma other_entries_keys_not_im ds : py_dataset ds -> ~ In "im" (map fst (other_entries ds)).
Proof.
  intros (_ & Him & _). unfold other_entries. rewrite map_app, var_entries_keys. intro H.
  apply in_app_or in H as [H|H]; [|now apply Him].
  destruct (ds_disp ds); [destruct H as [H|[]]; discriminate | destruct H].
Qed.

Lemma other_entries_nodup ds : py_dataset ds -> NoDup (map fst (other_entries ds)).
Proof.
  intros (ND & _ & Hd). unfold other_entries. rewrite map_app, var_entries_keys.
  destruct (ds_disp ds); cbn [map app fst]; [constructor; assumption | assumption].
Qed.

Lemma ds_table_nodup ds : py_dataset ds -> NoDup (map fst (ds_table ds)).
Proof.
  intro PD. rewrite ds_table_split, map_app.
  destruct (ds_im ds); cbn [map app fst].
  - constructor; [now apply other_entries_keys_not_im | now apply other_entries_nodup].
  - now apply other_entries_nodup.
Qed.

Lemma ds_contains_im ds : py_dataset ds ->
  ds_contains ds "im" = match ds_im ds with Some _ => true | None => false end.
Proof.
  intro PD. unfold ds_contains. rewrite ds_table_split.
  destruct (ds_im ds); cbn [app assoc]; [reflexivity|].
  now rewrite (assoc_None "im" _ (other_entries_keys_not_im ds PD)).
Qed.

Lemma ds_contains_disparity ds : py_dataset ds ->
  ds_contains ds "disparity" = match ds_disp ds with Some _ => true | None => false end.
Proof.
  intros (_ & _ & Hd). unfold ds_contains, ds_table.
  assert (E : forall l, assoc "disparity" ((match ds_im ds with Some im => [("im", DAImage im)] | None => [] end) ++ l)
                        = assoc "disparity" l) by (intro l; destruct (ds_im ds); reflexivity).
  rewrite E. destruct (ds_disp ds); cbn [app assoc]; [reflexivity|].
  rewrite (assoc_None "disparity"); [reflexivity|]. fold (var_entries ds). now rewrite var_entries_keys.
Qed.

(* what the loop of check_dataset iterates over: every variable but the image *)
Lemma ds_iter_filtered ds : py_dataset ds ->
  filter (fun i => negb (String.eqb i "im")) (ds_iter ds) = map fst (other_entries ds).
Proof.
  intro PD. unfold ds_iter. rewrite ds_table_split, map_app, filter_app.
  assert (F : filter (fun i => negb (String.eqb i "im")) (map fst (other_entries ds)) = map fst (other_entries ds)).
  { apply filter_all. intros x Hx. destruct (String.eqb x "im") eqn:E; [|reflexivity].
    apply String.eqb_eq in E; subst. exfalso. now apply (other_entries_keys_not_im ds PD). }
  rewrite F. destruct (ds_im ds); reflexivity.
Qed.

Lemma ds_item_entry ds k a : py_dataset ds -> In (k, a) (ds_table ds) -> ds_item ds k = Ok a.
Proof. intros PD H. unfold ds_item. now rewrite (assoc_In k a _ (ds_table_nodup ds PD) H). Qed.

Lemma other_entries_shapes ds : map (fun e => da_shape (snd e)) (other_entries ds) = other_shapes ds.
Proof.
  unfold other_entries, other_shapes, var_entries. rewrite map_app, map_map.
  destruct (ds_disp ds); reflexivity.
Qed.

(* ------------------------------------------------------------------ datasets: generated = model *)

(* check_shape(dataset, "im", name) for a variable of the dataset *)
Lemma gen_check_shape_eq ds im k a : py_dataset ds -> ds_im ds = Some im -> In (k, a) (ds_table ds) ->
  G.check_shape ds "im" k =
  if shape_eqb (last2 (im_shape im)) (last2 (da_shape a)) then Ok tt else Raise EValue.
Proof.
  intros PD Eim H. unfold G.check_shape.
  rewrite (ds_item_entry ds "im" (DAImage im) PD).
  2:{ rewrite ds_table_split, Eim. now left. }
  rewrite (ds_item_entry ds k a PD H). cbn [bind da_shape].
  now destruct (shape_eqb _ _).
Qed.

Lemma gen_check_shapes_loop ds im : py_dataset ds -> ds_im ds = Some im ->
  forall l, (forall e, In e l -> In e (ds_table ds)) ->
  for_each (map fst l) (fun data_var => G.check_shape ds "im" (py_str data_var)) =
  check_shapes im (map (fun e => da_shape (snd e)) l).
Proof.
  intros PD Eim. induction l as [|[k a] l IH]; intro H; [reflexivity|].
  cbn [map for_each fst snd]. unfold py_str at 1.
  rewrite (gen_check_shape_eq ds im k a PD Eim (H _ (or_introl eq_refl))).
  rewrite IH by (intros e He; apply H; now right).
  unfold check_shapes. cbn [forallb]. destruct (shape_eqb _ _); reflexivity.
Qed.

Lemma gen_check_attributes_eq ds m : G.check_attributes ds m = check_attributes m ds.
Proof.
  unfold G.check_attributes, check_attributes, set_diff, py_set.
  induction m as [|a m IH]; [reflexivity|]. cbn [filter forallb].
  destruct (mem_string a (ds_attrs ds)); cbn [negb andb]; [exact IH | reflexivity].
Qed.

Lemma gen_check_band_names_eq ds : G.check_band_names ds = check_band_names ds.
Proof.
  unfold G.check_band_names, check_band_names, ds_has_coord_band_im, ds_coord_band_im, bandname_is_str.
  destruct (ds_band_im ds) as [bands|]; cbn [bind]; [|reflexivity].
  change (forallb (fun band : bandname => band) bands) with (forallb (fun b : bool => b) bands).
  now destruct (forallb _ bands).
Qed.

Lemma np_any_gt_sel {A} (f g : A -> cell) l :
  np_any (np_gt (map f l) (map g l)) = existsb (fun px => cell_gt (f px) (g px)) l.
Proof.
  unfold np_any. induction l as [|x l IH]; [reflexivity|]. cbn [map np_gt existsb]. now rewrite IH.
Qed.

Lemma gen_check_disparities_from_dataset_eq d :
  G.check_disparities_from_dataset d = check_disparities_from_dataset d.
Proof.
  unfold G.check_disparities_from_dataset, check_disparities_from_dataset,
    da_has_coord_band_disp, da_coord_band_disp, labels_issubset, da_sel_band_disp.
  destruct (d_has_coord d); cbn [negb bind]; [|reflexivity].
  cbn [forallb]. rewrite andb_true_r.
  destruct (mem_label LMin (d_labels d)) eqn:E1; cbn [andb negb bind]; [|reflexivity].
  destruct (mem_label LMax (d_labels d)) eqn:E2; cbn [andb negb bind]; [|reflexivity].
  rewrite np_any_gt_sel. reflexivity.
Qed.

Lemma gen_check_dataset_eq ds : py_dataset ds ->
  G.check_dataset ds = check_dataset mandatory_attributes ds.
Proof.
  intro PD. unfold G.check_dataset, check_dataset.
  rewrite (ds_contains_im ds PD), (ds_contains_disparity ds PD).
  destruct (ds_im ds) as [im|] eqn:Eim; cbn [negb]; [|reflexivity].
  rewrite gen_check_band_names_eq. f_equal.
  unfold ds_item_im. rewrite Eim. cbn [bind]. unfold np_all, np_isnan.
  rewrite forallb_map'.
  change (forallb (fun x : cell => is_nan x) (im_cells im)) with (forallb is_nan (im_cells im)).
  destruct (forallb is_nan (im_cells im)) eqn:En; [reflexivity|].
  cbn [andthen]. f_equal.
  { unfold ds_item_disparity. destruct (ds_disp ds); cbn [bind]; [apply gen_check_disparities_from_dataset_eq | reflexivity]. }
  f_equal.
  - rewrite (ds_iter_filtered ds PD).
    rewrite (gen_check_shapes_loop ds im PD Eim (other_entries ds)).
    + now rewrite other_entries_shapes.
    + intros e He. rewrite ds_table_split. apply in_or_app. now right.
  - apply gen_check_attributes_eq.
Qed.

Lemma gen_check_datasets_eq l r : py_dataset l -> py_dataset r ->
  G.check_datasets l r = pandora_check_datasets l r.
Proof.
  intros Pl Pr. unfold G.check_datasets, pandora_check_datasets, check_datasets.
  rewrite (gen_check_dataset_eq l Pl), (gen_check_dataset_eq r Pr), (ds_contains_disparity l Pl).
  destruct (check_dataset mandatory_attributes l) as [[]|e] eqn:El; cbn [andthen]; [|reflexivity].
  destruct (check_dataset mandatory_attributes r) as [[]|e] eqn:Er; cbn [andthen]; [|reflexivity].
  destruct (ds_disp l); cbn [negb]; [|reflexivity].
  unfold ds_item_im.
  destruct (ds_im l) as [il|] eqn:Eil; [|unfold check_dataset in El; rewrite Eil in El; discriminate].
  destruct (ds_im r) as [ir|] eqn:Eir; [|unfold check_dataset in Er; rewrite Eir in Er; discriminate].
  cbn [bind]. now destruct (shape_eqb _ _).
Qed.

(* ------------------------------------------------------------------ input section: generated = model *)

Lemma gen_check_image_dimension_eq a b :
  G.check_image_dimension a b = check_image_dimension (finfo_of a) (finfo_of b).
Proof. reflexivity. Qed.

Lemma rasterio_open_abs fs v :
  InputCheck.rasterio_open (abs_fs fs) v =
  match rasterio_open fs v with Ok f => Ok (finfo_of f) | Raise e => Raise e end.
Proof.
  unfold InputCheck.rasterio_open, rasterio_open, abs_fs. destruct v; try reflexivity.
  now destruct (fs s).
Qed.

Lemma subscript_img_dict l v : subscript l "img" = Ok v -> exists d, l = JDict d.
Proof. destruct l; cbn; try discriminate. eauto. Qed.

Lemma andthen_assoc a b c : andthen (andthen a b) c = andthen a (andthen b c).
Proof. destruct a as [[]|]; reflexivity. Qed.

(* one side of one iteration of the loop of check_images, once user_cfg[side] is known to be a dictionary *)
Ltac optional_side fs d img :=
  unfold has_key; destruct (lookup img d) as [?v|]; cbn [bind]; [|reflexivity];
  rewrite rasterio_open_abs;
  match goal with v : jv |- _ =>
    destruct v; cbn [py_is_none negb bind]; try reflexivity;
    destruct (rasterio_open fs _); cbn [bind]; reflexivity
  end.

Lemma gen_check_images_eq fs inp :
  G.check_images fs inp = check_images (abs_fs fs) images_checked inp.
Proof.
  unfold G.check_images, images_checked. cbv zeta.
  generalize ["mask"; "classif"; "segm"]. intro names.
  unfold check_images, py_subscript.
  destruct (subscript inp "left") as [l|e] eqn:El; cbn [bind]; [|reflexivity].
  destruct (subscript l "img") as [limg|e] eqn:Eli; cbn [bind]; [|reflexivity].
  rewrite rasterio_open_abs.
  destruct (rasterio_open fs limg) as [fl|e]; cbn [bind]; [|reflexivity].
  destruct (subscript inp "right") as [r|e] eqn:Er; cbn [bind]; [|reflexivity].
  destruct (subscript r "img") as [rimg|e] eqn:Eri; cbn [bind]; [|reflexivity].
  rewrite rasterio_open_abs.
  destruct (rasterio_open fs rimg) as [fr|e]; cbn [bind]; [|reflexivity].
  rewrite gen_check_image_dimension_eq. f_equal.
  destruct (subscript_img_dict l limg Eli) as (dl & ->).
  destruct (subscript_img_dict r rimg Eri) as (dr & ->).
  induction names as [|img names IH]; [reflexivity|].
  cbn [for_each]. rewrite IH. clear IH.
  rewrite andthen_assoc. f_equal; [|f_equal]; cbn [bind py_contains subscript check_optional].
  - optional_side fs dl img.
  - optional_side fs dr img.
Qed.

Lemma py_index_list l i : (0 <= i < Z.of_nat (List.length l)) ->
  py_index (JList l) i = Ok (nth (Z.to_nat i) l JNull).
Proof.
  intro H. unfold py_index.
  destruct (i <? 0) eqn:E; [apply Z.ltb_lt in E; lia|].
  replace (0 <=? i) with true by (symmetry; apply Z.leb_le; lia).
  replace (i <? Z.of_nat (List.length l)) with true by (symmetry; apply Z.ltb_lt; lia).
  reflexivity.
Qed.

Lemma gen_check_disparities_from_input_eq fs disp img :
  G.check_disparities_from_input fs disp img = check_disparities_from_input (abs_fs fs) disp img.
Proof.
  unfold G.check_disparities_from_input, check_disparities_from_input.
  destruct disp as [z|q| |n|p|b| |l|d]; cbn [isinstance exact_type andthen]; try reflexivity.
  - (* a path *)
    rewrite !rasterio_open_abs.
    destruct (rasterio_open fs img) as [fi|e]; cbn [bind]; [|reflexivity].
    destruct (rasterio_open fs (JStr p)) as [fd|e]; cbn [bind]; [|reflexivity].
    cbn [finfo_of f_count f_w f_h f_gt].
    destruct (rf_count fd =? 2) eqn:Ec; cbn [negb]; [|reflexivity].
    destruct (negb (rf_width fd =? rf_width fi) || negb (rf_height fd =? rf_height fi)); [reflexivity|].
    apply Z.eqb_eq in Ec. unfold rio_read. rewrite Ec. cbn [Z.leb Z.compare andb Pos.compare Pos.compare_cont bind].
    change (Z.to_nat (1 - 1)) with 0%nat. change (Z.to_nat (2 - 1)) with 1%nat.
    now destruct (np_any _).
  - (* a list *)
    cbn [py_len bind].
    destruct (Nat.eqb (List.length l) 2) eqn:En.
    + apply Nat.eqb_eq in En. rewrite En. cbn [Z.of_nat Pos.of_succ_nat Pos.succ Z.eqb Pos.eqb negb].
      rewrite !py_index_list by (rewrite En; cbn; lia). cbn [bind].
      change (Z.to_nat 1) with 1%nat. change (Z.to_nat 0) with 0%nat.
      unfold py_lt.
      destruct (num_of (nth 1 l JNull)), (num_of (nth 0 l JNull)); cbn [bind]; try reflexivity.
      now destruct (num_lt _ _).
    + replace (Z.of_nat (List.length l) =? 2) with false; [reflexivity|].
      symmetry. apply Z.eqb_neq. apply Nat.eqb_neq in En. lia.
Qed.

(* ------------------------------------------------------------------ check_input_section around the generated checks *)

(* Model/InputCheck.v check_completed is the skeleton [check_completed_with] around the tail of the
   hand-written model *)
Lemma check_completed_is_with fs SC images cfg :
  check_completed fs SC images cfg =
  check_completed_with (orc fs) SC (model_custom fs images) cfg.
Proof.
  unfold check_completed, check_completed_with, model_custom.
  destruct (subscript cfg "input") as [inp|]; cbn [bind]; [|reflexivity].
  destruct (subscript inp "left") as [l|]; cbn [bind]; [|reflexivity].
  destruct (subscript l "disp") as [ld|]; cbn [bind]; [|reflexivity].
  destruct (if is_list ld then _ else _) as [rstr|]; cbn [bind]; reflexivity.
Qed.

(* the custom checking of check_input_section as regenerated (which check on which values of the
   completed configuration, in which order) = the tail of the hand-written model *)
Lemma gen_check_input_section_custom_eq fs cfg :
  G.check_input_section_custom fs cfg = model_custom (abs_fs fs) images_checked cfg.
Proof.
  unfold G.check_input_section_custom, model_custom, py_subscript.
  destruct (subscript cfg "input") as [inp|]; cbn [bind andthen]; [|reflexivity].
  destruct (subscript inp "left") as [l|]; cbn [bind andthen]; [|reflexivity].
  destruct (subscript l "disp") as [ld|]; cbn [bind andthen]; [|reflexivity].
  destruct (subscript l "img") as [limg|]; cbn [bind andthen]; [|reflexivity].
  rewrite gen_check_disparities_from_input_eq. f_equal.
  destruct (subscript inp "right") as [r|]; cbn [bind andthen]; [|reflexivity].
  destruct (subscript r "disp") as [rd|]; cbn [bind andthen]; [|reflexivity].
  destruct (subscript r "img") as [rimg|]; cbn [bind andthen]; [|reflexivity].
  rewrite gen_check_disparities_from_input_eq, gen_check_images_eq. reflexivity.
Qed.

(* what check_input_section does after update_conf, with its custom checking REGENERATED: the
   json-checker validation against the regenerated schemas (its two named validators read the file
   system: is the path openable), then Gen.CheckFns.check_input_section_custom, i.e. the generated
   check_disparities_from_input on the left and on the right values, then the generated check_images *)
Definition gen_check_completed (fs : string -> option rfile) (cfg : jv) : res unit :=
  check_completed_with (orc (abs_fs fs)) gen_schemas (G.check_input_section_custom fs) cfg.

Lemma gen_check_completed_eq fs cfg :
  gen_check_completed fs cfg = pandora_check_completed (abs_fs fs) cfg.
Proof.
  unfold gen_check_completed, pandora_check_completed. rewrite check_completed_is_with.
  unfold check_completed_with.
  destruct (subscript cfg "input") as [inp|]; cbn [bind]; [|reflexivity].
  destruct (subscript inp "left") as [l|]; cbn [bind]; [|reflexivity].
  destruct (subscript l "disp") as [ld|]; cbn [bind]; [|reflexivity].
  destruct (if is_list ld then _ else _) as [rstr|]; cbn [bind]; [|reflexivity].
  destruct (negb _); [reflexivity|]. apply gen_check_input_section_custom_eq.
Qed.

(* ------------------------------------------------------------------ the C17 theorems on the generated functions *)

Lemma gen_check_datasets_iff l r : py_dataset l -> py_dataset r -> labels_distinct l -> labels_distinct r ->
  (forall a, In a mandatory_attributes <-> In a five_attributes) ->
  (G.check_datasets l r = Ok tt <-> wf_pair false l r).
Proof.
  intros Pl Pr Ll Lr M. rewrite (gen_check_datasets_eq l r Pl Pr).
  exact (check_datasets_iff mandatory_attributes M l r Ll Lr).
Qed.

Lemma gen_interval_length_checked fs xs img :
  List.length xs <> 2%nat -> is_ok (G.check_disparities_from_input fs (JList xs) img) = false.
Proof.
  intro H. rewrite gen_check_disparities_from_input_eq. cbn [check_disparities_from_input].
  destruct (Nat.eqb (List.length xs) 2) eqn:E; [apply Nat.eqb_eq in E; contradiction | reflexivity].
Qed.

Lemma gen_check_completed_iff_documented fs cfg : interval_bool_free cfg = true ->
  is_ok (gen_check_completed fs cfg) = documented_b (abs_fs fs) cfg.
Proof.
  intro NB. rewrite gen_check_completed_eq. exact (check_completed_iff_documented (abs_fs fs) cfg NB).
Qed.

(* the oracle bit of a file, spelled out: some pixel has band 1 > band 2 (numpy comparison: a NaN
   sample never exceeds anything and is never exceeded) *)
Lemma finfo_gt_spec f b1 b2 rest : rf_bands f = b1 :: b2 :: rest -> List.length b1 = List.length b2 ->
  (f_gt (finfo_of f) = true <->
   exists i x y, nth_error b1 i = Some (Some x) /\ nth_error b2 i = Some (Some y) /\ ~ (x <= y)%Q).
Proof.
  intros E. unfold finfo_of. cbn [f_gt]. rewrite E. cbn [nth]. clear E. revert b2.
  unfold np_any.
  induction b1 as [|c1 b1 IH]; intros [|c2 b2] L; try discriminate.
  - cbn. split; [discriminate|]. intros (i & x & y & H & _). now destruct i.
  - cbn [np_gt existsb]. rewrite orb_true_iff. inversion L as [L'].
    rewrite (IH b2 L'). split.
    + intros [H|(i & x & y & H1 & H2 & H3)].
      * destruct c1 as [x|], c2 as [y|]; try discriminate. exists 0%nat, x, y.
        repeat split. cbn [cell_gt] in H. apply negb_true_iff in H. now apply Qle_bool_false_iff.
      * exists (S i), x, y. now repeat split.
    + intros (i & x & y & H1 & H2 & H3). destruct i as [|i].
      * left. cbn in H1, H2. inversion H1; inversion H2; subst. cbn [cell_gt].
        apply negb_true_iff. now apply Qle_bool_false_iff.
      * right. exists i, x, y. now repeat split.
Qed.
