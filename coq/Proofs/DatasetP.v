(* Proofs for C16: Model/Dataset.v (create_dataset_from_inputs and its helpers) satisfies the
   property sentence of Spec/Dataset.v, for every raster size, band count, nodata value, mask
   and window.  The window itself (Gen/Window.v) is treated in Proofs/WindowP.v. *)
From Coq Require Import ZArith QArith List Bool Lia.
From Pandora Require Import Model.Dataset Spec.Dataset.
Import ListNotations.
Open Scope Z_scope.

(* ------------------------------------------------------------------ lists *)

Lemma In_zrange off n x : In x (zrange off n) <-> off <= x < off + n.
Proof.
  unfold zrange. rewrite in_map_iff. split.
  - intros [i [<- Hi]]. apply in_seq in Hi. lia.
  - intros H. exists (Z.to_nat (x - off)). split; [lia|]. apply in_seq. lia.
Qed.

Lemma Forall2_maps {A B C} (R : B -> C -> Prop) (f : A -> B) (g : A -> C) l :
  (forall x, In x l -> R (f x) (g x)) -> Forall2 R (map f l) (map g l).
Proof.
  induction l as [|x l IH]; intros H; simpl; constructor.
  - apply H. now left.
  - apply IH. intros y Hy. apply H. now right.
Qed.

Lemma Forall2_map_l {A B} (R : B -> A -> Prop) (f : A -> B) l :
  (forall x, In x l -> R (f x) x) -> Forall2 R (map f l) l.
Proof.
  intros H. rewrite <- (map_id l) at 2. apply Forall2_maps. exact H.
Qed.

Lemma Forall2_map_r {A B} (R : A -> B -> Prop) (f : A -> B) l :
  (forall x, In x l -> R x (f x)) -> Forall2 R l (map f l).
Proof.
  intros H. rewrite <- (map_id l) at 1. apply Forall2_maps. exact H.
Qed.

Lemma existsb_map {A B} (f : A -> B) (p : B -> bool) l :
  existsb p (map f l) = existsb (fun x => p (f x)) l.
Proof. induction l; simpl; congruence. Qed.

Lemma existsb_ext_in {A} (p q : A -> bool) l :
  (forall x, In x l -> p x = q x) -> existsb p l = existsb q l.
Proof.
  induction l as [|x l IH]; intros H; simpl; auto.
  rewrite (H x) by now left. rewrite IH; auto. intros y Hy. apply H. now right.
Qed.

(* ------------------------------------------------------------------ nodata pixels *)

Lemma any_px_true p data :
  any_px p data = true <->
  exists a r c, In a data /\ 0 <= r < nr a /\ 0 <= c < nc a /\ p (px a r c) = true.
Proof.
  unfold any_px. rewrite existsb_exists. split.
  - intros [a [Ha H]]. rewrite existsb_exists in H. destruct H as [r [Hr H]].
    rewrite existsb_exists in H. destruct H as [c [Hc H]].
    apply In_zrange in Hr. apply In_zrange in Hc. exists a, r, c. repeat split; try lia; auto.
  - intros [a [r [c [Ha [Hr [Hc H]]]]]]. exists a. split; auto.
    apply existsb_exists. exists r. split. { apply In_zrange; lia. }
    apply existsb_exists. exists c. split. { apply In_zrange; lia. } exact H.
Qed.

Lemma any_px_false p data :
  any_px p data = false ->
  forall a r c, In a data -> 0 <= r < nr a -> 0 <= c < nc a -> p (px a r c) = false.
Proof.
  intros H a r c Ha Hr Hc. destruct (p (px a r c)) eqn:E; auto.
  rewrite <- H. symmetry. apply any_px_true. exists a, r, c. auto.
Qed.

Lemma Qeq_bool_sym x y : Qeq_bool x y = Qeq_bool y x.
Proof.
  destruct (Qeq_bool x y) eqn:E1; destruct (Qeq_bool y x) eqn:E2; auto.
  - apply Qeq_bool_iff in E1. symmetry in E1. apply Qeq_bool_iff in E1. congruence.
  - apply Qeq_bool_iff in E2. symmetry in E2. apply Qeq_bool_iff in E2. congruence.
Qed.

(* the three-way test of the code is "equals the nodata value", except that with an infinite
   nodata value it also accepts the infinity of the other sign *)
Lemma nodata_test_equals nd s :
  opposite_inf nd s = false -> nodata_test nd s = equals_nodata nd s.
Proof.
  destruct nd as [|p|q], s as [|p'|q']; simpl; auto.
  - destruct p, p'; simpl; auto; discriminate.
  - intros _. apply Qeq_bool_sym.
Qed.

Lemma special_is nd : special nd = nodata_is_nan_or_inf nd.
Proof. destruct nd; reflexivity. Qed.

Lemma replace_is_spec nd s :
  special nd = true -> opposite_inf nd s = false ->
  (if nodata_test nd s then minus9999 else s) = spec_sample nd s.
Proof.
  intros Hs Ho. unfold spec_sample. rewrite (nodata_test_equals _ _ Ho), <- special_is, Hs.
  reflexivity.
Qed.

Lemma add_no_data_im_map nd any data :
  add_no_data_im nd any data =
  map (fun a => if any && special nd
                then assign_where a (fun r c => nodata_test nd (px a r c)) minus9999 else a) data.
Proof.
  unfold add_no_data_im. destruct (any && special nd); auto. symmetry. apply map_id.
Qed.

(* value of a pixel of the image variable after add_no_data *)
Lemma px_add_no_data nd data a r c :
  In a data -> 0 <= r < nr a -> 0 <= c < nc a ->
  px (if any_px (nodata_test nd) data && special nd
      then assign_where a (fun r c => nodata_test nd (px a r c)) minus9999 else a) r c
  = if special nd && nodata_test nd (px a r c) then minus9999 else px a r c.
Proof.
  intros Ha Hr Hc. destruct (any_px (nodata_test nd) data) eqn:E; simpl.
  - destruct (special nd); simpl; reflexivity.
  - rewrite (any_px_false _ _ E a r c Ha Hr Hc). rewrite andb_false_r. reflexivity.
Qed.

(* ------------------------------------------------------------------ samples_unchanged *)

Definition data_of (inp : inputs) (win : option (Z * Z * Z * Z)) : list (arr sample) :=
  map (read win) (i_img inp).

Lemma create_dataset_unfold inp win :
  create_dataset inp win =
  let data := data_of inp win in
  let nd := i_nodata inp in
  let any := any_px (nodata_test nd) data in
  let ny := fst (shape_of data) in
  let nx := snd (shape_of data) in
  mkDs (add_no_data_im nd any data)
       (match data with [_] => None | _ => Some (i_names inp) end)
       (zrange (snd (offsets win)) ny)
       (zrange (fst (offsets win)) nx)
       (add_no_data_attr nd any)
       (add_mask ny nx (option_map (read win) (i_mask inp)) any (nd_pixel nd data))
       (add_disparity ny nx win (i_disp inp))
       (option_map (fun nb => (fst nb, map (read win) (snd nb))) (i_classif inp))
       (option_map (read win) (i_segm inp)).
Proof.
  unfold create_dataset, data_of. destruct (offsets win), (shape_of _). reflexivity.
Qed.

Lemma samples_unchanged inp win :
  let nd := i_nodata inp in
  let ds := create_dataset inp win in
  Forall2 (fun out d =>
             nr out = nr d /\ nc out = nc d /\
             forall r c, 0 <= r < nr d -> 0 <= c < nc d ->
                         opposite_inf nd (px d r c) = false ->
                         px out r c = spec_sample nd (px d r c))
          (d_im ds) (data_of inp win)
  /\ d_band_im ds = match data_of inp win with [_] => None | _ => Some (i_names inp) end.
Proof.
  intros nd ds. unfold ds, create_dataset. fold (data_of inp win).
  destruct (offsets win) as [col_off row_off]. destruct (shape_of (data_of inp win)) as [ny nx].
  cbn [d_im d_band_im]. split; [|reflexivity].
  rewrite add_no_data_im_map. apply Forall2_map_l. intros a Ha. fold nd.
  split; [|split].
  - destruct (_ && _); reflexivity.
  - destruct (_ && _); reflexivity.
  - intros r c Hr Hc Ho. rewrite px_add_no_data by auto. unfold spec_sample.
    rewrite (nodata_test_equals _ _ Ho), special_is. reflexivity.
Qed.

(* ------------------------------------------------------------------ mask *)

Lemma class_at_add_mask ny nx mask any ndp r c :
  (ndp r c = true -> any = true) ->
  class_at (add_mask ny nx mask any ndp) r c =
  if ndp r c then PNoData
  else match mask with
       | Some im => if mask_test (px im r c) then PInvalid else PValid
       | None => PValid
       end.
Proof.
  intros Hany. unfold add_mask.
  destruct mask as [im|]; [|destruct any].
  - cbn. destruct (ndp r c); [reflexivity|]. destruct (mask_test (px im r c)); reflexivity.
  - cbn. destruct (ndp r c); reflexivity.
  - cbn. destruct (ndp r c); [|reflexivity]. specialize (Hany eq_refl). discriminate.
Qed.

Lemma nd_pixel_any nd data r c :
  (forall a, In a data -> 0 <= r < nr a /\ 0 <= c < nc a) ->
  nd_pixel nd data r c = true -> any_px (nodata_test nd) data = true.
Proof.
  intros Hin H. unfold nd_pixel in H. apply existsb_exists in H. destruct H as [a [Ha H]].
  apply any_px_true. exists a, r, c. destruct (Hin a Ha). auto.
Qed.

Lemma nd_pixel_equals nd data r c :
  (forall a, In a data -> opposite_inf nd (px a r c) = false) ->
  nd_pixel nd data r c = existsb (equals_nodata nd) (map (fun a => px a r c) data).
Proof.
  intros Ho. unfold nd_pixel. rewrite existsb_map. apply existsb_ext_in.
  intros a Ha. apply nodata_test_equals. auto.
Qed.

Lemma mask_absent_iff inp win :
  let nd := i_nodata inp in
  d_msk (create_dataset inp win) = None <->
  (i_mask inp = None /\
   forall a r c, In a (data_of inp win) -> 0 <= r < nr a -> 0 <= c < nc a ->
                 nodata_test nd (px a r c) = false).
Proof.
  intros nd. unfold create_dataset. fold (data_of inp win).
  destruct (offsets win) as [col_off row_off]. destruct (shape_of (data_of inp win)) as [ny nx].
  cbn [d_msk]. fold nd. unfold add_mask.
  destruct (i_mask inp) as [im|]; cbn [option_map].
  - split; [discriminate|]. intros [H _]. discriminate.
  - destruct (any_px (nodata_test nd) (data_of inp win)) eqn:E.
    + split; [discriminate|]. intros [_ H]. apply any_px_true in E.
      destruct E as [a [r [c [Ha [Hr [Hc E]]]]]]. rewrite (H a r c Ha Hr Hc) in E. discriminate.
    + split; auto. intros _. split; auto. apply any_px_false. exact E.
Qed.

(* ------------------------------------------------------------------ disparity, classif, segm *)

Lemma disparity_var inp win :
  let ds := create_dataset inp win in
  let '(ny, nx) := shape_of (data_of inp win) in
  match i_disp inp with
  | DispNone => d_disp ds = None
  | DispPair a b =>
    exists d1 d2, d_disp ds = Some (d1, d2) /\
      nr d1 = ny /\ nc d1 = nx /\ nr d2 = ny /\ nc d2 = nx /\
      forall r c, px d1 r c = sz a /\ px d2 r c = sz b
  | DispGrid g1 g2 => d_disp ds = Some (read win g1, read win g2)
  end
  /\ d_classif ds = option_map (fun nb => (fst nb, map (read win) (snd nb))) (i_classif inp)
  /\ d_segm ds = option_map (read win) (i_segm inp).
Proof.
  unfold create_dataset. fold (data_of inp win).
  destruct (offsets win) as [col_off row_off]. destruct (shape_of (data_of inp win)) as [ny nx].
  cbn [d_disp d_classif d_segm]. split; [|split; reflexivity].
  destruct (i_disp inp) as [|a b|g1 g2]; cbn; auto.
  eexists _, _. split; [reflexivity|]. cbn. repeat split; reflexivity.
Qed.

(* ------------------------------------------------------------------ ROI read = crop *)

Lemma px_read {A} co ro w h (a : arr A) r c :
  px (read (Some (co, ro, w, h)) a) r c = px a (ro + r) (co + c).
Proof. reflexivity. Qed.

Definition crop2 (co ro w h : Z) (f r : arr sample * arr sample) : Prop :=
  crop_of co ro w h (fst f) (fst r) /\ crop_of co ro w h (snd f) (snd r).
Definition crop_classif (co ro w h : Z) (f r : list Z * list (arr Z)) : Prop :=
  fst f = fst r /\ Forall2 (crop_of co ro w h) (snd f) (snd r).

Lemma crop_read {A} co ro w h (a : arr A) : crop_of co ro w h a (read (Some (co, ro, w, h)) a).
Proof. repeat split. Qed.

Lemma roi_read_is_crop inp W H co ro w h :
  i_img inp <> [] ->
  Forall (fun a => nr a = H /\ nc a = W) (i_img inp) ->
  0 <= co -> 0 <= ro -> co + w <= W -> ro + h <= H ->
  let full := create_dataset inp None in
  let roi := create_dataset inp (Some (co, ro, w, h)) in
  (d_row full = zrange 0 H /\ d_col full = zrange 0 W /\
   d_row roi = zrange ro h /\ d_col roi = zrange co w) /\
  Forall2 (crop_of co ro w h) (d_im full) (d_im roi) /\
  d_band_im roi = d_band_im full /\
  (forall r c, 0 <= r < h -> 0 <= c < w ->
               class_at (d_msk roi) r c = class_at (d_msk full) (ro + r) (co + c)) /\
  opt_rel (crop2 co ro w h) (d_disp full) (d_disp roi) /\
  opt_rel (crop_classif co ro w h) (d_classif full) (d_classif roi) /\
  opt_rel (crop_of co ro w h) (d_segm full) (d_segm roi).
Proof.
  intros Hne Hshape Hco Hro Hw Hh.
  set (win := Some (co, ro, w, h)). intros full roi.
  assert (HdataF : data_of inp None = i_img inp) by (unfold data_of; apply map_id).
  assert (HshF : shape_of (i_img inp) = (H, W)).
  { destruct (i_img inp) as [|a l]; [congruence|]. inversion Hshape as [|? ? [Ha1 Ha2] ?]; subst.
    reflexivity. }
  assert (HshR : shape_of (data_of inp win) = (h, w)).
  { unfold data_of. destruct (i_img inp) as [|a l]; [congruence|]. reflexivity. }
  assert (HinF : forall a, In a (i_img inp) -> nr a = H /\ nc a = W).
  { apply Forall_forall. exact Hshape. }
  subst full roi. rewrite !create_dataset_unfold. cbv zeta.
  rewrite HdataF, HshF, HshR. cbn [offsets win fst snd].
  cbn [d_row d_col d_im d_band_im d_msk d_disp d_classif d_segm].
  set (nd := i_nodata inp).
  split; [auto|]. split; [|split; [|split; [|split; [|split]]]].
  - (* image samples *)
    rewrite !add_no_data_im_map. unfold data_of. rewrite map_map.
    apply Forall2_maps. intros a Ha. destruct (HinF a Ha) as [Hnr Hnc].
    split; [|split].
    + destruct (_ && _); reflexivity.
    + destruct (_ && _); reflexivity.
    + intros r c Hr Hc.
      change (map (read win) (i_img inp)) with (data_of inp win).
      rewrite (px_add_no_data nd (data_of inp win) (read win a) r c);
        [|unfold data_of; apply in_map; exact Ha|cbn; lia|cbn; lia].
      rewrite (px_add_no_data nd (i_img inp) a (ro + r) (co + c)) by (auto; lia).
      reflexivity.
  - (* band names *)
    unfold data_of. destruct (i_img inp) as [|a [|b l]]; reflexivity.
  - (* classification of every pixel *)
    intros r c Hr Hc.
    rewrite class_at_add_mask.
    2:{ apply nd_pixel_any. intros a Ha. unfold data_of in Ha. apply in_map_iff in Ha.
        destruct Ha as [a0 [<- _]]. cbn. lia. }
    rewrite class_at_add_mask.
    2:{ apply nd_pixel_any. intros a Ha. destruct (HinF a Ha). lia. }
    assert (Hnd : nd_pixel nd (data_of inp win) r c = nd_pixel nd (i_img inp) (ro + r) (co + c)).
    { unfold nd_pixel, data_of. rewrite existsb_map. reflexivity. }
    rewrite Hnd. destruct (i_mask inp); reflexivity.
  - (* disparity *)
    destruct (i_disp inp) as [|a b|g1 g2]; cbn; auto.
    + split; repeat split.
    + split; apply crop_read.
  - (* classif *)
    destruct (i_classif inp) as [[names bands]|]; cbn; auto. split; auto.
    apply Forall2_maps. intros a _. apply crop_read.
  - (* segm *)
    destruct (i_segm inp); cbn; auto. apply crop_read.
Qed.

(* ------------------------------------------------------------------ mask_semantics *)

(* the faithful statement: the classification written in msk is the one of the property *)
Definition mask_semantics_stmt : Prop :=
  forall inp win r c,
    let nd := i_nodata inp in
    let data := data_of inp win in
    let ds := create_dataset inp win in
    (forall a, In a data -> 0 <= r < nr a /\ 0 <= c < nc a) ->
    (forall a, In a data -> opposite_inf nd (px a r c) = false) ->
    class_at (d_msk ds) r c =
    spec_class nd (map (fun a => px a r c) data)
               (option_map (fun m => px (read win m) r c) (i_mask inp)).

Lemma class_at_create inp win r c :
  let nd := i_nodata inp in
  let data := data_of inp win in
  (forall a, In a data -> 0 <= r < nr a /\ 0 <= c < nc a) ->
  class_at (d_msk (create_dataset inp win)) r c =
  if nd_pixel nd data r c then PNoData
  else match i_mask inp with
       | Some im => if mask_test (px (read win im) r c) then PInvalid else PValid
       | None => PValid
       end.
Proof.
  intros nd data Hin. unfold create_dataset. fold (data_of inp win). fold data.
  destruct (offsets win) as [col_off row_off]. destruct (shape_of data) as [ny nx].
  cbn [d_msk]. fold nd. rewrite class_at_add_mask.
  - destruct (i_mask inp); reflexivity.
  - apply nd_pixel_any. exact Hin.
Qed.

Lemma mask_semantics : mask_semantics_stmt.
Proof.
  intros inp win r c nd data ds Hin Ho. unfold ds.
  rewrite class_at_create by exact Hin. fold nd data.
  rewrite (nd_pixel_equals nd data r c Ho). unfold spec_class.
  destruct (existsb _ _); [reflexivity|].
  destruct (i_mask inp) as [im|]; cbn [option_map]; [|reflexivity].
  unfold mask_test. destruct (px (read win im) r c =? 0); reflexivity.
Qed.

(* regression witness of D6 (input_mask > 0 classified a negative mask value as valid) *)
Definition ex_arr {A} (v : A) : arr A := mkArr 1 1 (fun _ _ => v).
Definition ex_inp_negmask : inputs :=
  mkIn [ex_arr (SFin 1)] [] (SFin (-9999 # 1)) (Some (ex_arr (-1))) DispNone None None.
Example negative_mask_value_is_invalid :
  class_at (d_msk (create_dataset ex_inp_negmask None)) 0 0 = PInvalid.
Proof. reflexivity. Qed.
