(* C04 x C02 -- the NaN pattern the flags are read against is the one C02 PROVES for the SAD / SSD
   cost-volume models: a sampled disparity (integer or k/subpix) is computable in the sense of
   Spec/Cost.v iff ... and some sample of the pixel is computable iff some INTEGER disparity of the
   global interval is computable in the sense of Spec/Validity.v (take the floor).  Hence, for these
   measures, "invalid flag <-> every cost of the model volume is NaN" without any hypothesis on the
   NaN pattern. *)
From Coq Require Import ZArith List Bool Lia ZifyBool QArith.
From Pandora Require Import Model.MatchingCost Model.Criteria Model.FlagSteps Spec.Cost Spec.Validity
  Proofs.MatchingCostP Proofs.FlagEnvP Proofs.CriteriaP.
Import ListNotations.
Open Scope Z_scope.

Definition mask_fun (m : option img) : Z -> Z -> Z := match m with Some f => f | None => fun _ _ => 0 end.
Definition has_mask (m : option img) : bool := match m with Some _ => true | None => false end.

(* the layout the criteria see for the inputs of the matching cost *)
Definition layout_of (inp : mc_input) (dmin dmax : Z) : layout :=
  mkLayout (i_ny inp) (i_nx inp) (offset (i_w inp)) dmin dmax (has_mask (i_mL inp)) (has_mask (i_mR inp))
           (mask_fun (i_mL inp)) (mask_fun (i_mR inp)) (i_nd inp) (i_vp inp) (i_nd inp) (i_vp inp).

Section Bridge.
  Variables (inp : mc_input) (dmin dmax : Z).
  Hypothesis Hcfg : wf_cfg inp.
  Let L := layout_of inp dmin dmax.
  Let S := scene_of L (i_gmin inp) (i_gmax inp).
  Local Notation w := (i_w inp).
  Local Notation s := (i_s inp).

  Lemma nodata_l : forall r c, s_lnodata S r c = is_nodata (i_nd inp) (i_mL inp) r c.
  Proof. intros. unfold S, scene_of, L, layout_of, is_nodata. cbn. destruct (i_mL inp); reflexivity. Qed.
  Lemma nodata_r : forall r c, s_rnodata S r c = is_nodata (i_nd inp) (i_mR inp) r c.
  Proof. intros. unfold S, scene_of, L, layout_of, is_nodata. cbn. destruct (i_mR inp); reflexivity. Qed.
  Lemma invalid_l : forall r c, s_linvalid S r c = is_invalid (i_vp inp) (i_nd inp) (i_mL inp) r c.
  Proof.
    intros. unfold S, scene_of, L, layout_of, is_invalid, isinv. cbn. destruct (i_mL inp); [|reflexivity].
    cbn. apply andb_comm.
  Qed.
  Lemma invalid_r : forall r c, s_rinvalid S r c = is_invalid (i_vp inp) (i_nd inp) (i_mR inp) r c.
  Proof.
    intros. unfold S, scene_of, L, layout_of, is_invalid, isinv. cbn. destruct (i_mR inp); [|reflexivity].
    cbn. apply andb_comm.
  Qed.

  (* a window (all its pixels in the image, none no-data), pixel by pixel <-> Spec/Validity's reading *)
  Lemma window_ok_iff : forall (N : Z -> Z -> bool) r x,
    (forall a b, In a (win w) -> In b (win w) ->
       in_image (i_ny inp) (i_nx inp) (r + a) (x + b) && negb (N (r + a) (x + b)) = true)
    <-> (win_in_b S r x = true /\ win_nodata_b S N r x = false).
  Proof.
    intros N r x. destruct Hcfg as (Hw & Hodd & Hs). destruct (odd_offset w Hw Hodd) as [_ Ho].
    assert (HW : forall a, In a (win w) <-> - offset w <= a <= offset w) by (intro; apply win_In; assumption).
    split.
    - intro H. split.
      + assert (H1 := H (- offset w) (- offset w)). assert (H2 := H (offset w) (offset w)).
        rewrite !HW in H1, H2. specialize (H1 ltac:(lia) ltac:(lia)). specialize (H2 ltac:(lia) ltac:(lia)).
        unfold win_in_b, S, scene_of, L, layout_of, in_image in *. cbn [s_off s_nr s_nc off nr nc]. lia.
      + destruct (win_nodata_b S N r x) eqn:Wn; [|reflexivity]. exfalso.
        apply win_nodata_b_iff in Wn. destruct Wn as (i & j & Hi & Hj & _ & Hn).
        unfold S, scene_of, L, layout_of in Hi, Hj. cbn [s_off off] in Hi, Hj.
        specialize (H (i - r) (j - x)). rewrite !HW in H. specialize (H ltac:(lia) ltac:(lia)).
        replace (r + (i - r)) with i in H by lia. replace (x + (j - x)) with j in H by lia.
        rewrite Hn in H. rewrite andb_false_r in H. discriminate.
    - intros [Hwi Hn] a b Ha Hb. rewrite HW in Ha, Hb.
      assert (Hin : in_image (i_ny inp) (i_nx inp) (r + a) (x + b) = true).
      { unfold win_in_b, S, scene_of, L, layout_of, in_image in *. cbn [s_off s_nr s_nc off nr nc] in Hwi. lia. }
      rewrite Hin. cbn [andb]. destruct (N (r + a) (x + b)) eqn:Nn; [|reflexivity]. exfalso.
      assert (Wn : win_nodata_b S N r x = true).
      { apply win_nodata_b_iff. exists (r + a), (x + b).
        unfold S, scene_of, L, layout_of. cbn [s_off off]. repeat split; try lia; try exact Nn.
        - unfold in_image in Hin. cbn [s_nr nr]. lia.
        - unfold in_image in Hin. cbn [s_nr nr]. lia.
        - unfold in_image in Hin. cbn [s_nc nc]. lia.
        - unfold in_image in Hin. cbn [s_nc nc]. lia. }
      congruence.
  Qed.

  Lemma left_ok_iff : forall r c,
    left_window_ok (i_ny inp) (i_nx inp) w (i_mL inp) (i_nd inp) r c = true
    <-> (win_in_b S r c = true /\ win_nodata_b S (s_lnodata S) r c = false).
  Proof.
    intros r c. unfold left_window_ok. rewrite forall_win_true.
    rewrite <- (window_ok_iff (s_lnodata S) r c).
    split; intros H a b Ha Hb; specialize (H a b Ha Hb); rewrite nodata_l in *; exact H.
  Qed.

  (* the right window at an integer offset e *)
  Lemma right_ok_int : forall r c e,
    (forall a b, In a (win w) -> In b (win w) ->
       in_image (i_ny inp) (i_nx inp) (r + a) (c + b + e) && negb (is_nodata (i_nd inp) (i_mR inp) (r + a) (c + b + e)) = true)
    <-> (win_in_b S r (c + e) = true /\ win_nodata_b S (s_rnodata S) r (c + e) = false).
  Proof.
    intros r c e. rewrite <- (window_ok_iff (s_rnodata S) r (c + e)).
    split; intros H a b Ha Hb; specialize (H a b Ha Hb); rewrite ?nodata_r in *;
      replace (c + e + b) with (c + b + e) in * by lia; exact H.
  Qed.

  (* a computable sample makes its floor a computable integer disparity *)
  Lemma sample_to_int : forall r c D, computable_in inp r c D = true ->
    computable_b S r c (D / s) = true /\ i_gmin inp r c <= D / s <= i_gmax inp r c.
  Proof.
    intros r c D H. destruct Hcfg as (Hw & Hodd & Hs).
    unfold computable_in, Cost.computable in H.
    apply andb_true_iff in H as [H Hint]. apply andb_true_iff in H as [H Hcen]. apply andb_true_iff in H as [Hl Hr].
    apply left_ok_iff in Hl as [Hl1 Hl2].
    unfold right_window_ok in Hr. rewrite forall_win_true in Hr.
    assert (Hr' : win_in_b S r (c + D / s) = true /\ win_nodata_b S (s_rnodata S) r (c + D / s) = false).
    { apply right_ok_int. intros a b Ha Hb. specialize (Hr a b Ha Hb). unfold dfloor in Hr.
      apply andb_true_iff in Hr as [Hr _]. apply andb_true_iff in Hr as [Hr _]. exact Hr. }
    destruct Hr' as [Hr1 Hr2].
    unfold centres_ok, dfloor in Hcen. apply andb_true_iff in Hcen as [Hcen _]. apply andb_true_iff in Hcen as [Hc1 Hc2].
    unfold Cost.in_interval in Hint. apply andb_true_iff in Hint as [Hi1 Hi2].
    apply Z.leb_le in Hi1, Hi2.
    assert (G1 : i_gmin inp r c <= D / s) by (apply Z.div_le_lower_bound; lia).
    assert (G2 : D / s <= i_gmax inp r c) by (apply Z.div_le_upper_bound; lia).
    split; [|lia]. unfold computable_b. rewrite Hl1, Hr1, Hl2, Hr2, invalid_l, invalid_r.
    apply negb_true_iff in Hc1, Hc2. rewrite Hc1, Hc2. cbn [negb andb].
    change (s_lmin S r c) with (i_gmin inp r c). change (s_lmax S r c) with (i_gmax inp r c). lia.
  Qed.

  (* a computable integer disparity is a computable sample *)
  Lemma int_to_sample : forall r c d, computable_b S r c d = true -> computable_in inp r c (d * s) = true.
  Proof.
    intros r c d H. destruct Hcfg as (Hw & Hodd & Hs).
    unfold computable_b in H.
    apply andb_true_iff in H as [H A8]. apply andb_true_iff in H as [H A7]. apply andb_true_iff in H as [H A6].
    apply andb_true_iff in H as [H A5]. apply andb_true_iff in H as [H A4]. apply andb_true_iff in H as [H A3].
    apply andb_true_iff in H as [A1 A2].
    assert (Hfl : d * s / s = d) by (apply Z.div_mul; lia).
    assert (Hce : - (- (d * s) / s) = d) by (replace (- (d * s)) with ((- d) * s) by lia; rewrite Z.div_mul by lia; lia).
    unfold computable_in, Cost.computable.
    apply negb_true_iff in A3, A4, A5, A6.
    assert (Hl : left_window_ok (i_ny inp) (i_nx inp) w (i_mL inp) (i_nd inp) r c = true) by (apply left_ok_iff; auto).
    rewrite Hl. cbn [andb].
    assert (Hr : right_window_ok (i_ny inp) (i_nx inp) w s (i_mR inp) (i_nd inp) r c (d * s) = true).
    { unfold right_window_ok. rewrite forall_win_true. intros a b Ha Hb. unfold dfloor, dceil. rewrite Hfl, Hce.
      assert (Hx := proj2 (right_ok_int r c d) (conj A2 A4) a b Ha Hb). rewrite Hx. exact Hx. }
    rewrite Hr. cbn [andb]. unfold centres_ok, dfloor, dceil. rewrite Hfl, Hce.
    rewrite <- invalid_l, <- invalid_r, A5, A6. cbn [negb andb].
    unfold Cost.in_interval. change (s_lmin S r c) with (i_gmin inp r c) in A7.
    change (s_lmax S r c) with (i_gmax inp r c) in A8. apply Z.leb_le in A7, A8. nia.
  Qed.

  (* any volume with C02's NaN pattern (SAD and SSD models: proved in C02) *)
  Variable vol : Z -> Z -> Z -> option Q.
  Hypothesis Hvol : forall r c k, 0 <= r < i_ny inp -> 0 <= c < i_nx inp -> 0 <= k < nb_disp s dmin dmax ->
    (vol r c k = None <-> computable_in inp r c (disp_scaled s dmin k) = false).
  Hypothesis Hd : dmin <= dmax.

  Definition vol_allnan (r c : Z) : bool :=
    forallb (fun k => match vol r c k with None => true | Some _ => false end)
            (Criteria.zrange 0 (nb_disp s dmin dmax - 1)).

  Lemma vol_nan_pattern : forall r c, 0 <= r < i_ny inp -> 0 <= c < i_nx inp ->
    nan_pattern_ok L (i_gmin inp) (i_gmax inp) vol_allnan r c.
  Proof.
    intros r c Hr Hc. destruct Hcfg as (Hw & Hodd & Hs).
    unfold nan_pattern_ok. fold S. rewrite <- no_cost_b_iff. unfold vol_allnan, no_cost_b.
    change (zr (s_dmin S) (s_dmax S)) with (zr dmin dmax). rewrite (zr_zrange dmin dmax).
    rewrite (CriteriaP.forallb_zrange _ 0 (nb_disp s dmin dmax - 1)), (CriteriaP.forallb_zrange _ dmin dmax).
    split.
    - intros H d Hdd. apply negb_true_iff. destruct (computable_b S r c d) eqn:Cb; [|reflexivity]. exfalso.
      apply int_to_sample in Cb.
      assert (Hk : 0 <= (d - dmin) * s < nb_disp s dmin dmax) by (unfold nb_disp; nia).
      specialize (H ((d - dmin) * s) ltac:(lia)).
      destruct (vol r c ((d - dmin) * s)) eqn:V; [discriminate|].
      apply (Hvol r c _ Hr Hc Hk) in V. unfold disp_scaled in V.
      replace (dmin * s + (d - dmin) * s) with (d * s) in V by lia. congruence.
    - intros H k Hk. destruct (vol r c k) eqn:V; [|reflexivity]. exfalso.
      assert (Hk' : 0 <= k < nb_disp s dmin dmax) by lia.
      assert (Cb : computable_in inp r c (disp_scaled s dmin k) = true).
      { destruct (computable_in inp r c (disp_scaled s dmin k)) eqn:Cc; [reflexivity|].
        apply (Hvol r c k Hr Hc Hk') in Cc. congruence. }
      apply sample_to_int in Cb as [Cb _]. unfold disp_scaled in Cb.
      assert (Hq : dmin <= (dmin * s + k) / s <= dmax).
      { unfold nb_disp in Hk'. split; [apply Z.div_le_lower_bound; nia | apply Z.div_le_upper_bound; nia]. }
      specialize (H _ Hq). rewrite Cb in H. discriminate.
  Qed.

  (* the story after the matching cost, with no hypothesis on the NaN pattern *)
  Theorem invalid_iff_allnan_vol : forall E r c, wf_env E = true ->
    0 <= r < i_ny inp -> 0 <= c < i_nx inp ->
    (Z.land (after_mc E L vol_allnan r c) 195 <> 0
     <-> forall k, 0 <= k < nb_disp s dmin dmax -> vol r c k = None).
  Proof.
    intros E r c Hwf Hr Hc. destruct Hcfg as (Hw & Hodd & Hs).
    destruct (odd_offset (i_w inp) Hw Hodd) as [_ Ho].
    rewrite (invalid_iff_allnan E L (i_gmin inp) (i_gmax inp) vol_allnan Hwf Ho Hd r c).
    - unfold vol_allnan. rewrite forallb_zrange. split; intros H k Hk.
      + specialize (H k ltac:(lia)). destruct (vol r c k); [discriminate | reflexivity].
      + rewrite (H k ltac:(lia)). reflexivity.
    - unfold in_img, scene_of, L, layout_of. cbn. lia.
    - apply vol_nan_pattern; assumption.
  Qed.
End Bridge.

(* SAD and SSD: C02's theorems give the NaN pattern *)
Lemma sad_pattern : forall inp dmin dmax, wf_cfg inp -> forall r c k,
  0 <= r < i_ny inp -> 0 <= c < i_nx inp -> 0 <= k < nb_disp (i_s inp) dmin dmax ->
  (sad_volume inp dmin dmax r c k = None <-> computable_in inp r c (disp_scaled (i_s inp) dmin k) = false).
Proof.
  intros inp dmin dmax Hcfg r c k Hr Hc Hk. rewrite (sad_model_eq_spec inp dmin dmax r c k Hcfg Hr Hc Hk). cbv zeta.
  destruct (computable_in inp r c (disp_scaled (i_s inp) dmin k)); split; congruence.
Qed.

Lemma ssd_pattern : forall inp dmin dmax, wf_cfg inp -> forall r c k,
  0 <= r < i_ny inp -> 0 <= c < i_nx inp -> 0 <= k < nb_disp (i_s inp) dmin dmax ->
  (ssd_volume inp dmin dmax r c k = None <-> computable_in inp r c (disp_scaled (i_s inp) dmin k) = false).
Proof.
  intros inp dmin dmax Hcfg r c k Hr Hc Hk. rewrite (ssd_model_eq_spec inp dmin dmax r c k Hcfg Hr Hc Hk). cbv zeta.
  destruct (computable_in inp r c (disp_scaled (i_s inp) dmin k)); split; congruence.
Qed.

Lemma invalid_iff_allnan_sad : forall E inp dmin dmax r c,
  wf_env E = true -> wf_cfg inp -> dmin <= dmax -> 0 <= r < i_ny inp -> 0 <= c < i_nx inp ->
  (Z.land (after_mc E (layout_of inp dmin dmax) (vol_allnan inp dmin dmax (sad_volume inp dmin dmax)) r c) 195 <> 0
   <-> forall k, 0 <= k < nb_disp (i_s inp) dmin dmax -> sad_volume inp dmin dmax r c k = None).
Proof.
  intros E inp dmin dmax r c Hwf Hcfg Hd Hr Hc.
  apply (invalid_iff_allnan_vol inp dmin dmax Hcfg (sad_volume inp dmin dmax) (sad_pattern inp dmin dmax Hcfg) Hd E r c Hwf Hr Hc).
Qed.

Lemma invalid_iff_allnan_ssd : forall E inp dmin dmax r c,
  wf_env E = true -> wf_cfg inp -> dmin <= dmax -> 0 <= r < i_ny inp -> 0 <= c < i_nx inp ->
  (Z.land (after_mc E (layout_of inp dmin dmax) (vol_allnan inp dmin dmax (ssd_volume inp dmin dmax)) r c) 195 <> 0
   <-> forall k, 0 <= k < nb_disp (i_s inp) dmin dmax -> ssd_volume inp dmin dmax r c k = None).
Proof.
  intros E inp dmin dmax r c Hwf Hcfg Hd Hr Hc.
  apply (invalid_iff_allnan_vol inp dmin dmax Hcfg (ssd_volume inp dmin dmax) (ssd_pattern inp dmin dmax Hcfg) Hd E r c Hwf Hr Hc).
Qed.

(* and the NaN pattern itself, in the words of Spec/Validity: for SAD / SSD the hypothesis [nan_pattern_ok] of
   the criteria theorems is a theorem *)
Lemma nan_pattern_sad : forall inp dmin dmax r c, wf_cfg inp -> dmin <= dmax ->
  0 <= r < i_ny inp -> 0 <= c < i_nx inp ->
  nan_pattern_ok (layout_of inp dmin dmax) (i_gmin inp) (i_gmax inp)
                 (vol_allnan inp dmin dmax (sad_volume inp dmin dmax)) r c.
Proof.
  intros inp dmin dmax r c Hcfg Hd Hr Hc.
  apply (vol_nan_pattern inp dmin dmax Hcfg (sad_volume inp dmin dmax) (sad_pattern inp dmin dmax Hcfg) r c Hr Hc).
Qed.
