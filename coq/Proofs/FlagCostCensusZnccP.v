(* C04 x C02 -- the NaN pattern the flags are read against, for the CENSUS and ZNCC cost-volume models, and for
   every built-in measure at once.

   Proofs/FlagCostP.v turns "every cell of the volume is NaN exactly when the sample is not computable" (C02)
   into [nan_pattern_ok] (all costs of the pixel NaN iff no INTEGER disparity of the global interval is
   computable in the sense of Spec/Validity.v) for any volume of rational cells.  Here:
   * the same for a volume whose cells have ANY type (the zncc model keeps an integer triple per cell): only
     the NaN shape of the volume matters;
   * C02's census / zncc theorems (Proofs/CensusP.v, Proofs/ZnccP.v) give that shape, images smaller than the
     window included: there [computable_in] is false for every pixel and sample (no window fits), the model volume
     is all NaN (early return [too_small]), and the criteria raise bit 0 on every pixel (mask_border covers the
     whole image: no pixel is at distance >= offset from the four sides);
   * hence "invalid flag <-> every cost of the pixel is NaN" and "flag = documented causes" with NO hypothesis
     on the NaN pattern, for sad, ssd, census (window with w * w <= 32 as in C02_census_model_eq_spec: the
     windows 1, 3, 5; Pandora accepts 3 and 5) and zncc. *)
From Coq Require Import ZArith List Bool Lia ZifyBool QArith.
From Pandora Require Import Model.MatchingCost Model.Criteria Model.FlagSteps Spec.Cost Spec.Validity
  Proofs.MatchingCostP Proofs.CensusP Proofs.ZnccP Proofs.FlagEnvP Proofs.CriteriaP Proofs.FlagCostP.
Import ListNotations.
Open Scope Z_scope.

(* ------------------------------------------------------------------ volumes of any cell type *)

(* "every cost of pixel (r, c) in the volume is NaN", cells of any type *)
Definition vol_allnan_any {A : Type} (s dmin dmax : Z) (vol : Z -> Z -> Z -> option A) (r c : Z) : bool :=
  forallb (fun k => match vol r c k with None => true | Some _ => false end)
          (Criteria.zrange 0 (nb_disp s dmin dmax - 1)).

(* the NaN shape of a volume, as a volume of rationals *)
Definition nan_shape {A : Type} (vol : Z -> Z -> Z -> option A) : Z -> Z -> Z -> option Q :=
  fun r c k => match vol r c k with Some _ => Some 0%Q | None => None end.

Lemma vol_allnan_any_shape : forall (A : Type) inp dmin dmax (vol : Z -> Z -> Z -> option A) r c,
  vol_allnan_any (i_s inp) dmin dmax vol r c = vol_allnan inp dmin dmax (nan_shape vol) r c.
Proof.
  intros. unfold vol_allnan_any, vol_allnan, nan_shape.
  induction (Criteria.zrange 0 (nb_disp (i_s inp) dmin dmax - 1)) as [|k l IH]; [reflexivity|].
  cbn [forallb]. rewrite IH. destruct (vol r c k); reflexivity.
Qed.

Lemma vol_allnan_any_Q : forall inp dmin dmax (vol : Z -> Z -> Z -> option Q) r c,
  vol_allnan_any (i_s inp) dmin dmax vol r c = vol_allnan inp dmin dmax vol r c.
Proof. reflexivity. Qed.

Section BridgeAny.
  Variables (A : Type) (inp : mc_input) (dmin dmax : Z).
  Hypothesis Hcfg : wf_cfg inp.
  Hypothesis Hd : dmin <= dmax.
  Variable vol : Z -> Z -> Z -> option A.
  Hypothesis Hvol : forall r c k, 0 <= r < i_ny inp -> 0 <= c < i_nx inp -> 0 <= k < nb_disp (i_s inp) dmin dmax ->
    (vol r c k = None <-> computable_in inp r c (disp_scaled (i_s inp) dmin k) = false).

  Lemma shape_pattern : forall r c k, 0 <= r < i_ny inp -> 0 <= c < i_nx inp -> 0 <= k < nb_disp (i_s inp) dmin dmax ->
    (nan_shape vol r c k = None <-> computable_in inp r c (disp_scaled (i_s inp) dmin k) = false).
  Proof.
    intros r c k Hr Hc Hk. rewrite <- (Hvol r c k Hr Hc Hk). unfold nan_shape.
    destruct (vol r c k); split; congruence.
  Qed.

  Lemma vol_nan_pattern_any : forall r c, 0 <= r < i_ny inp -> 0 <= c < i_nx inp ->
    nan_pattern_ok (layout_of inp dmin dmax) (i_gmin inp) (i_gmax inp)
                   (vol_allnan_any (i_s inp) dmin dmax vol) r c.
  Proof.
    intros r c Hr Hc. unfold nan_pattern_ok. rewrite vol_allnan_any_shape.
    exact (vol_nan_pattern inp dmin dmax Hcfg (nan_shape vol) shape_pattern r c Hr Hc).
  Qed.

  Lemma after_mc_allnan_ext : forall E L (f g : Z -> Z -> bool) r c, f r c = g r c ->
    after_mc E L f r c = after_mc E L g r c.
  Proof. intros E L f g r c H. unfold after_mc. rewrite H. reflexivity. Qed.

  Lemma invalid_iff_allnan_vol_any : forall E r c, wf_env E = true ->
    0 <= r < i_ny inp -> 0 <= c < i_nx inp ->
    (Z.land (after_mc E (layout_of inp dmin dmax) (vol_allnan_any (i_s inp) dmin dmax vol) r c) 195 <> 0
     <-> forall k, 0 <= k < nb_disp (i_s inp) dmin dmax -> vol r c k = None).
  Proof.
    intros E r c Hwf Hr Hc.
    rewrite (after_mc_allnan_ext E _ _ (vol_allnan inp dmin dmax (nan_shape vol)) r c (vol_allnan_any_shape A inp dmin dmax vol r c)).
    rewrite (invalid_iff_allnan_vol inp dmin dmax Hcfg (nan_shape vol) shape_pattern Hd E r c Hwf Hr Hc).
    unfold nan_shape. split; intros H k Hk; specialize (H k Hk); destruct (vol r c k); congruence.
  Qed.

  (* the whole flag, not only its invalid bits: the documented causes *)
  Lemma after_mc_expected_vol_any : forall E r c, wf_env E = true ->
    0 <= r < i_ny inp -> 0 <= c < i_nx inp ->
    after_mc E (layout_of inp dmin dmax) (vol_allnan_any (i_s inp) dmin dmax vol) r c
    = expected_flag (scene_of (layout_of inp dmin dmax) (i_gmin inp) (i_gmax inp)) r c.
  Proof.
    intros E r c Hwf Hr Hc. pose proof Hcfg as (Hw & Hodd & Hs).
    destruct (odd_offset (i_w inp) Hw Hodd) as [_ Ho].
    apply (flag_expected E (layout_of inp dmin dmax) (i_gmin inp) (i_gmax inp) _ Hwf Ho Hd r c).
    - unfold in_img, scene_of, layout_of. cbn. lia.
    - apply vol_nan_pattern_any; assumption.
  Qed.
End BridgeAny.

(* ------------------------------------------------------------------ census, zncc: C02 gives the NaN shape *)

Lemma census_pattern : forall inp dmin dmax, wf_cfg inp -> i_w inp * i_w inp <= 32 -> forall r c k,
  0 <= r < i_ny inp -> 0 <= c < i_nx inp -> 0 <= k < nb_disp (i_s inp) dmin dmax ->
  (census_volume inp dmin dmax r c k = None <-> computable_in inp r c (disp_scaled (i_s inp) dmin k) = false).
Proof.
  intros inp dmin dmax Hcfg Hww r c k Hr Hc Hk.
  rewrite (census_model_eq_spec inp dmin dmax r c k Hcfg Hww Hr Hc Hk). cbv zeta.
  destruct (computable_in inp r c (disp_scaled (i_s inp) dmin k)); split; congruence.
Qed.

Lemma zncc_pattern : forall inp dmin dmax, wf_cfg inp -> forall r c k,
  0 <= r < i_ny inp -> 0 <= c < i_nx inp -> 0 <= k < nb_disp (i_s inp) dmin dmax ->
  (zncc_volume inp dmin dmax r c k = None <-> computable_in inp r c (disp_scaled (i_s inp) dmin k) = false).
Proof.
  intros inp dmin dmax Hcfg r c k Hr Hc Hk.
  rewrite (zncc_volume_eq inp dmin dmax r c k Hcfg Hr Hc Hk). cbv zeta.
  destruct (computable_in inp r c (disp_scaled (i_s inp) dmin k)); split; congruence.
Qed.

Lemma nan_pattern_census : forall inp dmin dmax r c, wf_cfg inp -> i_w inp * i_w inp <= 32 -> dmin <= dmax ->
  0 <= r < i_ny inp -> 0 <= c < i_nx inp ->
  nan_pattern_ok (layout_of inp dmin dmax) (i_gmin inp) (i_gmax inp)
                 (vol_allnan inp dmin dmax (census_volume inp dmin dmax)) r c.
Proof.
  intros inp dmin dmax r c Hcfg Hww Hd Hr Hc.
  apply (vol_nan_pattern inp dmin dmax Hcfg (census_volume inp dmin dmax) (census_pattern inp dmin dmax Hcfg Hww) r c Hr Hc).
Qed.

Lemma nan_pattern_ssd : forall inp dmin dmax r c, wf_cfg inp -> dmin <= dmax ->
  0 <= r < i_ny inp -> 0 <= c < i_nx inp ->
  nan_pattern_ok (layout_of inp dmin dmax) (i_gmin inp) (i_gmax inp)
                 (vol_allnan inp dmin dmax (ssd_volume inp dmin dmax)) r c.
Proof.
  intros inp dmin dmax r c Hcfg Hd Hr Hc.
  apply (vol_nan_pattern inp dmin dmax Hcfg (ssd_volume inp dmin dmax) (ssd_pattern inp dmin dmax Hcfg) r c Hr Hc).
Qed.

Lemma nan_pattern_zncc : forall inp dmin dmax r c, wf_cfg inp -> dmin <= dmax ->
  0 <= r < i_ny inp -> 0 <= c < i_nx inp ->
  nan_pattern_ok (layout_of inp dmin dmax) (i_gmin inp) (i_gmax inp)
                 (vol_allnan_any (i_s inp) dmin dmax (zncc_volume inp dmin dmax)) r c.
Proof.
  intros inp dmin dmax r c Hcfg Hd Hr Hc.
  apply (vol_nan_pattern_any _ inp dmin dmax Hcfg (zncc_volume inp dmin dmax) (zncc_pattern inp dmin dmax Hcfg) r c Hr Hc).
Qed.

Lemma invalid_iff_allnan_census : forall E inp dmin dmax r c,
  wf_env E = true -> wf_cfg inp -> i_w inp * i_w inp <= 32 -> dmin <= dmax ->
  0 <= r < i_ny inp -> 0 <= c < i_nx inp ->
  (Z.land (after_mc E (layout_of inp dmin dmax) (vol_allnan inp dmin dmax (census_volume inp dmin dmax)) r c) 195 <> 0
   <-> forall k, 0 <= k < nb_disp (i_s inp) dmin dmax -> census_volume inp dmin dmax r c k = None).
Proof.
  intros E inp dmin dmax r c Hwf Hcfg Hww Hd Hr Hc.
  apply (invalid_iff_allnan_vol inp dmin dmax Hcfg (census_volume inp dmin dmax)
           (census_pattern inp dmin dmax Hcfg Hww) Hd E r c Hwf Hr Hc).
Qed.

Lemma invalid_iff_allnan_zncc : forall E inp dmin dmax r c,
  wf_env E = true -> wf_cfg inp -> dmin <= dmax -> 0 <= r < i_ny inp -> 0 <= c < i_nx inp ->
  (Z.land (after_mc E (layout_of inp dmin dmax) (vol_allnan_any (i_s inp) dmin dmax (zncc_volume inp dmin dmax)) r c) 195 <> 0
   <-> forall k, 0 <= k < nb_disp (i_s inp) dmin dmax -> zncc_volume inp dmin dmax r c k = None).
Proof.
  intros E inp dmin dmax r c Hwf Hcfg Hd Hr Hc.
  apply (invalid_iff_allnan_vol_any _ inp dmin dmax Hcfg Hd (zncc_volume inp dmin dmax)
           (zncc_pattern inp dmin dmax Hcfg) E r c Hwf Hr Hc).
Qed.

(* ------------------------------------------------------------------ every built-in measure *)

(* is cell (r, c, k) of the cost volume of measure [m] NaN *)
Definition measure_cell_nan (m : measure) (inp : mc_input) (dmin dmax r c k : Z) : bool :=
  match m with
  | Sad => match sad_volume inp dmin dmax r c k with None => true | Some _ => false end
  | Ssd => match ssd_volume inp dmin dmax r c k with None => true | Some _ => false end
  | Census => match census_volume inp dmin dmax r c k with None => true | Some _ => false end
  | Zncc => match zncc_volume inp dmin dmax r c k with None => true | Some _ => false end
  end.

(* "every cost of pixel (r, c) is NaN" in the volume of measure [m] *)
Definition measure_allnan (m : measure) (inp : mc_input) (dmin dmax r c : Z) : bool :=
  forallb (measure_cell_nan m inp dmin dmax r c) (Criteria.zrange 0 (nb_disp (i_s inp) dmin dmax - 1)).

(* the windows for which C02 has a model = spec theorem: census packs the window in a uint32 *)
Definition measure_window_ok (m : measure) (inp : mc_input) : Prop :=
  match m with Census => i_w inp * i_w inp <= 32 | _ => True end.

Lemma measure_allnan_unfold : forall m inp dmin dmax r c,
  measure_allnan m inp dmin dmax r c =
  match m with
  | Sad => vol_allnan inp dmin dmax (sad_volume inp dmin dmax) r c
  | Ssd => vol_allnan inp dmin dmax (ssd_volume inp dmin dmax) r c
  | Census => vol_allnan inp dmin dmax (census_volume inp dmin dmax) r c
  | Zncc => vol_allnan_any (i_s inp) dmin dmax (zncc_volume inp dmin dmax) r c
  end.
Proof. intros. destruct m; reflexivity. Qed.

Lemma measure_pattern : forall m inp dmin dmax, wf_cfg inp -> measure_window_ok m inp -> forall r c k,
  0 <= r < i_ny inp -> 0 <= c < i_nx inp -> 0 <= k < nb_disp (i_s inp) dmin dmax ->
  (measure_cell_nan m inp dmin dmax r c k = true <-> computable_in inp r c (disp_scaled (i_s inp) dmin k) = false).
Proof.
  intros m inp dmin dmax Hcfg Hw r c k Hr Hc Hk. destruct m; cbn [measure_cell_nan measure_window_ok] in *.
  - rewrite <- (sad_pattern inp dmin dmax Hcfg r c k Hr Hc Hk). destruct (sad_volume inp dmin dmax r c k); split; congruence.
  - rewrite <- (ssd_pattern inp dmin dmax Hcfg r c k Hr Hc Hk). destruct (ssd_volume inp dmin dmax r c k); split; congruence.
  - rewrite <- (census_pattern inp dmin dmax Hcfg Hw r c k Hr Hc Hk).
    destruct (census_volume inp dmin dmax r c k); split; congruence.
  - rewrite <- (zncc_pattern inp dmin dmax Hcfg r c k Hr Hc Hk). destruct (zncc_volume inp dmin dmax r c k); split; congruence.
Qed.

Lemma nan_pattern_every_measure : forall m inp dmin dmax r c, wf_cfg inp -> measure_window_ok m inp -> dmin <= dmax ->
  0 <= r < i_ny inp -> 0 <= c < i_nx inp ->
  nan_pattern_ok (layout_of inp dmin dmax) (i_gmin inp) (i_gmax inp) (measure_allnan m inp dmin dmax) r c.
Proof.
  intros m inp dmin dmax r c Hcfg Hw Hd Hr Hc. unfold nan_pattern_ok. rewrite measure_allnan_unfold.
  destruct m; cbn [measure_window_ok] in Hw.
  - exact (nan_pattern_sad inp dmin dmax r c Hcfg Hd Hr Hc).
  - exact (nan_pattern_ssd inp dmin dmax r c Hcfg Hd Hr Hc).
  - exact (nan_pattern_census inp dmin dmax r c Hcfg Hw Hd Hr Hc).
  - exact (nan_pattern_zncc inp dmin dmax r c Hcfg Hd Hr Hc).
Qed.

Lemma invalid_iff_allnan_every_measure : forall m E inp dmin dmax r c,
  wf_env E = true -> wf_cfg inp -> measure_window_ok m inp -> dmin <= dmax ->
  0 <= r < i_ny inp -> 0 <= c < i_nx inp ->
  (Z.land (after_mc E (layout_of inp dmin dmax) (measure_allnan m inp dmin dmax) r c) 195 <> 0
   <-> forall k, 0 <= k < nb_disp (i_s inp) dmin dmax -> measure_cell_nan m inp dmin dmax r c k = true).
Proof.
  intros m E inp dmin dmax r c Hwf Hcfg Hw Hd Hr Hc.
  pose proof Hcfg as (Hw0 & Hodd & Hs). destruct (odd_offset (i_w inp) Hw0 Hodd) as [_ Ho].
  rewrite (invalid_iff_allnan E (layout_of inp dmin dmax) (i_gmin inp) (i_gmax inp) (measure_allnan m inp dmin dmax)
             Hwf Ho Hd r c).
  - unfold measure_allnan. rewrite forallb_zrange. split; intros H k Hk; apply H; lia.
  - unfold in_img, scene_of, layout_of. cbn. lia.
  - apply nan_pattern_every_measure; assumption.
Qed.

(* the whole flag after the matching cost is the documented one, for every measure, without hypothesis *)
Lemma after_mc_expected_every_measure : forall m E inp dmin dmax r c,
  wf_env E = true -> wf_cfg inp -> measure_window_ok m inp -> dmin <= dmax ->
  0 <= r < i_ny inp -> 0 <= c < i_nx inp ->
  after_mc E (layout_of inp dmin dmax) (measure_allnan m inp dmin dmax) r c
  = expected_flag (scene_of (layout_of inp dmin dmax) (i_gmin inp) (i_gmax inp)) r c.
Proof.
  intros m E inp dmin dmax r c Hwf Hcfg Hw Hd Hr Hc.
  pose proof Hcfg as (Hw0 & Hodd & Hs). destruct (odd_offset (i_w inp) Hw0 Hodd) as [_ Ho].
  apply (flag_expected E (layout_of inp dmin dmax) (i_gmin inp) (i_gmax inp) _ Hwf Ho Hd r c).
  - unfold in_img, scene_of, layout_of. cbn. lia.
  - apply nan_pattern_every_measure; assumption.
Qed.

(* ------------------------------------------------------------------ images smaller than the window *)

(* no window fits: every pixel is a border pixel of the scene, its flag is exactly 1 (bit 0), and every cost of
   every measure is NaN -- the "invalid" side of the equivalence, made explicit *)
Lemma too_small_all_border : forall inp dmin dmax r c, wf_cfg inp ->
  too_small (i_ny inp) (i_nx inp) (i_w inp) = true -> 0 <= r < i_ny inp -> 0 <= c < i_nx inp ->
  border (scene_of (layout_of inp dmin dmax) (i_gmin inp) (i_gmax inp)) r c.
Proof.
  intros inp dmin dmax r c (Hw & Hodd & Hs) T Hr Hc.
  destruct (odd_offset (i_w inp) Hw Hodd) as [Hoff Ho].
  unfold too_small in T. unfold border, in_img, win_in, scene_of, layout_of. cbn. lia.
Qed.

Lemma too_small_flag_is_1 : forall m E inp dmin dmax r c,
  wf_env E = true -> wf_cfg inp -> measure_window_ok m inp -> dmin <= dmax ->
  too_small (i_ny inp) (i_nx inp) (i_w inp) = true -> 0 <= r < i_ny inp -> 0 <= c < i_nx inp ->
  after_mc E (layout_of inp dmin dmax) (measure_allnan m inp dmin dmax) r c = 1
  /\ forall k, 0 <= k < nb_disp (i_s inp) dmin dmax -> measure_cell_nan m inp dmin dmax r c k = true.
Proof.
  intros m E inp dmin dmax r c Hwf Hcfg Hw Hd T Hr Hc.
  assert (F : after_mc E (layout_of inp dmin dmax) (measure_allnan m inp dmin dmax) r c = 1).
  { pose proof Hcfg as (Hw0 & Hodd & Hs). destruct (odd_offset (i_w inp) Hw0 Hodd) as [_ Ho].
    apply (border_bit0_only E (layout_of inp dmin dmax) (i_gmin inp) (i_gmax inp) _ Hwf Ho Hd r c).
    - apply too_small_all_border; assumption.
    - apply nan_pattern_every_measure; assumption. }
  split; [exact F|].
  apply (invalid_iff_allnan_every_measure m E inp dmin dmax r c Hwf Hcfg Hw Hd Hr Hc). rewrite F. discriminate.
Qed.

Lemma smaller_than_window_all_invalid : forall m E inp dmin dmax r c,
  wf_env E = true -> wf_cfg inp -> measure_window_ok m inp -> dmin <= dmax ->
  Z.min (i_ny inp) (i_nx inp) < i_w inp -> 0 <= r < i_ny inp -> 0 <= c < i_nx inp ->
  after_mc E (layout_of inp dmin dmax) (measure_allnan m inp dmin dmax) r c = 1
  /\ forall k, 0 <= k < nb_disp (i_s inp) dmin dmax -> measure_cell_nan m inp dmin dmax r c k = true.
Proof.
  intros m E inp dmin dmax r c Hwf Hcfg Hw Hd T Hr Hc.
  apply too_small_flag_is_1; try assumption. unfold too_small. lia.
Qed.

(* the vocabulary of the every-measure statements, spelled out *)
Lemma measure_vocabulary : forall m inp dmin dmax r c k,
  (measure_cell_nan m inp dmin dmax r c k = true <->
   match m with
   | Sad => sad_volume inp dmin dmax r c k = None
   | Ssd => ssd_volume inp dmin dmax r c k = None
   | Census => census_volume inp dmin dmax r c k = None
   | Zncc => zncc_volume inp dmin dmax r c k = None
   end)
  /\ (measure_allnan m inp dmin dmax r c = true <->
      forall k, 0 <= k < nb_disp (i_s inp) dmin dmax -> measure_cell_nan m inp dmin dmax r c k = true)
  /\ (measure_window_ok m inp <-> (m = Census -> i_w inp * i_w inp <= 32)).
Proof.
  intros m inp dmin dmax r c k. split; [|split].
  - destruct m; cbn [measure_cell_nan].
    + destruct (sad_volume inp dmin dmax r c k); split; congruence.
    + destruct (ssd_volume inp dmin dmax r c k); split; congruence.
    + destruct (census_volume inp dmin dmax r c k); split; congruence.
    + destruct (zncc_volume inp dmin dmax r c k); split; congruence.
  - unfold measure_allnan. rewrite forallb_zrange. split; intros H k' Hk'; apply H; lia.
  - destruct m; cbn [measure_window_ok]; split; try tauto; try discriminate; intros; exact I.
Qed.
