(* Proofs about Model/Machine.v against Spec/Language.v.
   Generic in the tables: everything is proved for ANY pair of tables that
   passes the boolean well-formedness tests [check_tbl_wf]/[run_tbl_wf]
   (a complete computation over 3 states x 10 kinds x 2 condition values). *)
From Coq Require Import ZArith List Bool Lia.
From Pandora Require Import Model.Machine Spec.Language.
Import ListNotations.
Open Scope Z_scope.

Definition fired_eqb (a b : fired) : bool :=
  match a, b with
  | Fired x, Fired y => state_eqb x y
  | CondFalse, CondFalse | NoTransition, NoTransition | UnknownEvent, UnknownEvent => true
  | _, _ => false
  end.

Lemma state_eqb_eq a b : state_eqb a b = true <-> a = b.
Proof. destruct a, b; simpl; split; congruence. Qed.

Lemma fired_eqb_eq a b : fired_eqb a b = true -> a = b.
Proof.
  destruct a, b; simpl; try congruence.
  intros H; apply state_eqb_eq in H; congruence.
Qed.

Lemma kind_eqb_eq a b : kind_eqb a b = true <-> a = b.
Proof. destruct a, b; unfold kind_eqb; simpl; split; congruence. Qed.

Lemma kind_eqb_refl k : kind_eqb k k = true.
Proof. apply kind_eqb_eq; reflexivity. Qed.

Lemma all_states_full st : In st all_states.
Proof. destruct st; simpl; auto. Qed.
Lemma all_kinds_full k : In k all_kinds.
Proof. destruct k; simpl; auto 12. Qed.

(* what the documentation says a trigger does *)
Definition doc_fired_check (st : state) (k : kind) : fired :=
  match doc_next st k with Some d => Fired d | None => NoTransition end.

(* the run table is the check table except that multiscale goes back to
   begin, under the condition "not the last scale" *)
Definition doc_fired_run (st : state) (k : kind) (c : bool) : fired :=
  if kind_eqb k Msc then
    match st with
    | DispMap => if c then Fired Begin else CondFalse
    | _ => NoTransition
    end
  else doc_fired_check st k.

Definition forall_skc (f : state -> kind -> bool -> bool) : bool :=
  forallb (fun st => forallb (fun k => f st k true && f st k false) all_kinds) all_states.

Lemma forall_skc_spec f : forall_skc f = true -> forall st k c, f st k c = true.
Proof.
  unfold forall_skc; intros H st k c.
  rewrite forallb_forall in H. specialize (H st (all_states_full st)).
  rewrite forallb_forall in H. specialize (H k (all_kinds_full k)).
  apply andb_true_iff in H. destruct c; tauto.
Qed.

Definition nil_b {A} (l : list A) : bool := match l with [] => true | _ => false end.

Definition check_tbl_wf (tbl : list transition) : bool :=
  forall_skc (fun st k c => fired_eqb (fire tbl st PCheck k c) (doc_fired_check st k))
  && nil_b (remove_table tbl tbl).

Definition run_tbl_wf (tbl : list transition) : bool :=
  forall_skc (fun st k c => fired_eqb (fire tbl st PRun k c) (doc_fired_run st k c))
  && nil_b (remove_table tbl tbl).

Lemma nil_b_eq {A} (l : list A) : nil_b l = true -> l = [].
Proof. destruct l; simpl; congruence. Qed.

Lemma check_wf_fire tbl : check_tbl_wf tbl = true ->
  forall st k c, fire tbl st PCheck k c = doc_fired_check st k.
Proof.
  unfold check_tbl_wf; intros H st k c. apply andb_true_iff in H as [H _].
  apply fired_eqb_eq. exact (forall_skc_spec _ H st k c).
Qed.

Lemma run_wf_fire tbl : run_tbl_wf tbl = true ->
  forall st k c, fire tbl st PRun k c = doc_fired_run st k c.
Proof.
  unfold run_tbl_wf; intros H st k c. apply andb_true_iff in H as [H _].
  apply fired_eqb_eq. exact (forall_skc_spec _ H st k c).
Qed.

(* ------------------------------------------------------------------ *)
(* Language: path = shape                                              *)

Lemma doc_path_dm b : forallb dm_kind b = true -> doc_path DispMap b = Some DispMap.
Proof.
  induction b as [|k b IH]; simpl; intros H; [reflexivity|].
  apply andb_true_iff in H as [Hk Hb]. destruct k; simpl in *; try discriminate; auto.
Qed.

Lemma doc_path_cv a rest : forallb cv_kind a = true ->
  doc_path CostVolume (a ++ rest) = doc_path CostVolume rest.
Proof.
  induction a as [|k a IH]; simpl; intros H; [reflexivity|].
  apply andb_true_iff in H as [Hk Ha]. destruct k; simpl in *; try discriminate; auto.
Qed.

Lemma dm_path_inv b st : doc_path DispMap b = Some st -> forallb dm_kind b = true.
Proof.
  induction b as [|k b IH]; simpl; intros H; [reflexivity|].
  destruct k; simpl in *; try discriminate; auto.
Qed.

Lemma cv_path_inv l st : doc_path CostVolume l = Some st ->
  (forallb cv_kind l = true) \/
  (exists a b, l = a ++ Dsp :: b /\ forallb cv_kind a = true /\ forallb dm_kind b = true).
Proof.
  induction l as [|k l IH]; simpl; intros H; [left; reflexivity|].
  destruct k; simpl in *; try discriminate.
  all: try (destruct (IH H) as [Hc | (a & b & -> & Ha & Hb)];
            [left; assumption | right; eexists (_ :: a), b; simpl; rewrite Ha; auto]).
  (* Dsp *)
  right. exists [], l. simpl. repeat split. eapply dm_path_inv; eauto.
Qed.

Theorem path_iff_shape ks : doc_accepts ks = true <-> shape ks.
Proof.
  unfold doc_accepts. split.
  - destruct ks as [|k l]; [constructor|].
    destruct k; simpl; try discriminate.
    destruct (doc_path CostVolume l) eqn:E; [|discriminate]. intros _.
    destruct (cv_path_inv _ _ E) as [Hc | (a & b & -> & Ha & Hb)].
    + now apply shape_cv.
    + now apply shape_dm.
  - intros H; destruct H as [| a Ha | a b Ha Hb]; simpl.
    + reflexivity.
    + replace a with (a ++ []) by apply app_nil_r. rewrite doc_path_cv by assumption. reflexivity.
    + rewrite doc_path_cv by assumption. simpl. rewrite doc_path_dm by assumption. reflexivity.
Qed.

(* path over steps (names), boolean *)
Fixpoint path_ok (st : state) (p : list step) : option state :=
  match p with
  | [] => Some st
  | s :: r =>
    match s_kind s with
    | None => None
    | Some k => match doc_next st k with Some d => path_ok d r | None => None end
    end
  end.

Lemma path_ok_kinds st p :
  path_ok st p = match kinds_of p with Some ks => doc_path st ks | None => None end.
Proof.
  revert st; induction p as [|s r IH]; simpl; intros st; [reflexivity|].
  destruct (s_kind s) as [k|]; [|reflexivity].
  destruct (kinds_of r) as [ks|] eqn:E; simpl.
  - destruct (doc_next st k); [apply IH | reflexivity].
  - destruct (doc_next st k); [rewrite IH; reflexivity | reflexivity].
Qed.

(* ------------------------------------------------------------------ *)
(* check_conf                                                          *)

Section Check.
  Variable check_tbl run_tbl : list transition.
  Variable step_ok : step -> bool -> bool.
  Hypothesis Hc : check_tbl_wf check_tbl = true.
  Hypothesis Hr : run_tbl_wf run_tbl = true.

  Notation check_steps := (check_steps step_ok).
  Notation check_round := (check_round check_tbl step_ok).
  Notation check_conf := (check_conf check_tbl step_ok).
  Notation run_steps := (run_steps).
  Notation run := (run run_tbl).

  Lemma check_steps_spec (p : list step) : forall m sw,
    m_regs m = check_tbl ->
    match path_ok (m_st m) p, forallb (fun s => step_ok s sw) p with
    | Some d, true =>
        check_steps m sw p = (mkM d check_tbl (m_rdm m || has_kind Val p) (m_scale m), true)
    | _, _ => snd (check_steps m sw p) = false
    end.
  Proof.
    induction p as [|s r IH]; intros m sw Hregs; simpl.
    - destruct m; simpl in *; subst. rewrite orb_false_r. reflexivity.
    - destruct (s_kind s) as [k|] eqn:Ek; simpl.
      2:{ reflexivity. }
      rewrite Hregs, (check_wf_fire _ Hc). unfold doc_fired_check.
      destruct (doc_next (m_st m) k) as [d|] eqn:En.
      2:{ simpl. reflexivity. }
      destruct (step_ok s sw) eqn:Eok; simpl.
      2:{ destruct (path_ok d r); reflexivity. }
      set (m2 := if kind_eqb k Val then set_rdm (set_st m d) true else set_st m d).
      assert (Hm2 : m_regs m2 = check_tbl /\ m_st m2 = d /\ m_scale m2 = m_scale m
                    /\ m_rdm m2 = (m_rdm m || kind_eqb k Val)).
      { unfold m2. destruct (kind_eqb k Val); simpl; rewrite ?orb_true_r, ?orb_false_r; auto. }
      destruct Hm2 as (R1 & R2 & R3 & R4).
      specialize (IH m2 sw R1). rewrite R2 in IH.
      destruct (path_ok d r) as [d'|]; [|exact IH].
      destruct (forallb (fun s0 => step_ok s0 sw) r); [|exact IH].
      rewrite IH, R3, R4. unfold has_kind; simpl. unfold is_kind at 2. rewrite Ek.
      rewrite orb_assoc. reflexivity.
  Qed.

  Lemma remove_self_check : remove_table check_tbl check_tbl = [].
  Proof. unfold check_tbl_wf in Hc. apply andb_true_iff in Hc as [_ H]. now apply nil_b_eq. Qed.
  Lemma remove_self_run : remove_table run_tbl run_tbl = [].
  Proof. unfold run_tbl_wf in Hr. apply andb_true_iff in Hr as [_ H]. now apply nil_b_eq. Qed.

  Definition clean (m : machine) : Prop := m_st m = Begin /\ m_regs m = [].

  Lemma check_round_spec m sw p : clean m ->
    match path_ok Begin p, forallb (fun s => step_ok s sw) p with
    | Some d, true =>
        check_round m sw p = (mkM Begin [] (m_rdm m || has_kind Val p) (m_scale m), true)
    | _, _ => snd (check_round m sw p) = false
    end.
  Proof.
    intros [Hst Hregs]. unfold check_round.
    set (m0 := set_regs m (m_regs m ++ check_tbl)).
    assert (H0 : m_regs m0 = check_tbl) by (unfold m0; simpl; rewrite Hregs; reflexivity).
    pose proof (check_steps_spec p m0 sw H0) as H.
    assert (Hs : m_st m0 = Begin) by (unfold m0; simpl; assumption).
    rewrite Hs in H.
    destruct (path_ok Begin p) as [d|].
    - destruct (forallb (fun s => step_ok s sw) p).
      + rewrite H. simpl. rewrite remove_self_check. reflexivity.
      + destruct (check_steps m0 sw p) as [m1 ok]; simpl in *; subst ok. reflexivity.
    - destruct (check_steps m0 sw p) as [m1 ok]; simpl in *; subst ok. reflexivity.
  Qed.

  (* the acceptance condition, as a boolean: no trace of the machine's past
     in it (the first round starts with right_disp_map = None) *)
  Definition accept_b (p : list step) : bool :=
    match path_ok Begin p with
    | Some _ =>
      forallb (fun s => step_ok s false) p
      && (if has_kind Val p then forallb (fun s => step_ok s true) p else true)
    | None => false
    end.

  Theorem check_conf_spec m p : clean m ->
    if accept_b p
    then check_conf m p = Accepted (mkM Begin [] (has_kind Val p) (m_scale m))
    else exists m', check_conf m p = Rejected m'.
  Proof.
    intros Hm. unfold accept_b, check_conf.
    assert (Hm0 : clean (set_rdm m false)) by (destruct Hm; split; assumption).
    pose proof (check_round_spec (set_rdm m false) false p Hm0) as H1.
    cbn [set_rdm m_rdm m_scale orb] in H1.
    destruct (path_ok Begin p) as [d|] eqn:Ep.
    2:{ destruct (check_round (set_rdm m false) false p) as [m1 ok]; simpl in *; subst ok. simpl. eauto. }
    destruct (forallb (fun s => step_ok s false) p) eqn:E1; simpl.
    2:{ destruct (check_round (set_rdm m false) false p) as [m1 ok]; simpl in *; subst ok. simpl. eauto. }
    rewrite H1. simpl.
    destruct (has_kind Val p) eqn:Erdm; [|reflexivity].
    set (m1 := mkM Begin [] true (m_scale m)).
    assert (Hm1 : clean m1) by (split; reflexivity).
    pose proof (check_round_spec m1 true p Hm1) as H2. rewrite Ep in H2.
    destruct (forallb (fun s => step_ok s true) p).
    - rewrite H2. simpl. reflexivity.
    - destruct (check_round m1 true p) as [m2 ok]; simpl in *; subst ok. eauto.
  Qed.

  (* ------------------------------------------------------------------ *)
  (* run                                                                 *)

  Definition no_msc (s : step) : bool := negb (is_kind Msc s).

  (* Last scale (scale 0): every step fires in order, multiscale is silent. *)
  Lemma run_steps_scale0 (p : list step) : forall m tr d,
    m_regs m = run_tbl -> m_scale m = 0 ->
    path_ok (m_st m) p = Some d ->
    (has_kind Val p = true -> m_rdm m = true) ->
    (m_st m = Begin -> p = [] \/ exists s r, p = s :: r /\ s_kind s = Some MC) ->
    run_steps m p tr =
      (set_st m d, tr ++ scale_trace (m_rdm m) 0 (filter no_msc p), Cont).
  Proof.
    induction p as [|s r IH]; intros m tr d Hregs Hsc Hp Hval Hb; simpl in *.
    - injection Hp as <-. destruct m; simpl. rewrite app_nil_r. reflexivity.
    - destruct (s_kind s) as [k|] eqn:Ek; [|discriminate].
      destruct (doc_next (m_st m) k) as [d1|] eqn:En; [|discriminate].
      rewrite Hregs, (run_wf_fire _ Hr), Hsc. simpl (negb (0 =? 0)).
      unfold doc_fired_run, doc_fired_check.
      destruct (kind_eqb k Msc) eqn:Emsc.
      + apply kind_eqb_eq in Emsc; subst k.
        destruct (m_st m) eqn:Est; simpl in En; try discriminate. injection En as <-.
        simpl. unfold no_msc at 1. unfold is_kind at 1. rewrite Ek. simpl.
        assert (Hv : has_kind Val r = true -> m_rdm m = true).
        { intros Hr'. apply Hval. unfold has_kind; simpl. rewrite orb_true_iff. right. exact Hr'. }
        rewrite (IH m tr d Hregs Hsc).
        * reflexivity.
        * rewrite Est. exact Hp.
        * exact Hv.
        * rewrite Est. discriminate.
      + rewrite En.
        assert (Hvk : kind_eqb k Val = true -> m_rdm m = true).
        { intros Hk. apply Hval. unfold has_kind; simpl. unfold is_kind at 1. rewrite Ek, Hk. reflexivity. }
        destruct (kind_eqb k Val && negb (m_rdm m)) eqn:Ev.
        { apply andb_true_iff in Ev as [Ev1 Ev2]. rewrite (Hvk Ev1) in Ev2. discriminate. }
        assert (Hd1 : state_eqb d1 Begin = false).
        { destruct (m_st m), k; simpl in En; try discriminate; injection En as <-; reflexivity. }
        rewrite Hd1. simpl (set_st m d1).
        set (m2 := set_st m d1).
        assert (Hn : no_msc s = true) by (unfold no_msc, is_kind; rewrite Ek, Emsc; reflexivity).
        rewrite Hn.
        rewrite (IH m2 _ d).
        * unfold m2. cbn [set_st m_rdm m_st m_regs m_scale scale_trace flat_map].
          unfold step_evs at 1. rewrite Ek. rewrite <- app_assoc. reflexivity.
        * exact Hregs.
        * exact Hsc.
        * exact Hp.
        * intros Hr'. apply Hval. rewrite orb_true_iff. right. exact Hr'.
        * unfold m2; simpl. intros ->. discriminate.
  Qed.

  (* A coarser scale (scale > 0): the steps up to the first multiscale step
     fire, multiscale sends the machine back to begin and the loop breaks. *)
  Lemma run_steps_coarse (p : list step) : forall m tr d,
    m_regs m = run_tbl -> m_scale m <> 0 ->
    path_ok (m_st m) p = Some d ->
    (has_kind Val p = true -> m_rdm m = true) ->
    has_kind Msc p = true ->
    run_steps m p tr =
      (set_scale (set_st m Begin) (m_scale m - 1),
       tr ++ scale_trace (m_rdm m) (m_scale m) (upto_msc p), Broke).
  Proof.
    induction p as [|s r IH]; intros m tr d Hregs Hsc Hp Hval Hm; simpl in *.
    - discriminate.
    - destruct (s_kind s) as [k|] eqn:Ek; [|discriminate].
      destruct (doc_next (m_st m) k) as [d1|] eqn:En; [|discriminate].
      rewrite Hregs, (run_wf_fire _ Hr).
      assert (Hnz : negb (m_scale m =? 0) = true).
      { destruct (m_scale m =? 0) eqn:E; [apply Z.eqb_eq in E; contradiction | reflexivity]. }
      rewrite Hnz. unfold doc_fired_run, doc_fired_check.
      unfold is_kind at 1. rewrite Ek.
      destruct (kind_eqb k Msc) eqn:Emsc.
      + apply kind_eqb_eq in Emsc; subst k.
        destruct (m_st m) eqn:Est; simpl in En; try discriminate.
        simpl. unfold step_evs. rewrite Ek. rewrite app_nil_r.
        destruct m; simpl in *. subst. reflexivity.
      + rewrite En.
        assert (Hvk : kind_eqb k Val = true -> m_rdm m = true).
        { intros Hk. apply Hval. unfold has_kind; simpl. unfold is_kind at 1. rewrite Ek, Hk. reflexivity. }
        destruct (kind_eqb k Val && negb (m_rdm m)) eqn:Ev.
        { apply andb_true_iff in Ev as [Ev1 Ev2]. rewrite (Hvk Ev1) in Ev2. discriminate. }
        assert (Hd1 : state_eqb d1 Begin = false).
        { destruct (m_st m), k; simpl in En; try discriminate; injection En as <-; reflexivity. }
        rewrite Hd1. set (m2 := set_st m d1).
        rewrite (IH m2 _ d).
        * unfold m2. cbn [set_st set_scale m_rdm m_st m_regs m_scale scale_trace flat_map].
          unfold step_evs at 1. rewrite Ek. rewrite <- app_assoc. reflexivity.
        * exact Hregs.
        * exact Hsc.
        * exact Hp.
        * intros Hr'. apply Hval. rewrite orb_true_iff. right. exact Hr'.
        * unfold is_kind at 1 in Hm. rewrite Ek, Emsc in Hm. exact Hm.
  Qed.

  Lemma path_begin_shape p d : path_ok Begin p = Some d ->
    p = [] \/ exists s r, p = s :: r /\ s_kind s = Some MC.
  Proof.
    destruct p as [|s r]; [left; reflexivity|]. simpl.
    destruct (s_kind s) as [k|] eqn:Ek; [|discriminate].
    destruct k; simpl; try discriminate. intros _. right; eauto.
  Qed.

  Lemma scale_loop_S n m p tr :
    scale_loop (S n) m p tr =
    let '(m1, tr1, stt) := run_steps m p tr in
    match stt with Err => (m1, tr1, false) | _ => scale_loop n m1 p tr1 end.
  Proof. reflexivity. Qed.

  Lemma scale_loop_spec (j : nat) : forall m tr p d,
    m_regs m = run_tbl -> m_st m = Begin -> m_scale m = Z.of_nat j ->
    path_ok Begin p = Some d ->
    (has_kind Val p = true -> m_rdm m = true) ->
    (j <> O -> has_kind Msc p = true) ->
    scale_loop (S j) m p tr =
      (mkM d run_tbl (m_rdm m) 0,
       tr ++ coarse_traces (m_rdm m) p j ++ scale_trace (m_rdm m) 0 (filter no_msc p), true).
  Proof.
    induction j as [|j IH]; intros m tr p d Hregs Hst Hsc Hp Hval Hmsc.
    - rewrite scale_loop_S. rewrite (run_steps_scale0 p m tr d); auto.
      + cbv beta iota. simpl. destruct m; simpl in *; subst. reflexivity.
      + rewrite Hst; exact Hp.
      + intros _. eapply path_begin_shape; eauto.
    - rewrite scale_loop_S.
      assert (Hnz : m_scale m <> 0) by (rewrite Hsc; lia).
      rewrite (run_steps_coarse p m tr d); auto.
      2:{ rewrite Hst; exact Hp. }
      set (m1 := set_scale (set_st m Begin) (m_scale m - 1)).
      cbv beta iota.
      rewrite (IH m1 _ p d).
      + unfold m1; simpl. rewrite Hsc. cbn [coarse_traces].
        rewrite <- !app_assoc. reflexivity.
      + exact Hregs.
      + reflexivity.
      + unfold m1; simpl. rewrite Hsc. lia.
      + exact Hp.
      + exact Hval.
      + intros _. apply Hmsc. discriminate.
  Qed.

  Theorem run_spec m p n d : clean m ->
    path_ok Begin p = Some d ->
    (n >= 1)%nat -> ((n > 1)%nat -> has_kind Msc p = true) ->
    run m p n =
      RunOk (mkM Begin [] (has_kind Val p) 0)
            (expected_trace p n (has_kind Val p)).
  Proof.
    intros [Hst Hregs] Hp Hn Hmsc. unfold run, run_from.
    destruct n as [|j]; [lia|].
    set (m0 := mkM (m_st m) (m_regs m ++ run_tbl) (has_kind Val p) (Z.of_nat (S j) - 1)).
    rewrite (scale_loop_spec j m0 [] p d).
    - simpl. rewrite remove_self_run. unfold expected_trace.
      replace (S j - 1)%nat with j by lia. reflexivity.
    - unfold m0; simpl. rewrite Hregs. reflexivity.
    - unfold m0; simpl. exact Hst.
    - unfold m0; cbn [m_scale]. lia.
    - exact Hp.
    - unfold m0; cbn [m_rdm]. intros ->. reflexivity.
    - intros Hj. apply Hmsc. lia.
  Qed.

  (* the transitions registered on the machine do not change while steps run *)
  Lemma run_steps_regs (p : list step) : forall m tr,
    m_regs (fst (fst (run_steps m p tr))) = m_regs m.
  Proof.
    induction p as [|s r IH]; intros m tr; simpl; [reflexivity|].
    destruct (s_kind s) as [k|]; [|reflexivity].
    destruct (fire (m_regs m) (m_st m) PRun k (negb (m_scale m =? 0))) as [d| | |]; try reflexivity.
    - destruct (kind_eqb k Val && negb (m_rdm m)); [reflexivity|].
      destruct (state_eqb d Begin).
      + destruct (kind_eqb k Msc); reflexivity.
      + rewrite IH. destruct (kind_eqb k Msc); reflexivity.
    - destruct (state_eqb (m_st m) Begin); [reflexivity | apply IH].
  Qed.

  Lemma scale_loop_regs (n : nat) : forall m p tr,
    m_regs (fst (fst (scale_loop n m p tr))) = m_regs m.
  Proof.
    induction n as [|n IH]; intros m p tr; [reflexivity|].
    rewrite scale_loop_S. pose proof (run_steps_regs p m tr) as H.
    destruct (run_steps m p tr) as [[m1 tr1] stt]. simpl in H.
    destruct stt; try (rewrite IH; exact H); exact H.
  Qed.

  (* a run that ends without error leaves the machine clean, WHATEVER the
     pipeline and the number of scales (run_exit) *)
  Lemma run_ok_clean m p n m' tr : clean m -> run m p n = RunOk m' tr -> clean m'.
  Proof.
    intros [Hst Hregs]. unfold run, run_from.
    set (m0 := mkM _ _ _ _).
    pose proof (scale_loop_regs n m0 p []) as H.
    destruct (scale_loop n m0 p []) as [[m1 tr1] ok]. simpl in H.
    destruct ok; [|discriminate]. intros E; injection E as <- _.
    split; [reflexivity|]. simpl. rewrite H. unfold m0; simpl. rewrite Hregs. simpl.
    apply remove_self_run.
  Qed.

  (* run looks at the machine only through its state and its registered
     transitions: on a clean machine it is the run of a fresh machine *)
  Lemma run_clean_fresh m p n : clean m -> run m p n = run machine0 p n.
  Proof. intros [Hst Hregs]. unfold run. rewrite Hst, Hregs. reflexivity. Qed.

  (* ------------------------------------------------------------------ *)
  (* histories of check/run calls on one machine                        *)

  (* outcome of a call, as a user sees it *)
  Inductive outcome := OAccepted | ORejected | ORan (tr : list ev) | OFailed.

  Definition successful (o : outcome) : bool :=
    match o with OAccepted | ORan _ => true | ORejected | OFailed => false end.

  (* a call: check any pipeline, or run any pipeline with any number of scales *)
  Inductive gcall := GCheck (p : list step) | GRun (p : list step) (n : nat).

  Definition do_gcall (m : machine) (c : gcall) : machine * outcome :=
    match c with
    | GCheck p => match check_conf m p with
                  | Accepted m' => (m', OAccepted)
                  | Rejected m' => (m', ORejected)
                  end
    | GRun p n => match run m p n with
                  | RunOk m' tr => (m', ORan tr)
                  | RunError m' _ => (m', OFailed)
                  end
    end.

  Fixpoint ghistory (m : machine) (h : list gcall) : list outcome :=
    match h with
    | [] => []
    | c :: r => let '(m', o) := do_gcall m c in o :: ghistory m' r
    end.

  Fixpoint gfinal (m : machine) (h : list gcall) : machine :=
    match h with
    | [] => m
    | c :: r => gfinal (fst (do_gcall m c)) r
    end.

  (* what the call returns on a machine object that has never been used *)
  Definition fresh_outcome (c : gcall) : outcome := snd (do_gcall machine0 c).

  Lemma clean0 : clean machine0.
  Proof. split; reflexivity. Qed.

  Lemma do_gcall_clean m c : clean m ->
    snd (do_gcall m c) = fresh_outcome c
    /\ (successful (fresh_outcome c) = true -> clean (fst (do_gcall m c))).
  Proof.
    intros Hm. unfold fresh_outcome. destruct c as [p | p n]; cbn [do_gcall].
    - pose proof (check_conf_spec m p Hm) as H. pose proof (check_conf_spec machine0 p clean0) as H0.
      destruct (accept_b p).
      + rewrite H, H0. split; [reflexivity|]. intros _. split; reflexivity.
      + destruct H as [m1 ->], H0 as [m2 ->]. split; [reflexivity|]. simpl. discriminate.
    - rewrite (run_clean_fresh m p n Hm).
      destruct (run machine0 p n) as [m1 tr|m1 tr] eqn:E; simpl.
      + split; [reflexivity|]. intros _. exact (run_ok_clean machine0 p n m1 tr clean0 E).
      + split; [reflexivity|]. discriminate.
  Qed.

  (* every call but the last returned (on a fresh machine, hence -- by the
     theorem -- in the history) successfully *)
  Fixpoint earlier_successful (h : list gcall) : bool :=
    match h with
    | [] => true
    | c :: r => match r with
                | [] => true
                | _ => successful (fresh_outcome c) && earlier_successful r
                end
    end.

  Theorem ghistory_fresh : forall h m, clean m -> earlier_successful h = true ->
    ghistory m h = map fresh_outcome h.
  Proof.
    induction h as [|c r IH]; intros m Hm Hs; [reflexivity|].
    cbn [ghistory map]. destruct (do_gcall_clean m c Hm) as [Ho Hcl].
    destruct (do_gcall m c) as [m' o]. simpl in Ho, Hcl. subst o. f_equal.
    destruct r as [|c2 r2]; [reflexivity|].
    cbn [earlier_successful] in Hs. apply andb_true_iff in Hs as [Hs1 Hs2].
    apply IH; auto.
  Qed.

  Theorem gfinal_clean : forall h m, clean m ->
    forallb (fun c => successful (fresh_outcome c)) h = true -> clean (gfinal m h).
  Proof.
    induction h as [|c r IH]; intros m Hm Hs; [exact Hm|].
    cbn [forallb] in Hs. apply andb_true_iff in Hs as [Hs1 Hs2].
    cbn [gfinal]. apply IH; [|exact Hs2]. apply (do_gcall_clean m c Hm); exact Hs1.
  Qed.

  Lemma all_successful_earlier h :
    forallb (fun c => successful (fresh_outcome c)) h = true -> earlier_successful h = true.
  Proof.
    induction h as [|c r IH]; [reflexivity|]. cbn [forallb]. intros H.
    apply andb_true_iff in H as [H1 H2]. cbn [earlier_successful].
    destruct r; [reflexivity|]. rewrite H1. simpl. apply IH; exact H2.
  Qed.

  (* the fresh-machine outcomes, spelled out *)
  Theorem fresh_check p :
    fresh_outcome (GCheck p) = if accept_b p then OAccepted else ORejected.
  Proof.
    unfold fresh_outcome. cbn [do_gcall].
    pose proof (check_conf_spec machine0 p clean0) as H.
    destruct (accept_b p); [rewrite H; reflexivity | destruct H as [m' ->]; reflexivity].
  Qed.

  Theorem fresh_run p n d : path_ok Begin p = Some d ->
    (n >= 1)%nat -> ((n > 1)%nat -> has_kind Msc p = true) ->
    fresh_outcome (GRun p n) = ORan (expected_trace p n (has_kind Val p)).
  Proof.
    intros Hp Hn Hmsc. unfold fresh_outcome. cbn [do_gcall].
    rewrite (run_spec machine0 p n d clean0 Hp Hn Hmsc). reflexivity.
  Qed.

  (* --- the special case of one pipeline (the last sentence of C01) --- *)

  Inductive call := CCheck | CRun.

  Definition call_of (n : nat) (p : list step) (c : call) : gcall :=
    match c with CCheck => GCheck p | CRun => GRun p n end.

  Definition do_call (n : nat) (p : list step) (m : machine) (c : call) : machine * outcome :=
    do_gcall m (call_of n p c).

  Fixpoint history (n : nat) (p : list step) (m : machine) (h : list call) : list outcome :=
    match h with
    | [] => []
    | c :: r => let '(m', o) := do_call n p m c in o :: history n p m' r
    end.

  Definition expected_outcome (n : nat) (p : list step) (c : call) : outcome :=
    match c with
    | CCheck => OAccepted
    | CRun => ORan (expected_trace p n (has_kind Val p))
    end.

  Lemma history_ghistory n p : forall h m,
    history n p m h = ghistory m (map (call_of n p) h).
  Proof.
    induction h as [|c r IH]; intros m; [reflexivity|].
    cbn [history map ghistory]. unfold do_call.
    destruct (do_gcall m (call_of n p c)) as [m' o]. f_equal. apply IH.
  Qed.

  Theorem history_spec n p d : forall h m,
    clean m ->
    path_ok Begin p = Some d -> accept_b p = true ->
    (n >= 1)%nat -> ((n > 1)%nat -> has_kind Msc p = true) ->
    history n p m h = map (expected_outcome n p) h.
  Proof.
    intros h m Hm Hp Hacc Hn Hmsc. rewrite history_ghistory.
    assert (Hf : forall c, fresh_outcome (call_of n p c) = expected_outcome n p c).
    { intros [|]; cbn [call_of expected_outcome].
      - rewrite fresh_check, Hacc. reflexivity.
      - apply (fresh_run p n d); assumption. }
    rewrite ghistory_fresh; [rewrite map_map; apply map_ext; exact Hf | exact Hm |].
    apply all_successful_earlier. rewrite forallb_forall. intros c Hin.
    apply in_map_iff in Hin as (c0 & <- & _). rewrite Hf. destruct c0; reflexivity.
  Qed.

  (* acceptance, in the words of the property *)
  Definition spells_documented_path (p : list step) : Prop :=
    exists ks, kinds_of p = Some ks /\ shape ks.

  Lemma path_ok_iff_shape p :
    (exists d, path_ok Begin p = Some d) <-> spells_documented_path p.
  Proof.
    unfold spells_documented_path. rewrite path_ok_kinds. split.
    - intros [d H]. destruct (kinds_of p) as [ks|]; [|discriminate].
      exists ks; split; [reflexivity|]. apply path_iff_shape. unfold doc_accepts. now rewrite H.
    - intros (ks & -> & Hs). apply path_iff_shape in Hs. unfold doc_accepts in Hs.
      destruct (doc_path Begin ks) as [d|]; [eauto | discriminate].
  Qed.

  Theorem check_accepts_iff m p : clean m ->
    (exists m', check_conf m p = Accepted m') <->
    (spells_documented_path p
     /\ forallb (fun s => step_ok s false) p = true
     /\ (has_kind Val p = true -> forallb (fun s => step_ok s true) p = true)).
  Proof.
    intros Hm. pose proof (check_conf_spec m p Hm) as H.
    rewrite <- path_ok_iff_shape. unfold accept_b in H.
    destruct (path_ok Begin p) as [d|] eqn:Ep.
    - destruct (forallb (fun s => step_ok s false) p) eqn:E1; simpl in H.
      + destruct (has_kind Val p) eqn:Er.
        * destruct (forallb (fun s => step_ok s true) p) eqn:E2.
          -- split; [intros _; repeat split; eauto | eauto].
          -- destruct H as [m' H]. split.
             ++ intros [m'' H']. rewrite H in H'. discriminate.
             ++ intros (_ & _ & H3). specialize (H3 eq_refl). discriminate.
        * split; [intros _; repeat split; eauto; discriminate | eauto].
      + destruct H as [m' H]. split.
        * intros [m'' H']. rewrite H in H'. discriminate.
        * intros (_ & H2 & _). discriminate.
    - destruct H as [m' H]. split.
      + intros [m'' H']. rewrite H in H'. discriminate.
      + intros ([d H1] & _). discriminate.
  Qed.

  (* a rejection is total: the caller gets no configuration at all (the
     result carries no pipeline), and the outcome is one of the two *)
  Theorem check_total m p :
    (exists m', check_conf m p = Accepted m') \/ (exists m', check_conf m p = Rejected m').
  Proof. destruct (check_conf m p); eauto. Qed.

End Check.
