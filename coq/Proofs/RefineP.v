(* Proofs for C06: the model of the refinement step (Model/Refine.v) against its specification
   (Spec/Refine.v). *)
From Coq Require Import ZArith QArith Qabs Qminmax Qround List Bool Lia Lqa.
From Pandora Require Import Model.Refine Spec.Refine.
Import ListNotations.
Open Scope Q_scope.

(* ---------------------------------------------------------------- helpers *)

Lemma Qltb_true x y : Qltb x y = true -> x < y.
Proof.
  unfold Qltb. intro H. apply negb_true_iff in H.
  apply Qnot_le_lt. intro L. apply Qle_bool_iff in L. congruence.
Qed.
Lemma Qltb_false x y : Qltb x y = false -> y <= x.
Proof. unfold Qltb. intro H. apply negb_false_iff in H. now apply Qle_bool_iff. Qed.
Lemma Qltb_iff x y : Qltb x y = true <-> x < y.
Proof.
  split; [apply Qltb_true|]. intro H. destruct (Qltb x y) eqn:E; [easy|].
  apply Qltb_false in E. lra.
Qed.

Lemma eps15_pos : 0 < eps15.
Proof. reflexivity. Qed.

Definition kind_of (m : measure) : kind := match m with MMin => Cost | MMax => Similarity end.

(* destruct every boolean comparison in sight into an order fact *)
Ltac qb :=
  repeat match goal with
  | H : context [Qltb ?a ?b] |- _ =>
      let E := fresh "E" in destruct (Qltb a b) eqn:E;
      [apply Qltb_true in E | apply Qltb_false in E]; cbn [orb andb negb] in H
  | |- context [Qltb ?a ?b] =>
      let E := fresh "E" in destruct (Qltb a b) eqn:E;
      [apply Qltb_true in E | apply Qltb_false in E]; cbn [orb andb negb]
  | H : context [Qeq_bool ?a ?b] |- _ =>
      let E := fresh "E" in destruct (Qeq_bool a b) eqn:E;
      [apply Qeq_bool_iff in E | apply Qeq_bool_neq in E]; cbn [orb andb negb] in H
  | |- context [Qeq_bool ?a ?b] =>
      let E := fresh "E" in destruct (Qeq_bool a b) eqn:E;
      [apply Qeq_bool_iff in E | apply Qeq_bool_neq in E]; cbn [orb andb negb]
  end.

Lemma Qabs_cases (a : Q) : (0 <= a /\ Qabs a == a) \/ (a < 0 /\ Qabs a == - a).
Proof.
  destruct (Qlt_le_dec a 0) as [L|L].
  - right. split; [easy|]. apply Qabs_neg. lra.
  - left. split; [easy|]. now apply Qabs_pos.
Qed.

Ltac qabs :=
  repeat match goal with
  | H : context [Qabs ?a] |- _ =>
      let Ha := fresh "Ha" in let Hs := fresh "Hs" in
      destruct (Qabs_cases a) as [[Hs Ha]|[Hs Ha]]; rewrite Ha in H; clear Ha
  end.

(* |n / d| <= 1/2 when |n| <= |d| ... stated for a positive divisor *)
Lemma half_bound (n d : Q) : 0 < d -> - d <= n -> n <= d -> Qabs (n / (2 * d)) <= 1 # 2.
Proof.
  intros Hd H1 H2. apply Qabs_Qle_condition. split.
  - apply Qle_shift_div_l; lra.
  - apply Qle_shift_div_r; lra.
Qed.

(* ---------------------------------------------------------------- V-fit *)

Section Methods.
  Variable K : consts.

  (* Normal form of a call of vfit on three numbers.  u = how much worse the left neighbour is than
     the centre, v = the right one (both in the sense of the measure). *)
  Lemma vfit_char m c0 c1 c2 :
    let u := inv m c0 - inv m c1 in
    let v := inv m c2 - inv m c1 in
    let r := vfit K m (Some c0) c1 (Some c2) in
    ((u < 0 \/ v < 0) /\ r = MOk 0 c1 (k_stopped K))
    \/ (0 <= u < eps15 /\ 0 <= v < eps15 /\ r = MOk 0 c1 0)
    \/ (0 <= v < u /\ eps15 <= u /\
        exists sh co, r = MOk sh co 0 /\ sh == (u - v) / (2 * u)
                      /\ inv m co == inv m c1 - (u - v) * (1 # 2))
    \/ (0 <= u <= v /\ eps15 <= v /\
        exists sh co, r = MOk sh co 0 /\ sh == (u - v) / (2 * v)
                      /\ inv m co == inv m c1 - (v - u) * (1 # 2)).
  Proof.
    intros u v r. subst u v r. unfold vfit. pose proof eps15_pos as He.
    destruct m; unfold inv; qb; qabs; try lra;
      first [ left; split; [lra | reflexivity]
            | right; left; split; [lra | split; [lra | reflexivity]]
            | right; right; left; split; [lra | split; [lra |]];
              eexists; eexists; split; [reflexivity | split; field; lra]
            | right; right; right; split; [lra | split; [lra |]];
              eexists; eexists; split; [reflexivity | split; field; lra] ].
  Qed.

  (* ---------------------------------------------------------------- quadratic *)

  Lemma clamp1_id x : -(1) < x -> x < 1 -> clamp1 x = x.
  Proof.
    intros A B. unfold clamp1. qb; try reflexivity; lra.
  Qed.

  Lemma quad_char m c0 c1 c2 :
    let u := inv m c0 - inv m c1 in
    let v := inv m c2 - inv m c1 in
    let r := quadratic K m (Some c0) c1 (Some c2) in
    ((u < 0 \/ v < 0) /\ r = MOk 0 c1 (k_stopped K))
    \/ (u == 0 /\ v == 0 /\ r = MRaise)
    \/ (0 <= u /\ 0 <= v /\ 0 < u + v /\
        exists sh co, r = MOk sh co 0 /\ sh == (u - v) / (2 * (u + v))
                      /\ inv m co == inv m c1 - (u - v) * (u - v) / (8 * (u + v))).
  Proof.
    intros u v r. subst r. unfold quadratic.
    destruct (Qltb (inv m c0) (inv m c1) || Qltb (inv m c2) (inv m c1)) eqn:E0.
    { left. split; [|reflexivity]. subst u v. apply orb_true_iff in E0.
      destruct E0 as [E|E]; apply Qltb_true in E; lra. }
    apply orb_false_iff in E0. destruct E0 as [Eu Ev]. apply Qltb_false in Eu, Ev.
    assert (Hu : 0 <= u) by (subst u; lra). assert (Hv : 0 <= v) by (subst v; lra).
    right.
    destruct (Qeq_bool (2 * ((c0 - 2 * c1 + c2) * (1 # 2))) 0) eqn:E1.
    { left. apply Qeq_bool_iff in E1. subst u v. destruct m; unfold inv in *; repeat split; lra. }
    right. apply Qeq_bool_neq in E1.
    assert (Huv : 0 < u + v).
    { destruct (Qlt_le_dec 0 (u + v)) as [L|L]; [exact L|]. exfalso. apply E1.
      subst u v. destruct m; unfold inv in *; lra. }
    repeat split; try assumption.
    set (x := - ((c2 - c0) * (1 # 2)) / (2 * ((c0 - 2 * c1 + c2) * (1 # 2)))).
    assert (X : x == (u - v) / (2 * (u + v))).
    { subst x u v. destruct m; unfold inv in *; field; lra. }
    assert (B : Qabs ((u - v) / (2 * (u + v))) <= 1 # 2) by (apply half_bound; lra).
    apply Qabs_Qle_condition in B. rewrite <- X in B.
    rewrite clamp1_id by lra.
    eexists; eexists; split; [reflexivity|]. split; [exact X|].
    subst x u v. destruct m; unfold inv in *; field; lra.
  Qed.

  (* ---------------------------------------------------------------- consequences, both methods *)

  Lemma extremum_uv m c0 c1 c2 :
    is_extremum (kind_of m) c0 c1 c2 <-> 0 <= inv m c0 - inv m c1 /\ 0 <= inv m c2 - inv m c1.
  Proof. destruct m; unfold is_extremum, not_worse, kind_of, inv; split; intros [A B]; split; lra. Qed.

  Lemma not_worse_inv m a b : not_worse (kind_of m) a b <-> inv m a <= inv m b.
  Proof. destruct m; unfold not_worse, kind_of, inv; split; intro; lra. Qed.

  Lemma Qabs_0_half : Qabs 0 <= 1 # 2.
  Proof. discriminate. Qed.

  (* whatever the three costs: the shift is at most half a sample *)
  Lemma vfit_shift_half m oc0 c1 oc2 sh co fl :
    vfit K m oc0 c1 oc2 = MOk sh co fl -> Qabs sh <= 1 # 2.
  Proof.
    destruct oc0 as [c0|], oc2 as [c2|]; try (cbn; intro H; inversion H; apply Qabs_0_half).
    intro H. pose proof eps15_pos.
    destruct (vfit_char m c0 c1 c2) as [[_ R]|[(_ & _ & R)|[(A & B & sh' & co' & R & S & _)|(A & B & sh' & co' & R & S & _)]]];
      cbv zeta in *; rewrite R in H; inversion H; subst; try apply Qabs_0_half.
    - rewrite S. apply half_bound; lra.
    - rewrite S. apply half_bound; lra.
  Qed.

  Lemma quad_shift_half m oc0 c1 oc2 sh co fl :
    quadratic K m oc0 c1 oc2 = MOk sh co fl -> Qabs sh <= 1 # 2.
  Proof.
    destruct oc0 as [c0|], oc2 as [c2|]; try (cbn; intro H; inversion H; apply Qabs_0_half).
    intro H.
    destruct (quad_char m c0 c1 c2) as [[_ R]|[(_ & _ & R)|(A & B & C & sh' & co' & R & S & _)]];
      cbv zeta in *; rewrite R in H; inversion H; subst; try apply Qabs_0_half.
    rewrite S. apply half_bound; lra.
  Qed.

  (* the fitted cost is never worse than the cost of the sample *)
  Lemma vfit_cost_not_worse m oc0 c1 oc2 sh co fl :
    vfit K m oc0 c1 oc2 = MOk sh co fl -> not_worse (kind_of m) co c1.
  Proof.
    intro H. apply not_worse_inv.
    destruct oc0 as [c0|], oc2 as [c2|]; try (cbn in H; inversion H; lra).
    destruct (vfit_char m c0 c1 c2) as [[_ R]|[(_ & _ & R)|[(A & B & sh' & co' & R & _ & S)|(A & B & sh' & co' & R & _ & S)]]];
      cbv zeta in *; rewrite R in H; inversion H; subst; try lra.
  Qed.

  Lemma sq_div_nonneg a d : 0 < d -> 0 <= a * a / d.
  Proof.
    intro Hd. apply Qle_shift_div_l; [exact Hd|]. rewrite Qmult_0_l.
    destruct (Qlt_le_dec a 0) as [L|L].
    - setoid_replace (a * a) with ((- a) * (- a)) by ring. apply Qmult_le_0_compat; lra.
    - apply Qmult_le_0_compat; lra.
  Qed.

  Lemma quad_cost_not_worse m oc0 c1 oc2 sh co fl :
    quadratic K m oc0 c1 oc2 = MOk sh co fl -> not_worse (kind_of m) co c1.
  Proof.
    intro H. apply not_worse_inv.
    destruct oc0 as [c0|], oc2 as [c2|]; try (cbn in H; inversion H; lra).
    destruct (quad_char m c0 c1 c2) as [[_ R]|[(_ & _ & R)|(A & B & C & sh' & co' & R & _ & S)]];
      cbv zeta in *; rewrite R in H; inversion H; subst; try lra.
    rewrite S.
    pose proof (sq_div_nonneg (inv m c0 - inv m c1 - (inv m c2 - inv m c1)) (8 * (inv m c0 - inv m c1 + (inv m c2 - inv m c1)))).
    lra.
  Qed.
End Methods.

(* ---------------------------------------------------------------- the closed forms are the optima *)

Lemma V_at p x y : -(1) <= x <= 1 ->
  V p x y (-(1)) == y + p * (1 + x) /\ V p x y 1 == y + p * (1 - x)
  /\ (0 <= x -> V p x y 0 == y + p * x) /\ (x <= 0 -> V p x y 0 == y - p * x).
Proof.
  intros [A B]. unfold V. repeat split.
  - rewrite Qabs_neg by lra. ring.
  - rewrite Qabs_pos by lra. ring.
  - intro C. rewrite Qabs_neg by lra. ring.
  - intro C. rewrite Qabs_pos by lra. ring.
Qed.

(* the apex of the V is its optimum *)
Lemma V_apex_optimal k p x y t :
  match k with Cost => 0 < p | Similarity => p < 0 end -> not_worse k y (V p x y t).
Proof.
  intro Hp. unfold V. pose proof (Qabs_nonneg (t - x)) as N.
  destruct k; unfold not_worse.
  - assert (0 <= p * Qabs (t - x)) by (apply Qmult_le_0_compat; lra). lra.
  - assert (0 <= (- p) * Qabs (t - x)) by (apply Qmult_le_0_compat; lra).
    setoid_replace (p * Qabs (t - x)) with (- ((- p) * Qabs (t - x))) by ring. lra.
Qed.

(* Spec-level: the closed forms of the user guide are the optimum of the V / of the parabola through
   the three points, and that optimum is unique *)

Lemma is_vfit_optimum_wd k c0 c1 c2 x y x' y' :
  x == x' -> y == y' -> is_vfit_optimum k c0 c1 c2 x' y' -> is_vfit_optimum k c0 c1 c2 x y.
Proof.
  intros Hx Hy (p & S & B & E0 & E1 & E2). exists p. unfold V in *.
  split; [exact S|]. split; [lra|].
  repeat split.
  - rewrite Hx, Hy. exact E0.
  - rewrite Hx, Hy. exact E1.
  - rewrite Hx, Hy. exact E2.
Qed.

Lemma vfit_opt_intro k p x y c0 c1 c2 :
  match k with Cost => 0 < p | Similarity => p < 0 end ->
  -(1) <= x <= 1 -> y + p * (1 + x) == c0 -> y + p * (1 - x) == c2 ->
  (0 <= x /\ y + p * x == c1 \/ x <= 0 /\ y - p * x == c1) ->
  is_vfit_optimum k c0 c1 c2 x y.
Proof.
  intros S B E0 E2 E1. exists p. split; [exact S|]. split; [exact B|].
  destruct (V_at p x y B) as (F0 & F2 & F1 & F1').
  split; [lra|]. split; [|lra].
  destruct E1 as [[A E1]|[A E1]]; [rewrite F1 by exact A | rewrite F1' by exact A]; exact E1.
Qed.

Lemma vfit_closed_form_is_optimum k c0 c1 c2 :
  is_extremum k c0 c1 c2 -> ~ vfit_slope k c0 c1 c2 == 0 ->
  is_vfit_optimum k c0 c1 c2 (vfit_x k c0 c1 c2) (vfit_y k c0 c1 c2).
Proof.
  intros [A B] S. destruct k; unfold not_worse in *.
  - destruct (Qlt_le_dec c2 c0) as [L|L].
    + assert (M : Qmax c0 c2 == c0) by (apply Q.max_l; lra).
      assert (Ab : Qabs (c0 - c2) == c0 - c2) by (apply Qabs_pos; lra).
      assert (SL : vfit_slope Cost c0 c1 c2 == c0 - c1) by (unfold vfit_slope; rewrite M; reflexivity).
      assert (X : vfit_x Cost c0 c1 c2 == (c0 - c2) / (2 * (c0 - c1))) by (unfold vfit_x; rewrite SL; reflexivity).
      assert (Y : vfit_y Cost c0 c1 c2 == c1 - (c0 - c2) * (1 # 2)) by (unfold vfit_y; rewrite Ab; reflexivity).
      apply (is_vfit_optimum_wd _ _ _ _ _ _ _ _ X Y).
      assert (P0 : 0 < c0 - c1) by lra.
      apply (vfit_opt_intro Cost (c0 - c1)); [exact P0 | | field; lra | field; lra |].
      * split; [apply Qle_shift_div_l; lra | apply Qle_shift_div_r; lra].
      * left. split; [apply Qle_shift_div_l; lra | field; lra].
    + assert (M : Qmax c0 c2 == c2) by (apply Q.max_r; lra).
      assert (Ab : Qabs (c0 - c2) == - (c0 - c2)) by (apply Qabs_neg; lra).
      assert (SL : vfit_slope Cost c0 c1 c2 == c2 - c1) by (unfold vfit_slope; rewrite M; reflexivity).
      assert (X : vfit_x Cost c0 c1 c2 == (c0 - c2) / (2 * (c2 - c1))) by (unfold vfit_x; rewrite SL; reflexivity).
      assert (Y : vfit_y Cost c0 c1 c2 == c1 + (c0 - c2) * (1 # 2)) by (unfold vfit_y; rewrite Ab; ring).
      apply (is_vfit_optimum_wd _ _ _ _ _ _ _ _ X Y).
      assert (P0 : 0 < c2 - c1).
      { destruct (Qlt_le_dec 0 (c2 - c1)); [easy|]. exfalso. apply S. rewrite SL. lra. }
      apply (vfit_opt_intro Cost (c2 - c1)); [exact P0 | | field; lra | field; lra |].
      * split; [apply Qle_shift_div_l; lra | apply Qle_shift_div_r; lra].
      * right. split; [apply Qle_shift_div_r; lra | field; lra].
  - destruct (Qlt_le_dec c0 c2) as [L|L].
    + assert (M : Qmin c0 c2 == c0) by (apply Q.min_l; lra).
      assert (Ab : Qabs (c0 - c2) == - (c0 - c2)) by (apply Qabs_neg; lra).
      assert (SL : vfit_slope Similarity c0 c1 c2 == c0 - c1) by (unfold vfit_slope; rewrite M; reflexivity).
      assert (X : vfit_x Similarity c0 c1 c2 == (c2 - c0) / (2 * (c1 - c0))).
      { unfold vfit_x; rewrite SL. field. lra. }
      assert (Y : vfit_y Similarity c0 c1 c2 == c1 + (c2 - c0) * (1 # 2)) by (unfold vfit_y; rewrite Ab; ring).
      apply (is_vfit_optimum_wd _ _ _ _ _ _ _ _ X Y).
      assert (P0 : c0 - c1 < 0) by lra.
      apply (vfit_opt_intro Similarity (c0 - c1)); [exact P0 | | field; lra | field; lra |].
      * split; [apply Qle_shift_div_l; lra | apply Qle_shift_div_r; lra].
      * left. split; [apply Qle_shift_div_l; lra | field; lra].
    + assert (M : Qmin c0 c2 == c2) by (apply Q.min_r; lra).
      assert (Ab : Qabs (c0 - c2) == c0 - c2) by (apply Qabs_pos; lra).
      assert (SL : vfit_slope Similarity c0 c1 c2 == c2 - c1) by (unfold vfit_slope; rewrite M; reflexivity).
      assert (P0 : c2 - c1 < 0).
      { destruct (Qlt_le_dec (c2 - c1) 0); [easy|]. exfalso. apply S. rewrite SL. lra. }
      assert (X : vfit_x Similarity c0 c1 c2 == (c2 - c0) / (2 * (c1 - c2))).
      { unfold vfit_x; rewrite SL. field. lra. }
      assert (Y : vfit_y Similarity c0 c1 c2 == c1 + (c0 - c2) * (1 # 2)) by (unfold vfit_y; rewrite Ab; ring).
      apply (is_vfit_optimum_wd _ _ _ _ _ _ _ _ X Y).
      apply (vfit_opt_intro Similarity (c2 - c1)); [exact P0 | | field; lra | field; lra |].
      * split; [apply Qle_shift_div_l; lra | apply Qle_shift_div_r; lra].
      * right. split; [apply Qle_shift_div_r; lra | field; lra].
Qed.

(* there is only one such V: "the" V-fit optimum is the closed form *)
Lemma vfit_optimum_unique k c0 c1 c2 x y :
  is_vfit_optimum k c0 c1 c2 x y -> x == vfit_x k c0 c1 c2 /\ y == vfit_y k c0 c1 c2.
Proof.
  intros (p & S & B & E0 & E1 & E2).
  destruct (V_at p x y B) as (F0 & F2 & F1 & F1').
  rewrite F0 in E0. rewrite F2 in E2. clear F0 F2.
  destruct (Qlt_le_dec x 0) as [Lx|Lx].
  - rewrite F1' in E1 by lra. clear F1 F1'.
    destruct k.
    + assert (N : 0 <= p * (- x)) by (apply Qmult_le_0_compat; lra).
      assert (N' : p * (- x) == - (p * x)) by ring.
      assert (M : Qmax c0 c2 == c2) by (apply Q.max_r; lra).
      assert (Ab : Qabs (c0 - c2) == - (c0 - c2)) by (apply Qabs_neg; lra).
      unfold vfit_x, vfit_y, vfit_slope. rewrite M, Ab.
      assert (D : c2 - c1 == p) by lra. assert (Nn : c0 - c2 == 2 * (p * x)) by lra.
      rewrite D, Nn. split; [field; lra | lra].
    + assert (N : 0 <= (- p) * (- x)) by (apply Qmult_le_0_compat; lra).
      assert (N' : (- p) * (- x) == p * x) by ring.
      assert (M : Qmin c0 c2 == c2) by (apply Q.min_r; lra).
      assert (Ab : Qabs (c0 - c2) == c0 - c2) by (apply Qabs_pos; lra).
      unfold vfit_x, vfit_y, vfit_slope. rewrite M, Ab.
      assert (D : c2 - c1 == p) by lra. assert (Nn : c0 - c2 == 2 * (p * x)) by lra.
      rewrite D, Nn. split; [field; lra | lra].
  - rewrite F1 in E1 by lra. clear F1 F1'.
    destruct k.
    + assert (N : 0 <= p * x) by (apply Qmult_le_0_compat; lra).
      assert (M : Qmax c0 c2 == c0) by (apply Q.max_l; lra).
      assert (Ab : Qabs (c0 - c2) == c0 - c2) by (apply Qabs_pos; lra).
      unfold vfit_x, vfit_y, vfit_slope. rewrite M, Ab.
      assert (D : c0 - c1 == p) by lra. assert (Nn : c0 - c2 == 2 * (p * x)) by lra.
      rewrite D, Nn. split; [field; lra | lra].
    + assert (N : 0 <= (- p) * x) by (apply Qmult_le_0_compat; lra).
      assert (N' : (- p) * x == - (p * x)) by ring.
      assert (M : Qmin c0 c2 == c0) by (apply Q.min_l; lra).
      assert (Ab : Qabs (c0 - c2) == - (c0 - c2)) by (apply Qabs_neg; lra).
      unfold vfit_x, vfit_y, vfit_slope. rewrite M, Ab.
      assert (D : c0 - c1 == p) by lra. assert (Nn : c0 - c2 == 2 * (p * x)) by lra.
      rewrite D, Nn. split; [field; lra | lra].
Qed.

(* ---------------------------------------------------------------- parabola *)

Lemma sq_nonneg (z : Q) : 0 <= z * z.
Proof.
  destruct (Qlt_le_dec z 0) as [L|L].
  - setoid_replace (z * z) with ((- z) * (- z)) by ring. apply Qmult_le_0_compat; lra.
  - apply Qmult_le_0_compat; lra.
Qed.

Lemma quad_a_sign k c0 c1 c2 :
  is_extremum k c0 c1 c2 -> ~ quad_a c0 c1 c2 == 0 ->
  match k with Cost => 0 < quad_a c0 c1 c2 | Similarity => quad_a c0 c1 c2 < 0 end.
Proof.
  intros [A B] N. unfold quad_a in *. destruct k; unfold not_worse in *.
  - destruct (Qlt_le_dec 0 ((c0 - 2 * c1 + c2) * (1 # 2))); [easy|]. exfalso. apply N. lra.
  - destruct (Qlt_le_dec ((c0 - 2 * c1 + c2) * (1 # 2)) 0); [easy|]. exfalso. apply N. lra.
Qed.

(* P(t) = P(vertex) + a (t - vertex)^2 *)
Lemma P_vertex_form a b c t : ~ a == 0 ->
  P a b c t == (c - b * b / (4 * a)) + a * ((t - - b / (2 * a)) * (t - - b / (2 * a))).
Proof. intro N. unfold P. field. exact N. Qed.

Lemma quad_closed_form_is_optimum k c0 c1 c2 :
  is_extremum k c0 c1 c2 -> ~ quad_a c0 c1 c2 == 0 ->
  is_parabola_optimum k c0 c1 c2 (quad_x c0 c1 c2) (quad_y c0 c1 c2).
Proof.
  intros E N. pose proof (quad_a_sign k c0 c1 c2 E N) as S.
  exists (quad_a c0 c1 c2), (quad_b c0 c2), c1.
  split; [unfold P, quad_a, quad_b; ring|]. split; [unfold P; ring|].
  split; [unfold P, quad_a, quad_b; ring|].
  split.
  - rewrite (P_vertex_form (quad_a c0 c1 c2) (quad_b c0 c2) c1 (quad_x c0 c1 c2) N). unfold quad_y, quad_x. ring.
  - intro t. pose proof (P_vertex_form (quad_a c0 c1 c2) (quad_b c0 c2) c1 t N) as F.
    fold (quad_y c0 c1 c2) in F.
    pose proof (sq_nonneg (t - - quad_b c0 c2 / (2 * quad_a c0 c1 c2))) as Sq.
    set (z := (t - - quad_b c0 c2 / (2 * quad_a c0 c1 c2)) * (t - - quad_b c0 c2 / (2 * quad_a c0 c1 c2))) in *.
    destruct k; unfold not_worse.
    + assert (0 <= quad_a c0 c1 c2 * z) by (apply Qmult_le_0_compat; lra). lra.
    + assert (0 <= (- quad_a c0 c1 c2) * z) by (apply Qmult_le_0_compat; lra).
      assert ((- quad_a c0 c1 c2) * z == - (quad_a c0 c1 c2 * z)) by ring. lra.
Qed.

(* the parabola through three points is unique, and so is its optimum when it is not flat *)
Lemma parabola_optimum_unique k c0 c1 c2 x y :
  ~ quad_a c0 c1 c2 == 0 ->
  is_parabola_optimum k c0 c1 c2 x y -> x == quad_x c0 c1 c2 /\ y == quad_y c0 c1 c2.
Proof.
  intros N (a & b & c & E0 & E1 & E2 & Ey & Opt).
  unfold P in E0, E1, E2.
  assert (Hc : c == c1) by lra.
  assert (Ha : a == quad_a c0 c1 c2) by (unfold quad_a; lra).
  assert (Hb : b == quad_b c0 c2) by (unfold quad_b; lra).
  assert (Na : ~ a == 0) by (rewrite Ha; exact N).
  pose proof (P_vertex_form a b c x Na) as Fx.
  pose proof (P_vertex_form a b c (- b / (2 * a)) Na) as Fv.
  assert (Z0 : (- b / (2 * a) - - b / (2 * a)) * (- b / (2 * a) - - b / (2 * a)) == 0) by ring.
  rewrite Z0 in Fv. clear Z0.
  set (z := x - - b / (2 * a)) in *.
  pose proof (sq_nonneg z) as Sq.
  pose proof (Opt (- b / (2 * a))) as O. pose proof (Opt (x + 1)) as O1. pose proof (Opt (x - 1)) as O2.
  assert (Az : a * (z * z) == 0).
  { destruct k; unfold not_worse in O, O1, O2.
    - assert (0 <= a) by (unfold P in O1, O2, Ey; lra).
      assert (0 <= a * (z * z)) by (apply Qmult_le_0_compat; lra). lra.
    - assert (0 <= - a) by (unfold P in O1, O2, Ey; lra).
      assert (0 <= (- a) * (z * z)) by (apply Qmult_le_0_compat; lra).
      assert ((- a) * (z * z) == - (a * (z * z))) by ring. lra. }
  apply Qmult_integral in Az. destruct Az as [Az|Az]; [contradiction|].
  apply Qmult_integral in Az. assert (Zz : z == 0) by (destruct Az; assumption).
  assert (Hx : x == - b / (2 * a)) by (subst z; lra).
  split.
  - rewrite Hx. unfold quad_x. rewrite Ha, Hb. reflexivity.
  - rewrite Ey, Fx, Zz. unfold quad_y. rewrite Ha, Hb, Hc. ring.
Qed.

(* ---------------------------------------------------------------- the model computes the closed forms *)

Lemma slope_left m c0 c1 c2 :
  inv m c2 - inv m c1 < inv m c0 - inv m c1 -> vfit_slope (kind_of m) c0 c1 c2 == c0 - c1.
Proof.
  destruct m; unfold inv, vfit_slope, kind_of; intro H.
  - rewrite Q.max_l by lra. reflexivity.
  - rewrite Q.min_l by lra. reflexivity.
Qed.
Lemma slope_right m c0 c1 c2 :
  inv m c0 - inv m c1 <= inv m c2 - inv m c1 -> vfit_slope (kind_of m) c0 c1 c2 == c2 - c1.
Proof.
  destruct m; unfold inv, vfit_slope, kind_of; intro H.
  - rewrite Q.max_r by lra. reflexivity.
  - rewrite Q.min_r by lra. reflexivity.
Qed.
Lemma abs_inv m x : 0 <= inv m x -> Qabs x == inv m x.
Proof. destruct m; unfold inv; intro H; [apply Qabs_pos | apply Qabs_neg]; lra. Qed.
Lemma inv_sub m a b : inv m (a - b) == inv m a - inv m b.
Proof. destruct m; unfold inv; ring. Qed.

Section Methods2.
Variable K : consts.
(* the model computes the closed forms of the user guide (outside the 1e-15 guard band), and leaves
   the pixel where it is, without flag, inside the band *)
Lemma vfit_closed_form m c0 c1 c2 :
  is_extremum (kind_of m) c0 c1 c2 ->
  (eps15 <= Qabs (vfit_slope (kind_of m) c0 c1 c2) ->
     exists sh co, vfit K m (Some c0) c1 (Some c2) = MOk sh co 0
                   /\ sh == vfit_x (kind_of m) c0 c1 c2 /\ co == vfit_y (kind_of m) c0 c1 c2)
  /\ (Qabs (vfit_slope (kind_of m) c0 c1 c2) < eps15 ->
      vfit K m (Some c0) c1 (Some c2) = MOk 0 c1 0).
Proof.
  intro E. apply extremum_uv in E. destruct E as [Eu Ev]. pose proof eps15_pos as He.
  destruct (vfit_char K m c0 c1 c2) as [[A R]|[(A & B & R)|[(A & B & sh & co & R & S & C)|(A & B & sh & co & R & S & C)]]];
    cbv zeta in *.
  - exfalso. lra.
  - assert (Ab : Qabs (vfit_slope (kind_of m) c0 c1 c2) < eps15).
    { destruct (Qlt_le_dec (inv m c2 - inv m c1) (inv m c0 - inv m c1)) as [L|L].
      - rewrite (slope_left m c0 c1 c2 L), (abs_inv m) by (rewrite inv_sub; lra). rewrite inv_sub. lra.
      - rewrite (slope_right m c0 c1 c2 L), (abs_inv m) by (rewrite inv_sub; lra). rewrite inv_sub. lra. }
    split; [intro; exfalso; lra | intro; exact R].
  - assert (SL := slope_left m c0 c1 c2 (proj2 A)).
    assert (Ab : Qabs (vfit_slope (kind_of m) c0 c1 c2) == inv m c0 - inv m c1).
    { rewrite SL, (abs_inv m) by (rewrite inv_sub; lra). apply inv_sub. }
    split; [intros _ | intro; exfalso; lra].
    exists sh, co. split; [exact R|]. split.
    + rewrite S. unfold vfit_x. rewrite SL. destruct m; unfold inv in *; field; lra.
    + destruct m; unfold inv, vfit_y, kind_of in *.
      * rewrite (Qabs_pos (c0 - c2)) by lra. lra.
      * rewrite (Qabs_neg (c0 - c2)) by lra. lra.
  - assert (SL := slope_right m c0 c1 c2 (proj2 A)).
    assert (Ab : Qabs (vfit_slope (kind_of m) c0 c1 c2) == inv m c2 - inv m c1).
    { rewrite SL, (abs_inv m) by (rewrite inv_sub; lra). apply inv_sub. }
    split; [intros _ | intro; exfalso; lra].
    exists sh, co. split; [exact R|]. split.
    + rewrite S. unfold vfit_x. rewrite SL. destruct m; unfold inv in *; field; lra.
    + destruct m; unfold inv, vfit_y, kind_of in *.
      * rewrite (Qabs_neg (c0 - c2)) by lra. lra.
      * rewrite (Qabs_pos (c0 - c2)) by lra. lra.
Qed.

(* quadratic: the closed forms of the user guide, whenever the triple is not flat *)
Lemma quad_closed_form m c0 c1 c2 :
  is_extremum (kind_of m) c0 c1 c2 -> ~ quad_a c0 c1 c2 == 0 ->
  exists sh co, quadratic K m (Some c0) c1 (Some c2) = MOk sh co 0
                /\ sh == quad_x c0 c1 c2 /\ co == quad_y c0 c1 c2.
Proof.
  intros E N. apply extremum_uv in E. destruct E as [Eu Ev].
  destruct (quad_char K m c0 c1 c2) as [[A R]|[(A & B & R)|(A & B & C & sh & co & R & S & D)]]; cbv zeta in *.
  - exfalso. lra.
  - exfalso. apply N. unfold quad_a. destruct m; unfold inv in *; lra.
  - exists sh, co. split; [exact R|]. split.
    + rewrite S. unfold quad_x, quad_b, quad_a. destruct m; unfold inv in *; field; lra.
    + unfold quad_y, quad_b, quad_a. destruct m; unfold inv in *.
      * rewrite D. field. lra.
      * assert (D' : co == c1 + (- c0 - - c1 - (- c2 - - c1)) * (- c0 - - c1 - (- c2 - - c1)) / (8 * (- c0 - - c1 + (- c2 - - c1)))) by lra.
        rewrite D'. field. lra.
Qed.
End Methods2.
