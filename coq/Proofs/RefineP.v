(* Proofs for C06: the model of the refinement step (Model/Refine.v) against its specification
   (Spec/Refine.v). *)
From Coq Require Import ZArith QArith Qabs Qminmax Qround List Bool Lia Lqa.
From Pandora Require Import Model.Refine Spec.Refine.
Import ListNotations.
Open Scope Q_scope.

(* ---------------------------------------------------------------- helpers *)

Lemma Qltb_true x y : Qltb x y = true -> x < y.
Proof.
  unfold Qltb. intro H. apply negb_true_iff in H.
  apply Qnot_le_lt. intro L. apply Qle_bool_iff in L. congruence.
Qed.
Lemma Qltb_false x y : Qltb x y = false -> y <= x.
Proof. unfold Qltb. intro H. apply negb_false_iff in H. now apply Qle_bool_iff. Qed.
Lemma Qltb_iff x y : Qltb x y = true <-> x < y.
Proof.
  split; [apply Qltb_true|]. intro H. destruct (Qltb x y) eqn:E; [easy|].
  apply Qltb_false in E. lra.
Qed.

Lemma eps15_pos : 0 < eps15.
Proof. reflexivity. Qed.

Definition kind_of (m : measure) : kind := match m with MMin => Cost | MMax => Similarity end.

(* destruct every boolean comparison in sight into an order fact *)
Ltac qb :=
  repeat match goal with
  | H : context [Qltb ?a ?b] |- _ =>
      let E := fresh "E" in destruct (Qltb a b) eqn:E;
      [apply Qltb_true in E | apply Qltb_false in E]; cbn [orb andb negb] in H
  | |- context [Qltb ?a ?b] =>
      let E := fresh "E" in destruct (Qltb a b) eqn:E;
      [apply Qltb_true in E | apply Qltb_false in E]; cbn [orb andb negb]
  | H : context [Qeq_bool ?a ?b] |- _ =>
      let E := fresh "E" in destruct (Qeq_bool a b) eqn:E;
      [apply Qeq_bool_iff in E | apply Qeq_bool_neq in E]; cbn [orb andb negb] in H
  | |- context [Qeq_bool ?a ?b] =>
      let E := fresh "E" in destruct (Qeq_bool a b) eqn:E;
      [apply Qeq_bool_iff in E | apply Qeq_bool_neq in E]; cbn [orb andb negb]
  end.

Lemma Qabs_cases (a : Q) : (0 <= a /\ Qabs a == a) \/ (a < 0 /\ Qabs a == - a).
Proof.
  destruct (Qlt_le_dec a 0) as [L|L].
  - right. split; [easy|]. apply Qabs_neg. lra.
  - left. split; [easy|]. now apply Qabs_pos.
Qed.

Ltac qabs :=
  repeat match goal with
  | H : context [Qabs ?a] |- _ =>
      let Ha := fresh "Ha" in let Hs := fresh "Hs" in
      destruct (Qabs_cases a) as [[Hs Ha]|[Hs Ha]]; rewrite Ha in H; clear Ha
  end.

(* |n / d| <= 1/2 when |n| <= |d| ... stated for a positive divisor *)
Lemma half_bound (n d : Q) : 0 < d -> - d <= n -> n <= d -> Qabs (n / (2 * d)) <= 1 # 2.
Proof.
  intros Hd H1 H2. apply Qabs_Qle_condition. split.
  - apply Qle_shift_div_l; lra.
  - apply Qle_shift_div_r; lra.
Qed.

(* ---------------------------------------------------------------- V-fit *)

Section Methods.
  Variable K : consts.

  (* Normal form of a call of vfit on three numbers.  u = how much worse the left neighbour is than
     the centre, v = the right one (both in the sense of the measure). *)
  Lemma vfit_char m c0 c1 c2 :
    let u := inv m c0 - inv m c1 in
    let v := inv m c2 - inv m c1 in
    let r := vfit K m (Some c0) c1 (Some c2) in
    ((u < 0 \/ v < 0) /\ r = MOk 0 c1 (k_stopped K))
    \/ (0 <= u < eps15 /\ 0 <= v < eps15 /\ r = MOk 0 c1 0)
    \/ (0 <= v < u /\ eps15 <= u /\
        exists sh co, r = MOk sh co 0 /\ sh == (u - v) / (2 * u)
                      /\ inv m co == inv m c1 - (u - v) * (1 # 2))
    \/ (0 <= u <= v /\ eps15 <= v /\
        exists sh co, r = MOk sh co 0 /\ sh == (u - v) / (2 * v)
                      /\ inv m co == inv m c1 - (v - u) * (1 # 2)).
  Proof.
    intros u v r. subst u v r. unfold vfit. pose proof eps15_pos as He.
    destruct m; unfold inv; qb; qabs; try lra;
      first [ left; split; [lra | reflexivity]
            | right; left; split; [lra | split; [lra | reflexivity]]
            | right; right; left; split; [lra | split; [lra |]];
              eexists; eexists; split; [reflexivity | split; field; lra]
            | right; right; right; split; [lra | split; [lra |]];
              eexists; eexists; split; [reflexivity | split; field; lra] ].
  Qed.

  (* ---------------------------------------------------------------- quadratic *)

  Lemma clamp1_id x : -(1) < x -> x < 1 -> clamp1 x = x.
  Proof.
    intros A B. unfold clamp1. qb; try reflexivity; lra.
  Qed.

  Lemma quad_char m c0 c1 c2 :
    let u := inv m c0 - inv m c1 in
    let v := inv m c2 - inv m c1 in
    let r := quadratic K m (Some c0) c1 (Some c2) in
    ((u < 0 \/ v < 0) /\ r = MOk 0 c1 (k_stopped K))
    \/ (0 <= u /\ 0 <= v /\ u + v < 2 * eps15 /\ r = MOk 0 c1 0)
    \/ (0 <= u /\ 0 <= v /\ 2 * eps15 <= u + v /\
        exists sh co, r = MOk sh co 0 /\ sh == (u - v) / (2 * (u + v))
                      /\ inv m co == inv m c1 - (u - v) * (u - v) / (8 * (u + v))).
  Proof.
    intros u v r. subst r. unfold quadratic. cbv zeta. pose proof eps15_pos as He.
    destruct (Qltb (inv m c0) (inv m c1) || Qltb (inv m c2) (inv m c1)) eqn:E0.
    { left. split; [|reflexivity]. subst u v. apply orb_true_iff in E0.
      destruct E0 as [E|E]; apply Qltb_true in E; lra. }
    apply orb_false_iff in E0. destruct E0 as [Eu Ev]. apply Qltb_false in Eu, Ev.
    assert (Hu : 0 <= u) by (subst u; lra). assert (Hv : 0 <= v) by (subst v; lra).
    right.
    assert (HA : Qabs ((c0 - 2 * c1 + c2) * (1 # 2)) == (u + v) * (1 # 2)).
    { subst u v. destruct m; unfold inv in *.
      - rewrite Qabs_pos by lra. lra.
      - rewrite Qabs_neg by lra. lra. }
    destruct (Qltb (Qabs ((c0 - 2 * c1 + c2) * (1 # 2))) eps15) eqn:E1.
    { left. apply Qltb_true in E1. repeat split; try assumption. lra. }
    apply Qltb_false in E1. right.
    assert (Huv : 2 * eps15 <= u + v) by lra.
    destruct (Qeq_bool (2 * ((c0 - 2 * c1 + c2) * (1 # 2))) 0) eqn:E2.
    { exfalso. apply Qeq_bool_iff in E2. subst u v. destruct m; unfold inv in *; lra. }
    apply Qeq_bool_neq in E2.
    repeat split; try assumption.
    set (x := - ((c2 - c0) * (1 # 2)) / (2 * ((c0 - 2 * c1 + c2) * (1 # 2)))).
    assert (X : x == (u - v) / (2 * (u + v))).
    { subst x u v. destruct m; unfold inv in *; field; lra. }
    assert (B : Qabs ((u - v) / (2 * (u + v))) <= 1 # 2) by (apply half_bound; lra).
    apply Qabs_Qle_condition in B. rewrite <- X in B.
    rewrite clamp1_id by lra.
    eexists; eexists; split; [reflexivity|]. split; [exact X|].
    subst x u v. destruct m; unfold inv in *; field; lra.
  Qed.

  (* ---------------------------------------------------------------- consequences, both methods *)

  Lemma extremum_uv m c0 c1 c2 :
    is_extremum (kind_of m) c0 c1 c2 <-> 0 <= inv m c0 - inv m c1 /\ 0 <= inv m c2 - inv m c1.
  Proof. destruct m; unfold is_extremum, not_worse, kind_of, inv; split; intros [A B]; split; lra. Qed.

  Lemma not_worse_inv m a b : not_worse (kind_of m) a b <-> inv m a <= inv m b.
  Proof. destruct m; unfold not_worse, kind_of, inv; split; intro; lra. Qed.

  Lemma Qabs_0_half : Qabs 0 <= 1 # 2.
  Proof. discriminate. Qed.

  (* whatever the three costs: the shift is at most half a sample *)
  Lemma vfit_shift_half m oc0 c1 oc2 sh co fl :
    vfit K m oc0 c1 oc2 = MOk sh co fl -> Qabs sh <= 1 # 2.
  Proof.
    destruct oc0 as [c0|], oc2 as [c2|]; try (cbn; intro H; inversion H; apply Qabs_0_half).
    intro H. pose proof eps15_pos.
    destruct (vfit_char m c0 c1 c2) as [[_ R]|[(_ & _ & R)|[(A & B & sh' & co' & R & S & _)|(A & B & sh' & co' & R & S & _)]]];
      cbv zeta in *; rewrite R in H; inversion H; subst; try apply Qabs_0_half.
    - rewrite S. apply half_bound; lra.
    - rewrite S. apply half_bound; lra.
  Qed.

  Lemma quad_shift_half m oc0 c1 oc2 sh co fl :
    quadratic K m oc0 c1 oc2 = MOk sh co fl -> Qabs sh <= 1 # 2.
  Proof.
    destruct oc0 as [c0|], oc2 as [c2|]; try (cbn; intro H; inversion H; apply Qabs_0_half).
    intro H.
    pose proof eps15_pos.
    destruct (quad_char m c0 c1 c2) as [[_ R]|[(_ & _ & _ & R)|(A & B & C & sh' & co' & R & S & _)]];
      cbv zeta in *; rewrite R in H; inversion H; subst; try apply Qabs_0_half.
    rewrite S. apply half_bound; lra.
  Qed.

  (* the fitted cost is never worse than the cost of the sample *)
  Lemma vfit_cost_not_worse m oc0 c1 oc2 sh co fl :
    vfit K m oc0 c1 oc2 = MOk sh co fl -> not_worse (kind_of m) co c1.
  Proof.
    intro H. apply not_worse_inv.
    destruct oc0 as [c0|], oc2 as [c2|]; try (cbn in H; inversion H; lra).
    destruct (vfit_char m c0 c1 c2) as [[_ R]|[(_ & _ & R)|[(A & B & sh' & co' & R & _ & S)|(A & B & sh' & co' & R & _ & S)]]];
      cbv zeta in *; rewrite R in H; inversion H; subst; try lra.
  Qed.

  Lemma sq_div_nonneg a d : 0 < d -> 0 <= a * a / d.
  Proof.
    intro Hd. apply Qle_shift_div_l; [exact Hd|]. rewrite Qmult_0_l.
    destruct (Qlt_le_dec a 0) as [L|L].
    - setoid_replace (a * a) with ((- a) * (- a)) by ring. apply Qmult_le_0_compat; lra.
    - apply Qmult_le_0_compat; lra.
  Qed.

  Lemma quad_cost_not_worse m oc0 c1 oc2 sh co fl :
    quadratic K m oc0 c1 oc2 = MOk sh co fl -> not_worse (kind_of m) co c1.
  Proof.
    intro H. apply not_worse_inv.
    destruct oc0 as [c0|], oc2 as [c2|]; try (cbn in H; inversion H; lra).
    pose proof eps15_pos.
    destruct (quad_char m c0 c1 c2) as [[_ R]|[(_ & _ & _ & R)|(A & B & C & sh' & co' & R & _ & S)]];
      cbv zeta in *; rewrite R in H; inversion H; subst; try lra.
    rewrite S.
    pose proof (sq_div_nonneg (inv m c0 - inv m c1 - (inv m c2 - inv m c1)) (8 * (inv m c0 - inv m c1 + (inv m c2 - inv m c1)))).
    lra.
  Qed.
End Methods.

(* ---------------------------------------------------------------- the closed forms are the optima *)

Lemma V_at p x y : -(1) <= x <= 1 ->
  V p x y (-(1)) == y + p * (1 + x) /\ V p x y 1 == y + p * (1 - x)
  /\ (0 <= x -> V p x y 0 == y + p * x) /\ (x <= 0 -> V p x y 0 == y - p * x).
Proof.
  intros [A B]. unfold V. repeat split.
  - rewrite Qabs_neg by lra. ring.
  - rewrite Qabs_pos by lra. ring.
  - intro C. rewrite Qabs_neg by lra. ring.
  - intro C. rewrite Qabs_pos by lra. ring.
Qed.

(* the apex of the V is its optimum *)
Lemma V_apex_optimal k p x y t :
  match k with Cost => 0 < p | Similarity => p < 0 end -> not_worse k y (V p x y t).
Proof.
  intro Hp. unfold V. pose proof (Qabs_nonneg (t - x)) as N.
  destruct k; unfold not_worse.
  - assert (0 <= p * Qabs (t - x)) by (apply Qmult_le_0_compat; lra). lra.
  - assert (0 <= (- p) * Qabs (t - x)) by (apply Qmult_le_0_compat; lra).
    setoid_replace (p * Qabs (t - x)) with (- ((- p) * Qabs (t - x))) by ring. lra.
Qed.

(* Spec-level: the closed forms of the user guide are the optimum of the V / of the parabola through
   the three points, and that optimum is unique *)

Lemma is_vfit_optimum_wd k c0 c1 c2 x y x' y' :
  x == x' -> y == y' -> is_vfit_optimum k c0 c1 c2 x' y' -> is_vfit_optimum k c0 c1 c2 x y.
Proof.
  intros Hx Hy (p & S & B & E0 & E1 & E2). exists p. unfold V in *.
  split; [exact S|]. split; [lra|].
  repeat split.
  - rewrite Hx, Hy. exact E0.
  - rewrite Hx, Hy. exact E1.
  - rewrite Hx, Hy. exact E2.
Qed.

Lemma vfit_opt_intro k p x y c0 c1 c2 :
  match k with Cost => 0 < p | Similarity => p < 0 end ->
  -(1) <= x <= 1 -> y + p * (1 + x) == c0 -> y + p * (1 - x) == c2 ->
  (0 <= x /\ y + p * x == c1 \/ x <= 0 /\ y - p * x == c1) ->
  is_vfit_optimum k c0 c1 c2 x y.
Proof.
  intros S B E0 E2 E1. exists p. split; [exact S|]. split; [exact B|].
  destruct (V_at p x y B) as (F0 & F2 & F1 & F1').
  split; [lra|]. split; [|lra].
  destruct E1 as [[A E1]|[A E1]]; [rewrite F1 by exact A | rewrite F1' by exact A]; exact E1.
Qed.

Lemma vfit_closed_form_is_optimum k c0 c1 c2 :
  is_extremum k c0 c1 c2 -> ~ vfit_slope k c0 c1 c2 == 0 ->
  is_vfit_optimum k c0 c1 c2 (vfit_x k c0 c1 c2) (vfit_y k c0 c1 c2).
Proof.
  intros [A B] S. destruct k; unfold not_worse in *.
  - destruct (Qlt_le_dec c2 c0) as [L|L].
    + assert (M : Qmax c0 c2 == c0) by (apply Q.max_l; lra).
      assert (Ab : Qabs (c0 - c2) == c0 - c2) by (apply Qabs_pos; lra).
      assert (SL : vfit_slope Cost c0 c1 c2 == c0 - c1) by (unfold vfit_slope; rewrite M; reflexivity).
      assert (X : vfit_x Cost c0 c1 c2 == (c0 - c2) / (2 * (c0 - c1))) by (unfold vfit_x; rewrite SL; reflexivity).
      assert (Y : vfit_y Cost c0 c1 c2 == c1 - (c0 - c2) * (1 # 2)) by (unfold vfit_y; rewrite Ab; reflexivity).
      apply (is_vfit_optimum_wd _ _ _ _ _ _ _ _ X Y).
      assert (P0 : 0 < c0 - c1) by lra.
      apply (vfit_opt_intro Cost (c0 - c1)); [exact P0 | | field; lra | field; lra |].
      * split; [apply Qle_shift_div_l; lra | apply Qle_shift_div_r; lra].
      * left. split; [apply Qle_shift_div_l; lra | field; lra].
    + assert (M : Qmax c0 c2 == c2) by (apply Q.max_r; lra).
      assert (Ab : Qabs (c0 - c2) == - (c0 - c2)) by (apply Qabs_neg; lra).
      assert (SL : vfit_slope Cost c0 c1 c2 == c2 - c1) by (unfold vfit_slope; rewrite M; reflexivity).
      assert (X : vfit_x Cost c0 c1 c2 == (c0 - c2) / (2 * (c2 - c1))) by (unfold vfit_x; rewrite SL; reflexivity).
      assert (Y : vfit_y Cost c0 c1 c2 == c1 + (c0 - c2) * (1 # 2)) by (unfold vfit_y; rewrite Ab; ring).
      apply (is_vfit_optimum_wd _ _ _ _ _ _ _ _ X Y).
      assert (P0 : 0 < c2 - c1).
      { destruct (Qlt_le_dec 0 (c2 - c1)); [easy|]. exfalso. apply S. rewrite SL. lra. }
      apply (vfit_opt_intro Cost (c2 - c1)); [exact P0 | | field; lra | field; lra |].
      * split; [apply Qle_shift_div_l; lra | apply Qle_shift_div_r; lra].
      * right. split; [apply Qle_shift_div_r; lra | field; lra].
  - destruct (Qlt_le_dec c0 c2) as [L|L].
    + assert (M : Qmin c0 c2 == c0) by (apply Q.min_l; lra).
      assert (Ab : Qabs (c0 - c2) == - (c0 - c2)) by (apply Qabs_neg; lra).
      assert (SL : vfit_slope Similarity c0 c1 c2 == c0 - c1) by (unfold vfit_slope; rewrite M; reflexivity).
      assert (X : vfit_x Similarity c0 c1 c2 == (c2 - c0) / (2 * (c1 - c0))).
      { unfold vfit_x; rewrite SL. field. lra. }
      assert (Y : vfit_y Similarity c0 c1 c2 == c1 + (c2 - c0) * (1 # 2)) by (unfold vfit_y; rewrite Ab; ring).
      apply (is_vfit_optimum_wd _ _ _ _ _ _ _ _ X Y).
      assert (P0 : c0 - c1 < 0) by lra.
      apply (vfit_opt_intro Similarity (c0 - c1)); [exact P0 | | field; lra | field; lra |].
      * split; [apply Qle_shift_div_l; lra | apply Qle_shift_div_r; lra].
      * left. split; [apply Qle_shift_div_l; lra | field; lra].
    + assert (M : Qmin c0 c2 == c2) by (apply Q.min_r; lra).
      assert (Ab : Qabs (c0 - c2) == c0 - c2) by (apply Qabs_pos; lra).
      assert (SL : vfit_slope Similarity c0 c1 c2 == c2 - c1) by (unfold vfit_slope; rewrite M; reflexivity).
      assert (P0 : c2 - c1 < 0).
      { destruct (Qlt_le_dec (c2 - c1) 0); [easy|]. exfalso. apply S. rewrite SL. lra. }
      assert (X : vfit_x Similarity c0 c1 c2 == (c2 - c0) / (2 * (c1 - c2))).
      { unfold vfit_x; rewrite SL. field. lra. }
      assert (Y : vfit_y Similarity c0 c1 c2 == c1 + (c0 - c2) * (1 # 2)) by (unfold vfit_y; rewrite Ab; ring).
      apply (is_vfit_optimum_wd _ _ _ _ _ _ _ _ X Y).
      apply (vfit_opt_intro Similarity (c2 - c1)); [exact P0 | | field; lra | field; lra |].
      * split; [apply Qle_shift_div_l; lra | apply Qle_shift_div_r; lra].
      * right. split; [apply Qle_shift_div_r; lra | field; lra].
Qed.

(* there is only one such V: "the" V-fit optimum is the closed form *)
Lemma vfit_optimum_unique k c0 c1 c2 x y :
  is_vfit_optimum k c0 c1 c2 x y -> x == vfit_x k c0 c1 c2 /\ y == vfit_y k c0 c1 c2.
Proof.
  intros (p & S & B & E0 & E1 & E2).
  destruct (V_at p x y B) as (F0 & F2 & F1 & F1').
  rewrite F0 in E0. rewrite F2 in E2. clear F0 F2.
  destruct (Qlt_le_dec x 0) as [Lx|Lx].
  - rewrite F1' in E1 by lra. clear F1 F1'.
    destruct k.
    + assert (N : 0 <= p * (- x)) by (apply Qmult_le_0_compat; lra).
      assert (N' : p * (- x) == - (p * x)) by ring.
      assert (M : Qmax c0 c2 == c2) by (apply Q.max_r; lra).
      assert (Ab : Qabs (c0 - c2) == - (c0 - c2)) by (apply Qabs_neg; lra).
      unfold vfit_x, vfit_y, vfit_slope. rewrite M, Ab.
      assert (D : c2 - c1 == p) by lra. assert (Nn : c0 - c2 == 2 * (p * x)) by lra.
      rewrite D, Nn. split; [field; lra | lra].
    + assert (N : 0 <= (- p) * (- x)) by (apply Qmult_le_0_compat; lra).
      assert (N' : (- p) * (- x) == p * x) by ring.
      assert (M : Qmin c0 c2 == c2) by (apply Q.min_r; lra).
      assert (Ab : Qabs (c0 - c2) == c0 - c2) by (apply Qabs_pos; lra).
      unfold vfit_x, vfit_y, vfit_slope. rewrite M, Ab.
      assert (D : c2 - c1 == p) by lra. assert (Nn : c0 - c2 == 2 * (p * x)) by lra.
      rewrite D, Nn. split; [field; lra | lra].
  - rewrite F1 in E1 by lra. clear F1 F1'.
    destruct k.
    + assert (N : 0 <= p * x) by (apply Qmult_le_0_compat; lra).
      assert (M : Qmax c0 c2 == c0) by (apply Q.max_l; lra).
      assert (Ab : Qabs (c0 - c2) == c0 - c2) by (apply Qabs_pos; lra).
      unfold vfit_x, vfit_y, vfit_slope. rewrite M, Ab.
      assert (D : c0 - c1 == p) by lra. assert (Nn : c0 - c2 == 2 * (p * x)) by lra.
      rewrite D, Nn. split; [field; lra | lra].
    + assert (N : 0 <= (- p) * x) by (apply Qmult_le_0_compat; lra).
      assert (N' : (- p) * x == - (p * x)) by ring.
      assert (M : Qmin c0 c2 == c0) by (apply Q.min_l; lra).
      assert (Ab : Qabs (c0 - c2) == - (c0 - c2)) by (apply Qabs_neg; lra).
      unfold vfit_x, vfit_y, vfit_slope. rewrite M, Ab.
      assert (D : c0 - c1 == p) by lra. assert (Nn : c0 - c2 == 2 * (p * x)) by lra.
      rewrite D, Nn. split; [field; lra | lra].
Qed.

(* ---------------------------------------------------------------- parabola *)

Lemma sq_nonneg (z : Q) : 0 <= z * z.
Proof.
  destruct (Qlt_le_dec z 0) as [L|L].
  - setoid_replace (z * z) with ((- z) * (- z)) by ring. apply Qmult_le_0_compat; lra.
  - apply Qmult_le_0_compat; lra.
Qed.

Lemma quad_a_sign k c0 c1 c2 :
  is_extremum k c0 c1 c2 -> ~ quad_a c0 c1 c2 == 0 ->
  match k with Cost => 0 < quad_a c0 c1 c2 | Similarity => quad_a c0 c1 c2 < 0 end.
Proof.
  intros [A B] N. unfold quad_a in *. destruct k; unfold not_worse in *.
  - destruct (Qlt_le_dec 0 ((c0 - 2 * c1 + c2) * (1 # 2))); [easy|]. exfalso. apply N. lra.
  - destruct (Qlt_le_dec ((c0 - 2 * c1 + c2) * (1 # 2)) 0); [easy|]. exfalso. apply N. lra.
Qed.

(* P(t) = P(vertex) + a (t - vertex)^2 *)
Lemma P_vertex_form a b c t : ~ a == 0 ->
  P a b c t == (c - b * b / (4 * a)) + a * ((t - - b / (2 * a)) * (t - - b / (2 * a))).
Proof. intro N. unfold P. field. exact N. Qed.

Lemma quad_closed_form_is_optimum k c0 c1 c2 :
  is_extremum k c0 c1 c2 -> ~ quad_a c0 c1 c2 == 0 ->
  is_parabola_optimum k c0 c1 c2 (quad_x c0 c1 c2) (quad_y c0 c1 c2).
Proof.
  intros E N. pose proof (quad_a_sign k c0 c1 c2 E N) as S.
  exists (quad_a c0 c1 c2), (quad_b c0 c2), c1.
  split; [unfold P, quad_a, quad_b; ring|]. split; [unfold P; ring|].
  split; [unfold P, quad_a, quad_b; ring|].
  split.
  - rewrite (P_vertex_form (quad_a c0 c1 c2) (quad_b c0 c2) c1 (quad_x c0 c1 c2) N). unfold quad_y, quad_x. ring.
  - intro t. pose proof (P_vertex_form (quad_a c0 c1 c2) (quad_b c0 c2) c1 t N) as F.
    fold (quad_y c0 c1 c2) in F.
    pose proof (sq_nonneg (t - - quad_b c0 c2 / (2 * quad_a c0 c1 c2))) as Sq.
    set (z := (t - - quad_b c0 c2 / (2 * quad_a c0 c1 c2)) * (t - - quad_b c0 c2 / (2 * quad_a c0 c1 c2))) in *.
    destruct k; unfold not_worse.
    + assert (0 <= quad_a c0 c1 c2 * z) by (apply Qmult_le_0_compat; lra). lra.
    + assert (0 <= (- quad_a c0 c1 c2) * z) by (apply Qmult_le_0_compat; lra).
      assert ((- quad_a c0 c1 c2) * z == - (quad_a c0 c1 c2 * z)) by ring. lra.
Qed.

(* the parabola through three points is unique, and so is its optimum when it is not flat *)
Lemma parabola_optimum_unique k c0 c1 c2 x y :
  ~ quad_a c0 c1 c2 == 0 ->
  is_parabola_optimum k c0 c1 c2 x y -> x == quad_x c0 c1 c2 /\ y == quad_y c0 c1 c2.
Proof.
  intros N (a & b & c & E0 & E1 & E2 & Ey & Opt).
  unfold P in E0, E1, E2.
  assert (Hc : c == c1) by lra.
  assert (Ha : a == quad_a c0 c1 c2) by (unfold quad_a; lra).
  assert (Hb : b == quad_b c0 c2) by (unfold quad_b; lra).
  assert (Na : ~ a == 0) by (rewrite Ha; exact N).
  pose proof (P_vertex_form a b c x Na) as Fx.
  pose proof (P_vertex_form a b c (- b / (2 * a)) Na) as Fv.
  assert (Z0 : (- b / (2 * a) - - b / (2 * a)) * (- b / (2 * a) - - b / (2 * a)) == 0) by ring.
  rewrite Z0 in Fv. clear Z0.
  set (z := x - - b / (2 * a)) in *.
  pose proof (sq_nonneg z) as Sq.
  pose proof (Opt (- b / (2 * a))) as O. pose proof (Opt (x + 1)) as O1. pose proof (Opt (x - 1)) as O2.
  assert (Az : a * (z * z) == 0).
  { destruct k; unfold not_worse in O, O1, O2.
    - assert (0 <= a) by (unfold P in O1, O2, Ey; lra).
      assert (0 <= a * (z * z)) by (apply Qmult_le_0_compat; lra). lra.
    - assert (0 <= - a) by (unfold P in O1, O2, Ey; lra).
      assert (0 <= (- a) * (z * z)) by (apply Qmult_le_0_compat; lra).
      assert ((- a) * (z * z) == - (a * (z * z))) by ring. lra. }
  apply Qmult_integral in Az. destruct Az as [Az|Az]; [contradiction|].
  apply Qmult_integral in Az. assert (Zz : z == 0) by (destruct Az; assumption).
  assert (Hx : x == - b / (2 * a)) by (subst z; lra).
  split.
  - rewrite Hx. unfold quad_x. rewrite Ha, Hb. reflexivity.
  - rewrite Ey, Fx, Zz. unfold quad_y. rewrite Ha, Hb, Hc. ring.
Qed.

(* ---------------------------------------------------------------- the model computes the closed forms *)

Lemma slope_left m c0 c1 c2 :
  inv m c2 - inv m c1 < inv m c0 - inv m c1 -> vfit_slope (kind_of m) c0 c1 c2 == c0 - c1.
Proof.
  destruct m; unfold inv, vfit_slope, kind_of; intro H.
  - rewrite Q.max_l by lra. reflexivity.
  - rewrite Q.min_l by lra. reflexivity.
Qed.
Lemma slope_right m c0 c1 c2 :
  inv m c0 - inv m c1 <= inv m c2 - inv m c1 -> vfit_slope (kind_of m) c0 c1 c2 == c2 - c1.
Proof.
  destruct m; unfold inv, vfit_slope, kind_of; intro H.
  - rewrite Q.max_r by lra. reflexivity.
  - rewrite Q.min_r by lra. reflexivity.
Qed.
Lemma abs_inv m x : 0 <= inv m x -> Qabs x == inv m x.
Proof. destruct m; unfold inv; intro H; [apply Qabs_pos | apply Qabs_neg]; lra. Qed.
Lemma inv_sub m a b : inv m (a - b) == inv m a - inv m b.
Proof. destruct m; unfold inv; ring. Qed.

Section Methods2.
Variable K : consts.
(* the model computes the closed forms of the user guide (outside the 1e-15 guard band), and leaves
   the pixel where it is, without flag, inside the band *)
Lemma vfit_closed_form m c0 c1 c2 :
  is_extremum (kind_of m) c0 c1 c2 ->
  (eps15 <= Qabs (vfit_slope (kind_of m) c0 c1 c2) ->
     exists sh co, vfit K m (Some c0) c1 (Some c2) = MOk sh co 0
                   /\ sh == vfit_x (kind_of m) c0 c1 c2 /\ co == vfit_y (kind_of m) c0 c1 c2)
  /\ (Qabs (vfit_slope (kind_of m) c0 c1 c2) < eps15 ->
      vfit K m (Some c0) c1 (Some c2) = MOk 0 c1 0).
Proof.
  intro E. apply extremum_uv in E. destruct E as [Eu Ev]. pose proof eps15_pos as He.
  destruct (vfit_char K m c0 c1 c2) as [[A R]|[(A & B & R)|[(A & B & sh & co & R & S & C)|(A & B & sh & co & R & S & C)]]];
    cbv zeta in *.
  - exfalso. lra.
  - assert (Ab : Qabs (vfit_slope (kind_of m) c0 c1 c2) < eps15).
    { destruct (Qlt_le_dec (inv m c2 - inv m c1) (inv m c0 - inv m c1)) as [L|L].
      - rewrite (slope_left m c0 c1 c2 L), (abs_inv m) by (rewrite inv_sub; lra). rewrite inv_sub. lra.
      - rewrite (slope_right m c0 c1 c2 L), (abs_inv m) by (rewrite inv_sub; lra). rewrite inv_sub. lra. }
    split; [intro; exfalso; lra | intro; exact R].
  - assert (SL := slope_left m c0 c1 c2 (proj2 A)).
    assert (Ab : Qabs (vfit_slope (kind_of m) c0 c1 c2) == inv m c0 - inv m c1).
    { rewrite SL, (abs_inv m) by (rewrite inv_sub; lra). apply inv_sub. }
    split; [intros _ | intro; exfalso; lra].
    exists sh, co. split; [exact R|]. split.
    + rewrite S. unfold vfit_x. rewrite SL. destruct m; unfold inv in *; field; lra.
    + destruct m; unfold inv, vfit_y, kind_of in *.
      * rewrite (Qabs_pos (c0 - c2)) by lra. lra.
      * rewrite (Qabs_neg (c0 - c2)) by lra. lra.
  - assert (SL := slope_right m c0 c1 c2 (proj2 A)).
    assert (Ab : Qabs (vfit_slope (kind_of m) c0 c1 c2) == inv m c2 - inv m c1).
    { rewrite SL, (abs_inv m) by (rewrite inv_sub; lra). apply inv_sub. }
    split; [intros _ | intro; exfalso; lra].
    exists sh, co. split; [exact R|]. split.
    + rewrite S. unfold vfit_x. rewrite SL. destruct m; unfold inv in *; field; lra.
    + destruct m; unfold inv, vfit_y, kind_of in *.
      * rewrite (Qabs_neg (c0 - c2)) by lra. lra.
      * rewrite (Qabs_pos (c0 - c2)) by lra. lra.
Qed.

(* quadratic: the closed forms of the user guide, outside the 1e-15 guard band of the curvature;
   inside the band (a flat triple, alpha = 0, is its centre) the pixel stays in place, without flag *)
Lemma quad_a_abs m c0 c1 c2 :
  0 <= inv m c0 - inv m c1 -> 0 <= inv m c2 - inv m c1 ->
  Qabs (quad_a c0 c1 c2) == (inv m c0 - inv m c1 + (inv m c2 - inv m c1)) * (1 # 2).
Proof.
  intros Eu Ev. unfold quad_a. destruct m; unfold inv in *.
  - rewrite Qabs_pos by lra. lra.
  - rewrite Qabs_neg by lra. lra.
Qed.

Lemma quad_closed_form m c0 c1 c2 :
  is_extremum (kind_of m) c0 c1 c2 ->
  (eps15 <= Qabs (quad_a c0 c1 c2) ->
     exists sh co, quadratic K m (Some c0) c1 (Some c2) = MOk sh co 0
                   /\ sh == quad_x c0 c1 c2 /\ co == quad_y c0 c1 c2)
  /\ (Qabs (quad_a c0 c1 c2) < eps15 -> quadratic K m (Some c0) c1 (Some c2) = MOk 0 c1 0).
Proof.
  intros E. apply extremum_uv in E. destruct E as [Eu Ev]. pose proof eps15_pos as He.
  pose proof (quad_a_abs m c0 c1 c2 Eu Ev) as HA.
  destruct (quad_char K m c0 c1 c2) as [[A R]|[(A & B & C & R)|(A & B & C & sh & co & R & S & D)]]; cbv zeta in *.
  - exfalso. lra.
  - split; [intro; exfalso; lra | intro; exact R].
  - split; [intros _ | intro; exfalso; lra].
    assert (N : ~ quad_a c0 c1 c2 == 0).
    { intro Z. rewrite Z in HA. cbn in HA. lra. }
    exists sh, co. split; [exact R|]. split.
    + rewrite S. unfold quad_x, quad_b, quad_a. destruct m; unfold inv in *; field; lra.
    + unfold quad_y, quad_b, quad_a. destruct m; unfold inv in *.
      * rewrite D. field. lra.
      * assert (D' : co == c1 + (- c0 - - c1 - (- c2 - - c1)) * (- c0 - - c1 - (- c2 - - c1)) / (8 * (- c0 - - c1 + (- c2 - - c1)))) by lra.
        rewrite D'. field. lra.
Qed.

(* neither method can raise, whatever the triple (flat, tied, NaN-holed) and the measure *)
Lemma vfit_total m oc0 c1 oc2 : vfit K m oc0 c1 oc2 <> MRaise.
Proof.
  destruct oc0 as [c0|], oc2 as [c2|]; try (cbn; discriminate).
  destruct (vfit_char K m c0 c1 c2) as [[_ R]|[(_ & _ & R)|[(_ & _ & sh & co & R & _)|(_ & _ & sh & co & R & _)]]];
    cbv zeta in *; rewrite R; discriminate.
Qed.

Lemma quad_total m oc0 c1 oc2 : quadratic K m oc0 c1 oc2 <> MRaise.
Proof.
  destruct oc0 as [c0|], oc2 as [c2|]; try (cbn; discriminate).
  destruct (quad_char K m c0 c1 c2) as [[_ R]|[(_ & _ & _ & R)|(_ & _ & _ & sh & co & R & _)]];
    cbv zeta in *; rewrite R; discriminate.
Qed.

Lemma run_method_total me m oc0 c1 oc2 : run_method K me m oc0 c1 oc2 <> MRaise.
Proof. destruct me; [apply vfit_total | apply quad_total]. Qed.

(* the flag a method returns is 0 or "stopped"; with "stopped" the pixel stays where it is and keeps
   its cost; "stopped" is returned exactly when a neighbour is NaN or the centre is not an extremum *)
Lemma run_method_stop me m oc0 c1 oc2 :
  (oc0 = None \/ oc2 = None
   \/ exists c0 c2, oc0 = Some c0 /\ oc2 = Some c2 /\ ~ is_extremum (kind_of m) c0 c1 c2) ->
  run_method K me m oc0 c1 oc2 = MOk 0 c1 (k_stopped K).
Proof.
  intros [H|[H|(c0 & c2 & H0 & H2 & H)]]; subst.
  - destruct me, oc2; reflexivity.
  - destruct me, oc0; reflexivity.
  - assert (U : inv m c0 - inv m c1 < 0 \/ inv m c2 - inv m c1 < 0).
    { destruct (Qlt_le_dec (inv m c0 - inv m c1) 0) as [L|L]; [left; exact L|].
      destruct (Qlt_le_dec (inv m c2 - inv m c1) 0) as [L'|L']; [right; exact L'|].
      exfalso. apply H. apply extremum_uv. split; assumption. }
    pose proof eps15_pos.
    destruct me; cbn [run_method].
    + destruct (vfit_char K m c0 c1 c2) as [[_ R]|[(A & B & R)|[(A & B & _)|(A & B & _)]]];
        cbv zeta in *; try exact R; exfalso; lra.
    + destruct (quad_char K m c0 c1 c2) as [[_ R]|[(A & B & _)|(A & B & _)]];
        cbv zeta in *; try exact R; exfalso; lra.
Qed.

Lemma run_method_go me m c0 c1 c2 :
  is_extremum (kind_of m) c0 c1 c2 ->
  exists sh co, run_method K me m (Some c0) c1 (Some c2) = MOk sh co 0.
Proof.
  intro E. apply extremum_uv in E. destruct E as [Eu Ev].
  destruct me; cbn [run_method].
  - destruct (vfit_char K m c0 c1 c2) as [[A R]|[(A & B & R)|[(A & B & sh & co & R & _)|(A & B & sh & co & R & _)]]];
      cbv zeta in *; try (exfalso; lra); eauto.
  - destruct (quad_char K m c0 c1 c2) as [[A R]|[(A & B & C & R)|(A & B & C & sh & co & R & _)]];
      cbv zeta in *; try (exfalso; lra); eauto.
Qed.

Lemma run_method_flag me m oc0 c1 oc2 sh co fl :
  run_method K me m oc0 c1 oc2 = MOk sh co fl -> fl = 0%Z \/ (fl = k_stopped K /\ sh = 0 /\ co = c1).
Proof.
  intro H.
  destruct oc0 as [c0|]; [|rewrite (run_method_stop me m None c1 oc2) in H by (left; reflexivity);
                            inversion H; right; repeat split].
  destruct oc2 as [c2|]; [|rewrite (run_method_stop me m (Some c0) c1 None) in H by (right; left; reflexivity);
                            inversion H; right; repeat split].
  destruct (Qlt_le_dec (inv m c0 - inv m c1) 0) as [L|L];
    [|destruct (Qlt_le_dec (inv m c2 - inv m c1) 0) as [L'|L']].
  - rewrite (run_method_stop me m (Some c0) c1 (Some c2)) in H.
    + inversion H; right; repeat split.
    + right; right. exists c0, c2. repeat split. intro E. apply extremum_uv in E. lra.
  - rewrite (run_method_stop me m (Some c0) c1 (Some c2)) in H.
    + inversion H; right; repeat split.
    + right; right. exists c0, c2. repeat split. intro E. apply extremum_uv in E. lra.
  - destruct (run_method_go me m c0 c1 c2) as (sh' & co' & R).
    + apply extremum_uv. split; assumption.
    + rewrite R in H. inversion H. left; reflexivity.
Qed.

Lemma run_method_shift_half me m oc0 c1 oc2 sh co fl :
  run_method K me m oc0 c1 oc2 = MOk sh co fl -> Qabs sh <= 1 # 2.
Proof. destruct me; [apply vfit_shift_half | apply quad_shift_half]. Qed.

Lemma run_method_not_worse me m oc0 c1 oc2 sh co fl :
  run_method K me m oc0 c1 oc2 = MOk sh co fl -> not_worse (kind_of m) co c1.
Proof. destruct me; [apply vfit_cost_not_worse | apply quad_cost_not_worse]. Qed.
End Methods2.

(* ================================================================ one pixel of loop_refinement *)

Lemma inject_Z_pos s : (0 < s)%Z -> 0 < inject_Z s.
Proof. intro H. unfold Qlt, inject_Z. cbn. lia. Qed.

(* int(x) of the code is the floor for the non-negative numbers it is applied to *)
Lemma trunc_floor q : 0 <= q -> trunc q = Qfloor q.
Proof.
  destruct q as [n d]. unfold Qle, trunc, Qfloor. cbn. intro H.
  apply Z.quot_div_nonneg; lia.
Qed.

Lemma Qfloor_ge z q : inject_Z z <= q -> (z <= Qfloor q)%Z.
Proof. intro H. apply Qfloor_resp_le in H. rewrite Qfloor_Z in H. exact H. Qed.
Lemma Qfloor_le_Z z q : q <= inject_Z z -> (Qfloor q <= z)%Z.
Proof. intro H. apply Qfloor_resp_le in H. rewrite Qfloor_Z in H. exact H. Qed.

Lemma inject_Z_sub1 n : inject_Z (n - 1) == inject_Z n - 1.
Proof. unfold Z.sub. rewrite inject_Z_plus. reflexivity. Qed.
Lemma inject_Z_sub2 n : inject_Z (n - 2) == inject_Z n - 2.
Proof. unfold Z.sub. rewrite inject_Z_plus. reflexivity. Qed.

(* a read inside the disparity axis is the cost of that sample (Spec.cost_at) *)
Lemma read_in cv i : (0 <= i < Z.of_nat (length cv))%Z -> read cv i = RVal (cost_at cv i).
Proof.
  intro H. unfold read, cost_at.
  assert (E : (0 <=? i)%Z && (i <? Z.of_nat (length cv))%Z = true).
  { apply andb_true_iff. split; [apply Z.leb_le | apply Z.ltb_lt]; lia. }
  rewrite E. reflexivity.
Qed.

Lemma lor_0_r m : Z.lor m 0 = m.
Proof. apply Z.lor_0_r. Qed.

(* setting bit 3 with a bitwise or leaves every other bit as it was *)
Lemma other_bits_lor8 m : other_bits (Z.lor m bit3) = other_bits m.
Proof.
  unfold other_bits. rewrite Z.land_lor_distr_l. rewrite Z.land_lnot_diag. apply Z.lor_0_r.
Qed.

Lemma testbit3_lor8 m : Z.testbit (Z.lor m bit3) 3 = true.
Proof. rewrite Z.lor_spec. unfold bit3. cbn. apply orb_true_r. Qed.

Section Pixel.
  Variable K : consts.
  Hypothesis KW : consts_wf K = true.
  Variables (me : method) (m : measure) (dmin dmax : Q) (s : Z).
  Hypothesis Hs : (0 < s)%Z.

  Lemma k_stopped_8 : k_stopped K = bit3.
  Proof.
    unfold consts_wf in KW. apply andb_true_iff in KW. destruct KW as [A _].
    apply andb_true_iff in A. destruct A as [A _]. apply Z.eqb_eq in A. exact A.
  Qed.
  Lemma k_invalid_no8 : Z.land bit3 (k_invalid K) = 0%Z.
  Proof.
    unfold consts_wf in KW. apply andb_true_iff in KW. destruct KW as [A _].
    apply andb_true_iff in A. destruct A as [_ A]. apply Z.eqb_eq in A. rewrite Z.land_comm. exact A.
  Qed.

  (* the pixel is valid: none of the "invalid" bits is set *)
  Definition is_valid (mask : Z) : Prop := Z.land mask (k_invalid K) = 0%Z.

  (* bit 3 is not an invalid bit: raising it never changes validity *)
  Lemma valid_lor8 mask : Z.land (Z.lor mask bit3) (k_invalid K) = Z.land mask (k_invalid K).
  Proof. rewrite Z.land_lor_distr_l, k_invalid_no8. apply Z.lor_0_r. Qed.

  (* the cost row has one cost per sample of [dmin, dmax] (step 1/s) *)
  Definition cv_fits (cv : list (option Q)) : Prop :=
    inject_Z (Z.of_nat (length cv)) == (dmax - dmin) * inject_Z s + 1.

  Definition in_interval (d : Q) : Prop := dmin <= d <= dmax.

  Lemma room_iff d : room dmin dmax s d = true <-> ~ near_end dmin dmax s d.
  Proof.
    unfold room, near_end. rewrite andb_true_iff, !Qle_bool_iff. split.
    - intros [A B] [C|C]; lra.
    - intro N. split.
      + destruct (Qlt_le_dec ((d - dmin) * inject_Z s) 1); [exfalso; apply N; left; assumption | assumption].
      + destruct (Qlt_le_dec ((dmax - d) * inject_Z s) 1); [exfalso; apply N; right; assumption | assumption].
  Qed.

  (* the index computed by the code is the Spec's sample, and it is inside the cost row *)
  Lemma index_in cv d : cv_fits cv -> in_interval d ->
    trunc ((d - dmin) * inject_Z s) = sample_index dmin s d
    /\ (0 <= sample_index dmin s d < Z.of_nat (length cv))%Z.
  Proof.
    intros F [A B]. pose proof (inject_Z_pos s Hs) as Ps. unfold sample_index, cv_fits in *.
    assert (X0 : 0 <= (d - dmin) * inject_Z s) by (apply Qmult_le_0_compat; lra).
    assert (X1 : 0 <= (dmax - d) * inject_Z s) by (apply Qmult_le_0_compat; lra).
    assert (Sp : (dmax - dmin) * inject_Z s == (d - dmin) * inject_Z s + (dmax - d) * inject_Z s) by ring.
    split; [apply trunc_floor; exact X0|]. split.
    - apply (Qfloor_ge 0). exact X0.
    - assert ((Qfloor ((d - dmin) * inject_Z s) <= Z.of_nat (length cv) - 1)%Z); [|lia].
      apply Qfloor_le_Z. rewrite inject_Z_sub1. lra.
  Qed.

  (* with a whole sample on each side, the two neighbours are inside the cost row as well *)
  Lemma index_room cv d : cv_fits cv -> ~ near_end dmin dmax s d ->
    (1 <= sample_index dmin s d <= Z.of_nat (length cv) - 2)%Z.
  Proof.
    intros F N. unfold sample_index, cv_fits, near_end in *.
    assert (Sp : (dmax - dmin) * inject_Z s == (d - dmin) * inject_Z s + (dmax - d) * inject_Z s) by ring.
    split.
    - apply (Qfloor_ge 1).
      destruct (Qlt_le_dec ((d - dmin) * inject_Z s) 1); [exfalso; apply N; left; assumption | assumption].
    - apply Qfloor_le_Z. rewrite inject_Z_sub2.
      destruct (Qlt_le_dec ((dmax - d) * inject_Z s) 1); [exfalso; apply N; right; assumption | lra].
  Qed.

  (* a disparity with room on both sides is inside the interval *)
  Lemma room_in_interval d : ~ near_end dmin dmax s d -> in_interval d.
  Proof.
    intro N. pose proof (inject_Z_pos s Hs) as Ps. unfold near_end, in_interval in *.
    split.
    - destruct (Qlt_le_dec d dmin) as [L|L]; [|exact L]. exfalso. apply N. left.
      assert (0 <= (dmin - d) * inject_Z s) by (apply Qmult_le_0_compat; lra).
      assert ((d - dmin) * inject_Z s == - ((dmin - d) * inject_Z s)) by ring. lra.
    - destruct (Qlt_le_dec dmax d) as [L|L]; [|exact L]. exfalso. apply N. right.
      assert (0 <= (d - dmax) * inject_Z s) by (apply Qmult_le_0_compat; lra).
      assert ((dmax - d) * inject_Z s == - ((d - dmax) * inject_Z s)) by ring. lra.
  Qed.

  (* ---------------------------------------------------------------- what the step does to a pixel *)

  Lemma pixel_invalid cv disp mask : ~ is_valid mask ->
    loop_pixel K me m dmin dmax s cv disp mask = POk disp None mask.
  Proof.
    intro V. unfold loop_pixel, is_valid in *.
    destruct (Z.land mask (k_invalid K) =? 0)%Z eqn:E; [apply Z.eqb_eq in E; contradiction | reflexivity].
  Qed.

  (* normal form of the step on a valid pixel whose disparity is in the interval *)
  Lemma pixel_char cv d mask : is_valid mask -> cv_fits cv -> in_interval d ->
    let k := sample_index dmin s d in
    let r := loop_pixel K me m dmin dmax s cv (Some d) mask in
    match cost_at cv k with
    | None => r = POk (Some d) None mask
    | Some c1 =>
      (near_end dmin dmax s d /\ r = POk (Some d) (Some c1) (Z.lor mask bit3))
      \/ (~ near_end dmin dmax s d /\ (1 <= k <= Z.of_nat (length cv) - 2)%Z /\
          exists sh co fl, run_method K me m (cost_at cv (k - 1)) c1 (cost_at cv (k + 1)) = MOk sh co fl
             /\ r = POk (Some (Qred (d + sh / inject_Z s))) (Some (Qred co)) (Z.lor mask fl))
    end.
  Proof.
    intros V F I k r. subst r. unfold loop_pixel, is_valid in *.
    rewrite V. cbn [Z.eqb negb].
    destruct (index_in cv d F I) as [T R]. fold k in T, R. rewrite T.
    rewrite (read_in cv k R).
    destruct (cost_at cv k) as [c1|]; [|reflexivity].
    destruct (room dmin dmax s d) eqn:E.
    - right. apply room_iff in E. split; [exact E|].
      pose proof (index_room cv d F E) as R2. fold k in R2. split; [exact R2|].
      rewrite (read_in cv (k - 1)) by lia. rewrite (read_in cv (k + 1)) by lia.
      destruct (run_method K me m (cost_at cv (k - 1)) c1 (cost_at cv (k + 1))) as [sh co fl|] eqn:M.
      + exists sh, co, fl. split; reflexivity.
      + exfalso. exact (run_method_total K me m _ _ _ M).
    - left. split; [|rewrite k_stopped_8; reflexivity].
      unfold near_end.
      destruct (Qlt_le_dec ((d - dmin) * inject_Z s) 1) as [L|L]; [left; exact L|].
      destruct (Qlt_le_dec ((dmax - d) * inject_Z s) 1) as [L'|L']; [right; exact L'|].
      exfalso. assert (room dmin dmax s d = true); [|congruence].
      unfold room. apply andb_true_iff. split; apply Qle_bool_iff; assumption.
  Qed.

  (* ---------------------------------------------------------------- consequences for one pixel *)

  Lemma factor_nonneg a : 0 <= a * inject_Z s -> 0 <= a.
  Proof.
    intro H. pose proof (inject_Z_pos s Hs) as Ps.
    assert (E : a == a * inject_Z s / inject_Z s) by (field; lra).
    rewrite E. apply Qle_shift_div_l; [exact Ps|]. lra.
  Qed.

  Lemma shift_times_s sh : sh / inject_Z s * inject_Z s == sh.
  Proof. pose proof (inject_Z_pos s Hs). field. lra. Qed.

  Lemma is_valid_dec mask : {is_valid mask} + {~ is_valid mask}.
  Proof. unfold is_valid. apply Z.eq_dec. Qed.

  (* everything the property says about one valid pixel, except the bit-3 equivalence *)
  Lemma pixel_props cv d mask r :
    is_valid mask -> cv_fits cv -> in_interval d ->
    loop_pixel K me m dmin dmax s cv (Some d) mask = r ->
    exists d' c' mask', r = POk (Some d') c' mask'
      /\ in_interval d'
      /\ Qabs (d' - d) * inject_Z s <= 1 # 2
      /\ (mask' = mask \/ mask' = Z.lor mask bit3)
      /\ (forall c1, cost_at cv (sample_index dmin s d) = Some c1 ->
            exists co, c' = Some co /\ not_worse (kind_of m) co c1)
      /\ (cost_at cv (sample_index dmin s d) = None -> d' = d /\ c' = None /\ mask' = mask).
  Proof.
    intros V F I R. pose proof (inject_Z_pos s Hs) as Ps.
    pose proof (pixel_char cv d mask V F I) as C. cbv zeta in C. rewrite R in C.
    assert (Z0 : Qabs (d - d) * inject_Z s <= 1 # 2).
    { assert (E : d - d == 0) by ring. rewrite E. cbn. lra. }
    destruct (cost_at cv (sample_index dmin s d)) as [c1|] eqn:EC.
    2:{ exists d, None, mask. repeat split; try (apply I); try assumption; try discriminate.
        left; reflexivity. }
    destruct C as [[N C]|(N & Rg & sh & co & fl & M & C)].
    - exists d, (Some c1), (Z.lor mask bit3). split; [exact C|]. split; [exact I|]. split; [exact Z0|].
      split; [right; reflexivity|]. split; [|discriminate].
      intros c1' E. inversion E; subst. exists c1'. split; [reflexivity|].
      destruct m; unfold not_worse, kind_of; lra.
    - exists (Qred (d + sh / inject_Z s)), (Some (Qred co)), (Z.lor mask fl).
      split; [exact C|].
      pose proof (run_method_shift_half K me m _ _ _ _ _ _ M) as SH.
      apply Qabs_Qle_condition in SH. destruct SH as [SH1 SH2].
      pose proof (shift_times_s sh) as TS.
      assert (N1 : 1 <= (d - dmin) * inject_Z s).
      { destruct (Qlt_le_dec ((d - dmin) * inject_Z s) 1); [exfalso; apply N; left; assumption | assumption]. }
      assert (N2 : 1 <= (dmax - d) * inject_Z s).
      { destruct (Qlt_le_dec ((dmax - d) * inject_Z s) 1); [exfalso; apply N; right; assumption | assumption]. }
      split; [|split; [|split; [|split]]].
      + unfold in_interval. rewrite Qred_correct. split.
        * assert (0 <= (d + sh / inject_Z s - dmin)); [|lra]. apply factor_nonneg.
          assert (E : (d + sh / inject_Z s - dmin) * inject_Z s == (d - dmin) * inject_Z s + sh / inject_Z s * inject_Z s) by ring.
          rewrite E, TS. lra.
        * assert (0 <= (dmax - (d + sh / inject_Z s))); [|lra]. apply factor_nonneg.
          assert (E : (dmax - (d + sh / inject_Z s)) * inject_Z s == (dmax - d) * inject_Z s - sh / inject_Z s * inject_Z s) by ring.
          rewrite E, TS. lra.
      + rewrite Qred_correct.
        assert (E : d + sh / inject_Z s - d == sh / inject_Z s) by ring. rewrite E.
        assert (E2 : Qabs (sh / inject_Z s) * inject_Z s == Qabs (sh / inject_Z s * inject_Z s)).
        { rewrite Qabs_Qmult. rewrite (Qabs_pos (inject_Z s)) by lra. reflexivity. }
        rewrite E2, TS. apply Qabs_Qle_condition. split; assumption.
      + destruct (run_method_flag K me m _ _ _ _ _ _ M) as [Z|(Z & _)]; subst fl.
        * left. apply Z.lor_0_r.
        * right. rewrite k_stopped_8. reflexivity.
      + intros c1' E. inversion E; subst. exists (Qred co). split; [reflexivity|].
        pose proof (run_method_not_worse K me m _ _ _ _ _ _ M) as NW.
        pose proof (Qred_correct co) as QC.
        destruct m; unfold not_worse, kind_of in *; lra.
      + discriminate.
  Qed.

  (* the step is total on every pixel: invalid ones whatever they carry, valid ones with a disparity
     of the interval -- neither an exception nor a read outside the cost row *)
  Lemma pixel_total cv disp mask :
    cv_fits cv -> (is_valid mask -> exists d, disp = Some d /\ in_interval d) ->
    exists d' c' mask', loop_pixel K me m dmin dmax s cv disp mask = POk d' c' mask'.
  Proof.
    intros F H. destruct (is_valid_dec mask) as [V|V].
    - destruct (H V) as (d & E & I). subst disp.
      destruct (pixel_props cv d mask _ V F I eq_refl) as (d' & c' & mask' & R & _).
      exists (Some d'), c', mask'. exact R.
    - exists disp, None, mask. apply pixel_invalid. exact V.
  Qed.

  (* no bit other than bit 3 ever changes, bit 3 is never cleared, validity is kept: for EVERY input
     on which the step returns, reachable or not *)
  Lemma pixel_bits cv disp mask d' c' mask' :
    loop_pixel K me m dmin dmax s cv disp mask = POk d' c' mask' ->
    (mask' = mask \/ mask' = Z.lor mask bit3).
  Proof.
    unfold loop_pixel. intro H.
    destruct (negb (Z.land mask (k_invalid K) =? 0)%Z); [inversion H; left; reflexivity|].
    destruct disp as [d|]; [|discriminate].
    destruct (read cv (trunc ((d - dmin) * inject_Z s))) as [[c1|]|]; try discriminate;
      [|inversion H; left; reflexivity].
    destruct (room dmin dmax s d).
    - destruct (read cv (trunc ((d - dmin) * inject_Z s) - 1)) as [c0|]; [|discriminate].
      destruct (read cv (trunc ((d - dmin) * inject_Z s) + 1)) as [c2|]; [|discriminate].
      destruct (run_method K me m c0 c1 c2) as [sh co fl|] eqn:M; [|discriminate].
      inversion H.
      destruct (run_method_flag K me m _ _ _ _ _ _ M) as [Z|(Z & _)]; subst fl.
      + left. apply Z.lor_0_r.
      + right. rewrite k_stopped_8. reflexivity.
    - inversion H. right. rewrite k_stopped_8. reflexivity.
  Qed.

  Lemma bits_of_step mask mask' : (mask' = mask \/ mask' = Z.lor mask bit3) ->
    other_bits mask' = other_bits mask
    /\ (Z.testbit mask 3 = true -> Z.testbit mask' 3 = true)
    /\ Z.land mask' (k_invalid K) = Z.land mask (k_invalid K).
  Proof.
    intros [E|E]; subst mask'.
    - repeat split; auto.
    - split; [apply other_bits_lor8|]. split; [intros _; apply testbit3_lor8 | apply valid_lor8].
  Qed.

  (* the bit-3 clause: a valid pixel is left where it was with bit 3 raised exactly when must_stop
     (an end of the interval within one sample, a NaN neighbour, centre not an extremum); otherwise
     its mask is unchanged and it moves by the fitted shift *)
  Lemma is_extremum_dec k c0 c1 c2 : {is_extremum k c0 c1 c2} + {~ is_extremum k c0 c1 c2}.
  Proof.
    unfold is_extremum, not_worse. destruct k.
    - destruct (Qlt_le_dec c0 c1); [right; intros [A B]; lra|].
      destruct (Qlt_le_dec c2 c1); [right; intros [A B]; lra|]. left. split; assumption.
    - destruct (Qlt_le_dec c1 c0); [right; intros [A B]; lra|].
      destruct (Qlt_le_dec c1 c2); [right; intros [A B]; lra|]. left. split; assumption.
  Qed.

  Lemma pixel_bit3_iff cv d mask c1 :
    is_valid mask -> cv_fits cv -> in_interval d ->
    let k := sample_index dmin s d in
    let r := loop_pixel K me m dmin dmax s cv (Some d) mask in
    cost_at cv k = Some c1 ->
    (must_stop (kind_of m) dmin dmax s cv d c1 ->
       exists d' c', r = POk (Some d') (Some c') (Z.lor mask bit3) /\ d' == d /\ c' == c1)
    /\ (~ must_stop (kind_of m) dmin dmax s cv d c1 ->
        exists c0 c2 sh co, cost_at cv (k - 1) = Some c0 /\ cost_at cv (k + 1) = Some c2
          /\ is_extremum (kind_of m) c0 c1 c2
          /\ run_method K me m (Some c0) c1 (Some c2) = MOk sh co 0
          /\ r = POk (Some (Qred (d + sh / inject_Z s))) (Some (Qred co)) mask).
  Proof.
    intros V F I k r EC. pose proof (pixel_char cv d mask V F I) as C. cbv zeta in C.
    fold k in C. fold r in C. rewrite EC in C.
    destruct C as [[N C]|(N & Rg & sh & co & fl & M & C)].
    - split.
      + intros _. exists d, c1. split; [exact C|]. split; reflexivity.
      + intro NS. exfalso. apply NS. left. exact N.
    - split.
      + intros [MS|MS]; [contradiction|].
        assert (ST : run_method K me m (cost_at cv (k - 1)) c1 (cost_at cv (k + 1)) = MOk 0 c1 (k_stopped K)).
        { apply run_method_stop. destruct MS as [MS|[MS|(c0 & c2 & A & B & MS)]].
          - left; exact MS.
          - right; left; exact MS.
          - right; right. exists c0, c2. repeat split; assumption. }
        rewrite ST in M. inversion M; subst sh co fl.
        exists (Qred (d + 0 / inject_Z s)), (Qred c1). rewrite k_stopped_8 in C.
        split; [exact C|]. split; rewrite Qred_correct; [|reflexivity].
        unfold Qdiv. ring.
      + intro NS.
        destruct (cost_at cv (k - 1)) as [c0|] eqn:E0; [|exfalso; apply NS; right; left; exact E0].
        destruct (cost_at cv (k + 1)) as [c2|] eqn:E2; [|exfalso; apply NS; right; right; left; exact E2].
        destruct (is_extremum_dec (kind_of m) c0 c1 c2) as [EX|EX].
        2:{ exfalso. apply NS. right; right; right. exists c0, c2. repeat split; assumption. }
        destruct (run_method_go K me m c0 c1 c2 EX) as (sh' & co' & G).
        rewrite G in M. inversion M; subst sh' co' fl.
        rewrite Z.lor_0_r in C. exists c0, c2, sh, co.
        split; [reflexivity|]. split; [reflexivity|]. split; [exact EX|]. split; [exact G | exact C].
  Qed.
End Pixel.

(* ================================================================ all pixels, any number of steps *)

Section Steps.
  Variable K : consts.
  Hypothesis KW : consts_wf K = true.
  Variables (m : measure) (dmin dmax : Q) (s : Z).
  Hypothesis Hs : (0 < s)%Z.

  (* what every legal pipeline hands to the step (C04's invariant): one cost per sample, and a valid
     pixel carries a number of the interval -- ANY number: a sample after winner-takes-all, anything
     after a filter, an interpolating validation or an earlier refinement *)
  Definition pixel_ok (p : pixel) : Prop :=
    cv_fits dmin dmax s (px_cv p)
    /\ (is_valid K (px_mask p) -> exists d, px_disp p = Some d /\ in_interval dmin dmax d).

  (* a pixel's flags before and after: bits other than bit 3 identical, bit 3 never cleared,
     validity unchanged *)
  Definition flags_kept (mask mask' : Z) : Prop :=
    other_bits mask' = other_bits mask
    /\ (Z.testbit mask 3 = true -> Z.testbit mask' 3 = true)
    /\ Z.land mask' (k_invalid K) = Z.land mask (k_invalid K).

  Lemma flags_kept_trans a b c : flags_kept a b -> flags_kept b c -> flags_kept a c.
  Proof.
    intros (A1 & A2 & A3) (B1 & B2 & B3). repeat split.
    - congruence.
    - auto.
    - congruence.
  Qed.

  Definition out_mask (t : option Q * option Q * Z) : Z := snd t.

  Lemma refine_map_ok me px : Forall pixel_ok px ->
    exists l, refine_map K me m dmin dmax s px = IOk l
      /\ Forall pixel_ok (reload px l)
      /\ Forall2 (fun p t => flags_kept (px_mask p) (out_mask t)) px l.
  Proof.
    induction 1 as [|p r [F H] _ IH].
    - exists []. repeat split; constructor.
    - destruct IH as (l & E & OK & FL).
      destruct (pixel_total K KW me m dmin dmax s Hs (px_cv p) (px_disp p) (px_mask p) F H) as (d' & c' & mask' & R).
      exists ((d', c', mask') :: l). cbn [refine_map]. rewrite R, E.
      pose proof (pixel_bits K KW me m dmin dmax s _ _ _ _ _ _ R) as B.
      apply (bits_of_step K KW) in B.
      split; [reflexivity|]. split.
      + cbn. constructor; [|exact OK]. split; [exact F|]. cbn [px_mask px_disp].
        intro V. unfold is_valid in V. destruct B as (_ & _ & B3). rewrite B3 in V.
        destruct (H V) as (d & Ed & I). rewrite Ed in R.
        destruct (pixel_props K KW me m dmin dmax s Hs _ _ _ _ V F I R) as (d'' & c'' & mask'' & R' & I' & _).
        inversion R'. exists d''. split; [reflexivity | exact I'].
      + constructor; [exact B | exact FL].
  Qed.

  Lemma flags_compose px : forall l1 l,
    Forall2 (fun p t => flags_kept (px_mask p) (out_mask t)) px l1 ->
    Forall2 (fun p t => flags_kept (px_mask p) (out_mask t)) (reload px l1) l ->
    Forall2 (fun p t => flags_kept (px_mask p) (out_mask t)) px l /\ reload (reload px l1) l = reload px l.
  Proof.
    induction px as [|p r IH]; intros l1 l A B.
    - inversion A; subst. cbn in B. inversion B; subst. split; [constructor | reflexivity].
    - inversion A as [|? t1 ? l1' A1 A2]; subst. cbn in B. destruct t1 as [[d1 c1] k1]. cbn in B.
      inversion B as [|? t ? l' B1 B2]; subst. destruct (IH l1' l' A2 B2) as [C D].
      split.
      + constructor; [|exact C]. cbn in B1. unfold out_mask in *. cbn in A1.
        eapply flags_kept_trans; eassumption.
      + destruct t as [[d2 c2] k2]. cbn. f_equal. exact D.
  Qed.

  (* any pipeline segment refinement, refinement.1, ... (methods mixed at will) on the same cost
     volume: never an exception, never a read outside the cost row; whatever the number of steps no
     bit other than bit 3 changes, bit 3 is never cleared (a second step does not turn 8 into 16),
     and every valid pixel still carries a disparity of its interval *)
  Lemma refine_steps_ok mes : forall px last, Forall pixel_ok px ->
    exists l, refine_steps K mes m dmin dmax s px last = IOk l
      /\ ((mes = [] /\ l = last)
          \/ (Forall2 (fun p t => flags_kept (px_mask p) (out_mask t)) px l /\ Forall pixel_ok (reload px l))).
  Proof.
    induction mes as [|me r IH]; intros px last OK.
    - exists last. split; [reflexivity|]. left. split; reflexivity.
    - destruct (refine_map_ok me px OK) as (l1 & E & OK1 & FL1).
      destruct (IH (reload px l1) l1 OK1) as (l & E2 & D).
      exists l. cbn [refine_steps]. rewrite E. split; [exact E2|]. right.
      destruct D as [[_ D]|[D1 D2]].
      + subst l. split; assumption.
      + destruct (flags_compose px l1 l FL1 D1) as [C R]. split; [exact C|]. rewrite <- R. exact D2.
  Qed.
End Steps.

(* ================================================================ a pixel that moves has two costed neighbours *)

Section PixelMoved.
  Variable K : consts.
  Hypothesis KW : consts_wf K = true.
  Variables (me : method) (m : measure) (dmin dmax : Q) (s : Z).
  Hypothesis Hs : (0 < s)%Z.

  (* If the step moves a valid pixel, the costs of the two samples around the pixel's sample are
     numbers.  With per-pixel disparity intervals (grids) the costs outside a pixel's own interval are
     NaN (C02/C09), so for a received disparity that is a sample the refined one lies between two
     samples of the pixel's OWN interval, at most half a sample from the received one. *)
  Lemma pixel_moved_costed cv d mask d' c' mask' :
    is_valid K mask -> cv_fits dmin dmax s cv -> in_interval dmin dmax d ->
    loop_pixel K me m dmin dmax s cv (Some d) mask = POk (Some d') c' mask' ->
    ~ d' == d ->
    exists c0 c1 c2, cost_at cv (sample_index dmin s d - 1) = Some c0
                     /\ cost_at cv (sample_index dmin s d) = Some c1
                     /\ cost_at cv (sample_index dmin s d + 1) = Some c2
                     /\ is_extremum (kind_of m) c0 c1 c2
                     /\ ~ near_end dmin dmax s d
                     /\ mask' = mask.
  Proof.
    intros V F I R NE.
    pose proof (pixel_char K KW me m dmin dmax s Hs cv d mask V F I) as C. cbv zeta in C. rewrite R in C.
    destruct (cost_at cv (sample_index dmin s d)) as [c1|] eqn:EC.
    2:{ assert (E : d' = d) by congruence. subst d'. exfalso. apply NE. reflexivity. }
    destruct C as [[N C]|(N & Rg & sh & co & fl & M & C)].
    - assert (E : d' = d) by congruence. subst d'. exfalso. apply NE. reflexivity.
    - assert (Ed : d' = Qred (d + sh / inject_Z s)) by congruence.
      assert (Em : mask' = Z.lor mask fl) by congruence. clear C.
      assert (ST : forall oc0 oc2, run_method K me m oc0 c1 oc2 = MOk sh co fl ->
                   (oc0 = None \/ oc2 = None \/
                    exists c0 c2, oc0 = Some c0 /\ oc2 = Some c2 /\ ~ is_extremum (kind_of m) c0 c1 c2) -> False).
      { intros oc0 oc2 M' H. rewrite (run_method_stop K me m oc0 c1 oc2 H) in M'.
        assert (Z0 : sh = 0) by congruence.
        apply NE. rewrite Ed, Z0, Qred_correct. unfold Qdiv. ring. }
      destruct (cost_at cv (sample_index dmin s d - 1)) as [c0|] eqn:E0;
        [|exfalso; apply (ST _ _ M); left; reflexivity].
      destruct (cost_at cv (sample_index dmin s d + 1)) as [c2|] eqn:E2;
        [|exfalso; apply (ST _ _ M); right; left; reflexivity].
      destruct (is_extremum_dec (kind_of m) c0 c1 c2) as [EX|EX];
        [|exfalso; apply (ST _ _ M); right; right; exists c0, c2; repeat split; assumption].
      exists c0, c1, c2. split; [reflexivity|]. split; [reflexivity|]. split; [reflexivity|].
      split; [exact EX|]. split; [exact N|].
      destruct (run_method_go K me m c0 c1 c2 EX) as (sh' & co' & G). rewrite G in M.
      assert (Zf : fl = 0%Z) by congruence. rewrite Em, Zf.
      apply Z.lor_0_r.
  Qed.
End PixelMoved.

(* on the sampling grid, "less than a whole sample from an end" is "on an end" *)
Lemma inject_Z_lt1 z : inject_Z z < 1 <-> (z < 1)%Z.
Proof. unfold Qlt, inject_Z. cbn. lia. Qed.

Lemma near_end_on_grid dmin dmax s : (0 < s)%Z ->
  forall k, inject_Z k == (dmax - dmin) * inject_Z s ->
  forall i, (0 <= i <= k)%Z ->
  (near_end dmin dmax s (dmin + inject_Z i / inject_Z s) <-> (i = 0 \/ i = k)%Z).
Proof.
  intros Hs k Hk i Hi. pose proof (inject_Z_pos s Hs) as Ps. unfold near_end.
  assert (A : (dmin + inject_Z i / inject_Z s - dmin) * inject_Z s == inject_Z i) by (field; lra).
  assert (B : (dmax - (dmin + inject_Z i / inject_Z s)) * inject_Z s == inject_Z (k - i)).
  { unfold Z.sub. rewrite inject_Z_plus, inject_Z_opp, Hk. field. lra. }
  rewrite A, B, !inject_Z_lt1. lia.
Qed.

(* ================================================================ regression witnesses
   The three defects this property exposed, on the models of the code AS FOUND
   ([loop_pixel_before], [quadratic_before]) and on the model of the repaired code. *)

Definition K0 : consts := mkK 963 8.
Definition opt (l : list Z) : list (option Q) := map (fun z => Some (inject_Z z)) l.

(* D3 (fix cdccf68): a pixel on dmin, refinement twice: 0 -> 8 -> 16 with `+=`; 0 -> 8 -> 8 with `|=` *)
Example D3_before :
  loop_pixel_before K0 Vfit MMin (-2) 2 1 (opt [1;2;3;4;5]%Z) (Some (-2)) 0 = POk (Some (-2)) (Some 1) 8
  /\ loop_pixel_before K0 Vfit MMin (-2) 2 1 (opt [1;2;3;4;5]%Z) (Some (-2)) 8 = POk (Some (-2)) (Some 1) 16.
Proof. split; vm_compute; reflexivity. Qed.
Example D3_after :
  loop_pixel K0 Vfit MMin (-2) 2 1 (opt [1;2;3;4;5]%Z) (Some (-2)) 0 = POk (Some (-2)) (Some 1) 8
  /\ loop_pixel K0 Vfit MMin (-2) 2 1 (opt [1;2;3;4;5]%Z) (Some (-2)) 8 = POk (Some (-2)) (Some 1) 8.
Proof. split; vm_compute; reflexivity. Qed.

(* D4 (fix bda49f0): costs [5,2,2,2,7], disparity 0 as left by a median filter, quadratic *)
Example D4_before :
  loop_pixel_before K0 Quadratic MMin (-2) 2 1 (opt [5;2;2;2;7]%Z) (Some 0) 0 = PRaise.
Proof. vm_compute; reflexivity. Qed.
Example D4_after :
  loop_pixel K0 Quadratic MMin (-2) 2 1 (opt [5;2;2;2;7]%Z) (Some 0) 0 = POk (Some 0) (Some 2) 0.
Proof. vm_compute; reflexivity. Qed.

(* D13 (fix cc4b5f5): off-grid disparity -7/4 within one sample of dmin = -2: index -1 reads the cost of
   dmax (2), the triple (2,1,5) looks like a minimum and the pixel is moved to -17/8 < dmin *)
Example D13_before_dmin :
  loop_pixel_before K0 Vfit MMin (-2) 2 1 (opt [1;5;5;5;2]%Z) (Some (-7 # 4)) 0
  = POk (Some (-17 # 8)) (Some (-1 # 2)) 0.
Proof. vm_compute; reflexivity. Qed.
Example D13_after_dmin :
  loop_pixel K0 Vfit MMin (-2) 2 1 (opt [1;5;5;5;2]%Z) (Some (-7 # 4)) 0 = POk (Some (-7 # 4)) (Some 1) 8.
Proof. vm_compute; reflexivity. Qed.
(* ... and its mirror image: 7/4 is pushed above dmax = 2, and the NEXT step reads past the cost row *)
Example D13_before_dmax :
  loop_pixel_before K0 Vfit MMin (-2) 2 1 (opt [9;9;5;1;2]%Z) (Some (7 # 4)) 0
  = POk (Some (17 # 8)) (Some (-1 # 2)) 0
  /\ loop_pixel_before K0 Vfit MMin (-2) 2 1 (opt [9;9;5;1;2]%Z) (Some (17 # 8)) 0 = POut.
Proof. split; vm_compute; reflexivity. Qed.
Example D13_after_dmax :
  loop_pixel K0 Vfit MMin (-2) 2 1 (opt [9;9;5;1;2]%Z) (Some (7 # 4)) 0 = POk (Some (7 # 4)) (Some 1) 8.
Proof. vm_compute; reflexivity. Qed.
