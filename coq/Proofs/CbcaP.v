(* Proofs for C11: the model of pandora/aggregation/cbca.py (Model/Cbca.v) computes the
   aggregate of the property text (Spec/Cbca.v), for every image size, mask layout, plane,
   offset, distance >= 1 and intensity. *)
From Coq Require Import ZArith QArith Qabs Qround List Bool Lia Lqa ZifyBool.
From Pandora Require Import Model.Cbca Spec.Cbca.
Import ListNotations.
Open Scope Z_scope.

(* ================================================================ ranges and tables *)

Lemma span_length : forall n a, length (span a n) = n.
Proof. induction n; intros; simpl; auto. Qed.

Lemma map_seq_span : forall (B : Type) (g : Z -> B) m s,
  map (fun k => g (Z.of_nat k)) (seq s m) = map g (span (Z.of_nat s) m).
Proof.
  induction m; intros; simpl; auto.
  f_equal. rewrite IHm. replace (Z.of_nat s + 1) with (Z.of_nat (S s)) by lia. reflexivity.
Qed.

Lemma map_span_shift : forall m a b, map (fun z => a + z) (span b m) = span (a + b) m.
Proof.
  induction m; intros; simpl; auto.
  f_equal. rewrite IHm. f_equal. lia.
Qed.

Lemma zrange_span : forall a n, zrange a n = span a (Z.to_nat n).
Proof.
  intros. unfold zrange.
  rewrite (map_seq_span Z (fun z => a + z)). simpl. rewrite map_span_shift. f_equal. lia.
Qed.

Lemma span_app : forall n m a, span a (n + m) = span a n ++ span (a + Z.of_nat n) m.
Proof.
  induction n; intros; simpl.
  - f_equal. lia.
  - f_equal. rewrite IHn. f_equal. f_equal. lia.
Qed.

Lemma in_span : forall n a x, In x (span a n) <-> a <= x < a + Z.of_nat n.
Proof.
  induction n; intros; simpl.
  - lia.
  - rewrite IHn. lia.
Qed.

Lemma nth_span : forall n a k d, (k < n)%nat -> nth k (span a n) d = a + Z.of_nat k.
Proof.
  induction n; intros; simpl; [lia|].
  destruct k; [lia|]. rewrite IHn by lia. lia.
Qed.

Lemma zrange_app : forall a n m, 0 <= n -> 0 <= m -> zrange a (n + m) = zrange a n ++ zrange (a + n) m.
Proof.
  intros. rewrite !zrange_span. rewrite Z2Nat.inj_add by lia. rewrite span_app.
  f_equal. f_equal. lia.
Qed.

Lemma zrange_one : forall a, zrange a 1 = [a].
Proof. intros. rewrite zrange_span. reflexivity. Qed.

Lemma zrange_nil : forall a n, n <= 0 -> zrange a n = [].
Proof. intros. rewrite zrange_span. replace (Z.to_nat n) with O by lia. reflexivity. Qed.

Lemma in_zrange : forall a n x, In x (zrange a n) <-> a <= x < a + Z.max 0 n.
Proof. intros. rewrite zrange_span, in_span. lia. Qed.

Lemma lookup_tabulate : forall (A : Type) (d : A) nr nc f r c,
  0 <= r < nr -> 0 <= c < nc -> lookup d (tabulate nr nc f) r c = f r c.
Proof.
  intros. unfold lookup, tabulate.
  replace ((r <? 0) || (c <? 0)) with false by lia.
  rewrite !zrange_span.
  rewrite (nth_indep _ [] (map (fun c0 => f 0 c0) (span 0 (Z.to_nat nc)))).
  2:{ rewrite map_length, span_length. lia. }
  rewrite (map_nth (fun r0 => map (fun c0 => f r0 c0) (span 0 (Z.to_nat nc)))) with (d := 0).
  rewrite nth_span by lia.
  rewrite (nth_indep _ d (f (0 + Z.of_nat (Z.to_nat r)) 0)).
  2:{ rewrite map_length, span_length. lia. }
  rewrite (map_nth (fun c0 => f (0 + Z.of_nat (Z.to_nat r)) c0)) with (d := 0).
  rewrite nth_span by lia. f_equal; lia.
Qed.

(* ================================================================ take_while *)

Lemma take_while_ext_in : forall (A : Type) (f g : A -> bool) l,
  (forall x, In x l -> f x = g x) -> take_while f l = take_while g l.
Proof.
  induction l; intros; simpl; auto.
  rewrite <- (H a) by (left; auto). destruct (f a); auto.
  f_equal. apply IHl. intros. apply H. right; auto.
Qed.

Lemma take_while_app_stop : forall (A : Type) (f : A -> bool) l1 l2,
  take_while f l2 = [] -> take_while f (l1 ++ l2) = take_while f l1.
Proof.
  induction l1; intros; simpl; auto.
  destruct (f a); auto. f_equal. auto.
Qed.

Lemma take_while_map : forall (A B : Type) (f : B -> bool) (g : A -> B) l,
  length (take_while f (map g l)) = length (take_while (fun x => f (g x)) l).
Proof.
  induction l; simpl; auto. destruct (f (g a)); simpl; auto.
Qed.

(* the run is a prefix of the candidates, all its members pass, the next one fails *)
Lemma take_while_span : forall (f : Z -> bool) n a,
  let k := length (take_while f (span a n)) in
  (k <= n)%nat /\ (forall j, a <= j < a + Z.of_nat k -> f j = true)
  /\ ((k < n)%nat -> f (a + Z.of_nat k) = false).
Proof.
  induction n; intros; simpl in *.
  - subst k. simpl. repeat split; intros; lia.
  - destruct (f a) eqn:E; subst k; simpl.
    + destruct (IHn (a + 1)) as (H1 & H2 & H3). repeat split; intros.
      * lia.
      * destruct (Z.eq_dec j a); [subst; auto|]. apply H2. lia.
      * replace (a + Z.pos (Pos.of_succ_nat (length (take_while f (span (a + 1) n)))))
          with (a + 1 + Z.of_nat (length (take_while f (span (a + 1) n)))) by lia.
        apply H3. lia.
    + repeat split; intros; try lia. replace (a + 0) with a by lia. auto.
Qed.

(* ================================================================ arms *)

Lemma takes_jump : forall get inten v j, takes get inten v j = negb (jump v (get j) inten).
Proof. intros. unfold takes, jump. destruct (get j); auto. Qed.

Lemma arm_scan_spec : forall line v inten cands len last,
  let tw := take_while (fun q => negb (jump v (line q) inten)) cands in
  fst (arm_scan line v inten cands len last) = len + Z.of_nat (length tw) /\
  (length tw = 0%nat ->
   snd (arm_scan line v inten cands len last) = match cands with [] => last | q :: _ => q end).
Proof.
  induction cands; intros; simpl in *.
  - subst tw. simpl. split; auto. lia.
  - subst tw. destruct (jump v (line a) inten) eqn:E; simpl.
    + split; auto. lia.
    + destruct (IHcands (len + 1) a) as [H1 _]. rewrite H1. split; [lia|]. intros. lia.
Qed.

Lemma ray_arm_ext : forall get get' dist inten v,
  (forall j, 1 <= j -> get j = get' j) -> ray_arm get dist inten v = ray_arm get' dist inten v.
Proof.
  intros. unfold ray_arm.
  rewrite (take_while_ext_in _ (takes get inten v) (takes get' inten v)).
  2:{ intros x Hx. apply in_span in Hx. unfold takes. rewrite H by lia. reflexivity. }
  rewrite (H 1) by lia. reflexivity.
Qed.

(* One lemma for the four loops of cross_support.  [avail] = number of pixels between the
   pixel and the side of the image in the direction of the arm, [g j] = index of the pixel at
   distance j, [ex] = the neighbour exists, [last0] = initial value of the loop variable. *)
Lemma arm_generic : forall line v inten len (g : Z -> Z) avail ex last0 get,
  1 <= len -> 0 <= avail ->
  (forall j, 1 <= j <= avail -> get j = line (g j)) ->
  get (avail + 1) = None ->
  ex = (1 <=? avail) ->
  (1 <= avail -> last0 = g 1) ->
  (let '(l, last) := arm_scan line v inten
                       (map g (span 1 (Z.to_nat (Z.min (len - 1) avail)))) 0 last0 in
   Z.max l (1 * b2z ex * b2z (isfin (line last)))) = ray_arm get len inten v.
Proof.
  intros line v inten len g avail ex last0 get Hlen Hav Hget Hout Hex Hl0.
  set (m := Z.to_nat (Z.min (len - 1) avail)).
  destruct (arm_scan line v inten (map g (span 1 m)) 0 last0) as [l last] eqn:E.
  pose proof (arm_scan_spec line v inten (map g (span 1 m)) 0 last0) as S.
  rewrite E in S. simpl in S. destruct S as [S1 S2].
  rewrite (take_while_map _ _ (fun q => negb (jump v (line q) inten)) g) in S1, S2.
  (* the run of the specification *)
  unfold ray_arm.
  assert (Hrun : length (take_while (takes get inten v) (span 1 (Z.to_nat (len - 1))))
                 = length (take_while (fun x => negb (jump v (line (g x)) inten)) (span 1 m))).
  { replace (Z.to_nat (len - 1)) with (m + (Z.to_nat (len - 1) - m))%nat by (subst m; lia).
    rewrite span_app. rewrite take_while_app_stop.
    - f_equal. apply take_while_ext_in. intros x Hx. apply in_span in Hx.
      rewrite takes_jump. rewrite Hget by (subst m; lia). reflexivity.
    - destruct (Z.to_nat (len - 1) - m)%nat eqn:Em; cbn [span take_while]; auto.
      replace (1 + Z.of_nat m) with (avail + 1) by (subst m; lia).
      unfold takes. rewrite Hout. reflexivity. }
  rewrite Hrun. rewrite <- S1 by auto. cbv zeta.
  destruct (0 <? l) eqn:Hl.
  - assert (0 <= 1 * b2z ex * b2z (isfin (line last)) <= 1).
    { destruct ex, (isfin (line last)); simpl; lia. }
    lia.
  - assert (Hl0' : l = 0) by lia.
    assert (Hlen0 : length (take_while (fun x => negb (jump v (line (g x)) inten)) (span 1 m)) = 0%nat) by lia.
    specialize (S2 Hlen0). rewrite Hl0'.
    destruct (Z_le_gt_dec 1 avail) as [Ha | Ha].
    + (* the neighbour exists: the loop variable ends on it *)
      assert (Hlast : last = g 1).
      { rewrite S2. destruct m eqn:Em; cbn [span map]; auto. }
      rewrite Hlast, (Hget 1) by lia. rewrite Hex.
      replace (1 <=? avail) with true by lia.
      destruct (line (g 1)); simpl; lia.
    + assert (avail = 0) by lia. subst avail. simpl in Hout. rewrite Hout, Hex. simpl. lia.
Qed.

Lemma range_dec_span : forall start stop,
  range_dec start stop = map (fun j => start + 1 - j) (span 1 (Z.to_nat (start - stop))).
Proof.
  intros. unfold range_dec.
  rewrite (map_seq_span Z (fun z => start - z)). change (Z.of_nat 0) with 0.
  generalize (Z.to_nat (start - stop)). intros m.
  change 1 with (0 + 1) at 2. generalize 0.
  induction m; intros; simpl; auto. f_equal; [lia|]. apply IHm.
Qed.

Lemma range_inc_span : forall start stop,
  range_inc start stop = map (fun j => start - 1 + j) (span 1 (Z.to_nat (stop - start))).
Proof.
  intros. unfold range_inc. rewrite zrange_span. rewrite map_span_shift. f_equal. lia.
Qed.

Lemma arm_dec_spec : forall line pos len inten v,
  1 <= len -> 0 <= pos ->
  arm_dec line pos len inten v
  = ray_arm (fun j => if 0 <=? pos - j then line (pos - j) else None) len inten v.
Proof.
  intros. unfold arm_dec. rewrite range_dec_span.
  replace (Z.to_nat (pos - 1 - Z.max (pos - len) (-1))) with (Z.to_nat (Z.min (len - 1) pos)) by lia.
  rewrite (map_ext (fun j => pos - 1 + 1 - j) (fun j => pos - j)) by (intros; lia).
  apply (arm_generic (line) v inten len (fun j => pos - j) pos (1 <=? pos) (Z.max (pos - 1) 0)); auto.
  - intros. replace (0 <=? pos - j) with true by lia. reflexivity.
  - replace (0 <=? pos - (pos + 1)) with false by lia. reflexivity.
  - intros. lia.
Qed.

Lemma arm_inc_spec : forall line n pos len inten v,
  1 <= len -> 0 <= pos < n ->
  arm_inc line n pos len inten v
  = ray_arm (fun j => if pos + j <? n then line (pos + j) else None) len inten v.
Proof.
  intros. unfold arm_inc. rewrite range_inc_span.
  replace (Z.to_nat (Z.min (pos + len) n - (pos + 1))) with (Z.to_nat (Z.min (len - 1) (n - 1 - pos))) by lia.
  rewrite (map_ext (fun j => pos + 1 - 1 + j) (fun j => pos + j)) by (intros; lia).
  replace (pos <? n - 1) with (1 <=? n - 1 - pos) by lia.
  apply (arm_generic (line) v inten len (fun j => pos + j) (n - 1 - pos) (1 <=? n - 1 - pos) (Z.min (pos + 1) (n - 1))); auto; try lia.
  - intros. replace (pos + j <? n) with true by lia. reflexivity.
  - replace (pos + (n - 1 - pos + 1) <? n) with false by lia. reflexivity.
Qed.

(* arms_spec: the four loops of cross_support compute the arms of the specification *)
Theorem arms_spec : forall nr nc I len inten r c,
  1 <= len -> 0 <= r < nr -> 0 <= c < nc ->
  let F := mkF nr nc I in
  cross_support nr nc I len inten r c
  = mkArms (spec_arm F len inten DLeft r c) (spec_arm F len inten DRight r c)
           (spec_arm F len inten DUp r c) (spec_arm F len inten DDown r c).
Proof.
  intros nr nc I len inten r c Hlen Hr Hc F.
  unfold cross_support, spec_arm, px, inside. simpl.
  replace ((0 <=? r) && (r <? nr) && (0 <=? c) && (c <? nc)) with true by lia.
  destruct (I r c) as [v|]; [|reflexivity].
  rewrite arm_dec_spec, arm_dec_spec by lia. rewrite !arm_inc_spec by lia.
  f_equal; apply ray_arm_ext; intros j Hj; unfold ray, px, inside, F; simpl.
  - replace (r + j * 0) with r by lia. replace (c + j * -1) with (c - j) by lia.
    destruct (0 <=? c - j) eqn:E.
    + replace ((0 <=? r) && (r <? nr) && true && (c - j <? nc)) with true by lia. reflexivity.
    + rewrite !andb_false_r. reflexivity.
  - replace (r + j * 0) with r by lia. replace (c + j * 1) with (c + j) by lia.
    destruct (c + j <? nc) eqn:E.
    + replace ((0 <=? r) && (r <? nr) && (0 <=? c + j) && true) with true by lia. reflexivity.
    + rewrite !andb_false_r. reflexivity.
  - replace (r + j * -1) with (r - j) by lia. replace (c + j * 0) with c by lia.
    destruct (0 <=? r - j) eqn:E.
    + replace (true && (r - j <? nr) && (0 <=? c) && (c <? nc)) with true by lia. reflexivity.
    + reflexivity.
  - replace (r + j * 1) with (r + j) by lia. replace (c + j * 0) with c by lia.
    destruct (r + j <? nr) eqn:E.
    + replace ((0 <=? r + j) && true && (0 <=? c) && (c <? nc)) with true by lia. reflexivity.
    + rewrite andb_false_r. reflexivity.
Qed.

(* ---------------------------------------------------------------- what an arm is *)

(* the last pixel of an arm is usable (hence inside the image) *)
Lemma ray_arm_bounds : forall get dist inten v,
  let k := ray_arm get dist inten v in
  0 <= k /\ (1 <= k -> get k <> None).
Proof.
  intros. subst k. unfold ray_arm.
  pose proof (take_while_span (takes get inten v) (Z.to_nat (dist - 1)) 1) as T.
  cbv zeta in T. destruct T as (T1 & T2 & T3).
  set (k' := length (take_while (takes get inten v) (span 1 (Z.to_nat (dist - 1))))) in *.
  destruct (0 <? Z.of_nat k') eqn:E.
  - split; [lia|]. intros _. specialize (T2 (Z.of_nat k')).
    assert (Ht : takes get inten v (Z.of_nat k') = true) by (apply T2; lia).
    unfold takes in Ht. destruct (get (Z.of_nat k')); congruence.
  - destruct (get 1) eqn:G; split; try lia; intros; congruence.
Qed.

(* the executable arm length is the one described declaratively in the specification *)
Lemma ray_arm_is_arm : forall get dist inten v, is_arm get dist inten v (ray_arm get dist inten v).
Proof.
  intros. unfold is_arm, ray_arm.
  pose proof (take_while_span (takes get inten v) (Z.to_nat (dist - 1)) 1) as T.
  cbv zeta in T. destruct T as (T1 & T2 & T3).
  set (k' := length (take_while (takes get inten v) (span 1 (Z.to_nat (dist - 1))))) in *.
  exists (Z.of_nat k'). split.
  - unfold is_longest_run. repeat split; intros; try lia.
    + apply T2. lia.
    + replace (Z.of_nat k' + 1) with (1 + Z.of_nat k') by lia. apply T3. lia.
  - destruct (0 <? Z.of_nat k') eqn:E; [left | right]; split; auto; lia.
Qed.

Lemma longest_run_unique : forall get dist inten v k1 k2,
  is_longest_run get dist inten v k1 -> is_longest_run get dist inten v k2 -> k1 = k2.
Proof.
  assert (A : forall get dist inten v k1 k2,
    is_longest_run get dist inten v k1 -> is_longest_run get dist inten v k2 -> k1 < k2 -> False).
  { intros get dist inten v k1 k2 (A1 & A2 & A3) (B1 & B2 & B3) Hlt.
    destruct (B2 (k1 + 1)) as [C1 C2]; [lia|]. rewrite A3 in C2 by lia. discriminate. }
  intros. destruct (Z.lt_trichotomy k1 k2) as [Hlt | [Heq | Hgt]]; auto; exfalso; eauto.
Qed.

Theorem ray_arm_iff_is_arm : forall get dist inten v k,
  is_arm get dist inten v k <-> k = ray_arm get dist inten v.
Proof.
  intros. split.
  - intros (run & Hrun & Hk).
    destruct (ray_arm_is_arm get dist inten v) as (run' & Hrun' & Hk').
    assert (run = run') by (eapply longest_run_unique; eauto). subst run'.
    destruct Hk as [[? ?] | [? ?]], Hk' as [[? ?] | [? ?]]; lia || congruence.
  - intros ->. apply ray_arm_is_arm.
Qed.

Lemma spec_arm_inside : forall I dist inten d r c,
  let k := spec_arm I dist inten d r c in
  0 <= k /\ (1 <= k -> inside I (r + k * drow d) (c + k * dcol d) = true).
Proof.
  intros. subst k. unfold spec_arm. destruct (px I r c) as [v|]; [|split; [lia|intros; lia]].
  destruct (ray_arm_bounds (ray I r c d) dist inten v) as [B1 B2].
  split; auto. intros H1. specialize (B2 H1). unfold ray, px in B2.
  destruct (inside I _ _); congruence.
Qed.

(* in-range side conditions of every array read of steps 2 and 4 *)
Lemma spec_arm_in_image : forall I dist inten r c,
  0 <= r < f_nr I -> 0 <= c < f_nc I ->
  0 <= spec_arm I dist inten DLeft r c <= c /\
  0 <= spec_arm I dist inten DRight r c <= f_nc I - 1 - c /\
  0 <= spec_arm I dist inten DUp r c <= r /\
  0 <= spec_arm I dist inten DDown r c <= f_nr I - 1 - r.
Proof.
  intros.
  destruct (spec_arm_inside I dist inten DLeft r c) as [L1 L2].
  destruct (spec_arm_inside I dist inten DRight r c) as [R1 R2].
  destruct (spec_arm_inside I dist inten DUp r c) as [U1 U2].
  destruct (spec_arm_inside I dist inten DDown r c) as [D1 D2].
  unfold inside in *. simpl in *.
  repeat split; auto.
  - destruct (Z_le_gt_dec 1 (spec_arm I dist inten DLeft r c)); [specialize (L2 l)|]; lia.
  - destruct (Z_le_gt_dec 1 (spec_arm I dist inten DRight r c)); [specialize (R2 l)|]; lia.
  - destruct (Z_le_gt_dec 1 (spec_arm I dist inten DUp r c)); [specialize (U2 l)|]; lia.
  - destruct (Z_le_gt_dec 1 (spec_arm I dist inten DDown r c)); [specialize (D2 l)|]; lia.
Qed.

(* an arm never exceeds max(1, dist - 1) pixels and a masked pixel has none *)
Lemma spec_arm_masked : forall I dist inten d r c, px I r c = None -> spec_arm I dist inten d r c = 0.
Proof. intros. unfold spec_arm. rewrite H. reflexivity. Qed.

(* ================================================================ sums *)

Definition psum (f : Z -> Q) (a n : Z) : Q := qsum (map f (zrange a n)).

Lemma qadd_ok : forall a b, qadd a b == a + b.
Proof. intros. unfold qadd. apply Qred_correct. Qed.
Lemma qsub_ok : forall a b, qsub a b == a - b.
Proof. intros. unfold qsub. apply Qred_correct. Qed.

Lemma qsum_app : forall l1 l2, qsum (l1 ++ l2) == qsum l1 + qsum l2.
Proof.
  induction l1; intros; simpl.
  - ring.
  - rewrite IHl1. ring.
Qed.

Lemma psum_nil : forall f a n, n <= 0 -> psum f a n = 0%Q.
Proof. intros. unfold psum. rewrite zrange_nil by lia. reflexivity. Qed.

Lemma psum_split : forall f a n m, 0 <= n -> 0 <= m ->
  psum f a (n + m) == psum f a n + psum f (a + n) m.
Proof. intros. unfold psum. rewrite zrange_app by lia. rewrite map_app. apply qsum_app. Qed.

Lemma psum_one : forall f a, psum f a 1 == f a.
Proof. intros. unfold psum. rewrite zrange_one. simpl. ring. Qed.

Lemma qsum_map_ext : forall (A : Type) (f g : A -> Q) l,
  (forall x, In x l -> f x == g x) -> qsum (map f l) == qsum (map g l).
Proof.
  induction l; intros; simpl; [reflexivity|].
  rewrite IHl by (intros; apply H; right; auto). rewrite (H a) by (left; auto). reflexivity.
Qed.

Lemma psum_ext : forall f g a n,
  (forall x, a <= x < a + n -> f x == g x) -> psum f a n == psum g a n.
Proof.
  intros f g a n H. unfold psum.
  assert (A : forall l, (forall x, In x l -> f x == g x) -> qsum (map f l) == qsum (map g l)).
  { induction l; intros; simpl; [reflexivity|].
    rewrite IHl by (intros; apply H0; right; auto). rewrite (H0 a0) by (left; auto). reflexivity. }
  apply A. intros x Hx. apply in_zrange in Hx. apply H. lia.
Qed.

(* ---------------------------------------------------------------- cbca_step_1 *)

Lemma step1_inv : forall nc cvrow k, Z.of_nat k <= nc ->
  let a := fold_left (fun a c => updz a c (qadd (a (wrap (nc + 1) (c - 1))) (nz (cvrow c))))
                     (zrange 0 (Z.of_nat k)) (fun _ => 0%Q) in
  (forall c, 0 <= c < Z.of_nat k -> a c == psum (fun j => nz (cvrow j)) 0 (c + 1)) /\
  (forall c, c < 0 \/ Z.of_nat k <= c -> a c = 0%Q).
Proof.
  induction k; intros Hk.
  - simpl. split; intros; [lia | reflexivity].
  - replace (Z.of_nat (S k)) with (Z.of_nat k + 1) in * by lia.
    rewrite zrange_app, zrange_one by lia. rewrite fold_left_app. cbn [fold_left].
    destruct IHk as [I1 I2]; [lia|].
    set (a0 := fold_left _ (zrange 0 (Z.of_nat k)) _) in *.
    replace (0 + Z.of_nat k) with (Z.of_nat k) by lia.
    split; intros c Hc; unfold updz.
    + destruct (c =? Z.of_nat k) eqn:E.
      * assert (c = Z.of_nat k) by lia. subst c. rewrite qadd_ok.
        rewrite psum_split, psum_one by lia. replace (0 + Z.of_nat k) with (Z.of_nat k) by lia.
        unfold wrap. destruct (Z.of_nat k - 1 <? 0) eqn:W.
        -- (* first column: the read goes through index -1 to the sentinel column *)
           rewrite I2 by lia. rewrite psum_nil by lia. reflexivity.
        -- rewrite I1 by lia. replace (Z.of_nat k - 1 + 1) with (Z.of_nat k) by lia. reflexivity.
      * apply I1. lia.
    + destruct (c =? Z.of_nat k) eqn:E; [lia|]. apply I2. lia.
Qed.

(* every read of step 1 made by step 2, including the one through index -1 *)
Lemma step1_read : forall nc cvrow i, 0 <= nc -> -1 <= i < nc ->
  step1_row nc cvrow (wrap (nc + 1) i) == psum (fun j => nz (cvrow j)) 0 (i + 1).
Proof.
  intros. unfold step1_row.
  destruct (step1_inv nc cvrow (Z.to_nat nc)) as [I1 I2]; [lia|].
  replace (Z.of_nat (Z.to_nat nc)) with nc in * by lia.
  unfold wrap. destruct (i <? 0) eqn:E.
  - rewrite I2 by lia. rewrite psum_nil by lia. reflexivity.
  - apply I1. lia.
Qed.

(* the sentinel column of step 1 is never written: a read through index -1 returns 0 *)
Theorem step1_read_minus_one_is_zero : forall nc cvrow, 0 <= nc ->
  step1_row nc cvrow (wrap (nc + 1) (-1)) = 0%Q.
Proof.
  intros. unfold step1_row.
  destruct (step1_inv nc cvrow (Z.to_nat nc)) as [_ I2]; [lia|].
  replace (Z.of_nat (Z.to_nat nc)) with nc in * by lia.
  apply I2. unfold wrap. change (-1 <? 0) with true. cbv iota. lia.
Qed.

(* telescoping: S_h(b) - S_h(a - 1) is the sum of the costs of columns a..b *)
Lemma step1_diff : forall nc cvrow a b, 0 <= a -> a <= b -> b < nc ->
  step1_row nc cvrow b - step1_row nc cvrow (wrap (nc + 1) (a - 1))
  == psum (fun j => nz (cvrow j)) a (b - a + 1).
Proof.
  intros.
  assert (Hb : step1_row nc cvrow b == psum (fun j => nz (cvrow j)) 0 (b + 1)).
  { replace b with (wrap (nc + 1) b) at 1 by (unfold wrap; destruct (b <? 0) eqn:E; lia).
    apply step1_read; lia. }
  rewrite Hb, step1_read by lia.
  replace (b + 1) with (a + (b - a + 1)) by lia. rewrite psum_split by lia.
  replace (a - 1 + 1) with a by lia. replace (0 + a) with a by lia. ring.
Qed.

(* ---------------------------------------------------------------- cbca_step_3 *)

Lemma step3_inv : forall nr col k, Z.of_nat k <= nr - 1 ->
  let a := fold_left (fun a r => updz a r (qadd (a (r - 1)) (col r)))
                     (zrange 1 (Z.of_nat k)) (updz (fun _ => 0%Q) 0 (col 0)) in
  (forall r, 0 <= r <= Z.of_nat k -> a r == psum col 0 (r + 1)) /\
  (forall r, r < 0 \/ Z.of_nat k < r -> a r = 0%Q).
Proof.
  induction k; intros Hk.
  - simpl. unfold updz. split; intros r Hr.
    + assert (r = 0) by lia. subst r. simpl. rewrite psum_one. reflexivity.
    + destruct (r =? 0) eqn:E; [lia | reflexivity].
  - replace (Z.of_nat (S k)) with (Z.of_nat k + 1) in * by lia.
    rewrite zrange_app, zrange_one by lia. rewrite fold_left_app. cbn [fold_left].
    destruct IHk as [I1 I2]; [lia|].
    set (a0 := fold_left _ (zrange 1 (Z.of_nat k)) _) in *.
    split; intros r Hr; unfold updz.
    + destruct (r =? 1 + Z.of_nat k) eqn:E.
      * assert (r = 1 + Z.of_nat k) by lia. subst r. rewrite qadd_ok.
        rewrite I1 by lia.
        replace (1 + Z.of_nat k + 1) with ((1 + Z.of_nat k - 1 + 1) + 1) by lia.
        rewrite (psum_split col 0 (1 + Z.of_nat k - 1 + 1) 1), psum_one by lia.
        replace (0 + (1 + Z.of_nat k - 1 + 1)) with (1 + Z.of_nat k) by lia. reflexivity.
      * apply I1. lia.
    + destruct (r =? 1 + Z.of_nat k) eqn:E; [lia|]. apply I2. lia.
Qed.

Lemma step3_read : forall nr col i, 1 <= nr -> -1 <= i < nr ->
  step3_col nr col (wrap (nr + 1) i) == psum col 0 (i + 1).
Proof.
  intros. unfold step3_col.
  destruct (step3_inv nr col (Z.to_nat (nr - 1))) as [I1 I2]; [lia|].
  replace (Z.of_nat (Z.to_nat (nr - 1))) with (nr - 1) in * by lia.
  unfold wrap. destruct (i <? 0) eqn:E.
  - rewrite I2 by lia. rewrite psum_nil by lia. reflexivity.
  - apply I1. lia.
Qed.

(* the sentinel row of step 3 is never written: a read through index -1 returns 0 *)
Theorem step3_read_minus_one_is_zero : forall nr col, 1 <= nr ->
  step3_col nr col (wrap (nr + 1) (-1)) = 0%Q.
Proof.
  intros. unfold step3_col.
  destruct (step3_inv nr col (Z.to_nat (nr - 1))) as [_ I2]; [lia|].
  replace (Z.of_nat (Z.to_nat (nr - 1))) with (nr - 1) in * by lia.
  apply I2. unfold wrap. change (-1 <? 0) with true. cbv iota. lia.
Qed.

Lemma step3_diff : forall nr col a b, 1 <= nr -> 0 <= a -> a <= b -> b < nr ->
  step3_col nr col b - step3_col nr col (wrap (nr + 1) (a - 1)) == psum col a (b - a + 1).
Proof.
  intros.
  assert (Hb : step3_col nr col b == psum col 0 (b + 1)).
  { replace b with (wrap (nr + 1) b) at 1 by (unfold wrap; destruct (b <? 0) eqn:E; lia).
    apply step3_read; lia. }
  rewrite Hb, step3_read by lia.
  replace (b + 1) with (a + (b - a + 1)) by lia. rewrite psum_split by lia.
  replace (a - 1 + 1) with a by lia. replace (0 + a) with a by lia. ring.
Qed.

(* ---------------------------------------------------------------- the correspondent column *)

Lemma Qfloor_unique : forall x z, (inject_Z z <= x)%Q -> (x < inject_Z (z + 1))%Q -> Qfloor x = z.
Proof.
  intros x z H1 H2.
  pose proof (Qfloor_le x) as F1. pose proof (Qlt_floor x) as F2.
  assert (z < Qfloor x + 1).
  { rewrite Zlt_Qlt. eapply Qle_lt_trans; eauto. }
  assert (Qfloor x < z + 1).
  { rewrite Zlt_Qlt. eapply Qle_lt_trans; eauto. }
  lia.
Qed.

Lemma Qfloor_plus_Z : forall c d, Qfloor (inject_Z c + d) = c + Qfloor d.
Proof.
  intros. apply Qfloor_unique.
  - rewrite inject_Z_plus. apply Qplus_le_r. apply Qfloor_le.
  - replace (c + Qfloor d + 1) with (c + (Qfloor d + 1)) by lia.
    rewrite inject_Z_plus. apply Qplus_lt_r. apply Qlt_floor.
Qed.

Lemma valid_col_iff : forall ncR d c,
  valid_col ncR d c = true <-> 0 <= c + Qfloor d < ncR.
Proof.
  intros. unfold valid_col. rewrite andb_true_iff, negb_true_iff.
  rewrite Qle_bool_iff. rewrite <- Qfloor_plus_Z.
  set (x := (inject_Z c + d)%Q).
  pose proof (Qfloor_le x) as F1. pose proof (Qlt_floor x) as F2.
  split.
  - intros [H1 H2]. split.
    + change 0 with (Qfloor 0). apply Qfloor_resp_le. exact H1.
    + rewrite Zlt_Qlt. eapply Qle_lt_trans; [exact F1|].
      apply Qnot_le_lt. intro A. apply Qle_bool_iff in A. congruence.
  - intros [H1 H2]. split.
    + eapply Qle_trans; [|exact F1]. change 0%Q with (inject_Z 0). rewrite <- Zle_Qle. exact H1.
    + destruct (Qle_bool (inject_Z ncR) x) eqn:A; auto. apply Qle_bool_iff in A.
      exfalso. apply (Qlt_irrefl x). eapply Qlt_le_trans; [exact F2|].
      eapply Qle_trans; [|exact A]. rewrite <- Zle_Qle. lia.
Qed.

(* ================================================================ one plane *)

Lemma zsum_app : forall l1 l2, zsum (l1 ++ l2) = zsum l1 + zsum l2.
Proof. induction l1; intros; simpl; [reflexivity | rewrite IHl1; lia]. Qed.

Lemma zsum_map_plus1 : forall (f : Z -> Z) l,
  zsum (map (fun k => f k + 1) l) = zsum (map f l) + Z.of_nat (length l).
Proof. induction l; simpl; [reflexivity | rewrite IHl; lia]. Qed.

Lemma zsum_map_ext : forall (f g : Z -> Z) l,
  (forall x, In x l -> f x = g x) -> zsum (map f l) = zsum (map g l).
Proof.
  induction l; intros; simpl; [reflexivity|].
  rewrite IHl by (intros; apply H; right; auto). rewrite (H a) by (left; auto). reflexivity.
Qed.

Lemma zrange_length : forall a n, Z.of_nat (length (zrange a n)) = Z.max 0 n.
Proof. intros. rewrite zrange_span, span_length. lia. Qed.

Lemma sumQ_flat_map : forall (A B : Type) (g : B -> Q) (h : A -> list B) l,
  sumQ (map g (flat_map h l)) == qsum (map (fun x => sumQ (map g (h x))) l).
Proof.
  induction l; simpl; [reflexivity|].
  rewrite map_app. change sumQ with qsum in *. rewrite qsum_app. rewrite IHl. reflexivity.
Qed.

Lemma length_flat_map : forall (A B : Type) (h : A -> list B) l,
  Z.of_nat (length (flat_map h l)) = zsum (map (fun x => Z.of_nat (length (h x))) l).
Proof.
  induction l; simpl; [reflexivity|]. rewrite app_length. lia.
Qed.

Section PlaneProofs.
  Variables (nr nc ncR : Z) (crossL crossR : Z -> Z -> arms) (d : Q) (cv : Z -> Z -> option Q).
  Variables (armL armR : dir -> Z -> Z -> Z).
  Hypothesis Hnr : 1 <= nr.
  Hypothesis Hnc : 1 <= nc.
  (* the arm tables hold the arms ... *)
  Hypothesis HL : forall r c, 0 <= r < nr -> 0 <= c < nc ->
    crossL r c = mkArms (armL DLeft r c) (armL DRight r c) (armL DUp r c) (armL DDown r c).
  Hypothesis HR : forall r c, 0 <= r < nr -> 0 <= c < ncR ->
    crossR r c = mkArms (armR DLeft r c) (armR DRight r c) (armR DUp r c) (armR DDown r c).
  (* ... and an arm never leaves its image *)
  Hypothesis BL : forall r c, 0 <= r < nr -> 0 <= c < nc ->
    0 <= armL DLeft r c <= c /\ 0 <= armL DRight r c <= nc - 1 - c /\
    0 <= armL DUp r c <= r /\ 0 <= armL DDown r c <= nr - 1 - r.
  Hypothesis BR : forall dd r c, 0 <= r < nr -> 0 <= c < ncR -> 0 <= armR dd r c.

  Let shift := Qfloor d.
  Let ca := carm armL armR shift.
  Let costs (r : Z) := fun j => nz (cv r j).

  Lemma corr_shift : forall c, corr d c = c + shift.
  Proof. intros. unfold corr, shift. apply Qfloor_plus_Z. Qed.

  Lemma valid_corr : forall c, valid_col ncR d c = true -> 0 <= c + shift < ncR.
  Proof. intros. apply valid_col_iff. auto. Qed.

  Lemma arms_combined : forall r c, 0 <= r < nr -> 0 <= c < nc -> valid_col ncR d c = true ->
    h_left crossL crossR d r c = ca DLeft r c /\ h_right crossL crossR d r c = ca DRight r c /\
    v_top crossL crossR d r c = ca DUp r c /\ v_bot crossL crossR d r c = ca DDown r c.
  Proof.
    intros r c Hr Hc Hv. apply valid_corr in Hv.
    unfold h_left, h_right, v_top, v_bot, ca, carm.
    rewrite corr_shift. rewrite HL, HR by lia. simpl. auto.
  Qed.

  Lemma ca_bounds : forall r c, 0 <= r < nr -> 0 <= c < nc -> valid_col ncR d c = true ->
    0 <= ca DLeft r c <= c /\ 0 <= ca DRight r c <= nc - 1 - c /\
    0 <= ca DUp r c <= r /\ 0 <= ca DDown r c <= nr - 1 - r.
  Proof.
    intros r c Hr Hc Hv. apply valid_corr in Hv.
    destruct (BL r c Hr Hc) as (B1 & B2 & B3 & B4).
    pose proof (BR DLeft r (c + shift) Hr Hv). pose proof (BR DRight r (c + shift) Hr Hv).
    pose proof (BR DUp r (c + shift) Hr Hv). pose proof (BR DDown r (c + shift) Hr Hv).
    unfold ca, carm. lia.
  Qed.

  (* step 2 = sum of the costs over the horizontal arms (telescoping of step 1) *)
  Lemma step2_is_arm_sum : forall s1 r c,
    (forall r' c', 0 <= r' < nr -> 0 <= c' < nc + 1 -> s1 r' c' = step1 nc cv r' c') ->
    0 <= r < nr -> 0 <= c < nc -> valid_col ncR d c = true ->
    step2 nc ncR crossL crossR d s1 r c
    == psum (costs r) (c - ca DLeft r c) (ca DLeft r c + ca DRight r c + 1).
  Proof.
    intros s1 r c Hs1 Hr Hc Hv.
    destruct (arms_combined r c Hr Hc Hv) as (E1 & E2 & _ & _).
    destruct (ca_bounds r c Hr Hc Hv) as (B1 & B2 & _ & _).
    unfold step2. rewrite Hv, E1, E2.
    rewrite qsub_ok.
    assert (W : 0 <= wrap (nc + 1) (c - ca DLeft r c - 1) < nc + 1).
    { unfold wrap. destruct (c - ca DLeft r c - 1 <? 0) eqn:E; lia. }
    rewrite !Hs1 by lia. unfold step1.
    replace (c - ca DLeft r c - 1) with ((c - ca DLeft r c) - 1) by lia.
    rewrite step1_diff by lia. unfold costs.
    replace (c + ca DRight r c - (c - ca DLeft r c) + 1) with (ca DLeft r c + ca DRight r c + 1) by lia.
    reflexivity.
  Qed.

  Lemma sum2_is_arm_count : forall r c,
    0 <= r < nr -> 0 <= c < nc -> valid_col ncR d c = true ->
    sum2 ncR crossL crossR d r c = ca DLeft r c + ca DRight r c.
  Proof.
    intros r c Hr Hc Hv.
    destruct (arms_combined r c Hr Hc Hv) as (E1 & E2 & _ & _).
    unfold sum2. rewrite Hv, E1, E2. lia.
  Qed.

  (* step 4 = sum of step 2 over the vertical arm (telescoping of step 3) *)
  Lemma step4_is_column_sum : forall s2 s3 r c,
    (forall r' c', 0 <= r' < nr + 1 -> 0 <= c' < nc -> s3 r' c' = step3 nr s2 r' c') ->
    0 <= r < nr -> 0 <= c < nc -> valid_col ncR d c = true ->
    step4 nr ncR crossL crossR d s3 r c
    == psum (fun k => s2 k c) (r - ca DUp r c) (ca DUp r c + ca DDown r c + 1).
  Proof.
    intros s2 s3 r c Hs3 Hr Hc Hv.
    destruct (arms_combined r c Hr Hc Hv) as (_ & _ & E3 & E4).
    destruct (ca_bounds r c Hr Hc Hv) as (_ & _ & B3 & B4).
    unfold step4. rewrite Hv, E3, E4. rewrite qsub_ok.
    assert (W : 0 <= wrap (nr + 1) (r - ca DUp r c - 1) < nr + 1).
    { unfold wrap. destruct (r - ca DUp r c - 1 <? 0) eqn:E; lia. }
    rewrite !Hs3 by lia. unfold step3.
    replace (r - ca DUp r c - 1) with ((r - ca DUp r c) - 1) by lia.
    rewrite step3_diff by lia.
    replace (r + ca DDown r c - (r - ca DUp r c) + 1) with (ca DUp r c + ca DDown r c + 1) by lia.
    reflexivity.
  Qed.

  (* the support count: sum4 + 1 (anchor) = number of pixels of the region *)
  Lemma sum4_is_region_size : forall sm2 r c,
    (forall r' c', 0 <= r' < nr -> 0 <= c' < nc -> sm2 r' c' = sum2 ncR crossL crossR d r' c') ->
    0 <= r < nr -> 0 <= c < nc -> valid_col ncR d c = true ->
    sum4 ncR crossL crossR d sm2 r c + 1 = Z.of_nat (length (region armL armR shift r c)).
  Proof.
    intros sm2 r c Hsm Hr Hc Hv.
    destruct (arms_combined r c Hr Hc Hv) as (_ & _ & E3 & E4).
    destruct (ca_bounds r c Hr Hc Hv) as (_ & _ & B3 & B4).
    unfold sum4. rewrite Hv, E3, E4. cbv zeta.
    set (top := ca DUp r c) in *. set (bot := ca DDown r c) in *.
    assert (T : (if top =? 0 then 0 else zsum (map (fun k => sm2 k c) (zrange (r - top) top)))
                = zsum (map (fun k => sm2 k c) (zrange (r - top) top))).
    { destruct (top =? 0) eqn:E; auto. rewrite zrange_nil by lia. reflexivity. }
    assert (B : (if bot =? 0 then 0 else zsum (map (fun k => sm2 k c) (zrange (r + 1) bot)))
                = zsum (map (fun k => sm2 k c) (zrange (r + 1) bot))).
    { destruct (bot =? 0) eqn:E; auto. rewrite zrange_nil by lia. reflexivity. }
    rewrite T, B.
    unfold region. fold ca. fold top. fold bot.
    rewrite length_flat_map. rewrite <- zrange_span.
    rewrite (zsum_map_ext (fun x => Z.of_nat (length (hspan armL armR shift x c))) (fun k => sm2 k c + 1)).
    2:{ intros k Hk. apply in_zrange in Hk. unfold hspan. rewrite map_length, span_length.
        assert (Hk' : 0 <= k < nr) by lia.
        destruct (ca_bounds k c Hk' Hc Hv) as (C1 & C2 & _ & _).
        rewrite Hsm by lia. rewrite sum2_is_arm_count by auto. fold ca. lia. }
    rewrite zsum_map_plus1, zrange_length.
    replace (top + bot + 1) with (top + (1 + bot)) by lia.
    rewrite zrange_app by lia. replace (r - top + top) with r by lia.
    rewrite (zrange_app r 1 bot) by lia. rewrite zrange_one.
    rewrite !map_app, !zsum_app. cbn [map zsum fold_right]. lia.
  Qed.
  (* steps 1-4 composed: the numerator is the sum of the computable costs over the region *)
  Lemma step4_is_region_sum : forall s1 s2 s3 r c,
    (forall r' c', 0 <= r' < nr -> 0 <= c' < nc + 1 -> s1 r' c' = step1 nc cv r' c') ->
    (forall r' c', 0 <= r' < nr -> 0 <= c' < nc -> s2 r' c' = step2 nc ncR crossL crossR d s1 r' c') ->
    (forall r' c', 0 <= r' < nr + 1 -> 0 <= c' < nc -> s3 r' c' = step3 nr s2 r' c') ->
    0 <= r < nr -> 0 <= c < nc -> valid_col ncR d c = true ->
    step4 nr ncR crossL crossR d s3 r c
    == sumQ (map (fun p => cost_or_0 (cv (fst p) (snd p))) (region armL armR shift r c)).
  Proof.
    intros s1 s2 s3 r c Hs1 Hs2 Hs3 Hr Hc Hv.
    destruct (ca_bounds r c Hr Hc Hv) as (_ & _ & B3 & B4).
    rewrite (step4_is_column_sum s2 s3) by auto.
    unfold region. rewrite sumQ_flat_map. fold ca. rewrite <- zrange_span.
    unfold psum.
    apply qsum_map_ext. intros k Hk. apply in_zrange in Hk.
    assert (Hk' : 0 <= k < nr) by lia.
    rewrite Hs2 by lia. rewrite (step2_is_arm_sum s1) by auto.
    unfold hspan. rewrite map_map. cbn [fst snd]. fold ca. rewrite <- zrange_span. reflexivity.
  Qed.

  (* the pixel belongs to its region: the normalisation never divides by zero *)
  Lemma region_has_anchor : forall r c, 0 <= r < nr -> 0 <= c < nc -> valid_col ncR d c = true ->
    In (r, c) (region armL armR shift r c).
  Proof.
    intros r c Hr Hc Hv.
    destruct (ca_bounds r c Hr Hc Hv) as (B1 & B2 & B3 & B4).
    unfold region. apply in_flat_map. exists r. fold ca. split.
    - apply in_span. lia.
    - unfold hspan. apply in_map_iff. exists c. split; auto. fold ca. apply in_span. lia.
  Qed.

  (* the cost is not computable where the correspondent falls outside the right image (C02) *)
  Hypothesis Hguard : forall r c, 0 <= r < nr -> 0 <= c < nc -> valid_col ncR d c = false -> cv r c = None.

  Theorem plane_out_spec : forall r c, 0 <= r < nr -> 0 <= c < nc ->
    lookup None (plane_out nr nc ncR crossL crossR d cv) r c
    = match cv r c with
      | None => None
      | Some _ => Some (Qred (region_mean armL armR shift cv r c))
      end.
  Proof.
    intros r c Hr Hc. unfold plane_out. cbv zeta.
    set (s1 := lookup 0%Q (tabulate nr (nc + 1) (step1 nc cv))).
    set (s2 := lookup 0%Q (tabulate nr nc (step2 nc ncR crossL crossR d s1))).
    set (sm2 := lookup 0 (tabulate nr nc (sum2 ncR crossL crossR d))).
    set (s3 := lookup 0%Q (tabulate (nr + 1) nc (step3 nr s2))).
    rewrite lookup_tabulate by lia.
    destruct (cv r c) eqn:Ecv; [|reflexivity].
    destruct (valid_col ncR d c) eqn:Hv.
    2:{ rewrite Hguard in Ecv by auto. discriminate. }
    cbn [nan_mask oq_add oq_div]. f_equal. apply Qred_complete.
    unfold region_mean.
    rewrite (sum4_is_region_size sm2) by (auto; intros; unfold sm2; apply lookup_tabulate; lia).
    rewrite qadd_ok.
    rewrite (step4_is_region_sum s1 s2 s3); auto.
    - unfold Qdiv. ring.
    - intros; unfold s1; apply lookup_tabulate; lia.
    - intros; unfold s2; apply lookup_tabulate; lia.
    - intros; unfold s3; apply lookup_tabulate; lia.
  Qed.

  (* NaN stays NaN and nothing else becomes NaN (costs are finite or NaN: no +-inf) *)
  Theorem plane_out_nan : forall r c, 0 <= r < nr -> 0 <= c < nc ->
    (lookup None (plane_out nr nc ncR crossL crossR d cv) r c = None <-> cv r c = None).
  Proof.
    intros r c Hr Hc. unfold plane_out. cbv zeta. rewrite lookup_tabulate by lia.
    destruct (cv r c); cbn [nan_mask oq_add oq_div]; split; intros; congruence.
  Qed.
End PlaneProofs.

(* ================================================================ the whole step *)

Lemma NoDup_span : forall n a, NoDup (span a n).
Proof.
  induction n; intros; simpl; constructor.
  - rewrite in_span. lia.
  - apply IHn.
Qed.

Lemma map_fst_combine : forall (A B : Type) (l1 : list A) (l2 : list B),
  length l1 = length l2 -> map fst (combine l1 l2) = l1.
Proof.
  induction l1; destruct l2; simpl; intros; try discriminate; auto.
  f_equal. apply IHl1. lia.
Qed.

Lemma nth_map_zrange : forall (B : Type) (f : Z -> B) n s dflt,
  0 <= s < n -> nth (Z.to_nat s) (map f (zrange 0 n)) dflt = f s.
Proof.
  intros. rewrite zrange_span.
  rewrite (nth_indep _ dflt (f 0)) by (rewrite map_length, span_length; lia).
  rewrite map_nth. rewrite nth_span by lia. f_equal. lia.
Qed.

Section FoldPlanes.
  Variable V : Type.
  Variable G : Z -> Q -> V.
  Let step := fun (agg : Z -> V) (kd : Z * Q) => let '(k0, d0) := kd in updz agg k0 (G k0 d0).

  Lemma fold_planes_notin : forall l init k,
    ~ In k (map fst l) -> fold_left step l init k = init k.
  Proof.
    induction l as [|[k0 d0] t]; intros; simpl in *; auto.
    rewrite IHt by tauto. unfold updz. destruct (k =? k0) eqn:E; auto. exfalso. apply H. left. lia.
  Qed.

  Lemma fold_planes : forall l init k d,
    NoDup (map fst l) -> In (k, d) l -> fold_left step l init k = G k d.
  Proof.
    induction l as [|[k0 d0] t]; intros init k d Hnd Hin; simpl in *; [tauto|].
    inversion Hnd; subst. destruct Hin as [Heq | Hin].
    - inversion Heq; subst. rewrite fold_planes_notin by auto.
      unfold updz. rewrite Z.eqb_refl. reflexivity.
    - eapply IHt; eauto.
  Qed.
End FoldPlanes.

Lemma px_ext : forall I I' r c,
  f_nr I = f_nr I' -> f_nc I = f_nc I' ->
  (forall r c, inside I r c = true -> f_pix I r c = f_pix I' r c) ->
  px I r c = px I' r c.
Proof.
  intros. unfold px. assert (inside I' r c = inside I r c) by (unfold inside; congruence).
  rewrite H2. destruct (inside I r c) eqn:E; auto.
Qed.

Lemma spec_arm_ext : forall I I' dist inten dd r c,
  f_nr I = f_nr I' -> f_nc I = f_nc I' ->
  (forall r c, inside I r c = true -> f_pix I r c = f_pix I' r c) ->
  spec_arm I dist inten dd r c = spec_arm I' dist inten dd r c.
Proof.
  intros. unfold spec_arm. rewrite (px_ext I I') by auto.
  destruct (px I' r c); auto. apply ray_arm_ext. intros. unfold ray. apply px_ext; auto.
Qed.

Lemma i_right_range : forall subpix d, 1 <= subpix -> 0 <= i_right subpix d < subpix.
Proof.
  intros. unfold i_right.
  pose proof (Qfloor_le d) as F1. pose proof (Qlt_floor d) as F2.
  rewrite inject_Z_plus in F2. change (inject_Z 1) with 1%Q in F2.
  set (f := (d - inject_Z (Qfloor d))%Q).
  assert (Hf0 : (0 <= f)%Q) by (unfold f; lra).
  assert (Hf1 : (f < 1)%Q) by (unfold f; lra).
  assert (Hs : (0 < inject_Z subpix)%Q).
  { change 0%Q with (inject_Z 0). rewrite <- Zlt_Qlt. lia. }
  set (y := (f * inject_Z subpix)%Q).
  assert (Hy0 : (0 <= y)%Q) by (unfold y; apply Qmult_le_0_compat; lra).
  assert (Hy1 : (y < inject_Z subpix)%Q).
  { unfold y. setoid_replace (inject_Z subpix) with (1 * inject_Z subpix)%Q at 2 by ring.
    apply Qmult_lt_r; auto. }
  split.
  - change 0 with (Qfloor 0). apply Qfloor_resp_le. exact Hy0.
  - rewrite Zlt_Qlt. eapply Qle_lt_trans; [apply Qfloor_le | exact Hy1].
Qed.

(* the filtered images as the specification sees them: size of the computable area of the
   cost volume (the images are cropped by the window offset after filtering) *)
Definition spec_left (x : cbca_in) : fimg :=
  mkF (cnr x) (cnc x) (crop (i_off x) (left_filtered x)).
Definition spec_right (x : cbca_in) (s : Z) : fimg :=
  mkF (cnr x) (cncR x s) (crop (i_off x) (right_filtered x s)).

Definition nth_disp (x : cbca_in) (k : Z) : Q := nth (Z.to_nat k) (i_disps x) 0%Q.
Definition n_disp (x : cbca_in) : Z := Z.of_nat (length (i_disps x)).
Definition out_at (x : cbca_in) (k r c : Z) : option Q :=
  lookup None (nth (Z.to_nat k) (cbca_volume x) []) r c.

(* value of the aggregated volume at (k, r, c) in terms of the plane function *)
Lemma volume_at : forall x k r c,
  1 <= i_subpix x -> 0 <= k < n_disp x -> 0 <= r < i_nr x -> 0 <= c < i_nc x ->
  let d := nth_disp x k in
  let s := i_right (i_subpix x) d in
  out_at x k r c =
  if in_crop x r c
  then lookup None (plane_out (cnr x) (cnc x) (cncR x s)
                              (lookup arms0 (cross_left_table x))
                              (lookup arms0 (cross_right_table x s)) d
                              (crop (i_off x) (i_cv x k)))
              (r - i_off x) (c - i_off x)
  else i_cv x k r c.
Proof.
  intros x k r c Hsub Hk Hr Hc d s. unfold out_at, cbca_volume, n_disp in *.
  rewrite nth_map_zrange by lia. rewrite lookup_tabulate by lia.
  destruct (in_crop x r c) eqn:E; [|reflexivity].
  f_equal. unfold cbca_planes.
  rewrite (fold_planes _ (fun k0 d0 =>
     plane_out (cnr x) (cnc x) (cncR x (i_right (i_subpix x) d0))
       (lookup arms0 (cross_left_table x))
       (lookup arms0 (nth (Z.to_nat (i_right (i_subpix x) d0))
                          (map (cross_right_table x) (zrange 0 (i_subpix x))) []))
       d0 (crop (i_off x) (i_cv x k0))) _ _ k d).
  - fold s. rewrite nth_map_zrange by (apply i_right_range; lia). reflexivity.
  - rewrite map_fst_combine by (rewrite zrange_span, span_length; lia).
    rewrite zrange_span. apply NoDup_span.
  - assert (Hlen : length (zrange 0 (Z.of_nat (length (i_disps x)))) = length (i_disps x)).
    { rewrite zrange_span, span_length. lia. }
    replace (k, d) with (nth (Z.to_nat k) (combine (zrange 0 (Z.of_nat (length (i_disps x)))) (i_disps x)) (0, 0%Q)).
    + apply nth_In. rewrite combine_length, Hlen. lia.
    + rewrite combine_nth by auto. f_equal.
      rewrite zrange_span, nth_span by lia. lia.
Qed.

(* same images, masks and parameters; another list of disparities and another cost volume *)
Definition with_volume (x : cbca_in) (disps : list Q) (cv : Z -> Z -> Z -> option Q) : cbca_in :=
  mkIn (i_nr x) (i_nc x) (i_off x) (i_subpix x) (i_dist x) (i_inten x)
       (i_imL x) (i_mskL x) (i_validL x) (i_imR x) (i_mskR x) (i_validR x) disps cv.

Section Final.
  Variable x : cbca_in.
  Hypothesis Hdist : 1 <= i_dist x.
  Hypothesis Hsub : 1 <= i_subpix x.
  Hypothesis Hoff : 0 <= i_off x.
  Hypothesis Hcnr : 1 <= cnr x.
  Hypothesis Hcnc : 1 <= cnc x.

  Lemma in_crop_range : forall r c, in_crop x r c = true ->
    0 <= r - i_off x < cnr x /\ 0 <= c - i_off x < cnc x /\ 0 <= r < i_nr x /\ 0 <= c < i_nc x.
  Proof. intros r c H. unfold in_crop, cnr, cnc in *. lia. Qed.

  Lemma cross_left_ok : forall r c, 0 <= r < cnr x -> 0 <= c < cnc x ->
    lookup arms0 (cross_left_table x) r c
    = mkArms (spec_arm (spec_left x) (i_dist x) (i_inten x) DLeft r c)
             (spec_arm (spec_left x) (i_dist x) (i_inten x) DRight r c)
             (spec_arm (spec_left x) (i_dist x) (i_inten x) DUp r c)
             (spec_arm (spec_left x) (i_dist x) (i_inten x) DDown r c).
  Proof.
    intros r c Hr Hc. unfold cross_left_table. cbv zeta.
    rewrite lookup_tabulate by lia. rewrite arms_spec by lia. cbv zeta.
    f_equal; apply spec_arm_ext; auto; unfold spec_left, inside; simpl;
      intros r0 c0 Hin; unfold crop; apply lookup_tabulate; unfold cnr, cnc in *; lia.
  Qed.

  Lemma cross_right_ok : forall s r c, 0 <= r < cnr x -> 0 <= c < cncR x s ->
    lookup arms0 (cross_right_table x s) r c
    = mkArms (spec_arm (spec_right x s) (i_dist x) (i_inten x) DLeft r c)
             (spec_arm (spec_right x s) (i_dist x) (i_inten x) DRight r c)
             (spec_arm (spec_right x s) (i_dist x) (i_inten x) DUp r c)
             (spec_arm (spec_right x s) (i_dist x) (i_inten x) DDown r c).
  Proof.
    intros s r c Hr Hc. unfold cross_right_table. cbv zeta.
    rewrite lookup_tabulate by lia. rewrite arms_spec by lia. cbv zeta.
    f_equal; apply spec_arm_ext; auto; unfold spec_right, inside; simpl;
      intros r0 c0 Hin; unfold crop; apply lookup_tabulate; unfold cnr, cncR in *; lia.
  Qed.

  (* C11, main statement: the aggregated cost is the mean of the computable costs over the
     combined support region of the specification *)
  Theorem cbca_model_eq_spec : forall k r c,
    0 <= k < n_disp x -> in_crop x r c = true ->
    let d := nth_disp x k in
    let s := plane_image (i_subpix x) d in
    (* guard (C02): no computable cost where the correspondent is outside the right image *)
    (forall r' c', 0 <= r' < cnr x -> 0 <= c' < cnc x ->
                   ~ (0 <= c' + plane_shift d < cncR x s) ->
                   i_cv x k (r' + i_off x) (c' + i_off x) = None) ->
    out_at x k r c
    = agg_spec (spec_left x) (spec_right x s) (i_dist x) (i_inten x) (plane_shift d)
               (crop (i_off x) (i_cv x k)) (r - i_off x) (c - i_off x).
  Proof.
    intros k r c Hk Hin d s Hguard.
    destruct (in_crop_range r c Hin) as (R1 & R2 & R3 & R4).
    rewrite volume_at by auto. rewrite Hin. fold d. change (i_right (i_subpix x) d) with s.
    unfold agg_spec, plane_shift.
    apply plane_out_spec; auto.
    - apply cross_left_ok.
    - apply cross_right_ok.
    - intros. apply (spec_arm_in_image (spec_left x)); simpl; auto.
    - intros. apply (spec_arm_inside (spec_right x s)).
    - intros r' c' Hr' Hc' Hv. unfold crop. apply Hguard; auto.
      intro A. apply valid_col_iff in A. unfold plane_shift in *. congruence.
  Qed.

  (* NaN stays NaN, nothing else becomes NaN -- costs are finite or NaN by typing:
     the guard "no +-inf in the volume" is the type [option Q] of a cost *)
  Theorem cbca_nan_preserved : forall k r c,
    0 <= k < n_disp x -> 0 <= r < i_nr x -> 0 <= c < i_nc x ->
    (out_at x k r c = None <-> i_cv x k r c = None).
  Proof.
    intros k r c Hk Hr Hc. rewrite volume_at by auto.
    destruct (in_crop x r c) eqn:Hin; [|tauto].
    destruct (in_crop_range r c Hin) as (R1 & R2 & R3 & R4).
    rewrite plane_out_nan by auto. unfold crop.
    replace (r - i_off x + i_off x) with r by lia. replace (c - i_off x + i_off x) with c by lia.
    tauto.
  Qed.

  (* the costs outside the computable area (window offset) are not touched *)
  Theorem cbca_border_unchanged : forall k r c,
    0 <= k < n_disp x -> 0 <= r < i_nr x -> 0 <= c < i_nc x -> in_crop x r c = false ->
    out_at x k r c = i_cv x k r c.
  Proof. intros k r c Hk Hr Hc Hin. rewrite volume_at by auto. rewrite Hin. reflexivity. Qed.

  (* each plane is aggregated independently of the others: the output plane depends on the
     images, the parameters, the plane's own disparity and the plane's own costs only - not
     on the other planes, their number or their order *)
  Theorem cbca_plane_independent : forall disps' cv' k k' r c,
    0 <= k < n_disp x -> 0 <= k' < Z.of_nat (length disps') ->
    nth_disp x k = nth (Z.to_nat k') disps' 0%Q ->
    i_cv x k = cv' k' ->
    0 <= r < i_nr x -> 0 <= c < i_nc x ->
    out_at x k r c = out_at (with_volume x disps' cv') k' r c.
  Proof.
    intros disps' cv' k k' r c Hk Hk' Hd Hcv Hr Hc.
    rewrite volume_at by auto.
    rewrite (volume_at (with_volume x disps' cv')) by (simpl; auto).
    unfold nth_disp in *. cbn [with_volume i_disps i_cv]. rewrite <- Hd, <- Hcv. reflexivity.
  Qed.
End Final.
