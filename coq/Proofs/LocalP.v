(* C13 -- generic lemmas about [local] (Spec/Local.v): weakening, point operations, pairing,
   composition (radii add), pipelines, crops. *)
From Coq Require Import ZArith List Bool Lia.
From Pandora Require Import Spec.Local.
Import ListNotations.
Open Scope Z_scope.

Lemma rad_wf_add : forall a b, rad_wf a -> rad_wf b -> rad_wf (radd a b).
Proof. unfold rad_wf, radd. intros a b (?&?&?) (?&?&?). cbn. lia. Qed.

Lemma rad_wf_max : forall a b, rad_wf a -> rad_wf (rmax a b).
Proof. unfold rad_wf, rmax. intros a b (?&?&?). cbn. lia. Qed.

Lemma rad_le_max_l : forall a b, rad_le a (rmax a b).
Proof. unfold rad_le, rmax. intros. cbn. lia. Qed.
Lemma rad_le_max_r : forall a b, rad_le b (rmax a b).
Proof. unfold rad_le, rmax. intros. cbn. lia. Qed.

Lemma in_cone_le : forall R R' a b, rad_le R R' -> in_cone R a b -> in_cone R' a b.
Proof. unfold rad_le, in_cone. intros. lia. Qed.

Lemma in_cone_0 : forall R, rad_wf R -> in_cone R 0 0.
Proof. unfold rad_wf, in_cone. intros. lia. Qed.

Lemma cone_in_le : forall A (F : frame A) R R' r c, rad_le R R' -> cone_in F R' r c -> cone_in F R r c.
Proof. unfold rad_le, cone_in. intros. lia. Qed.

Lemma cone_in_frame : forall A (F : frame A) R r c, rad_wf R -> cone_in F R r c -> in_frame F r c.
Proof. unfold rad_wf, cone_in, in_frame. intros. lia. Qed.

Lemma agree_on_le : forall A (F G : frame A) R R' r c r' c',
  rad_le R R' -> agree_on F G R' r c r' c' -> agree_on F G R r c r' c'.
Proof. unfold agree_on. intros. apply H0. eapply in_cone_le; eassumption. Qed.

(* a cone of radii Rg + Rf contains the cone of radii Rf of every pixel of the cone of radii Rg *)
Lemma cone_in_add : forall A (F : frame A) Rg Rf r c a b,
  rad_wf Rf -> rad_wf Rg -> cone_in F (radd Rg Rf) r c -> in_cone Rg a b -> cone_in F Rf (r + a) (c + b).
Proof. unfold rad_wf, cone_in, in_cone, radd. cbn. intros. lia. Qed.

Lemma cone_in_add_outer : forall A (F : frame A) Rg Rf r c,
  rad_wf Rf -> rad_wf Rg -> cone_in F (radd Rg Rf) r c -> cone_in F Rg r c.
Proof. unfold rad_wf, cone_in, radd. cbn. intros. lia. Qed.

Lemma in_cone_add : forall Rg Rf a b a' b', in_cone Rg a b -> in_cone Rf a' b' -> in_cone (radd Rg Rf) (a + a') (b + b').
Proof. unfold in_cone, radd. cbn. intros. lia. Qed.

(* ------------------------------------------------------------------ weakening *)

Lemma local_weaken : forall A B (H H' : side A) (f : op A B) D M D' M',
  local H f D M -> rad_le D D' -> rad_le M M' -> (forall F r c, H' F r c -> H F r c) -> local H' f D' M'.
Proof.
  intros A B H H' f D M D' M' Hl HD HM HH F G r c r' c' HF HG Hag HH'.
  apply Hl.
  - eapply cone_in_le; eassumption.
  - eapply cone_in_le; eassumption.
  - eapply agree_on_le; eassumption.
  - apply HH. assumption.
Qed.

(* ------------------------------------------------------------------ point operations *)

Lemma local_pointwise : forall A B (h : A -> B), local no_side (fun F r c => h (f_at F r c)) rad0 rad0.
Proof.
  intros A B h F G r c r' c' _ _ Hag _.
  specialize (Hag 0 0). rewrite !Z.add_0_r in Hag. rewrite Hag. reflexivity.
  unfold in_cone, rad0. cbn. lia.
Qed.

(* a step that looks at the data of the pixel itself and at the result of a local step *)
Lemma local_map2 : forall A B C (H : side A) (f : op A B) (h : A -> B -> C) D M,
  rad_wf D -> local H f D M -> local H (fun F r c => h (f_at F r c) (f F r c)) D M.
Proof.
  intros A B C H f h D M Hwf Hl F G r c r' c' HF HG Hag HH.
  rewrite (Hl F G r c r' c' HF HG Hag HH).
  specialize (Hag 0 0 (in_cone_0 D Hwf)). rewrite !Z.add_0_r in Hag. rewrite Hag. reflexivity.
Qed.

(* two local steps side by side *)
Lemma local_pair : forall A B C (H1 H2 : side A) (f : op A B) (g : op A C) D1 M1 D2 M2,
  local H1 f D1 M1 -> local H2 g D2 M2 ->
  local (fun F r c => H1 F r c /\ H2 F r c) (fun F r c => (f F r c, g F r c)) (rmax D1 D2) (rmax M1 M2).
Proof.
  intros A B C H1 H2 f g D1 M1 D2 M2 Hf Hg F G r c r' c' HF HG Hag [Ha Hb].
  f_equal.
  - apply Hf; try assumption.
    + eapply cone_in_le; [apply rad_le_max_l | eassumption].
    + eapply cone_in_le; [apply rad_le_max_l | eassumption].
    + eapply agree_on_le; [apply rad_le_max_l | eassumption].
  - apply Hg; try assumption.
    + eapply cone_in_le; [apply rad_le_max_r | eassumption].
    + eapply cone_in_le; [apply rad_le_max_r | eassumption].
    + eapply agree_on_le; [apply rad_le_max_r | eassumption].
Qed.

(* ------------------------------------------------------------------ composition: data cones add *)

Theorem local_compose : forall A B C (Hf : side A) (Hg : side B) (f : op A B) (g : op B C) Df Mf Dg Mg,
  rad_wf Df -> rad_wf Mf -> rad_wf Dg -> rad_wf Mg -> local Hf f Df Mf -> local Hg g Dg Mg ->
  local (side_comp Hf f Hg Dg) (comp g f) (radd Dg Df) (rmax Mg (radd Dg Mf)).
Proof.
  intros A B C Hf Hg f g Df Mf Dg Mg WDf WMf WDg WMg Lf Lg F G r c r' c' HF HG Hag [Hs1 Hs2].
  unfold comp. apply Lg.
  - exact (cone_in_le _ F Mg _ r c (rad_le_max_l _ _) HF).
  - exact (cone_in_le _ G Mg _ r' c' (rad_le_max_l _ _) HG).
  - intros a b Hab. unfold lift. cbn [f_at].
    apply Lf.
    + apply (cone_in_add _ F Dg Mf r c a b WMf WDg); [|exact Hab].
      eapply cone_in_le; [apply rad_le_max_r | exact HF].
    + apply (cone_in_add _ G Dg Mf r' c' a b WMf WDg); [|exact Hab].
      eapply cone_in_le; [apply rad_le_max_r | exact HG].
    + intros a' b' Hab'.
      replace (r + a + a') with (r + (a + a')) by lia. replace (c + b + b') with (c + (b + b')) by lia.
      replace (r' + a + a') with (r' + (a + a')) by lia. replace (c' + b + b') with (c' + (b + b')) by lia.
      apply Hag. apply in_cone_add; assumption.
    + apply Hs1. assumption.
  - assumption.
Qed.

(* ------------------------------------------------------------------ pipelines *)

Lemma chain_wf : forall A (H : side A) steps D M, chain H steps D M -> rad_wf D /\ rad_wf M.
Proof.
  induction 1.
  - unfold rad_wf, rad0. cbn. lia.
  - destruct IHchain. split; [apply rad_wf_add; assumption | apply rad_wf_max; assumption].
Qed.

Theorem pipeline_local : forall A (H : side A) (steps : list (op A A)) D M,
  chain H steps D M -> local H (run_pipe steps) D M.
Proof.
  induction 1.
  - cbn [run_pipe]. apply (local_pointwise A A (fun x => x)).
  - cbn [run_pipe]. destruct (chain_wf _ _ _ _ _ H3). apply local_compose; assumption.
Qed.

(* ------------------------------------------------------------------ crops *)

(* processing a crop that contains the cone of a pixel gives what processing the whole raster gives
   at the corresponding pixel, wherever the crop starts and whatever its size *)
Theorem crop_invariance : forall A B (H : side A) (f : op A B) D M (F : frame A) r0 c0 h w r c,
  local H f D M -> crop_ok F r0 c0 h w -> cone_in (crop F r0 c0 h w) M r c -> H (crop F r0 c0 h w) r c ->
  f (crop F r0 c0 h w) r c = f F (r + r0) (c + c0).
Proof.
  intros A B H f D M F r0 c0 h w r c Hl Hok Hc HH.
  apply Hl; try assumption.
  - unfold cone_in, crop, crop_ok in *. cbn [f_nr f_nc] in *. lia.
  - intros a b _. unfold crop. cbn [f_at]. f_equal; lia.
Qed.

(* two crops of the same raster that both contain the cone of the same pixel *)
Corollary crop_crop_invariance : forall A B (H : side A) (f : op A B) D M (F : frame A) r0 c0 h w r0' c0' h' w' r c,
  local H f D M -> crop_ok F r0 c0 h w -> crop_ok F r0' c0' h' w' ->
  cone_in (crop F r0 c0 h w) M (r - r0) (c - c0) -> cone_in (crop F r0' c0' h' w') M (r - r0') (c - c0') ->
  H (crop F r0 c0 h w) (r - r0) (c - c0) -> H (crop F r0' c0' h' w') (r - r0') (c - c0') ->
  f (crop F r0 c0 h w) (r - r0) (c - c0) = f (crop F r0' c0' h' w') (r - r0') (c - c0').
Proof.
  intros. rewrite (crop_invariance A B H f D M F r0 c0 h w) by assumption.
  rewrite (crop_invariance A B H f D M F r0' c0' h' w') by assumption.
  f_equal; lia.
Qed.

(* ------------------------------------------------------------------ two data cones (states / input part) *)

Lemma rad_wf_max2 : forall a b, rad_wf a -> rad_wf b -> rad_wf (rmax a b).
Proof. unfold rad_wf, rmax. intros a b (?&?&?) (?&?&?). cbn. lia. Qed.

Lemma agree_via_le : forall A I (pi : A -> I) (F G : frame A) R R' r c r' c',
  rad_le R R' -> agree_via pi F G R' r c r' c' -> agree_via pi F G R r c r' c'.
Proof. unfold agree_via. intros. apply H0. eapply in_cone_le; eassumption. Qed.

Lemma agree_on_via : forall A I (pi : A -> I) (F G : frame A) R r c r' c',
  agree_on F G R r c r' c' -> agree_via pi F G R r c r' c'.
Proof. unfold agree_on, agree_via. intros. f_equal. apply H. assumption. Qed.

(* a step local in the plain sense needs no more of the input part than of the states *)
Lemma local_local2 : forall A I B (pi : A -> I) (H : side A) (f : op A B) D M,
  local H f D M -> local2 pi H f D rad0 M.
Proof. intros A I B pi H f D M Hl F G r c r' c' HF HG Hag _ HH. apply Hl; assumption. Qed.

(* ... and conversely one cone containing both is enough *)
Lemma local2_local : forall A I B (pi : A -> I) (H : side A) (f : op A B) DS DI M,
  local2 pi H f DS DI M -> local H f (rmax DS DI) M.
Proof.
  intros A I B pi H f DS DI M Hl F G r c r' c' HF HG Hag HH. apply Hl; try assumption.
  - eapply agree_on_le; [apply rad_le_max_l | eassumption].
  - apply agree_on_via. eapply agree_on_le; [apply rad_le_max_r | eassumption].
Qed.

Lemma local2_weaken : forall A I B (pi : A -> I) (H H' : side A) (f : op A B) DS DI M DS' DI' M',
  local2 pi H f DS DI M -> rad_le DS DS' -> rad_le DI DI' -> rad_le M M' -> (forall F r c, H' F r c -> H F r c) ->
  local2 pi H' f DS' DI' M'.
Proof.
  intros A I B pi H H' f DS DI M DS' DI' M' Hl H1 H2 H3 HH F G r c r' c' HF HG Hag Hvia HH'.
  apply Hl.
  - eapply cone_in_le; eassumption.
  - eapply cone_in_le; eassumption.
  - eapply agree_on_le; eassumption.
  - eapply agree_via_le; eassumption.
  - apply HH. assumption.
Qed.

Theorem local2_compose : forall A I C (pi : A -> I) (Hf Hg : side A) (f : op A A) (g : op A C) DSf DIf Mf DSg DIg Mg,
  rad_wf DSf -> rad_wf DIf -> rad_wf Mf -> rad_wf DSg -> rad_wf DIg -> rad_wf Mg -> keeps pi f ->
  local2 pi Hf f DSf DIf Mf -> local2 pi Hg g DSg DIg Mg ->
  local2 pi (side_comp Hf f Hg DSg) (comp g f) (radd DSg DSf) (rmax DIg (radd DSg DIf)) (rmax Mg (radd DSg Mf)).
Proof.
  intros A I C pi Hf Hg f g DSf DIf Mf DSg DIg Mg W1 W2 W3 W4 W5 W6 Kf Lf Lg F G r c r' c' HF HG Hag Hvia [Hs1 Hs2].
  unfold comp. apply Lg.
  - exact (cone_in_le _ F Mg _ r c (rad_le_max_l _ _) HF).
  - exact (cone_in_le _ G Mg _ r' c' (rad_le_max_l _ _) HG).
  - intros a b Hab. unfold lift. cbn [f_at].
    apply Lf.
    + apply (cone_in_add _ F DSg Mf r c a b W3 W4); [|exact Hab].
      eapply cone_in_le; [apply rad_le_max_r | exact HF].
    + apply (cone_in_add _ G DSg Mf r' c' a b W3 W4); [|exact Hab].
      eapply cone_in_le; [apply rad_le_max_r | exact HG].
    + intros a' b' Hab'.
      replace (r + a + a') with (r + (a + a')) by lia. replace (c + b + b') with (c + (b + b')) by lia.
      replace (r' + a + a') with (r' + (a + a')) by lia. replace (c' + b + b') with (c' + (b + b')) by lia.
      apply Hag. apply in_cone_add; assumption.
    + intros a' b' Hab'.
      replace (r + a + a') with (r + (a + a')) by lia. replace (c + b + b') with (c + (b + b')) by lia.
      replace (r' + a + a') with (r' + (a + a')) by lia. replace (c' + b + b') with (c' + (b + b')) by lia.
      apply Hvia. eapply in_cone_le; [apply rad_le_max_r|]. apply in_cone_add; assumption.
    + apply Hs1. assumption.
  - intros a b Hab. unfold lift. cbn [f_at]. rewrite !Kf. apply Hvia.
    eapply in_cone_le; [apply rad_le_max_l | exact Hab].
  - assumption.
Qed.

Lemma chain2_wf : forall A I (pi : A -> I) (H : side A) steps DS DI M,
  chain2 pi H steps DS DI M -> rad_wf DS /\ rad_wf DI /\ rad_wf M.
Proof.
  induction 1.
  - unfold rad_wf, rad0. cbn. lia.
  - destruct IHchain2 as (? & ? & ?). split; [|split].
    + apply rad_wf_add; assumption.
    + apply rad_wf_max; assumption.
    + apply rad_wf_max; assumption.
Qed.

Theorem pipeline_local2 : forall A I (pi : A -> I) (H : side A) (steps : list (op A A)) DS DI M,
  chain2 pi H steps DS DI M -> local2 pi H (run_pipe steps) DS DI M.
Proof.
  induction 1.
  - cbn [run_pipe]. apply local_local2. apply (local_pointwise A A (fun x => x)).
  - cbn [run_pipe]. destruct (chain2_wf _ _ _ _ _ _ _ _ H5) as (? & ? & ?). apply local2_compose; assumption.
Qed.
