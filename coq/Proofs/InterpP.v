(* Proofs for C14: the model of the four interpolation kernels (Model/Interp.v, the tree
   under test: fx = true) meets Spec/Interp.v pixel by pixel, for every map size, and the
   clauses of the property sentence follow from the Spec. *)
From Coq Require Import ZArith QArith Qabs List Bool Lia Lqa ZifyBool Sorted Permutation.
From Pandora Require Import Model.CrossCheck Spec.CrossCheck Proofs.CrossCheckP Model.Interp Spec.Interp.
Import ListNotations.
Open Scope Z_scope.

(* ------------------------------------------------------------------ lists, freeze *)

Lemma nth_map_seq : forall {A} (g : nat -> A) n k d, (k < n)%nat -> nth k (map g (seq 0 n)) d = g k.
Proof.
  intros A g n k d H. rewrite (nth_indep _ d (g 0%nat)) by (rewrite map_length, seq_length; exact H).
  rewrite map_nth, seq_nth by exact H. reflexivity.
Qed.

Lemma nth_map_zrange0 : forall {A} (g : Z -> A) a n i d, 0 <= i < n ->
  nth (Z.to_nat i) (map g (zrange a n)) d = g (a + i).
Proof.
  intros A g a n i d H. unfold zrange. rewrite map_map.
  rewrite nth_map_seq by lia. f_equal. lia.
Qed.

Lemma length_map_zrange : forall {A} (g : Z -> A) a n, 0 <= n -> Z.of_nat (length (map g (zrange a n))) = n.
Proof. intros. unfold zrange. rewrite !map_length, seq_length. lia. Qed.

Lemma freeze_in : forall {A} (d : A) n0 n1 f i j, 0 <= i < n0 -> 0 <= j < n1 ->
  freeze d n0 n1 f i j = f i j.
Proof.
  intros A d n0 n1 f i j Hi Hj. unfold freeze.
  replace ((i <? 0) || (j <? 0)) with false by lia.
  rewrite (nth_map_zrange0 (fun i => map (fun j => f i j) (zrange 0 n1))) by lia.
  rewrite (nth_map_zrange0 (fun j => f (0 + i) j)) by lia. f_equal; lia.
Qed.

(* np.argmax of a boolean vector *)
Lemma first_true_spec : forall l s,
  match first_true l s with
  | Some i => s <= i < s + Z.of_nat (length l) /\ nthb l (i - s) = true /\
              forall t, s <= t < i -> nthb l (t - s) = false
  | None => forall t, 0 <= t < Z.of_nat (length l) -> nthb l t = false
  end.
Proof.
  induction l as [|b l IH]; intros s; cbn [first_true length].
  - intros t Ht. lia.
  - destruct b.
    + split. lia. split. unfold nthb. replace (s - s) with 0 by lia. reflexivity. intros; lia.
    + specialize (IH (s + 1)). destruct (first_true l (s + 1)) as [i|].
      * destruct IH as (H1 & H2 & H3). split. lia. split.
        { unfold nthb in *. replace (Z.to_nat (i - s)) with (S (Z.to_nat (i - (s + 1)))) by lia. exact H2. }
        intros t Ht. destruct (Z.eq_dec t s) as [->|].
        { unfold nthb. replace (s - s) with 0 by lia. reflexivity. }
        unfold nthb in *. replace (Z.to_nat (t - s)) with (S (Z.to_nat (t - (s + 1)))) by lia.
        apply H3. lia.
      * intros t Ht. destruct (Z.eq_dec t 0) as [->|]. reflexivity.
        unfold nthb in *. replace (Z.to_nat t) with (S (Z.to_nat (t - 1))) by lia. apply IH. lia.
Qed.

Lemma nthb_map_zrange : forall (g : Z -> bool) a n t, 0 <= t < n -> nthb (map g (zrange a n)) t = g (a + t).
Proof. intros. unfold nthb. apply nth_map_zrange0. assumption. Qed.

Lemma nthb_rev_map_zrange : forall (g : Z -> bool) n t, 0 <= t < n ->
  nthb (rev (map g (zrange 0 n))) t = g (n - 1 - t).
Proof.
  intros g n t H. unfold nthb.
  assert (L : length (map g (zrange 0 n)) = Z.to_nat n) by (unfold zrange; rewrite !map_length, seq_length; reflexivity).
  rewrite rev_nth by lia. rewrite L.
  replace (Z.to_nat n - S (Z.to_nat t))%nat with (Z.to_nat (n - 1 - t)) by lia.
  rewrite nth_map_zrange0 by lia. f_equal.
Qed.

(* argmax over a vector (g (a)), ..., (g (a+n-1)): the first true index, or none *)
Lemma argmax_cases : forall l,
  (nthb l (argmax_b l) = true /\ forall t, 0 <= t < argmax_b l -> nthb l t = false) \/
  (argmax_b l = 0 /\ forall t, 0 <= t < Z.of_nat (length l) -> nthb l t = false).
Proof.
  intro l. unfold argmax_b. pose proof (first_true_spec l 0) as H.
  destruct (first_true l 0) as [i|].
  - left. destruct H as (H1 & H2 & H3). rewrite Z.sub_0_r in H2. split. exact H2.
    intros t Ht. specialize (H3 t Ht). rewrite Z.sub_0_r in H3. exact H3.
  - right. split. reflexivity. exact H.
Qed.

Lemma argmax_range : forall l, 0 <= argmax_b l /\ (l <> [] -> argmax_b l < Z.of_nat (length l)).
Proof.
  intro l. unfold argmax_b. pose proof (first_true_spec l 0) as H.
  destruct (first_true l 0) as [i|].
  - destruct H as (H1 & _). lia.
  - split. lia. intro Hn. destruct l. congruence. cbn [length]. lia.
Qed.

(* ------------------------------------------------------------------ bits *)

Lemma has_testbit : forall v k, 0 <= k -> has v (2 ^ k) = Z.testbit v k.
Proof.
  intros v k Hk. unfold has.
  assert (E : Z.land v (2 ^ k) = if Z.testbit v k then 2 ^ k else 0).
  { apply Z.bits_inj'. intros n Hn. rewrite Z.land_spec, Z.pow2_bits_eqb by exact Hk.
    destruct (Z.eqb_spec k n) as [->|Hne].
    - destruct (Z.testbit v n) eqn:E. rewrite Z.pow2_bits_true by exact Hn. reflexivity.
      rewrite Z.testbit_0_l. reflexivity.
    - rewrite andb_false_r. destruct (Z.testbit v k).
      rewrite Z.pow2_bits_false by (exact Hne). reflexivity. rewrite Z.testbit_0_l. reflexivity. }
  rewrite E. destruct (Z.testbit v k). 2: reflexivity.
  assert (0 < 2 ^ k) by (apply Z.pow_pos_nonneg; lia).
  destruct (Z.eqb_spec (2 ^ k) 0); [lia | reflexivity].
Qed.

Lemma has_occ : forall v, has v MSK_OCCLUSION = Z.testbit v 8.
Proof. intro v. change MSK_OCCLUSION with (2 ^ 8). apply has_testbit. lia. Qed.
Lemma has_mis : forall v, has v MSK_MISMATCH = Z.testbit v 9.
Proof. intro v. change MSK_MISMATCH with (2 ^ 9). apply has_testbit. lia. Qed.

Lemma okpix_spec : forall v, okpix v = spec_valid v.
Proof. intro v. exact (is_valid_spec v). Qed.

(* v -= 2^a ; v |= 2^b   when bit a is set: bit a cleared, bit b set, nothing else moves *)
Lemma sub_lor_swapped : forall a b v, 0 <= a -> 0 <= b -> a <> b -> Z.testbit v a = true ->
  swapped a b v (Z.lor (v - 2 ^ a) (2 ^ b)).
Proof.
  intros a b v Ha Hb Hab Hv.
  assert (E : v - 2 ^ a = Z.ldiff v (2 ^ a)).
  { apply Z.sub_nocarry_ldiff. apply Z.bits_inj'. intros n Hn.
    rewrite Z.ldiff_spec, Z.pow2_bits_eqb, Z.testbit_0_l by exact Ha.
    destruct (Z.eqb_spec a n) as [->|]. rewrite Hv. reflexivity. reflexivity. }
  rewrite E. intros n Hn. rewrite Z.lor_spec, Z.ldiff_spec, !Z.pow2_bits_eqb by assumption.
  destruct (Z.eqb_spec n a) as [->|Hna].
  - rewrite Z.eqb_refl. cbn. destruct (Z.eqb_spec b a); [congruence | rewrite andb_false_r; reflexivity].
  - destruct (Z.eqb_spec a n); [congruence|]. cbn [negb]. rewrite andb_true_r.
    destruct (Z.eqb_spec n b) as [->|Hnb].
    + rewrite Z.eqb_refl. apply orb_true_r.
    + destruct (Z.eqb_spec b n); [congruence|]. apply orb_false_r.
Qed.

(* v -= 2^a ; v += 2^b   when bit a is set and bit b clear: the same swap, no carry *)
Lemma sub_add_swapped : forall a b v, 0 <= a -> 0 <= b -> a <> b ->
  Z.testbit v a = true -> Z.testbit v b = false ->
  swapped a b v (v - 2 ^ a + 2 ^ b).
Proof.
  intros a b v Ha Hb Hab Hva Hvb.
  assert (E : v - 2 ^ a + 2 ^ b = Z.lor (v - 2 ^ a) (2 ^ b)).
  { pose proof (sub_lor_swapped a b v Ha Hb Hab Hva) as S.
    assert (N : Z.land (v - 2 ^ a) (2 ^ b) = 0).
    { apply Z.bits_inj'. intros n Hn. rewrite Z.land_spec, Z.testbit_0_l, Z.pow2_bits_eqb by exact Hb.
      destruct (Z.eqb_spec b n) as [<-|]. 2: apply andb_false_r.
      rewrite andb_true_r.
      assert (E : v - 2 ^ a = Z.ldiff v (2 ^ a)).
      { apply Z.sub_nocarry_ldiff. apply Z.bits_inj'. intros n Hn'.
        rewrite Z.ldiff_spec, Z.pow2_bits_eqb, Z.testbit_0_l by exact Ha.
        destruct (Z.eqb_spec a n) as [->|]. rewrite Hva. reflexivity. reflexivity. }
      rewrite E, Z.ldiff_spec, Hvb. reflexivity. }
    rewrite Z.add_nocarry_lxor by exact N. apply Z.lxor_lor. exact N. }
  rewrite E. apply sub_lor_swapped; assumption.
Qed.

Lemma swapped_unique : forall a b m m1 m2, swapped a b m m1 -> swapped a b m m2 -> m1 = m2.
Proof.
  intros a b m m1 m2 H1 H2. apply Z.bits_inj'. intros n Hn. rewrite H1, H2 by exact Hn. reflexivity.
Qed.

Lemma swapped_bit : forall a b m m' n, swapped a b m m' -> 0 <= n -> n <> a -> n <> b ->
  Z.testbit m' n = Z.testbit m n.
Proof.
  intros a b m m' n H Hn Ha Hb. rewrite H by exact Hn.
  destruct (Z.eqb_spec n a); [congruence|]. destruct (Z.eqb_spec n b); [congruence|]. reflexivity.
Qed.
Lemma swapped_from : forall a b m m', swapped a b m m' -> 0 <= a -> Z.testbit m' a = false.
Proof. intros a b m m' H Ha. rewrite H by exact Ha. rewrite Z.eqb_refl. reflexivity. Qed.
Lemma swapped_to : forall a b m m', swapped a b m m' -> 0 <= b -> a <> b -> Z.testbit m' b = true.
Proof.
  intros a b m m' H Hb Hab. rewrite H by exact Hb. destruct (Z.eqb_spec b a); [congruence|].
  rewrite Z.eqb_refl. reflexivity.
Qed.

Lemma swap_occ : forall v, Z.testbit v 8 = true ->
  swapped 8 4 v (raise true (v - MSK_OCCLUSION * b2z true) (MSK_FILLED_OCCLUSION * b2z true)).
Proof.
  intros v H. unfold raise, b2z. rewrite !Z.mul_1_r.
  change MSK_OCCLUSION with (2 ^ 8). change MSK_FILLED_OCCLUSION with (2 ^ 4).
  apply sub_lor_swapped; (lia || exact H).
Qed.
Lemma swap_occ' : forall v, Z.testbit v 8 = true ->
  swapped 8 4 v (raise true (v - MSK_OCCLUSION) MSK_FILLED_OCCLUSION).
Proof.
  intros v H. unfold raise. change MSK_OCCLUSION with (2 ^ 8). change MSK_FILLED_OCCLUSION with (2 ^ 4).
  apply sub_lor_swapped; (lia || exact H).
Qed.
Lemma swap_mis : forall v, Z.testbit v 9 = true ->
  swapped 9 5 v (raise true (v - MSK_MISMATCH) MSK_FILLED_MISMATCH).
Proof.
  intros v H. unfold raise. change MSK_MISMATCH with (2 ^ 9). change MSK_FILLED_MISMATCH with (2 ^ 5).
  apply sub_lor_swapped; (lia || exact H).
Qed.
Lemma swap_mis_occ : forall v, Z.testbit v 9 = true -> Z.testbit v 8 = false ->
  swapped 9 8 v (v - MSK_MISMATCH + MSK_OCCLUSION).
Proof.
  intros v H9 H8. change MSK_MISMATCH with (2 ^ 9). change MSK_OCCLUSION with (2 ^ 8).
  apply sub_add_swapped; (lia || assumption).
Qed.
Lemma raise_none : forall v, raise true (v - MSK_OCCLUSION * b2z false) (MSK_FILLED_OCCLUSION * b2z false) = v.
Proof. intro v. unfold raise, b2z. rewrite !Z.mul_0_r, Z.sub_0_r, Z.lor_0_r. reflexivity. Qed.

Lemma flagged_invalid8 : forall v, Z.testbit v 8 = true -> spec_valid v = false.
Proof.
  intros v H. destruct (spec_valid v) eqn:E; [|reflexivity].
  apply spec_valid_bits in E. destruct E as (_ & E & _). congruence.
Qed.
Lemma flagged_invalid9 : forall v, Z.testbit v 9 = true -> spec_valid v = false.
Proof.
  intros v H. destruct (spec_valid v) eqn:E; [|reflexivity].
  apply spec_valid_bits in E. destruct E as (_ & _ & E & _). congruence.
Qed.

(* ------------------------------------------------------------------ the four kernels, one pixel *)
Section Px.
  Variables nr nc : Z.
  Variable disp : Z -> Z -> option Q.
  Variable mask : Z -> Z -> Z.

  Local Notation inside := (inside nr nc).
  Local Notation valid_at := (valid_at mask).

  (* ---- mc-cnn occlusion *)
  Lemma occ_mc_meets : forall r c, 0 <= r < nr -> 0 <= c < nc ->
    mc_occlusion_px nr nc disp mask r c (fst (occ_mc_pixel true nc disp mask r c))
                    (snd (occ_mc_pixel true nc disp mask r c)).
  Proof.
    intros r c Hr Hc. unfold occ_mc_pixel, mc_occlusion_px. rewrite has_occ.
    destruct (Z.testbit (mask r c) 8) eqn:E8.
    2:{ left. split. reflexivity. split; reflexivity. }
    right. split. reflexivity.
    pose proof (flagged_invalid8 _ E8) as Hself.
    set (msk := rev (map (fun j => okpix (mask r j)) (zrange 0 (c + 1)))).
    assert (Lm : Z.of_nat (length msk) = c + 1).
    { unfold msk. rewrite rev_length. apply length_map_zrange. lia. }
    assert (Nm : forall t, 0 <= t <= c -> nthb msk t = spec_valid (mask r (c - t))).
    { intros t Ht. unfold msk. rewrite nthb_rev_map_zrange by lia. rewrite okpix_spec. f_equal. f_equal. lia. }
    destruct (argmax_cases msk) as [[Ht Hbefore] | [H0 Hnone]].
    - (* a valid pixel to the left *)
      pose proof (argmax_range msk) as [Ra Rb].
      assert (msk <> []) as Hne by (intro X; rewrite X in Lm; cbn in Lm; lia).
      specialize (Rb Hne). rewrite Lm in Rb.
      assert (Hk : argmax_b msk <> 0).
      { intro X. rewrite X in Ht. rewrite Nm in Ht by lia. rewrite Z.sub_0_r in Ht. congruence. }
      destruct (Z.eqb_spec (argmax_b msk) 0) as [X|_]; [contradiction|].
      rewrite Ht. cbn [fst snd]. left. exists (argmax_b msk). split; [|split].
      + split. lia. split; [|split].
        * intros j Hj. unfold leftwards, Spec.Interp.inside. cbn [fst snd]. lia.
        * unfold Spec.Interp.valid_at, leftwards. cbn [fst snd]. rewrite <- Nm by lia. exact Ht.
        * intros j Hj. unfold Spec.Interp.valid_at, leftwards. cbn [fst snd].
          rewrite <- Nm by lia. rewrite Hbefore by lia. discriminate.
      + reflexivity.
      + apply swap_occ. exact E8.
    - (* none to the left *)
      rewrite H0. cbn [Z.eqb].
      assert (NL : no_valid nr nc mask (leftwards r c)).
      { intros k Hk Hin. specialize (Hin k ltac:(lia)). unfold leftwards, Spec.Interp.inside in Hin.
        cbn [fst snd] in Hin. unfold Spec.Interp.valid_at, leftwards. cbn [fst snd].
        rewrite <- Nm by lia. rewrite Hnone by lia. discriminate. }
      set (msk2 := map (fun j => okpix (mask r j)) (zrange c (nc - c))).
      assert (Lm2 : Z.of_nat (length msk2) = nc - c) by (apply length_map_zrange; lia).
      assert (Nm2 : forall t, 0 <= t < nc - c -> nthb msk2 t = spec_valid (mask r (c + t))).
      { intros t Ht. unfold msk2. rewrite nthb_map_zrange by lia. apply okpix_spec. }
      destruct (argmax_cases msk2) as [[Ht Hbefore] | [H02 Hnone2]].
      + pose proof (argmax_range msk2) as [Ra Rb].
        assert (msk2 <> []) as Hne by (intro X; rewrite X in Lm2; cbn in Lm2; lia).
        specialize (Rb Hne). rewrite Lm2 in Rb.
        assert (Hk : argmax_b msk2 <> 0).
        { intro X. rewrite X in Ht. rewrite Nm2 in Ht by lia. rewrite Z.add_0_r in Ht. congruence. }
        rewrite Ht. cbn [fst snd]. right. left. split. exact NL.
        exists (argmax_b msk2). split; [|split].
        * split. lia. split; [|split].
          -- intros j Hj. unfold rightwards, Spec.Interp.inside. cbn [fst snd]. lia.
          -- unfold Spec.Interp.valid_at, rightwards. cbn [fst snd]. rewrite <- Nm2 by lia. exact Ht.
          -- intros j Hj. unfold Spec.Interp.valid_at, rightwards. cbn [fst snd].
             rewrite <- Nm2 by lia. rewrite Hbefore by lia. discriminate.
        * reflexivity.
        * apply swap_occ. exact E8.
      + rewrite H02. rewrite (Hnone2 0) by lia. cbn [fst snd]. right. right.
        split. exact NL. split.
        * intros k Hk Hin. specialize (Hin k ltac:(lia)). unfold rightwards, Spec.Interp.inside in Hin.
          cbn [fst snd] in Hin. unfold Spec.Interp.valid_at, rightwards. cbn [fst snd].
          rewrite <- Nm2 by lia. rewrite Hnone2 by lia. discriminate.
        * split. rewrite Z.add_0_r. reflexivity. apply raise_none.
  Qed.

  (* ---- path searches (mc-cnn half-step paths, find_valid_neighbors) *)
  Fixpoint search (P : Z -> Z * Z) (i : Z) (fuel : nat) : pres :=
    match fuel with
    | O => PUnset
    | S f => if edge nr nc (fst (P i)) (snd (P i)) then PNan
             else if okpix (mask (fst (P i)) (snd (P i))) then PVal (disp (fst (P i)) (snd (P i)))
             else search P (i + 1) f
    end.

  Lemma mc_path_search : forall h0 h1 r c fuel i,
    mc_path nr nc disp mask h0 h1 r c i fuel = search (halfstep (h1, h0) r c) i fuel.
  Proof. induction fuel as [|f IH]; intro i; cbn [mc_path search]. reflexivity. rewrite IH. reflexivity. Qed.

  Lemma fvn_path_search : forall d0 d1 r c fuel s,
    fvn_path nr nc disp mask d0 d1 (c + d0 * s) (r + d1 * s) fuel = search (straight (d1, d0) r c) (s + 1) fuel.
  Proof.
    induction fuel as [|f IH]; intro s; cbn [fvn_path search]. reflexivity.
    unfold straight at 1 2 3 4 5 6. cbn [fst snd].
    replace (r + d1 * s + d1) with (r + d1 * (s + 1)) by lia.
    replace (c + d0 * s + d0) with (c + d0 * (s + 1)) by lia.
    rewrite IH. reflexivity.
  Qed.

  Lemma edge_inside : forall p, edge nr nc (fst p) (snd p) = false <-> inside p.
  Proof. intros [a b]. unfold edge, Spec.Interp.inside. cbn [fst snd]. lia. Qed.

  Lemma search_spec : forall P fuel i,
    match search P i fuel with
    | PVal o => exists k, i <= k < i + Z.of_nat fuel /\ (forall t, i <= t <= k -> inside (P t)) /\
                  valid_at (P k) /\ (forall t, i <= t < k -> ~ valid_at (P t)) /\ o = disp_at disp (P k)
    | PNan => exists k, i <= k < i + Z.of_nat fuel /\ ~ inside (P k) /\
                  forall t, i <= t < k -> inside (P t) /\ ~ valid_at (P t)
    | PUnset => forall t, i <= t < i + Z.of_nat fuel -> inside (P t) /\ ~ valid_at (P t)
    end.
  Proof.
    intros P. induction fuel as [|f IH]; intro i; cbn [search].
    - intros t Ht. lia.
    - destruct (edge nr nc (fst (P i)) (snd (P i))) eqn:Ee.
      + exists i. split. lia. split. intro X. apply edge_inside in X. congruence. intros t Ht. lia.
      + apply edge_inside in Ee. rewrite okpix_spec.
        destruct (spec_valid (mask (fst (P i)) (snd (P i)))) eqn:Ev.
        * exists i. split. lia. split. intros t Ht. replace t with i by lia. exact Ee.
          split. exact Ev. split. intros t Ht. lia. reflexivity.
        * assert (Hi : ~ valid_at (P i)) by (unfold Spec.Interp.valid_at; rewrite Ev; discriminate).
          specialize (IH (i + 1)). destruct (search P (i + 1) f) as [| |o].
          -- intros t Ht. destruct (Z.eq_dec t i) as [->|]. split; assumption. apply IH. lia.
          -- destruct IH as (k & Hk & Hout & Hbefore). exists k. split. lia. split. exact Hout.
             intros t Ht. destruct (Z.eq_dec t i) as [->|]. split; assumption. apply Hbefore. lia.
          -- destruct IH as (k & Hk & Hin & Hv & Hbefore & Ho). exists k. split. lia. split.
             intros t Ht. destruct (Z.eq_dec t i) as [->|]. exact Ee. apply Hin. lia.
             split. exact Hv. split.
             intros t Ht. destruct (Z.eq_dec t i) as [->|]. exact Hi. apply Hbefore. lia. exact Ho.
  Qed.

  (* a path searched from step 1 for [fuel] steps, when it is outside the map at every later step *)
  Lemma search_contributes : forall P fuel (o : option Q),
    (forall k, Z.of_nat fuel < k -> ~ inside (P k)) ->
    match search P 1 fuel with PVal v => o = v | PNan => o = None | PUnset => o = None end ->
    contributes nr nc disp mask P o.
  Proof.
    intros P fuel o Hexit Ho. pose proof (search_spec P fuel 1) as H.
    destruct (search P 1 fuel) as [| |v].
    - right. split; [|exact Ho]. intros k Hk Hin.
      destruct (Z_lt_le_dec (Z.of_nat fuel) k) as [Hl|Hl].
      + exfalso. apply (Hexit k Hl). apply Hin. lia.
      + apply H. lia.
    - right. split; [|exact Ho]. destruct H as (k0 & Hk0 & Hout & Hbefore). intros k Hk Hin.
      destruct (Z_lt_le_dec k k0) as [Hl|Hl].
      + apply Hbefore. lia.
      + exfalso. apply Hout. apply Hin. lia.
    - left. destruct H as (k & Hk & Hin & Hv & Hbefore & Hd). exists k. split.
      + split. lia. split. exact Hin. split. exact Hv. exact Hbefore.
      + rewrite Ho. exact Hd.
  Qed.

  Lemma search_set : forall P fuel, (0 < fuel)%nat ->
    (forall k, Z.of_nat fuel <= k -> ~ inside (P k)) -> search P 1 fuel <> PUnset.
  Proof.
    intros P fuel Hf Hexit X. pose proof (search_spec P fuel 1) as H. rewrite X in H.
    apply (Hexit (Z.of_nat fuel)). lia. apply H. lia.
  Qed.

  (* ---- the neighbours seen by the mc-cnn mismatch kernel and by find_valid_neighbors *)
  Lemma halfstep_exit : forall h0 h1 r c k, 0 <= r < nr -> 0 <= c < nc ->
    Z.abs h0 = 2 \/ Z.abs h1 = 2 -> Z.max nc nr <= k -> ~ inside (halfstep (h1, h0) r c k).
  Proof.
    intros h0 h1 r c k Hr Hc Hh Hk. unfold halfstep, Spec.Interp.inside. cbn [fst snd].
    assert (Q2 : forall x, Z.quot (2 * x) 2 = x) by (intro x; rewrite Z.mul_comm; apply Z.quot_mul; lia).
    assert (Qm2 : forall x, Z.quot (-2 * x) 2 = - x)
      by (intro x; replace (-2 * x) with ((- x) * 2) by lia; apply Z.quot_mul; lia).
    destruct Hh as [Hh|Hh].
    - assert (E : h0 = 2 \/ h0 = -2) by lia. destruct E as [-> | ->]; rewrite ?Q2, ?Qm2; lia.
    - assert (E : h1 = 2 \/ h1 = -2) by lia. destruct E as [-> | ->]; rewrite ?Q2, ?Qm2; lia.
  Qed.

  Lemma mc_neighbor_contributes : forall h0 h1 r c, 0 <= r < nr -> 0 <= c < nc ->
    Z.abs h0 = 2 \/ Z.abs h1 = 2 ->
    contributes nr nc disp mask (halfstep (h1, h0) r c)
      (cell true (mc_path nr nc disp mask h0 h1 r c 1 (Z.to_nat (max_path_length nr nc - 1)))).
  Proof.
    intros h0 h1 r c Hr Hc Hh. rewrite mc_path_search.
    apply (search_contributes _ (Z.to_nat (max_path_length nr nc - 1))).
    - intros k Hk. apply halfstep_exit; try assumption. unfold max_path_length in Hk. lia.
    - destruct (search _ 1 _); reflexivity.
  Qed.

  Lemma straight_exit : forall d0 d1 r c k, 0 <= r < nr -> 0 <= c < nc ->
    Z.abs d0 = 1 \/ Z.abs d1 = 1 -> Z.max nc nr <= k -> ~ inside (straight (d1, d0) r c k).
  Proof.
    intros d0 d1 r c k Hr Hc Hd Hk. unfold straight, Spec.Interp.inside. cbn [fst snd].
    destruct Hd as [Hd|Hd].
    - assert (E : d0 = 1 \/ d0 = -1) by lia. destruct E as [-> | ->]; lia.
    - assert (E : d1 = 1 \/ d1 = -1) by lia. destruct E as [-> | ->]; lia.
  Qed.

  Lemma fvn_contributes : forall d0 d1 r c, 0 <= r < nr -> 0 <= c < nc ->
    Z.abs d0 = 1 \/ Z.abs d1 = 1 ->
    contributes nr nc disp mask (straight (d1, d0) r c)
      (cell0 (fvn_path nr nc disp mask d0 d1 c r (Z.to_nat (max_path_length nr nc)))).
  Proof.
    intros d0 d1 r c Hr Hc Hd.
    pose proof (fvn_path_search d0 d1 r c (Z.to_nat (max_path_length nr nc)) 0) as E.
    rewrite !Z.mul_0_r, !Z.add_0_r in E. cbn [Z.add] in E. rewrite E.
    assert (HM : 0 < max_path_length nr nc) by (unfold max_path_length; lia).
    apply (search_contributes _ (Z.to_nat (max_path_length nr nc))).
    - intros k Hk. apply straight_exit; try assumption. unfold max_path_length in *. lia.
    - pose proof (search_set (straight (d1, d0) r c) (Z.to_nat (max_path_length nr nc))) as NS.
      destruct (search _ 1 _); try reflexivity. exfalso. apply NS; try reflexivity. lia.
      intros k Hk. apply straight_exit; try assumption. unfold max_path_length in *. lia.
  Qed.
End Px.

(* ------------------------------------------------------------------ insertion sort *)
Section SortP.
  Context {A : Type}.
  Variable lt : A -> A -> bool.
  Variable le : A -> A -> Prop.
  Hypothesis le_trans : forall a b c, le a b -> le b c -> le a c.
  Hypothesis lt_le : forall a b, lt a b = true -> le a b.
  Hypothesis nlt_le : forall a b, lt a b = false -> le b a.

  Lemma insert_perm : forall x l, Permutation (x :: l) (insert lt x l).
  Proof.
    intros x l. induction l as [|h t IH]; cbn [insert]. reflexivity.
    destruct (lt x h). reflexivity.
    rewrite perm_swap. apply perm_skip. exact IH.
  Qed.

  Lemma insert_sorted : forall x l, StronglySorted le l -> StronglySorted le (insert lt x l).
  Proof.
    intros x l H. induction H as [|h t Hs IH Hf]; cbn [insert].
    - constructor. constructor. constructor.
    - destruct (lt x h) eqn:E.
      + constructor. constructor; assumption. constructor. apply lt_le. exact E.
        eapply Forall_impl; [|exact Hf]. intros a Ha. eapply le_trans. apply lt_le. exact E. exact Ha.
      + constructor. exact IH.
        eapply Permutation_Forall. apply insert_perm. constructor. apply nlt_le. exact E. exact Hf.
  Qed.

  Lemma fold_insert_perm : forall l acc,
    Permutation (l ++ acc) (fold_left (fun acc x => insert lt x acc) l acc).
  Proof.
    induction l as [|x l IH]; intro acc; cbn [fold_left app]. reflexivity.
    rewrite <- IH. rewrite <- insert_perm. apply Permutation_middle.
  Qed.
  Lemma fold_insert_sorted : forall l acc, StronglySorted le acc ->
    StronglySorted le (fold_left (fun acc x => insert lt x acc) l acc).
  Proof.
    induction l as [|x l IH]; intros acc H; cbn [fold_left]. exact H. apply IH. apply insert_sorted. exact H.
  Qed.

  Lemma isort_perm : forall l, Permutation l (isort lt l).
  Proof. intro l. unfold isort. rewrite <- fold_insert_perm. rewrite app_nil_r. reflexivity. Qed.
  Lemma isort_sorted : forall l, StronglySorted le (isort lt l).
  Proof. intro l. unfold isort. apply fold_insert_sorted. constructor. Qed.
End SortP.

(* ------------------------------------------------------------------ nanmedian *)
Lemma Qlt_bool_le : forall a b, Qlt_bool a b = true -> (a <= b)%Q.
Proof.
  intros a b H. unfold Qlt_bool in H. apply negb_true_iff in H.
  apply Qlt_le_weak. apply Qnot_le_lt. intro X. apply Qle_bool_iff in X. congruence.
Qed.
Lemma Qnlt_bool_le : forall a b, Qlt_bool a b = false -> (b <= a)%Q.
Proof. intros a b H. unfold Qlt_bool in H. apply negb_false_iff in H. apply Qle_bool_iff. exact H. Qed.

Lemma somes_finite : forall l, somes l = finite l.
Proof. reflexivity. Qed.

Lemma all_nan_finite : forall l, all_nan l = true <-> finite l = [].
Proof.
  induction l as [|[q|] l IH]; cbn [all_nan forallb finite flat_map app].
  - tauto.
  - split; discriminate.
  - exact IH.
Qed.

Lemma nanmedian_is_median : forall l, finite l <> [] ->
  exists m, nanmedian l = Some m /\ is_median (finite l) m.
Proof.
  intros l Hne. unfold nanmedian. rewrite somes_finite.
  set (s := isort Qlt_bool (finite l)).
  assert (P : Permutation (finite l) s) by apply isort_perm.
  assert (S : StronglySorted Qle s)
    by (apply (isort_sorted Qlt_bool Qle Qle_trans Qlt_bool_le Qnlt_bool_le)).
  assert (L : (0 < length s)%nat).
  { rewrite <- (Permutation_length P). destruct (finite l). congruence. cbn. lia. }
  destruct (length s) as [|n] eqn:En. lia. rewrite <- En.
  destruct (Nat.even (length s)) eqn:Ev.
  - eexists. split. reflexivity. exists s. split. exact P. split. exact S. split. lia.
    rewrite Ev. apply Qred_correct.
  - eexists. split. reflexivity. exists s. split. exact P. split. exact S. split. lia.
    rewrite Ev. reflexivity.
Qed.

(* the median lies between any bounds of the list *)
Lemma median_bounds : forall l m lo hi, is_median l m ->
  (forall x, In x l -> lo <= x <= hi)%Q -> (lo <= m <= hi)%Q.
Proof.
  intros l m lo hi (s & P & _ & L & E) Hb.
  assert (Hs : forall k, (k < length s)%nat -> (lo <= nth k s 0 <= hi)%Q).
  { intros k Hk. apply Hb. eapply Permutation_in. symmetry. exact P. apply nth_In. exact Hk. }
  pose proof (Nat.lt_div2 (length s) L) as H2.
  destruct (Nat.even (length s)) eqn:Ev.
  - assert (H1 : (Nat.pred (Nat.div2 (length s)) < length s)%nat) by lia.
    destruct (Hs _ H1) as [A1 A2]. destruct (Hs _ H2) as [B1 B2]. rewrite E. split; lra.
  - rewrite E. apply Hs. exact H2.
Qed.

(* ------------------------------------------------------------------ second lowest |d| *)
Definition le_opt (a b : option Q) : Prop :=
  match a, b with
  | Some x, Some y => (Qabs x <= Qabs y)%Q
  | _, None => True
  | None, Some _ => False
  end.
Definition le_abs (a b : Q) : Prop := (Qabs a <= Qabs b)%Q.

Lemma le_opt_trans : forall a b c, le_opt a b -> le_opt b c -> le_opt a c.
Proof.
  intros [x|] [y|] [z|]; cbn; try tauto. apply Qle_trans.
Qed.
Lemma lt_abs_le_opt : forall a b, lt_abs_nanlast a b = true -> le_opt a b.
Proof. intros [x|] [y|]; cbn; try discriminate; try tauto. apply Qlt_bool_le. Qed.
Lemma nlt_abs_le_opt : forall a b, lt_abs_nanlast a b = false -> le_opt b a.
Proof. intros [x|] [y|]; cbn; try discriminate; try tauto. apply Qnlt_bool_le. Qed.

Lemma le_opt_none_finite : forall t, Forall (le_opt None) t -> finite t = [].
Proof.
  induction t as [|[y|] t IH]; intro H; inversion H; subst; cbn [finite flat_map app].
  reflexivity. contradiction. apply IH. assumption.
Qed.
Lemma le_opt_some_finite : forall x t, Forall (le_opt (Some x)) t -> Forall (le_abs x) (finite t).
Proof.
  induction t as [|[y|] t IH]; intro H; inversion H; subst; cbn [finite flat_map app].
  constructor. constructor. assumption. apply IH. assumption. apply IH. assumption.
Qed.
Lemma sorted_opt_finite : forall s, StronglySorted le_opt s -> StronglySorted le_abs (finite s).
Proof.
  intros s H. induction H as [|[x|] t Hs IH Hf]; cbn [finite flat_map app].
  constructor. constructor. exact IH. apply le_opt_some_finite. exact Hf. exact IH.
Qed.

Lemma second_some : forall s x, StronglySorted le_opt s -> nth 1 s None = Some x ->
  nth_error (finite s) 1 = Some x.
Proof.
  intros s x H E. destruct s as [|a [|b t]]; cbn in E; try discriminate. subst b.
  inversion H as [|? ? _ Hf]; subst. inversion Hf as [|? ? Ha _]; subst.
  destruct a as [y|]; [|contradiction]. reflexivity.
Qed.
Lemma second_none : forall s, StronglySorted le_opt s -> nth 1 s None = None ->
  (length (finite s) < 2)%nat.
Proof.
  intros s H E. destruct s as [|a [|b t]].
  - cbn. lia.
  - destruct a; cbn; lia.
  - cbn in E. subst b. inversion H as [|? ? Hs _]; subst. inversion Hs as [|? ? _ Hn]; subst.
    apply le_opt_none_finite in Hn.
    destruct a; cbn [finite flat_map app]; change (flat_map _ t) with (finite t); rewrite Hn; cbn; lia.
Qed.

Lemma second_lowest_spec : forall nb,
  match second_lowest_abs nb with
  | Some x => (2 <= length (finite nb))%nat /\ is_second_lowest_abs (finite nb) x
  | None => (length (finite nb) < 2)%nat
  end.
Proof.
  intro nb. unfold second_lowest_abs. set (s := isort lt_abs_nanlast nb).
  assert (P : Permutation nb s) by apply isort_perm.
  assert (S : StronglySorted le_opt s)
    by (apply (isort_sorted lt_abs_nanlast le_opt le_opt_trans lt_abs_le_opt nlt_abs_le_opt)).
  assert (PF : Permutation (finite nb) (finite s)) by (unfold finite; apply Permutation_flat_map; exact P).
  destruct (nth 1 s None) as [x|] eqn:E.
  - pose proof (second_some s x S E) as N. split.
    + rewrite (Permutation_length PF). destruct (finite s) as [|a [|b t]]; cbn in N; try discriminate. cbn. lia.
    + exists (finite s). split. exact PF. split. apply sorted_opt_finite. exact S. exact N.
  - rewrite (Permutation_length PF). apply second_none; assumption.
Qed.

Lemma second_lowest_in : forall l x, is_second_lowest_abs l x -> In x l.
Proof.
  intros l x (s & P & _ & N). eapply Permutation_in. symmetry. exact P. eapply nth_error_In. exact N.
Qed.

(* ------------------------------------------------------------------ the other three kernels *)
Lemma Forall2_map_in : forall {A B C} (R : B -> C -> Prop) (f : A -> B) (g : A -> C) l,
  (forall a, In a l -> R (f a) (g a)) -> Forall2 R (map f l) (map g l).
Proof.
  induction l as [|a l IH]; intro H; cbn [map]. constructor.
  constructor. apply H. left. reflexivity. apply IH. intros b Hb. apply H. right. exact Hb.
Qed.

Lemma dirs16_full : Forall (fun h => Z.abs (fst h) = 2 \/ Z.abs (snd h) = 2) dirs16.
Proof. unfold dirs16. repeat (apply Forall_cons; [cbn [fst snd]; lia|]). apply Forall_nil. Qed.
Lemma dirs8_full : Forall (fun h => Z.abs (fst h) = 1 \/ Z.abs (snd h) = 1) dirs8.
Proof. unfold dirs8. repeat (apply Forall_cons; [cbn [fst snd]; lia|]). apply Forall_nil. Qed.
Lemma dirs16_rc_eq : dirs16_rc = map (fun h => (snd h, fst h)) dirs16.
Proof. reflexivity. Qed.
Lemma dirs8_rc_eq : dirs8_rc = map (fun h => (snd h, fst h)) dirs8.
Proof. reflexivity. Qed.

Lemma sum_nonzero_ex : forall l, fold_right Z.add 0 l <> 0 -> exists x, In x l /\ x <> 0.
Proof.
  induction l as [|a l IH]; cbn [fold_right]; intro H. congruence.
  destruct (Z.eq_dec a 0) as [->|Ha].
  - destruct IH as (x & Hx & Hn). lia. exists x. split. right. exact Hx. exact Hn.
  - exists a. split. left. reflexivity. exact Ha.
Qed.
Lemma sum_nonneg : forall l, (forall x, In x l -> 0 <= x) -> 0 <= fold_right Z.add 0 l.
Proof.
  induction l as [|a l IH]; cbn [fold_right]; intro H. lia.
  assert (0 <= a) by (apply H; left; reflexivity).
  assert (0 <= fold_right Z.add 0 l) by (apply IH; intros x Hx; apply H; right; exact Hx). lia.
Qed.
Lemma sum_ex_nonzero : forall l x, (forall y, In y l -> 0 <= y) -> In x l -> x <> 0 -> fold_right Z.add 0 l <> 0.
Proof.
  induction l as [|a l IH]; intros x Hp Hx Hn. destruct Hx.
  cbn [fold_right].
  assert (0 <= a) by (apply Hp; left; reflexivity).
  assert (0 <= fold_right Z.add 0 l) by (apply sum_nonneg; intros y Hy; apply Hp; right; exact Hy).
  destruct Hx as [->|Hx]. lia.
  assert (fold_right Z.add 0 l <> 0) by (apply (IH x); [intros y Hy; apply Hp; right; exact Hy | exact Hx | exact Hn]).
  lia.
Qed.

Lemma land_occ_zero : forall v, Z.land v MSK_OCCLUSION = 0 <-> Z.testbit v 8 = false.
Proof.
  intro v. rewrite <- has_occ. unfold has. destruct (Z.eqb_spec (Z.land v MSK_OCCLUSION) 0); cbn; split; congruence.
Qed.

Section Px2.
  Variables nr nc : Z.
  Variable disp : Z -> Z -> option Q.
  Variable mask : Z -> Z -> Z.

  Lemma mc_neighbors_contribute : forall r c, 0 <= r < nr -> 0 <= c < nc ->
    Forall2 (fun d o => contributes nr nc disp mask (halfstep d r c) o) dirs16_rc
            (mc_neighbors true nr nc disp mask r c).
  Proof.
    intros r c Hr Hc. rewrite dirs16_rc_eq. unfold mc_neighbors. apply Forall2_map_in.
    intros h Hh. apply mc_neighbor_contributes; try assumption.
    pose proof dirs16_full as F. rewrite Forall_forall in F. apply F. exact Hh.
  Qed.

  Lemma fvn_contribute : forall r c, 0 <= r < nr -> 0 <= c < nc ->
    Forall2 (fun d o => contributes nr nc disp mask (straight d r c) o) dirs8_rc
            (find_valid_neighbors nr nc disp mask c r).
  Proof.
    intros r c Hr Hc. rewrite dirs8_rc_eq. unfold find_valid_neighbors. apply Forall2_map_in.
    intros h Hh. apply fvn_contributes; try assumption.
    pose proof dirs8_full as F. rewrite Forall_forall in F. apply F. exact Hh.
  Qed.

  (* ---- mc-cnn mismatch *)
  Lemma mis_mc_meets : forall r c, 0 <= r < nr -> 0 <= c < nc ->
    mc_mismatch_px nr nc disp mask r c (fst (mis_mc_pixel true nr nc disp mask r c))
                   (snd (mis_mc_pixel true nr nc disp mask r c)).
  Proof.
    intros r c Hr Hc. unfold mis_mc_pixel, mc_mismatch_px. rewrite has_mis.
    destruct (Z.testbit (mask r c) 9) eqn:E9.
    2:{ left. split. reflexivity. split; reflexivity. }
    right. split. reflexivity. exists (mc_neighbors true nr nc disp mask r c).
    split. apply mc_neighbors_contribute; assumption.
    cbn [andb]. destruct (all_nan (mc_neighbors true nr nc disp mask r c)) eqn:Ea.
    - right. split. apply all_nan_finite. exact Ea. split; reflexivity.
    - assert (Hne : finite (mc_neighbors true nr nc disp mask r c) <> []).
      { intro X. apply all_nan_finite in X. congruence. }
      left. split. exact Hne. destruct (nanmedian_is_median _ Hne) as (m & Em & Hm).
      cbn [fst snd]. split. exists m. split; assumption. apply swap_mis. exact E9.
  Qed.

  (* ---- sgm: the 3x3 occlusion test *)
  Lemma occ_neighbor_spec : forall r c, 0 <= r < nr -> 0 <= c < nc ->
    (occ_neighbor nr nc mask r c = true <-> touches_occlusion nr nc mask r c).
  Proof.
    intros r c Hr Hc. unfold occ_neighbor, touches_occlusion.
    set (l := flat_map _ _).
    assert (Hl : forall x, In x l <-> exists r' c', (Z.max 0 (r - 1) <= r' < Z.min (nr - 1) (r + 1) + 1) /\
                  (Z.max 0 (c - 1) <= c' < Z.min (nc - 1) (c + 1) + 1) /\ x = Z.land (mask r' c') MSK_OCCLUSION).
    { intro x. unfold l. rewrite in_flat_map. split.
      - intros (r' & Hr' & Hx). apply in_map_iff in Hx. destruct Hx as (c' & Hx & Hc').
        apply In_zrange in Hr'. apply In_zrange in Hc'. exists r', c'. split. lia. split. lia. congruence.
      - intros (r' & c' & Hr' & Hc' & Hx). exists r'. split. apply In_zrange. lia.
        apply in_map_iff. exists c'. split. congruence. apply In_zrange. lia. }
    assert (Hpos : forall y, In y l -> 0 <= y).
    { intros y Hy. apply Hl in Hy. destruct Hy as (r' & c' & _ & _ & ->). apply Z.land_nonneg. right.
      unfold MSK_OCCLUSION. lia. }
    rewrite negb_true_iff, Z.eqb_neq. split.
    - intro H. apply sum_nonzero_ex in H. destruct H as (x & Hx & Hn). apply Hl in Hx.
      destruct Hx as (r' & c' & Hr' & Hc' & ->). exists r', c'.
      split. unfold Spec.Interp.inside. cbn [fst snd]. lia. split. lia. split. lia.
      destruct (Z.testbit (mask r' c') 8) eqn:E; [reflexivity|]. apply land_occ_zero in E. congruence.
    - intros (r' & c' & Hin & Hr' & Hc' & Hb). unfold Spec.Interp.inside in Hin. cbn [fst snd] in Hin.
      apply (sum_ex_nonzero l (Z.land (mask r' c') MSK_OCCLUSION) Hpos).
      + apply Hl. exists r', c'. split. lia. split. lia. reflexivity.
      + intro X. apply land_occ_zero in X. congruence.
  Qed.

  (* ---- sgm mismatch (the pixel does not carry both bits 8 and 9) *)
  Lemma mis_sgm_meets : forall r c, 0 <= r < nr -> 0 <= c < nc ->
    Z.testbit (mask r c) 8 && Z.testbit (mask r c) 9 = false ->
    sgm_mismatch_px nr nc disp mask r c (fst (mis_sgm_pixel true nr nc disp mask r c))
                    (snd (mis_sgm_pixel true nr nc disp mask r c)).
  Proof.
    intros r c Hr Hc Hnb. unfold mis_sgm_pixel, sgm_mismatch_px. rewrite has_mis.
    destruct (Z.testbit (mask r c) 9) eqn:E9.
    2:{ left. split. reflexivity. split; reflexivity. }
    rewrite andb_true_r in Hnb. right.
    destruct (occ_neighbor nr nc mask r c) eqn:En.
    - left. split. reflexivity. split. apply occ_neighbor_spec; assumption.
      split. reflexivity. apply swap_mis_occ; assumption.
    - right. split. reflexivity. split.
      { intro X. apply occ_neighbor_spec in X; try assumption. congruence. }
      exists (find_valid_neighbors nr nc disp mask c r).
      split. apply fvn_contribute; assumption.
      cbn [andb]. destruct (all_nan (find_valid_neighbors nr nc disp mask c r)) eqn:Ea.
      + right. split. apply all_nan_finite. exact Ea. split; reflexivity.
      + assert (Hne : finite (find_valid_neighbors nr nc disp mask c r) <> []).
        { intro X. apply all_nan_finite in X. congruence. }
        left. split. exact Hne. destruct (nanmedian_is_median _ Hne) as (m & Em & Hm).
        cbn [fst snd]. split. exists m. split; assumption. apply swap_mis. exact E9.
  Qed.

  (* ---- sgm occlusion *)
  Lemma occ_sgm_meets : forall r c, 0 <= r < nr -> 0 <= c < nc ->
    sgm_occlusion_px nr nc disp mask r c (fst (occ_sgm_pixel true nr nc disp mask r c))
                     (snd (occ_sgm_pixel true nr nc disp mask r c)).
  Proof.
    intros r c Hr Hc. unfold occ_sgm_pixel, sgm_occlusion_px. rewrite has_occ.
    destruct (Z.testbit (mask r c) 8) eqn:E8.
    2:{ left. split. reflexivity. split; reflexivity. }
    right. split. reflexivity. exists (find_valid_neighbors nr nc disp mask c r).
    split. apply fvn_contribute; assumption.
    cbn [andb]. pose proof (second_lowest_spec (find_valid_neighbors nr nc disp mask c r)) as S.
    destruct (second_lowest_abs (find_valid_neighbors nr nc disp mask c r)) as [x|].
    - destruct S as [S1 S2]. left. split. exact S1. cbn [fst snd]. split.
      exists x. split. reflexivity. exact S2. apply swap_occ'. exact E8.
    - right. split. exact S. split; reflexivity.
  Qed.
End Px2.

(* ------------------------------------------------------------------ the two methods meet the Spec *)
Lemma kernel_disp_in : forall n0 n1 px r c, 0 <= r < n0 -> 0 <= c < n1 -> kernel_disp n0 n1 px r c = fst (px r c).
Proof. intros. unfold kernel_disp. apply (freeze_in None n0 n1 (fun c r => fst (px c r))); assumption. Qed.
Lemma kernel_val_in : forall n0 n1 px r c, 0 <= r < n0 -> 0 <= c < n1 -> kernel_val n0 n1 px r c = snd (px r c).
Proof. intros. unfold kernel_val. apply (freeze_in 0 n0 n1 (fun c r => snd (px c r))); assumption. Qed.

Theorem interp_mc_meets_spec : forall nr nc off disp mask,
  mc_cnn_spec nr nc off disp mask (fst (interp McCnn nr nc off disp mask)) (snd (interp McCnn nr nc off disp mask)).
Proof.
  intros nr nc off disp mask. unfold interp, interp_gen.
  set (k1 := occ_mc_pixel true nc disp mask).
  set (d1 := kernel_disp nr nc k1). set (v1 := kernel_val nr nc k1).
  set (k2 := mis_mc_pixel true nr nc d1 v1).
  cbn [fst snd]. exists d1, v1, (kernel_val nr nc k2). split; [|split].
  - intros r c Hr Hc. unfold d1, v1. rewrite kernel_disp_in, kernel_val_in by assumption.
    apply occ_mc_meets; assumption.
  - intros r c Hr Hc. rewrite kernel_disp_in, kernel_val_in by assumption.
    apply mis_mc_meets; assumption.
  - intros r c Hr Hc. destruct (0 <? off) eqn:Eo; cbn [andb]. 2: reflexivity.
    apply mask_border_spec; lia.
Qed.

Theorem interp_sgm_meets_spec : forall nr nc off disp mask, never_both nr nc mask ->
  sgm_spec nr nc disp mask (fst (interp Sgm nr nc off disp mask)) (snd (interp Sgm nr nc off disp mask)).
Proof.
  intros nr nc off disp mask NB. unfold interp, interp_gen.
  set (k1 := mis_sgm_pixel true nr nc disp mask).
  set (d1 := kernel_disp nr nc k1). set (v1 := kernel_val nr nc k1).
  cbn [fst snd]. exists d1, v1. split.
  - intros r c Hr Hc. unfold d1, v1. rewrite kernel_disp_in, kernel_val_in by assumption.
    apply mis_sgm_meets; try assumption. apply NB; assumption.
  - intros r c Hr Hc. rewrite kernel_disp_in, kernel_val_in by assumption.
    apply occ_sgm_meets; assumption.
Qed.

(* ------------------------------------------------------------------ the clauses of the property, from the Spec *)
Lemma flagged_false : forall m, flagged m = false <-> Z.testbit m 8 = false /\ Z.testbit m 9 = false.
Proof. intro m. unfold flagged. destruct (Z.testbit m 8), (Z.testbit m 9); cbn; intuition congruence. Qed.

Lemma swapped_84_bits : forall m m', swapped 8 4 m m' ->
  Z.testbit m' 8 = false /\ Z.testbit m' 9 = Z.testbit m 9.
Proof. intros m m' H. split. apply (swapped_from 8 4 m); [exact H|lia]. apply (swapped_bit 8 4); [exact H|lia..]. Qed.
Lemma swapped_95_bits : forall m m', swapped 9 5 m m' ->
  Z.testbit m' 9 = false /\ Z.testbit m' 8 = Z.testbit m 8.
Proof. intros m m' H. split. apply (swapped_from 9 5 m); [exact H|lia]. apply (swapped_bit 9 5); [exact H|lia..]. Qed.
Lemma swapped_98_bits : forall m m', swapped 9 8 m m' ->
  Z.testbit m' 9 = false /\ Z.testbit m' 8 = true.
Proof. intros m m' H. split. apply (swapped_from 9 8 m); [exact H|lia]. apply (swapped_to 9 8 m); [exact H|lia..]. Qed.

Lemma swapped_98_84 : forall m m1 m', Z.testbit m 8 = false ->
  swapped 9 8 m m1 -> swapped 8 4 m1 m' -> swapped 9 4 m m'.
Proof.
  intros m m1 m' H8 H1 H2 n Hn. rewrite H2, H1 by exact Hn.
  destruct (Z.eqb_spec n 8) as [->|N8]; cbn [Z.eqb Pos.eqb]. exact (eq_sym H8).
  destruct (Z.eqb_spec n 4) as [->|N4]; cbn [Z.eqb Pos.eqb]. reflexivity.
  destruct (Z.eqb_spec n 9); reflexivity.
Qed.

Lemma contributes_range : forall nr nc d m lo hi (path : Z * Z -> Z -> Z -> Z -> Z * Z) r c dirs nb,
  valid_range nr nc d m lo hi ->
  Forall2 (fun d0 o => contributes nr nc d m (path d0 r c) o) dirs nb ->
  forall y, In y (finite nb) -> (lo <= y <= hi)%Q.
Proof.
  intros nr nc d m lo hi path r c dirs nb VR F. induction F as [|d0 o dirs nb Hc F IH]; intros y Hy.
  - destruct Hy.
  - cbn [finite flat_map] in Hy. apply in_app_or in Hy. destruct Hy as [Hy|Hy]; [|apply IH; exact Hy].
    destruct o as [q|]; [|destruct Hy]. destruct Hy as [<-|[]].
    destruct Hc as [(k & (Hk & Hin & Hv & _) & Eo) | (_ & Eo)]; [|discriminate].
    specialize (Hin k ltac:(lia)). destruct Hin as [Hi1 Hi2].
    destruct (VR _ _ Hi1 Hi2 Hv) as (q' & Eq & Hr). unfold disp_at in Eo. rewrite Eq in Eo.
    injection Eo as ->. exact Hr.
Qed.

Lemma contributes_blind : forall nr nc d m (path : Z * Z -> Z -> Z -> Z -> Z * Z) r c dirs nb,
  (forall r c, 0 <= r < nr -> 0 <= c < nc -> spec_valid (m r c) = false) ->
  Forall2 (fun d0 o => contributes nr nc d m (path d0 r c) o) dirs nb -> finite nb = [].
Proof.
  intros nr nc d m path r c dirs nb NV F. induction F as [|d0 o dirs nb Hc F IH]. reflexivity.
  cbn [finite flat_map]. change (flat_map _ nb) with (finite nb). rewrite IH.
  destruct Hc as [(k & (Hk & Hin & Hv & _) & Eo) | (_ & ->)]; [|reflexivity].
  specialize (Hin k ltac:(lia)). destruct Hin as [Hi1 Hi2]. unfold valid_at in Hv.
  rewrite (NV _ _ Hi1 Hi2) in Hv. discriminate.
Qed.

Lemma first_valid_blind : forall nr nc m path k,
  (forall r c, 0 <= r < nr -> 0 <= c < nc -> spec_valid (m r c) = false) ->
  ~ first_valid nr nc m path k.
Proof.
  intros nr nc m path k NV (Hk & Hin & Hv & _). specialize (Hin k ltac:(lia)). destruct Hin as [Hi1 Hi2].
  unfold valid_at in Hv. rewrite (NV _ _ Hi1 Hi2) in Hv. discriminate.
Qed.

(* a finite contribution comes from a valid pixel of the map *)
Lemma contributes_some_valid : forall nr nc d m (path : Z * Z -> Z -> Z -> Z -> Z * Z) r c dirs nb,
  Forall2 (fun d0 o => contributes nr nc d m (path d0 r c) o) dirs nb -> finite nb <> [] ->
  exists r' c', 0 <= r' < nr /\ 0 <= c' < nc /\ spec_valid (m r' c') = true.
Proof.
  intros nr nc d m path r c dirs nb F. induction F as [|d0 o dirs nb Hc F IH]; intro Hne.
  - exfalso. apply Hne. reflexivity.
  - destruct Hc as [(k & (Hk & Hin & Hv & _) & _) | (_ & ->)].
    + specialize (Hin k ltac:(lia)). destruct Hin as [Hi1 Hi2].
      exists (fst (path d0 r c k)), (snd (path d0 r c k)). split. exact Hi1. split. exact Hi2. exact Hv.
    + apply IH. exact Hne.
Qed.

Lemma first_valid_valid : forall nr nc m path k, first_valid nr nc m path k ->
  exists r' c', 0 <= r' < nr /\ 0 <= c' < nc /\ spec_valid (m r' c') = true.
Proof.
  intros nr nc m path k (Hk & Hin & Hv & _). specialize (Hin k ltac:(lia)). destruct Hin as [Hi1 Hi2].
  exists (fst (path k)), (snd (path k)). split. exact Hi1. split. exact Hi2. exact Hv.
Qed.

Lemma contributes_nothing_in_sight : forall nr nc d m (path : Z * Z -> Z -> Z -> Z -> Z * Z) r c dirs nb,
  (forall d0 i, In d0 dirs -> 1 <= i -> inside nr nc (path d0 r c i) ->
     spec_valid (m (fst (path d0 r c i)) (snd (path d0 r c i))) = false) ->
  Forall2 (fun d0 o => contributes nr nc d m (path d0 r c) o) dirs nb -> finite nb = [].
Proof.
  intros nr nc d m path r c dirs nb NS F. induction F as [|d0 o dirs nb Hco F IH]. reflexivity.
  cbn [finite flat_map]. change (flat_map _ nb) with (finite nb).
  rewrite IH by (intros d1 i Hd; apply NS; right; exact Hd).
  destruct Hco as [(k & (Hk & Hin & Hv & _) & _) | (_ & ->)]; [|reflexivity]. exfalso.
  specialize (Hin k ltac:(lia)). unfold valid_at in Hv.
  rewrite (NS d0 k) in Hv. discriminate. left. reflexivity. exact Hk. exact Hin.
Qed.

Lemma neighbour_dir : forall r c r' c', r - 1 <= r' <= r + 1 -> c - 1 <= c' <= c + 1 -> (r', c') <> (r, c) ->
  exists d, In d dirs8_rc /\ straight d r c 1 = (r', c').
Proof.
  intros r c r' c' Hr Hc Hne. exists (r' - r, c' - c). split.
  - assert (Er : r' - r = -1 \/ r' - r = 0 \/ r' - r = 1) by lia.
    assert (Ec : c' - c = -1 \/ c' - c = 0 \/ c' - c = 1) by lia.
    destruct Er as [Er|[Er|Er]]; destruct Ec as [Ec|[Ec|Ec]]; rewrite Er, Ec; unfold dirs8_rc; cbn [In]; try tauto.
    exfalso. apply Hne. f_equal; lia.
  - unfold straight. cbn [fst snd]. f_equal; lia.
Qed.

Section McClauses.
  Variables nr nc off : Z.
  Variable disp : Z -> Z -> option Q.
  Variable mask : Z -> Z -> Z.
  Variable disp' : Z -> Z -> option Q.
  Variable mask' : Z -> Z -> Z.
  Hypothesis S : mc_cnn_spec nr nc off disp mask disp' mask'.

  Definition remarked (r c : Z) : bool := (0 <? off) && is_border nr nc off r c.

  Lemma mc_only_flagged : forall r c, 0 <= r < nr -> 0 <= c < nc -> flagged (mask r c) = false ->
    disp' r c = disp r c /\ mask' r c = if remarked r c then 1 else mask r c.
  Proof.
    intros r c Hr Hc Hf. apply flagged_false in Hf. destruct Hf as [F8 F9].
    destruct S as (d1 & m1 & m2 & P1 & P2 & B).
    specialize (P1 r c Hr Hc). specialize (P2 r c Hr Hc). specialize (B r c Hr Hc).
    destruct P1 as [[_ [Ed Em]] | [E8 _]]; [|congruence].
    destruct P2 as [[_ [Ed' Em']] | [E9 _]]; [|rewrite Em in E9; congruence].
    unfold remarked. rewrite B, Em', Em, Ed', Ed. split; reflexivity.
  Qed.

  Lemma mc_border : forall r c, 0 <= r < nr -> 0 <= c < nc -> 0 < off -> is_border nr nc off r c = true ->
    mask' r c = 1.
  Proof.
    intros r c Hr Hc Ho Hb. destruct S as (d1 & m1 & m2 & _ & _ & B). rewrite (B r c Hr Hc), Hb.
    replace (0 <? off) with true by lia. reflexivity.
  Qed.

  (* what can happen to a flagged pixel (not carrying both bits, not re-marked as border) *)
  Lemma mc_fate : forall r c, 0 <= r < nr -> 0 <= c < nc -> remarked r c = false ->
    Z.testbit (mask r c) 8 && Z.testbit (mask r c) 9 = false ->
    (Z.testbit (mask r c) 8 = true ->
       (mask' r c = mask r c /\ disp' r c = disp r c) \/ swapped 8 4 (mask r c) (mask' r c)) /\
    (Z.testbit (mask r c) 9 = true ->
       (mask' r c = mask r c /\ disp' r c = disp r c) \/ swapped 9 5 (mask r c) (mask' r c)).
  Proof.
    intros r c Hr Hc Hrm NB. destruct S as (d1 & m1 & m2 & P1 & P2 & B).
    specialize (P1 r c Hr Hc). specialize (P2 r c Hr Hc). specialize (B r c Hr Hc).
    unfold remarked in Hrm. rewrite Hrm in B. rewrite B. split; intro Hb.
    - rewrite Hb in NB. cbn [andb] in NB.
      destruct P1 as [[E8 _] | [_ P1]]; [congruence|].
      assert (X : (unchanged disp mask r c (d1 r c) (m1 r c)) \/ swapped 8 4 (mask r c) (m1 r c)).
      { destruct P1 as [(k & _ & _ & Hs) | [(_ & k & _ & _ & Hs) | (_ & _ & U)]]; auto. }
      destruct X as [[Ed Em] | Hs].
      + destruct P2 as [[_ [Ed' Em']] | [E9 _]]; [|rewrite Em in E9; congruence].
        left. rewrite Em', Em, Ed', Ed. split; reflexivity.
      + destruct (swapped_84_bits _ _ Hs) as [_ S9]. rewrite NB in S9.
        destruct P2 as [[_ [_ Em']] | [E9 _]]; [|congruence]. right. rewrite Em'. exact Hs.
    - rewrite Hb, andb_true_r in NB.
      destruct P1 as [[_ [Ed Em]] | [E8 _]]; [|congruence].
      destruct P2 as [[E9 _] | [_ (nb & _ & [(_ & _ & Hs) | (_ & [Ed' Em'])])]].
      + rewrite Em in E9. congruence.
      + right. rewrite <- Em. exact Hs.
      + left. rewrite Em', Em, Ed', Ed. split; reflexivity.
  Qed.

  (* after the occlusion pass every valid pixel still holds a finite disparity within the bounds *)
  Lemma mc_pass1_range : forall lo hi d1 m1, valid_range nr nc disp mask lo hi ->
    pass mc_occlusion_px nr nc disp mask d1 m1 -> valid_range nr nc d1 m1 lo hi.
  Proof.
    intros lo hi d1 m1 VR P1 r c Hr Hc Hv. specialize (P1 r c Hr Hc).
    assert (Src : forall k p, first_valid nr nc mask p k -> exists q, disp_at disp (p k) = Some q /\ (lo <= q <= hi)%Q).
    { intros k p (Hk & Hin & Hvk & _). specialize (Hin k ltac:(lia)). destruct Hin. apply VR; assumption. }
    destruct P1 as [[_ [Ed Em]] | [_ [(k & Hf & Ed & _) | [(_ & k & Hf & Ed & _) | (_ & _ & [Ed Em])]]]].
    - rewrite Ed. apply VR; try assumption. rewrite <- Em. exact Hv.
    - rewrite Ed. exact (Src k _ Hf).
    - rewrite Ed. exact (Src k _ Hf).
    - rewrite Ed. apply VR; try assumption. rewrite <- Em. exact Hv.
  Qed.

  Lemma mc_filled_range : forall lo hi, valid_range nr nc disp mask lo hi ->
    forall r c, 0 <= r < nr -> 0 <= c < nc -> remarked r c = false ->
    filled (mask r c) (mask' r c) -> exists q, disp' r c = Some q /\ (lo <= q <= hi)%Q.
  Proof.
    intros lo hi VR r c Hr Hc Hrm [Ff Fn]. destruct S as (d1 & m1 & m2 & P1 & P2 & B).
    pose proof (mc_pass1_range lo hi d1 m1 VR P1) as VR1.
    pose proof (P1 r c Hr Hc) as Q1. specialize (P2 r c Hr Hc). specialize (B r c Hr Hc).
    unfold remarked in Hrm. rewrite Hrm in B. rewrite B in Fn. apply flagged_false in Fn. destruct Fn as [N8 N9].
    assert (Src : forall k p, first_valid nr nc mask p k -> exists q, disp_at disp (p k) = Some q /\ (lo <= q <= hi)%Q).
    { intros k p (Hk & Hin & Hvk & _). specialize (Hin k ltac:(lia)). destruct Hin. apply VR; assumption. }
    destruct P2 as [[E9 [Ed' Em']] | [E9 (nb & Fnb & [(Hne & (x & Ex & Hmed) & Hs) | (_ & [_ Em'])])]].
    - (* untouched by the mismatch pass: it was filled by the occlusion pass *)
      rewrite Ed'. rewrite Em' in N8, N9.
      destruct Q1 as [[E8 [_ Em]] | [E8 [(k & Hf & Ed & _) | [(_ & k & Hf & Ed & _) | (_ & _ & [_ Em])]]]].
      + exfalso. rewrite Em in N9. unfold flagged in Ff. rewrite E8, N9 in Ff. discriminate.
      + rewrite Ed. exact (Src k _ Hf).
      + rewrite Ed. exact (Src k _ Hf).
      + rewrite Em in N8. congruence.
    - exists x. split. exact Ex. eapply median_bounds. exact Hmed.
      intros y Hy. eapply contributes_range; eassumption.
    - rewrite Em' in N9. congruence.
  Qed.

  (* a pixel is filled only if the map holds a valid pixel *)
  Lemma mc_pass1_valid_source : forall d1 m1, pass mc_occlusion_px nr nc disp mask d1 m1 ->
    forall r c, 0 <= r < nr -> 0 <= c < nc -> spec_valid (m1 r c) = true ->
    exists r' c', 0 <= r' < nr /\ 0 <= c' < nc /\ spec_valid (mask r' c') = true.
  Proof.
    intros d1 m1 P1 r c Hr Hc Hv. specialize (P1 r c Hr Hc).
    destruct P1 as [[_ [_ Em]] | [_ [(k & Hf & _) | [(_ & k & Hf & _) | (_ & _ & [_ Em])]]]].
    - exists r, c. rewrite <- Em. auto.
    - exact (first_valid_valid _ _ _ _ _ Hf).
    - exact (first_valid_valid _ _ _ _ _ Hf).
    - exists r, c. rewrite <- Em. auto.
  Qed.

  Lemma mc_filled_needs_valid : forall r c, 0 <= r < nr -> 0 <= c < nc -> remarked r c = false ->
    filled (mask r c) (mask' r c) ->
    exists r' c', 0 <= r' < nr /\ 0 <= c' < nc /\ spec_valid (mask r' c') = true.
  Proof.
    intros r c Hr Hc Hrm [Ff Fn]. destruct S as (d1 & m1 & m2 & P1 & P2 & B).
    pose proof (P1 r c Hr Hc) as Q1. specialize (P2 r c Hr Hc). specialize (B r c Hr Hc).
    unfold remarked in Hrm. rewrite Hrm in B. rewrite B in Fn. apply flagged_false in Fn. destruct Fn as [N8 N9].
    destruct P2 as [[E9 [Ed' Em']] | [E9 (nb & Fnb & [(Hne & _) | (_ & [_ Em'])])]].
    - rewrite Em' in N8, N9.
      destruct Q1 as [[E8 [_ Em]] | [E8 [(k & Hf & _) | [(_ & k & Hf & _) | (_ & _ & [_ Em])]]]].
      + exfalso. rewrite Em in N9. unfold flagged in Ff. rewrite E8, N9 in Ff. discriminate.
      + exact (first_valid_valid _ _ _ _ _ Hf).
      + exact (first_valid_valid _ _ _ _ _ Hf).
      + rewrite Em in N8. congruence.
    - destruct (contributes_some_valid _ _ _ _ _ _ _ _ _ Fnb Hne) as (r1 & c1 & Hr1 & Hc1 & Hv1).
      exact (mc_pass1_valid_source d1 m1 P1 r1 c1 Hr1 Hc1 Hv1).
    - rewrite Em' in N9. congruence.
  Qed.

  (* nothing valid (nor fillable) in sight along the 16 directions: the pixel is left as it was *)
  Lemma mc_nothing_in_sight : forall r c, 0 <= r < nr -> 0 <= c < nc -> remarked r c = false ->
    nothing_in_sight halfstep dirs16_rc nr nc mask r c ->
    disp' r c = disp r c /\ mask' r c = mask r c.
  Proof.
    intros r c Hr Hc Hrm NS. destruct S as (d1 & m1 & m2 & P1 & P2 & B).
    pose proof (P1 r c Hr Hc) as Q1. pose proof (P2 r c Hr Hc) as Q2. specialize (B r c Hr Hc).
    unfold remarked in Hrm. rewrite Hrm in B. rewrite B.
    assert (Q2' : forall x, Z.quot (2 * x) 2 = x) by (intro x; rewrite Z.mul_comm; apply Z.quot_mul; lia).
    assert (Qm2 : forall x, Z.quot (-2 * x) 2 = - x)
      by (intro x; replace (-2 * x) with ((- x) * 2) by lia; apply Z.quot_mul; lia).
    (* pass 1 leaves (r,c) alone *)
    assert (U1 : d1 r c = disp r c /\ m1 r c = mask r c).
    { destruct Q1 as [[_ U] | [_ [(k & Hf & _) | [(_ & k & Hf & _) | (_ & _ & U)]]]]; try exact U; exfalso.
      - destruct Hf as (Hk & Hin & Hv & _). specialize (Hin k ltac:(lia)).
        assert (E : leftwards r c k = halfstep (0, -2) r c k).
        { unfold leftwards, halfstep. cbn [fst snd]. rewrite Qm2. cbn. f_equal; lia. }
        rewrite E in Hin, Hv. destruct (NS (0, -2) k) as [D _]; try assumption.
        unfold dirs16_rc. cbn. tauto. unfold valid_at in Hv. congruence.
      - destruct Hf as (Hk & Hin & Hv & _). specialize (Hin k ltac:(lia)).
        assert (E : rightwards r c k = halfstep (0, 2) r c k).
        { unfold rightwards, halfstep. cbn [fst snd]. rewrite Q2'. cbn. f_equal; lia. }
        rewrite E in Hin, Hv. destruct (NS (0, 2) k) as [D _]; try assumption.
        unfold dirs16_rc. cbn. tauto. unfold valid_at in Hv. congruence. }
    destruct U1 as [Ed Em].
    (* pass 1 leaves dead pixels dead *)
    assert (DD : forall p, inside nr nc p -> dead (mask (fst p) (snd p)) -> spec_valid (m1 (fst p) (snd p)) = false).
    { intros p [Hp1 Hp2] [Dv Df]. apply flagged_false in Df. destruct Df as [F8 _].
      destruct (P1 _ _ Hp1 Hp2) as [[_ [_ Emp]] | [E8 _]]; [|congruence]. rewrite Emp. exact Dv. }
    destruct Q2 as [[_ [Ed' Em']] | [_ (nb & Fnb & [(Hne & _) | (_ & [Ed' Em'])])]].
    - rewrite Ed', Em', Ed, Em. split; reflexivity.
    - exfalso. apply Hne. clear Hne. revert NS Fnb. generalize dirs16_rc. intros dirs NS Fnb.
      induction Fnb as [|d0 o dirs nb Hco F IH]. reflexivity.
      cbn [finite flat_map]. change (flat_map _ nb) with (finite nb).
      rewrite IH by (intros d i Hd; apply NS; right; exact Hd).
      destruct Hco as [(k & (Hk & Hin & Hv & _) & _) | (_ & ->)]; [|reflexivity]. exfalso.
      specialize (Hin k ltac:(lia)).
      assert (X : spec_valid (m1 (fst (halfstep d0 r c k)) (snd (halfstep d0 r c k))) = false).
      { apply DD. exact Hin. apply NS. left. reflexivity. exact Hk. exact Hin. }
      unfold valid_at in Hv. congruence.
    - rewrite Ed', Em', Ed, Em. split; reflexivity.
  Qed.

  (* a map without any valid pixel: nothing is filled, nothing changes *)
  Lemma mc_no_valid_pixel : (forall r c, 0 <= r < nr -> 0 <= c < nc -> spec_valid (mask r c) = false) ->
    forall r c, 0 <= r < nr -> 0 <= c < nc ->
      disp' r c = disp r c /\ mask' r c = if remarked r c then 1 else mask r c.
  Proof.
    intros NV r c Hr Hc. destruct S as (d1 & m1 & m2 & P1 & P2 & B).
    assert (U1 : forall r c, 0 <= r < nr -> 0 <= c < nc -> d1 r c = disp r c /\ m1 r c = mask r c).
    { intros r0 c0 Hr0 Hc0. specialize (P1 r0 c0 Hr0 Hc0).
      destruct P1 as [[_ U] | [_ [(k & Hf & _) | [(_ & k & Hf & _) | (_ & _ & U)]]]]; try exact U;
        exfalso; exact (first_valid_blind _ _ _ _ _ NV Hf). }
    assert (NV1 : forall r c, 0 <= r < nr -> 0 <= c < nc -> spec_valid (m1 r c) = false).
    { intros r0 c0 Hr0 Hc0. destruct (U1 r0 c0 Hr0 Hc0) as [_ ->]. apply NV; assumption. }
    specialize (P2 r c Hr Hc). specialize (B r c Hr Hc). destruct (U1 r c Hr Hc) as [Ed Em].
    unfold remarked. rewrite B.
    destruct P2 as [[_ [Ed' Em']] | [_ (nb & Fnb & [(Hne & _) | (_ & [Ed' Em'])])]].
    - rewrite Ed', Em', Ed, Em. split; reflexivity.
    - exfalso. apply Hne. eapply contributes_blind; eassumption.
    - rewrite Ed', Em', Ed, Em. split; reflexivity.
  Qed.
End McClauses.

Section SgmClauses.
  Variables nr nc : Z.
  Variable disp : Z -> Z -> option Q.
  Variable mask : Z -> Z -> Z.
  Variable disp' : Z -> Z -> option Q.
  Variable mask' : Z -> Z -> Z.
  Hypothesis S : sgm_spec nr nc disp mask disp' mask'.

  Lemma sgm_only_flagged : forall r c, 0 <= r < nr -> 0 <= c < nc -> flagged (mask r c) = false ->
    disp' r c = disp r c /\ mask' r c = mask r c.
  Proof.
    intros r c Hr Hc Hf. apply flagged_false in Hf. destruct Hf as [F8 F9].
    destruct S as (d1 & m1 & P1 & P2). specialize (P1 r c Hr Hc). specialize (P2 r c Hr Hc).
    destruct P1 as [[_ [Ed Em]] | [[E9 _] | [E9 _]]]; try congruence.
    destruct P2 as [[_ [Ed' Em']] | [E8 _]]; [|rewrite Em in E8; congruence].
    rewrite Em', Em, Ed', Ed. split; reflexivity.
  Qed.

  Lemma sgm_fate : forall r c, 0 <= r < nr -> 0 <= c < nc ->
    Z.testbit (mask r c) 8 && Z.testbit (mask r c) 9 = false ->
    (Z.testbit (mask r c) 8 = true ->
       (mask' r c = mask r c /\ disp' r c = disp r c) \/ swapped 8 4 (mask r c) (mask' r c)) /\
    (Z.testbit (mask r c) 9 = true ->
       (mask' r c = mask r c /\ disp' r c = disp r c) \/ swapped 9 5 (mask r c) (mask' r c) \/
       (swapped 9 8 (mask r c) (mask' r c) /\ disp' r c = disp r c) \/ swapped 9 4 (mask r c) (mask' r c)).
  Proof.
    intros r c Hr Hc NB. destruct S as (d1 & m1 & P1 & P2).
    specialize (P1 r c Hr Hc). specialize (P2 r c Hr Hc). split; intro Hb.
    - rewrite Hb in NB. cbn [andb] in NB.
      destruct P1 as [[_ [Ed Em]] | [[E9 _] | [E9 _]]]; try congruence.
      destruct P2 as [[E8 _] | [_ (nb & _ & [(_ & _ & Hs) | (_ & [Ed' Em'])])]].
      + rewrite Em in E8. congruence.
      + right. rewrite Em in Hs. exact Hs.
      + left. rewrite Em', Ed', Em, Ed. split; reflexivity.
    - rewrite Hb, andb_true_r in NB.
      destruct P1 as [[E9 _] | [(_ & _ & Ed & Hs) | (_ & _ & nb & _ & [(_ & _ & Hs) | (_ & [Ed Em])])]].
      + congruence.
      + (* turned into an occlusion *)
        destruct (swapped_98_bits _ _ Hs) as [_ S8].
        destruct P2 as [[E8 _] | [_ (nb & _ & [(_ & _ & Hs2) | (_ & [Ed' Em'])])]].
        * congruence.
        * right. right. right. eapply swapped_98_84; eassumption.
        * right. right. left. rewrite Em', Ed', Ed. split. exact Hs. reflexivity.
      + (* median of the 8 directions *)
        destruct (swapped_95_bits _ _ Hs) as [_ S8]. rewrite NB in S8.
        destruct P2 as [[_ [_ Em']] | [E8 _]]; [|congruence]. right. left. rewrite Em'. exact Hs.
      + destruct P2 as [[_ [Ed' Em']] | [E8 _]]; [|rewrite Em in E8; congruence].
        left. rewrite Em', Ed', Em, Ed. split; reflexivity.
  Qed.

  Lemma sgm_pass1_range : forall lo hi d1 m1, valid_range nr nc disp mask lo hi ->
    pass sgm_mismatch_px nr nc disp mask d1 m1 -> valid_range nr nc d1 m1 lo hi.
  Proof.
    intros lo hi d1 m1 VR P1 r c Hr Hc Hv. specialize (P1 r c Hr Hc).
    destruct P1 as [[_ [Ed Em]] | [(_ & _ & _ & Hs) | (_ & _ & nb & Fnb & [(_ & (x & Ex & Hmed) & _) | (_ & [Ed Em])])]].
    - rewrite Ed. apply VR; try assumption. rewrite <- Em. exact Hv.
    - destruct (swapped_98_bits _ _ Hs) as [_ S8]. rewrite (flagged_invalid8 _ S8) in Hv. discriminate.
    - exists x. split. exact Ex. eapply median_bounds. exact Hmed.
      intros y Hy. eapply contributes_range; eassumption.
    - rewrite Ed. apply VR; try assumption. rewrite <- Em. exact Hv.
  Qed.

  Lemma sgm_filled_range : forall lo hi, valid_range nr nc disp mask lo hi ->
    forall r c, 0 <= r < nr -> 0 <= c < nc ->
    filled (mask r c) (mask' r c) -> exists q, disp' r c = Some q /\ (lo <= q <= hi)%Q.
  Proof.
    intros lo hi VR r c Hr Hc [Ff Fn]. destruct S as (d1 & m1 & P1 & P2).
    pose proof (sgm_pass1_range lo hi d1 m1 VR P1) as VR1.
    specialize (P1 r c Hr Hc). specialize (P2 r c Hr Hc).
    apply flagged_false in Fn. destruct Fn as [N8 N9].
    destruct P2 as [[E8 [Ed' Em']] | [E8 (nb & Fnb & [(_ & (x & Ex & Hsl) & _) | (_ & [_ Em'])])]].
    - rewrite Ed'. rewrite Em' in N8, N9.
      destruct P1 as [[E9 [_ Em]] | [(_ & _ & _ & Hs) | (_ & _ & nb & Fnb & [(_ & (x & Ex & Hmed) & _) | (_ & [_ Em])])]].
      + exfalso. rewrite Em in N8. unfold flagged in Ff. rewrite E9, N8 in Ff. discriminate.
      + destruct (swapped_98_bits _ _ Hs). congruence.
      + exists x. split. exact Ex. eapply median_bounds. exact Hmed.
        intros y Hy. exact (contributes_range nr nc disp mask lo hi straight r c dirs8_rc nb VR Fnb y Hy).
      + exfalso. rewrite Em in N8, N9. unfold flagged in Ff. rewrite N8, N9 in Ff. discriminate.
    - exists x. split. exact Ex. eapply contributes_range. exact VR1. exact Fnb.
      apply second_lowest_in. exact Hsl.
    - rewrite Em' in N8. congruence.
  Qed.

  Lemma sgm_pass1_valid_source : forall d1 m1, pass sgm_mismatch_px nr nc disp mask d1 m1 ->
    forall r c, 0 <= r < nr -> 0 <= c < nc -> spec_valid (m1 r c) = true ->
    exists r' c', 0 <= r' < nr /\ 0 <= c' < nc /\ spec_valid (mask r' c') = true.
  Proof.
    intros d1 m1 P1 r c Hr Hc Hv. specialize (P1 r c Hr Hc).
    destruct P1 as [[_ [_ Em]] | [(_ & _ & _ & Hs) | (_ & _ & nb & Fnb & [(Hne & _) | (_ & [_ Em])])]].
    - exists r, c. rewrite <- Em. auto.
    - destruct (swapped_98_bits _ _ Hs) as [_ S8]. rewrite (flagged_invalid8 _ S8) in Hv. discriminate.
    - exact (contributes_some_valid _ _ _ _ _ _ _ _ _ Fnb Hne).
    - exists r, c. rewrite <- Em. auto.
  Qed.

  Lemma sgm_filled_needs_valid : forall r c, 0 <= r < nr -> 0 <= c < nc ->
    filled (mask r c) (mask' r c) ->
    exists r' c', 0 <= r' < nr /\ 0 <= c' < nc /\ spec_valid (mask r' c') = true.
  Proof.
    intros r c Hr Hc [Ff Fn]. destruct S as (d1 & m1 & P1 & P2).
    pose proof (P1 r c Hr Hc) as Q1. specialize (P2 r c Hr Hc).
    apply flagged_false in Fn. destruct Fn as [N8 N9].
    destruct P2 as [[E8 [Ed' Em']] | [E8 (nb & Fnb & [(Hl & _) | (_ & [_ Em'])])]].
    - rewrite Em' in N8, N9.
      destruct Q1 as [[E9 [_ Em]] | [(_ & _ & _ & Hs) | (_ & _ & nb & Fnb & [(Hne & _) | (_ & [_ Em])])]].
      + exfalso. rewrite Em in N8. unfold flagged in Ff. rewrite E9, N8 in Ff. discriminate.
      + destruct (swapped_98_bits _ _ Hs). congruence.
      + exact (contributes_some_valid _ _ _ _ _ _ _ _ _ Fnb Hne).
      + exfalso. rewrite Em in N8, N9. unfold flagged in Ff. rewrite N8, N9 in Ff. discriminate.
    - assert (Hne : finite nb <> []) by (intro X; rewrite X in Hl; cbn in Hl; lia).
      destruct (contributes_some_valid _ _ _ _ _ _ _ _ _ Fnb Hne) as (r1 & c1 & Hr1 & Hc1 & Hv1).
      exact (sgm_pass1_valid_source d1 m1 P1 r1 c1 Hr1 Hc1 Hv1).
    - rewrite Em' in N8. congruence.
  Qed.

  (* nothing valid (nor fillable) in sight along the 8 directions: the pixel is left as it was *)
  Lemma sgm_nothing_in_sight : forall r c, 0 <= r < nr -> 0 <= c < nc ->
    Z.testbit (mask r c) 8 && Z.testbit (mask r c) 9 = false ->
    nothing_in_sight straight dirs8_rc nr nc mask r c ->
    disp' r c = disp r c /\ mask' r c = mask r c.
  Proof.
    intros r c Hr Hc NBp NS. destruct S as (d1 & m1 & P1 & P2).
    pose proof (P1 r c Hr Hc) as Q1. pose proof (P2 r c Hr Hc) as Q2.
    assert (NS0 : forall d0 i, In d0 dirs8_rc -> 1 <= i -> inside nr nc (straight d0 r c i) ->
              spec_valid (mask (fst (straight d0 r c i)) (snd (straight d0 r c i))) = false).
    { intros d0 i Hd Hi Hin. apply (NS d0 i Hd Hi Hin). }
    assert (NS1 : forall d0 i, In d0 dirs8_rc -> 1 <= i -> inside nr nc (straight d0 r c i) ->
              spec_valid (m1 (fst (straight d0 r c i)) (snd (straight d0 r c i))) = false).
    { intros d0 i Hd Hi Hin. destruct (NS d0 i Hd Hi Hin) as [Dv Df]. apply flagged_false in Df.
      destruct Df as [_ F9]. destruct Hin as [Hp1 Hp2].
      destruct (P1 _ _ Hp1 Hp2) as [[_ [_ Emp]] | [[E9 _] | [E9 _]]]; congruence. }
    assert (U1 : d1 r c = disp r c /\ m1 r c = mask r c).
    { destruct Q1 as [[_ U] | [(E9 & T & _) | (_ & _ & nb & Fnb & [(Hne & _) | (_ & U)])]]; try exact U; exfalso.
      - destruct T as (r' & c' & Hin & Hr' & Hc' & B8).
        destruct (Z.eq_dec r' r) as [->|Nr]; [destruct (Z.eq_dec c' c) as [->|Ncc]|].
        + rewrite B8, E9 in NBp. discriminate.
        + destruct (neighbour_dir r c r c' Hr' Hc') as (d & Hd & Ed). congruence.
          rewrite <- Ed in Hin. destruct (NS d 1 Hd ltac:(lia) Hin) as [_ Df]. rewrite Ed in Df. cbn [fst snd] in Df.
          apply flagged_false in Df. destruct Df. congruence.
        + destruct (neighbour_dir r c r' c' Hr' Hc') as (d & Hd & Ed). congruence.
          rewrite <- Ed in Hin. destruct (NS d 1 Hd ltac:(lia) Hin) as [_ Df]. rewrite Ed in Df. cbn [fst snd] in Df.
          apply flagged_false in Df. destruct Df. congruence.
      - apply Hne. exact (contributes_nothing_in_sight _ _ _ _ _ _ _ _ _ NS0 Fnb). }
    destruct U1 as [Ed Em].
    destruct Q2 as [[_ [Ed' Em']] | [_ (nb & Fnb & [(Hl & _) | (_ & [Ed' Em'])])]].
    - rewrite Ed', Em', Ed, Em. split; reflexivity.
    - exfalso. rewrite (contributes_nothing_in_sight _ _ _ _ _ _ _ _ _ NS1 Fnb) in Hl. cbn in Hl. lia.
    - rewrite Ed', Em', Ed, Em. split; reflexivity.
  Qed.

  Lemma sgm_no_valid_pixel : (forall r c, 0 <= r < nr -> 0 <= c < nc -> spec_valid (mask r c) = false) ->
    forall r c, 0 <= r < nr -> 0 <= c < nc ->
      disp' r c = disp r c /\ (mask' r c = mask r c \/ swapped 9 8 (mask r c) (mask' r c)).
  Proof.
    intros NV r c Hr Hc. destruct S as (d1 & m1 & P1 & P2).
    assert (U1 : forall r c, 0 <= r < nr -> 0 <= c < nc ->
              d1 r c = disp r c /\ (m1 r c = mask r c \/ swapped 9 8 (mask r c) (m1 r c))).
    { intros r0 c0 Hr0 Hc0. specialize (P1 r0 c0 Hr0 Hc0).
      destruct P1 as [[_ [Ed Em]] | [(_ & _ & Ed & Hs) | (_ & _ & nb & Fnb & [(Hne & _) | (_ & [Ed Em])])]]; auto.
      exfalso. apply Hne. eapply contributes_blind; eassumption. }
    assert (NV1 : forall r c, 0 <= r < nr -> 0 <= c < nc -> spec_valid (m1 r c) = false).
    { intros r0 c0 Hr0 Hc0. destruct (U1 r0 c0 Hr0 Hc0) as [_ [-> | Hs]]. apply NV; assumption.
      apply flagged_invalid8. apply (swapped_98_bits _ _ Hs). }
    specialize (P2 r c Hr Hc). destruct (U1 r c Hr Hc) as [Ed Em].
    destruct P2 as [[_ [Ed' Em']] | [_ (nb & Fnb & [(Hl & _) | (_ & [Ed' Em'])])]].
    - rewrite Ed', Em', Ed. split. reflexivity. exact Em.
    - exfalso. rewrite (contributes_blind _ _ _ _ _ _ _ _ _ NV1 Fnb) in Hl. cbn in Hl. lia.
    - rewrite Ed', Em', Ed. split. reflexivity. exact Em.
  Qed.
End SgmClauses.

(* ------------------------------------------------------------------ uint16: no wrap-around *)
Lemma swapped_lor_ldiff : forall a b m m', 0 <= a -> 0 <= b -> a <> b -> swapped a b m m' ->
  m' = Z.lor (Z.ldiff m (2 ^ a)) (2 ^ b).
Proof.
  intros a b m m' Ha Hb Hab H. apply Z.bits_inj'. intros n Hn.
  rewrite H, Z.lor_spec, Z.ldiff_spec, !Z.pow2_bits_eqb by assumption.
  destruct (Z.eqb_spec n a) as [->|Na].
  - rewrite Z.eqb_refl. cbn [negb]. rewrite andb_false_r. cbn [orb].
    destruct (Z.eqb_spec b a); [congruence | reflexivity].
  - destruct (Z.eqb_spec a n); [congruence|]. cbn [negb]. rewrite andb_true_r.
    destruct (Z.eqb_spec n b) as [->|Nb]. rewrite Z.eqb_refl, orb_true_r. reflexivity.
    destruct (Z.eqb_spec b n); [congruence|]. rewrite orb_false_r. reflexivity.
Qed.

Lemma lt_pow2_lor : forall x y k, 0 <= x < 2 ^ k -> 0 <= y < 2 ^ k -> 0 <= Z.lor x y < 2 ^ k.
Proof.
  intros x y k Hx Hy. assert (0 <= Z.lor x y) by (apply Z.lor_nonneg; lia). split. assumption.
  destruct (Z.eq_dec (Z.lor x y) 0) as [->|Hn]. lia.
  assert (Hk : 0 <= k). { destruct (Z_lt_le_dec k 0) as [L|L]; [|exact L]. rewrite Z.pow_neg_r in Hx by exact L. lia. }
  assert (Hk1 : 0 < k).
  { destruct (Z.eq_dec k 0) as [->|]; [|lia]. exfalso. apply Hn.
    assert (x = 0) by (change (2 ^ 0) with 1 in Hx; lia). assert (y = 0) by (change (2 ^ 0) with 1 in Hy; lia).
    subst. reflexivity. }
  apply Z.log2_lt_pow2. lia. rewrite Z.log2_lor by lia.
  assert (Z.log2 x < k). { destruct (Z.eq_dec x 0) as [->|]. cbn. lia. apply Z.log2_lt_pow2; lia. }
  assert (Z.log2 y < k). { destruct (Z.eq_dec y 0) as [->|]. cbn. lia. apply Z.log2_lt_pow2; lia. }
  lia.
Qed.

Lemma ldiff_lt_pow2 : forall m x k, 0 < k -> 0 <= m < 2 ^ k -> 0 <= Z.ldiff m x < 2 ^ k.
Proof.
  intros m x k Hk Hm. assert (N : 0 <= Z.ldiff m x) by (apply Z.ldiff_nonneg; left; lia). split. exact N.
  destruct (Z.eq_dec (Z.ldiff m x) 0) as [->|Hn]. lia.
  apply Z.log2_lt_pow2. lia.
  destruct (Z_lt_le_dec (Z.log2 (Z.ldiff m x)) k) as [L|L]. exact L. exfalso.
  assert (B : Z.testbit (Z.ldiff m x) (Z.log2 (Z.ldiff m x)) = true) by (apply Z.bit_log2; lia).
  rewrite Z.ldiff_spec in B. apply andb_true_iff in B. destruct B as [B _].
  destruct (Z.eq_dec m 0) as [->|Hm0]. rewrite Z.testbit_0_l in B. discriminate.
  rewrite Z.bits_above_log2 in B. discriminate. lia.
  assert (Z.log2 m < k) by (apply Z.log2_lt_pow2; lia). lia.
Qed.

Lemma swapped_range : forall a b m m', 0 <= a -> 0 <= b < 16 -> a <> b -> swapped a b m m' ->
  0 <= m < 65536 -> 0 <= m' < 65536.
Proof.
  intros a b m m' Ha Hb Hab H Hm. rewrite (swapped_lor_ldiff a b m m') by (lia || assumption).
  change 65536 with (2 ^ 16). apply lt_pow2_lor.
  - apply ldiff_lt_pow2. lia. change (2 ^ 16) with 65536. lia.
  - split. apply Z.pow_nonneg. lia. apply Z.pow_lt_mono_r; lia.
Qed.

(* ------------------------------------------------------------------ the clauses, on the model *)
(* pixels whose mask is overwritten by the final mask_border (mc-cnn only, offset > 0) *)
Definition remarked_by (m : method) (nr nc off r c : Z) : bool :=
  match m with McCnn => (0 <? off) && is_border nr nc off r c | Sgm => false end.

Lemma remarked_is_mc : forall m nr nc off r c, remarked_by m nr nc off r c = true ->
  m = McCnn /\ 0 < off /\ is_border nr nc off r c = true.
Proof.
  intros m nr nc off r c H. destruct m; cbn [remarked_by] in H; [|discriminate].
  apply andb_true_iff in H. destruct H as [Ho Hb]. split. reflexivity. split. lia. exact Hb.
Qed.

Section OnModel.
  Variable m : method.
  Variables nr nc off : Z.
  Variable disp : Z -> Z -> option Q.
  Variable mask : Z -> Z -> Z.
  Hypothesis NB : never_both nr nc mask.

  Local Notation disp' := (fst (interp m nr nc off disp mask)).
  Local Notation mask' := (snd (interp m nr nc off disp mask)).

  Lemma interp_only_flagged_change : forall r c, 0 <= r < nr -> 0 <= c < nc ->
    flagged (mask r c) = false ->
    disp' r c = disp r c /\ mask' r c = if remarked_by m nr nc off r c then 1 else mask r c.
  Proof.
    intros r c Hr Hc Hf. destruct m; cbn [remarked_by].
    - exact (mc_only_flagged _ _ _ _ _ _ _ (interp_mc_meets_spec nr nc off disp mask) r c Hr Hc Hf).
    - exact (sgm_only_flagged _ _ _ _ _ _ (interp_sgm_meets_spec nr nc off disp mask NB) r c Hr Hc Hf).
  Qed.

  Lemma interp_flag_swap : forall r c, 0 <= r < nr -> 0 <= c < nc -> remarked_by m nr nc off r c = false ->
    (Z.testbit (mask r c) 8 = true ->
       (mask' r c = mask r c /\ disp' r c = disp r c) \/ swapped 8 4 (mask r c) (mask' r c)) /\
    (Z.testbit (mask r c) 9 = true ->
       (mask' r c = mask r c /\ disp' r c = disp r c) \/ swapped 9 5 (mask r c) (mask' r c) \/
       (m = Sgm /\ swapped 9 8 (mask r c) (mask' r c) /\ disp' r c = disp r c) \/
       (m = Sgm /\ swapped 9 4 (mask r c) (mask' r c))).
  Proof.
    intros r c Hr Hc Hrm. destruct m; cbn [remarked_by] in Hrm.
    - destruct (mc_fate _ _ _ _ _ _ _ (interp_mc_meets_spec nr nc off disp mask) r c Hr Hc Hrm (NB r c Hr Hc)) as [A B].
      split. exact A. intro H. destruct (B H) as [X|X]; auto.
    - destruct (sgm_fate _ _ _ _ _ _ (interp_sgm_meets_spec nr nc off disp mask NB) r c Hr Hc (NB r c Hr Hc)) as [A B].
      split. exact A. intro H. destruct (B H) as [X|[X|[X|X]]]; auto.
  Qed.

  (* the dichotomy of the property: a flagged pixel is either filled or stays flagged with its disparity *)
  Lemma interp_filled_or_stays : forall r c, 0 <= r < nr -> 0 <= c < nc -> remarked_by m nr nc off r c = false ->
    flagged (mask r c) = true ->
    filled (mask r c) (mask' r c) \/ (flagged (mask' r c) = true /\ disp' r c = disp r c).
  Proof.
    intros r c Hr Hc Hrm Hf. destruct (interp_flag_swap r c Hr Hc Hrm) as [A B].
    pose proof (NB r c Hr Hc) as Hnb. unfold flagged in Hf.
    destruct (Z.testbit (mask r c) 8) eqn:E8.
    - cbn [andb] in Hnb. destruct (A eq_refl) as [[Em Ed] | Hs].
      + right. split. rewrite Em. unfold flagged. rewrite E8. reflexivity. exact Ed.
      + left. split. unfold flagged. rewrite E8. reflexivity. apply flagged_false.
        destruct (swapped_84_bits _ _ Hs) as [X Y]. split. exact X. congruence.
    - cbn [orb] in Hf. destruct (B Hf) as [[Em Ed] | [Hs | [(_ & Hs & Ed) | (_ & Hs)]]].
      + right. split. rewrite Em. unfold flagged. rewrite Hf. apply orb_true_r. exact Ed.
      + left. split. unfold flagged. rewrite Hf. apply orb_true_r. apply flagged_false.
        destruct (swapped_95_bits _ _ Hs) as [X Y]. split. congruence. exact X.
      + right. split. unfold flagged. destruct (swapped_98_bits _ _ Hs) as [_ ->]. reflexivity. exact Ed.
      + left. split. unfold flagged. rewrite Hf. apply orb_true_r. apply flagged_false. split.
        rewrite (swapped_bit 9 4 _ _ 8 Hs) by lia. exact E8. apply (swapped_from 9 4 _ _ Hs). lia.
  Qed.

  Lemma interp_other_bits : forall r c, 0 <= r < nr -> 0 <= c < nc -> remarked_by m nr nc off r c = false ->
    forall n, 0 <= n -> n <> 4 -> n <> 5 -> n <> 8 -> n <> 9 ->
      Z.testbit (mask' r c) n = Z.testbit (mask r c) n.
  Proof.
    intros r c Hr Hc Hrm n Hn N4 N5 N8 N9.
    destruct (flagged (mask r c)) eqn:Hf.
    - destruct (interp_flag_swap r c Hr Hc Hrm) as [A B]. unfold flagged in Hf.
      destruct (Z.testbit (mask r c) 8) eqn:E8.
      + destruct (A eq_refl) as [[-> _] | Hs]. reflexivity. apply (swapped_bit 8 4 _ _ n Hs); lia.
      + cbn [orb] in Hf. destruct (B Hf) as [[-> _] | [Hs | [(_ & Hs & _) | (_ & Hs)]]].
        reflexivity. apply (swapped_bit 9 5 _ _ n Hs); lia. apply (swapped_bit 9 8 _ _ n Hs); lia.
        apply (swapped_bit 9 4 _ _ n Hs); lia.
    - destruct (interp_only_flagged_change r c Hr Hc Hf) as [_ E]. rewrite Hrm in E. rewrite E. reflexivity.
  Qed.

  Lemma interp_filled_range : forall lo hi, valid_range nr nc disp mask lo hi ->
    forall r c, 0 <= r < nr -> 0 <= c < nc -> remarked_by m nr nc off r c = false ->
    filled (mask r c) (mask' r c) -> exists q, disp' r c = Some q /\ (lo <= q <= hi)%Q.
  Proof.
    intros lo hi VR r c Hr Hc Hrm Hf. destruct m; cbn [remarked_by] in Hrm.
    - exact (mc_filled_range _ _ _ _ _ _ _ (interp_mc_meets_spec nr nc off disp mask) lo hi VR r c Hr Hc Hrm Hf).
    - exact (sgm_filled_range _ _ _ _ _ _ (interp_sgm_meets_spec nr nc off disp mask NB) lo hi VR r c Hr Hc Hf).
  Qed.

  Lemma interp_filled_needs_valid : forall r c, 0 <= r < nr -> 0 <= c < nc -> remarked_by m nr nc off r c = false ->
    filled (mask r c) (mask' r c) ->
    exists r' c', 0 <= r' < nr /\ 0 <= c' < nc /\ spec_valid (mask r' c') = true.
  Proof.
    intros r c Hr Hc Hrm Hf. destruct m; cbn [remarked_by] in Hrm.
    - exact (mc_filled_needs_valid _ _ _ _ _ _ _ (interp_mc_meets_spec nr nc off disp mask) r c Hr Hc Hrm Hf).
    - exact (sgm_filled_needs_valid _ _ _ _ _ _ (interp_sgm_meets_spec nr nc off disp mask NB) r c Hr Hc Hf).
  Qed.

  (* nothing valid nor fillable along the scan directions of the method: the pixel is left as it was *)
  Lemma interp_nothing_in_sight : forall r c, 0 <= r < nr -> 0 <= c < nc -> remarked_by m nr nc off r c = false ->
    match m with
    | McCnn => nothing_in_sight halfstep dirs16_rc nr nc mask r c
    | Sgm => nothing_in_sight straight dirs8_rc nr nc mask r c
    end ->
    disp' r c = disp r c /\ mask' r c = mask r c.
  Proof.
    intros r c Hr Hc Hrm NS. destruct m; cbn [remarked_by] in Hrm.
    - exact (mc_nothing_in_sight _ _ _ _ _ _ _ (interp_mc_meets_spec nr nc off disp mask) r c Hr Hc Hrm NS).
    - exact (sgm_nothing_in_sight _ _ _ _ _ _ (interp_sgm_meets_spec nr nc off disp mask NB) r c Hr Hc (NB r c Hr Hc) NS).
  Qed.

  (* no valid pixel at all: no disparity changes, no flagged pixel loses its flag *)
  Lemma interp_no_valid_pixel : (forall r c, 0 <= r < nr -> 0 <= c < nc -> spec_valid (mask r c) = false) ->
    forall r c, 0 <= r < nr -> 0 <= c < nc ->
      disp' r c = disp r c /\
      (remarked_by m nr nc off r c = false -> flagged (mask r c) = true -> flagged (mask' r c) = true).
  Proof.
    intros NV r c Hr Hc. destruct m; cbn [remarked_by].
    - destruct (mc_no_valid_pixel _ _ _ _ _ _ _ (interp_mc_meets_spec nr nc off disp mask) NV r c Hr Hc) as [Ed Em].
      split. exact Ed. intros Hrm Hf. unfold remarked in Em. rewrite Hrm in Em. rewrite Em. exact Hf.
    - destruct (sgm_no_valid_pixel _ _ _ _ _ _ (interp_sgm_meets_spec nr nc off disp mask NB) NV r c Hr Hc) as [Ed Em].
      split. exact Ed. intros _ Hf. destruct Em as [-> | Hs]. exact Hf.
      unfold flagged. destruct (swapped_98_bits _ _ Hs) as [_ ->]. reflexivity.
  Qed.

  Lemma interp_border_bit0 : forall r c, 0 <= r < nr -> 0 <= c < nc ->
    (m = McCnn -> 0 < off -> is_border nr nc off r c = true -> mask' r c = 1) /\
    (mask r c = 1 -> mask' r c = 1).
  Proof.
    intros r c Hr Hc. split.
    - intros -> Ho Hb.
      exact (mc_border _ _ _ _ _ _ _ (interp_mc_meets_spec nr nc off disp mask) r c Hr Hc Ho Hb).
    - intro E. assert (Hf : flagged (mask r c) = false) by (rewrite E; reflexivity).
      destruct (interp_only_flagged_change r c Hr Hc Hf) as [_ X]. rewrite X, E.
      destruct (remarked_by m nr nc off r c); reflexivity.
  Qed.

  Lemma interp_no_wrap : forall r c, 0 <= r < nr -> 0 <= c < nc ->
    0 <= mask r c < 65536 -> 0 <= mask' r c < 65536.
  Proof.
    intros r c Hr Hc Hm. destruct (remarked_by m nr nc off r c) eqn:Hrm.
    - assert (E : mask' r c = 1).
      { apply remarked_is_mc in Hrm. destruct Hrm as (Em & Ho & Hb).
        apply (proj1 (interp_border_bit0 r c Hr Hc)); assumption. }
      rewrite E. lia.
    - destruct (flagged (mask r c)) eqn:Hf.
      + destruct (interp_flag_swap r c Hr Hc Hrm) as [A B]. unfold flagged in Hf.
        destruct (Z.testbit (mask r c) 8) eqn:E8.
        * destruct (A eq_refl) as [[-> _] | Hs]. exact Hm. apply (swapped_range 8 4 _ _) in Hs; (lia || assumption).
        * cbn [orb] in Hf. destruct (B Hf) as [[-> _] | [Hs | [(_ & Hs & _) | (_ & Hs)]]]. exact Hm.
          apply (swapped_range 9 5 _ _) in Hs; (lia || assumption).
          apply (swapped_range 9 8 _ _) in Hs; (lia || assumption).
          apply (swapped_range 9 4 _ _) in Hs; (lia || assumption).
      + destruct (interp_only_flagged_change r c Hr Hc Hf) as [_ E]. rewrite Hrm in E. rewrite E. exact Hm.
  Qed.

  Lemma interp_never_both : never_both nr nc mask'.
  Proof.
    intros r c Hr Hc. destruct (remarked_by m nr nc off r c) eqn:Hrm.
    - assert (E : mask' r c = 1).
      { apply remarked_is_mc in Hrm. destruct Hrm as (Em & Ho & Hb).
        apply (proj1 (interp_border_bit0 r c Hr Hc)); assumption. }
      rewrite E. reflexivity.
    - destruct (flagged (mask r c)) eqn:Hf.
      + destruct (interp_filled_or_stays r c Hr Hc Hrm Hf) as [[_ X] | _].
        * apply flagged_false in X. destruct X as [-> _]. reflexivity.
        * destruct (interp_flag_swap r c Hr Hc Hrm) as [A B]. pose proof (NB r c Hr Hc) as Hnb. unfold flagged in Hf.
          destruct (Z.testbit (mask r c) 8) eqn:E8.
          -- cbn [andb] in Hnb. destruct (A eq_refl) as [[-> _] | Hs]. rewrite E8, Hnb. reflexivity.
             destruct (swapped_84_bits _ _ Hs) as [-> _]. reflexivity.
          -- cbn [orb] in Hf. destruct (B Hf) as [[-> _] | [Hs | [(_ & Hs & _) | (_ & Hs)]]].
             rewrite E8. reflexivity.
             destruct (swapped_95_bits _ _ Hs) as [-> _]. apply andb_false_r.
             destruct (swapped_98_bits _ _ Hs) as [-> _]. apply andb_false_r.
             rewrite (swapped_from 9 4 _ _ Hs) by lia. apply andb_false_r.
      + destruct (interp_only_flagged_change r c Hr Hc Hf) as [_ E]. rewrite Hrm in E. rewrite E. apply NB; assumption.
  Qed.
End OnModel.

(* ------------------------------------------------------------------ after the cross-check (validation_run) *)
Lemma xcheck_never_both_all : forall thr me other, ds_nc me <= 2 ^ 63 ->
  never_both (ds_nr me) (ds_nc me) (ds_mask me) ->
  never_both (ds_nr me) (ds_nc me) (ds_mask (xcheck thr me other)).
Proof.
  intros thr me other Hnc NB r c Hr Hc. assert (Hin : in_ds me r c) by (split; assumption).
  destruct (border_at me r c) eqn:Eb.
  - destruct (Z_lt_le_dec 0 (ds_offset me)) as [Ho|Ho].
    + rewrite xcheck_border_bit0 by assumption. reflexivity.
    + exfalso. unfold border_at, is_border in Eb. lia.
  - destruct (spec_valid (ds_mask me r c)) eqn:Ev.
    + apply xcheck_never_both; assumption.
    + rewrite xcheck_invalid_untouched by assumption. apply NB; assumption.
Qed.

Lemma remarked_border_at : forall m me r c, border_at me r c = false ->
  remarked_by m (ds_nr me) (ds_nc me) (ds_offset me) r c = false.
Proof. intros m me r c H. destruct m; cbn [remarked_by]. unfold border_at in H. rewrite H. apply andb_false_r. reflexivity. Qed.

(* interpolation of a dataset that has just been cross-checked *)
Lemma interp_after_xcheck : forall thr m me other, ds_nc me <= 2 ^ 63 ->
  never_both (ds_nr me) (ds_nc me) (ds_mask me) ->
  forall r c, in_ds me r c ->
    (0 < ds_offset me -> border_at me r c = true -> ds_mask (interp_ds m (xcheck thr me other)) r c = 1) /\
    (flagged (ds_mask (xcheck thr me other) r c) = false ->
       ds_disp (interp_ds m (xcheck thr me other)) r c = ds_disp me r c /\
       ds_mask (interp_ds m (xcheck thr me other)) r c = ds_mask (xcheck thr me other) r c) /\
    (0 <= ds_mask me r c < 65536 -> 0 <= ds_mask (interp_ds m (xcheck thr me other)) r c < 65536).
Proof.
  intros thr m me other Hnc NB r c Hin. pose proof Hin as [Hr Hc].
  pose proof (xcheck_never_both_all thr me other Hnc NB) as NBX.
  set (X := xcheck thr me other) in *.
  assert (Enr : ds_nr X = ds_nr me) by reflexivity. assert (Enc : ds_nc X = ds_nc me) by reflexivity.
  assert (Eof : ds_offset X = ds_offset me) by reflexivity. assert (Edd : ds_disp X = ds_disp me) by reflexivity.
  unfold interp_ds. cbn [ds_mask ds_disp]. rewrite Enr, Enc, Eof, Edd.
  assert (B1 : 0 < ds_offset me -> border_at me r c = true -> ds_mask X r c = 1).
  { intros Ho Hb. apply xcheck_border_bit0; assumption. }
  split; [|split].
  - intros Ho Hb.
    apply (proj2 (interp_border_bit0 m (ds_nr me) (ds_nc me) (ds_offset me) (ds_disp me) (ds_mask X) NBX r c Hr Hc)). apply B1; assumption.
  - intro Hf. destruct (interp_only_flagged_change m (ds_nr me) (ds_nc me) (ds_offset me) (ds_disp me) (ds_mask X) NBX r c Hr Hc Hf) as [Ed Em].
    split. exact Ed. rewrite Em.
    destruct (remarked_by m (ds_nr me) (ds_nc me) (ds_offset me) r c) eqn:Hrm; [|reflexivity].
    apply remarked_is_mc in Hrm. destruct Hrm as (_ & Ho & Hb). symmetry. apply B1. exact Ho. exact Hb.
  - intro Hm. apply (interp_no_wrap m (ds_nr me) (ds_nc me) (ds_offset me) (ds_disp me) (ds_mask X) NBX r c Hr Hc).
    apply xcheck_no_wrap; assumption.
Qed.

Lemma validation_interp_run_eq : forall thr m L R,
  validation_interp_run thr m L R
  = (interp_ds m (xcheck thr L R), interp_ds m (xcheck thr R (xcheck thr L R))).
Proof. reflexivity. Qed.

(* ------------------------------------------------------------------ only in-range values are read *)
Lemma flat_map_ext_in : forall {A B} (f g : A -> list B) l, (forall a, In a l -> f a = g a) -> flat_map f l = flat_map g l.
Proof.
  induction l as [|a l IH]; intro H; cbn [flat_map]. reflexivity.
  rewrite (H a) by (left; reflexivity). rewrite IH. reflexivity. intros b Hb. apply H. right. exact Hb.
Qed.

Section Ext.
  Variables nr nc : Z.
  Variables (disp disp2 : Z -> Z -> option Q) (mask mask2 : Z -> Z -> Z).
  Hypothesis Hd : forall r c, 0 <= r < nr -> 0 <= c < nc -> disp r c = disp2 r c.
  Hypothesis Hm : forall r c, 0 <= r < nr -> 0 <= c < nc -> mask r c = mask2 r c.

  Lemma occ_mc_pixel_ext : forall r c, 0 <= r < nr -> 0 <= c < nc ->
    occ_mc_pixel true nc disp mask r c = occ_mc_pixel true nc disp2 mask2 r c.
  Proof.
    intros r c Hr Hc. unfold occ_mc_pixel. rewrite <- (Hm r c Hr Hc), <- (Hd r c Hr Hc).
    destruct (has (mask r c) MSK_OCCLUSION); [|reflexivity].
    assert (E1 : map (fun j => okpix (mask r j)) (zrange 0 (c + 1)) = map (fun j => okpix (mask2 r j)) (zrange 0 (c + 1))).
    { apply map_ext_in. intros j Hj. apply In_zrange in Hj. rewrite Hm by lia. reflexivity. }
    assert (E2 : map (fun j => okpix (mask r j)) (zrange c (nc - c)) = map (fun j => okpix (mask2 r j)) (zrange c (nc - c))).
    { apply map_ext_in. intros j Hj. apply In_zrange in Hj. rewrite Hm by lia. reflexivity. }
    rewrite <- E1, <- E2.
    set (msk := rev (map (fun j => okpix (mask r j)) (zrange 0 (c + 1)))).
    set (msk2 := map (fun j => okpix (mask r j)) (zrange c (nc - c))).
    assert (L1 : Z.of_nat (length msk) = c + 1) by (unfold msk; rewrite rev_length; apply length_map_zrange; lia).
    assert (L2 : Z.of_nat (length msk2) = nc - c) by (apply length_map_zrange; lia).
    pose proof (argmax_range msk) as [A1 A2]. pose proof (argmax_range msk2) as [B1 B2].
    assert (msk <> []) by (intro X; rewrite X in L1; cbn in L1; lia).
    assert (msk2 <> []) by (intro X; rewrite X in L2; cbn in L2; lia).
    specialize (A2 H). specialize (B2 H0).
    destruct (argmax_b msk =? 0).
    - rewrite Hd by lia. reflexivity.
    - rewrite Hd by lia. reflexivity.
  Qed.

  Lemma search_ext : forall P fuel i, search nr nc disp mask P i fuel = search nr nc disp2 mask2 P i fuel.
  Proof.
    intros P. induction fuel as [|f IH]; intro i; cbn [search]. reflexivity.
    destruct (edge nr nc (fst (P i)) (snd (P i))) eqn:Ee. reflexivity.
    assert (Hin : inside nr nc (P i)) by (apply edge_inside; exact Ee). destruct Hin as [H1 H2].
    rewrite <- Hm, <- Hd by assumption. rewrite IH. reflexivity.
  Qed.

  Lemma mc_neighbors_ext : forall r c, mc_neighbors true nr nc disp mask r c = mc_neighbors true nr nc disp2 mask2 r c.
  Proof.
    intros r c. unfold mc_neighbors. apply map_ext. intro h. rewrite !mc_path_search. rewrite search_ext. reflexivity.
  Qed.

  Lemma fvn_ext : forall r c, find_valid_neighbors nr nc disp mask c r = find_valid_neighbors nr nc disp2 mask2 c r.
  Proof.
    intros r c. unfold find_valid_neighbors. apply map_ext. intro d.
    pose proof (fvn_path_search nr nc disp mask (fst d) (snd d) r c (Z.to_nat (max_path_length nr nc)) 0) as E1.
    pose proof (fvn_path_search nr nc disp2 mask2 (fst d) (snd d) r c (Z.to_nat (max_path_length nr nc)) 0) as E2.
    rewrite !Z.mul_0_r, !Z.add_0_r in E1, E2. rewrite E1, E2, search_ext. reflexivity.
  Qed.

  Lemma mis_mc_pixel_ext : forall r c, 0 <= r < nr -> 0 <= c < nc ->
    mis_mc_pixel true nr nc disp mask r c = mis_mc_pixel true nr nc disp2 mask2 r c.
  Proof.
    intros r c Hr Hc. unfold mis_mc_pixel. rewrite <- (Hm r c Hr Hc), <- (Hd r c Hr Hc), <- mc_neighbors_ext. reflexivity.
  Qed.

  Lemma occ_sgm_pixel_ext : forall r c, 0 <= r < nr -> 0 <= c < nc ->
    occ_sgm_pixel true nr nc disp mask r c = occ_sgm_pixel true nr nc disp2 mask2 r c.
  Proof.
    intros r c Hr Hc. unfold occ_sgm_pixel. rewrite <- (Hm r c Hr Hc), <- (Hd r c Hr Hc), <- fvn_ext. reflexivity.
  Qed.

  Lemma occ_neighbor_ext : forall r c, 0 <= r < nr -> 0 <= c < nc ->
    occ_neighbor nr nc mask r c = occ_neighbor nr nc mask2 r c.
  Proof.
    intros r c Hr Hc. unfold occ_neighbor. f_equal. f_equal. f_equal.
    apply flat_map_ext_in. intros r' Hr'. apply In_zrange in Hr'.
    apply map_ext_in. intros c' Hc'. apply In_zrange in Hc'. rewrite Hm by lia. reflexivity.
  Qed.

  Lemma mis_sgm_pixel_ext : forall r c, 0 <= r < nr -> 0 <= c < nc ->
    mis_sgm_pixel true nr nc disp mask r c = mis_sgm_pixel true nr nc disp2 mask2 r c.
  Proof.
    intros r c Hr Hc. unfold mis_sgm_pixel.
    rewrite <- (Hm r c Hr Hc), <- (Hd r c Hr Hc), <- fvn_ext, <- (occ_neighbor_ext r c Hr Hc). reflexivity.
  Qed.
End Ext.

(* the outputs at the pixels of the map depend only on the values at the pixels of the map *)
Theorem interp_ext : forall m nr nc off disp mask disp2 mask2,
  (forall r c, 0 <= r < nr -> 0 <= c < nc -> disp r c = disp2 r c) ->
  (forall r c, 0 <= r < nr -> 0 <= c < nc -> mask r c = mask2 r c) ->
  forall r c, 0 <= r < nr -> 0 <= c < nc ->
    fst (interp m nr nc off disp mask) r c = fst (interp m nr nc off disp2 mask2) r c /\
    snd (interp m nr nc off disp mask) r c = snd (interp m nr nc off disp2 mask2) r c.
Proof.
  intros m nr nc off disp mask disp2 mask2 Hd Hm r c Hr Hc. unfold interp, interp_gen. destruct m.
  - set (k1 := occ_mc_pixel true nc disp mask). set (k1' := occ_mc_pixel true nc disp2 mask2).
    assert (Ed1 : forall r c, 0 <= r < nr -> 0 <= c < nc -> kernel_disp nr nc k1 r c = kernel_disp nr nc k1' r c).
    { intros r0 c0 Hr0 Hc0. rewrite !kernel_disp_in by assumption. unfold k1, k1'.
      rewrite (occ_mc_pixel_ext nr nc disp disp2 mask mask2 Hd Hm) by assumption. reflexivity. }
    assert (Em1 : forall r c, 0 <= r < nr -> 0 <= c < nc -> kernel_val nr nc k1 r c = kernel_val nr nc k1' r c).
    { intros r0 c0 Hr0 Hc0. rewrite !kernel_val_in by assumption. unfold k1, k1'.
      rewrite (occ_mc_pixel_ext nr nc disp disp2 mask mask2 Hd Hm) by assumption. reflexivity. }
    cbn [fst snd]. split.
    + rewrite !kernel_disp_in by assumption. rewrite (mis_mc_pixel_ext nr nc _ _ _ _ Ed1 Em1) by assumption. reflexivity.
    + destruct (0 <? off) eqn:Eo.
      * rewrite !mask_border_spec by lia. rewrite !kernel_val_in by assumption.
        rewrite (mis_mc_pixel_ext nr nc _ _ _ _ Ed1 Em1) by assumption. reflexivity.
      * rewrite !kernel_val_in by assumption. rewrite (mis_mc_pixel_ext nr nc _ _ _ _ Ed1 Em1) by assumption. reflexivity.
  - set (k1 := mis_sgm_pixel true nr nc disp mask). set (k1' := mis_sgm_pixel true nr nc disp2 mask2).
    assert (Ed1 : forall r c, 0 <= r < nr -> 0 <= c < nc -> kernel_disp nr nc k1 r c = kernel_disp nr nc k1' r c).
    { intros r0 c0 Hr0 Hc0. rewrite !kernel_disp_in by assumption. unfold k1, k1'.
      rewrite (mis_sgm_pixel_ext nr nc disp disp2 mask mask2 Hd Hm) by assumption. reflexivity. }
    assert (Em1 : forall r c, 0 <= r < nr -> 0 <= c < nc -> kernel_val nr nc k1 r c = kernel_val nr nc k1' r c).
    { intros r0 c0 Hr0 Hc0. rewrite !kernel_val_in by assumption. unfold k1, k1'.
      rewrite (mis_sgm_pixel_ext nr nc disp disp2 mask mask2 Hd Hm) by assumption. reflexivity. }
    cbn [fst snd]. split.
    + rewrite !kernel_disp_in by assumption. rewrite (occ_sgm_pixel_ext nr nc _ _ _ _ Ed1 Em1) by assumption. reflexivity.
    + rewrite !kernel_val_in by assumption. rewrite (occ_sgm_pixel_ext nr nc _ _ _ _ Ed1 Em1) by assumption. reflexivity.
Qed.
