(* Proofs for C14: the model of the four interpolation kernels (Model/Interp.v, the tree
   under test: fx = true) meets Spec/Interp.v pixel by pixel, for every map size, and the
   clauses of the property sentence follow from the Spec. *)
From Coq Require Import ZArith QArith Qabs List Bool Lia Lqa ZifyBool Sorted Permutation.
From Pandora Require Import Model.CrossCheck Spec.CrossCheck Proofs.CrossCheckP Model.Interp Spec.Interp.
Import ListNotations.
Open Scope Z_scope.

(* ------------------------------------------------------------------ lists, freeze *)

Lemma nth_map_seq : forall {A} (g : nat -> A) n k d, (k < n)%nat -> nth k (map g (seq 0 n)) d = g k.
Proof.
  intros A g n k d H. rewrite (nth_indep _ d (g 0%nat)) by (rewrite map_length, seq_length; exact H).
  rewrite map_nth, seq_nth by exact H. reflexivity.
Qed.

Lemma nth_map_zrange0 : forall {A} (g : Z -> A) a n i d, 0 <= i < n ->
  nth (Z.to_nat i) (map g (zrange a n)) d = g (a + i).
Proof.
  intros A g a n i d H. unfold zrange. rewrite map_map.
  rewrite nth_map_seq by lia. f_equal. lia.
Qed.

Lemma length_map_zrange : forall {A} (g : Z -> A) a n, 0 <= n -> Z.of_nat (length (map g (zrange a n))) = n.
Proof. intros. unfold zrange. rewrite !map_length, seq_length. lia. Qed.

Lemma freeze_in : forall {A} (d : A) n0 n1 f i j, 0 <= i < n0 -> 0 <= j < n1 ->
  freeze d n0 n1 f i j = f i j.
Proof.
  intros A d n0 n1 f i j Hi Hj. unfold freeze.
  replace ((i <? 0) || (j <? 0)) with false by lia.
  rewrite (nth_map_zrange0 (fun i => map (fun j => f i j) (zrange 0 n1))) by lia.
  rewrite (nth_map_zrange0 (fun j => f (0 + i) j)) by lia. f_equal; lia.
Qed.

(* np.argmax of a boolean vector *)
Lemma first_true_spec : forall l s,
  match first_true l s with
  | Some i => s <= i < s + Z.of_nat (length l) /\ nthb l (i - s) = true /\
              forall t, s <= t < i -> nthb l (t - s) = false
  | None => forall t, 0 <= t < Z.of_nat (length l) -> nthb l t = false
  end.
Proof.
  induction l as [|b l IH]; intros s; cbn [first_true length].
  - intros t Ht. lia.
  - destruct b.
    + split. lia. split. unfold nthb. replace (s - s) with 0 by lia. reflexivity. intros; lia.
    + specialize (IH (s + 1)). destruct (first_true l (s + 1)) as [i|].
      * destruct IH as (H1 & H2 & H3). split. lia. split.
        { unfold nthb in *. replace (Z.to_nat (i - s)) with (S (Z.to_nat (i - (s + 1)))) by lia. exact H2. }
        intros t Ht. destruct (Z.eq_dec t s) as [->|].
        { unfold nthb. replace (s - s) with 0 by lia. reflexivity. }
        unfold nthb in *. replace (Z.to_nat (t - s)) with (S (Z.to_nat (t - (s + 1)))) by lia.
        apply H3. lia.
      * intros t Ht. destruct (Z.eq_dec t 0) as [->|]. reflexivity.
        unfold nthb in *. replace (Z.to_nat t) with (S (Z.to_nat (t - 1))) by lia. apply IH. lia.
Qed.

Lemma nthb_map_zrange : forall (g : Z -> bool) a n t, 0 <= t < n -> nthb (map g (zrange a n)) t = g (a + t).
Proof. intros. unfold nthb. apply nth_map_zrange0. assumption. Qed.

Lemma nthb_rev_map_zrange : forall (g : Z -> bool) n t, 0 <= t < n ->
  nthb (rev (map g (zrange 0 n))) t = g (n - 1 - t).
Proof.
  intros g n t H. unfold nthb.
  assert (L : length (map g (zrange 0 n)) = Z.to_nat n) by (unfold zrange; rewrite !map_length, seq_length; reflexivity).
  rewrite rev_nth by lia. rewrite L.
  replace (Z.to_nat n - S (Z.to_nat t))%nat with (Z.to_nat (n - 1 - t)) by lia.
  rewrite nth_map_zrange0 by lia. f_equal.
Qed.

(* argmax over a vector (g (a)), ..., (g (a+n-1)): the first true index, or none *)
Lemma argmax_cases : forall l,
  (nthb l (argmax_b l) = true /\ forall t, 0 <= t < argmax_b l -> nthb l t = false) \/
  (argmax_b l = 0 /\ forall t, 0 <= t < Z.of_nat (length l) -> nthb l t = false).
Proof.
  intro l. unfold argmax_b. pose proof (first_true_spec l 0) as H.
  destruct (first_true l 0) as [i|].
  - left. destruct H as (H1 & H2 & H3). rewrite Z.sub_0_r in H2. split. exact H2.
    intros t Ht. specialize (H3 t Ht). rewrite Z.sub_0_r in H3. exact H3.
  - right. split. reflexivity. exact H.
Qed.

Lemma argmax_range : forall l, 0 <= argmax_b l /\ (l <> [] -> argmax_b l < Z.of_nat (length l)).
Proof.
  intro l. unfold argmax_b. pose proof (first_true_spec l 0) as H.
  destruct (first_true l 0) as [i|].
  - destruct H as (H1 & _). lia.
  - split. lia. intro Hn. destruct l. congruence. cbn [length]. lia.
Qed.

(* ------------------------------------------------------------------ bits *)

Lemma has_testbit : forall v k, 0 <= k -> has v (2 ^ k) = Z.testbit v k.
Proof.
  intros v k Hk. unfold has.
  assert (E : Z.land v (2 ^ k) = if Z.testbit v k then 2 ^ k else 0).
  { apply Z.bits_inj'. intros n Hn. rewrite Z.land_spec, Z.pow2_bits_eqb by exact Hk.
    destruct (Z.eqb_spec k n) as [->|Hne].
    - destruct (Z.testbit v n) eqn:E. rewrite Z.pow2_bits_true by exact Hn. reflexivity.
      rewrite Z.testbit_0_l. reflexivity.
    - rewrite andb_false_r. destruct (Z.testbit v k).
      rewrite Z.pow2_bits_false by (exact Hne). reflexivity. rewrite Z.testbit_0_l. reflexivity. }
  rewrite E. destruct (Z.testbit v k). 2: reflexivity.
  assert (0 < 2 ^ k) by (apply Z.pow_pos_nonneg; lia).
  destruct (Z.eqb_spec (2 ^ k) 0); [lia | reflexivity].
Qed.

Lemma has_occ : forall v, has v MSK_OCCLUSION = Z.testbit v 8.
Proof. intro v. change MSK_OCCLUSION with (2 ^ 8). apply has_testbit. lia. Qed.
Lemma has_mis : forall v, has v MSK_MISMATCH = Z.testbit v 9.
Proof. intro v. change MSK_MISMATCH with (2 ^ 9). apply has_testbit. lia. Qed.

Lemma okpix_spec : forall v, okpix v = spec_valid v.
Proof. intro v. exact (is_valid_spec v). Qed.

(* v -= 2^a ; v |= 2^b   when bit a is set: bit a cleared, bit b set, nothing else moves *)
Lemma sub_lor_swapped : forall a b v, 0 <= a -> 0 <= b -> a <> b -> Z.testbit v a = true ->
  swapped a b v (Z.lor (v - 2 ^ a) (2 ^ b)).
Proof.
  intros a b v Ha Hb Hab Hv.
  assert (E : v - 2 ^ a = Z.ldiff v (2 ^ a)).
  { apply Z.sub_nocarry_ldiff. apply Z.bits_inj'. intros n Hn.
    rewrite Z.ldiff_spec, Z.pow2_bits_eqb, Z.testbit_0_l by exact Ha.
    destruct (Z.eqb_spec a n) as [->|]. rewrite Hv. reflexivity. reflexivity. }
  rewrite E. intros n Hn. rewrite Z.lor_spec, Z.ldiff_spec, !Z.pow2_bits_eqb by assumption.
  destruct (Z.eqb_spec n a) as [->|Hna].
  - rewrite Z.eqb_refl. cbn. destruct (Z.eqb_spec b a); [congruence | rewrite andb_false_r; reflexivity].
  - destruct (Z.eqb_spec a n); [congruence|]. cbn [negb]. rewrite andb_true_r.
    destruct (Z.eqb_spec n b) as [->|Hnb].
    + rewrite Z.eqb_refl. apply orb_true_r.
    + destruct (Z.eqb_spec b n); [congruence|]. apply orb_false_r.
Qed.

(* v -= 2^a ; v += 2^b   when bit a is set and bit b clear: the same swap, no carry *)
Lemma sub_add_swapped : forall a b v, 0 <= a -> 0 <= b -> a <> b ->
  Z.testbit v a = true -> Z.testbit v b = false ->
  swapped a b v (v - 2 ^ a + 2 ^ b).
Proof.
  intros a b v Ha Hb Hab Hva Hvb.
  assert (E : v - 2 ^ a + 2 ^ b = Z.lor (v - 2 ^ a) (2 ^ b)).
  { pose proof (sub_lor_swapped a b v Ha Hb Hab Hva) as S.
    assert (N : Z.land (v - 2 ^ a) (2 ^ b) = 0).
    { apply Z.bits_inj'. intros n Hn. rewrite Z.land_spec, Z.testbit_0_l, Z.pow2_bits_eqb by exact Hb.
      destruct (Z.eqb_spec b n) as [<-|]. 2: apply andb_false_r.
      rewrite andb_true_r.
      assert (E : v - 2 ^ a = Z.ldiff v (2 ^ a)).
      { apply Z.sub_nocarry_ldiff. apply Z.bits_inj'. intros n Hn'.
        rewrite Z.ldiff_spec, Z.pow2_bits_eqb, Z.testbit_0_l by exact Ha.
        destruct (Z.eqb_spec a n) as [->|]. rewrite Hva. reflexivity. reflexivity. }
      rewrite E, Z.ldiff_spec, Hvb. reflexivity. }
    rewrite Z.add_nocarry_lxor by exact N. apply Z.lxor_lor. exact N. }
  rewrite E. apply sub_lor_swapped; assumption.
Qed.

Lemma swapped_unique : forall a b m m1 m2, swapped a b m m1 -> swapped a b m m2 -> m1 = m2.
Proof.
  intros a b m m1 m2 H1 H2. apply Z.bits_inj'. intros n Hn. rewrite H1, H2 by exact Hn. reflexivity.
Qed.

Lemma swapped_bit : forall a b m m' n, swapped a b m m' -> 0 <= n -> n <> a -> n <> b ->
  Z.testbit m' n = Z.testbit m n.
Proof.
  intros a b m m' n H Hn Ha Hb. rewrite H by exact Hn.
  destruct (Z.eqb_spec n a); [congruence|]. destruct (Z.eqb_spec n b); [congruence|]. reflexivity.
Qed.
Lemma swapped_from : forall a b m m', swapped a b m m' -> 0 <= a -> Z.testbit m' a = false.
Proof. intros a b m m' H Ha. rewrite H by exact Ha. rewrite Z.eqb_refl. reflexivity. Qed.
Lemma swapped_to : forall a b m m', swapped a b m m' -> 0 <= b -> a <> b -> Z.testbit m' b = true.
Proof.
  intros a b m m' H Hb Hab. rewrite H by exact Hb. destruct (Z.eqb_spec b a); [congruence|].
  rewrite Z.eqb_refl. reflexivity.
Qed.

Lemma swap_occ : forall v, Z.testbit v 8 = true ->
  swapped 8 4 v (raise true (v - MSK_OCCLUSION * b2z true) (MSK_FILLED_OCCLUSION * b2z true)).
Proof.
  intros v H. unfold raise, b2z. rewrite !Z.mul_1_r.
  change MSK_OCCLUSION with (2 ^ 8). change MSK_FILLED_OCCLUSION with (2 ^ 4).
  apply sub_lor_swapped; (lia || exact H).
Qed.
Lemma swap_occ' : forall v, Z.testbit v 8 = true ->
  swapped 8 4 v (raise true (v - MSK_OCCLUSION) MSK_FILLED_OCCLUSION).
Proof.
  intros v H. unfold raise. change MSK_OCCLUSION with (2 ^ 8). change MSK_FILLED_OCCLUSION with (2 ^ 4).
  apply sub_lor_swapped; (lia || exact H).
Qed.
Lemma swap_mis : forall v, Z.testbit v 9 = true ->
  swapped 9 5 v (raise true (v - MSK_MISMATCH) MSK_FILLED_MISMATCH).
Proof.
  intros v H. unfold raise. change MSK_MISMATCH with (2 ^ 9). change MSK_FILLED_MISMATCH with (2 ^ 5).
  apply sub_lor_swapped; (lia || exact H).
Qed.
Lemma swap_mis_occ : forall v, Z.testbit v 9 = true -> Z.testbit v 8 = false ->
  swapped 9 8 v (v - MSK_MISMATCH + MSK_OCCLUSION).
Proof.
  intros v H9 H8. change MSK_MISMATCH with (2 ^ 9). change MSK_OCCLUSION with (2 ^ 8).
  apply sub_add_swapped; (lia || assumption).
Qed.
Lemma raise_none : forall v, raise true (v - MSK_OCCLUSION * b2z false) (MSK_FILLED_OCCLUSION * b2z false) = v.
Proof. intro v. unfold raise, b2z. rewrite !Z.mul_0_r, Z.sub_0_r, Z.lor_0_r. reflexivity. Qed.

Lemma flagged_invalid8 : forall v, Z.testbit v 8 = true -> spec_valid v = false.
Proof.
  intros v H. destruct (spec_valid v) eqn:E; [|reflexivity].
  apply spec_valid_bits in E. destruct E as (_ & E & _). congruence.
Qed.
Lemma flagged_invalid9 : forall v, Z.testbit v 9 = true -> spec_valid v = false.
Proof.
  intros v H. destruct (spec_valid v) eqn:E; [|reflexivity].
  apply spec_valid_bits in E. destruct E as (_ & _ & E & _). congruence.
Qed.

(* ------------------------------------------------------------------ the four kernels, one pixel *)
Section Px.
  Variables nr nc : Z.
  Variable disp : Z -> Z -> option Q.
  Variable mask : Z -> Z -> Z.

  Local Notation inside := (inside nr nc).
  Local Notation valid_at := (valid_at mask).

  (* ---- mc-cnn occlusion *)
  Lemma occ_mc_meets : forall r c, 0 <= r < nr -> 0 <= c < nc ->
    mc_occlusion_px nr nc disp mask r c (fst (occ_mc_pixel true nc disp mask r c))
                    (snd (occ_mc_pixel true nc disp mask r c)).
  Proof.
    intros r c Hr Hc. unfold occ_mc_pixel, mc_occlusion_px. rewrite has_occ.
    destruct (Z.testbit (mask r c) 8) eqn:E8.
    2:{ left. split. reflexivity. split; reflexivity. }
    right. split. reflexivity.
    pose proof (flagged_invalid8 _ E8) as Hself.
    set (msk := rev (map (fun j => okpix (mask r j)) (zrange 0 (c + 1)))).
    assert (Lm : Z.of_nat (length msk) = c + 1).
    { unfold msk. rewrite rev_length. apply length_map_zrange. lia. }
    assert (Nm : forall t, 0 <= t <= c -> nthb msk t = spec_valid (mask r (c - t))).
    { intros t Ht. unfold msk. rewrite nthb_rev_map_zrange by lia. rewrite okpix_spec. f_equal. f_equal. lia. }
    destruct (argmax_cases msk) as [[Ht Hbefore] | [H0 Hnone]].
    - (* a valid pixel to the left *)
      pose proof (argmax_range msk) as [Ra Rb].
      assert (msk <> []) as Hne by (intro X; rewrite X in Lm; cbn in Lm; lia).
      specialize (Rb Hne). rewrite Lm in Rb.
      assert (Hk : argmax_b msk <> 0).
      { intro X. rewrite X in Ht. rewrite Nm in Ht by lia. rewrite Z.sub_0_r in Ht. congruence. }
      destruct (Z.eqb_spec (argmax_b msk) 0) as [X|_]; [contradiction|].
      rewrite Ht. cbn [fst snd]. left. exists (argmax_b msk). split; [|split].
      + split. lia. split; [|split].
        * intros j Hj. unfold leftwards, Spec.Interp.inside. cbn [fst snd]. lia.
        * unfold Spec.Interp.valid_at, leftwards. cbn [fst snd]. rewrite <- Nm by lia. exact Ht.
        * intros j Hj. unfold Spec.Interp.valid_at, leftwards. cbn [fst snd].
          rewrite <- Nm by lia. rewrite Hbefore by lia. discriminate.
      + reflexivity.
      + apply swap_occ. exact E8.
    - (* none to the left *)
      rewrite H0. cbn [Z.eqb].
      assert (NL : no_valid nr nc mask (leftwards r c)).
      { intros k Hk Hin. specialize (Hin k ltac:(lia)). unfold leftwards, Spec.Interp.inside in Hin.
        cbn [fst snd] in Hin. unfold Spec.Interp.valid_at, leftwards. cbn [fst snd].
        rewrite <- Nm by lia. rewrite Hnone by lia. discriminate. }
      set (msk2 := map (fun j => okpix (mask r j)) (zrange c (nc - c))).
      assert (Lm2 : Z.of_nat (length msk2) = nc - c) by (apply length_map_zrange; lia).
      assert (Nm2 : forall t, 0 <= t < nc - c -> nthb msk2 t = spec_valid (mask r (c + t))).
      { intros t Ht. unfold msk2. rewrite nthb_map_zrange by lia. apply okpix_spec. }
      destruct (argmax_cases msk2) as [[Ht Hbefore] | [H02 Hnone2]].
      + pose proof (argmax_range msk2) as [Ra Rb].
        assert (msk2 <> []) as Hne by (intro X; rewrite X in Lm2; cbn in Lm2; lia).
        specialize (Rb Hne). rewrite Lm2 in Rb.
        assert (Hk : argmax_b msk2 <> 0).
        { intro X. rewrite X in Ht. rewrite Nm2 in Ht by lia. rewrite Z.add_0_r in Ht. congruence. }
        rewrite Ht. cbn [fst snd]. right. left. split. exact NL.
        exists (argmax_b msk2). split; [|split].
        * split. lia. split; [|split].
          -- intros j Hj. unfold rightwards, Spec.Interp.inside. cbn [fst snd]. lia.
          -- unfold Spec.Interp.valid_at, rightwards. cbn [fst snd]. rewrite <- Nm2 by lia. exact Ht.
          -- intros j Hj. unfold Spec.Interp.valid_at, rightwards. cbn [fst snd].
             rewrite <- Nm2 by lia. rewrite Hbefore by lia. discriminate.
        * reflexivity.
        * apply swap_occ. exact E8.
      + rewrite H02. rewrite (Hnone2 0) by lia. cbn [fst snd]. right. right.
        split. exact NL. split.
        * intros k Hk Hin. specialize (Hin k ltac:(lia)). unfold rightwards, Spec.Interp.inside in Hin.
          cbn [fst snd] in Hin. unfold Spec.Interp.valid_at, rightwards. cbn [fst snd].
          rewrite <- Nm2 by lia. rewrite Hnone2 by lia. discriminate.
        * split. rewrite Z.add_0_r. reflexivity. apply raise_none.
  Qed.
End Px.
