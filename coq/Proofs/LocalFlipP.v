(* C13, last clause -- "flipping both images vertically changes nothing but the orientation of the result".

   Every step of Model/Local.v commutes with the vertical flip of the raster of pixel states (Spec/Local.v [vflip],
   [flip_ok]), at EVERY pixel of the raster (first and last rows, image margins included: no cone condition),
   hence so does every pipeline of these steps.

   In which sense "the same result".  A disparity is a rational held as a fraction (Q): the median of an even
   number of values is (a + b) * (1 # 2), a bilateral mean is a quotient of two sums -- as fractions these depend
   on the order in which the window is read (2/4 vs 1/2), as numbers they do not.  The results are therefore
   compared with [pix_eqv]: radiometry, masks, cost curves and validity flags EQUAL, the two disparities the same
   rational NUMBER (Qeq).  Every step is shown to respect this relation on its input as well (a step reads the
   disparities only as numbers), which is what makes the statement compose along a pipeline. *)
From Coq Require Import ZArith QArith Qround Qabs List Bool Lia Permutation Morphisms.
From Pandora Require Import Lib.Ext Lib.Arr Lib.Blocks Spec.Local Proofs.LocalP Model.Local Proofs.LocalStepsP.
From Pandora Require Model.MatchingCost Model.Criteria Model.Wta Model.Refine Model.Filters Model.CrossCheck.
From Pandora Require Spec.Cost Spec.CrossCheck Proofs.MatchingCostP Proofs.CensusP Proofs.ZnccP Proofs.LocalCostP Proofs.CrossCheckP.
Import ListNotations.
Open Scope Z_scope.

(* ------------------------------------------------------------------ the relation on pixel states *)

Definition oq_eqv (a b : option Q) : Prop :=
  match a, b with
  | Some x, Some y => (x == y)%Q
  | None, None => True
  | _, _ => False
  end.

Definition pix_eqv (p q : pix) : Prop :=
  img_of p = img_of q /\ p_cvL p = p_cvL q /\ p_cvR p = p_cvR q /\
  oq_eqv (p_dL p) (p_dL q) /\ oq_eqv (p_dR p) (p_dR q) /\ p_fL p = p_fL q /\ p_fR p = p_fR q.

Lemma oq_eqv_refl : forall a, oq_eqv a a.
Proof. intros [x|]; cbn; [reflexivity|exact I]. Qed.
Lemma oq_eqv_sym : forall a b, oq_eqv a b -> oq_eqv b a.
Proof. intros [x|] [y|]; cbn; try tauto. intro H. symmetry. exact H. Qed.
Lemma oq_eqv_trans : forall a b c, oq_eqv a b -> oq_eqv b c -> oq_eqv a c.
Proof. intros [x|] [y|] [z|]; cbn; try tauto. intros H1 H2. rewrite H1. exact H2. Qed.
Lemma oq_eqv_eq : forall a b, a = b -> oq_eqv a b.
Proof. intros a b ->. apply oq_eqv_refl. Qed.
Lemma oq_eqv_none : forall a b, oq_eqv a b -> Filters.is_none a = Filters.is_none b.
Proof. intros [x|] [y|]; cbn; tauto. Qed.

Lemma pix_eqv_refl : forall p, pix_eqv p p.
Proof. intro p. unfold pix_eqv. repeat split; try reflexivity; apply oq_eqv_refl. Qed.

Lemma pix_eqv_fields : forall p q, pix_eqv p q ->
  p_L p = p_L q /\ p_R p = p_R q /\ p_mL p = p_mL q /\ p_mR p = p_mR q.
Proof. intros p q (H & _). apply img_of_fields. exact H. Qed.

(* ------------------------------------------------------------------ the calculus: rasters, steps, pipelines *)

Lemma frow_in : forall A (F : frame A) r c, in_frame F r c -> in_frame F (frow F r) c.
Proof. intros A F r c [Hr Hc]. unfold in_frame, frow. lia. Qed.
Lemma frow_invol : forall A (F : frame A) r, frow F (frow F r) = r.
Proof. intros. unfold frow. lia. Qed.

Lemma vflip_flipped : forall A (E : A -> A -> Prop) (F : frame A), (forall a, E a a) -> flipped E (vflip F) F.
Proof. intros A E F Hrefl. unfold flipped, vflip. cbn [f_nr f_nc f_at]. repeat split. intros. apply Hrefl. Qed.

Lemma flipped_lift : forall A (E : A -> A -> Prop) (f : op A A) F' F,
  flip_ok E f -> flipped E F' F -> flipped E (lift f F') (lift f F).
Proof.
  intros A E f F' F Hf HF. pose proof HF as (E1 & E2 & _). unfold flipped, lift. cbn [f_nr f_nc f_at].
  repeat split; try assumption. intros r c Hin. change (frow (mkFrame (f_nr F) (f_nc F) (f F)) r) with (frow F r).
  apply Hf; assumption.
Qed.

(* every pipeline of steps that commute with the flip commutes with the flip *)
Theorem pipeline_flip : forall A (E : A -> A -> Prop) (steps : list (op A A)),
  Forall (flip_ok E) steps -> flip_ok E (run_pipe steps).
Proof.
  intros A E steps H. induction H as [|s rest Hs Hrest IH].
  - intros F' F (_ & _ & HF) r c Hin. cbn [run_pipe]. apply HF. exact Hin.
  - intros F' F HF r c Hin. cbn [run_pipe]. unfold comp.
    change (frow F r) with (frow (lift s F) r). apply IH.
    + apply flipped_lift; assumption.
    + exact Hin.
Qed.

Theorem flip_ok_vflip : forall A (E : A -> A -> Prop) (f : op A A),
  (forall a, E a a) -> flip_ok E f -> vflip_commutes E f.
Proof. intros A E f Hrefl Hf F r c Hin. apply Hf; [apply vflip_flipped; exact Hrefl|exact Hin]. Qed.

(* a step that rewrites each pixel from its own state only *)
Lemma pointwise_flip : forall (g : pix -> pix) (f : op pix pix),
  (forall F r c, f F r c = g (f_at F r c)) -> (forall p q, pix_eqv p q -> pix_eqv (g p) (g q)) ->
  flip_ok pix_eqv f.
Proof. intros g f Hf Hg F' F (_ & _ & HF) r c Hin. rewrite !Hf. apply Hg. apply HF. exact Hin. Qed.

(* ------------------------------------------------------------------ reading a flipped raster *)

Section Flipped.
  Variables (F' F : frame pix).
  Hypothesis HF : flipped pix_eqv F' F.

  Lemma fl_nr : f_nr F' = f_nr F. Proof. exact (proj1 HF). Qed.
  Lemma fl_nc : f_nc F' = f_nc F. Proof. exact (proj1 (proj2 HF)). Qed.
  Lemma fl_at : forall r c, in_frame F r c -> pix_eqv (f_at F' r c) (f_at F (frow F r) c).
  Proof. exact (proj2 (proj2 HF)). Qed.

  (* the fields that are compared with equality *)
  Lemma fl_fld : forall {B} (g : pix -> B), (forall p q, pix_eqv p q -> g p = g q) ->
    forall r c, 0 <= r < f_nr F -> 0 <= c < f_nc F -> fld g F' r c = fld g F (frow F r) c.
  Proof. intros B g Hg r c Hr Hc. unfold fld. apply Hg. apply fl_at. split; assumption. Qed.
End Flipped.

Lemma eqv_L : forall p q, pix_eqv p q -> p_L p = p_L q. Proof. intros p q H. apply (pix_eqv_fields p q H). Qed.
Lemma eqv_R : forall p q, pix_eqv p q -> p_R p = p_R q. Proof. intros p q H. apply (pix_eqv_fields p q H). Qed.
Lemma eqv_mL : forall p q, pix_eqv p q -> p_mL p = p_mL q. Proof. intros p q H. apply (pix_eqv_fields p q H). Qed.
Lemma eqv_mR : forall p q, pix_eqv p q -> p_mR p = p_mR q. Proof. intros p q H. apply (pix_eqv_fields p q H). Qed.
Lemma eqv_cvL : forall p q, pix_eqv p q -> p_cvL p = p_cvL q. Proof. intros p q H. apply H. Qed.
Lemma eqv_cvR : forall p q, pix_eqv p q -> p_cvR p = p_cvR q. Proof. intros p q H. apply H. Qed.
Lemma eqv_fL : forall p q, pix_eqv p q -> p_fL p = p_fL q. Proof. intros p q H. apply H. Qed.
Lemma eqv_fR : forall p q, pix_eqv p q -> p_fR p = p_fR q. Proof. intros p q H. apply H. Qed.
Lemma eqv_dL : forall p q, pix_eqv p q -> oq_eqv (p_dL p) (p_dL q). Proof. intros p q H. apply H. Qed.
Lemma eqv_dR : forall p q, pix_eqv p q -> oq_eqv (p_dR p) (p_dR q). Proof. intros p q H. apply H. Qed.

Lemma set_disp_eqv : forall p q dl dr dl' dr' fl fr,
  pix_eqv p q -> oq_eqv dl dl' -> oq_eqv dr dr' -> pix_eqv (set_disp p dl dr fl fr) (set_disp q dl' dr' fl fr).
Proof.
  intros p q dl dr dl' dr' fl fr H H1 H2. destruct (pix_eqv_fields p q H) as (A1 & A2 & A3 & A4).
  destruct H as (_ & B1 & B2 & _). unfold pix_eqv, set_disp, img_of. cbn. repeat split; congruence || assumption.
Qed.
Lemma set_mc_eqv : forall p q cl cr fl fr, pix_eqv p q -> pix_eqv (set_mc p cl cr fl fr) (set_mc q cl cr fl fr).
Proof.
  intros p q cl cr fl fr H. destruct (pix_eqv_fields p q H) as (A1 & A2 & A3 & A4).
  destruct H as (_ & _ & _ & B1 & B2 & _). unfold pix_eqv, set_mc, img_of. cbn. repeat split; congruence || assumption.
Qed.
Lemma set_cv_eqv : forall p q cl cr, pix_eqv p q -> pix_eqv (set_cv p cl cr) (set_cv q cl cr).
Proof.
  intros p q cl cr H. destruct (pix_eqv_fields p q H) as (A1 & A2 & A3 & A4).
  destruct H as (_ & _ & _ & B1 & B2 & B3 & B4). unfold pix_eqv, set_cv, img_of. cbn. repeat split; congruence || assumption.
Qed.

(* ------------------------------------------------------------------ refinement: per pixel; the disparity is read
   as a number (its sample index by truncation, the room on each side by comparisons) *)

Lemma trunc_comp : forall q q', (q == q')%Q -> Refine.trunc q = Refine.trunc q'.
Proof.
  intros [n d] [n' d'] H. unfold Qeq in H. cbn [Qnum Qden] in H. unfold Refine.trunc. cbn [Qnum Qden].
  rewrite <- (Z.quot_mul_cancel_r n (Zpos d) (Zpos d')) by lia.
  rewrite <- (Z.quot_mul_cancel_r n' (Zpos d') (Zpos d)) by lia.
  rewrite H. f_equal. lia.
Qed.

Lemma refine_px_eqv : forall K me m dmin dmax s cv d d' f, oq_eqv d d' ->
  oq_eqv (fst (refine_px K me m dmin dmax s cv d f)) (fst (refine_px K me m dmin dmax s cv d' f))
  /\ snd (refine_px K me m dmin dmax s cv d f) = snd (refine_px K me m dmin dmax s cv d' f).
Proof.
  intros K me m dmin dmax s cv d d' f H. unfold refine_px, Refine.loop_pixel.
  destruct (negb (Z.land f (Refine.k_invalid K) =? 0)); [cbn; split; [exact H|reflexivity]|].
  destruct d as [x|], d' as [y|]; cbn in H; try tauto.
  rewrite (trunc_comp ((x - inject_Z dmin) * inject_Z s) ((y - inject_Z dmin) * inject_Z s)) by (rewrite H; reflexivity).
  destruct (Refine.read cv (Refine.trunc ((y - inject_Z dmin) * inject_Z s))) as [[c1|]|];
    try (cbn; split; [exact H || exact I|reflexivity]).
  assert (Er : Refine.room (inject_Z dmin) (inject_Z dmax) s x = Refine.room (inject_Z dmin) (inject_Z dmax) s y).
  { unfold Refine.room. rewrite H. reflexivity. }
  rewrite Er. destruct (Refine.room (inject_Z dmin) (inject_Z dmax) s y); [|cbn; split; [exact H|reflexivity]].
  destruct (Refine.read cv (Refine.trunc ((y - inject_Z dmin) * inject_Z s) - 1)) as [c0|]; [|cbn; split; [exact I|reflexivity]].
  destruct (Refine.read cv (Refine.trunc ((y - inject_Z dmin) * inject_Z s) + 1)) as [c2|]; [|cbn; split; [exact I|reflexivity]].
  destruct (Refine.run_method K me m c0 c1 c2) as [sh co fl|]; [|cbn; split; [exact I|reflexivity]].
  cbn [fst snd]. split; [|reflexivity]. unfold oq_eqv. rewrite H. reflexivity.
Qed.

Theorem refine_step_flip : forall K me m G, flip_ok pix_eqv (refine_step K me m G).
Proof.
  intros K me m G.
  apply (pointwise_flip (fun p =>
    let l := refine_px K me m (g_dmin G) (g_dmax G) (g_s G) (p_cvL p) (p_dL p) (p_fL p) in
    let r_ := refine_px K me m (- g_dmax G) (- g_dmin G) (g_s G) (p_cvR p) (p_dR p) (p_fR p) in
    set_disp p (fst l) (fst r_) (snd l) (snd r_))); [reflexivity|].
  intros p q H. cbv zeta.
  rewrite (eqv_cvL p q H), (eqv_cvR p q H), (eqv_fL p q H), (eqv_fR p q H).
  destruct (refine_px_eqv K me m (g_dmin G) (g_dmax G) (g_s G) (p_cvL q) (p_dL p) (p_dL q) (p_fL q) (eqv_dL p q H)) as [A1 A2].
  destruct (refine_px_eqv K me m (- g_dmax G) (- g_dmin G) (g_s G) (p_cvR q) (p_dR p) (p_dR q) (p_fR q) (eqv_dR p q H)) as [B1 B2].
  rewrite A2, B2. apply set_disp_eqv; assumption.
Qed.

(* ------------------------------------------------------------------ winner-takes-all: the pixel's cost curve *)

Theorem wta_step_flip : forall mx B invalid G, 1 <= B -> flip_ok pix_eqv (wta_step mx B invalid G).
Proof.
  intros mx B invalid G HB F' F HF r c Hin. pose proof (fl_nr F' F HF) as En. pose proof (fl_nc F' F HF) as Ec.
  pose proof (fl_at F' F HF r c Hin) as Hp. destruct Hin as [Hr Hc].
  assert (Hr' : 0 <= frow F r < f_nr F) by (unfold frow; lia).
  unfold wta_step. cbv zeta.
  rewrite (to_disp_pixel_ext mx B (f_nr F') (f_nc F') (f_nr F) (f_nc F) _ invalid
             (fun r c => map to_cost (p_cvL (f_at F' r c))) (fun r c => map to_cost (p_cvL (f_at F r c)))
             (fun _ _ => []) (fun _ _ => []) (fld p_fL F') (fld p_fL F) r c (frow F r) c)
    by (try lia; now rewrite (eqv_cvL _ _ Hp)).
  rewrite (to_disp_pixel_ext mx B (f_nr F') (f_nc F') (f_nr F) (f_nc F) _ invalid
             (fun r c => map to_cost (p_cvR (f_at F' r c))) (fun r c => map to_cost (p_cvR (f_at F r c)))
             (fun _ _ => []) (fun _ _ => []) (fld p_fR F') (fld p_fR F) r c (frow F r) c)
    by (try lia; now rewrite (eqv_cvR _ _ Hp)).
  cbn [Wta.to_disp Wta.o_mask]. unfold fld. rewrite (eqv_fL _ _ Hp), (eqv_fR _ _ Hp).
  apply set_disp_eqv; [exact Hp|apply oq_eqv_refl|apply oq_eqv_refl].
Qed.
