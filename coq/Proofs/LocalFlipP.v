(* C13, last clause -- "flipping both images vertically changes nothing but the orientation of the result".

   Every step of Model/Local.v commutes with the vertical flip of the raster of pixel states (Spec/Local.v [vflip],
   [flip_ok]), at EVERY pixel of the raster (first and last rows, image margins included: no cone condition),
   hence so does every pipeline of these steps.

   In which sense "the same result".  A disparity is a rational held as a fraction (Q): the median of an even
   number of values is (a + b) * (1 # 2), a bilateral mean is a quotient of two sums -- as fractions these depend
   on the order in which the window is read (2/4 vs 1/2), as numbers they do not.  The results are therefore
   compared with [pix_eqv]: radiometry, masks, cost curves and validity flags EQUAL, the two disparities the same
   rational NUMBER (Qeq).  Every step is shown to respect this relation on its input as well (a step reads the
   disparities only as numbers), which is what makes the statement compose along a pipeline. *)
From Coq Require Import ZArith QArith Qround Qabs List Bool Lia Permutation Morphisms.
From Pandora Require Import Lib.Ext Lib.Arr Lib.Blocks Spec.Local Proofs.LocalP Model.Local Proofs.LocalStepsP.
From Pandora Require Model.MatchingCost Model.Criteria Model.Wta Model.Refine Model.Filters Model.CrossCheck.
From Pandora Require Spec.Cost Spec.CrossCheck Proofs.MatchingCostP Proofs.CensusP Proofs.ZnccP Proofs.LocalCostP Proofs.CrossCheckP.
Import ListNotations.
Open Scope Z_scope.

(* ------------------------------------------------------------------ the relation on pixel states *)

Definition oq_eqv (a b : option Q) : Prop :=
  match a, b with
  | Some x, Some y => (x == y)%Q
  | None, None => True
  | _, _ => False
  end.

Definition pix_eqv (p q : pix) : Prop :=
  img_of p = img_of q /\ p_cvL p = p_cvL q /\ p_cvR p = p_cvR q /\
  oq_eqv (p_dL p) (p_dL q) /\ oq_eqv (p_dR p) (p_dR q) /\ p_fL p = p_fL q /\ p_fR p = p_fR q.

Lemma oq_eqv_refl : forall a, oq_eqv a a.
Proof. intros [x|]; cbn; [reflexivity|exact I]. Qed.
Lemma oq_eqv_sym : forall a b, oq_eqv a b -> oq_eqv b a.
Proof. intros [x|] [y|]; cbn; try tauto. intro H. symmetry. exact H. Qed.
Lemma oq_eqv_trans : forall a b c, oq_eqv a b -> oq_eqv b c -> oq_eqv a c.
Proof. intros [x|] [y|] [z|]; cbn; try tauto. intros H1 H2. rewrite H1. exact H2. Qed.
Lemma oq_eqv_eq : forall a b, a = b -> oq_eqv a b.
Proof. intros a b ->. apply oq_eqv_refl. Qed.
Lemma oq_eqv_none : forall a b, oq_eqv a b -> Filters.is_none a = Filters.is_none b.
Proof. intros [x|] [y|]; cbn; tauto. Qed.

Lemma pix_eqv_refl : forall p, pix_eqv p p.
Proof. intro p. unfold pix_eqv. repeat split; try reflexivity; apply oq_eqv_refl. Qed.

Lemma pix_eqv_fields : forall p q, pix_eqv p q ->
  p_L p = p_L q /\ p_R p = p_R q /\ p_mL p = p_mL q /\ p_mR p = p_mR q.
Proof. intros p q (H & _). apply img_of_fields. exact H. Qed.

(* ------------------------------------------------------------------ the calculus: rasters, steps, pipelines *)

Lemma frow_in : forall A (F : frame A) r c, in_frame F r c -> in_frame F (frow F r) c.
Proof. intros A F r c [Hr Hc]. unfold in_frame, frow. lia. Qed.
Lemma frow_invol : forall A (F : frame A) r, frow F (frow F r) = r.
Proof. intros. unfold frow. lia. Qed.

Lemma vflip_flipped : forall A (E : A -> A -> Prop) (F : frame A), (forall a, E a a) -> flipped E (vflip F) F.
Proof. intros A E F Hrefl. unfold flipped, vflip. cbn [f_nr f_nc f_at]. repeat split. intros. apply Hrefl. Qed.

Lemma flipped_lift : forall A (E : A -> A -> Prop) (f : op A A) F' F,
  flip_ok E f -> flipped E F' F -> flipped E (lift f F') (lift f F).
Proof.
  intros A E f F' F Hf HF. pose proof HF as (E1 & E2 & _). unfold flipped, lift. cbn [f_nr f_nc f_at].
  repeat split; try assumption. intros r c Hin. change (frow (mkFrame (f_nr F) (f_nc F) (f F)) r) with (frow F r).
  apply Hf; assumption.
Qed.

(* every pipeline of steps that commute with the flip commutes with the flip *)
Theorem pipeline_flip : forall A (E : A -> A -> Prop) (steps : list (op A A)),
  Forall (flip_ok E) steps -> flip_ok E (run_pipe steps).
Proof.
  intros A E steps H. induction H as [|s rest Hs Hrest IH].
  - intros F' F (_ & _ & HF) r c Hin. cbn [run_pipe]. apply HF. exact Hin.
  - intros F' F HF r c Hin. cbn [run_pipe]. unfold comp.
    change (frow F r) with (frow (lift s F) r). apply IH.
    + apply flipped_lift; assumption.
    + exact Hin.
Qed.

Theorem flip_ok_vflip : forall A (E : A -> A -> Prop) (f : op A A),
  (forall a, E a a) -> flip_ok E f -> vflip_commutes E f.
Proof. intros A E f Hrefl Hf F r c Hin. apply Hf; [apply vflip_flipped; exact Hrefl|exact Hin]. Qed.

(* a step that rewrites each pixel from its own state only *)
Lemma pointwise_flip : forall (g : pix -> pix) (f : op pix pix),
  (forall F r c, f F r c = g (f_at F r c)) -> (forall p q, pix_eqv p q -> pix_eqv (g p) (g q)) ->
  flip_ok pix_eqv f.
Proof. intros g f Hf Hg F' F (_ & _ & HF) r c Hin. rewrite !Hf. apply Hg. apply HF. exact Hin. Qed.

(* ------------------------------------------------------------------ reading a flipped raster *)

Section Flipped.
  Variables (F' F : frame pix).
  Hypothesis HF : flipped pix_eqv F' F.

  Lemma fl_nr : f_nr F' = f_nr F. Proof. exact (proj1 HF). Qed.
  Lemma fl_nc : f_nc F' = f_nc F. Proof. exact (proj1 (proj2 HF)). Qed.
  Lemma fl_at : forall r c, in_frame F r c -> pix_eqv (f_at F' r c) (f_at F (frow F r) c).
  Proof. exact (proj2 (proj2 HF)). Qed.

  (* the fields that are compared with equality *)
  Lemma fl_fld : forall {B} (g : pix -> B), (forall p q, pix_eqv p q -> g p = g q) ->
    forall r c, 0 <= r < f_nr F -> 0 <= c < f_nc F -> fld g F' r c = fld g F (frow F r) c.
  Proof. intros B g Hg r c Hr Hc. unfold fld. apply Hg. apply fl_at. split; assumption. Qed.
End Flipped.

Lemma eqv_L : forall p q, pix_eqv p q -> p_L p = p_L q. Proof. intros p q H. apply (pix_eqv_fields p q H). Qed.
Lemma eqv_R : forall p q, pix_eqv p q -> p_R p = p_R q. Proof. intros p q H. apply (pix_eqv_fields p q H). Qed.
Lemma eqv_mL : forall p q, pix_eqv p q -> p_mL p = p_mL q. Proof. intros p q H. apply (pix_eqv_fields p q H). Qed.
Lemma eqv_mR : forall p q, pix_eqv p q -> p_mR p = p_mR q. Proof. intros p q H. apply (pix_eqv_fields p q H). Qed.
Lemma eqv_cvL : forall p q, pix_eqv p q -> p_cvL p = p_cvL q. Proof. intros p q H. apply H. Qed.
Lemma eqv_cvR : forall p q, pix_eqv p q -> p_cvR p = p_cvR q. Proof. intros p q H. apply H. Qed.
Lemma eqv_fL : forall p q, pix_eqv p q -> p_fL p = p_fL q. Proof. intros p q H. apply H. Qed.
Lemma eqv_fR : forall p q, pix_eqv p q -> p_fR p = p_fR q. Proof. intros p q H. apply H. Qed.
Lemma eqv_dL : forall p q, pix_eqv p q -> oq_eqv (p_dL p) (p_dL q). Proof. intros p q H. apply H. Qed.
Lemma eqv_dR : forall p q, pix_eqv p q -> oq_eqv (p_dR p) (p_dR q). Proof. intros p q H. apply H. Qed.

Lemma set_disp_eqv : forall p q dl dr dl' dr' fl fr,
  pix_eqv p q -> oq_eqv dl dl' -> oq_eqv dr dr' -> pix_eqv (set_disp p dl dr fl fr) (set_disp q dl' dr' fl fr).
Proof.
  intros p q dl dr dl' dr' fl fr H H1 H2. destruct (pix_eqv_fields p q H) as (A1 & A2 & A3 & A4).
  destruct H as (_ & B1 & B2 & _). unfold pix_eqv, set_disp, img_of. cbn. repeat split; congruence || assumption.
Qed.
Lemma set_mc_eqv : forall p q cl cr fl fr, pix_eqv p q -> pix_eqv (set_mc p cl cr fl fr) (set_mc q cl cr fl fr).
Proof.
  intros p q cl cr fl fr H. destruct (pix_eqv_fields p q H) as (A1 & A2 & A3 & A4).
  destruct H as (_ & _ & _ & B1 & B2 & _). unfold pix_eqv, set_mc, img_of. cbn. repeat split; congruence || assumption.
Qed.
Lemma set_cv_eqv : forall p q cl cr, pix_eqv p q -> pix_eqv (set_cv p cl cr) (set_cv q cl cr).
Proof.
  intros p q cl cr H. destruct (pix_eqv_fields p q H) as (A1 & A2 & A3 & A4).
  destruct H as (_ & _ & _ & B1 & B2 & B3 & B4). unfold pix_eqv, set_cv, img_of. cbn. repeat split; congruence || assumption.
Qed.

(* ------------------------------------------------------------------ refinement: per pixel; the disparity is read
   as a number (its sample index by truncation, the room on each side by comparisons) *)

Lemma trunc_comp : forall q q', (q == q')%Q -> Refine.trunc q = Refine.trunc q'.
Proof.
  intros [n d] [n' d'] H. unfold Qeq in H. cbn [Qnum Qden] in H. unfold Refine.trunc. cbn [Qnum Qden].
  rewrite <- (Z.quot_mul_cancel_r n (Zpos d) (Zpos d')) by lia.
  rewrite <- (Z.quot_mul_cancel_r n' (Zpos d') (Zpos d)) by lia.
  rewrite H. f_equal. lia.
Qed.

Lemma refine_px_eqv : forall K me m dmin dmax s cv d d' f, oq_eqv d d' ->
  oq_eqv (fst (refine_px K me m dmin dmax s cv d f)) (fst (refine_px K me m dmin dmax s cv d' f))
  /\ snd (refine_px K me m dmin dmax s cv d f) = snd (refine_px K me m dmin dmax s cv d' f).
Proof.
  intros K me m dmin dmax s cv d d' f H. unfold refine_px, Refine.loop_pixel.
  destruct (negb (Z.land f (Refine.k_invalid K) =? 0)); [cbn; split; [exact H|reflexivity]|].
  destruct d as [x|], d' as [y|]; cbn in H; try tauto.
  rewrite (trunc_comp ((x - inject_Z dmin) * inject_Z s) ((y - inject_Z dmin) * inject_Z s)) by (rewrite H; reflexivity).
  destruct (Refine.read cv (Refine.trunc ((y - inject_Z dmin) * inject_Z s))) as [[c1|]|];
    try (cbn; split; [exact H || exact I|reflexivity]).
  assert (Er : Refine.room (inject_Z dmin) (inject_Z dmax) s x = Refine.room (inject_Z dmin) (inject_Z dmax) s y).
  { unfold Refine.room. rewrite H. reflexivity. }
  rewrite Er. destruct (Refine.room (inject_Z dmin) (inject_Z dmax) s y); [|cbn; split; [exact H|reflexivity]].
  destruct (Refine.read cv (Refine.trunc ((y - inject_Z dmin) * inject_Z s) - 1)) as [c0|]; [|cbn; split; [exact I|reflexivity]].
  destruct (Refine.read cv (Refine.trunc ((y - inject_Z dmin) * inject_Z s) + 1)) as [c2|]; [|cbn; split; [exact I|reflexivity]].
  destruct (Refine.run_method K me m c0 c1 c2) as [sh co fl|]; [|cbn; split; [exact I|reflexivity]].
  cbn [fst snd]. split; [|reflexivity]. unfold oq_eqv. rewrite H. reflexivity.
Qed.

Theorem refine_step_flip : forall K me m G, flip_ok pix_eqv (refine_step K me m G).
Proof.
  intros K me m G.
  apply (pointwise_flip (fun p =>
    let l := refine_px K me m (g_dmin G) (g_dmax G) (g_s G) (p_cvL p) (p_dL p) (p_fL p) in
    let r_ := refine_px K me m (- g_dmax G) (- g_dmin G) (g_s G) (p_cvR p) (p_dR p) (p_fR p) in
    set_disp p (fst l) (fst r_) (snd l) (snd r_))); [reflexivity|].
  intros p q H. cbv zeta.
  rewrite (eqv_cvL p q H), (eqv_cvR p q H), (eqv_fL p q H), (eqv_fR p q H).
  destruct (refine_px_eqv K me m (g_dmin G) (g_dmax G) (g_s G) (p_cvL q) (p_dL p) (p_dL q) (p_fL q) (eqv_dL p q H)) as [A1 A2].
  destruct (refine_px_eqv K me m (- g_dmax G) (- g_dmin G) (g_s G) (p_cvR q) (p_dR p) (p_dR q) (p_fR q) (eqv_dR p q H)) as [B1 B2].
  rewrite A2, B2. apply set_disp_eqv; assumption.
Qed.

(* ------------------------------------------------------------------ winner-takes-all: the pixel's cost curve *)

Theorem wta_step_flip : forall mx B invalid G, 1 <= B -> flip_ok pix_eqv (wta_step mx B invalid G).
Proof.
  intros mx B invalid G HB F' F HF r c Hin. pose proof (fl_nr F' F HF) as En. pose proof (fl_nc F' F HF) as Ec.
  pose proof (fl_at F' F HF r c Hin) as Hp. destruct Hin as [Hr Hc].
  assert (Hr' : 0 <= frow F r < f_nr F) by (unfold frow; lia).
  unfold wta_step. cbv zeta.
  rewrite (to_disp_pixel_ext mx B (f_nr F') (f_nc F') (f_nr F) (f_nc F) _ invalid
             (fun r c => map to_cost (p_cvL (f_at F' r c))) (fun r c => map to_cost (p_cvL (f_at F r c)))
             (fun _ _ => []) (fun _ _ => []) (fld p_fL F') (fld p_fL F) r c (frow F r) c)
    by (try lia; now rewrite (eqv_cvL _ _ Hp)).
  rewrite (to_disp_pixel_ext mx B (f_nr F') (f_nc F') (f_nr F) (f_nc F) _ invalid
             (fun r c => map to_cost (p_cvR (f_at F' r c))) (fun r c => map to_cost (p_cvR (f_at F r c)))
             (fun _ _ => []) (fun _ _ => []) (fld p_fR F') (fld p_fR F) r c (frow F r) c)
    by (try lia; now rewrite (eqv_cvR _ _ Hp)).
  cbn [Wta.to_disp Wta.o_mask]. unfold fld. rewrite (eqv_fL _ _ Hp), (eqv_fR _ _ Hp).
  apply set_disp_eqv; [exact Hp|apply oq_eqv_refl|apply oq_eqv_refl].
Qed.

(* ------------------------------------------------------------------ cross-checking: row by row; the disparities are
   read as numbers (rounded, added, compared with the threshold); the window margin painted by mask_border is the
   same at the top and at the bottom *)

Lemma rint_comp : forall q q', (q == q')%Q -> CrossCheck.rint q = CrossCheck.rint q'.
Proof.
  intros q q' H. unfold CrossCheck.rint. rewrite (Qfloor_comp _ _ H).
  assert (E : (q - inject_Z (Qfloor q') ?= 1 # 2)%Q = (q' - inject_Z (Qfloor q') ?= 1 # 2)%Q) by (rewrite H; reflexivity).
  rewrite E. reflexivity.
Qed.

Section XRowEqv.
  Import Model.CrossCheck Proofs.CrossCheckP.
  Variables (nc : Z) (dL dR dL' dR' : Z -> option Q) (mk mk' : Z -> Z) (thr : Q) (dmin dmax : Z).
  Hypothesis HdL : forall j, 0 <= j < nc -> oq_eqv (dL j) (dL' j).
  Hypothesis HdR : forall j, 0 <= j < nc -> oq_eqv (dR j) (dR' j).
  Hypothesis Hmk : forall j, 0 <= j < nc -> mk j = mk' j.

  Lemma hit_eqv : forall c d, hit nc dR c d = hit nc dR' c d.
  Proof.
    intros c d. unfold hit. cbv zeta. destruct ((0 <=? d + c) && (d + c <? nc)) eqn:E; [|reflexivity].
    pose proof (HdR (d + c) ltac:(lia)) as H. destruct (dR (d + c)), (dR' (d + c)); cbn in H; try tauto.
    rewrite (rint_comp _ _ H). reflexivity.
  Qed.

  Lemma comp_eqv : forall c, comp nc dR dmin dmax c = comp nc dR' dmin dmax c.
  Proof. intro c. unfold comp. cbv zeta. rewrite (filter_ext _ _ (hit_eqv c)). reflexivity. Qed.

  Lemma pixel_mask_eqv : forall c, 0 <= c < nc ->
    pixel_mask true true nc dL dR mk thr dmin dmax c = pixel_mask true true nc dL' dR' mk' thr dmin dmax c.
  Proof.
    intros c Hc. unfold pixel_mask. rewrite <- (Hmk c Hc).
    destruct ((0 <=? c) && (c <? nc) && is_valid (mk c)); [|reflexivity].
    assert (Ecr : col_right_of true dL c = col_right_of true dL' c).
    { unfold col_right_of. pose proof (HdL c Hc) as H. destruct (dL c), (dL' c); cbn in H; try tauto.
      rewrite (rint_comp _ _ H). reflexivity. }
    rewrite <- Ecr. set (q := col_right_of true dL c).
    destruct (in_img nc q) eqn:Ein; [|reflexivity].
    rewrite <- comp_eqv.
    assert (Eg : egt (dist dL dR (c, q)) thr = egt (dist dL' dR' (c, q)) thr).
    { unfold dist. cbn [fst snd]. unfold in_img in Ein.
      pose proof (HdL c Hc) as H1. pose proof (HdR q ltac:(lia)) as H2.
      destruct (dL c), (dL' c); cbn in H1; try tauto; destruct (dR q), (dR' q); cbn in H2; try tauto; cbn [ext_of eadd eabs egt];
        try reflexivity.
      rewrite H1, H2. reflexivity. }
    rewrite Eg. reflexivity.
  Qed.
End XRowEqv.

Lemma xcheck_mask_at : forall thr me other r c, 0 <= r < CrossCheck.ds_nr me -> 0 <= c < CrossCheck.ds_nc me ->
  CrossCheck.ds_mask (CrossCheck.xcheck thr me other) r c
  = if (0 <? CrossCheck.ds_offset me)
       && Spec.CrossCheck.is_border (CrossCheck.ds_nr me) (CrossCheck.ds_nc me) (CrossCheck.ds_offset me) r c
    then CrossCheck.MSK_BORDER
    else CrossCheckP.pixel_mask true true (CrossCheck.ds_nc me) (CrossCheck.ds_disp me r) (CrossCheck.ds_disp other r)
           (CrossCheck.ds_mask me r) thr (CrossCheck.ds_dmin me) (CrossCheck.ds_dmax me) c.
Proof.
  intros thr me other r c Hr Hc. unfold CrossCheck.xcheck, CrossCheck.xcheck_gen. cbn [CrossCheck.ds_mask].
  assert (Em : CrossCheck.xcheck_mask true true thr me other r c
               = CrossCheckP.pixel_mask true true (CrossCheck.ds_nc me) (CrossCheck.ds_disp me r) (CrossCheck.ds_disp other r)
                   (CrossCheck.ds_mask me r) thr (CrossCheck.ds_dmin me) (CrossCheck.ds_dmax me) c).
  { unfold CrossCheck.xcheck_mask. replace ((0 <=? r) && (r <? CrossCheck.ds_nr me)) with true by lia.
    apply CrossCheckP.mask_row_pixel. }
  destruct (0 <? CrossCheck.ds_offset me) eqn:Eo; cbn [andb]; [|exact Em].
  rewrite CrossCheckP.mask_border_spec by lia. rewrite Em. reflexivity.
Qed.

Theorem xcheck_step_flip : forall thr G, flip_ok pix_eqv (xcheck_step thr G).
Proof.
  intros thr G F' F HF r c Hin. pose proof (fl_nr F' F HF) as En. pose proof (fl_nc F' F HF) as Ec.
  pose proof (fl_at F' F HF r c Hin) as Hp. destruct Hin as [Hr Hc].
  assert (Hr' : 0 <= frow F r < f_nr F) by (unfold frow; lia).
  assert (Hrow : forall j, 0 <= j < f_nc F -> pix_eqv (f_at F' r j) (f_at F (frow F r) j)).
  { intros j Hj. apply (fl_at F' F HF). split; assumption. }
  unfold xcheck_step. cbv zeta.
  rewrite !xcheck_mask_at by (cbn [CrossCheck.ds_nr CrossCheck.ds_nc ds_left ds_right CrossCheck.xcheck CrossCheck.xcheck_gen]; lia).
  cbn [CrossCheck.ds_nr CrossCheck.ds_nc CrossCheck.ds_disp CrossCheck.ds_mask CrossCheck.ds_dmin CrossCheck.ds_dmax
       CrossCheck.ds_offset ds_left ds_right CrossCheck.xcheck CrossCheck.xcheck_gen].
  rewrite En, Ec.
  assert (Eb : Spec.CrossCheck.is_border (f_nr F) (f_nc F) (MatchingCost.offset (g_w G)) r c
               = Spec.CrossCheck.is_border (f_nr F) (f_nc F) (MatchingCost.offset (g_w G)) (frow F r) c).
  { unfold Spec.CrossCheck.is_border, frow.
    destruct (r <? MatchingCost.offset (g_w G)) eqn:E1; destruct (f_nr F - MatchingCost.offset (g_w G) <=? r) eqn:E2;
      destruct (f_nr F - 1 - r <? MatchingCost.offset (g_w G)) eqn:E3;
      destruct (f_nr F - MatchingCost.offset (g_w G) <=? f_nr F - 1 - r) eqn:E4; cbn [orb]; try reflexivity; lia. }
  rewrite Eb.
  rewrite (pixel_mask_eqv (f_nc F) (fld p_dL F' r) (fld p_dR F' r) (fld p_dL F (frow F r)) (fld p_dR F (frow F r))
             (fld p_fL F' r) (fld p_fL F (frow F r)) thr (g_dmin G) (g_dmax G)); try assumption.
  2:{ intros j Hj. apply eqv_dL, Hrow, Hj. } 2:{ intros j Hj. apply eqv_dR, Hrow, Hj. }
  2:{ intros j Hj. apply eqv_fL, Hrow, Hj. }
  rewrite (pixel_mask_eqv (f_nc F) (fld p_dR F' r) (fld p_dL F' r) (fld p_dR F (frow F r)) (fld p_dL F (frow F r))
             (fld p_fR F' r) (fld p_fR F (frow F r)) thr (- g_dmax G) (- g_dmin G)); try assumption.
  2:{ intros j Hj. apply eqv_dR, Hrow, Hj. } 2:{ intros j Hj. apply eqv_dL, Hrow, Hj. }
  2:{ intros j Hj. apply eqv_fR, Hrow, Hj. }
  apply set_disp_eqv; [exact Hp|apply eqv_dL; exact Hp|apply eqv_dR; exact Hp].
Qed.

(* ------------------------------------------------------------------ windows read upside down *)

From Pandora Require Spec.Filters Proofs.FiltersP.
From Coq Require Import Lqa FinFun.

(* l' holds the values of l in another order, each as the same number *)
Definition oqperm (l' l : list (option Q)) : Prop := exists m, Forall2 oq_eqv l' m /\ Permutation m l.

Lemma F2_map_in : forall {X Y} (R : Y -> Y -> Prop) (f g : X -> Y) l,
  (forall x, In x l -> R (f x) (g x)) -> Forall2 R (map f l) (map g l).
Proof.
  induction l as [|a l IH]; intros H; cbn [map]; constructor.
  - apply H. now left.
  - apply IH. intros; apply H; now right.
Qed.
Lemma F2_flat_map_in : forall {X Y} (R : Y -> Y -> Prop) (f g : X -> list Y) l,
  (forall x, In x l -> Forall2 R (f x) (g x)) -> Forall2 R (flat_map f l) (flat_map g l).
Proof.
  induction l as [|a l IH]; intros H; cbn [flat_map]; [constructor|].
  apply Forall2_app; [apply H; now left|apply IH; intros; apply H; now right].
Qed.
Lemma flat_map_map : forall {X Y W} (f : Y -> list W) (g : X -> Y) l,
  flat_map f (map g l) = flat_map (fun x => f (g x)) l.
Proof. induction l as [|a l IH]; cbn [map flat_map]; [reflexivity|]. now rewrite IH. Qed.

Lemma arr_zrange_NoDup : forall w, NoDup (Arr.zrange w).
Proof. intro w. unfold Arr.zrange. apply Injective_map_NoDup; [intros a b; apply Nat2Z.inj|apply seq_NoDup]. Qed.

(* the indices 0 .. w-1 read backwards *)
Lemma zrange_rev_perm : forall w, Permutation (map (fun a => w - 1 - a) (Arr.zrange w)) (Arr.zrange w).
Proof.
  intro w. apply NoDup_Permutation.
  - apply Injective_map_NoDup; [intros a b; lia|apply arr_zrange_NoDup].
  - apply arr_zrange_NoDup.
  - intro x. rewrite in_map_iff. split.
    + intros (a & <- & Ha). apply FiltersP.In_zrange in Ha. apply FiltersP.In_zrange. lia.
    + intro Hx. apply FiltersP.In_zrange in Hx. exists (w - 1 - x). split; [lia|]. apply FiltersP.In_zrange. lia.
Qed.

Lemma window_flip : forall (md' md : Filters.map2) w i' i j,
  (forall a b, 0 <= a < w -> 0 <= b < w -> oq_eqv (md' (i' + a) (j + b)) (md (i + (w - 1 - a)) (j + b))) ->
  oqperm (Filters.window md' w i' j) (Filters.window md w i j).
Proof.
  intros md' md w i' i j H. unfold Filters.window.
  exists (flat_map (fun a => map (fun b => md (i + (w - 1 - a)) (j + b)) (Arr.zrange w)) (Arr.zrange w)). split.
  - apply F2_flat_map_in. intros a Ha. apply F2_map_in. intros b Hb.
    apply FiltersP.In_zrange in Ha. apply FiltersP.In_zrange in Hb. apply H; assumption.
  - rewrite <- (flat_map_map (fun a' => map (fun b => md (i + a') (j + b)) (Arr.zrange w)) (fun a => w - 1 - a)).
    apply Permutation_flat_map. apply zrange_rev_perm.
Qed.

Lemma non_nan_F2 : forall l m, Forall2 oq_eqv l m -> Forall2 Qeq (Filters.non_nan l) (Filters.non_nan m).
Proof.
  induction 1 as [|x y l m Hxy H IH]; cbn [Filters.non_nan flat_map]; [constructor|].
  destruct x, y; cbn in Hxy; try tauto; cbn [app]; constructor; assumption.
Qed.
Lemma isort_F2 : forall l m, Forall2 Qeq l m -> Forall2 Qeq (Filters.isort l) (Filters.isort m).
Proof.
  induction 1 as [|x y l m Hxy H IH]; cbn [Filters.isort]; [constructor|].
  apply FiltersP.insert_Qeq_compat; assumption.
Qed.

(* np.nanmedian does not depend on the order of the window, nor on the fractions that hold its values *)
Lemma nanmedian_oqperm : forall l' l, oqperm l' l -> oq_eqv (Filters.nanmedian l') (Filters.nanmedian l).
Proof.
  intros l' l (m & H1 & H2). unfold Filters.nanmedian.
  assert (HS : Forall2 Qeq (Filters.isort (Filters.non_nan l')) (Filters.isort (Filters.non_nan l))).
  { eapply FiltersP.F2Qeq_trans; [apply isort_F2, non_nan_F2, H1|].
    apply FiltersP.isort_perm_Qeq. unfold Filters.non_nan. apply Permutation_flat_map. exact H2. }
  destruct HS as [|x y s s' Hxy HS]; [exact I|]. unfold oq_eqv.
  rewrite !FiltersP.middle_mid. apply FiltersP.mid_Qeq. constructor; assumption.
Qed.

Lemma odd_half : forall w, 0 < w -> Z.odd w = true -> w = 2 * (w / 2) + 1.
Proof. intros w Hw Ho. pose proof (Z.div_mod w 2 ltac:(lia)) as E. rewrite Zmod_odd, Ho in E. exact E. Qed.

(* ------------------------------------------------------------------ median filter (odd filter_size) *)

Section MedianFlip.
  Variables (inv B w : Z).
  Hypothesis HB : 1 <= B.
  Hypothesis Hw : 0 < w.
  Hypothesis Hodd : Z.odd w = true.
  Let rad := w / 2.

  (* what the filter writes at ANY pixel of the image *)
  Lemma median_map_at : forall ny nx disp mask r c,
    median_map inv B w ny nx disp mask r c =
    let md := Filters.masked_data inv disp mask in
    if Filters.is_none (md r c) then disp r c
    else if (ny <? w) || (nx <? w) then md r c
    else if (rad <=? r) && (r <? rad + (ny - w + 1)) && (rad <=? c) && (c <? rad + (nx - w + 1))
         then Filters.nanmedian (Filters.window md w (r - rad) (c - rad)) else md r c.
  Proof.
    intros ny nx disp mask r c. unfold median_map, Filters.median_filter_disparity, Filters.median_filter. cbv zeta. cbn [fst].
    destruct (Filters.is_none (Filters.masked_data inv disp mask r c)) eqn:En; [reflexivity|].
    destruct ((ny <? w) || (nx <? w)) eqn:Es; [reflexivity|]. rewrite En.
    fold rad. rewrite loop2_spec by lia. reflexivity.
  Qed.

  Lemma median_map_flip : forall ny nx disp' mask' disp mask,
    (forall r c, 0 <= r < ny -> 0 <= c < nx -> oq_eqv (disp' r c) (disp (ny - 1 - r) c) /\ mask' r c = mask (ny - 1 - r) c) ->
    forall r c, 0 <= r < ny -> 0 <= c < nx ->
    oq_eqv (median_map inv B w ny nx disp' mask' r c) (median_map inv B w ny nx disp mask (ny - 1 - r) c).
  Proof.
    intros ny nx disp' mask' disp mask H r c Hr Hc. pose proof (odd_half w Hw Hodd) as Ew. fold rad in Ew.
    assert (Hmd : forall r c, 0 <= r < ny -> 0 <= c < nx ->
              oq_eqv (Filters.masked_data inv disp' mask' r c) (Filters.masked_data inv disp mask (ny - 1 - r) c)).
    { intros r0 c0 Hr0 Hc0. unfold Filters.masked_data. destruct (H r0 c0 Hr0 Hc0) as [H1 ->].
      destruct (Filters.invalid_px inv (mask (ny - 1 - r0) c0)); [exact I|exact H1]. }
    rewrite !median_map_at. cbv zeta.
    rewrite (oq_eqv_none _ _ (Hmd r c Hr Hc)).
    destruct (Filters.is_none (Filters.masked_data inv disp mask (ny - 1 - r) c)); [apply H; assumption|].
    destruct ((ny <? w) || (nx <? w)) eqn:Es; [apply Hmd; assumption|].
    replace ((rad <=? ny - 1 - r) && (ny - 1 - r <? rad + (ny - w + 1)))
      with ((rad <=? r) && (r <? rad + (ny - w + 1))) by lia.
    destruct ((rad <=? r) && (r <? rad + (ny - w + 1)) && (rad <=? c) && (c <? rad + (nx - w + 1))) eqn:Ei;
      [|apply Hmd; assumption].
    apply nanmedian_oqperm. apply window_flip. intros a b Ha Hb.
    replace (ny - 1 - r - rad + (w - 1 - a)) with (ny - 1 - (r - rad + a)) by lia.
    apply Hmd; lia.
  Qed.

  Theorem median_step_flip : flip_ok pix_eqv (median_step inv B w).
  Proof.
    intros F' F HF r c Hin. pose proof (fl_nr F' F HF) as En. pose proof (fl_nc F' F HF) as Ec.
    pose proof (fl_at F' F HF r c Hin) as Hp. destruct Hin as [Hr Hc].
    unfold median_step. cbv zeta. rewrite En, Ec. rewrite (eqv_fL _ _ Hp), (eqv_fR _ _ Hp).
    apply set_disp_eqv; [exact Hp| |].
    - apply (median_map_flip (f_nr F) (f_nc F)); try assumption.
      intros r0 c0 Hr0 Hc0. pose proof (fl_at F' F HF r0 c0 (conj Hr0 Hc0)) as H0. unfold fld, frow in *.
      split; [apply eqv_dL, H0|apply eqv_fL, H0].
    - apply (median_map_flip (f_nr F) (f_nc F)); try assumption.
      intros r0 c0 Hr0 Hc0. pose proof (fl_at F' F HF r0 c0 (conj Hr0 Hc0)) as H0. unfold fld, frow in *.
      split; [apply eqv_dR, H0|apply eqv_fR, H0].
  Qed.
End MedianFlip.

(* ------------------------------------------------------------------ bilateral filter

   The window of the code is win = min(rows, cols, int(3 sigma_space + 1)), its centre is pixel int(win / 2) of the
   window: the window is symmetric about its centre exactly when win is ODD (an even window has one more row above
   than below: the flip is then NOT respected, by the code either).  The two Gaussian kernels are data: the spatial
   kernel must be symmetric in rows (sk (win-1-a) b = sk a b, as a Gaussian of the distance to the centre is), the
   range kernel must be a function of the NUMBER it is given. *)

Definition peq (p q : Q * Q) : Prop := (fst p == fst q)%Q /\ (snd p == snd q)%Q.

Lemma sumq_F2 : forall (g : Q * Q -> Q) t m, (forall p q, peq p q -> (g p == g q)%Q) ->
  Forall2 peq t m -> (Spec.Filters.sumq (map g t) == Spec.Filters.sumq (map g m))%Q.
Proof.
  intros g t m Hg H. induction H as [|p q t m Hpq H IH]; cbn [map Spec.Filters.sumq fold_right]; [reflexivity|].
  fold (Spec.Filters.sumq (map g t)). fold (Spec.Filters.sumq (map g m)). rewrite IH, (Hg p q Hpq). reflexivity.
Qed.
Lemma sumq_perm : forall l m, Permutation l m -> (Spec.Filters.sumq l == Spec.Filters.sumq m)%Q.
Proof.
  induction 1 as [|x l m H IH|x y l|l1 l2 l3 H1 IH1 H2 IH2]; cbn [Spec.Filters.sumq fold_right].
  - reflexivity.
  - fold (Spec.Filters.sumq l). fold (Spec.Filters.sumq m). rewrite IH. reflexivity.
  - fold (Spec.Filters.sumq l). ring.
  - rewrite IH1. exact IH2.
Qed.

Lemma wmean_termsperm : forall t' t m, Forall2 peq t' m -> Permutation m t -> (Filters.wmean t' == Filters.wmean t)%Q.
Proof.
  intros t' t m H1 H2. unfold Filters.wmean. rewrite !FiltersP.qsum_sumq.
  rewrite (sumq_F2 (fun p => fst p * snd p)%Q t' m) by (try assumption; intros p q [A B]; rewrite A, B; reflexivity).
  rewrite (sumq_F2 fst t' m) by (try assumption; intros p q [A B]; exact A).
  rewrite (sumq_perm _ _ (Permutation_map (fun p : Q * Q => (fst p * snd p)%Q) H2)).
  rewrite (sumq_perm _ _ (Permutation_map fst H2)). reflexivity.
Qed.

Section BilateralFlip.
  Variables (inv B : Z) (sigma : Q) (sk : Z -> Z -> Q) (rk : Q -> Q) (ny nx : Z).
  Hypothesis HB : 1 <= B.
  Let win := Filters.win_width ny nx sigma.
  Let off := win / 2.
  Hypothesis Hwin : 0 < win.
  Hypothesis Hodd : Z.odd win = true.
  Hypothesis Hsk : forall a b, 0 <= a < win -> 0 <= b < win -> (sk (win - 1 - a)%Z b == sk a b)%Q.
  Hypothesis Hrk : forall x y, (x == y)%Q -> (rk x == rk y)%Q.

  Lemma bilateral_at_px : forall disp mask r c,
    fst (Filters.bilateral_filter_disparity inv B ny nx sigma sk rk disp mask) r c =
    let md := Filters.masked_data inv disp mask in
    if Filters.is_none (md r c) then disp r c
    else if (off <=? r) && (r <? off + (ny - win + 1)) && (off <=? c) && (c <? off + (nx - win + 1))
         then Filters.bilateral_at sk rk md win off (r - off) (c - off) else md r c.
  Proof.
    intros disp mask r c. unfold Filters.bilateral_filter_disparity, Filters.filter_bilateral. cbv zeta. cbn [fst].
    destruct (Filters.is_none (Filters.masked_data inv disp mask r c)) eqn:En; [reflexivity|].
    fold win. fold off. rewrite loop2_spec by (unfold win, Filters.win_width; lia). reflexivity.
  Qed.

  Lemma bil_terms_flip : forall (md' md : Filters.map2) i' i j cv' cv, (cv' == cv)%Q ->
    (forall a b, 0 <= a < win -> 0 <= b < win -> oq_eqv (md' (i' + a) (j + b)) (md (i + (win - 1 - a)) (j + b))) ->
    (Filters.wmean (Filters.bil_terms sk rk md' win i' j cv') == Filters.wmean (Filters.bil_terms sk rk md win i j cv))%Q.
  Proof.
    intros md' md i' i j cv' cv Hcv H.
    set (G := fun a' a => flat_map (fun b => match md (i + a') (j + b) with
                                             | None => []
                                             | Some v => [((sk a b * rk (v - cv))%Q, v)]
                                             end) (Arr.zrange win)).
    apply (wmean_termsperm _ _ (flat_map (fun a => G (win - 1 - a) (win - 1 - a)) (Arr.zrange win))).
    - unfold Filters.bil_terms. apply F2_flat_map_in. intros a Ha. unfold G. apply F2_flat_map_in. intros b Hb.
      apply FiltersP.In_zrange in Ha. apply FiltersP.In_zrange in Hb. pose proof (H a b Ha Hb) as E.
      destruct (md' (i' + a) (j + b)) as [v'|], (md (i + (win - 1 - a)) (j + b)) as [v|]; cbn in E; try tauto; constructor; [|constructor].
      split; cbn [fst snd]; [|exact E].
      rewrite (Hsk a b Ha Hb). rewrite (Hrk (v' - cv') (v - cv)) by (rewrite E, Hcv; reflexivity). reflexivity.
    - rewrite <- (flat_map_map (fun a' => G a' a') (fun a => win - 1 - a)).
      unfold Filters.bil_terms. apply Permutation_flat_map. apply zrange_rev_perm.
  Qed.

  Lemma bilateral_map_flip : forall disp' mask' disp mask,
    (forall r c, 0 <= r < ny -> 0 <= c < nx -> oq_eqv (disp' r c) (disp (ny - 1 - r) c) /\ mask' r c = mask (ny - 1 - r) c) ->
    forall r c, 0 <= r < ny -> 0 <= c < nx ->
    oq_eqv (fst (Filters.bilateral_filter_disparity inv B ny nx sigma sk rk disp' mask') r c)
           (fst (Filters.bilateral_filter_disparity inv B ny nx sigma sk rk disp mask) (ny - 1 - r) c).
  Proof.
    intros disp' mask' disp mask H r c Hr Hc. pose proof (odd_half win Hwin Hodd) as Ew. fold off in Ew.
    assert (Hle : win <= ny /\ win <= nx) by (unfold win, Filters.win_width; lia).
    assert (Hmd : forall r c, 0 <= r < ny -> 0 <= c < nx ->
              oq_eqv (Filters.masked_data inv disp' mask' r c) (Filters.masked_data inv disp mask (ny - 1 - r) c)).
    { intros r0 c0 Hr0 Hc0. unfold Filters.masked_data. destruct (H r0 c0 Hr0 Hc0) as [H1 ->].
      destruct (Filters.invalid_px inv (mask (ny - 1 - r0) c0)); [exact I|exact H1]. }
    rewrite !bilateral_at_px. cbv zeta.
    rewrite (oq_eqv_none _ _ (Hmd r c Hr Hc)).
    destruct (Filters.is_none (Filters.masked_data inv disp mask (ny - 1 - r) c)) eqn:En; [apply H; assumption|].
    replace ((off <=? ny - 1 - r) && (ny - 1 - r <? off + (ny - win + 1)))
      with ((off <=? r) && (r <? off + (ny - win + 1))) by lia.
    destruct ((off <=? r) && (r <? off + (ny - win + 1)) && (off <=? c) && (c <? off + (nx - win + 1))) eqn:Ei;
      [|apply Hmd; assumption].
    unfold Filters.bilateral_at.
    replace (r - off + off) with r by lia. replace (c - off + off) with c by lia.
    replace (ny - 1 - r - off + off) with (ny - 1 - r) by lia.
    pose proof (Hmd r c Hr Hc) as E0.
    destruct (Filters.masked_data inv disp' mask' r c) as [cv'|], (Filters.masked_data inv disp mask (ny - 1 - r) c) as [cv|];
      cbn in E0; try tauto.
    unfold oq_eqv. apply bil_terms_flip; [exact E0|].
    intros a b Ha Hb. replace (ny - 1 - r - off + (win - 1 - a)) with (ny - 1 - (r - off + a)) by lia.
    apply Hmd; lia.
  Qed.
End BilateralFlip.

(* the step, on rasters of nr x nc pixels *)
Definition bil_flip_ok (nr nc : Z) (sigma : Q) (sk : Z -> Z -> Q) (rk : Q -> Q) : Prop :=
  let win := Filters.win_width nr nc sigma in
  0 < win /\ Z.odd win = true /\
  (forall a b, 0 <= a < win -> 0 <= b < win -> (sk (win - 1 - a)%Z b == sk a b)%Q) /\
  (forall x y, (x == y)%Q -> (rk x == rk y)%Q).

Theorem bilateral_step_flip : forall inv B sigma sk rk nr nc, 1 <= B -> bil_flip_ok nr nc sigma sk rk ->
  flip_ok_at nr nc pix_eqv (bilateral_step inv B sigma sk rk).
Proof.
  intros inv B sigma sk rk nr nc HB (H1 & H2 & H3 & H4) F' F Enr Enc HF r c Hin.
  pose proof (fl_nr F' F HF) as En. pose proof (fl_nc F' F HF) as Ec.
  pose proof (fl_at F' F HF r c Hin) as Hp. destruct Hin as [Hr Hc].
  unfold bilateral_step. cbv zeta. rewrite En, Ec, Enr, Enc in *. rewrite (eqv_fL _ _ Hp), (eqv_fR _ _ Hp).
  apply set_disp_eqv; [exact Hp| |].
  - unfold frow. rewrite Enr. apply (bilateral_map_flip inv B sigma sk rk nr nc); try assumption.
    intros r0 c0 Hr0 Hc0. pose proof (fl_at F' F HF r0 c0) as H0. unfold in_frame, fld, frow in *. rewrite Enr, Enc in H0.
    specialize (H0 (conj Hr0 Hc0)). split; [apply eqv_dL, H0|apply eqv_fL, H0].
  - unfold frow. rewrite Enr. apply (bilateral_map_flip inv B sigma sk rk nr nc); try assumption.
    intros r0 c0 Hr0 Hc0. pose proof (fl_at F' F HF r0 c0) as H0. unfold in_frame, fld, frow in *. rewrite Enr, Enc in H0.
    specialize (H0 (conj Hr0 Hc0)). split; [apply eqv_dR, H0|apply eqv_fR, H0].
Qed.

(* ------------------------------------------------------------------ the validity mask of the matching-cost step
   (criteria.py) at ANY pixel: the dilated no-data masks read a window clipped to the image (upside down: the same
   rows), the disparity-range bits depend on the column only, mask_border paints the first and the last
   offset rows -- with two different statements of the source (data[:offset, :] and data[-offset:, :]); the regenerated
   flag sites must give them the same effect ([bord_sym], re-proved on the generated sites at every run) *)

Definition bord_sym (E : Criteria.env) : Prop :=
  forall m, Criteria.fire E Criteria.R_bord_top m true = Criteria.fire E Criteria.R_bord_bot m true.

Lemma existsb_ext_in : forall {X} (f g : X -> bool) l, (forall x, In x l -> f x = g x) -> existsb f l = existsb g l.
Proof.
  induction l as [|a l IH]; intros H; cbn [existsb]; [reflexivity|].
  rewrite (H a) by now left. rewrite IH; [reflexivity|]. intros; apply H; now right.
Qed.

Lemma crit_zrange_In : forall lo hi x, In x (Criteria.zrange lo hi) <-> lo <= x <= hi.
Proof. intros. unfold Criteria.zrange. rewrite zseq_In. lia. Qed.

Lemma existsb_zrange_rev : forall (g : Z -> bool) K lo hi,
  existsb (fun i => g (K - i)) (Criteria.zrange lo hi) = existsb g (Criteria.zrange (K - hi) (K - lo)).
Proof.
  intros g K lo hi. apply eq_true_iff_eq. rewrite !existsb_exists. split.
  - intros (i & Hi & Hg). exists (K - i). split; [|exact Hg]. apply crit_zrange_In in Hi. apply crit_zrange_In. lia.
  - intros (i & Hi & Hg). exists (K - i). apply crit_zrange_In in Hi. split; [apply crit_zrange_In; lia|].
    replace (K - (K - i)) with i by lia. exact Hg.
Qed.

Section CritFlip.
  Import Criteria.
  Variables (E : env) (L' L : layout) (r c : Z) (an' an : Z -> Z -> bool).
  Hypothesis Hsame : nr L' = nr L /\ nc L' = nc L /\ off L' = off L /\ dmin L' = dmin L /\ dmax L' = dmax L /\ lhas L' = lhas L
                     /\ rhas L' = rhas L /\ l_nd L' = l_nd L /\ l_vl L' = l_vl L /\ r_nd L' = r_nd L /\ r_vl L' = r_vl L.
  Hypothesis Hoff : 0 <= off L.
  Hypothesis Hr : 0 <= r < nr L.
  Hypothesis Hc : 0 <= c < nc L.
  Let r0 := nr L - 1 - r.
  Hypothesis Hlm : forall i j, 0 <= i < nr L -> 0 <= j < nc L -> lm L' i j = lm L (nr L - 1 - i) j.
  Hypothesis Hrm : forall i j, 0 <= i < nr L -> 0 <= j < nc L -> rm L' i j = rm L (nr L - 1 - i) j.
  Hypothesis Han : an' r c = an r0 c.
  Hypothesis Hsym : bord_sym E.

  Lemma dil_flip : forall (m' m : Z -> Z -> Z) ndv c0,
    (forall i j, 0 <= i < nr L -> 0 <= j < nc L -> m' i j = m (nr L - 1 - i) j) ->
    dil L' m' ndv r c0 = dil L m ndv r0 c0.
  Proof.
    intros m' m ndv c0 Hm. destruct Hsame as (E1 & E2 & E3 & _). unfold dil. rewrite E1, E2, E3.
    set (cols := zrange (Z.max 0 (c0 - off L)) (Z.min (nc L - 1) (c0 + off L))).
    rewrite (existsb_ext_in _ (fun i => (fun i0 => existsb (fun j => m i0 j =? ndv) cols) (nr L - 1 - i))).
    2:{ intros i Hi. apply crit_zrange_In in Hi. apply existsb_ext_in. intros j Hj. unfold cols in Hj.
        apply crit_zrange_In in Hj. rewrite Hm by lia. reflexivity. }
    rewrite (existsb_zrange_rev (fun i0 => existsb (fun j => m i0 j =? ndv) cols)).
    unfold r0. f_equal. f_equal; lia.
  Qed.

  Lemma alloc_left_flip : forall m, alloc_left E L' m r c = alloc_left E L m r0 c.
  Proof.
    intro m. destruct Hsame as (_ & _ & _ & _ & _ & _ & _ & E1 & E2 & _). unfold alloc_left.
    rewrite E1, E2, (dil_flip (lm L') (lm L) (l_nd L) c Hlm). unfold isinv. rewrite Hlm by assumption. reflexivity.
  Qed.

  Lemma alloc_right_flip : forall m, alloc_right E L' m r c = alloc_right E L m r0 c.
  Proof.
    intro m. destruct Hsame as (_ & E2 & E3 & E4 & E5 & _ & _ & _ & _ & E6 & E7). unfold alloc_right. rewrite E4, E5.
    f_equal. apply fold_left_ext_in. intros dsp st Hd. unfold arm_step. destruct st as [[b27 ndr] mm].
    unfold last_col, range_len, bit1_col, last_col. rewrite E2, E3, E4, E5, E6, E7.
    destruct ((c + dsp >=? 0 + off L) && (c + dsp <=? nc L - 1 - off L)) eqn:Ev; [|reflexivity].
    rewrite (dil_flip (rm L') (rm L) (r_nd L) (c + dsp) Hrm). unfold isinv. rewrite Hrm by lia. reflexivity.
  Qed.

  Lemma validity_mask_px_flip : validity_mask_px E L' r c = validity_mask_px E L r0 c.
  Proof.
    destruct Hsame as (_ & E2 & E3 & E4 & E5 & E6 & E7 & _). unfold validity_mask_px.
    assert (Eb : vm_base E L' c = vm_base E L c).
    { unfold vm_base, bit1_col, last_col. rewrite E2, E3, E4, E5. reflexivity. }
    rewrite Eb, E6, E7. pose proof alloc_left_flip as A. pose proof alloc_right_flip as B0.
    destruct (lhas L); destruct (rhas L); rewrite ?A, ?B0; reflexivity.
  Qed.

  Lemma mask_border_px_flip : forall m, 0 < off L -> mask_border_px E L' r c m = mask_border_px E L r0 c m.
  Proof.
    intros m Ho. destruct Hsame as (E1 & E2 & E3 & _). unfold mask_border_px, py_idx, in_sl. rewrite E1, E2, E3. cbv zeta.
    replace (off L <? 0) with false by lia. replace (- off L <? 0) with true by lia. unfold r0.
    replace ((0 <=? nr L - 1 - r) && (nr L - 1 - r <? Z.min (off L) (nr L)))
      with ((Z.max 0 (nr L + - off L) <=? r) && (r <? nr L)) by lia.
    replace ((Z.max 0 (nr L + - off L) <=? nr L - 1 - r) && (nr L - 1 - r <? nr L))
      with ((0 <=? r) && (r <? Z.min (off L) (nr L))) by lia.
    replace ((Z.min (off L) (nr L) <=? nr L - 1 - r) && (nr L - 1 - r <? Z.max 0 (nr L + - off L)))
      with ((Z.min (off L) (nr L) <=? r) && (r <? Z.max 0 (nr L + - off L))) by lia.
    destruct ((0 <=? r) && (r <? Z.min (off L) (nr L))); destruct ((Z.max 0 (nr L + - off L) <=? r) && (r <? nr L));
      rewrite ?Hsym; reflexivity.
  Qed.

  Theorem after_mc_flip : after_mc E L' an' r c = after_mc E L an r0 c.
  Proof.
    destruct Hsame as (_ & _ & E3 & _). unfold after_mc. rewrite validity_mask_px_flip, Han, E3.
    destruct (off L >? 0) eqn:Ho; [|reflexivity]. apply mask_border_px_flip. lia.
  Qed.
End CritFlip.

(* ------------------------------------------------------------------ matching cost (sad / ssd / census / zncc) and its
   validity mask, left and right products *)

From Pandora Require Proofs.LocalFlipCostP.

Lemma swap_pix_eqv : forall p q, pix_eqv p q -> pix_eqv (swap_pix p) (swap_pix q).
Proof.
  intros p q H. destruct (pix_eqv_fields p q H) as (A1 & A2 & A3 & A4). destruct H as (_ & B1 & B2 & B3 & B4 & B5 & B6).
  unfold pix_eqv, swap_pix, img_of. cbn. repeat split; congruence || assumption.
Qed.
Lemma flipped_swap : forall F' F, flipped pix_eqv F' F -> flipped pix_eqv (swapf F') (swapf F).
Proof.
  intros F' F (E1 & E2 & H). unfold flipped, swapf. cbn [f_nr f_nc f_at]. split; [assumption|split; [assumption|]].
  intros r c Hin. apply swap_pix_eqv. apply (H r c Hin).
Qed.
Lemma cfg_wf_swap : forall G, cfg_wf G -> cfg_wf (swapc G).
Proof.
  intros G (A1 & A2 & A3 & A4). unfold cfg_wf, swapc. cbn [g_w g_s g_dmin g_dmax]. repeat split; try assumption. lia.
Qed.

Lemma omask_flip : forall has (g : pix -> Z) (F' F : frame pix) a b,
  g (f_at F' a b) = g (f_at F (frow F a) b) ->
  LocalCostP.mask_agree (omask has (fld g F')) (omask has (fld g F)) a b (f_nr F - 1 - a) b.
Proof. intros has g F' F a b H. destruct has; cbn [omask LocalCostP.mask_agree]; [exact H|exact I]. Qed.

Section MCFlip.
  Variables (m : mmeas) (E : Criteria.env) (G : cfg).
  Hypothesis Hwf : cfg_wf G.
  Hypothesis Hm : meas_wf G m.
  Variables (F' F : frame pix) (r c : Z).
  Hypothesis HF : flipped pix_eqv F' F.
  Hypothesis Hin : in_frame F r c.
  Hypothesis Hsym : bord_sym E.

  Lemma left_curve_flip :
    curve (mc_vol m (inp_left G F') (g_dmin G) (g_dmax G)) (n_disp G) r c
    = curve (mc_vol m (inp_left G F) (g_dmin G) (g_dmax G)) (n_disp G) (frow F r) c.
  Proof.
    pose proof (fl_nr F' F HF) as En. pose proof (fl_nc F' F HF) as Ec. destruct Hwf as (Hw & Ho & Hs & Hdd).
    destruct Hin as [Hr Hc].
    apply curve_ext. intros k Hk. unfold n_disp in Hk.
    assert (Y : MatchingCostP.wf_cfg (inp_left G F)) by (unfold MatchingCostP.wf_cfg, inp_left; cbn; tauto).
    assert (Hcfg : MatchingCost.i_ny (inp_left G F') = MatchingCost.i_ny (inp_left G F) /\
                   MatchingCost.i_nx (inp_left G F') = MatchingCost.i_nx (inp_left G F) /\
                   MatchingCost.i_w (inp_left G F') = MatchingCost.i_w (inp_left G F) /\
                   MatchingCost.i_s (inp_left G F') = MatchingCost.i_s (inp_left G F) /\
                   MatchingCost.i_vp (inp_left G F') = MatchingCost.i_vp (inp_left G F) /\
                   MatchingCost.i_nd (inp_left G F') = MatchingCost.i_nd (inp_left G F))
      by (unfold inp_left; cbn; repeat split; assumption).
    assert (HL : forall a b, Cost.in_image (MatchingCost.i_ny (inp_left G F)) (MatchingCost.i_nx (inp_left G F)) a b = true ->
              MatchingCost.i_L (inp_left G F') a b = MatchingCost.i_L (inp_left G F) (MatchingCost.i_ny (inp_left G F) - 1 - a) b /\
              LocalCostP.mask_agree (MatchingCost.i_mL (inp_left G F')) (MatchingCost.i_mL (inp_left G F)) a b
                (MatchingCost.i_ny (inp_left G F) - 1 - a) b).
    { intros a b Hab. unfold inp_left in *. cbn in *. unfold Cost.in_image in Hab.
      pose proof (fl_at F' F HF a b ltac:(unfold in_frame; lia)) as Hp.
      split; [unfold fld; apply (eqv_L _ _ Hp)|apply omask_flip; apply (eqv_mL _ _ Hp)]. }
    assert (HR : forall a b, Cost.in_image (MatchingCost.i_ny (inp_left G F)) (MatchingCost.i_nx (inp_left G F)) a b = true ->
              MatchingCost.i_R (inp_left G F') a b = MatchingCost.i_R (inp_left G F) (MatchingCost.i_ny (inp_left G F) - 1 - a) b /\
              LocalCostP.mask_agree (MatchingCost.i_mR (inp_left G F')) (MatchingCost.i_mR (inp_left G F)) a b
                (MatchingCost.i_ny (inp_left G F) - 1 - a) b).
    { intros a b Hab. unfold inp_left in *. cbn in *. unfold Cost.in_image in Hab.
      pose proof (fl_at F' F HF a b ltac:(unfold in_frame; lia)) as Hp.
      split; [unfold fld; apply (eqv_R _ _ Hp)|apply omask_flip; apply (eqv_mR _ _ Hp)]. }
    change (frow F r) with (MatchingCost.i_ny (inp_left G F) - 1 - r).
    destruct m as [| | |zq]; cbn [mc_vol].
    - apply LocalFlipCostP.sad_model_flip; try assumption; cbn; try lia; split; reflexivity.
    - apply LocalFlipCostP.ssd_model_flip; try assumption; cbn; try lia; split; reflexivity.
    - apply LocalFlipCostP.census_model_flip; try assumption; cbn; try lia; try exact Hm; split; reflexivity.
    - f_equal. apply LocalFlipCostP.zncc_model_flip; try assumption; cbn; try lia; split; reflexivity.
  Qed.

  Lemma left_flag_flip : forall b' b, b' = b ->
    Criteria.after_mc E (lay_left G F') (fun _ _ => b') r c = Criteria.after_mc E (lay_left G F) (fun _ _ => b) (frow F r) c.
  Proof.
    intros b' b Eb. pose proof (fl_nr F' F HF) as En. pose proof (fl_nc F' F HF) as Ec. pose proof (h0 G Hwf) as Hh.
    destruct Hin as [Hr Hc].
    change (frow F r) with (Criteria.nr (lay_left G F) - 1 - r).
    apply after_mc_flip; unfold lay_left; cbn [Criteria.off Criteria.dmin Criteria.dmax Criteria.lhas Criteria.rhas
      Criteria.l_nd Criteria.l_vl Criteria.r_nd Criteria.r_vl Criteria.nr Criteria.nc Criteria.lm Criteria.rm]; try assumption.
    - repeat split; assumption.
    - intros i j Hi Hj. unfold fld. apply (eqv_mL _ _ (fl_at F' F HF i j (conj Hi Hj))).
    - intros i j Hi Hj. unfold fld. apply (eqv_mR _ _ (fl_at F' F HF i j (conj Hi Hj))).
  Qed.
End MCFlip.

Theorem mc_step_flip : forall m E G, cfg_wf G -> meas_wf G m -> bord_sym E -> flip_ok pix_eqv (mc_step m E G).
Proof.
  intros m E G Hwf Hm Hsym F' F HF r c Hin.
  pose proof (cfg_wf_swap G Hwf) as Hwf'. assert (Hm' : meas_wf (swapc G) m) by (destruct m; exact Hm).
  pose proof (flipped_swap F' F HF) as HFs.
  pose proof (left_curve_flip m G Hwf Hm F' F r c HF Hin) as CL.
  pose proof (left_curve_flip m (swapc G) Hwf' Hm' (swapf F') (swapf F) r c HFs Hin) as CR.
  rewrite n_disp_swap in CR.
  change (inp_left (swapc G) (swapf F')) with (inp_right G F') in CR.
  change (inp_left (swapc G) (swapf F)) with (inp_right G F) in CR.
  change (frow (swapf F) r) with (frow F r) in CR.
  cbn [swapc g_dmin g_dmax] in CR.
  unfold mc_step. cbv zeta. rewrite CL, CR.
  rewrite (left_flag_flip E G Hwf F' F r c HF Hin Hsym _ _ eq_refl).
  change (lay_right G F') with (lay_left (swapc G) (swapf F')).
  change (lay_right G F) with (lay_left (swapc G) (swapf F)).
  rewrite (left_flag_flip E (swapc G) Hwf' (swapf F') (swapf F) r c HFs Hin Hsym _ _ eq_refl).
  change (frow (swapf F) r) with (frow F r).
  apply set_mc_eqv. apply (fl_at F' F HF r c Hin).
Qed.

(* ------------------------------------------------------------------ cbca aggregation, left and right cost volumes
   (through Proofs/LocalFlipCbcaP.v: C11's plane theorem, the spec read upside down, the 3x3 median pre-filter) *)

From Pandora Require Model.Cbca Proofs.CbcaP Proofs.LocalCbcaP Proofs.LocalFlipCbcaP.

Section CbcaFlip.
  Variables (dist : Z) (inten : Q) (G : cfg).
  Hypothesis Hwf : cfg_wf G.
  Hypothesis Hdist : 1 <= dist.
  Variables (F' F : frame pix) (r c : Z).
  Hypothesis HF : flipped pix_eqv F' F.
  Hypothesis Hin : in_frame F r c.

  Lemma cbca_left_flip : forall k, 0 <= k < n_disp G ->
    cbca_at (cbca_left dist inten G F') k r c = cbca_at (cbca_left dist inten G F) k (frow F r) c.
  Proof.
    intros k Hk. pose proof (fl_nr F' F HF) as En. pose proof (fl_nc F' F HF) as Ec. pose proof (h0 G Hwf) as Hh.
    destruct Hwf as (Hw & Ho & Hs & Hdd). destruct Hin as [Hr Hc].
    assert (Hn : 0 <= n_disp G) by (unfold n_disp, MatchingCost.nb_disp; nia).
    change (cbca_at (cbca_left dist inten G F') k r c) with (CbcaP.out_at (cbca_left dist inten G F') k r c).
    change (cbca_at (cbca_left dist inten G F) k (frow F r) c) with (CbcaP.out_at (cbca_left dist inten G F) k (frow F r) c).
    change (frow F r) with (Cbca.i_nr (cbca_left dist inten G F) - 1 - r).
    assert (Hat : forall a b, 0 <= a < f_nr F -> 0 <= b < f_nc F -> pix_eqv (f_at F' a b) (f_at F (f_nr F - 1 - a) b)).
    { intros a b Ha Hb. apply (fl_at F' F HF a b). split; assumption. }
    apply LocalFlipCbcaP.cbca_model_flip.
    - unfold cbca_left. cbn. rewrite En, Ec. repeat split; reflexivity.
    - exact Hdist.
    - unfold cbca_left. cbn [Cbca.i_subpix]. lia.
    - unfold cbca_left. cbn [Cbca.i_off]. exact Hh.
    - intros a b Ha Hb. unfold cbca_left in *. cbn in *. pose proof (Hat a b Ha Hb) as Hp. split.
      + unfold qimg, fld. rewrite (eqv_L _ _ Hp). reflexivity.
      + destruct (g_hasL G); cbn [omask LocalCbcaP.omask_agree]; [unfold fld; apply (eqv_mL _ _ Hp)|exact I].
    - intros s a b Ha Hb. unfold cbca_left in *. cbn [Cbca.i_imR Cbca.i_nr Cbca.i_nc Cbca.ncR_full] in *.
      unfold Cbca.ncR_full in Hb. cbn [Cbca.i_nc] in Hb.
      unfold shifted, MatchingCost.shift_right, fld.
      destruct (s =? 0) eqn:Es.
      + rewrite (eqv_R _ _ (Hat a b Ha ltac:(lia))). reflexivity.
      + rewrite (eqv_R _ _ (Hat a b Ha ltac:(lia))), (eqv_R _ _ (Hat a (b + 1) Ha ltac:(lia))). reflexivity.
    - intros a b Ha Hb. unfold cbca_left in *. cbn in *. pose proof (Hat a b Ha Hb) as Hp.
      destruct (g_hasR G); cbn [omask LocalCbcaP.omask_agree]; [unfold fld; apply (eqv_mR _ _ Hp)|exact I].
    - intros k0 a b Ha Hb. unfold cbca_left in *. cbn in *. unfold cv_at. rewrite (eqv_cvL _ _ (Hat a b Ha Hb)). reflexivity.
    - unfold CbcaP.n_disp, cbca_left. cbn [Cbca.i_disps]. rewrite disps_length by assumption. exact Hk.
    - unfold cbca_left. cbn [Cbca.i_nr]. exact Hr.
    - unfold cbca_left. cbn [Cbca.i_nc]. exact Hc.
  Qed.
End CbcaFlip.

Theorem cbca_step_flip : forall dist inten G, cfg_wf G -> 1 <= dist -> flip_ok pix_eqv (cbca_step dist inten G).
Proof.
  intros dist inten G Hwf Hdist F' F HF r c Hin.
  pose proof (cfg_wf_swap G Hwf) as Hwf'. pose proof (flipped_swap F' F HF) as HFs.
  unfold cbca_step.
  rewrite (map_ext_in _ (fun k => cbca_at (cbca_left dist inten G F) k (frow F r) c) (MatchingCost.zrange 0 (n_disp G))).
  2:{ intros k Hk. apply MatchingCostP.zrange_In in Hk. apply cbca_left_flip; try assumption. lia. }
  rewrite (map_ext_in (fun k => cbca_at (cbca_right dist inten G F') k r c)
             (fun k => cbca_at (cbca_right dist inten G F) k (frow F r) c) (MatchingCost.zrange 0 (n_disp G))).
  2:{ intros k Hk. apply MatchingCostP.zrange_In in Hk. rewrite !cbca_right_swap.
      change (frow F r) with (frow (swapf F) r). apply cbca_left_flip; try assumption. rewrite n_disp_swap. lia. }
  apply set_cv_eqv. apply (fl_at F' F HF r c Hin).
Qed.

(* ------------------------------------------------------------------ pipelines *)

Lemma flip_ok_all_sizes : forall A (E : A -> A -> Prop) (f : op A A) nr nc, flip_ok E f -> flip_ok_at nr nc E f.
Proof. intros A E f nr nc H F' F _ _ HF r c Hin. apply H; assumption. Qed.

Lemma flipped_lift_at : forall A (E : A -> A -> Prop) (f : op A A) nr nc F' F, f_nr F = nr -> f_nc F = nc ->
  flip_ok_at nr nc E f -> flipped E F' F -> flipped E (lift f F') (lift f F).
Proof.
  intros A E f nr nc F' F En Ec Hf HF. pose proof HF as (E1 & E2 & _). unfold flipped, lift. cbn [f_nr f_nc f_at].
  split; [assumption|split; [assumption|]]. intros r c Hin.
  change (frow (mkFrame (f_nr F) (f_nc F) (f F)) r) with (frow F r). apply Hf; assumption.
Qed.

Theorem pipeline_flip_at : forall A (E : A -> A -> Prop) nr nc (steps : list (op A A)),
  Forall (flip_ok_at nr nc E) steps -> flip_ok_at nr nc E (run_pipe steps).
Proof.
  intros A E nr nc steps H. induction H as [|s rest Hs Hrest IH].
  - intros F' F _ _ (_ & _ & HF) r c Hin. cbn [run_pipe]. apply HF. exact Hin.
  - intros F' F En Ec HF r c Hin. cbn [run_pipe]. unfold comp.
    change (frow F r) with (frow (lift s F) r). apply IH; try assumption.
    apply (flipped_lift_at A E s nr nc); assumption.
Qed.

(* side conditions of the flip, per step, on rasters of nr x nc pixels: odd windows (the matching-cost window is odd by
   cfg_wf), census window 1/3/5, symmetric border statements of criteria.py, symmetric bilateral kernel *)
Definition step_flip_wf (V : env) (nr nc : Z) (s : step) : Prop :=
  match s with
  | SMc m => meas_wf (e_cfg V) m /\ bord_sym (e_flags V)
  | SCbca dist _ => 1 <= dist
  | SMedian w => 0 < w /\ Z.odd w = true
  | SBilateral sigma sk rk => bil_flip_ok nr nc sigma sk rk
  | _ => True
  end.

Lemma step_flip : forall V nr nc s, env_wf V -> step_flip_wf V nr nc s -> flip_ok_at nr nc pix_eqv (step_op V s).
Proof.
  intros V nr nc s (Hc & Hb1 & Hb2 & Hb3) Hs. destruct s; cbn [step_op step_flip_wf] in *.
  - destruct Hs as [Hm Hsym]. apply flip_ok_all_sizes. apply mc_step_flip; assumption.
  - apply flip_ok_all_sizes. apply cbca_step_flip; assumption.
  - apply flip_ok_all_sizes. apply wta_step_flip; assumption.
  - apply flip_ok_all_sizes. apply refine_step_flip.
  - destruct Hs as [Hw Ho]. apply flip_ok_all_sizes. apply median_step_flip; assumption.
  - apply bilateral_step_flip; assumption.
  - apply flip_ok_all_sizes. apply xcheck_step_flip.
Qed.

(* MAIN: a pipeline run on the pair of images turned upside down gives, at every pixel, what the run on the pair gives
   at the mirrored row: radiometry, masks, cost curves, validity flags equal, disparities the same numbers *)
Theorem pipe_flip : forall V steps (F' F : frame pix), env_wf V ->
  Forall (step_flip_wf V (f_nr F) (f_nc F)) steps -> flipped pix_eqv F' F ->
  forall r c, in_frame F r c ->
  pix_eqv (run_pipe (map (step_op V) steps) F' r c) (run_pipe (map (step_op V) steps) F (frow F r) c).
Proof.
  intros V steps F' F HV Hs HF r c Hin.
  apply (pipeline_flip_at pix pix_eqv (f_nr F) (f_nc F)); try assumption; try reflexivity.
  apply Forall_map. eapply Forall_impl; [|exact Hs]. intros s H. apply step_flip; assumption.
Qed.

Corollary pipe_vflip : forall V steps (F : frame pix), env_wf V ->
  Forall (step_flip_wf V (f_nr F) (f_nc F)) steps ->
  forall r c, in_frame F r c ->
  pix_eqv (run_pipe (map (step_op V) steps) (vflip F) r c) (run_pipe (map (step_op V) steps) F (frow F r) c).
Proof.
  intros V steps F HV Hs r c Hin. apply pipe_flip; try assumption. apply vflip_flipped. exact pix_eqv_refl.
Qed.
