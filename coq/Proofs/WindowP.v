(* Proofs for C16 about img_tools.get_window AS REGENERATED in Gen/Window.v: for all integer
   ROI bounds, margins and image sizes. *)
From Coq Require Import ZArith List Bool Lia.
From Pandora Require Import Model.Dataset Spec.Dataset Gen.Window.
Open Scope Z_scope.

(* when the read is not refused, the window is exactly the set of pixels of the image that lie
   in [first - margin, last + margin], on each axis, and it is not empty *)
Definition window_is_clipped_roi_stmt : Prop :=
  forall cf cl rf rl m0 m1 m2 m3 W H co ro w h,
    cf - m0 <= cl + m2 -> rf - m1 <= rl + m3 ->
    get_window cf cl rf rl m0 m1 m2 m3 W H = Window co ro w h ->
    1 <= w /\ 1 <= h /\ 0 <= co /\ 0 <= ro /\ co + w <= W /\ ro + h <= H /\
    (forall c, co <= c < co + w <-> in_roi cf cl m0 m2 W c) /\
    (forall r, ro <= r < ro + h <-> in_roi rf rl m1 m3 H r).

(* the read is refused exactly when no pixel of the image is inside the ROI with its margins *)
Definition window_refused_iff_empty_stmt : Prop :=
  forall cf cl rf rl m0 m1 m2 m3 W H,
    cf - m0 <= cl + m2 -> rf - m1 <= rl + m3 ->
    (get_window cf cl rf rl m0 m1 m2 m3 W H = RaiseOutside
     <-> roi_empty cf cl rf rl m0 m1 m2 m3 W H)
    /\ get_window cf cl rf rl m0 m1 m2 m3 W H <> RaiseNegative.

Ltac split_ifs :=
  repeat match goal with
         | H : context [if ?b then _ else _] |- _ => destruct b eqn:?
         | |- context [if ?b then _ else _] => destruct b eqn:?
         end.

Lemma window_is_clipped_roi : window_is_clipped_roi_stmt.
Proof.
  unfold window_is_clipped_roi_stmt, get_window, mk_window, in_roi.
  intros cf cl rf rl m0 m1 m2 m3 W H co ro w h Hc Hr E.
  split_ifs; try discriminate; inversion E; subst; clear E;
    repeat split; intros; lia.
Qed.

Lemma window_refused_iff_empty : window_refused_iff_empty_stmt.
Proof.
  unfold window_refused_iff_empty_stmt, get_window, mk_window, roi_empty, in_roi.
  intros cf cl rf rl m0 m1 m2 m3 W H Hc Hr.
  split; [split|].
  - intros E [c [r [[? ?] [? ?]]]]. split_ifs; try discriminate; lia.
  - intros E. split_ifs; try reflexivity; exfalso; apply E;
      exists (Z.max (cf - m0) 0), (Z.max (rf - m1) 0); lia.
  - split_ifs; try discriminate; lia.
Qed.

(* regression witnesses of D7: ROI starting at column = width, ROI ending at column -1 *)
Example roi_right_after_last_column_refused :
  get_window 5 6 0 1 0 0 0 0 5 4 = RaiseOutside.
Proof. reflexivity. Qed.
Example roi_right_before_first_column_refused :
  get_window (-3) (-1) 0 1 0 0 0 0 5 4 = RaiseOutside.
Proof. reflexivity. Qed.

(* composition: get_window then the windowed read *)
From Pandora Require Import Proofs.DatasetP.
Import ListNotations.

Lemma roi_dataset inp W H cf cl rf rl m0 m1 m2 m3 co ro w h :
  i_img inp <> [] ->
  Forall (fun a => nr a = H /\ nc a = W) (i_img inp) ->
  cf - m0 <= cl + m2 -> rf - m1 <= rl + m3 ->
  get_window cf cl rf rl m0 m1 m2 m3 W H = Window co ro w h ->
  let full := create_dataset inp None in
  let roi := create_dataset inp (Some (co, ro, w, h)) in
  (forall c, In c (d_col roi) <-> in_roi cf cl m0 m2 W c) /\
  (forall r, In r (d_row roi) <-> in_roi rf rl m1 m3 H r) /\
  Forall2 (crop_of co ro w h) (d_im full) (d_im roi) /\
  (forall r c, 0 <= r < h -> 0 <= c < w ->
               class_at (d_msk roi) r c = class_at (d_msk full) (ro + r) (co + c)).
Proof.
  intros Hne Hshape Hc Hr E.
  destruct (window_is_clipped_roi _ _ _ _ _ _ _ _ _ _ _ _ _ _ Hc Hr E)
    as (Hw & Hh & Hco & Hro & HcoW & HroH & Hcols & Hrows).
  destruct (roi_read_is_crop inp W H co ro w h Hne Hshape Hco Hro HcoW HroH)
    as ((_ & _ & Hrow & Hcol) & Him & _ & Hcls & _).
  cbv zeta. rewrite Hrow, Hcol. split; [|split; [|split]]; try assumption.
  - intros c. rewrite In_zrange. apply Hcols.
  - intros r. rewrite In_zrange. apply Hrows.
Qed.
