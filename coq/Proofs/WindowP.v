(* Proofs for C16 about img_tools.get_window AS REGENERATED in Gen/Window.v: for all integer
   ROI bounds, margins and image sizes. *)
From Coq Require Import ZArith List Bool Lia.
From Pandora Require Import Model.Dataset Spec.Dataset Gen.Window.
Open Scope Z_scope.

(* when the read is not refused, the window is exactly the set of pixels of the image that lie
   in [first - margin, last + margin], on each axis, and it is not empty *)
Definition window_is_clipped_roi_stmt : Prop :=
  forall cf cl rf rl m0 m1 m2 m3 W H co ro w h,
    cf - m0 <= cl + m2 -> rf - m1 <= rl + m3 ->
    get_window cf cl rf rl m0 m1 m2 m3 W H = Window co ro w h ->
    1 <= w /\ 1 <= h /\ 0 <= co /\ 0 <= ro /\ co + w <= W /\ ro + h <= H /\
    (forall c, co <= c < co + w <-> in_roi cf cl m0 m2 W c) /\
    (forall r, ro <= r < ro + h <-> in_roi rf rl m1 m3 H r).

(* the read is refused exactly when no pixel of the image is inside the ROI with its margins *)
Definition window_refused_iff_empty_stmt : Prop :=
  forall cf cl rf rl m0 m1 m2 m3 W H,
    cf - m0 <= cl + m2 -> rf - m1 <= rl + m3 ->
    (get_window cf cl rf rl m0 m1 m2 m3 W H = RaiseOutside
     <-> roi_empty cf cl rf rl m0 m1 m2 m3 W H)
    /\ get_window cf cl rf rl m0 m1 m2 m3 W H <> RaiseNegative.

(* D7: on the code as found, a ROI that starts exactly one column past the image is not refused *)
Lemma window_refused_iff_empty_refuted : ~ window_refused_iff_empty_stmt.
Proof.
  intros H. destruct (H 5 6 0 1 0 0 0 0 5 4 ltac:(lia) ltac:(lia)) as [[_ H2] _].
  assert (E : roi_empty 5 6 0 1 0 0 0 0 5 4).
  { intros [c [r [[? ?] _]]]. lia. }
  apply H2 in E. vm_compute in E. discriminate.
Qed.

Lemma window_is_clipped_roi_refuted : ~ window_is_clipped_roi_stmt.
Proof.
  intros H. specialize (H (-3) (-1) 0 1 0 0 0 0 5 4 0 0 0 2 ltac:(lia) ltac:(lia) eq_refl). lia.
Qed.
