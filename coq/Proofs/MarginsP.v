(* Proofs about Model/Margins.v against Spec/Margins.v.
   Generic in the generated tables: everything is proved for ANY
   [margin_tables] that passes the boolean test [tables_ok] (decidable
   equality with the documented expression table); that test is re-run by
   vm_compute on Gen/Margins.v at every check. *)
From Coq Require Import ZArith List Bool QArith Qround Lia.
From Pandora Require Import Model.Machine Model.Margins Spec.Language Spec.Margins Proofs.MachineP.
Import ListNotations.
Open Scope Z_scope.

(* ------------------------------------------------------------------ *)
(* the documented table, as expressions                                *)

Definition e4u (e : mexpr) : mexpr4 := mkE4 e e e e.
Definition half_win : mexpr := MTruncDiv (MSub MWin (MConst 1)) 2.
Definition doc_reg (k : kind) : reg :=
  match k with
  | MC | Agg | Opt | Dsp | Ref => RegCumulative
  | Flt => RegNonCumulative
  | Seg | Val | Msc | Cvc => RegNone
  end.
Definition doc_expr (k : kind) : mexpr4 :=
  match k with
  | MC => e4u half_win
  | Opt => e4u (MConst 40)
  | _ => e4u (MConst 0)
  end.
Definition doc_filter (m : fmethod) : mexpr4 :=
  match m with
  | FMedian | FMedianForIntervals => e4u (MMul MFilterSize MStep)
  | FBilateral => e4u (MMul (MMin MRows (MMin MCols MSigmaSpace3p1)) MStep)
  end.
Definition doc_tables : margin_tables := mkTbl doc_reg doc_expr doc_filter.

Fixpoint mexpr_eqb (a b : mexpr) : bool :=
  match a, b with
  | MConst x, MConst y => x =? y
  | MWin, MWin | MFilterSize, MFilterSize | MStep, MStep | MRows, MRows | MCols, MCols
  | MSigmaSpace3p1, MSigmaSpace3p1 => true
  | MSub a1 a2, MSub b1 b2 => mexpr_eqb a1 b1 && mexpr_eqb a2 b2
  | MMul a1 a2, MMul b1 b2 => mexpr_eqb a1 b1 && mexpr_eqb a2 b2
  | MMin a1 a2, MMin b1 b2 => mexpr_eqb a1 b1 && mexpr_eqb a2 b2
  | MTruncDiv a1 d, MTruncDiv b1 e => mexpr_eqb a1 b1 && (d =? e)
  | _, _ => false
  end.

Lemma mexpr_eqb_eq a : forall b, mexpr_eqb a b = true -> a = b.
Proof.
  induction a; intros b H; destruct b; simpl in H; try discriminate; try reflexivity.
  - apply Z.eqb_eq in H. now subst.
  - apply andb_true_iff in H as [H1 H2]. f_equal; auto.
  - apply andb_true_iff in H as [H1 H2]. f_equal; auto.
  - apply andb_true_iff in H as [H1 H2]. f_equal; auto.
  - apply andb_true_iff in H as [H1 H2]. apply Z.eqb_eq in H2. subst. f_equal; auto.
Qed.

Definition e4_eqb (a b : mexpr4) : bool :=
  mexpr_eqb (x_l a) (x_l b) && mexpr_eqb (x_u a) (x_u b)
  && mexpr_eqb (x_r a) (x_r b) && mexpr_eqb (x_d a) (x_d b).
Lemma e4_eqb_eq a b : e4_eqb a b = true -> a = b.
Proof.
  destruct a, b; unfold e4_eqb; simpl; intros H.
  repeat (apply andb_true_iff in H as [H ?]).
  f_equal; now apply mexpr_eqb_eq.
Qed.

Definition reg_eqb (a b : reg) : bool :=
  match a, b with
  | RegCumulative, RegCumulative | RegNonCumulative, RegNonCumulative | RegNone, RegNone => true
  | _, _ => false
  end.
Lemma reg_eqb_eq a b : reg_eqb a b = true -> a = b.
Proof. destruct a, b; simpl; congruence. Qed.

Definition all_fmethods : list fmethod := [FMedian; FBilateral; FMedianForIntervals].

(* the expression of the abstract filter class is never used (every filter
   method has its own), nor is the expression of a kind that registers nothing *)
Definition tables_ok (tb : margin_tables) : bool :=
  forallb (fun k => reg_eqb (tb_reg tb k) (doc_reg k)) all_kinds
  && forallb (fun k => match doc_reg k with
                       | RegCumulative => e4_eqb (tb_expr tb k) (doc_expr k)
                       | _ => true
                       end) all_kinds
  && forallb (fun m => e4_eqb (tb_filter tb m) (doc_filter m)) all_fmethods.

Lemma tables_ok_reg tb : tables_ok tb = true -> forall k, tb_reg tb k = doc_reg k.
Proof.
  unfold tables_ok; intros H k. apply andb_true_iff in H as [H _]. apply andb_true_iff in H as [H _].
  rewrite forallb_forall in H. apply reg_eqb_eq. apply H. apply all_kinds_full.
Qed.

Lemma tables_ok_step tb : tables_ok tb = true ->
  forall s, doc_reg (ms_kind s) <> RegNone -> step_expr tb s = step_expr doc_tables s.
Proof.
  unfold tables_ok; intros H s Hs. apply andb_true_iff in H as [H H3]. apply andb_true_iff in H as [_ H2].
  rewrite forallb_forall in H2, H3. unfold step_expr.
  destruct (ms_kind s) eqn:Ek; simpl in *; try congruence;
    try (specialize (H2 _ (all_kinds_full (ms_kind s))); rewrite Ek in H2; simpl in H2;
         now apply e4_eqb_eq in H2).
  apply e4_eqb_eq. apply H3. destruct (ms_fm s); simpl; auto.
Qed.

Lemma round_tables_ok tb : tables_ok tb = true ->
  forall p rows cols st g,
    check_round_margins tb rows cols st g p = check_round_margins doc_tables rows cols st g p.
Proof.
  intros H. induction p as [|s r IH]; intros rows cols st g; simpl; [reflexivity|].
  rewrite (tables_ok_reg tb H). change (tb_reg doc_tables (ms_kind s)) with (doc_reg (ms_kind s)).
  destruct (doc_reg (ms_kind s)) eqn:Er.
  - rewrite (tables_ok_step tb H s) by congruence. destruct (add_cumulative _ _ _); auto.
  - rewrite (tables_ok_step tb H s) by congruence. destruct (add_non_cumulative _ _ _); auto.
  - apply IH.
Qed.

Lemma check_tables_ok tb : tables_ok tb = true ->
  forall sl sr st g p, check_margins tb sl sr st g p = check_margins doc_tables sl sr st g p.
Proof.
  intros H sl sr st g p. unfold check_margins. rewrite (round_tables_ok tb H).
  destruct (check_round_margins doc_tables _ _ _ _ _) as [[g1 st1]|]; [|reflexivity].
  destruct (has_validation p); [|reflexivity]. now rewrite (round_tables_ok tb H).
Qed.

(* ------------------------------------------------------------------ *)
(* the documented expressions evaluate to the documented values        *)

Lemma qtrunc_floor q : (0 <= Qnum q) -> qtrunc q = Qfloor q.
Proof.
  destruct q as [n d]; unfold qtrunc, Qfloor; simpl; intros Hn.
  apply Z.quot_div_nonneg; lia.
Qed.

Lemma params_ok_spec rows cols s : params_ok rows cols s = true ->
  1 <= ms_win s /\ Z.odd (ms_win s) = true /\ 1 <= ms_fsize s /\ 1 <= ms_mcstep s
  /\ 0 < Qnum (ms_sigma s) /\ 1 <= rows /\ 1 <= cols.
Proof.
  unfold params_ok; intros H.
  repeat (apply andb_true_iff in H as [H ?]).
  repeat match goal with
         | X : (_ <=? _) = true |- _ => apply Z.leb_le in X
         | X : (_ <? _) = true |- _ => apply Z.ltb_lt in X
         end.
  repeat split; assumption.
Qed.

Definition env_of (rows cols st : Z) (s : mstep) : menv :=
  mkEnv (ms_win s) (ms_fsize s) st rows cols (ms_sigma s).

Lemma qnum_3s1 q : 0 < Qnum q -> 0 <= Qnum (3 * q + 1)%Q.
Proof.
  destruct q as [n d]. unfold Qplus, Qmult. cbn [Qnum Qden]. intros H. lia.
Qed.

Lemma doc_eval rows cols st s : params_ok rows cols s = true ->
  match doc_reg (ms_kind s), doc_entry rows cols st s with
  | RegCumulative, DocCumulative v | RegNonCumulative, DocNonCumulative v =>
      meval4 (env_of rows cols st s) (step_expr doc_tables s) = uniform v
  | RegNone, DocNone => True
  | _, _ => False
  end.
Proof.
  intros H. apply params_ok_spec in H as (Hw & _ & _ & _ & Hs & _ & _).
  assert (Hq : qtrunc (3 * ms_sigma s + 1)%Q = Qfloor (3 * ms_sigma s + 1)%Q).
  { apply qtrunc_floor. now apply qnum_3s1. }
  unfold doc_entry, step_expr.
  destruct (ms_kind s) eqn:Ek; cbn [doc_reg doc_tables tb_expr tb_filter doc_expr]; try exact I; try reflexivity.
  - (* MC *) unfold meval4, uniform, e4u, half_win, env_of. cbn [x_l x_u x_r x_d meval e_win].
    rewrite Z.quot_div_nonneg by lia. reflexivity.
  - (* Flt *) destruct (ms_fm s); cbn [doc_filter]; try reflexivity.
    unfold meval4, uniform, e4u, env_of. cbn [x_l x_u x_r x_d meval e_rows e_cols e_step e_sigma].
    rewrite Hq. reflexivity.
Qed.

(* ------------------------------------------------------------------ *)
(* ordered dictionaries                                                 *)

Fixpoint md_find (k : Z) (d : mdict) : option margins :=
  match d with [] => None | (k', v) :: r => if k =? k' then Some v else md_find k r end.

Lemma md_set_fresh k v d : md_mem k d = false -> md_set k v d = d ++ [(k, v)].
Proof.
  induction d as [|[k' v'] r IH]; simpl; intros H; [reflexivity|].
  apply orb_false_iff in H as [H1 H2]. rewrite H1. f_equal. auto.
Qed.

Lemma md_set_same k v d : md_find k d = Some v -> md_set k v d = d.
Proof.
  induction d as [|[k' v'] r IH]; simpl; intros H; [discriminate|].
  destruct (k =? k') eqn:E.
  - injection H as ->. reflexivity.
  - f_equal. auto.
Qed.

Lemma md_mem_app k a b : md_mem k (a ++ b) = md_mem k a || md_mem k b.
Proof.
  induction a as [|[k' v'] r IH]; simpl; [reflexivity|]. rewrite IH. apply orb_assoc.
Qed.

Lemma md_find_mem k d v : md_find k d = Some v -> md_mem k d = true.
Proof.
  induction d as [|[k' v'] r IH]; simpl; intros H; [discriminate|].
  destruct (k =? k'); simpl; auto.
Qed.

Lemma md_mem_in k d : md_mem k d = true <-> In k (map fst d).
Proof.
  induction d as [|[k' v'] r IH]; simpl; [split; [discriminate|tauto]|].
  rewrite orb_true_iff, Z.eqb_eq, IH. split; intros [H|H]; auto.
Qed.

Lemma md_mem_false_in k d : md_mem k d = false <-> ~ In k (map fst d).
Proof.
  rewrite <- md_mem_in. destruct (md_mem k d); split; intros; congruence.
Qed.

(* ------------------------------------------------------------------ *)
(* one checking round on the documented tables                          *)

Section Round.
  Variables rows cols : Z.

  Definition all_params_ok (p : list mstep) : bool := forallb (params_ok rows cols) p.

  (* steps without a matching-cost step: the machine step [st] is constant *)
  Lemma round_no_mc (p : list mstep) : forall g st,
    all_params_ok p = true -> no_mc p = true -> NoDup (map ms_id p) ->
    (forall k, In k (map ms_id p) -> md_mem k (g_cum g) = false /\ md_mem k (g_non g) = false) ->
    check_round_margins doc_tables rows cols st g p =
      Some (mkG (g_cum g ++ spec_cum rows cols st p) (g_non g ++ spec_non rows cols st p), st).
  Proof.
    induction p as [|s r IH]; intros g st Hok Hmc Hnd Hfresh.
    - simpl. unfold spec_cum, spec_non; simpl. rewrite !app_nil_r. destruct g; reflexivity.
    - simpl in Hok, Hmc. apply andb_true_iff in Hok as [Hs Hok]. apply andb_true_iff in Hmc as [Hk Hmc].
      inversion Hnd as [|x l Hnotin Hnd' Heq]; subst.
      destruct (Hfresh (ms_id s) (or_introl eq_refl)) as [Hc Hn].
      cbn [check_round_margins].
      assert (Hst : match ms_kind s with MC => ms_mcstep s | _ => st end = st).
      { destruct (ms_kind s); try reflexivity. discriminate. }
      rewrite Hst. fold (env_of rows cols st s).
      pose proof (doc_eval rows cols st s Hs) as Hev.
      change (tb_reg doc_tables (ms_kind s)) with (doc_reg (ms_kind s)).
      unfold spec_cum, spec_non. cbn [flat_map]. fold (spec_cum rows cols st r) (spec_non rows cols st r).
      destruct (doc_reg (ms_kind s)) eqn:Er; destruct (doc_entry rows cols st s) eqn:Ee; try contradiction.
      + rewrite Hev. unfold add_cumulative. rewrite Hn. rewrite (md_set_fresh _ _ _ Hc).
        rewrite IH; auto.
        * simpl. rewrite <- !app_assoc. reflexivity.
        * simpl. intros k Hk'. destruct (Hfresh k (or_intror Hk')) as [A B]. split; [|exact B].
          rewrite md_mem_app, A. simpl. rewrite orb_false_r. apply Z.eqb_neq. intros ->. contradiction.
      + rewrite Hev. unfold add_non_cumulative. rewrite Hc. rewrite (md_set_fresh _ _ _ Hn).
        rewrite IH; auto.
        * simpl. rewrite <- !app_assoc. reflexivity.
        * simpl. intros k Hk'. destruct (Hfresh k (or_intror Hk')) as [A B]. split; [exact A|].
          rewrite md_mem_app, B. simpl. rewrite orb_false_r. apply Z.eqb_neq. intros ->. contradiction.
      + rewrite IH; auto.
        intros k Hk'. apply Hfresh. right; exact Hk'.
  Qed.

  (* the spec lists of a whole accepted pipeline, seen from its head *)
  Lemma spec_head_mc st s r : ms_kind s = MC ->
    spec_cum rows cols st (s :: r) = (ms_id s, uniform ((ms_win s - 1) / 2)) :: spec_cum rows cols st r
    /\ spec_non rows cols st (s :: r) = spec_non rows cols st r.
  Proof. intros Hk. unfold spec_cum, spec_non, doc_entry; simpl. rewrite Hk. split; reflexivity. Qed.

  (* first round on a fresh machine *)
  Theorem first_round_spec p st0 :
    pipeline_shape p -> all_params_ok p = true ->
    check_round_margins doc_tables rows cols st0 g0 p =
      Some (mkG (spec_cum rows cols (pipeline_step p) p) (spec_non rows cols (pipeline_step p) p),
            match p with [] => st0 | _ => pipeline_step p end).
  Proof.
    intros [Hshape Hnd] Hok. destruct p as [|s r]; [reflexivity|].
    destruct Hshape as [Hk Hmc]. simpl in Hok. apply andb_true_iff in Hok as [Hs Hok].
    inversion Hnd as [|x l Hnotin Hnd' Heq]; subst.
    cbn [check_round_margins pipeline_step]. rewrite Hk.
    fold (env_of rows cols (ms_mcstep s) s).
    pose proof (doc_eval rows cols (ms_mcstep s) s Hs) as Hev.
    change (tb_reg doc_tables MC) with RegCumulative.
    unfold doc_entry in Hev. rewrite Hk in Hev. simpl in Hev. rewrite Hev.
    unfold add_cumulative; simpl.
    rewrite round_no_mc; auto.
    - unfold doc_entry. rewrite Hk. reflexivity.
    - simpl. intros k Hk'. split; [|reflexivity]. rewrite orb_false_r. apply Z.eqb_neq. intros ->. contradiction.
  Qed.

  (* ---------------- second round ---------------- *)

  Definition present (g : gmargins) (st : Z) (s : mstep) : Prop :=
    match doc_entry rows cols st s with
    | DocCumulative v => md_find (ms_id s) (g_cum g) = Some (uniform v) /\ md_mem (ms_id s) (g_non g) = false
    | DocNonCumulative v => md_find (ms_id s) (g_non g) = Some (uniform v) /\ md_mem (ms_id s) (g_cum g) = false
    | DocNone => True
    end.

  Lemma round_idem_no_mc (p : list mstep) : forall g st,
    all_params_ok p = true -> no_mc p = true -> Forall (present g st) p ->
    check_round_margins doc_tables rows cols st g p = Some (g, st).
  Proof.
    induction p as [|s r IH]; intros g st Hok Hmc Hpr; [reflexivity|].
    simpl in Hok, Hmc. apply andb_true_iff in Hok as [Hs Hok]. apply andb_true_iff in Hmc as [Hk Hmc].
    inversion Hpr as [|x l Hp Hpr' Heq]; subst.
    cbn [check_round_margins].
    assert (Hst : match ms_kind s with MC => ms_mcstep s | _ => st end = st).
    { destruct (ms_kind s); try reflexivity. discriminate. }
    rewrite Hst. fold (env_of rows cols st s).
    pose proof (doc_eval rows cols st s Hs) as Hev.
    change (tb_reg doc_tables (ms_kind s)) with (doc_reg (ms_kind s)).
    unfold present in Hp.
    destruct (doc_reg (ms_kind s)) eqn:Er; destruct (doc_entry rows cols st s) eqn:Ee; try contradiction.
    - destruct Hp as [Hf Hn]. rewrite Hev. unfold add_cumulative. rewrite Hn, (md_set_same _ _ _ Hf).
      destruct g; simpl. apply IH; auto.
    - destruct Hp as [Hf Hc]. rewrite Hev. unfold add_non_cumulative. rewrite Hc, (md_set_same _ _ _ Hf).
      destruct g; simpl. apply IH; auto.
    - apply IH; auto.
  Qed.

  Lemma find_spec_cum st p : NoDup (map ms_id p) -> forall s v,
    In s p -> doc_entry rows cols st s = DocCumulative v ->
    md_find (ms_id s) (spec_cum rows cols st p) = Some (uniform v).
  Proof.
    induction p as [|s0 r IH]; intros Hnd s v Hin He; [contradiction|].
    inversion Hnd as [|x l Hnotin Hnd' Heq]; subst.
    unfold spec_cum; cbn [flat_map]. fold (spec_cum rows cols st r).
    destruct Hin as [->|Hin].
    - rewrite He. simpl. rewrite Z.eqb_refl. reflexivity.
    - assert (Hne : ms_id s <> ms_id s0).
      { intros E. apply Hnotin. rewrite <- E. now apply in_map. }
      destruct (doc_entry rows cols st s0); simpl; auto.
      apply Z.eqb_neq in Hne. rewrite Hne. auto.
  Qed.

  Lemma find_spec_non st p : NoDup (map ms_id p) -> forall s v,
    In s p -> doc_entry rows cols st s = DocNonCumulative v ->
    md_find (ms_id s) (spec_non rows cols st p) = Some (uniform v).
  Proof.
    induction p as [|s0 r IH]; intros Hnd s v Hin He; [contradiction|].
    inversion Hnd as [|x l Hnotin Hnd' Heq]; subst.
    unfold spec_non; cbn [flat_map]. fold (spec_non rows cols st r).
    destruct Hin as [->|Hin].
    - rewrite He. simpl. rewrite Z.eqb_refl. reflexivity.
    - assert (Hne : ms_id s <> ms_id s0).
      { intros E. apply Hnotin. rewrite <- E. now apply in_map. }
      destruct (doc_entry rows cols st s0); simpl; auto.
      apply Z.eqb_neq in Hne. rewrite Hne. auto.
  Qed.

  (* a key of the cumulative spec list belongs to a cumulative step, hence
     (names being distinct) is not a key of the non-cumulative one *)
  Lemma cum_key_kind st p k : In k (map fst (spec_cum rows cols st p)) ->
    exists s v, In s p /\ ms_id s = k /\ doc_entry rows cols st s = DocCumulative v.
  Proof.
    induction p as [|s0 r IH]; simpl; intros H; [contradiction|].
    unfold spec_cum in H; cbn [flat_map] in H. rewrite map_app, in_app_iff in H. destruct H as [H|H].
    - destruct (doc_entry rows cols st s0) eqn:E; simpl in H; try contradiction.
      destruct H as [H|[]]. exists s0, v. auto.
    - destruct (IH H) as (s & v & A & B & C). exists s, v. auto.
  Qed.
  Lemma non_key_kind st p k : In k (map fst (spec_non rows cols st p)) ->
    exists s v, In s p /\ ms_id s = k /\ doc_entry rows cols st s = DocNonCumulative v.
  Proof.
    induction p as [|s0 r IH]; simpl; intros H; [contradiction|].
    unfold spec_non in H; cbn [flat_map] in H. rewrite map_app, in_app_iff in H. destruct H as [H|H].
    - destruct (doc_entry rows cols st s0) eqn:E; simpl in H; try contradiction.
      destruct H as [H|[]]. exists s0, v. auto.
    - destruct (IH H) as (s & v & A & B & C). exists s, v. auto.
  Qed.

  Lemma nodup_id_inj p : NoDup (map ms_id p) -> forall a b, In a p -> In b p -> ms_id a = ms_id b -> a = b.
  Proof.
    induction p as [|s r IH]; intros Hnd a b Ha Hb E; [contradiction|].
    inversion Hnd as [|x l Hnotin Hnd' Heq]; subst.
    destruct Ha as [->|Ha], Hb as [->|Hb]; auto.
    - exfalso. apply Hnotin. rewrite E. now apply in_map.
    - exfalso. apply Hnotin. rewrite <- E. now apply in_map.
  Qed.

  Lemma present_in_spec st p : NoDup (map ms_id p) ->
    Forall (present (mkG (spec_cum rows cols st p) (spec_non rows cols st p)) st) p.
  Proof.
    intros Hnd. apply Forall_forall. intros s Hin. unfold present; simpl.
    destruct (doc_entry rows cols st s) eqn:E; [| |exact I].
    - split; [eapply find_spec_cum; eauto|].
      apply md_mem_false_in. intros H. apply non_key_kind in H as (s' & v' & A & B & C).
      assert (s' = s) by (eapply nodup_id_inj; eauto). subst. congruence.
    - split; [eapply find_spec_non; eauto|].
      apply md_mem_false_in. intros H. apply cum_key_kind in H as (s' & v' & A & B & C).
      assert (s' = s) by (eapply nodup_id_inj; eauto). subst. congruence.
  Qed.

  (* second round from the result of the first: nothing changes *)
  Theorem second_round_spec p :
    pipeline_shape p -> all_params_ok p = true ->
    let st := pipeline_step p in
    let g1 := mkG (spec_cum rows cols st p) (spec_non rows cols st p) in
    check_round_margins doc_tables rows cols (match p with [] => 1 | _ => st end) g1 p
    = Some (g1, match p with [] => 1 | _ => st end).
  Proof.
    intros [Hshape Hnd] Hok st g1. destruct p as [|s r]; [reflexivity|].
    destruct Hshape as [Hk Hmc]. simpl in Hok. apply andb_true_iff in Hok as [Hs Hok].
    assert (Est : st = ms_mcstep s) by reflexivity.
    pose proof (present_in_spec st (s :: r) Hnd) as Hpr. fold g1 in Hpr.
    inversion Hpr as [|x l Hp Hpr' Heq]; subst x l.
    cbn [check_round_margins]. rewrite Hk. cbv iota. rewrite <- Est.
    fold (env_of rows cols st s).
    pose proof (doc_eval rows cols st s Hs) as Hev.
    change (tb_reg doc_tables MC) with RegCumulative.
    unfold present in Hp. unfold doc_entry in Hev, Hp. rewrite Hk in Hev, Hp. simpl in Hev. rewrite Hev.
    destruct Hp as [Hf Hn]. unfold add_cumulative. rewrite Hn, (md_set_same _ _ _ Hf).
    replace {| g_cum := g_cum g1; g_non := g_non g1 |} with g1 by reflexivity.
    apply round_idem_no_mc; auto.
  Qed.
End Round.

(* ------------------------------------------------------------------ *)
(* check_conf on a fresh machine                                        *)

Theorem check_margins_spec tb rows cols p :
  tables_ok tb = true ->
  pipeline_shape p -> all_params_ok rows cols p = true ->
  check_margins tb (rows, cols) (rows, cols) 1 g0 p =
    Some (mkG (spec_cum rows cols (pipeline_step p) p) (spec_non rows cols (pipeline_step p) p)).
Proof.
  intros Htb Hsh Hok. rewrite (check_tables_ok tb Htb). unfold check_margins; simpl fst; simpl snd.
  rewrite (first_round_spec rows cols p 1 Hsh Hok).
  destruct (has_validation p); [|reflexivity].
  pose proof (second_round_spec rows cols p Hsh Hok) as H2. cbv zeta in H2.
  destruct p as [|s r]; [reflexivity|]. rewrite H2. reflexivity.
Qed.

(* check_conf on ANY machine (whatever margins an earlier check left, whatever `step` it holds),
   given that check_conf resets the margins when it starts *)
Theorem check_margins_any_machine tb rows cols p st0 g :
  tables_ok tb = true ->
  pipeline_shape p -> all_params_ok rows cols p = true ->
  machine_check_margins true tb (rows, cols) (rows, cols) st0 g p =
    Some (mkG (spec_cum rows cols (pipeline_step p) p) (spec_non rows cols (pipeline_step p) p)).
Proof.
  intros Htb Hsh Hok. unfold machine_check_margins.
  rewrite (check_tables_ok tb Htb). unfold check_margins; simpl fst; simpl snd.
  rewrite (first_round_spec rows cols p st0 Hsh Hok).
  destruct (has_validation p); [|reflexivity].
  pose proof (second_round_spec rows cols p Hsh Hok) as H2. cbv zeta in H2.
  destruct p as [|s r]; [reflexivity|]. rewrite H2. reflexivity.
Qed.

(* the second (right/left) round is a no-op: the result does not depend on
   whether a validation step triggers it *)
Theorem second_round_noop tb rows cols p :
  tables_ok tb = true ->
  pipeline_shape p -> all_params_ok rows cols p = true ->
  check_margins tb (rows, cols) (rows, cols) 1 g0 p =
    option_map fst (check_round_margins tb rows cols 1 g0 p).
Proof.
  intros Htb Hsh Hok. rewrite (check_margins_spec tb rows cols p Htb Hsh Hok).
  rewrite (round_tables_ok tb Htb). rewrite (first_round_spec rows cols p 1 Hsh Hok). reflexivity.
Qed.

(* ------------------------------------------------------------------ *)
(* global margins                                                       *)

Lemma fold_max_ge l : forall i, i <= fold_left Z.max l i.
Proof. induction l as [|x r IH]; simpl; intros i; [lia|]. specialize (IH (Z.max i x)). lia. Qed.
Lemma fold_max_in l : forall i x, In x l -> x <= fold_left Z.max l i.
Proof.
  induction l as [|y r IH]; simpl; intros i x H; [contradiction|].
  destruct H as [->|H]; [|auto]. pose proof (fold_max_ge r (Z.max i x)). lia.
Qed.
Lemma fold_max_is l : forall i, fold_left Z.max l i = i \/ In (fold_left Z.max l i) l.
Proof.
  induction l as [|y r IH]; simpl; intros i; [left; reflexivity|].
  destruct (IH (Z.max i y)) as [H|H]; [|right; right; exact H].
  rewrite H. destruct (Z.max_spec i y) as [[_ E]|[_ E]]; rewrite E; auto.
Qed.

Definition is_side (f : margins -> Z) : Prop := f = mg_l \/ f = mg_u \/ f = mg_r \/ f = mg_d.

Lemma side_max f a b : is_side f -> f (mg_max a b) = Z.max (f a) (f b).
Proof. intros [-> | [-> | [-> | ->]]]; reflexivity. Qed.
Lemma side_add f a b : is_side f -> f (mg_add a b) = f a + f b.
Proof. intros [-> | [-> | [-> | ->]]]; reflexivity. Qed.
Lemma side_mg0 f : is_side f -> f mg0 = 0.
Proof. intros [-> | [-> | [-> | ->]]]; reflexivity. Qed.

Lemma side_fold_max f (Hf : is_side f) l : forall i,
  f (fold_left mg_max l i) = fold_left Z.max (map f l) (f i).
Proof. induction l as [|x r IH]; simpl; intros i; [reflexivity|]. rewrite IH, side_max; auto. Qed.

Lemma side_fold_add f (Hf : is_side f) d : forall acc,
  f (fold_left (fun a kv => mg_add a (snd kv)) d acc) = f acc + side_sum f d.
Proof.
  induction d as [|[k v] r IH]; intros acc; unfold side_sum in *; simpl; [lia|].
  rewrite IH, side_add; auto. simpl. lia.
Qed.

Lemma side_md_sum f (Hf : is_side f) d : f (md_sum d) = side_sum f d.
Proof. unfold md_sum. rewrite side_fold_add, side_mg0; auto. Qed.

(* per side: the larger of the sum of the cumulative margins and each
   non-cumulative one *)
Theorem global_formula f g : is_side f ->
  let G := f (global_margins g) in
  side_sum f (g_cum g) <= G
  /\ (forall k v, In (k, v) (g_non g) -> f v <= G)
  /\ (G = side_sum f (g_cum g) \/ exists k v, In (k, v) (g_non g) /\ G = f v).
Proof.
  intros Hf G. unfold G, global_margins, max_margins.
  rewrite side_fold_max, side_md_sum by assumption. rewrite map_map.
  split; [apply fold_max_ge|]. split.
  - intros k v Hin. apply fold_max_in. apply in_map_iff. exists (k, v). auto.
  - destruct (fold_max_is (map (fun x => f (snd x)) (g_non g)) (side_sum f (g_cum g))) as [H|H]; [left; exact H|].
    right. apply in_map_iff in H as ([k v] & E & Hin). exists k, v. simpl in E. auto.
Qed.

(* ------------------------------------------------------------------ *)
(* non-negativity and monotonicity                                      *)

Lemma doc_entry_nonneg rows cols st s : params_ok rows cols s = true -> 1 <= st ->
  match doc_entry rows cols st s with
  | DocCumulative v | DocNonCumulative v => 0 <= v
  | DocNone => True
  end.
Proof.
  intros H Hst. apply params_ok_spec in H as (Hw & _ & Hf & _ & Hs & Hr & Hc).
  unfold doc_entry. destruct (ms_kind s); try exact I; try lia.
  - apply Z.div_pos; lia.
  - destruct (ms_fm s); try nia.
    assert (0 <= Qfloor (3 * ms_sigma s + 1)%Q).
    { pose proof (qnum_3s1 (ms_sigma s) Hs) as Hn.
      destruct (3 * ms_sigma s + 1)%Q as [n d]; unfold Qfloor; cbn [Qnum] in Hn. apply Z.div_pos; lia. }
    nia.
Qed.

Definition dict_nonneg (f : margins -> Z) (d : mdict) : Prop := forall k v, In (k, v) d -> 0 <= f v.

Lemma side_uniform f v : is_side f -> f (uniform v) = v.
Proof. intros [-> | [-> | [-> | ->]]]; reflexivity. Qed.

Lemma spec_cum_nonneg rows cols st p f : is_side f ->
  all_params_ok rows cols p = true -> 1 <= st -> dict_nonneg f (spec_cum rows cols st p).
Proof.
  intros Hf Hok Hst k v Hin. unfold spec_cum in Hin. apply in_flat_map in Hin as (s & Hs & Hin).
  unfold all_params_ok in Hok. rewrite forallb_forall in Hok.
  pose proof (doc_entry_nonneg rows cols st s (Hok s Hs) Hst) as Hn.
  destruct (doc_entry rows cols st s); simpl in Hin; try contradiction.
  destruct Hin as [E|[]]. injection E as _ <-. rewrite side_uniform; auto.
Qed.
Lemma spec_non_nonneg rows cols st p f : is_side f ->
  all_params_ok rows cols p = true -> 1 <= st -> dict_nonneg f (spec_non rows cols st p).
Proof.
  intros Hf Hok Hst k v Hin. unfold spec_non in Hin. apply in_flat_map in Hin as (s & Hs & Hin).
  unfold all_params_ok in Hok. rewrite forallb_forall in Hok.
  pose proof (doc_entry_nonneg rows cols st s (Hok s Hs) Hst) as Hn.
  destruct (doc_entry rows cols st s); simpl in Hin; try contradiction.
  destruct Hin as [E|[]]. injection E as _ <-. rewrite side_uniform; auto.
Qed.

Lemma side_sum_nonneg f d : dict_nonneg f d -> 0 <= side_sum f d.
Proof.
  unfold side_sum. induction d as [|[k v] r IH]; simpl; intros H; [lia|].
  assert (0 <= f v) by (apply (H k v); left; reflexivity).
  assert (0 <= fold_right Z.add 0 (map (fun kv => f (snd kv)) r)) by (apply IH; intros k' v' Hin; apply (H k' v'); right; exact Hin).
  lia.
Qed.

Lemma pipeline_step_pos rows cols p : all_params_ok rows cols p = true -> 1 <= pipeline_step p.
Proof.
  destruct p as [|s r]; simpl; intros H; [lia|]. apply andb_true_iff in H as [H _].
  apply params_ok_spec in H. tauto.
Qed.

Theorem margins_nonneg rows cols p f : is_side f ->
  all_params_ok rows cols p = true ->
  let st := pipeline_step p in
  let g := mkG (spec_cum rows cols st p) (spec_non rows cols st p) in
  dict_nonneg f (g_cum g) /\ dict_nonneg f (g_non g) /\ 0 <= f (global_margins g).
Proof.
  intros Hf Hok st g. pose proof (pipeline_step_pos rows cols p Hok) as Hst.
  split; [apply spec_cum_nonneg; auto|]. split; [apply spec_non_nonneg; auto|].
  destruct (global_formula f g Hf) as (H1 & _ & _).
  pose proof (side_sum_nonneg f (g_cum g) (spec_cum_nonneg rows cols st p f Hf Hok Hst)). lia.
Qed.

(* inserting a step anywhere after the matching-cost step never decreases
   any side of the global margins *)
Lemma side_sum_app f a b : side_sum f (a ++ b) = side_sum f a + side_sum f b.
Proof. unfold side_sum. induction a as [|[k v] r IH]; simpl; [lia|]. rewrite IH. lia. Qed.

Lemma spec_cum_app rows cols st a b :
  spec_cum rows cols st (a ++ b) = spec_cum rows cols st a ++ spec_cum rows cols st b.
Proof. unfold spec_cum. apply flat_map_app. Qed.
Lemma spec_non_app rows cols st a b :
  spec_non rows cols st (a ++ b) = spec_non rows cols st a ++ spec_non rows cols st b.
Proof. unfold spec_non. apply flat_map_app. Qed.

Theorem margins_monotone rows cols s0 a s b f : is_side f ->
  all_params_ok rows cols (s0 :: a ++ s :: b) = true ->
  let st := ms_mcstep s0 in
  let g  := mkG (spec_cum rows cols st (s0 :: a ++ b)) (spec_non rows cols st (s0 :: a ++ b)) in
  let g' := mkG (spec_cum rows cols st (s0 :: a ++ s :: b)) (spec_non rows cols st (s0 :: a ++ s :: b)) in
  f (global_margins g) <= f (global_margins g').
Proof.
  intros Hf Hok st g g'.
  assert (Hst : 1 <= st) by (apply (pipeline_step_pos rows cols _ Hok)).
  destruct (global_formula f g Hf) as (_ & _ & Hcase).
  destruct (global_formula f g' Hf) as (Hsum' & Hnon' & _).
  change (s0 :: a ++ s :: b) with ((s0 :: a) ++ [s] ++ b) in *.
  change (s0 :: a ++ b) with ((s0 :: a) ++ b) in *.
  assert (Hs_ok : all_params_ok rows cols [s] = true).
  { unfold all_params_ok in *. rewrite !forallb_app in Hok.
    apply andb_true_iff in Hok as [_ Hok]. apply andb_true_iff in Hok as [Hok _]. exact Hok. }
  destruct Hcase as [E | (k & v & Hin & E)]; rewrite E.
  - (* the sum of the cumulative margins grows by a non-negative entry *)
    eapply Z.le_trans; [|exact Hsum'].
    unfold g, g'; cbn [g_cum]. rewrite !spec_cum_app, !side_sum_app.
    pose proof (side_sum_nonneg f _ (spec_cum_nonneg rows cols st [s] f Hf Hs_ok Hst)). lia.
  - (* every non-cumulative entry is still there *)
    apply (Hnon' k v). unfold g, g' in *; cbn [g_non] in *.
    rewrite !spec_non_app in *. rewrite !in_app_iff in *. tauto.
Qed.

(* half the matching window: for an odd window w, 2 * margin + 1 = w *)
Ltac Zify.zify_post_hook ::= Z.to_euclidean_division_equations.
Lemma half_window w : 1 <= w -> Z.odd w = true -> 2 * ((w - 1) / 2) + 1 = w.
Proof.
  intros Hw Ho. rewrite Zodd_mod in Ho. apply Zeq_bool_eq in Ho. lia.
Qed.

(* link with C01: a pipeline accepted by the documented automaton has the
   shape the margin theorems need *)
Definition to_step (s : mstep) : step := mkStep (ms_id s) (Some (ms_kind s)).

Lemma path_no_mc p : forall st d, st <> Begin -> path_ok st (map to_step p) = Some d -> no_mc p = true.
Proof.
  induction p as [|s r IH]; intros st d Hst H; [reflexivity|].
  cbn [map path_ok to_step s_kind] in H. destruct (doc_next st (ms_kind s)) as [d1|] eqn:En; [|discriminate].
  simpl. apply andb_true_iff. split.
  - destruct st, (ms_kind s); simpl in En; try discriminate; try reflexivity. congruence.
  - apply (IH d1 d); [|exact H]. destruct st, (ms_kind s); simpl in En; try discriminate; injection En as <-; discriminate.
Qed.

Lemma accepted_pipeline_shape p d :
  path_ok Begin (map to_step p) = Some d -> NoDup (map ms_id p) -> pipeline_shape p.
Proof.
  intros H Hnd. split; [|exact Hnd]. destruct p as [|s r]; [exact I|].
  cbn [map path_ok to_step s_kind] in H.
  destruct (ms_kind s) eqn:Ek; cbn [doc_next] in H; try discriminate.
  split; [reflexivity|]. eapply (path_no_mc r CostVolume d); [discriminate|exact H].
Qed.
