(* C04 -- the invariant of a run: one step (any flag satisfying the invariant, any decision), then
   induction over every legal pipeline (documented automaton of C01, Spec/Language.v). *)
From Coq Require Import ZArith List Bool Lia ZifyBool.
From Pandora Require Import Model.Machine Spec.Language Model.Criteria Model.FlagSteps Model.FlagPipeline
  Spec.Validity Proofs.FlagEnvP Proofs.CriteriaP Proofs.FlagStepsP.
Import ListNotations.
Open Scope Z_scope.

(* what the pipeline guard asks of one step, and what is known after it *)
Definition g_step (idR idI cR cI : bool) (s : fstep) : bool :=
  match s with
  | SRef => idR || cR
  | SVal INone => true
  | SVal _ => idI || cI
  | _ => true
  end.
Definition nR (cR : bool) (s : fstep) : bool := match s with SRef => false | _ => cR end.
Definition nI (cI : bool) (s : fstep) : bool :=
  match s with SVal INone => cI | SVal _ => false | _ => cI end.

(* a border pixel (when the window is larger than 1) carries 1, or 1 + bit 11 after a regularising
   median_for_intervals *)
Definition bI (ob : bool) (m : Z) : Prop := ob = true -> m = 1 \/ m = 2049.

Lemma implb_elim : forall a b, implb a b = true -> a = true -> b = true.
Proof. intros [] []; cbn; congruence. Qed.

Lemma pinv_split : forall cR cI m, pinv_b cR cI m = true -> inv_b m = true /\ rest_b cR cI m = true.
Proof. intros. unfold pinv_b in H. apply andb_true_iff in H. exact H. Qed.

(* reference steps, every flag of the invariant, every decision *)
Lemma r_step_facts : forall idR idI cR cI ob s d m,
  pinv_b cR cI m = true -> g_step idR idI cR cI s = true -> bI ob m ->
  s_step idR idI ob s d m = true
  /\ pinv_b (nR cR s) (nI cI s) (r_step ob s d m) = true
  /\ bI ob (r_step ob s d m)
  /\ ((ob = true -> m = 1) -> Z.ldiff (r_step ob s d m) (own s) = Z.ldiff m (own s)).
Proof.
  intros idR idI cR cI ob s d m Hp Hg Hb. destruct ob.
  - (* border pixel: the flag is 1 or 2049, everything computes *)
    assert (Hm : m = 1 \/ m = 2049) by (apply Hb; reflexivity).
    unfold bI. destruct d as [dr dx dl df dfm dn dg].
    destruct Hm as [-> | ->]; destruct s as [[]| |[]|]; destruct cR, cI; try discriminate Hp;
      try (destruct dg); vm_compute; repeat split; auto; try discriminate; intros; auto;
      try (match goal with H : ?x = true -> _ |- _ => specialize (H eq_refl); discriminate end).
  - destruct (pinv_split _ _ _ Hp) as [Hi Hr].
    destruct s as [mfi| |i|]; cbn [s_step r_step own nR nI g_step] in *.
    + destruct mfi.
      * pose proof (implb_elim _ _ (F_mfi cR cI d m Hi) Hr) as H.
        apply andb_true_iff in H as [H1 H2]. apply Z.eqb_eq in H2.
        repeat split; auto; intro; discriminate.
      * repeat split; auto; intro; discriminate.
    + assert (Hx : rest_b cR cI m && (idR || cR) = true) by (rewrite Hr, Hg; reflexivity).
      pose proof (implb_elim _ _ (F_ref idR cR cI d m Hi) Hx) as H.
      apply andb_true_iff in H as [H H3]. apply andb_true_iff in H as [H1 H2]. apply Z.eqb_eq in H3.
      repeat split; auto; intro; discriminate.
    + pose proof (implb_elim _ _ (F_xc cR cI d m Hi) Hr) as H.
      apply andb_true_iff in H as [H H3]. apply andb_true_iff in H as [H1 H2]. apply Z.eqb_eq in H3.
      change (r_border false (r_xcheck d m)) with (r_xcheck d m).
      destruct (pinv_split _ _ _ H2) as [Hi2 Hr2].
      destruct i;
        [| assert (Hx : rest_b cR cI (r_xcheck d m) && (idI || cI) = true) by (rewrite Hr2, Hg; reflexivity) ..].
      * cbn [s_interp r_interp]. rewrite H1. repeat split; auto; intro; discriminate.
      * pose proof (implb_elim _ _ (F_int IMcCnn idI cR cI d _ Hi2) Hx) as H'.
        apply andb_true_iff in H' as [H' H6]. apply andb_true_iff in H' as [H4 H5]. apply Z.eqb_eq in H6.
        rewrite H1, H4. repeat split; auto; try (intro; discriminate).
        intros _. rewrite H6. rewrite <- !(Z.ldiff_ldiff_l _ 768 48). rewrite H3. reflexivity.
      * pose proof (implb_elim _ _ (F_int ISgm idI cR cI d _ Hi2) Hx) as H'.
        apply andb_true_iff in H' as [H' H6]. apply andb_true_iff in H' as [H4 H5]. apply Z.eqb_eq in H6.
        rewrite H1, H4. repeat split; auto; try (intro; discriminate).
        intros _. rewrite H6. rewrite <- !(Z.ldiff_ldiff_l _ 768 48). rewrite H3. reflexivity.
    + repeat split; auto; intro; discriminate.
Qed.

(* ---- the filled bits (4: filled occlusion, 5: filled mismatch) recorded by an earlier step are never cleared *)
Definition keeps48 (m r : Z) : Prop := Z.land (Z.land m 48) r = Z.land m 48.

Lemma keeps48_of_ldiff : forall m r k, Z.ldiff r k = Z.ldiff m k -> Z.land k 48 = 0 -> keeps48 m r.
Proof.
  intros m r k H Hk. unfold keeps48. apply Z.bits_inj'. intros n Hn.
  assert (A : Z.testbit (Z.ldiff r k) n = Z.testbit (Z.ldiff m k) n) by (rewrite H; reflexivity).
  assert (B : Z.testbit (Z.land k 48) n = false) by (rewrite Hk; apply Z.bits_0).
  rewrite !Z.ldiff_spec in A. rewrite Z.land_spec in B. rewrite !Z.land_spec.
  destruct (Z.testbit m n), (Z.testbit r n), (Z.testbit k n), (Z.testbit 48 n); cbn in *; congruence.
Qed.

Lemma keeps48_trans : forall a b c, keeps48 a b -> keeps48 b c -> keeps48 a c.
Proof.
  unfold keeps48. intros a b c H1 H2. apply Z.bits_inj'. intros n Hn.
  assert (A : Z.testbit (Z.land (Z.land a 48) b) n = Z.testbit (Z.land a 48) n) by (rewrite H1; reflexivity).
  assert (B : Z.testbit (Z.land (Z.land b 48) c) n = Z.testbit (Z.land b 48) n) by (rewrite H2; reflexivity).
  rewrite !Z.land_spec in *.
  destruct (Z.testbit a n), (Z.testbit b n), (Z.testbit c n), (Z.testbit 48 n); cbn in *; congruence.
Qed.

Lemma keeps48_refl : forall m, keeps48 m m.
Proof.
  intro m. unfold keeps48. apply Z.bits_inj'. intros n Hn. rewrite !Z.land_spec.
  destruct (Z.testbit m n), (Z.testbit 48 n); reflexivity.
Qed.

Lemma r_step_keeps_filled : forall idR idI cR cI ob s d m,
  pinv_b cR cI m = true -> g_step idR idI cR cI s = true -> bI ob m -> keeps48 m (r_step ob s d m).
Proof.
  intros idR idI cR cI ob s d m Hp Hg Hb. destruct ob.
  - assert (Hm : m = 1 \/ m = 2049) by (apply Hb; reflexivity).
    unfold keeps48. destruct Hm as [-> | ->]; reflexivity.
  - destruct (pinv_split _ _ _ Hp) as [Hi Hr].
    destruct s as [mfi| |i|]; cbn [r_step g_step] in *.
    + destruct mfi; [|apply keeps48_refl].
      pose proof (implb_elim _ _ (F_mfi cR cI d m Hi) Hr) as H.
      apply andb_true_iff in H as [_ H2]. apply Z.eqb_eq in H2.
      apply (keeps48_of_ldiff _ _ 2048 H2). reflexivity.
    + assert (Hx : rest_b cR cI m && (idR || cR) = true) by (rewrite Hr, Hg; reflexivity).
      pose proof (implb_elim _ _ (F_ref idR cR cI d m Hi) Hx) as H.
      apply andb_true_iff in H as [_ H3]. apply Z.eqb_eq in H3.
      apply (keeps48_of_ldiff _ _ 8 H3). reflexivity.
    + pose proof (implb_elim _ _ (F_xc cR cI d m Hi) Hr) as H.
      apply andb_true_iff in H as [H H3]. apply andb_true_iff in H as [_ H2]. apply Z.eqb_eq in H3.
      change (r_border false (r_xcheck d m)) with (r_xcheck d m).
      destruct (pinv_split _ _ _ H2) as [Hi2 Hr2].
      assert (K1 : keeps48 m (r_xcheck d m)) by (apply (keeps48_of_ldiff _ _ 768 H3); reflexivity).
      destruct i.
      * cbn [r_interp]. exact K1.
      * assert (Hx : rest_b cR cI (r_xcheck d m) && (idI || cI) = true) by (rewrite Hr2, Hg; reflexivity).
        pose proof (implb_elim _ _ (F_int_keeps IMcCnn idI cR cI d _ Hi2) Hx) as H'. apply Z.eqb_eq in H'.
        exact (keeps48_trans _ _ _ K1 H').
      * assert (Hx : rest_b cR cI (r_xcheck d m) && (idI || cI) = true) by (rewrite Hr2, Hg; reflexivity).
        pose proof (implb_elim _ _ (F_int_keeps ISgm idI cR cI d _ Hi2) Hx) as H'. apply Z.eqb_eq in H'.
        exact (keeps48_trans _ _ _ K1 H').
    + apply keeps48_refl.
Qed.

Lemma inv_b_spec : forall m, inv_b m = true <->
  0 <= m < 4096 /\ Z.testbit m 10 = false /\ (Z.testbit m 8 && Z.testbit m 9) = false.
Proof.
  intro m. unfold inv_b. rewrite !andb_true_iff, !negb_true_iff. lia.
Qed.

(* a flag made of criteria bits only satisfies the invariant, with no refinement / interpolation bit *)
Lemma mc_flag_pinv : forall m cR cI, Z.land m 199 = m -> 0 <= m < 256 -> pinv_b cR cI m = true.
Proof.
  intros m cR cI H1 H2.
  assert (H : forallb (fun m => implb (Z.land m 199 =? m) (pinv_b true true m)) (zrange 0 255) = true)
    by (vm_compute; reflexivity).
  rewrite forallb_forall in H. specialize (H m). rewrite zrange_In in H. specialize (H ltac:(lia)).
  apply Z.eqb_eq in H1. rewrite H1 in H. cbn [implb] in H.
  unfold pinv_b, rest_b in *. apply andb_true_iff in H as [Hi Hr]. apply andb_true_iff in Hr as [Hr1 Hr2].
  cbn [implb] in Hr1, Hr2. rewrite Hi, Hr1, Hr2. destruct cR, cI; reflexivity.
Qed.

Section Pipe.
  Variable E : env.
  Hypothesis Hwf : wf_env E = true.

  (* the guard of one step for the tree under test: a `+=` site may only run while its bit is clear *)
  Definition g_stepE (cR cI : bool) (s : fstep) : bool :=
    match s with
    | SRef => refine_idem E || cR
    | SVal INone => true
    | SVal i => interp_idem E i || cI
    | _ => true
    end.

  Lemma guard_cons : forall cR cI s r,
    pipeline_guard E cR cI (s :: r) = g_stepE cR cI s && pipeline_guard E (nR cR s) (nI cI s) r.
  Proof. intros. destruct s as [mfi| |[]|]; reflexivity. Qed.

  (* ONE STEP, any flag of the invariant, any decision: every += / -= is carry-free, the invariant
     holds afterwards, and only the step's own bits can differ *)
  Lemma t_step_facts : forall cR cI offpos border s d m,
    pinv_b cR cI m = true -> g_stepE cR cI s = true -> bI (offpos && border) m ->
    ok_step E offpos border s d m = true
    /\ pinv_b (nR cR s) (nI cI s) (t_step E offpos border s d m) = true
    /\ bI (offpos && border) (t_step E offpos border s d m)
    /\ ((offpos && border = true -> m = 1) ->
        Z.ldiff (t_step E offpos border s d m) (own s) = Z.ldiff m (own s)).
  Proof.
    intros cR cI offpos border s d m Hp Hg Hb.
    set (idI := match s with SVal i => interp_idem E i | _ => true end).
    assert (Hg' : g_step (refine_idem E) idI cR cI s = true).
    { unfold idI. destruct s as [mfi| |[]|]; exact Hg. }
    destruct (r_step_facts (refine_idem E) idI cR cI (offpos && border) s d m Hp Hg' Hb) as (H1 & H2 & H3 & H4).
    destruct (norm_step E Hwf (refine_idem E) idI offpos border s d m) as [E1 O1].
    - auto.
    - unfold idI. destruct s; auto.
    - exact H1.
    - rewrite E1. auto.
  Qed.

  (* ONE STEP never clears a filled bit recorded earlier *)
  Lemma t_step_keeps_filled : forall cR cI offpos border s d m,
    pinv_b cR cI m = true -> g_stepE cR cI s = true -> bI (offpos && border) m ->
    keeps48 m (t_step E offpos border s d m).
  Proof.
    intros cR cI offpos border s d m Hp Hg Hb.
    set (idI := match s with SVal i => interp_idem E i | _ => true end).
    assert (Hg' : g_step (refine_idem E) idI cR cI s = true).
    { unfold idI. destruct s as [mfi| |[]|]; exact Hg. }
    destruct (r_step_facts (refine_idem E) idI cR cI (offpos && border) s d m Hp Hg' Hb) as (H1 & _).
    destruct (norm_step E Hwf (refine_idem E) idI offpos border s d m) as [E1 _].
    - auto.
    - unfold idI. destruct s; auto.
    - exact H1.
    - rewrite E1. exact (r_step_keeps_filled (refine_idem E) idI cR cI (offpos && border) s d m Hp Hg' Hb).
  Qed.

  (* ... nor does any sequence of steps of a guarded pipeline *)
  Lemma run_flags_keeps_filled : forall offpos border p cR cI m,
    pinv_b cR cI m = true -> pipeline_guard E cR cI (map fst p) = true -> bI (offpos && border) m ->
    keeps48 m (run_flags E offpos border p m).
  Proof.
    intros offpos border. induction p as [|[s d] p IH]; intros cR cI m Hp Hg Hb.
    - cbn. apply keeps48_refl.
    - cbn [map fst] in Hg. rewrite guard_cons in Hg. apply andb_true_iff in Hg as [Hg1 Hg2].
      destruct (t_step_facts cR cI offpos border s d m Hp Hg1 Hb) as (_ & H2 & H3 & _).
      cbn [run_flags]. eapply keeps48_trans.
      + exact (t_step_keeps_filled cR cI offpos border s d m Hp Hg1 Hb).
      + exact (IH _ _ _ H2 Hg2 H3).
  Qed.

  (* the disparity-map part of a pipeline *)
  Lemma run_flags_inv : forall offpos border p cR cI m,
    pinv_b cR cI m = true -> pipeline_guard E cR cI (map fst p) = true -> bI (offpos && border) m ->
    ok_flags E offpos border p m = true
    /\ exists cR' cI', pinv_b cR' cI' (run_flags E offpos border p m) = true
                       /\ bI (offpos && border) (run_flags E offpos border p m).
  Proof.
    intros offpos border. induction p as [|[s d] p IH]; intros cR cI m Hp Hg Hb.
    - cbn. split; [reflexivity | exists cR, cI; auto].
    - cbn [map fst] in Hg. rewrite guard_cons in Hg. apply andb_true_iff in Hg as [Hg1 Hg2].
      destruct (t_step_facts cR cI offpos border s d m Hp Hg1 Hb) as (H1 & H2 & H3 & _).
      cbn [ok_flags run_flags]. rewrite H1. cbn [andb]. apply (IH _ _ _ H2 Hg2 H3).
  Qed.

  (* ---- whole pipelines *)
  Variables (L : layout) (gmin gmax : Z -> Z -> Z) (allnan : Z -> Z -> bool) (r c : Z).
  Hypothesis Hoff : 0 <= off L.
  Hypothesis Hd : dmin L <= dmax L.
  Let S := scene_of L gmin gmax.
  Hypothesis Hin : in_img S r c.
  Hypothesis Hnan : nan_pattern_ok L gmin gmax allnan r c.

  Let m0 := after_mc E L allnan r c.
  Let ob := px_offpos L && px_border L r c.

  Lemma m0_pinv : forall cR cI, pinv_b cR cI m0 = true.
  Proof.
    intros. destruct (mc_only_criteria_bits E L gmin gmax allnan Hwf Hoff Hd r c Hin Hnan) as [H1 H2].
    apply mc_flag_pinv; assumption.
  Qed.

  Lemma m0_border : bI ob m0.
  Proof.
    intro Ho. left. apply (border_bit0_only E L gmin gmax allnan Hwf Hoff Hd r c); [|exact Hnan].
    split; [exact Hin|]. unfold ob, px_border in Ho. apply andb_true_iff in Ho as [_ Ho].
    apply negb_true_iff in Ho. intro Hw. apply win_in_b_iff in Hw.
    unfold win_in_b, S, scene_of in Hw. cbn [s_off s_nr s_nc] in Hw. congruence.
  Qed.

  (* the state of a run: what is known about the pixel's flag in each state of the documented
     automaton; [acc] = (flag, every += / -= so far was carry-free) *)
  Definition J (st : state) (acc : option Z * bool) (cR cI : bool) : Prop :=
    snd acc = true /\
    match st with
    | Begin => fst acc = None
    | CostVolume => fst acc = Some m0
    | DispMap => exists m, fst acc = Some m /\ pinv_b cR cI m = true /\ bI ob m
    end.

  Definition kinds_of_p (p : list (pstep * dec)) : list kind := map (fun pd => pkind (fst pd)) p.

  Lemma run_inv : forall p st acc cR cI st',
    J st acc cR cI -> doc_path st (kinds_of_p p) = Some st' ->
    pipeline_guard E cR cI (fsteps_of p) = true ->
    exists cR' cI', J st' (fold_left (run1 E L allnan r c) p acc) cR' cI'.
  Proof.
    induction p as [|[ps d] p IH]; intros st acc cR cI st' HJ Hpath Hg.
    - cbn in Hpath. inversion Hpath; subst. exists cR, cI. exact HJ.
    - cbn [kinds_of_p map fst doc_path] in Hpath. cbn [fold_left].
      destruct acc as [cur ok]. destruct HJ as [Hok HJ]. cbn [fst snd] in *. subst ok.
      destruct ps as [|k| |s].
      + (* matching cost *)
        destruct st; cbn [pkind doc_next] in Hpath; try discriminate Hpath.
        apply (IH CostVolume _ cR cI st'); [split; reflexivity | exact Hpath | exact Hg].
      + (* cost-volume steps: no write *)
        destruct st, k; cbn [pkind cvk_kind doc_next] in Hpath; try discriminate Hpath;
          (apply (IH CostVolume _ cR cI st'); [split; [reflexivity | exact HJ] | exact Hpath | exact Hg]).
      + (* disparity: the mask is copied *)
        destruct st; cbn [pkind doc_next] in Hpath; try discriminate Hpath.
        apply (IH DispMap _ cR cI st'); [| exact Hpath | exact Hg].
        split; [reflexivity|]. exists m0. cbn [run1 fst snd]. rewrite HJ.
        split; [reflexivity | split; [apply m0_pinv | apply m0_border]].
      + (* disparity-map steps *)
        destruct st; [exfalso; destruct s as [?| |?|]; discriminate Hpath
                     | exfalso; destruct s as [?| |?|]; discriminate Hpath |].
        assert (Hn : doc_next DispMap (pkind (PDm s)) = Some DispMap) by (destruct s as [?| |?|]; reflexivity).
        rewrite Hn in Hpath.
        destruct HJ as (m & -> & Hp & Hb). unfold fsteps_of in Hg. cbn [flat_map fst app] in Hg.
        fold (fsteps_of p) in Hg. rewrite guard_cons in Hg. apply andb_true_iff in Hg as [Hg1 Hg2].
        destruct (t_step_facts cR cI (px_offpos L) (px_border L r c) s d m Hp Hg1 Hb) as (H1 & H2 & H3 & _).
        cbn [run1 fst snd]. rewrite H1.
        apply (IH DispMap _ (nR cR s) (nI cI s) st'); [| exact Hpath | exact Hg2].
        split; [reflexivity|]. eexists. split; [reflexivity | split; [exact H2 | exact H3]].
  Qed.

  (* EVERY legal pipeline (documented automaton, any length, any repetition of refinement / filter /
     validation), every decision of every step: all += / -= were carry-free and the final flag is a
     12-bit set of documented bits *)
  Theorem pipeline_flags_documented : forall p,
    doc_accepts (kinds_of_p p) = true -> pipeline_guard E true true (fsteps_of p) = true ->
    let res := run_pipe E L allnan r c p in
    snd res = true /\
    match doc_path Begin (kinds_of_p p) with
    | Some Begin => fst res = None
    | Some CostVolume => fst res = Some m0
    | Some DispMap => exists m, fst res = Some m /\ 0 <= m < 4096 /\ Z.testbit m 10 = false
                                /\ (Z.testbit m 8 && Z.testbit m 9) = false
                                /\ (ob = true -> m = 1 \/ m = 2049)
    | None => False
    end.
  Proof.
    intros p Hacc Hg. unfold doc_accepts in Hacc. destruct (doc_path Begin (kinds_of_p p)) as [st'|] eqn:Hpath; [|discriminate].
    destruct (run_inv p Begin (None, true) true true st') as (cR' & cI' & Hok & HJ); [split; reflexivity | exact Hpath | exact Hg |].
    cbv zeta. unfold run_pipe. split; [exact Hok|]. destruct st'; try exact HJ.
    destruct HJ as (m & Hm & Hp & Hb). exists m. split; [exact Hm|].
    apply pinv_split in Hp as [Hi _]. apply inv_b_spec in Hi. destruct Hi as (? & ? & ?). auto.
  Qed.
End Pipe.

(* when the information bits are set with `|=` the guard holds for every pipeline *)
Lemma guard_trivial : forall E, refine_idem E = true -> interp_idem E IMcCnn = true -> interp_idem E ISgm = true ->
  forall p cR cI, pipeline_guard E cR cI p = true.
Proof.
  intros E H1 H2 H3. induction p as [|s p IH]; intros cR cI; [reflexivity|].
  destruct s as [mfi| |[]|]; cbn [pipeline_guard]; rewrite ?H1, ?H2, ?H3; cbn [orb andb]; apply IH.
Qed.
