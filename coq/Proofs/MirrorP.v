(* Proofs about Model/Mirror.v: the run callbacks commute with the exchange
   of left and right data, for ARBITRARY step functions.  Generic in the
   callbacks: proved for any callback table passing the boolean test
   [callbacks_ok], which is re-run (vm_compute) on Gen/Callbacks.v. *)
From Coq Require Import List Bool Lia.
From Pandora Require Import Model.Mirror.
Import ListNotations.

Lemma swap_slot_invol x : swap_slot (swap_slot x) = x.
Proof. destruct x; reflexivity. Qed.

Lemma slot_eqb_eq a b : slot_eqb a b = true <-> a = b.
Proof. destruct a, b; simpl; split; intros H; try reflexivity; try discriminate. Qed.

Lemma slot_eqb_refl a : slot_eqb a a = true.
Proof. destruct a; reflexivity. Qed.

Definition slot_eq_dec (a b : slot) : {a = b} + {a <> b}.
Proof. decide equality. Defined.

Lemma slot_eqb_swap y o : slot_eqb y (swap_slot o) = slot_eqb (swap_slot y) o.
Proof. destruct y, o; reflexivity. Qed.

Lemma fname_eqb_eq a b : fname_eqb a b = true <-> a = b.
Proof. destruct a, b; simpl; split; intros H; try reflexivity; try discriminate. Qed.

Lemma map_swap_invol l : map swap_slot (map swap_slot l) = l.
Proof. induction l as [|x r IH]; simpl; [reflexivity|]. now rewrite swap_slot_invol, IH. Qed.

Lemma swap_call_invol c : swap_call (swap_call c) = c.
Proof. destruct c; unfold swap_call; simpl. now rewrite !map_swap_invol. Qed.

Lemma map_swap_call_invol l : map swap_call (map swap_call l) = l.
Proof. induction l as [|x r IH]; simpl; [reflexivity|]. now rewrite swap_call_invol, IH. Qed.

Lemma nth_slots_map args idx :
  nth_slots (map swap_slot args) idx = map swap_slot (nth_slots args idx).
Proof.
  unfold nth_slots. induction idx as [|i r IH]; simpl; [reflexivity|].
  rewrite map_app, IH. f_equal. rewrite nth_error_map. destruct (nth_error args i); reflexivity.
Qed.

Lemma writes_swap c : writes (swap_call c) = map swap_slot (writes c).
Proof. unfold writes, swap_call; simpl. now rewrite map_app, nth_slots_map. Qed.

Definition reads_blk (blk : list call) : list slot := flat_map c_args blk.
Definition writes_blk (blk : list call) : list slot := flat_map writes blk.

Section Sem.
  Variable V : Type.
  Variable F : fname -> list V -> list V.

  Notation state := (state V).
  Notation exec_call := (exec_call V F).
  Notation exec_block := (exec_block V F).
  Notation exec_seg := (exec_seg V F).
  Notation exec_cb := (exec_cb V F).
  Notation swap_state := (swap_state V).
  Notation upd := (upd V).
  Notation write_all := (write_all V).

  Definition seq (s t : state) : Prop := forall x, s x = t x.
  Definition agree (S : list slot) (s t : state) : Prop := forall x, In x S -> s x = t x.

  Lemma seq_refl s : seq s s. Proof. intros x; reflexivity. Qed.
  Lemma seq_sym s t : seq s t -> seq t s. Proof. intros H x; symmetry; apply H. Qed.
  Lemma seq_trans s t u : seq s t -> seq t u -> seq s u.
  Proof. intros H1 H2 x. now rewrite H1. Qed.

  (* ---------- extensionality ---------- *)

  Lemma write_all_agree S outs : forall vals s t,
    agree S s t -> agree S (write_all s outs vals) (write_all t outs vals).
  Proof.
    induction outs as [|o r IH]; intros vals s t H; simpl; [exact H|].
    destruct vals as [|v vs]; [exact H|]. apply IH. intros x Hx. unfold Mirror.upd.
    destruct (slot_eqb x o); [reflexivity | apply H, Hx].
  Qed.

  Lemma map_agree S (s t : state) l : agree S s t -> incl l S -> map s l = map t l.
  Proof. intros H Hi. apply map_ext_in. intros x Hx. apply H, Hi, Hx. Qed.

  Lemma exec_call_agree S c s t :
    incl (c_args c) S -> agree S s t -> agree S (exec_call c s) (exec_call c t).
  Proof.
    intros Hi H. unfold Mirror.exec_call. rewrite (map_agree S s t _ H Hi).
    now apply write_all_agree.
  Qed.

  Lemma exec_block_agree S blk : forall s t,
    incl (reads_blk blk) S -> agree S s t -> agree S (exec_block blk s) (exec_block blk t).
  Proof.
    induction blk as [|c r IH]; intros s t Hi H; simpl; [exact H|].
    unfold reads_blk in Hi; simpl in Hi. apply incl_app_inv in Hi as [Hc Hr].
    apply IH; [exact Hr|]. now apply exec_call_agree.
  Qed.

  Definition all_slots : list slot :=
    [Limg; Rimg; Lcv; Rcv; Ldisp; Rdisp; Lmin; Lmax; Rmin; Rmax; Lumin; Lumax; Rumin; Rumax; Lpyr; Rpyr].
  Lemma all_slots_full x : In x all_slots.
  Proof. destruct x; simpl; auto 20. Qed.

  Lemma seq_agree s t : seq s t <-> agree all_slots s t.
  Proof. split; intros H x; [intros _; apply H | apply H, all_slots_full]. Qed.

  Lemma exec_block_ext blk s t : seq s t -> seq (exec_block blk s) (exec_block blk t).
  Proof.
    intros H. apply seq_agree. apply exec_block_agree; [|now apply seq_agree].
    intros x _. apply all_slots_full.
  Qed.

  (* ---------- frame ---------- *)

  Lemma write_all_frame x outs : forall vals s, ~ In x outs -> write_all s outs vals x = s x.
  Proof.
    induction outs as [|o r IH]; intros vals s H; simpl; [reflexivity|].
    destruct vals as [|v vs]; [reflexivity|]. rewrite IH by (intros Hx; apply H; right; exact Hx).
    unfold Mirror.upd. destruct (slot_eqb x o) eqn:E; [|reflexivity].
    apply slot_eqb_eq in E. subst. exfalso. apply H. left; reflexivity.
  Qed.

  Lemma exec_call_frame x c s : ~ In x (writes c) -> exec_call c s x = s x.
  Proof. intros H. unfold Mirror.exec_call. now apply write_all_frame. Qed.

  Lemma exec_block_frame x blk : forall s, ~ In x (writes_blk blk) -> exec_block blk s x = s x.
  Proof.
    induction blk as [|c r IH]; intros s H; simpl; [reflexivity|].
    unfold writes_blk in H; simpl in H. rewrite in_app_iff in H.
    rewrite IH by tauto. apply exec_call_frame. tauto.
  Qed.

  (* ---------- exchange of left and right ---------- *)

  Lemma upd_swap s o v : seq (upd (swap_state s) (swap_slot o) v) (swap_state (upd s o v)).
  Proof. intros y. unfold Mirror.upd, Mirror.swap_state. now rewrite slot_eqb_swap. Qed.

  Lemma write_all_ext outs : forall vals s t, seq s t -> seq (write_all s outs vals) (write_all t outs vals).
  Proof.
    intros vals s t H. apply seq_agree. apply write_all_agree. now apply seq_agree.
  Qed.

  Lemma write_all_swap outs : forall vals s,
    seq (write_all (swap_state s) (map swap_slot outs) vals) (swap_state (write_all s outs vals)).
  Proof.
    induction outs as [|o r IH]; intros vals s; simpl; [apply seq_refl|].
    destruct vals as [|v vs]; [apply seq_refl|].
    eapply seq_trans; [|apply IH]. apply write_all_ext. apply upd_swap.
  Qed.

  Lemma exec_call_swap c s : seq (exec_call (swap_call c) (swap_state s)) (swap_state (exec_call c s)).
  Proof.
    unfold Mirror.exec_call. rewrite writes_swap. cbn [swap_call c_fun c_args].
    replace (map (swap_state s) (map swap_slot (c_args c))) with (map s (c_args c)).
    - apply write_all_swap.
    - rewrite map_map. apply map_ext. intros x. unfold Mirror.swap_state. now rewrite swap_slot_invol.
  Qed.

  Lemma exec_call_ext c s t : seq s t -> seq (exec_call c s) (exec_call c t).
  Proof. intros H. apply (exec_block_ext [c] s t H). Qed.

  Lemma exec_block_swap blk : forall s,
    seq (exec_block (map swap_call blk) (swap_state s)) (swap_state (exec_block blk s)).
  Proof.
    induction blk as [|c r IH]; intros s; simpl; [apply seq_refl|].
    eapply seq_trans; [|apply IH]. apply exec_block_ext. apply exec_call_swap.
  Qed.

  Lemma swap_state_ext s t : seq s t -> seq (swap_state s) (swap_state t).
  Proof. intros H x. apply H. Qed.

  Lemma swap_state_invol s : seq (swap_state (swap_state s)) s.
  Proof. intros x. unfold Mirror.swap_state. now rewrite swap_slot_invol. Qed.

  (* ---------- commutation of independent blocks ---------- *)

  Definition disjoint (a b : list slot) : Prop := forall x, In x a -> ~ In x b.

  Definition indep (A B : list call) : Prop :=
    disjoint (writes_blk A) (reads_blk B ++ writes_blk B) /\ disjoint (writes_blk B) (reads_blk A).

  Lemma exec_block_commute A B s : indep A B ->
    seq (exec_block B (exec_block A s)) (exec_block A (exec_block B s)).
  Proof.
    intros [H1 H2] x.
    destruct (in_dec slot_eq_dec x (writes_blk A)) as [HA|HA].
    - (* written by A, hence not by B *)
      assert (HB : ~ In x (writes_blk B)).
      { intros HB. apply (H1 x HA). apply in_or_app. right; exact HB. }
      rewrite exec_block_frame by exact HB.
      apply (exec_block_agree (reads_blk A ++ writes_blk A) A s (exec_block B s)).
      + apply incl_appl, incl_refl.
      + intros y Hy. symmetry. apply exec_block_frame. intros HyB.
        apply in_app_or in Hy as [Hy|Hy].
        * exact (H2 y HyB Hy).
        * apply (H1 y Hy). apply in_or_app. right; exact HyB.
      + apply in_or_app. right; exact HA.
    - rewrite (exec_block_frame x A (exec_block B s)) by exact HA.
      destruct (in_dec slot_eq_dec x (writes_blk B)) as [HB|HB].
      + apply (exec_block_agree (reads_blk B ++ writes_blk B) B (exec_block A s) s).
        * apply incl_appl, incl_refl.
        * intros y Hy. apply exec_block_frame. intros HyA. exact (H1 y HyA Hy).
        * apply in_or_app. right; exact HB.
      + rewrite !exec_block_frame by assumption. reflexivity.
  Qed.

  (* ---------- boolean tests on the generated callbacks ---------- *)

  Definition inb (x : slot) (l : list slot) : bool := existsb (slot_eqb x) l.
  Lemma inb_In x l : inb x l = true <-> In x l.
  Proof.
    unfold inb. rewrite existsb_exists. split.
    - intros (y & Hy & E). apply slot_eqb_eq in E. now subst.
    - intros H. exists x. split; [exact H | apply slot_eqb_refl].
  Qed.
  Definition disjointb (a b : list slot) : bool := forallb (fun x => negb (inb x b)) a.
  Lemma disjointb_spec a b : disjointb a b = true -> disjoint a b.
  Proof.
    unfold disjointb, disjoint. rewrite forallb_forall. intros H x Hx Hb.
    specialize (H x Hx). apply inb_In in Hb. rewrite Hb in H. discriminate.
  Qed.
  Definition inclb (a b : list slot) : bool := forallb (fun x => inb x b) a.
  Lemma inclb_spec a b : inclb a b = true -> incl a b.
  Proof. unfold inclb. rewrite forallb_forall. intros H x Hx. apply inb_In. now apply H. Qed.

  Definition indepb (A B : list call) : bool :=
    disjointb (writes_blk A) (reads_blk B ++ writes_blk B) && disjointb (writes_blk B) (reads_blk A).
  Lemma indepb_spec A B : indepb A B = true -> indep A B.
  Proof.
    unfold indepb, indep. intros H. apply andb_true_iff in H as [H1 H2].
    split; now apply disjointb_spec.
  Qed.

  Fixpoint slots_eqb (a b : list slot) : bool :=
    match a, b with
    | [], [] => true
    | x :: r, y :: s => slot_eqb x y && slots_eqb r s
    | _, _ => false
    end.
  Lemma slots_eqb_eq a : forall b, slots_eqb a b = true -> a = b.
  Proof.
    induction a as [|x r IH]; intros [|y s] H; simpl in H; try discriminate; [reflexivity|].
    apply andb_true_iff in H as [H1 H2]. apply slot_eqb_eq in H1. subst. f_equal. auto.
  Qed.
  Definition call_eqb (a b : call) : bool :=
    fname_eqb (c_fun a) (c_fun b) && slots_eqb (c_args a) (c_args b) && slots_eqb (c_outs a) (c_outs b).
  Lemma call_eqb_eq a b : call_eqb a b = true -> a = b.
  Proof.
    destruct a, b; unfold call_eqb; simpl. intros H.
    apply andb_true_iff in H as [H H3]. apply andb_true_iff in H as [H1 H2].
    apply fname_eqb_eq in H1. apply slots_eqb_eq in H2. apply slots_eqb_eq in H3. now subst.
  Qed.
  Fixpoint calls_eqb (a b : list call) : bool :=
    match a, b with
    | [], [] => true
    | x :: r, y :: s => call_eqb x y && calls_eqb r s
    | _, _ => false
    end.
  Lemma calls_eqb_eq a : forall b, calls_eqb a b = true -> a = b.
  Proof.
    induction a as [|x r IH]; intros [|y s] H; simpl in H; try discriminate; [reflexivity|].
    apply andb_true_iff in H as [H1 H2]. apply call_eqb_eq in H1. subst. f_equal. auto.
  Qed.

  Definition no_marker (blk : list call) : bool :=
    forallb (fun c => negb (fname_eqb (c_fun c) FCfgCond)) blk.
  Lemma active_no_marker b blk : no_marker blk = true -> active b blk = blk.
  Proof.
    induction blk as [|c r IH]; simpl; intros H; [reflexivity|].
    apply andb_true_iff in H as [H1 H2]. apply negb_true_iff in H1. rewrite H1. f_equal. auto.
  Qed.

  (* a generic mirrored segment, normalised as (left block, right block):
     - guarded:   right block = exchange of the left block
     - unguarded: no right block, the block is  H ++ exchange of H
     and in both cases the two halves are independent, without marker *)
  Definition halves (sg : segment) : list call * list call :=
    if sg_guarded sg then (sg_left sg, sg_right sg)
    else let n := Nat.div2 (length (sg_left sg)) in (firstn n (sg_left sg), skipn n (sg_left sg)).

  Definition seg_ok (sg : segment) : bool :=
    let '(A, B) := halves sg in
    (if sg_guarded sg then true else match sg_right sg with [] => true | _ => false end)
    && calls_eqb B (map swap_call A) && indepb A B && no_marker A && no_marker B.

  Lemma exec_block_app A B s : exec_block (A ++ B) s = exec_block B (exec_block A s).
  Proof. unfold Mirror.exec_block. apply fold_left_app. Qed.

  Lemma no_marker_app A B : no_marker (A ++ B) = no_marker A && no_marker B.
  Proof. unfold no_marker. apply forallb_app. Qed.

  (* with the right data computed (rdm = true), a generic segment commutes with the exchange *)
  Lemma seg_swap sg b s : seg_ok sg = true ->
    seq (exec_seg true b sg (swap_state s)) (swap_state (exec_seg true b sg s)).
  Proof.
    unfold seg_ok. destruct (halves sg) as [A B] eqn:Eh. intros H.
    apply andb_true_iff in H as [H HmB]. apply andb_true_iff in H as [H HmA].
    apply andb_true_iff in H as [H Hind]. apply andb_true_iff in H as [Hr Heq].
    apply calls_eqb_eq in Heq. apply indepb_spec in Hind.
    assert (Hexec : forall t, exec_seg true b sg t = exec_block B (exec_block A t)).
    { intros t. unfold Mirror.exec_seg. rewrite orb_true_r. unfold halves in Eh.
      destruct (sg_guarded sg).
      - injection Eh as <- <-. now rewrite !active_no_marker.
      - destruct (sg_right sg); [|discriminate]. injection Eh as EA EB.
        assert (Hl : sg_left sg = A ++ B) by (rewrite <- EA, <- EB; symmetry; apply firstn_skipn).
        rewrite Hl. cbn [active Mirror.exec_block fold_left].
        rewrite active_no_marker by (rewrite no_marker_app, HmA, HmB; reflexivity).
        apply exec_block_app. }
    rewrite !Hexec.
    assert (HA : A = map swap_call B) by (rewrite Heq, map_swap_call_invol; reflexivity).
    (* exec A (swap s) = swap (exec B s) *)
    eapply seq_trans.
    { apply exec_block_ext. rewrite HA at 1. apply exec_block_swap. }
    eapply seq_trans.
    { rewrite Heq at 1. apply exec_block_swap. }
    apply swap_state_ext. apply seq_sym. apply exec_block_commute. exact Hind.
  Qed.

  (* ---------- the validation callback ---------- *)

  Definition val_segments : list segment :=
    [ mkSeg [ mkCall FCrossCheck [Ldisp; Rdisp] [Ldisp] ]
            [ mkCall FCrossCheck [Rdisp; Ldisp] [Rdisp];
              mkCall FCfgCond [] [];
              mkCall FInterpolate [Ldisp] [];
              mkCall FInterpolate [Rdisp] [] ]
            true ].

  Definition seg_eqb (a b : segment) : bool :=
    calls_eqb (sg_left a) (sg_left b) && calls_eqb (sg_right a) (sg_right b)
    && Bool.eqb (sg_guarded a) (sg_guarded b).
  Lemma seg_eqb_eq a b : seg_eqb a b = true -> a = b.
  Proof.
    destruct a, b; unfold seg_eqb; simpl. intros H.
    apply andb_true_iff in H as [H H3]. apply andb_true_iff in H as [H1 H2].
    apply calls_eqb_eq in H1. apply calls_eqb_eq in H2. apply eqb_prop in H3. now subst.
  Qed.
  Fixpoint segs_eqb (a b : list segment) : bool :=
    match a, b with
    | [], [] => true
    | x :: r, y :: s => seg_eqb x y && segs_eqb r s
    | _, _ => false
    end.
  Lemma segs_eqb_eq a : forall b, segs_eqb a b = true -> a = b.
  Proof.
    induction a as [|x r IH]; intros [|y s] H; simpl in H; try discriminate; [reflexivity|].
    apply andb_true_iff in H as [H1 H2]. apply seg_eqb_eq in H1. subst. f_equal. auto.
  Qed.

  (* what C07 and C14 provide about the two validation functions *)
  Variable D : Type.
  Variable disp_of : V -> D.
  Variable chk : V -> V -> V.
  Variable itp : V -> V.
  Hypothesis F_chk : forall a b, F FCrossCheck [a; b] = [chk a b].
  Hypothesis F_itp : forall a, F FInterpolate [a] = [itp a].
  (* cross-checking reads the other dataset only through its disparity map ... *)
  Hypothesis chk_other : forall a b b', disp_of b = disp_of b' -> chk a b = chk a b'.
  (* ... and does not modify the disparity map of the dataset it checks *)
  Hypothesis chk_disp : forall a b, disp_of (chk a b) = disp_of a.

  Lemma val_exec b s :
    let l1 := chk (s Ldisp) (s Rdisp) in
    let r1 := chk (s Rdisp) (s Ldisp) in
    seq (exec_cb true b val_segments s)
        (upd (upd s Ldisp (if b then itp l1 else l1)) Rdisp (if b then itp r1 else r1)).
  Proof.
    intros l1 r1 x.
    assert (Hr : chk (s Rdisp) l1 = r1) by (apply chk_other, chk_disp).
    unfold val_segments, Mirror.exec_cb, Mirror.exec_seg, Mirror.exec_block, Mirror.exec_call, writes.
    destruct b; cbn; rewrite ?F_chk, ?F_itp; cbn; rewrite ?F_chk, ?F_itp; cbn.
    - fold l1. rewrite Hr. unfold Mirror.upd. destruct x; reflexivity.
    - fold l1. rewrite Hr. unfold Mirror.upd. destruct x; reflexivity.
  Qed.

  Lemma val_swap b s :
    seq (exec_cb true b val_segments (swap_state s)) (swap_state (exec_cb true b val_segments s)).
  Proof.
    eapply seq_trans; [apply val_exec|].
    eapply seq_trans; [|apply swap_state_ext, seq_sym, val_exec].
    intros x. unfold Mirror.upd, Mirror.swap_state. destruct x; reflexivity.
  Qed.

  (* ---------- whole callbacks, whole runs ---------- *)

  Variable cbs : cbname -> list segment.

  Definition cb_ok (c : cbname) : bool :=
    match c with
    | CbVal => segs_eqb (cbs CbVal) val_segments
    | CbSeg => true      (* plugin step, outside the theorem (see Props/C08.v) *)
    | _ => forallb seg_ok (cbs c)
    end.
  Definition all_cbs : list cbname :=
    [CbMcPrepare; CbMcRun; CbAgg; CbSeg; CbOpt; CbDsp; CbFlt; CbRef; CbVal; CbMsc; CbCvc].
  Definition callbacks_ok : bool := forallb cb_ok all_cbs.

  Lemma all_cbs_full c : In c all_cbs.
  Proof. destruct c; simpl; auto 12. Qed.

  Lemma exec_cb_ext rdm b segs : forall s t, seq s t -> seq (exec_cb rdm b segs s) (exec_cb rdm b segs t).
  Proof.
    induction segs as [|sg r IH]; intros s t H; simpl; [exact H|].
    apply IH. unfold Mirror.exec_seg.
    destruct (negb (sg_guarded sg) || rdm); repeat apply exec_block_ext; exact H.
  Qed.

  Lemma generic_cb_swap segs b : forallb seg_ok segs = true -> forall s,
    seq (exec_cb true b segs (swap_state s)) (swap_state (exec_cb true b segs s)).
  Proof.
    induction segs as [|sg r IH]; intros H s; simpl; [apply seq_refl|].
    simpl in H. apply andb_true_iff in H as [H1 H2].
    eapply seq_trans; [|apply IH; exact H2].
    apply exec_cb_ext. now apply seg_swap.
  Qed.

  Lemma cb_swap c b s : callbacks_ok = true -> c <> CbSeg ->
    seq (exec_cb true b (cbs c) (swap_state s)) (swap_state (exec_cb true b (cbs c) s)).
  Proof.
    intros Hok Hc. unfold callbacks_ok in Hok. rewrite forallb_forall in Hok.
    specialize (Hok c (all_cbs_full c)). unfold cb_ok in Hok.
    destruct c; try (now apply generic_cb_swap); try contradiction.
    apply segs_eqb_eq in Hok. rewrite Hok. apply val_swap.
  Qed.

  (* a run: the callbacks in the order C01's trace gives them, each with the
     truth value of its configuration condition ("interpolated_disparity" present) *)
  Definition exec_run (rdm : bool) (pl : list (cbname * bool)) (s : state) : state :=
    fold_left (fun s' cb => exec_cb rdm (snd cb) (cbs (fst cb)) s') pl s.

  Definition no_seg (pl : list (cbname * bool)) : Prop := forall cb, In cb pl -> fst cb <> CbSeg.

  Theorem run_swap pl : callbacks_ok = true -> no_seg pl -> forall s,
    seq (exec_run true pl (swap_state s)) (swap_state (exec_run true pl s)).
  Proof.
    intros Hok. induction pl as [|[c b] r IH]; intros Hns s; simpl; [apply seq_refl|].
    assert (Hc : c <> CbSeg) by (apply (Hns (c, b)); left; reflexivity).
    assert (Hr : no_seg r) by (intros cb Hcb; apply Hns; right; exact Hcb).
    eapply seq_trans; [|apply IH; exact Hr].
    unfold exec_run. clear IH.
    assert (Hext : forall s t, seq s t ->
              seq (fold_left (fun s' cb => exec_cb true (snd cb) (cbs (fst cb)) s') r s)
                  (fold_left (fun s' cb => exec_cb true (snd cb) (cbs (fst cb)) s') r t)).
    { clear. induction r as [|cb r IH]; intros s t H; simpl; [exact H|]. apply IH. now apply exec_cb_ext. }
    apply Hext. now apply cb_swap.
  Qed.

  (* ---------- what does not depend on the right data ---------- *)

  (* the slots whose content is the same whether or not right products are computed *)
  Definition lside : list slot := [Limg; Lcv; Ldisp; Lmin; Lmax; Lumin; Lumax; Lpyr; Rimg; Rpyr].

  Definition seg_lclosed (sg : segment) : bool :=
    inclb (reads_blk (sg_left sg)) lside && inclb (writes_blk (sg_left sg)) lside
    && (if sg_guarded sg then disjointb (writes_blk (sg_right sg)) lside
        else inclb (reads_blk (sg_right sg)) lside && inclb (writes_blk (sg_right sg)) lside).

  Lemma active_incl b blk : incl (active b blk) blk.
  Proof.
    induction blk as [|c r IH]; simpl; [apply incl_refl|].
    destruct (fname_eqb (c_fun c) FCfgCond).
    - destruct b; [apply incl_tl, incl_refl | intros x []].
    - intros x [->|Hx]; [left; reflexivity | right; apply IH, Hx].
  Qed.
  Lemma flat_map_incl {A B} (f : A -> list B) l l' : incl l l' -> incl (flat_map f l) (flat_map f l').
  Proof.
    intros H x Hx. apply in_flat_map in Hx as (a & Ha & Hx). apply in_flat_map. exists a. split; auto.
  Qed.

  Lemma exec_block_agree_closed S blk s t :
    incl (reads_blk blk) S -> agree S s t -> agree S (exec_block blk s) (exec_block blk t).
  Proof. apply exec_block_agree. Qed.

  Lemma seg_lside sg b s t : seg_lclosed sg = true -> agree lside s t ->
    agree lside (exec_seg true b sg s) (exec_seg false b sg t).
  Proof.
    unfold seg_lclosed. intros H Hag.
    apply andb_true_iff in H as [H H3]. apply andb_true_iff in H as [H1 H2].
    apply inclb_spec in H1.
    assert (HL : agree lside (exec_block (active b (sg_left sg)) s) (exec_block (active b (sg_left sg)) t)).
    { apply exec_block_agree; [|exact Hag].
      eapply incl_tran; [|exact H1]. apply flat_map_incl, active_incl. }
    unfold Mirror.exec_seg. destruct (sg_guarded sg); simpl.
    - (* guarded: the right block does not write the left side *)
      apply disjointb_spec in H3. intros x Hx. rewrite exec_block_frame; [apply HL, Hx|].
      intros Hw. apply (H3 x); [|exact Hx].
      eapply flat_map_incl; [apply active_incl | exact Hw].
    - apply andb_true_iff in H3 as [H3 _]. apply inclb_spec in H3.
      apply exec_block_agree; [|exact HL].
      eapply incl_tran; [|exact H3]. apply flat_map_incl, active_incl.
  Qed.

  Definition cb_lclosed (c : cbname) : bool := forallb seg_lclosed (cbs c).
  Definition lclosed_cbs : list cbname := [CbMcPrepare; CbMcRun; CbAgg; CbOpt; CbDsp; CbFlt; CbRef; CbMsc; CbCvc].
  Definition callbacks_lclosed : bool := forallb cb_lclosed lclosed_cbs.

  Definition only_lclosed (pl : list (cbname * bool)) : Prop := forall cb, In cb pl -> In (fst cb) lclosed_cbs.

  Lemma exec_cb_lside segs b : forallb seg_lclosed segs = true -> forall s t,
    agree lside s t -> agree lside (exec_cb true b segs s) (exec_cb false b segs t).
  Proof.
    induction segs as [|sg r IH]; intros H s t Hag; simpl; [exact Hag|].
    simpl in H. apply andb_true_iff in H as [H1 H2]. apply IH; [exact H2|]. now apply seg_lside.
  Qed.

  (* the left products of a run do not depend on whether the right ones are computed *)
  Theorem left_indep_of_right pl : callbacks_lclosed = true -> only_lclosed pl -> forall s t,
    agree lside s t -> agree lside (exec_run true pl s) (exec_run false pl t).
  Proof.
    intros Hok. induction pl as [|[c b] r IH]; intros Hpl s t Hag; simpl; [exact Hag|].
    apply IH; [intros cb Hcb; apply Hpl; right; exact Hcb|].
    apply exec_cb_lside; [|exact Hag].
    unfold callbacks_lclosed in Hok. rewrite forallb_forall in Hok. apply Hok.
    apply (Hpl (c, b)). left; reflexivity.
  Qed.

  (* without right products, the right cost volume and disparity dataset are never written *)
  Definition seg_rquiet (sg : segment) : bool :=
    negb (inb Rdisp (writes_blk (sg_left sg))) && negb (inb Rcv (writes_blk (sg_left sg)))
    && (sg_guarded sg || (negb (inb Rdisp (writes_blk (sg_right sg))) && negb (inb Rcv (writes_blk (sg_right sg))))).
  Definition callbacks_rquiet : bool := forallb (fun c => forallb seg_rquiet (cbs c)) lclosed_cbs.

  Lemma not_inb x l : negb (inb x l) = true -> ~ In x l.
  Proof. intros H Hin. apply inb_In in Hin. rewrite Hin in H. discriminate. Qed.

  Lemma seg_rquiet_spec sg b s : seg_rquiet sg = true ->
    exec_seg false b sg s Rdisp = s Rdisp /\ exec_seg false b sg s Rcv = s Rcv.
  Proof.
    unfold seg_rquiet. intros H. apply andb_true_iff in H as [H H3]. apply andb_true_iff in H as [H1 H2].
    apply not_inb in H1. apply not_inb in H2.
    assert (HL : forall x, ~ In x (writes_blk (sg_left sg)) -> exec_block (active b (sg_left sg)) s x = s x).
    { intros x Hx. apply exec_block_frame. intros Hw. apply Hx.
      eapply flat_map_incl; [apply active_incl | exact Hw]. }
    unfold Mirror.exec_seg. destruct (sg_guarded sg); simpl.
    - split; apply HL; assumption.
    - simpl in H3. apply andb_true_iff in H3 as [H3 H4]. apply not_inb in H3. apply not_inb in H4.
      split; (rewrite exec_block_frame; [apply HL; assumption|]);
        intros Hw; [apply H3 | apply H4]; (eapply flat_map_incl; [apply active_incl | exact Hw]).
  Qed.

  Theorem right_untouched_without_validation pl : callbacks_rquiet = true -> only_lclosed pl -> forall s,
    exec_run false pl s Rdisp = s Rdisp /\ exec_run false pl s Rcv = s Rcv.
  Proof.
    intros Hok. induction pl as [|[c b] r IH]; intros Hpl s; simpl; [split; reflexivity|].
    destruct (IH (fun cb Hcb => Hpl cb (or_intror Hcb)) (exec_cb false b (cbs c) s)) as [E1 E2].
    rewrite E1, E2. clear IH E1 E2.
    unfold callbacks_rquiet in Hok. rewrite forallb_forall in Hok.
    specialize (Hok c (Hpl (c, b) (or_introl eq_refl))). simpl.
    generalize dependent s. induction (cbs c) as [|sg segs IHs]; intros s; simpl; [split; reflexivity|].
    simpl in Hok. apply andb_true_iff in Hok as [H1 H2].
    destruct (IHs H2 (exec_seg false b sg s)) as [E1 E2]. rewrite E1, E2.
    now apply seg_rquiet_spec.
  Qed.

  (* adding a cross-checking step without filling leaves the left disparity map unchanged *)
  Theorem xcheck_keeps_left_disparity pl s :
    callbacks_ok = true -> callbacks_lclosed = true -> only_lclosed pl ->
    disp_of (exec_run true (pl ++ [(CbVal, false)]) s Ldisp) = disp_of (exec_run false pl s Ldisp).
  Proof.
    intros Hok Hlc Hpl. unfold exec_run. rewrite fold_left_app. simpl.
    fold (exec_run true pl s).
    unfold callbacks_ok in Hok. rewrite forallb_forall in Hok.
    specialize (Hok CbVal (all_cbs_full CbVal)). simpl in Hok. apply segs_eqb_eq in Hok. rewrite Hok.
    rewrite (val_exec false (exec_run true pl s) Ldisp). unfold Mirror.upd. simpl.
    rewrite chk_disp. f_equal.
    apply (left_indep_of_right pl Hlc Hpl s s); [intros x _; reflexivity|]. simpl. auto.
  Qed.

End Sem.

(* ------------------------------------------------------------------ *)
(* run_prepare: the initial content of the slots (pandora/state_machine.py
   run_prepare, hand-modelled).  [neg] is the sign change of an interval bound
   (or grid), [dv] the division by scale_factor^num_scales, [first]/[rest]
   the coarsest level of a pyramid and the remaining levels, [pyr] the
   pyramid of an image, [e] the value of an attribute not yet assigned.
   The right image carries no disparity of its own (the only possibility with
   an integer interval): its interval is the negated, swapped left one. *)
Section Prepare.
  Variable V : Type.
  Variables (neg dv pyr first rest : V -> V) (e : V).
  Hypothesis neg_invol : forall x, neg (neg x) = x.
  Hypothesis dv_neg : forall x, dv (neg x) = neg (dv x).

  Definition prepare_single (L R imin imax : V) : state V :=
    fun x => match x with
             | Limg => L | Rimg => R
             | Lmin => imin | Lmax => imax | Rmin => neg imax | Rmax => neg imin
             | _ => e
             end.

  Definition prepare_multi (L R imin imax : V) : state V :=
    fun x => match x with
             | Limg => first (pyr L) | Rimg => first (pyr R)
             | Lpyr => rest (pyr L) | Rpyr => rest (pyr R)
             | Lmin | Lumin => dv imin | Lmax | Lumax => dv imax
             | Rmin | Rumin => neg (dv imax) | Rmax | Rumax => neg (dv imin)
             | Lcv | Rcv | Ldisp | Rdisp => e
             end.

  (* the mirrored problem: images exchanged, interval negated and swapped *)
  Lemma prepare_single_swap L R imin imax :
    seq V (prepare_single R L (neg imax) (neg imin)) (swap_state V (prepare_single L R imin imax)).
  Proof. intros x. unfold swap_state, prepare_single. destruct x; simpl; rewrite ?neg_invol; reflexivity. Qed.

  Lemma prepare_multi_swap L R imin imax :
    seq V (prepare_multi R L (neg imax) (neg imin)) (swap_state V (prepare_multi L R imin imax)).
  Proof.
    intros x. unfold swap_state, prepare_multi.
    destruct x; simpl; rewrite ?dv_neg, ?neg_invol; reflexivity.
  Qed.
End Prepare.

(* ------------------------------------------------------------------ *)
(* the property, in its own words                                       *)
Section MirrorTheorem.
  Variable V : Type.
  Variable F : fname -> list V -> list V.
  Variable D : Type.
  Variable disp_of : V -> D.
  Variables (chk : V -> V -> V) (itp : V -> V).
  Hypothesis F_chk : forall a b, F FCrossCheck [a; b] = [chk a b].
  Hypothesis F_itp : forall a, F FInterpolate [a] = [itp a].
  Hypothesis chk_other : forall a b b', disp_of b = disp_of b' -> chk a b = chk a b'.
  Hypothesis chk_disp : forall a b, disp_of (chk a b) = disp_of a.
  Variables (neg dv pyr first rest : V -> V) (e : V).
  Hypothesis neg_invol : forall x, neg (neg x) = x.
  Hypothesis dv_neg : forall x, dv (neg x) = neg (dv x).
  Variable cbs : cbname -> list segment.
  Hypothesis Hok : callbacks_ok cbs = true.

  Lemma exec_run_ext rdm pl : forall s t, seq V s t ->
    seq V (exec_run V F cbs rdm pl s) (exec_run V F cbs rdm pl t).
  Proof.
    induction pl as [|cb r IH]; intros s t H; simpl; [exact H|]. apply IH. now apply exec_cb_ext.
  Qed.

  (* every slot of the mirrored run holds what the exchanged slot of the
     original run holds: in particular its left disparity dataset is the
     original right one and conversely *)
  Theorem mirror_single pl L R imin imax : no_seg pl ->
    let s  := exec_run V F cbs true pl (prepare_single V neg e L R imin imax) in
    let s' := exec_run V F cbs true pl (prepare_single V neg e R L (neg imax) (neg imin)) in
    forall x, s' x = s (swap_slot x).
  Proof.
    intros Hns s s' x. unfold s', s.
    rewrite (exec_run_ext true pl _ _ (prepare_single_swap V neg e neg_invol L R imin imax) x).
    apply (run_swap V F D disp_of chk itp F_chk F_itp chk_other chk_disp cbs pl Hok Hns).
  Qed.

  Theorem mirror_multi pl L R imin imax : no_seg pl ->
    let s  := exec_run V F cbs true pl (prepare_multi V neg dv pyr first rest e L R imin imax) in
    let s' := exec_run V F cbs true pl (prepare_multi V neg dv pyr first rest e R L (neg imax) (neg imin)) in
    forall x, s' x = s (swap_slot x).
  Proof.
    intros Hns s s' x. unfold s', s.
    rewrite (exec_run_ext true pl _ _
               (prepare_multi_swap V neg dv pyr first rest e neg_invol dv_neg L R imin imax) x).
    apply (run_swap V F D disp_of chk itp F_chk F_itp chk_other chk_disp cbs pl Hok Hns).
  Qed.
End MirrorTheorem.
