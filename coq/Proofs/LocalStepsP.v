(* C13 -- every step of Model/Local.v is local, with its radii. *)
From Coq Require Import ZArith QArith Qround List Bool Lia.
From Pandora Require Import Lib.Ext Lib.Arr Lib.Blocks Spec.Local Proofs.LocalP Model.Local.
From Pandora Require Model.MatchingCost Model.Criteria Model.Wta Model.Refine Model.Filters Model.CrossCheck.
From Pandora Require Spec.Cost Proofs.MatchingCostP Proofs.LocalCostP Proofs.CrossCheckP.
Import ListNotations.
Open Scope Z_scope.

(* ------------------------------------------------------------------ helpers *)

Lemma agree_centre : forall A (F G : frame A) R r c r' c', rad_wf R ->
  agree_on F G R r c r' c' -> f_at F r c = f_at G r' c'.
Proof.
  intros A F G R r c r' c' Hwf Hag. specialize (Hag 0 0 (in_cone_0 R Hwf)).
  now rewrite !Z.add_0_r in Hag.
Qed.

Lemma flat_map_ext_in : forall {X Y} (f g : X -> list Y) l,
  (forall x, In x l -> f x = g x) -> flat_map f l = flat_map g l.
Proof.
  induction l as [|a l IH]; intros H; cbn [flat_map]; [reflexivity|].
  rewrite (H a) by now left. rewrite IH; [reflexivity|]. intros; apply H; now right.
Qed.

Lemma In_arr_zrange : forall w a, In a (Arr.zrange w) -> 0 <= a < w.
Proof.
  intros w a H. unfold Arr.zrange in H. apply in_map_iff in H. destruct H as (k & <- & Hk).
  apply in_seq in Hk. lia.
Qed.

Lemma band_true4 : forall a b c d, a = true -> b = true -> c = true -> d = true -> a && b && c && d = true.
Proof. intros; subst; reflexivity. Qed.

(* ------------------------------------------------------------------ winner-takes-all: the pixel's curve *)

Lemma to_disp_pixel_ext : forall mx B nr nc nr' nc' disps invalid cv cv' conf conf' mask mask' r c r' c',
  1 <= B -> 0 <= r < nr -> 0 <= c < nc -> 0 <= r' < nr' -> 0 <= c' < nc' -> cv r c = cv' r' c' ->
  Wta.o_disp (Wta.to_disp mx B nr nc disps invalid cv conf mask) r c
  = Wta.o_disp (Wta.to_disp mx B nr' nc' disps invalid cv' conf' mask') r' c'.
Proof.
  intros mx B nr nc nr' nc' disps invalid cv cv' conf conf' mask mask' r c r' c' HB Hr Hc Hr' Hc' E.
  cbn [Wta.to_disp Wta.o_disp]. rewrite !loop2_spec by lia.
  replace ((0 <=? r) && (r <? 0 + nr) && (0 <=? c) && (c <? 0 + nc)) with true
    by (symmetry; apply band_true4; lia).
  replace ((0 <=? r') && (r' <? 0 + nr') && (0 <=? c') && (c' <? 0 + nc')) with true
    by (symmetry; apply band_true4; lia).
  rewrite !Z.sub_0_r, E. reflexivity.
Qed.

Theorem wta_step_local : forall mx B invalid G, 1 <= B -> local no_side (wta_step mx B invalid G) rad0 rad0.
Proof.
  intros mx B invalid G HB F G' r c r' c' HF HG Hag _.
  assert (W0 : rad_wf rad0) by (unfold rad_wf, rad0; cbn; lia).
  pose proof (agree_centre _ F G' rad0 r c r' c' W0 Hag) as E.
  destruct (cone_in_frame _ F rad0 r c W0 HF) as [Hr Hc].
  destruct (cone_in_frame _ G' rad0 r' c' W0 HG) as [Hr' Hc'].
  unfold wta_step. cbv zeta.
  rewrite (to_disp_pixel_ext mx B (f_nr F) (f_nc F) (f_nr G') (f_nc G') _ invalid
             (fun r c => map to_cost (p_cvL (f_at F r c))) (fun r c => map to_cost (p_cvL (f_at G' r c)))
             (fun _ _ => []) (fun _ _ => []) (fld p_fL F) (fld p_fL G') r c r' c') by (try assumption; now rewrite E).
  rewrite (to_disp_pixel_ext mx B (f_nr F) (f_nc F) (f_nr G') (f_nc G') _ invalid
             (fun r c => map to_cost (p_cvR (f_at F r c))) (fun r c => map to_cost (p_cvR (f_at G' r c)))
             (fun _ _ => []) (fun _ _ => []) (fld p_fR F) (fld p_fR G') r c r' c') by (try assumption; now rewrite E).
  cbn [Wta.to_disp Wta.o_mask]. unfold fld. rewrite E. reflexivity.
Qed.

(* ------------------------------------------------------------------ refinement: a point operation *)

Theorem refine_step_local : forall K me m G, local no_side (refine_step K me m G) rad0 rad0.
Proof.
  intros K me m G.
  apply (local_pointwise pix pix (fun p =>
    let l := refine_px K me m (g_dmin G) (g_dmax G) (g_s G) (p_cvL p) (p_dL p) (p_fL p) in
    let r_ := refine_px K me m (- g_dmax G) (- g_dmin G) (g_s G) (p_cvR p) (p_dR p) (p_fR p) in
    set_disp p (fst l) (fst r_) (snd l) (snd r_))).
Qed.

(* ------------------------------------------------------------------ median filter: the w x w window *)

Section Median.
  Variables (inv B w : Z).
  Hypothesis HB : 1 <= B.
  Hypothesis Hw : 0 <= w.
  Let rad := w / 2.

  Lemma rad_facts : 0 <= rad /\ w <= 2 * rad + 1.
  Proof. unfold rad. split; [apply Z.div_pos; lia|]. pose proof (Z.div_mod w 2). pose proof (Z.mod_pos_bound w 2). lia. Qed.

  (* what the filter writes at a pixel whose window is inside the image *)
  Lemma median_map_interior : forall ny nx disp mask r c,
    rad <= r -> r + rad < ny -> rad <= c -> c + rad < nx ->
    median_map inv B w ny nx disp mask r c =
    let md := Filters.masked_data inv disp mask in
    if Filters.is_none (md r c) then disp r c
    else Filters.nanmedian (Filters.window md w (r - rad) (c - rad)).
  Proof.
    intros ny nx disp mask r c H1 H2 H3 H4. destruct rad_facts as [R0 R1].
    unfold median_map, Filters.median_filter_disparity, Filters.median_filter. cbv zeta.
    replace ((ny - w + 1 <? 0) || (nx - w + 1 <? 0)) with false by lia.
    fold rad. rewrite loop2_spec by lia.
    replace ((rad <=? r) && (r <? rad + (ny - w + 1)) && (rad <=? c) && (c <? rad + (nx - w + 1))) with true
      by (symmetry; apply band_true4; lia).
    destruct (Filters.is_none (Filters.masked_data inv disp mask r c)); reflexivity.
  Qed.

  Lemma window_local : forall (md md' : Filters.map2) r c r' c',
    (forall a b, - rad <= a <= rad -> - rad <= b <= rad -> md (r + a) (c + b) = md' (r' + a) (c' + b)) ->
    Filters.window md w (r - rad) (c - rad) = Filters.window md' w (r' - rad) (c' - rad).
  Proof.
    intros md md' r c r' c' H. destruct rad_facts as [R0 R1]. unfold Filters.window.
    apply flat_map_ext_in. intros a Ha. apply map_ext_in. intros b Hb.
    apply In_arr_zrange in Ha. apply In_arr_zrange in Hb.
    replace (r - rad + a) with (r + (a - rad)) by lia. replace (c - rad + b) with (c + (b - rad)) by lia.
    replace (r' - rad + a) with (r' + (a - rad)) by lia. replace (c' - rad + b) with (c' + (b - rad)) by lia.
    apply H; lia.
  Qed.

  Lemma median_map_local : forall ny nx ny' nx' disp mask disp' mask' r c r' c',
    rad <= r -> r + rad < ny -> rad <= c -> c + rad < nx ->
    rad <= r' -> r' + rad < ny' -> rad <= c' -> c' + rad < nx' ->
    (forall a b, - rad <= a <= rad -> - rad <= b <= rad ->
       disp (r + a) (c + b) = disp' (r' + a) (c' + b) /\ mask (r + a) (c + b) = mask' (r' + a) (c' + b)) ->
    median_map inv B w ny nx disp mask r c = median_map inv B w ny' nx' disp' mask' r' c'.
  Proof.
    intros ny nx ny' nx' disp mask disp' mask' r c r' c' H1 H2 H3 H4 H1' H2' H3' H4' Hag.
    destruct rad_facts as [R0 R1].
    rewrite !median_map_interior by assumption. cbv zeta.
    assert (Emd : forall a b, - rad <= a <= rad -> - rad <= b <= rad ->
              Filters.masked_data inv disp mask (r + a) (c + b) = Filters.masked_data inv disp' mask' (r' + a) (c' + b)).
    { intros a b Ha Hb. unfold Filters.masked_data. destruct (Hag a b Ha Hb) as [-> ->]. reflexivity. }
    pose proof (Emd 0 0 ltac:(lia) ltac:(lia)) as E0. rewrite !Z.add_0_r in E0.
    destruct (Hag 0 0 ltac:(lia) ltac:(lia)) as [D0 _]. rewrite !Z.add_0_r in D0.
    rewrite E0, D0, (window_local _ _ r c r' c' Emd). reflexivity.
  Qed.

  Theorem median_step_local : local no_side (median_step inv B w) (rad_filter w) (rad_filter w).
  Proof.
    intros F G r c r' c' HF HG Hag _. destruct rad_facts as [R0 R1].
    assert (Wf : rad_wf (rad_filter w)) by (unfold rad_wf, rad_filter; cbn; fold rad; lia).
    pose proof (agree_centre _ F G _ r c r' c' Wf Hag) as E.
    unfold cone_in, rad_filter in HF, HG. cbn [rho lam mu] in HF, HG. fold rad in HF, HG.
    assert (Hcone : forall a b, - rad <= a <= rad -> - rad <= b <= rad -> in_cone (rad_filter w) a b).
    { intros a b Ha Hb. unfold in_cone, rad_filter. cbn [rho lam mu]. fold rad. lia. }
    unfold median_step. cbv zeta.
    rewrite (median_map_local (f_nr F) (f_nc F) (f_nr G) (f_nc G) (fld p_dL F) (fld p_fL F) (fld p_dL G) (fld p_fL G)
               r c r' c'); try lia.
    2:{ intros a b Ha Hb. unfold fld. rewrite (Hag a b (Hcone a b Ha Hb)). split; reflexivity. }
    rewrite (median_map_local (f_nr F) (f_nc F) (f_nr G) (f_nc G) (fld p_dR F) (fld p_fR F) (fld p_dR G) (fld p_fR G)
               r c r' c'); try lia.
    2:{ intros a b Ha Hb. unfold fld. rewrite (Hag a b (Hcone a b Ha Hb)). split; reflexivity. }
    rewrite E. reflexivity.
  Qed.
End Median.
