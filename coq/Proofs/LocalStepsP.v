(* C13 -- every step of Model/Local.v is local, with its radii. *)
From Coq Require Import ZArith QArith Qround List Bool Lia.
From Pandora Require Import Lib.Ext Lib.Arr Lib.Blocks Spec.Local Proofs.LocalP Model.Local.
From Pandora Require Model.MatchingCost Model.Criteria Model.Wta Model.Refine Model.Filters Model.CrossCheck.
From Pandora Require Spec.Cost Proofs.MatchingCostP Proofs.LocalCostP Proofs.CrossCheckP.
From Pandora Require Model.Cbca Spec.Cbca Proofs.CbcaP Proofs.LocalCbcaP.
Import ListNotations.
Open Scope Z_scope.

(* ------------------------------------------------------------------ helpers *)

Lemma agree_centre : forall A (F G : frame A) R r c r' c', rad_wf R ->
  agree_on F G R r c r' c' -> f_at F r c = f_at G r' c'.
Proof.
  intros A F G R r c r' c' Hwf Hag. specialize (Hag 0 0 (in_cone_0 R Hwf)).
  now rewrite !Z.add_0_r in Hag.
Qed.

Lemma flat_map_ext_in : forall {X Y} (f g : X -> list Y) l,
  (forall x, In x l -> f x = g x) -> flat_map f l = flat_map g l.
Proof.
  induction l as [|a l IH]; intros H; cbn [flat_map]; [reflexivity|].
  rewrite (H a) by now left. rewrite IH; [reflexivity|]. intros; apply H; now right.
Qed.

Lemma In_arr_zrange : forall w a, In a (Arr.zrange w) -> 0 <= a < w.
Proof.
  intros w a H. unfold Arr.zrange in H. apply in_map_iff in H. destruct H as (k & <- & Hk).
  apply in_seq in Hk. lia.
Qed.

Lemma band_true4 : forall a b c d, a = true -> b = true -> c = true -> d = true -> a && b && c && d = true.
Proof. intros; subst; reflexivity. Qed.

(* ------------------------------------------------------------------ winner-takes-all: the pixel's curve *)

Lemma to_disp_pixel_ext : forall mx B nr nc nr' nc' disps invalid cv cv' conf conf' mask mask' r c r' c',
  1 <= B -> 0 <= r < nr -> 0 <= c < nc -> 0 <= r' < nr' -> 0 <= c' < nc' -> cv r c = cv' r' c' ->
  Wta.o_disp (Wta.to_disp mx B nr nc disps invalid cv conf mask) r c
  = Wta.o_disp (Wta.to_disp mx B nr' nc' disps invalid cv' conf' mask') r' c'.
Proof.
  intros mx B nr nc nr' nc' disps invalid cv cv' conf conf' mask mask' r c r' c' HB Hr Hc Hr' Hc' E.
  cbn [Wta.to_disp Wta.o_disp]. rewrite !loop2_spec by lia.
  replace ((0 <=? r) && (r <? 0 + nr) && (0 <=? c) && (c <? 0 + nc)) with true
    by (symmetry; apply band_true4; lia).
  replace ((0 <=? r') && (r' <? 0 + nr') && (0 <=? c') && (c' <? 0 + nc')) with true
    by (symmetry; apply band_true4; lia).
  rewrite !Z.sub_0_r, E. reflexivity.
Qed.

Theorem wta_step_local : forall mx B invalid G, 1 <= B -> local no_side (wta_step mx B invalid G) rad0 rad0.
Proof.
  intros mx B invalid G HB F G' r c r' c' HF HG Hag _.
  assert (W0 : rad_wf rad0) by (unfold rad_wf, rad0; cbn; lia).
  pose proof (agree_centre _ F G' rad0 r c r' c' W0 Hag) as E.
  destruct (cone_in_frame _ F rad0 r c W0 HF) as [Hr Hc].
  destruct (cone_in_frame _ G' rad0 r' c' W0 HG) as [Hr' Hc'].
  unfold wta_step. cbv zeta.
  rewrite (to_disp_pixel_ext mx B (f_nr F) (f_nc F) (f_nr G') (f_nc G') _ invalid
             (fun r c => map to_cost (p_cvL (f_at F r c))) (fun r c => map to_cost (p_cvL (f_at G' r c)))
             (fun _ _ => []) (fun _ _ => []) (fld p_fL F) (fld p_fL G') r c r' c') by (try assumption; now rewrite E).
  rewrite (to_disp_pixel_ext mx B (f_nr F) (f_nc F) (f_nr G') (f_nc G') _ invalid
             (fun r c => map to_cost (p_cvR (f_at F r c))) (fun r c => map to_cost (p_cvR (f_at G' r c)))
             (fun _ _ => []) (fun _ _ => []) (fld p_fR F) (fld p_fR G') r c r' c') by (try assumption; now rewrite E).
  cbn [Wta.to_disp Wta.o_mask]. unfold fld. rewrite E. reflexivity.
Qed.

(* ------------------------------------------------------------------ refinement: a point operation *)

Theorem refine_step_local : forall K me m G, local no_side (refine_step K me m G) rad0 rad0.
Proof.
  intros K me m G.
  apply (local_pointwise pix pix (fun p =>
    let l := refine_px K me m (g_dmin G) (g_dmax G) (g_s G) (p_cvL p) (p_dL p) (p_fL p) in
    let r_ := refine_px K me m (- g_dmax G) (- g_dmin G) (g_s G) (p_cvR p) (p_dR p) (p_fR p) in
    set_disp p (fst l) (fst r_) (snd l) (snd r_))).
Qed.

(* ------------------------------------------------------------------ median filter: the w x w window *)

Section Median.
  Variables (inv B w : Z).
  Hypothesis HB : 1 <= B.
  Hypothesis Hw : 0 <= w.
  Let rad := w / 2.

  Lemma rad_facts : 0 <= rad /\ w <= 2 * rad + 1.
  Proof. unfold rad. split; [apply Z.div_pos; lia|]. pose proof (Z.div_mod w 2). pose proof (Z.mod_pos_bound w 2). lia. Qed.

  (* what the filter writes at a pixel whose window is inside the image *)
  Lemma median_map_interior : forall ny nx disp mask r c,
    rad <= r -> r + rad < ny -> rad <= c -> c + rad < nx ->
    median_map inv B w ny nx disp mask r c =
    let md := Filters.masked_data inv disp mask in
    if Filters.is_none (md r c) then disp r c
    else Filters.nanmedian (Filters.window md w (r - rad) (c - rad)).
  Proof.
    intros ny nx disp mask r c H1 H2 H3 H4. destruct rad_facts as [R0 R1].
    unfold median_map, Filters.median_filter_disparity, Filters.median_filter. cbv zeta. cbn [fst].
    replace ((ny <? w) || (nx <? w)) with false by lia.
    fold rad. rewrite loop2_spec by lia.
    replace ((rad <=? r) && (r <? rad + (ny - w + 1)) && (rad <=? c) && (c <? rad + (nx - w + 1))) with true
      by (symmetry; apply band_true4; lia).
    destruct (Filters.is_none (Filters.masked_data inv disp mask r c)); reflexivity.
  Qed.

  Lemma window_local : forall (md md' : Filters.map2) r c r' c',
    (forall a b, - rad <= a <= rad -> - rad <= b <= rad -> md (r + a) (c + b) = md' (r' + a) (c' + b)) ->
    Filters.window md w (r - rad) (c - rad) = Filters.window md' w (r' - rad) (c' - rad).
  Proof.
    intros md md' r c r' c' H. destruct rad_facts as [R0 R1]. unfold Filters.window.
    apply flat_map_ext_in. intros a Ha. apply map_ext_in. intros b Hb.
    apply In_arr_zrange in Ha. apply In_arr_zrange in Hb.
    replace (r - rad + a) with (r + (a - rad)) by lia. replace (c - rad + b) with (c + (b - rad)) by lia.
    replace (r' - rad + a) with (r' + (a - rad)) by lia. replace (c' - rad + b) with (c' + (b - rad)) by lia.
    apply H; lia.
  Qed.

  Lemma median_map_local : forall ny nx ny' nx' disp mask disp' mask' r c r' c',
    rad <= r -> r + rad < ny -> rad <= c -> c + rad < nx ->
    rad <= r' -> r' + rad < ny' -> rad <= c' -> c' + rad < nx' ->
    (forall a b, - rad <= a <= rad -> - rad <= b <= rad ->
       disp (r + a) (c + b) = disp' (r' + a) (c' + b) /\ mask (r + a) (c + b) = mask' (r' + a) (c' + b)) ->
    median_map inv B w ny nx disp mask r c = median_map inv B w ny' nx' disp' mask' r' c'.
  Proof.
    intros ny nx ny' nx' disp mask disp' mask' r c r' c' H1 H2 H3 H4 H1' H2' H3' H4' Hag.
    destruct rad_facts as [R0 R1].
    rewrite !median_map_interior by assumption. cbv zeta.
    assert (Emd : forall a b, - rad <= a <= rad -> - rad <= b <= rad ->
              Filters.masked_data inv disp mask (r + a) (c + b) = Filters.masked_data inv disp' mask' (r' + a) (c' + b)).
    { intros a b Ha Hb. unfold Filters.masked_data. destruct (Hag a b Ha Hb) as [-> ->]. reflexivity. }
    pose proof (Emd 0 0 ltac:(lia) ltac:(lia)) as E0. rewrite !Z.add_0_r in E0.
    destruct (Hag 0 0 ltac:(lia) ltac:(lia)) as [D0 _]. rewrite !Z.add_0_r in D0.
    rewrite E0, D0, (window_local _ _ r c r' c' Emd). reflexivity.
  Qed.

  Theorem median_step_local : local no_side (median_step inv B w) (rad_filter w) (rad_filter w).
  Proof.
    intros F G r c r' c' HF HG Hag _. destruct rad_facts as [R0 R1].
    assert (Wf : rad_wf (rad_filter w)) by (unfold rad_wf, rad_filter; cbn; fold rad; lia).
    pose proof (agree_centre _ F G _ r c r' c' Wf Hag) as E.
    unfold cone_in, rad_filter in HF, HG. cbn [rho lam mu] in HF, HG. fold rad in HF, HG.
    assert (Hcone : forall a b, - rad <= a <= rad -> - rad <= b <= rad -> in_cone (rad_filter w) a b).
    { intros a b Ha Hb. unfold in_cone, rad_filter. cbn [rho lam mu]. fold rad. lia. }
    unfold median_step. cbv zeta.
    rewrite (median_map_local (f_nr F) (f_nc F) (f_nr G) (f_nc G) (fld p_dL F) (fld p_fL F) (fld p_dL G) (fld p_fL G)
               r c r' c'); try lia.
    2:{ intros a b Ha Hb. unfold fld. rewrite (Hag a b (Hcone a b Ha Hb)). split; reflexivity. }
    rewrite (median_map_local (f_nr F) (f_nc F) (f_nr G) (f_nc G) (fld p_dR F) (fld p_fR F) (fld p_dR G) (fld p_fR G)
               r c r' c'); try lia.
    2:{ intros a b Ha Hb. unfold fld. rewrite (Hag a b (Hcone a b Ha Hb)). split; reflexivity. }
    rewrite E. reflexivity.
  Qed.
End Median.

(* ------------------------------------------------------------------ matching cost (sad / ssd) *)

Definition cfg_wf (G : cfg) : Prop := 0 < g_w G /\ Z.odd (g_w G) = true /\ 0 < g_s G /\ g_dmin G <= g_dmax G.

(* census: window_size 1, 3 or 5 (the code accepts 3 and 5): the bit string fits the uint32 popcount *)
Definition meas_wf (G : cfg) (m : mmeas) : Prop :=
  match m with MCensus => g_w G * g_w G <= 32 | _ => True end.

Lemma curve_ext : forall vol vol' n r c r' c',
  (forall k, 0 <= k < n -> vol r c k = vol' r' c' k) -> curve vol n r c = curve vol' n r' c'.
Proof.
  intros vol vol' n r c r' c' H. unfold curve. apply map_ext_in. intros k Hk.
  apply MatchingCostP.zrange_In in Hk. apply H. lia.
Qed.

Lemma rad_mc_wf : forall G, cfg_wf G -> rad_wf (rad_mc G).
Proof.
  intros G (Hw & Ho & _). destruct (MatchingCostP.odd_offset _ Hw Ho) as [_ H0].
  unfold rad_wf, rad_mc, dspan, dpos, dneg. cbn [rho lam mu]. lia.
Qed.

(* floor and ceil of a sampled disparity stay inside the interval *)
Lemma sample_bounds : forall s dmin dmax k, 0 < s -> 0 <= k < MatchingCost.nb_disp s dmin dmax ->
  let D := MatchingCost.disp_scaled s dmin k in
  dmin <= Cost.dfloor s D /\ Cost.dceil s D <= dmax.
Proof.
  intros s dmin dmax k Hs Hk. unfold MatchingCost.nb_disp in Hk. cbv zeta.
  unfold MatchingCost.disp_scaled, Cost.dfloor, Cost.dceil. split.
  - apply Z.div_le_lower_bound; lia.
  - assert ((- (dmin * s + k)) / s >= - dmax); [|lia].
    apply Z.le_ge. apply Z.div_le_lower_bound; nia.
Qed.

Lemma img_of_fields : forall p q, img_of p = img_of q ->
  p_L p = p_L q /\ p_R p = p_R q /\ p_mL p = p_mL q /\ p_mR p = p_mR q.
Proof. intros p q H. unfold img_of in H. injection H. intros. repeat split; assumption. Qed.

Section MC.
  Variables (m : mmeas) (E : Criteria.env) (G : cfg).
  Hypothesis Hwf : cfg_wf G.
  Hypothesis Hm : meas_wf G m.
  Variables (F F' : frame pix) (r c r' c' : Z).
  Hypothesis HF : cone_in F (rad_mc G) r c.
  Hypothesis HF' : cone_in F' (rad_mc G) r' c'.
  (* only the input part of the states (radiometry, mask values) has to agree *)
  Hypothesis Hag : agree_via img_of F F' (rad_mc G) r c r' c'.
  Let h := MatchingCost.offset (g_w G).

  Lemma h0 : 0 <= h.
  Proof. destruct Hwf as (Hw & Ho & _). destruct (MatchingCostP.odd_offset _ Hw Ho). assumption. Qed.

  Lemma px_at : forall a b, - h <= a <= h -> - (h + dspan G) <= b <= h + dspan G ->
    (p_L (f_at F (r + a) (c + b)) = p_L (f_at F' (r' + a) (c' + b)) /\
     p_R (f_at F (r + a) (c + b)) = p_R (f_at F' (r' + a) (c' + b)) /\
     p_mL (f_at F (r + a) (c + b)) = p_mL (f_at F' (r' + a) (c' + b)) /\
     p_mR (f_at F (r + a) (c + b)) = p_mR (f_at F' (r' + a) (c' + b))) /\
    Cost.in_image (f_nr F) (f_nc F) (r + a) (c + b) = true /\
    Cost.in_image (f_nr F') (f_nc F') (r' + a) (c' + b) = true.
  Proof.
    intros a b Ha Hb. unfold cone_in, rad_mc in HF, HF'. cbn [rho lam mu] in HF, HF'. fold h in HF, HF'.
    split; [|split].
    - apply img_of_fields. apply Hag. unfold in_cone, rad_mc. cbn [rho lam mu]. fold h. lia.
    - unfold Cost.in_image. apply band_true4; lia.
    - unfold Cost.in_image. apply band_true4; lia.
  Qed.

  Lemma omask_agree : forall has (g : pix -> Z) a b,
    g (f_at F (r + a) (c + b)) = g (f_at F' (r' + a) (c' + b)) ->
    LocalCostP.mask_agree (omask has (fld g F)) (omask has (fld g F')) (r + a) (c + b) (r' + a) (c' + b).
  Proof.
    intros has g a b Hg. destruct has; cbn [omask LocalCostP.mask_agree]; [|exact I].
    unfold fld. exact Hg.
  Qed.

  Lemma left_curve_local :
    curve (mc_vol m (inp_left G F) (g_dmin G) (g_dmax G)) (n_disp G) r c
    = curve (mc_vol m (inp_left G F') (g_dmin G) (g_dmax G)) (n_disp G) r' c'.
  Proof.
    pose proof h0 as Hh. destruct Hwf as (Hw & Ho & Hs & Hdd).
    assert (Hin : in_frame F r c /\ in_frame F' r' c').
    { split; eapply cone_in_frame; try eassumption; apply rad_mc_wf; assumption. }
    destruct Hin as [[Hr Hc] [Hr' Hc']].
    apply curve_ext. intros k Hk. unfold n_disp in Hk.
    pose proof (sample_bounds (g_s G) (g_dmin G) (g_dmax G) k Hs Hk) as SB. cbv zeta in SB.
    assert (Hsp : - dspan G <= g_dmin G /\ g_dmax G <= dspan G /\ 0 <= dspan G) by (unfold dspan, dpos, dneg; lia).
    assert (HL : forall a b, - h <= a <= h -> - h <= b <= h ->
              LocalCostP.inp_alike_left (inp_left G F) (inp_left G F') r c r' c' a b).
    { intros a b Ha Hb. unfold LocalCostP.inp_alike_left, LocalCostP.px_alike, inp_left. cbn.
      assert (Hb' : - (h + dspan G) <= b <= h + dspan G) by lia.
      destruct (px_at a b Ha Hb') as ((EL & ER & EmL & EmR) & E2 & E3). rewrite E2, E3.
      split; [reflexivity|]. split; [unfold fld; exact EL|]. apply (omask_agree (g_hasL G) p_mL a b EmL). }
    assert (HR : forall a b, - h <= a <= h ->
              - h + Cost.dfloor (g_s G) (MatchingCost.disp_scaled (g_s G) (g_dmin G) k) <= b
              <= h + Cost.dceil (g_s G) (MatchingCost.disp_scaled (g_s G) (g_dmin G) k) ->
              LocalCostP.inp_alike_right (inp_left G F) (inp_left G F') r c r' c' a b).
    { intros a b Ha Hb. unfold LocalCostP.inp_alike_right, LocalCostP.px_alike, inp_left. cbn.
      assert (Hb' : - (h + dspan G) <= b <= h + dspan G) by lia.
      destruct (px_at a b Ha Hb') as ((EL & ER & EmL & EmR) & E2 & E3). rewrite E2, E3.
      split; [reflexivity|]. split; [unfold fld; exact ER|]. apply (omask_agree (g_hasR G) p_mR a b EmR). }
    destruct m as [| | |zq]; cbn [mc_vol].
    - apply (LocalCostP.sad_model_local (inp_left G F) (inp_left G F') (g_dmin G) (g_dmax G) r c r' c' k);
        try assumption; cbn; try (repeat split; assumption); try lia; repeat split; reflexivity.
    - apply (LocalCostP.ssd_model_local (inp_left G F) (inp_left G F') (g_dmin G) (g_dmax G) r c r' c' k);
        try assumption; cbn; try (repeat split; assumption); try lia; repeat split; reflexivity.
    - apply (LocalCostP.census_model_local (inp_left G F) (inp_left G F') (g_dmin G) (g_dmax G) r c r' c' k);
        try assumption; cbn; try (repeat split; assumption); try lia; try exact Hm; repeat split; reflexivity.
    - f_equal.
      apply (LocalCostP.zncc_model_local (inp_left G F) (inp_left G F') (g_dmin G) (g_dmax G) r c r' c' k);
        try assumption; cbn; try (repeat split; assumption); try lia; repeat split; reflexivity.
  Qed.
End MC.

(* ------------------------------------------------------------------ the validity mask of the matching-cost
   step (criteria.py) at a pixel whose cone is inside the image: bits 1 / 2 of validity_mask and the
   border flag are position dependent only within offset + disparity interval of the image sides *)

Lemma zseq_In : forall n lo x, In x (Criteria.zseq lo n) <-> lo <= x < lo + Z.of_nat n.
Proof.
  induction n; intros lo x; cbn [Criteria.zseq In].
  - lia.
  - rewrite IHn. lia.
Qed.

Lemma existsb_zseq_shift : forall n lo lo' (f g : Z -> bool),
  (forall i, 0 <= i < Z.of_nat n -> f (lo + i) = g (lo' + i)) ->
  existsb f (Criteria.zseq lo n) = existsb g (Criteria.zseq lo' n).
Proof.
  induction n; intros lo lo' f g H; cbn [Criteria.zseq existsb]; [reflexivity|].
  pose proof (H 0 ltac:(lia)) as H0. rewrite !Z.add_0_r in H0. rewrite H0. f_equal.
  apply IHn. intros i Hi. replace (lo + 1 + i) with (lo + (i + 1)) by lia.
  replace (lo' + 1 + i) with (lo' + (i + 1)) by lia. apply H. lia.
Qed.

Lemma fold_left_ext_in : forall {S X} (f g : S -> X -> S) l s,
  (forall x st, In x l -> f st x = g st x) -> fold_left f l s = fold_left g l s.
Proof.
  induction l as [|a l IH]; intros s H; cbn [fold_left]; [reflexivity|].
  rewrite (H a s) by now left. apply IH. intros; apply H; now right.
Qed.

Section Crit.
  Import Criteria.
  Variables (E : env) (L L' : layout) (r c r' c' : Z) (an an' : Z -> Z -> bool).
  Hypothesis Hsame : off L' = off L /\ dmin L' = dmin L /\ dmax L' = dmax L /\ lhas L' = lhas L /\ rhas L' = rhas L
                     /\ l_nd L' = l_nd L /\ l_vl L' = l_vl L /\ r_nd L' = r_nd L /\ r_vl L' = r_vl L.
  Hypothesis Hoff : 0 <= off L.
  Let lo := Z.min 0 (dmin L).
  Let hi := Z.max 0 (dmax L).
  Hypothesis Hint : dmin L <= dmax L.
  Hypothesis Hin : off L <= r /\ r + off L < nr L /\ off L <= c + lo /\ c + hi + off L < nc L.
  Hypothesis Hin' : off L <= r' /\ r' + off L < nr L' /\ off L <= c' + lo /\ c' + hi + off L < nc L'.
  Hypothesis Hlm : forall a b, - off L <= a <= off L -> - off L <= b <= off L ->
    lm L (r + a) (c + b) = lm L' (r' + a) (c' + b).
  Hypothesis Hrm : forall a b, - off L <= a <= off L -> - off L + dmin L <= b <= off L + dmax L ->
    rm L (r + a) (c + b) = rm L' (r' + a) (c' + b).
  Hypothesis Han : an r c = an' r' c'.

  Lemma vm_base_interior : forall (K : layout) k, off K = off L -> dmin K = dmin L -> dmax K = dmax L ->
    off L <= k + lo -> k + hi + off L < nc K -> vm_base E K k = fire E R_vm_init 0 true.
  Proof.
    intros K k Eo Ei Ea H1 H2. unfold vm_base, bit1_col, last_col. rewrite Eo, Ei, Ea.
    unfold lo, hi in *.
    destruct (dmax L <? 0) eqn:A.
    - replace ((k + dmax L >=? 0 + off L) && (k + dmin L <? 0 + off L)) with false by lia.
      replace (k + dmax L <? 0 + off L) with false by lia. reflexivity.
    - destruct (dmin L >? 0) eqn:B.
      + replace ((k + dmin L <=? nc K - 1 - off L) && (k + dmax L >? nc K - 1 - off L)) with false by lia.
        replace (k + dmin L >? nc K - 1 - off L) with false by lia. reflexivity.
      + replace ((k + dmin L <? 0 + off L) || (k + dmax L >? nc K - 1 - off L)) with false by lia.
        reflexivity.
  Qed.

  Lemma bit1_col_interior : forall (K : layout) k, off K = off L -> dmin K = dmin L -> dmax K = dmax L ->
    off L <= k + lo -> k + hi + off L < nc K -> bit1_col K k = false.
  Proof.
    intros K k Eo Ei Ea H1 H2. unfold bit1_col, last_col. rewrite Eo, Ei, Ea. unfold lo, hi in *.
    destruct (dmax L <? 0) eqn:A; [lia|]. destruct (dmin L >? 0) eqn:B; [lia|reflexivity].
  Qed.

  (* the dilated no-data mask at (r + 0, c + d): the window of the pixel, both images inside *)
  Lemma dil_local : forall (m m' : Z -> Z -> Z) ndv d,
    off L <= c + d -> c + d + off L < nc L -> off L <= c' + d -> c' + d + off L < nc L' ->
    (forall a b, - off L <= a <= off L -> - off L <= b <= off L -> m (r + a) (c + d + b) = m' (r' + a) (c' + d + b)) ->
    dil L m ndv r (c + d) = dil L' m' ndv r' (c' + d).
  Proof.
    intros m m' ndv d H1 H2 H3 H4 Hm. destruct Hsame as (Eo & _). unfold dil. rewrite Eo.
    replace (Z.max 0 (r - off L)) with (r - off L) by lia. replace (Z.min (nr L - 1) (r + off L)) with (r + off L) by lia.
    replace (Z.max 0 (r' - off L)) with (r' - off L) by lia. replace (Z.min (nr L' - 1) (r' + off L)) with (r' + off L) by lia.
    replace (Z.max 0 (c + d - off L)) with (c + d - off L) by lia.
    replace (Z.min (nc L - 1) (c + d + off L)) with (c + d + off L) by lia.
    replace (Z.max 0 (c' + d - off L)) with (c' + d - off L) by lia.
    replace (Z.min (nc L' - 1) (c' + d + off L)) with (c' + d + off L) by lia.
    unfold zrange.
    replace (r' + off L - (r' - off L) + 1) with (r + off L - (r - off L) + 1) by lia.
    replace (c' + d + off L - (c' + d - off L) + 1) with (c + d + off L - (c + d - off L) + 1) by lia.
    apply existsb_zseq_shift. intros i Hi. apply existsb_zseq_shift. intros j Hj.
    replace (r - off L + i) with (r + (i - off L)) by lia. replace (r' - off L + i) with (r' + (i - off L)) by lia.
    replace (c + d - off L + j) with (c + d + (j - off L)) by lia.
    replace (c' + d - off L + j) with (c' + d + (j - off L)) by lia.
    rewrite Hm by lia. reflexivity.
  Qed.

  Lemma alloc_left_local : forall m, alloc_left E L m r c = alloc_left E L' m r' c'.
  Proof.
    intro m. destruct Hsame as (Eo & Ei & Ea & _ & _ & E1 & E2 & _). unfold alloc_left, lo, hi in *.
    pose proof (dil_local (lm L) (lm L') (l_nd L) 0) as D. rewrite !Z.add_0_r in D.
    rewrite E1, E2. rewrite D; try lia.
    2:{ intros a b Ha Hb. apply Hlm; assumption. }
    unfold isinv. pose proof (Hlm 0 0 ltac:(lia) ltac:(lia)) as H0. rewrite !Z.add_0_r in H0. rewrite H0. reflexivity.
  Qed.

  Lemma alloc_right_local : forall m, alloc_right E L m r c = alloc_right E L' m r' c'.
  Proof.
    intro m. destruct Hsame as (Eo & Ei & Ea & _ & _ & _ & _ & E3 & E4). unfold alloc_right. rewrite Ei, Ea.
    f_equal. apply fold_left_ext_in. intros dsp st Hd.
    unfold zrange in Hd. apply zseq_In in Hd.
    assert (Hdsp : dmin L <= dsp <= dmax L) by lia. clear Hd.
    unfold arm_step. destruct st as [[b27 ndr] mm].
    unfold last_col, range_len. rewrite Eo, Ei, Ea, E3, E4.
    unfold lo, hi in *.
    rewrite (bit1_col_interior L c) by (unfold lo, hi; lia).
    rewrite (bit1_col_interior L' c') by (unfold lo, hi; lia).
    replace ((c + dsp >=? 0 + off L) && (c + dsp <=? nc L - 1 - off L)) with true by lia.
    replace ((c' + dsp >=? 0 + off L) && (c' + dsp <=? nc L' - 1 - off L)) with true by lia.
    rewrite (dil_local (rm L) (rm L') (r_nd L) dsp); try lia.
    2:{ intros a b Ha Hb. replace (c + dsp + b) with (c + (dsp + b)) by lia.
        replace (c' + dsp + b) with (c' + (dsp + b)) by lia. apply Hrm; lia. }
    unfold isinv. pose proof (Hrm 0 dsp ltac:(lia) ltac:(lia)) as H0. rewrite !Z.add_0_r in H0. rewrite H0.
    reflexivity.
  Qed.

  Lemma validity_mask_px_local : validity_mask_px E L r c = validity_mask_px E L' r' c'.
  Proof.
    destruct Hsame as (Eo & Ei & Ea & Elh & Erh & _). unfold validity_mask_px.
    rewrite (vm_base_interior L c) by (try reflexivity; unfold lo, hi in *; lia).
    rewrite (vm_base_interior L' c') by (try assumption; unfold lo, hi in *; lia).
    rewrite Elh, Erh.
    pose proof alloc_left_local as A. pose proof alloc_right_local as B.
    destruct (lhas L); destruct (rhas L); rewrite ?A, ?B; reflexivity.
  Qed.

  Lemma mask_border_px_interior : forall (K : layout) k1 k2 m, off K = off L -> 0 < off L ->
    off L <= k1 -> k1 + off L < nr K -> off L <= k2 -> k2 + off L < nc K ->
    mask_border_px E K k1 k2 m = m.
  Proof.
    intros K k1 k2 m Eo Ho H1 H2 H3 H4. unfold mask_border_px, py_idx, in_sl. rewrite Eo. cbv zeta.
    replace (off L <? 0) with false by lia. replace (- off L <? 0) with true by lia.
    replace ((0 <=? k1) && (k1 <? Z.min (off L) (nr K))) with false by lia.
    replace ((Z.max 0 (nr K + - off L) <=? k1) && (k1 <? nr K)) with false by lia.
    replace ((0 <=? k2) && (k2 <? Z.min (off L) (nc K))) with false by lia.
    replace ((Z.max 0 (nc K + - off L) <=? k2) && (k2 <? nc K)) with false by lia.
    rewrite !andb_false_r. reflexivity.
  Qed.

  Theorem after_mc_local : after_mc E L an r c = after_mc E L' an' r' c'.
  Proof.
    destruct Hsame as (Eo & _). unfold after_mc. rewrite validity_mask_px_local, Han, Eo.
    destruct (off L >? 0) eqn:Ho; [|reflexivity].
    unfold lo, hi in *.
    rewrite (mask_border_px_interior L r c) by (try reflexivity; lia).
    rewrite (mask_border_px_interior L' r' c') by (try assumption; lia).
    reflexivity.
  Qed.
End Crit.

(* the right products are the left products of the mirrored problem (C08): exchange the roles *)
Definition swap_pix (p : pix) : pix :=
  mkPix (p_R p) (p_L p) (p_mR p) (p_mL p) (p_cvR p) (p_cvL p) (p_dR p) (p_dL p) (p_fR p) (p_fL p).
Definition swapf (F : frame pix) : frame pix := mkFrame (f_nr F) (f_nc F) (fun r c => swap_pix (f_at F r c)).
Definition swapc (G : cfg) : cfg :=
  mkCfg (g_w G) (g_s G) (- g_dmax G) (- g_dmin G) (g_hasR G) (g_hasL G) (g_vp G) (g_nd G).

Lemma dspan_swap : forall G, dspan (swapc G) = dspan G.
Proof. intro G. unfold dspan, dpos, dneg, swapc. cbn [g_dmin g_dmax]. lia. Qed.
Lemma rad_mc_swap : forall G, rad_mc (swapc G) = rad_mc G.
Proof. intro G. unfold rad_mc. rewrite dspan_swap. reflexivity. Qed.
Lemma n_disp_swap : forall G, n_disp (swapc G) = n_disp G.
Proof. intro G. unfold n_disp, MatchingCost.nb_disp, swapc. cbn [g_s g_dmin g_dmax]. f_equal. ring. Qed.
Lemma agree_swap : forall F F' R r c r' c', agree_on F F' R r c r' c' -> agree_on (swapf F) (swapf F') R r c r' c'.
Proof. intros F F' R r c r' c' H a b Hab. unfold swapf. cbn [f_at]. now rewrite (H a b Hab). Qed.
Lemma agree_via_swap : forall F F' R r c r' c',
  agree_via img_of F F' R r c r' c' -> agree_via img_of (swapf F) (swapf F') R r c r' c'.
Proof.
  intros F F' R r c r' c' H a b Hab. destruct (img_of_fields _ _ (H a b Hab)) as (E1 & E2 & E3 & E4).
  unfold swapf, swap_pix, img_of. cbn [f_at p_L p_R p_mL p_mR]. congruence.
Qed.

Lemma all_nan_curve : forall l l', l = l' -> all_nan l = all_nan l'.
Proof. intros; subst; reflexivity. Qed.

Section MCflags.
  Variables (E : Criteria.env) (G : cfg).
  Hypothesis Hwf : cfg_wf G.
  Variables (F F' : frame pix) (r c r' c' : Z) (b b' : bool).
  Hypothesis HF : cone_in F (rad_mc G) r c.
  Hypothesis HF' : cone_in F' (rad_mc G) r' c'.
  Hypothesis Hag : agree_via img_of F F' (rad_mc G) r c r' c'.
  Hypothesis Hb : b = b'.

  Lemma left_flag_local :
    Criteria.after_mc E (lay_left G F) (fun _ _ => b) r c = Criteria.after_mc E (lay_left G F') (fun _ _ => b') r' c'.
  Proof.
    pose proof (h0 G Hwf) as Hh.
    assert (Hsp : - dspan G <= g_dmin G /\ g_dmax G <= dspan G /\ 0 <= dspan G) by (unfold dspan, dpos, dneg; lia).
    unfold cone_in, rad_mc in HF, HF'. cbn [rho lam mu] in HF, HF'.
    apply after_mc_local; unfold lay_left; cbn [Criteria.off Criteria.dmin Criteria.dmax Criteria.lhas Criteria.rhas
      Criteria.l_nd Criteria.l_vl Criteria.r_nd Criteria.r_vl Criteria.nr Criteria.nc Criteria.lm Criteria.rm].
    - repeat split; reflexivity.
    - lia.
    - destruct Hwf as (_ & _ & _ & Hdd). exact Hdd.
    - lia.
    - lia.
    - intros a d Ha Hd. unfold fld. apply img_of_fields. apply Hag.
      unfold in_cone, rad_mc. cbn [rho lam mu]. lia.
    - intros a d Ha Hd. unfold fld. apply img_of_fields. apply Hag.
      unfold in_cone, rad_mc. cbn [rho lam mu]. lia.
    - exact Hb.
  Qed.
End MCflags.

Lemma rad0_wf : rad_wf rad0.
Proof. unfold rad_wf, rad0. cbn. lia. Qed.

(* the matching-cost step reads the images only (window + disparity span); of the state of the pixel itself it keeps
   the disparities *)
Theorem mc_step_local : forall m E G, cfg_wf G -> meas_wf G m ->
  local2 img_of no_side (mc_step m E G) rad0 (rad_mc G) (rad_mc G).
Proof.
  intros m E G Hwf Hm F F' r c r' c' HF HF' Hag0 Hag _.
  pose proof (agree_centre _ F F' _ r c r' c' rad0_wf Hag0) as E0.
  assert (Hwf' : cfg_wf (swapc G)).
  { destruct Hwf as (A1 & A2 & A3 & A4). unfold cfg_wf, swapc. cbn [g_w g_s g_dmin g_dmax]. repeat split; try assumption. lia. }
  assert (Hm' : meas_wf (swapc G) m) by (destruct m; exact Hm).
  assert (HFs : cone_in (swapf F) (rad_mc (swapc G)) r c) by (rewrite rad_mc_swap; exact HF).
  assert (HFs' : cone_in (swapf F') (rad_mc (swapc G)) r' c') by (rewrite rad_mc_swap; exact HF').
  assert (Hags : agree_via img_of (swapf F) (swapf F') (rad_mc (swapc G)) r c r' c') by (rewrite rad_mc_swap; apply agree_via_swap; exact Hag).
  pose proof (left_curve_local m G Hwf Hm F F' r c r' c' HF HF' Hag) as CL.
  pose proof (left_curve_local m (swapc G) Hwf' Hm' (swapf F) (swapf F') r c r' c' HFs HFs' Hags) as CR.
  rewrite n_disp_swap in CR.
  change (inp_left (swapc G) (swapf F)) with (inp_right G F) in CR.
  change (inp_left (swapc G) (swapf F')) with (inp_right G F') in CR.
  cbn [swapc g_dmin g_dmax] in CR.
  unfold mc_step. cbv zeta. rewrite CL, CR, E0.
  rewrite (left_flag_local E G Hwf F F' r c r' c' _ _ HF HF' Hag eq_refl).
  change (lay_right G F) with (lay_left (swapc G) (swapf F)).
  change (lay_right G F') with (lay_left (swapc G) (swapf F')).
  rewrite (left_flag_local E (swapc G) Hwf' (swapf F) (swapf F') r c r' c' _ _ HFs HFs' Hags eq_refl).
  reflexivity.
Qed.

(* ------------------------------------------------------------------ cbca aggregation: through
   LocalCbcaP.cbca_model_local (C11's model = spec, then the locality of the spec) *)

Lemma nth_range : forall n lo i d, (i < n)%nat -> nth i (MatchingCost.range lo n) d = lo + Z.of_nat i.
Proof.
  induction n; intros lo i d Hi; [lia|]. cbn [MatchingCost.range]. destruct i; cbn [nth]; [lia|].
  rewrite IHn by lia. lia.
Qed.
Lemma range_length : forall m lo, length (MatchingCost.range lo m) = m.
Proof. induction m; intros; cbn [MatchingCost.range length]; auto. Qed.

(* sample k of the disparity axis: d = dmin + k / s; its floor and the index of its shifted right image *)
Lemma sample_disp : forall s dmin n k, 0 <= k < n ->
  nth (Z.to_nat k) (disps s dmin n) 0%Q = Qred (inject_Z dmin + (k # Z.to_pos s))%Q.
Proof.
  intros s dmin n k Hk. unfold disps.
  set (f := fun k0 : Z => Qred (inject_Z dmin + (k0 # Z.to_pos s))).
  rewrite (nth_indep _ 0%Q (f 0)).
  2:{ rewrite map_length. unfold MatchingCost.zrange. rewrite range_length. lia. }
  rewrite map_nth. unfold MatchingCost.zrange. rewrite nth_range by lia. unfold f. f_equal. f_equal. f_equal. lia.
Qed.
Lemma disps_length : forall s dmin n, 0 <= n -> Z.of_nat (length (disps s dmin n)) = n.
Proof. intros. unfold disps, MatchingCost.zrange. rewrite map_length, range_length. lia. Qed.

Lemma sample_floor : forall s dmin k, 0 < s ->
  Qfloor (Qred (inject_Z dmin + (k # Z.to_pos s))) = (dmin * s + k) / s.
Proof.
  intros s dmin k Hs. rewrite (Qfloor_comp _ _ (Qred_correct _)).
  unfold Qfloor, Qplus, inject_Z. cbn [Qnum Qden]. rewrite Pos.mul_1_l, Z2Pos.id by lia. f_equal. lia.
Qed.
Lemma sample_image : forall s dmin k, 0 < s ->
  Spec.Cbca.plane_image s (Qred (inject_Z dmin + (k # Z.to_pos s))) = (dmin * s + k) mod s.
Proof.
  intros s dmin k Hs. unfold Spec.Cbca.plane_image. rewrite sample_floor by assumption.
  set (D := dmin * s + k).
  rewrite <- (Qfloor_Z (D mod s)). apply Qfloor_comp.
  rewrite (Qred_correct _).
  unfold Qeq, Qminus, Qplus, Qopp, Qmult, inject_Z. cbn [Qnum Qden].
  rewrite !Pos.mul_1_l, !Pos.mul_1_r, Z2Pos.id by lia.
  pose proof (Z.div_mod D s ltac:(lia)). unfold D in *. nia.
Qed.

Lemma rad_cbca_wf : forall G dist, cfg_wf G ->
  rad_wf (rad_cbca_S dist) /\ rad_wf (rad_cbca_I G dist) /\ rad_wf (rad_cbca_M G dist).
Proof.
  intros G dist Hwf. assert (0 <= dspan G) by (unfold dspan, dpos, dneg; lia).
  unfold rad_wf, rad_cbca_S, rad_cbca_I, rad_cbca_M, cbca_arm. cbn [rho lam mu]. lia.
Qed.

Section CbcaLeft.
  Variables (dist : Z) (inten : Q) (G : cfg).
  Hypothesis Hwf : cfg_wf G.
  Hypothesis Hdist : 1 <= dist.
  Variables (F F' : frame pix) (r c r' c' : Z).
  Hypothesis HF : cone_in F (rad_cbca_M G dist) r c.
  Hypothesis HF' : cone_in F' (rad_cbca_M G dist) r' c'.
  Hypothesis HagS : agree_on F F' (rad_cbca_S dist) r c r' c'.
  Hypothesis HagI : agree_via img_of F F' (rad_cbca_I G dist) r c r' c'.
  Let A := LocalCbcaP.arm_max dist.
  Let h := MatchingCost.offset (g_w G).

  Lemma cbca_left_local : forall k, 0 <= k < n_disp G ->
    cbca_at (cbca_left dist inten G F) k r c = cbca_at (cbca_left dist inten G F') k r' c'.
  Proof.
    intros k Hk. pose proof (h0 G Hwf) as Hh. fold h in Hh. destruct Hwf as (Hw & Ho & Hs & Hdd).
    assert (Hsp : - dspan G <= g_dmin G /\ g_dmax G <= dspan G /\ 0 <= dspan G) by (unfold dspan, dpos, dneg; lia).
    assert (HA : 1 <= A) by (unfold A, LocalCbcaP.arm_max; lia).
    unfold cone_in, rad_cbca_M in HF, HF'. cbn [rho lam mu] in HF, HF'.
    change (cbca_arm dist) with A in HF, HF'. fold h in HF, HF'.
    assert (Hn : 0 <= n_disp G) by (unfold n_disp, MatchingCost.nb_disp; nia).
    pose proof (sample_bounds (g_s G) (g_dmin G) (g_dmax G) k Hs Hk) as SB. cbv zeta in SB.
    unfold MatchingCost.disp_scaled, Cost.dfloor, Cost.dceil in SB.
    rewrite MatchingCostP.ceil_floor in SB by assumption.
    set (D := g_dmin G * g_s G + k) in *.
    assert (Ee : D / g_s G + (if D mod g_s G =? 0 then 0 else 1) <= g_dmax G) by (destruct (D mod g_s G =? 0); lia).
    assert (Ee0 : D / g_s G <= g_dmax G) by (destruct (D mod g_s G =? 0); lia).
    destruct SB as [SB1 _].
    change (cbca_at (cbca_left dist inten G F) k r c) with (CbcaP.out_at (cbca_left dist inten G F) k r c).
    change (cbca_at (cbca_left dist inten G F') k r' c') with (CbcaP.out_at (cbca_left dist inten G F') k r' c').
    assert (Ed : CbcaP.nth_disp (cbca_left dist inten G F) k = Qred (inject_Z (g_dmin G) + (k # Z.to_pos (g_s G)))).
    { unfold CbcaP.nth_disp, cbca_left. cbn [Cbca.i_disps]. apply (sample_disp _ _ (n_disp G)). exact Hk. }
    apply (LocalCbcaP.cbca_model_local (cbca_left dist inten G F) (cbca_left dist inten G F') k k r c r' c').
    - unfold cbca_left. cbn. repeat split; reflexivity.
    - exact Hdist.
    - unfold cbca_left. cbn [Cbca.i_subpix]. lia.
    - unfold cbca_left. cbn [Cbca.i_off]. exact Hh.
    - unfold CbcaP.n_disp, cbca_left. cbn [Cbca.i_disps]. rewrite disps_length by assumption. exact Hk.
    - unfold CbcaP.n_disp, cbca_left. cbn [Cbca.i_disps]. rewrite disps_length by assumption. exact Hk.
    - reflexivity.
    - rewrite Ed. unfold Spec.Cbca.plane_shift. rewrite sample_floor, sample_image by assumption. fold D.
      unfold cbca_left. cbn [Cbca.i_dist Cbca.i_off Cbca.i_subpix Cbca.i_nr Cbca.i_nc]. fold A h.
      destruct (D mod g_s G =? 0); lia.
    - rewrite Ed. unfold Spec.Cbca.plane_shift. rewrite sample_floor, sample_image by assumption. fold D.
      unfold cbca_left. cbn [Cbca.i_dist Cbca.i_off Cbca.i_subpix Cbca.i_nr Cbca.i_nc]. fold A h.
      destruct (D mod g_s G =? 0); lia.
    - (* left image and mask *)
      intros a b Ha Hb. cbn [cbca_left Cbca.i_dist] in Ha, Hb. fold A in Ha, Hb.
      assert (Hc : in_cone (rad_cbca_I G dist) a b).
      { unfold in_cone, rad_cbca_I. cbn [rho lam mu]. change (cbca_arm dist) with A. lia. }
      destruct (img_of_fields _ _ (HagI a b Hc)) as (EL & ER & EmL & EmR).
      unfold cbca_left. cbn [Cbca.i_imL Cbca.i_mskL]. unfold qimg, fld. rewrite EL. split; [reflexivity|].
      destruct (g_hasL G); cbn [omask LocalCbcaP.omask_agree]; [exact EmL|exact I].
    - (* the shifted right image *)
      intros a b Ha Hb. cbn [cbca_left Cbca.i_dist] in Ha, Hb. fold A in Ha, Hb.
      rewrite Ed. unfold Spec.Cbca.plane_shift. rewrite sample_floor, sample_image by assumption. fold D.
      unfold cbca_left. cbn [Cbca.i_imR Cbca.i_subpix]. unfold shifted, MatchingCost.shift_right, fld.
      assert (Hc : in_cone (rad_cbca_I G dist) a (D / g_s G + b)).
      { unfold in_cone, rad_cbca_I. cbn [rho lam mu]. change (cbca_arm dist) with A. lia. }
      destruct (img_of_fields _ _ (HagI a (D / g_s G + b) Hc)) as (_ & ER & _ & _).
      replace (c + (D / g_s G + b)) with (c + D / g_s G + b) in ER by lia.
      replace (c' + (D / g_s G + b)) with (c' + D / g_s G + b) in ER by lia.
      destruct (D mod g_s G =? 0) eqn:Em; [rewrite ER; reflexivity|].
      assert (Hc1 : in_cone (rad_cbca_I G dist) a (D / g_s G + b + 1)).
      { unfold in_cone, rad_cbca_I. cbn [rho lam mu]. change (cbca_arm dist) with A. lia. }
      destruct (img_of_fields _ _ (HagI a (D / g_s G + b + 1) Hc1)) as (_ & ER1 & _ & _).
      replace (c + (D / g_s G + b + 1)) with (c + D / g_s G + b + 1) in ER1 by lia.
      replace (c' + (D / g_s G + b + 1)) with (c' + D / g_s G + b + 1) in ER1 by lia.
      rewrite ER, ER1. reflexivity.
    - (* the right mask *)
      intros a b Ha Hb. cbn [cbca_left Cbca.i_dist Cbca.i_subpix] in Ha, Hb. fold A in Ha, Hb.
      rewrite Ed in *. unfold Spec.Cbca.plane_shift in *. rewrite sample_floor in * by assumption.
      rewrite sample_image in Hb by assumption. fold D in Hb |- *.
      assert (Hc : in_cone (rad_cbca_I G dist) a (D / g_s G + b)).
      { unfold in_cone, rad_cbca_I. cbn [rho lam mu]. change (cbca_arm dist) with A.
        destruct (D mod g_s G =? 0); lia. }
      destruct (img_of_fields _ _ (HagI a (D / g_s G + b) Hc)) as (_ & _ & _ & EmR).
      replace (c + (D / g_s G + b)) with (c + D / g_s G + b) in EmR by lia.
      replace (c' + (D / g_s G + b)) with (c' + D / g_s G + b) in EmR by lia.
      unfold cbca_left. cbn [Cbca.i_mskR]. unfold fld.
      destruct (g_hasR G); cbn [omask LocalCbcaP.omask_agree]; [exact EmR|exact I].
    - (* the input costs *)
      intros a b Ha Hb. cbn [cbca_left Cbca.i_dist] in Ha, Hb. fold A in Ha, Hb.
      unfold cbca_left. cbn [Cbca.i_cv]. unfold cv_at. rewrite (HagS a b); [reflexivity|].
      unfold in_cone, rad_cbca_S. cbn [rho lam mu]. change (cbca_arm dist) with A. lia.
  Qed.
End CbcaLeft.

Lemma cbca_right_swap : forall dist inten G F,
  cbca_right dist inten G F = cbca_left dist inten (swapc G) (swapf F).
Proof. intros. unfold cbca_right, cbca_left. rewrite n_disp_swap. reflexivity. Qed.

Lemma rad_cbca_swap : forall G dist,
  rad_cbca_I (swapc G) dist = rad_cbca_I G dist /\ rad_cbca_M (swapc G) dist = rad_cbca_M G dist.
Proof. intros. unfold rad_cbca_I, rad_cbca_M. rewrite dspan_swap. split; reflexivity. Qed.

(* cbca, left and right cost volumes: the costs of the square of the longest arm, the images one pixel further
   (3x3 median) and, along the columns, the disparity span further; every cbca_distance >= 1, every cbca_intensity *)
Theorem cbca_step_local : forall dist inten G, cfg_wf G -> 1 <= dist ->
  local2 img_of no_side (cbca_step dist inten G) (rad_cbca_S dist) (rad_cbca_I G dist) (rad_cbca_M G dist).
Proof.
  intros dist inten G Hwf Hdist F F' r c r' c' HF HF' HagS HagI _.
  destruct (rad_cbca_wf G dist Hwf) as (W1 & W2 & W3).
  pose proof (agree_centre _ F F' _ r c r' c' W1 HagS) as E0.
  assert (Hwf' : cfg_wf (swapc G)).
  { destruct Hwf as (A1 & A2 & A3 & A4). unfold cfg_wf, swapc. cbn [g_w g_s g_dmin g_dmax]. repeat split; try assumption. lia. }
  destruct (rad_cbca_swap G dist) as (S1 & S2).
  unfold cbca_step. rewrite E0. f_equal.
  - apply map_ext_in. intros k Hk. apply MatchingCostP.zrange_In in Hk.
    apply (cbca_left_local dist inten G Hwf Hdist F F' r c r' c' HF HF' HagS HagI). lia.
  - apply map_ext_in. intros k Hk. apply MatchingCostP.zrange_In in Hk.
    rewrite !cbca_right_swap.
    apply (cbca_left_local dist inten (swapc G) Hwf' Hdist (swapf F) (swapf F') r c r' c').
    + rewrite S2. exact HF.
    + rewrite S2. exact HF'.
    + apply agree_swap. exact HagS.
    + rewrite S1. apply agree_via_swap. exact HagI.
    + rewrite n_disp_swap. lia.
Qed.

(* ------------------------------------------------------------------ cross-checking: one row, the
   columns c + d for d in the disparity interval *)

Section XRow.
  Import Model.CrossCheck Proofs.CrossCheckP.
  Variables (nc nc' : Z) (dL dR dL' dR' : Z -> option Q) (mk mk' : Z -> Z) (thr : Q) (dmin dmax c c' : Z).
  Hypothesis Hc : 0 <= c < nc /\ 0 <= c + dmin /\ c + dmax < nc.
  Hypothesis Hc' : 0 <= c' < nc' /\ 0 <= c' + dmin /\ c' + dmax < nc'.
  Hypothesis Emk : mk c = mk' c'.
  Hypothesis EdL : dL c = dL' c'.
  Hypothesis EdR : forall d, dmin <= d <= dmax -> dR (c + d) = dR' (c' + d).
  Hypothesis Hok : is_valid (mk c) = true -> exists q, dL c = Some q /\ dmin <= rint q <= dmax.

  Lemma comp_local : comp nc dR dmin dmax c = comp nc' dR' dmin dmax c'.
  Proof.
    unfold comp. cbv zeta.
    assert (Ef : filter (hit nc dR c) (disparity_range dmin dmax) = filter (hit nc' dR' c') (disparity_range dmin dmax));
      [|rewrite Ef; reflexivity].
    apply filter_ext_in. intros d Hd.
    unfold disparity_range in Hd. apply In_zrange in Hd.
    unfold hit. cbv zeta.
    replace ((0 <=? d + c) && (d + c <? nc)) with true by lia.
    replace ((0 <=? d + c') && (d + c' <? nc')) with true by lia.
    replace (d + c) with (c + d) by lia. replace (d + c') with (c' + d) by lia.
    rewrite EdR by lia. reflexivity.
  Qed.

  Lemma pixel_mask_local :
    pixel_mask true true nc dL dR mk thr dmin dmax c = pixel_mask true true nc' dL' dR' mk' thr dmin dmax c'.
  Proof.
    unfold pixel_mask.
    replace ((0 <=? c) && (c <? nc)) with true by lia. replace ((0 <=? c') && (c' <? nc')) with true by lia.
    cbn [andb]. rewrite <- Emk. destruct (is_valid (mk c)) eqn:V; [|reflexivity].
    destruct (Hok eq_refl) as (q & Eq & Hq).
    unfold col_right_of. rewrite <- EdL, Eq.
    unfold in_img. replace ((0 <=? c + rint q) && (c + rint q <? nc)) with true by lia.
    replace ((0 <=? c' + rint q) && (c' + rint q <? nc')) with true by lia.
    unfold dist. cbn [fst snd]. rewrite <- EdL, Eq, (EdR (rint q)) by lia. rewrite comp_local. reflexivity.
  Qed.
End XRow.

Section XDS.
  Import Model.CrossCheck Proofs.CrossCheckP.
  (* the mask the step leaves at a pixel that is not on the window margin of the raster *)
  Lemma xcheck_mask_interior : forall thr me other r c,
    0 <= ds_offset me -> ds_offset me <= r -> r + ds_offset me < ds_nr me ->
    ds_offset me <= c -> c + ds_offset me < ds_nc me ->
    ds_mask (xcheck thr me other) r c
    = pixel_mask true true (ds_nc me) (ds_disp me r) (ds_disp other r) (ds_mask me r) thr (ds_dmin me) (ds_dmax me) c.
  Proof.
    intros thr me other r c H0 H1 H2 H3 H4. unfold xcheck, xcheck_gen. cbn [ds_mask].
    assert (Em : xcheck_mask true true thr me other r c
                 = pixel_mask true true (ds_nc me) (ds_disp me r) (ds_disp other r) (ds_mask me r) thr (ds_dmin me) (ds_dmax me) c).
    { unfold xcheck_mask. replace ((0 <=? r) && (r <? ds_nr me)) with true by lia. apply mask_row_pixel. }
    destruct (0 <? ds_offset me) eqn:Eo; [|exact Em].
    rewrite mask_border_spec by lia. unfold Spec.CrossCheck.is_border.
    replace ((r <? ds_offset me) || (ds_nr me - ds_offset me <=? r) || (c <? ds_offset me) || (ds_nc me - ds_offset me <=? c))
      with false by lia.
    exact Em.
  Qed.
End XDS.

Theorem xcheck_step_local : forall thr G, cfg_wf G ->
  local (fun F r c => px_ok G (f_at F r c)) (xcheck_step thr G) (rad_xcheck G) (rad_xcheck_margin G).
Proof.
  intros thr G Hwf F F' r c r' c' HF HF' Hag [HokL HokR].
  pose proof (h0 G Hwf) as Hh.
  assert (Hsp : - dspan G <= g_dmin G /\ g_dmax G <= dspan G /\ 0 <= dspan G) by (unfold dspan, dpos, dneg; lia).
  assert (WD : rad_wf (rad_xcheck G)) by (unfold rad_wf, rad_xcheck; cbn [rho lam mu]; lia).
  pose proof (agree_centre _ F F' _ r c r' c' WD Hag) as E0.
  unfold cone_in, rad_xcheck_margin in HF, HF'. cbn [rho lam mu] in HF, HF'.
  assert (Hrow : forall d, - dspan G <= d <= dspan G -> f_at F r (c + d) = f_at F' r' (c' + d)).
  { intros d Hd. pose proof (Hag 0 d) as X. rewrite !Z.add_0_r in X. apply X.
    unfold in_cone, rad_xcheck. cbn [rho lam mu]. lia. }
  unfold xcheck_step. cbv zeta.
  rewrite !xcheck_mask_interior by (cbn [CrossCheck.ds_offset CrossCheck.ds_nr CrossCheck.ds_nc ds_left ds_right]; lia).
  cbn [CrossCheck.ds_nc CrossCheck.ds_disp CrossCheck.ds_mask CrossCheck.ds_dmin CrossCheck.ds_dmax ds_left ds_right
       CrossCheck.xcheck CrossCheck.xcheck_gen].
  rewrite (pixel_mask_local (f_nc F) (f_nc F') (fld p_dL F r) (fld p_dR F r) (fld p_dL F' r') (fld p_dR F' r')
             (fld p_fL F r) (fld p_fL F' r') thr (g_dmin G) (g_dmax G) c c').
  2:{ lia. } 2:{ lia. } 2:{ unfold fld. now rewrite E0. } 2:{ unfold fld. now rewrite E0. }
  2:{ intros d Hd. unfold fld. rewrite Hrow by lia. reflexivity. }
  2:{ exact HokL. }
  rewrite (pixel_mask_local (f_nc F) (f_nc F') (fld p_dR F r) (fld p_dL F r) (fld p_dR F' r') (fld p_dL F' r')
             (fld p_fR F r) (fld p_fR F' r') thr (- g_dmax G) (- g_dmin G) c c').
  2:{ lia. } 2:{ lia. } 2:{ unfold fld. now rewrite E0. } 2:{ unfold fld. now rewrite E0. }
  2:{ intros d Hd. unfold fld. rewrite Hrow by lia. reflexivity. }
  2:{ exact HokR. }
  rewrite E0. reflexivity.
Qed.

(* ------------------------------------------------------------------ bilateral filter: the window
   int(3 * sigma_space + 1), for ANY spatial kernel [sk] and range kernel [rk] (data of the harness) *)

Section Bilateral.
  Variables (inv B : Z) (sigma : Q) (sk : Z -> Z -> Q) (rk : Q -> Q).
  Hypothesis HB : 1 <= B.
  Let W := Qfloor (3 * sigma + 1).
  Hypothesis HW : 0 <= W.
  Let rad := W / 2.

  Lemma brad_facts : 0 <= rad /\ W <= 2 * rad + 1.
  Proof. unfold rad. split; [apply Z.div_pos; lia|]. pose proof (Z.div_mod W 2). pose proof (Z.mod_pos_bound W 2). lia. Qed.

  Lemma bilateral_interior : forall ny nx disp mask r c,
    rad <= r -> r + rad < ny -> rad <= c -> c + rad < nx ->
    fst (Filters.bilateral_filter_disparity inv B ny nx sigma sk rk disp mask) r c =
    let md := Filters.masked_data inv disp mask in
    if Filters.is_none (md r c) then disp r c
    else Filters.bilateral_at sk rk md W rad (r - rad) (c - rad).
  Proof.
    intros ny nx disp mask r c H1 H2 H3 H4. destruct brad_facts as [R0 R1].
    unfold Filters.bilateral_filter_disparity, Filters.filter_bilateral, Filters.win_width. cbv zeta. cbn [fst].
    fold W. replace (Z.min ny (Z.min nx W)) with W by lia. fold rad.
    rewrite loop2_spec by lia.
    replace ((rad <=? r) && (r <? rad + (ny - W + 1)) && (rad <=? c) && (c <? rad + (nx - W + 1))) with true
      by (symmetry; apply band_true4; lia).
    destruct (Filters.is_none (Filters.masked_data inv disp mask r c)); reflexivity.
  Qed.

  Lemma bilateral_at_local : forall (md md' : Filters.map2) r c r' c',
    (forall a b, - rad <= a <= rad -> - rad <= b <= rad -> md (r + a) (c + b) = md' (r' + a) (c' + b)) ->
    Filters.bilateral_at sk rk md W rad (r - rad) (c - rad) = Filters.bilateral_at sk rk md' W rad (r' - rad) (c' - rad).
  Proof.
    intros md md' r c r' c' H. destruct brad_facts as [R0 R1]. unfold Filters.bilateral_at.
    replace (r - rad + rad) with (r + 0) by lia. replace (c - rad + rad) with (c + 0) by lia.
    replace (r' - rad + rad) with (r' + 0) by lia. replace (c' - rad + rad) with (c' + 0) by lia.
    rewrite (H 0 0) by lia. destruct (md' (r' + 0) (c' + 0)) as [cv|]; [|reflexivity].
    f_equal. f_equal. unfold Filters.bil_terms.
    apply flat_map_ext_in. intros a Ha. apply flat_map_ext_in. intros b Hb.
    apply In_arr_zrange in Ha. apply In_arr_zrange in Hb.
    replace (r - rad + a) with (r + (a - rad)) by lia. replace (c - rad + b) with (c + (b - rad)) by lia.
    replace (r' - rad + a) with (r' + (a - rad)) by lia. replace (c' - rad + b) with (c' + (b - rad)) by lia.
    rewrite H by lia. reflexivity.
  Qed.

  Lemma bilateral_map_local : forall ny nx ny' nx' disp mask disp' mask' r c r' c',
    rad <= r -> r + rad < ny -> rad <= c -> c + rad < nx ->
    rad <= r' -> r' + rad < ny' -> rad <= c' -> c' + rad < nx' ->
    (forall a b, - rad <= a <= rad -> - rad <= b <= rad ->
       disp (r + a) (c + b) = disp' (r' + a) (c' + b) /\ mask (r + a) (c + b) = mask' (r' + a) (c' + b)) ->
    fst (Filters.bilateral_filter_disparity inv B ny nx sigma sk rk disp mask) r c
    = fst (Filters.bilateral_filter_disparity inv B ny' nx' sigma sk rk disp' mask') r' c'.
  Proof.
    intros ny nx ny' nx' disp mask disp' mask' r c r' c' H1 H2 H3 H4 H1' H2' H3' H4' Hag.
    destruct brad_facts as [R0 R1].
    rewrite !bilateral_interior by assumption. cbv zeta.
    assert (Emd : forall a b, - rad <= a <= rad -> - rad <= b <= rad ->
              Filters.masked_data inv disp mask (r + a) (c + b) = Filters.masked_data inv disp' mask' (r' + a) (c' + b)).
    { intros a b Ha Hb. unfold Filters.masked_data. destruct (Hag a b Ha Hb) as [-> ->]. reflexivity. }
    pose proof (Emd 0 0 ltac:(lia) ltac:(lia)) as E0. rewrite !Z.add_0_r in E0.
    destruct (Hag 0 0 ltac:(lia) ltac:(lia)) as [D0 _]. rewrite !Z.add_0_r in D0.
    rewrite E0, D0, (bilateral_at_local _ _ r c r' c' Emd). reflexivity.
  Qed.

  Theorem bilateral_step_local :
    local no_side (bilateral_step inv B sigma sk rk) (rad_filter W) (rad_filter W).
  Proof.
    intros F G r c r' c' HF HG Hag _. destruct brad_facts as [R0 R1].
    assert (Wf : rad_wf (rad_filter W)) by (unfold rad_wf, rad_filter; cbn [rho lam mu]; fold rad; lia).
    pose proof (agree_centre _ F G _ r c r' c' Wf Hag) as E.
    unfold cone_in, rad_filter in HF, HG. cbn [rho lam mu] in HF, HG. fold rad in HF, HG.
    assert (Hcone : forall a b, - rad <= a <= rad -> - rad <= b <= rad -> in_cone (rad_filter W) a b).
    { intros a b Ha Hb. unfold in_cone, rad_filter. cbn [rho lam mu]. fold rad. lia. }
    unfold bilateral_step. cbv zeta.
    rewrite (bilateral_map_local (f_nr F) (f_nc F) (f_nr G) (f_nc G) (fld p_dL F) (fld p_fL F) (fld p_dL G) (fld p_fL G)
               r c r' c'); try lia.
    2:{ intros a b Ha Hb. unfold fld. rewrite (Hag a b (Hcone a b Ha Hb)). split; reflexivity. }
    rewrite (bilateral_map_local (f_nr F) (f_nc F) (f_nr G) (f_nc G) (fld p_dR F) (fld p_fR F) (fld p_dR G) (fld p_fR G)
               r c r' c'); try lia.
    2:{ intros a b Ha Hb. unfold fld. rewrite (Hag a b (Hcone a b Ha Hb)). split; reflexivity. }
    rewrite E. reflexivity.
  Qed.
End Bilateral.

(* ------------------------------------------------------------------ pipelines *)

Definition env_wf (V : env) : Prop := cfg_wf (e_cfg V) /\ 1 <= e_bwta V /\ 1 <= e_bmed V /\ 1 <= e_bbil V.
Definition step_wf (G : cfg) (s : step) : Prop :=
  match s with
  | SMc m => meas_wf G m
  | SCbca dist _ => 1 <= dist
  | SMedian w => 0 <= w
  | SBilateral sigma _ _ => 0 <= bil_win sigma
  | _ => True
  end.

Lemma step_rad_wf : forall G s, cfg_wf G -> step_wf G s ->
  rad_wf (step_S G s) /\ rad_wf (step_I G s) /\ rad_wf (step_M G s).
Proof.
  intros G s Hwf Hs. pose proof (h0 G Hwf) as Hh.
  assert (0 <= dspan G) by (unfold dspan, dpos, dneg; lia).
  destruct s; unfold step_S, step_I, step_M; cbn [forget kstep_S kstep_I kstep_M step_wf] in *;
    unfold rad_wf, rad_mc, rad0, rad_filter, rad_xcheck, rad_xcheck_margin, rad_cbca_S, rad_cbca_I, rad_cbca_M, cbca_arm;
    cbn [rho lam mu]; lia.
Qed.

(* no step rewrites the images *)
Lemma step_keeps : forall V s, keeps img_of (step_op V s).
Proof. intros V s F r c. destruct s; reflexivity. Qed.

Lemma step_local : forall V s, env_wf V -> step_wf (e_cfg V) s ->
  local2 img_of (step_side (e_cfg V) s) (step_op V s) (step_S (e_cfg V) s) (step_I (e_cfg V) s) (step_M (e_cfg V) s).
Proof.
  intros V s (Hc & Hb1 & Hb2 & Hb3) Hs.
  destruct s; unfold step_S, step_I, step_M; cbn [step_side step_op forget kstep_S kstep_I kstep_M step_wf] in *.
  - apply mc_step_local; assumption.
  - apply cbca_step_local; assumption.
  - apply local_local2. apply wta_step_local; assumption.
  - apply local_local2. apply refine_step_local.
  - apply local_local2. apply median_step_local; assumption.
  - apply local_local2. apply bilateral_step_local; assumption.
  - apply local_local2. apply xcheck_step_local; assumption.
Qed.

Lemma pipe_chain : forall V steps, env_wf V -> Forall (step_wf (e_cfg V)) steps ->
  chain2 img_of (pipe_side V steps) (map (step_op V) steps)
    (r3_S (pipe_rad3 (e_cfg V) steps)) (r3_I (pipe_rad3 (e_cfg V) steps)) (r3_M (pipe_rad3 (e_cfg V) steps)).
Proof.
  intros V steps HV. induction 1 as [|s rest Hs Hrest IH].
  - cbn. constructor.
  - cbn [map pipe_side]. unfold pipe_rad3 in *. cbn [map kpipe_rad3].
    destruct (kpipe_rad3 (e_cfg V) (map forget rest)) as [[DSs DIs] Ms] eqn:Er. unfold r3_S, r3_I, r3_M in *. cbn [fst snd] in *.
    destruct (step_rad_wf (e_cfg V) s (proj1 HV) Hs) as (W1 & W2 & W3).
    apply (chain2_cons img_of (step_side (e_cfg V) s) (step_op V s) (step_S (e_cfg V) s) (step_I (e_cfg V) s) (step_M (e_cfg V) s));
      try assumption.
    + apply step_keeps.
    + apply step_local; assumption.
Qed.

(* MAIN: every pipeline of local steps is local, in the two-cone sense ... *)
Theorem pipe_local2 : forall V steps, env_wf V -> Forall (step_wf (e_cfg V)) steps ->
  local2 img_of (pipe_side V steps) (run_pipe (map (step_op V) steps))
    (r3_S (pipe_rad3 (e_cfg V) steps)) (r3_I (pipe_rad3 (e_cfg V) steps)) (r3_M (pipe_rad3 (e_cfg V) steps)).
Proof. intros. apply pipeline_local2. apply pipe_chain; assumption. Qed.

(* ... hence a function of the data of ONE cone, the larger of the two *)
Theorem pipe_local : forall V steps, env_wf V -> Forall (step_wf (e_cfg V)) steps ->
  local (pipe_side V steps) (run_pipe (map (step_op V) steps))
        (fst (pipe_rad (e_cfg V) steps)) (snd (pipe_rad (e_cfg V) steps)).
Proof.
  intros V steps HV Hs. unfold pipe_rad, kpipe_rad. cbn [fst snd].
  apply (local2_local _ _ _ img_of). apply pipe_local2; assumption.
Qed.

Lemma pipe_rad_forget : forall G steps, pipe_rad G steps = kpipe_rad G (map forget steps).
Proof. reflexivity. Qed.
