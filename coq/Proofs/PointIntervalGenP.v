(* Per-run obligations on Gen/PointInterval.v (the index arithmetic of the matching-cost step, REGENERATED from
   pandora/matching_cost/{matching_cost,sad_ssd,census,zncc}.py by translator/gen_point_interval.py at every run):
   the generated definitions equal the corresponding pieces of the hand-written model Model/MatchingCost.v, for
   every subpix s > 0, every width and every (scaled) disparity; the headline facts of C02 / C09 about the index
   arithmetic are then restated on the generated definitions.

   The proof scripts do not mention the names of the Python locals: renaming a local in the source regenerates a
   different text with the same meaning and these proofs still go through (so do two semantically neutral rewrites
   that were tried: `if disp <= 0` in point_interval, `window_size - 1` for `int(window_size / 2) * 2` in zncc);
   changing the arithmetic (floor for ceil, <= for < in the interval test, a dropped clamp, dsp computed from
   dmax, the wrong fraction, the wrong written range ...) makes an equality below false and the script fails.

   First part: the scaled-integer operations of Model/PyArith.v are the operations of Q / Qround on x = X / s. *)
From Coq Require Import ZArith List Bool Lia QArith Qround.
From Pandora Require Import Model.PyArith Model.MatchingCost Spec.Cost Proofs.MatchingCostP.
From Pandora Require Gen.PointInterval.
Open Scope Z_scope.

Module G := Pandora.Gen.PointInterval.

(* ------------------------------------------------------------------ PyArith against Q *)

Definition qreal (s : positive) (X : Z) : Q := X # s.
(* Python int() of a float: truncation towards zero *)
Definition Qtrunc (q : Q) : Z := if Qlt_le_dec q 0 then Qceiling q else Qfloor q.

Lemma py_real_sound : forall s n, (qreal s (py_real (Zpos s) n) == inject_Z n)%Q.
Proof. intros. unfold qreal, py_real, Qeq. cbn [Qnum Qden inject_Z]. lia. Qed.

Lemma py_floor_sound : forall s X, py_floor (Zpos s) X = Qfloor (qreal s X).
Proof. reflexivity. Qed.

Lemma py_ceil_sound : forall s X, py_ceil (Zpos s) X = Qceiling (qreal s X).
Proof. reflexivity. Qed.

Lemma py_int_sound : forall s X, py_int (Zpos s) X = Qtrunc (qreal s X).
Proof.
  intros s X. unfold py_int, Qtrunc. destruct (Qlt_le_dec (qreal s X) 0) as [H|H].
  - unfold Qlt, qreal in H. cbn [Qnum Qden] in H. unfold Qceiling, Qfloor, qreal. cbn [Qopp Qnum Qden].
    rewrite <- (Z.opp_involutive X) at 1. rewrite Z.quot_opp_l by lia. rewrite Z.quot_div_nonneg by lia. reflexivity.
  - unfold Qle, qreal in H. cbn [Qnum Qden] in H. unfold Qfloor, qreal.
    rewrite Z.quot_div_nonneg by lia. reflexivity.
Qed.

(* x % y for y > 0: x - y * floor(x / y) *)
Lemma py_mod_sound : forall s X Y, 0 < Y ->
  (qreal s (py_mod X Y) == qreal s X - qreal s Y * inject_Z (Qfloor (qreal s X / qreal s Y)))%Q.
Proof.
  intros s X Y HY. unfold py_mod.
  assert (E : Qfloor (qreal s X / qreal s Y) = X / Y).
  { unfold qreal. destruct Y as [|y|y]; try lia. unfold Qdiv, Qinv. cbn [Qnum Qden].
    unfold Qmult, Qfloor. cbn [Qnum Qden]. rewrite Pos2Z.inj_mul.
    rewrite (Z.mul_comm (Zpos s) (Zpos y)). rewrite Z.div_mul_cancel_r by lia. reflexivity. }
  rewrite E. unfold qreal, Qeq, Qminus, Qplus, Qopp, Qmult, inject_Z. cbn [Qnum Qden].
  pose proof (Z.div_mod X Y ltac:(lia)) as DM. rewrite Pos2Z.inj_mul. nia.
Qed.

Lemma py_mul_ri_sound : forall s X n, (qreal s (py_mul_ri X n) == qreal s X * inject_Z n)%Q.
Proof. intros. unfold qreal, py_mul_ri, Qeq, Qmult, inject_Z. cbn [Qnum Qden]. lia. Qed.

(* sum, difference, comparison, max, min of two reals with the same denominator *)
Lemma py_add_sub_sound : forall s X Y,
  (qreal s (X + Y) == qreal s X + qreal s Y)%Q /\ (qreal s (X - Y) == qreal s X - qreal s Y)%Q.
Proof. intros. unfold qreal, Qeq, Qminus, Qplus, Qopp. cbn [Qnum Qden]. split; nia. Qed.

Lemma py_lt_sound : forall s X Y, X < Y <-> (qreal s X < qreal s Y)%Q.
Proof. intros. unfold qreal, Qlt. cbn [Qnum Qden]. nia. Qed.

Lemma py_int_div_sound : forall a b : Z, 0 < b -> py_int_div a b = Qtrunc (inject_Z a / inject_Z b).
Proof.
  intros a b Hb. destruct b as [|b|b]; try lia.
  replace (inject_Z a / inject_Z (Zpos b))%Q with (qreal b a).
  - rewrite <- py_int_sound. reflexivity.
  - unfold qreal, Qdiv, Qinv, Qmult, inject_Z. cbn [Qnum Qden]. rewrite Z.mul_1_r. reflexivity.
Qed.

(* ------------------------------------------------------------------ generated = model *)

(* The first script is the structural one (same test, same rounding in each branch).  The second one covers a
   test that differs from the model's at disp = 0 only (`disp <= 0`): there the four bounds are whole numbers and
   ceil = floor. *)
Lemma ceil_floor_whole : forall n s, 0 < s -> - (- (n * s) / s) = n * s / s.
Proof. intros n s Hs. rewrite <- Z.mul_opp_l, !Z.div_mul by lia. lia. Qed.

Lemma gen_point_interval_eq : forall s nxl nxr D, 0 < s ->
  G.point_interval s nxl nxr D = MatchingCost.point_interval s nxl nxr D.
Proof.
  intros s nxl nxr D Hs. unfold G.point_interval, MatchingCost.point_interval.
  unfold py_real, py_ceil, py_floor, ceil_div, floor_div. cbv zeta. rewrite !Z.mul_0_l.
  first
    [ destruct (D <? 0); reflexivity
    | destruct (Z.eq_dec D 0) as [E|NE];
      [ subst D;
        repeat match goal with
               | |- context [if ?b then _ else _] => let v := eval vm_compute in b in change b with v; cbv iota
               end;
        cbn [fst snd]; cbv beta; rewrite ?Z.sub_0_r, ?Z.add_0_r, ?Z.max_id, ?Z.min_id; change (- 0) with 0;
        rewrite ?(ceil_floor_whole _ s Hs); rewrite ?Z.div_0_l by lia; reflexivity
      | repeat match goal with
               | |- context [?a <? ?b] => destruct (Z.ltb_spec a b); try lia
               | |- context [?a <=? ?b] => destruct (Z.leb_spec a b); try lia
               | |- context [?a >? ?b] => rewrite (Z.gtb_ltb a b)
               | |- context [?a >=? ?b] => rewrite (Z.geb_leb a b)
               end; reflexivity ] ].
Qed.

(* int((disp % 1) * subpix) *)
Lemma gen_i_right_expr : forall s D, 0 < s -> py_int s (py_mul_ri (py_mod D (py_real s 1)) s) = i_right s D.
Proof.
  intros s D Hs. unfold py_int, py_mul_ri, py_mod, py_real, i_right. rewrite Z.mul_1_l.
  apply Z.quot_mul. lia.
Qed.

(* int((disp - dmin) * subpix) *)
Lemma gen_dsp_expr : forall s dmin D, 0 < s -> py_int s (py_mul_ri (D - py_real s dmin) s) = dsp_index s dmin D.
Proof.
  intros s dmin D Hs. unfold py_int, py_mul_ri, py_real, dsp_index. apply Z.quot_mul. lia.
Qed.

Lemma gen_get_min_max_from_grid_eq : forall ny nx g h,
  G.get_min_max_from_grid ny nx g h = (grid_min ny nx g, grid_max ny nx h).
Proof. reflexivity. Qed.

(* one iteration of the first loop of cv_masked: the shifted image, the two ranges, the right mask and the plane
   are those of [mask_step], with dmin the minimum of the minimum grid *)
Lemma gen_cv_masked_loop_eq : forall s ny nx g h nxl nxr D, 0 < s ->
  G.cv_masked_loop s ny nx g h nxl nxr D =
  (i_right s D, MatchingCost.point_interval s nxl (nxr (i_right s D)) D, Z.min 1 (i_right s D),
   dsp_index s (grid_min ny nx g) D).
Proof.
  intros s ny nx g h nxl nxr D Hs. unfold G.cv_masked_loop. rewrite gen_get_min_max_from_grid_eq.
  cbv zeta. rewrite (gen_i_right_expr s D Hs), (gen_point_interval_eq _ _ _ _ Hs), (gen_dsp_expr _ _ _ Hs).
  destruct (MatchingCost.point_interval s nxl (nxr (i_right s D)) D) as [pp qq]. reflexivity.
Qed.

(* the test of the second loop of cv_masked is the one of [mask_interval]: the sample lies outside the
   [min, max] of the pixel *)
Lemma gen_out_of_range_eq : forall s g h r c D,
  G.cv_masked_out_of_range s g h r c D = (D <? g r c * s) || (h r c * s <? D).
Proof. intros. unfold G.cv_masked_out_of_range, py_real. rewrite Z.gtb_ltb. reflexivity. Qed.

Lemma gen_out_of_range_spec : forall s g h r c D,
  G.cv_masked_out_of_range s g h r c D = negb (in_interval s g h r c D).
Proof. intros. rewrite gen_out_of_range_eq. unfold in_interval. lia. Qed.

(* one iteration of the loops of SadSsd / Census / Zncc.compute_cost_volume: the shifted image and the ranges are
   those of [pixel_wise_plane] / [census_plane] / [zncc_plane]; the columns written are the left range *)
Lemma gen_sad_ssd_loop_eq : forall s nxl nxr D, 0 < s ->
  G.sad_ssd_loop s nxl nxr D =
  let pq := MatchingCost.point_interval s nxl (nxr (i_right s D)) D in (i_right s D, pq, fst pq).
Proof.
  intros s nxl nxr D Hs. unfold G.sad_ssd_loop. cbv zeta.
  rewrite (gen_i_right_expr s D Hs), (gen_point_interval_eq _ _ _ _ Hs).
  destruct (MatchingCost.point_interval s nxl (nxr (i_right s D)) D) as [[p0 p1] qq]. reflexivity.
Qed.

Lemma gen_census_loop_eq : forall s nxl nxr D, 0 < s ->
  G.census_loop s nxl nxr D =
  let pq := MatchingCost.point_interval s nxl (nxr (i_right s D)) D in (i_right s D, pq, fst pq).
Proof.
  intros s nxl nxr D Hs. unfold G.census_loop. cbv zeta.
  rewrite (gen_i_right_expr s D Hs), (gen_point_interval_eq _ _ _ _ Hs).
  destruct (MatchingCost.point_interval s nxl (nxr (i_right s D)) D) as [[p0 p1] qq]. reflexivity.
Qed.

Lemma odd_half : forall w, 0 < w -> Z.odd w = true -> py_int_div w 2 * 2 = 2 * offset w.
Proof.
  intros w Hw Ho. unfold py_int_div, offset. rewrite Z.quot_div_nonneg by lia.
  rewrite Zodd_mod in Ho. apply Zeq_bool_eq in Ho.
  pose proof (Z.div_mod w 2 ltac:(lia)). pose proof (Z.div_mod (w - 1) 2 ltac:(lia)).
  pose proof (Z.mod_pos_bound (w - 1) 2 ltac:(lia)). lia.
Qed.

(* zncc: the columns written stop 2 * offset before the end of the left range (never before its start): the
   p_std of [zncc_plane] *)
Lemma gen_zncc_loop_eq : forall s w nxl nxr D, 0 < s -> 0 < w -> Z.odd w = true ->
  G.zncc_loop s w nxl nxr D =
  let pq := MatchingCost.point_interval s nxl (nxr (i_right s D)) D in
  let p0 := fst (fst pq) in let p1 := snd (fst pq) in let q0 := fst (snd pq) in let q1 := snd (snd pq) in
  let off := offset w in
  (i_right s D, pq, (p0, Z.max p0 (p1 - 2 * off)),
   ((p0, Z.max p0 (p1 - 2 * off)), (q0, Z.max q0 (q1 - 2 * off)))).
Proof.
  intros s w nxl nxr D Hs Hw Ho. unfold G.zncc_loop. cbv zeta.
  rewrite (gen_i_right_expr s D Hs), (gen_point_interval_eq _ _ _ _ Hs).
  (* twice the half window, however the source writes it: int(w / 2) * 2 = 2 * offset = w - 1 for an odd w *)
  pose proof (odd_half w Hw Ho) as E1.
  assert (E2 : 2 * offset w = w - 1).
  { unfold offset. rewrite Zodd_mod in Ho. apply Zeq_bool_eq in Ho.
    pose proof (Z.div_mod w 2 ltac:(lia)). pose proof (Z.div_mod (w - 1) 2 ltac:(lia)).
    pose proof (Z.mod_pos_bound (w - 1) 2 ltac:(lia)). lia. }
  destruct (MatchingCost.point_interval s nxl (nxr (i_right s D)) D) as [[p0 p1] [q0 q1]]. cbn [fst snd].
  repeat (f_equal; try lia).
Qed.

(* on which images point_interval is called: the images themselves for sad / ssd / zncc, the census transforms
   (nx - 2 * offset columns) for census *)
Lemma gen_loops_on_transformed :
  G.sad_ssd_loop_on_transformed = (false, false) /\ G.census_loop_on_transformed = (true, true)
  /\ G.zncc_loop_on_transformed = (false, false).
Proof. repeat split; reflexivity. Qed.

(* ------------------------------------------------------------------ headline facts on the generated definitions *)

(* the statement of C02_point_interval_spec for a triple (i_right, (point_p, point_q), written columns) *)
Definition loop_spec (s nx D c : Z) (res : Z * ((Z * Z) * (Z * Z)) * (Z * Z)) : Prop :=
  let '(i, pq, wr) := res in
  i = D mod s /\ 0 <= i < s
  /\ wr = fst pq
  /\ (fst (fst pq) <= c < snd (fst pq) <-> 0 <= c + D / s /\ c + - ((- D) / s) <= nx - 1)
  /\ fst (snd pq) - fst (fst pq) = D / s
  /\ snd (fst pq) - fst (fst pq) = snd (snd pq) - fst (snd pq)
  /\ 0 <= fst (fst pq) /\ snd (fst pq) <= Z.max (fst (fst pq)) nx /\ 0 <= fst (snd pq).

Lemma loop_spec_model : forall s nx D c, 0 < s -> 0 <= c < nx ->
  loop_spec s nx D c
    (let pq := MatchingCost.point_interval s nx (shift_width nx (i_right s D)) D in (i_right s D, pq, fst pq)).
Proof.
  intros s nx D c Hs Hc. cbv zeta. unfold loop_spec.
  split; [reflexivity|]. split; [unfold i_right; apply Z.mod_pos_bound; exact Hs|]. split; [reflexivity|].
  split; [exact (pi_spec s nx D Hs c Hc)|]. split; [exact (pi_offset s nx D Hs)|].
  split; [exact (pi_same_length s nx D Hs)|]. exact (pi_bounds s nx D Hs).
Qed.

Lemma gen_point_interval_spec : forall s nx D c, 0 < s -> 0 <= c < nx ->
  loop_spec s nx D c (G.sad_ssd_loop s nx (shift_width nx) D)
  /\ loop_spec s nx D c (G.census_loop s nx (shift_width nx) D).
Proof.
  intros s nx D c Hs Hc. rewrite (gen_sad_ssd_loop_eq _ _ _ _ Hs), (gen_census_loop_eq _ _ _ _ Hs).
  split; apply loop_spec_model; assumption.
Qed.

Lemma gen_zncc_loop_spec : forall s w nx D c, 0 < s -> 0 < w -> Z.odd w = true -> 0 <= c < nx ->
  let '(i, pq, wr, std) := G.zncc_loop s w nx (shift_width nx) D in
  loop_spec s nx D c (i, pq, fst pq)
  /\ fst wr = fst (fst pq) /\ wr = fst std
  /\ (fst wr <= c < snd wr <-> fst (fst pq) <= c /\ c + 2 * offset w < snd (fst pq))
  /\ fst (snd std) = fst (snd pq)
  /\ snd (fst std) - fst (fst std) = snd (snd std) - fst (snd std).
Proof.
  intros s w nx D c Hs Hw Ho Hc. rewrite (gen_zncc_loop_eq _ _ _ _ _ Hs Hw Ho). cbv zeta.
  pose proof (loop_spec_model s nx D c Hs Hc) as L. cbv zeta in L.
  split; [exact L|]. unfold loop_spec in L.
  destruct (MatchingCost.point_interval s nx (shift_width nx (i_right s D)) D) as [[p0 p1] [q0 q1]].
  cbn [fst snd] in *. assert (0 <= offset w) by (unfold offset; apply Z.div_pos; lia).
  repeat split; try reflexivity; lia.
Qed.

Lemma gen_cv_masked_loop_spec : forall s ny nx g h k c, 0 < s -> 0 <= c < nx ->
  let dmin := grid_min ny nx g in
  let D := disp_scaled s dmin k in
  let '(i, pq, im, dsp) := G.cv_masked_loop s ny nx g h nx (shift_width nx) D in
  dsp = k
  /\ loop_spec s nx D c (i, pq, fst pq)
  /\ (im = 0 <-> D mod s = 0) /\ (im = 1 <-> D mod s <> 0).
Proof.
  intros s ny nx g h k c Hs Hc. cbv zeta. rewrite (gen_cv_masked_loop_eq _ _ _ _ _ _ _ _ Hs).
  split; [unfold dsp_index, disp_scaled; ring|].
  split; [apply (loop_spec_model s nx _ c Hs Hc)|].
  unfold i_right. pose proof (Z.mod_pos_bound (disp_scaled s (grid_min ny nx g) k) s Hs). lia.
Qed.

(* Per-pixel bounds that are not whole pixels (the grids the multiscale step derives from refined disparities, float
   grid files).  The generated test compares two reals; read with the unit 1/(4 s) pixel (scale argument 1, the
   sample D/s written 4 D, a quarter-pixel bound q/4 written q s) it decides the quarter-pixel grids: the cost is
   removed exactly when the sample is outside [gq/4, hq/4] as rationals ... *)
Lemma gen_interval_test_quarter : forall s gq hq r c D, 0 < s ->
  G.cv_masked_out_of_range 1 (fun r c => gq r c * s) (fun r c => hq r c * s) r c (4 * D) = true
  <-> (Qlt (D # Z.to_pos s) (gq r c # 4) \/ Qlt (hq r c # 4) (D # Z.to_pos s)).
Proof.
  intros s gq hq r c D Hs. rewrite gen_out_of_range_eq. unfold Qlt. cbn [Qnum Qden].
  rewrite Z2Pos.id by exact Hs. rewrite orb_true_iff, !Z.ltb_lt. lia.
Qed.

(* ... hence the samples kept at a pixel are those from the CEILING of the lower bound to the FLOOR of the upper
   bound (in samples): a lower bound is never rounded down *)
Lemma gen_interval_kept_quarter : forall s gq hq r c D, 0 < s ->
  G.cv_masked_out_of_range 1 (fun r c => gq r c * s) (fun r c => hq r c * s) r c (4 * D) = false
  <-> - ((- (gq r c * s)) / 4) <= D <= (hq r c * s) / 4.
Proof.
  intros s gq hq r c D Hs. rewrite gen_out_of_range_eq. rewrite orb_false_iff, !Z.ltb_ge.
  pose proof (Z.div_mod (- (gq r c * s)) 4 ltac:(lia)) as E1.
  pose proof (Z.mod_pos_bound (- (gq r c * s)) 4 ltac:(lia)) as B1.
  pose proof (Z.div_mod (hq r c * s) 4 ltac:(lia)) as E2.
  pose proof (Z.mod_pos_bound (hq r c * s) 4 ltac:(lia)) as B2.
  lia.
Qed.

(* whole-pixel bounds (q = 4 g) read in the finer unit give the test of the model's unit *)
Lemma gen_interval_test_quarter_whole : forall s g h r c D, 0 < s ->
  G.cv_masked_out_of_range 1 (fun r c => 4 * g r c * s) (fun r c => 4 * h r c * s) r c (4 * D)
  = G.cv_masked_out_of_range s g h r c D.
Proof.
  intros s g h r c D Hs. rewrite !gen_out_of_range_eq.
  destruct (D <? g r c * s) eqn:A, (h r c * s <? D) eqn:B,
           (4 * D <? 4 * g r c * s * 1) eqn:A', (4 * h r c * s * 1 <? 4 * D) eqn:B'; try reflexivity;
    rewrite ?Z.ltb_lt, ?Z.ltb_ge in *; lia.
Qed.

Lemma gen_interval_test_quarter_all : forall s gq hq r c D, 0 < s ->
  (G.cv_masked_out_of_range 1 (fun r c => gq r c * s) (fun r c => hq r c * s) r c (4 * D) = true
   <-> (Qlt (D # Z.to_pos s) (gq r c # 4) \/ Qlt (hq r c # 4) (D # Z.to_pos s)))
  /\ (G.cv_masked_out_of_range 1 (fun r c => gq r c * s) (fun r c => hq r c * s) r c (4 * D) = false
      <-> - ((- (gq r c * s)) / 4) <= D <= (hq r c * s) / 4)
  /\ (forall g h, G.cv_masked_out_of_range 1 (fun r c => 4 * g r c * s) (fun r c => 4 * h r c * s) r c (4 * D)
                  = G.cv_masked_out_of_range s g h r c D).
Proof.
  intros s gq hq r c D Hs. split; [|split].
  - apply gen_interval_test_quarter; exact Hs.
  - apply gen_interval_kept_quarter; exact Hs.
  - intros g h. apply gen_interval_test_quarter_whole; exact Hs.
Qed.

(* ---- the reported maximal cost of sad / ssd (Gen/PointInterval.v sad_cmax / ssd_cmax, regenerated): the integer part
   is taken of the PRODUCT (largest radiometric difference, squared for ssd, times the window area), for every
   radiometric unit 1/u; on whole radiometry (u = 1) it is the model's cmax *)
Lemma gen_cmax_eq : forall u maxl minl maxr minr w,
  G.sad_cmax u maxl minl maxr minr w
  = Z.quot (Z.max (Z.abs (maxl - minr)) (Z.abs (maxr - minl)) * (w * w)) u
  /\ G.ssd_cmax u maxl minl maxr minr w
     = Z.quot (Z.max ((maxl - minr) * (maxl - minr)) ((maxr - minl) * (maxr - minl)) * (w * w)) (u * u).
Proof.
  intros. unfold G.sad_cmax, G.ssd_cmax. rewrite !Z.pow_2_r, Z.pow_1_r, !Z.abs_square. split; reflexivity.
Qed.

Lemma gen_cmax_model : forall inp,
  let minl := img_fold Z.min (i_ny inp) (i_nx inp) (i_L inp) in
  let maxl := img_fold Z.max (i_ny inp) (i_nx inp) (i_L inp) in
  let minr := img_fold Z.min (i_ny inp) (i_nx inp) (i_R inp) in
  let maxr := img_fold Z.max (i_ny inp) (i_nx inp) (i_R inp) in
  G.sad_cmax 1 maxl minl maxr minr (i_w inp) = cmax Sad inp
  /\ G.ssd_cmax 1 maxl minl maxr minr (i_w inp) = cmax Ssd inp.
Proof.
  intros inp minl maxl minr maxr.
  destruct (gen_cmax_eq 1 maxl minl maxr minr (i_w inp)) as [A B]. rewrite A, B.
  change (1 * 1) with 1. rewrite !Z.quot_1_r. unfold cmax. split; reflexivity.
Qed.

(* radiometry in multiples of 1/u (u > 0): the reported cmax is the integer part of (the cmax of the integer images
   u * image) / u for sad, / u^2 for ssd *)
Lemma gen_cmax_homogeneous : forall u maxl minl maxr minr w, 0 < u ->
  G.sad_cmax u maxl minl maxr minr w = G.sad_cmax 1 maxl minl maxr minr w / u
  /\ G.ssd_cmax u maxl minl maxr minr w = G.ssd_cmax 1 maxl minl maxr minr w / (u * u).
Proof.
  intros u maxl minl maxr minr w Hu.
  destruct (gen_cmax_eq u maxl minl maxr minr w) as [A B]. destruct (gen_cmax_eq 1 maxl minl maxr minr w) as [A1 B1].
  rewrite A, B, A1, B1. change (1 * 1) with 1. rewrite !Z.quot_1_r.
  split; apply Z.quot_div_nonneg; try lia.
  - apply Z.mul_nonneg_nonneg; [lia | apply Z.square_nonneg].
  - apply Z.mul_nonneg_nonneg; [|apply Z.square_nonneg].
    pose proof (Z.square_nonneg (maxl - minr)). lia.
Qed.
