(* C19 (b): what the run writes into the configuration keeps it accepted.
   cost_volume_confidence_run stores the suffix of the step name under `indicator`.  For every
   class whose schema takes ANY string under `indicator` (boolean test [indicator_free] on the
   regenerated classes), replacing the value of `indicator` in a completed, accepted step by
   another string gives a step that check_conf accepts and returns unchanged. *)
From Coq Require Import ZArith List Bool String Lia.
From Pandora Require Import Model.Json Model.Checker Model.Pipeline Model.SavedCfg
  Proofs.CheckerP Proofs.SavedCfgP Proofs.RewriteP.
Import ListNotations.
Open Scope string_scope.
Open Scope list_scope.

Definition ind : string := "indicator".

(* sufficient syntactic condition for "accepts every str" *)
Fixpoint any_str (s : schema) : bool :=
  match s with
  | SType TyStr => true
  | SFun (BConst b) => b
  | SFun (BIsInst TyStr) => true
  | SAnd l => (fix all (l : list schema) : bool := match l with [] => true | x :: r => any_str x && all r end) l
  | _ => false
  end.

Lemma any_str_sound orc : forall s, any_str s = true -> forall x, accepts orc s (JStr x) = true.
Proof.
  fix IH 1. intros [t|e|l|l|l|l] H x; cbn in H; try discriminate.
  - destruct t; try discriminate; reflexivity.
  - destruct e; try discriminate.
    + cbn. rewrite H. reflexivity.
    + destruct t; try discriminate. reflexivity.
  - cbn. induction l as [|a l IHl]; [reflexivity|].
    apply andb_prop in H as [H1 H2]. rewrite (IH a H1 x). apply IHl. exact H2.
Qed.

(* a class whose `indicator` can be rewritten: the key is not the method key, no prologue
   operation tests or converts its value, the schema requires it and takes any string *)
Definition indicator_free (c : class_def) : bool :=
  negb (String.eqb (c_method_key c) ind)
  && forallb (fun op => match op with
                        | PDefault _ _ | PNoGrids => true
                        | PDefaultOrNaN k _ | PRequireEq k _ => negb (String.eqb k ind)
                        end) (c_prologue c)
  && existsb (fun e => String.eqb (fst (fst e)) ind && negb (snd (fst e))) (c_schema c)
  && forallb (fun e => negb (String.eqb (fst (fst e)) ind) || any_str (snd e)) (c_schema c).

Definition cvc : string := "cost_volume_confidence".

(* per-run obligation: every class of the cost_volume_confidence kind is indicator_free *)
Definition confidence_wf (classes : list class_def) : bool :=
  forallb (fun c => negb (String.eqb (c_kind c) cvc) || indicator_free c) classes.

(* ------------------------------------------------------------------ association lists *)

Lemma lookup_set_key_other k k' v d : String.eqb k k' = false -> lookup k (set_key k' v d) = lookup k d.
Proof.
  intro N. induction d as [|[a b] d IH]; cbn.
  - rewrite N. reflexivity.
  - destruct (String.eqb k' a) eqn:E; cbn.
    + apply String.eqb_eq in E. subst a. rewrite N. reflexivity.
    + destruct (String.eqb k a); [reflexivity|exact IH].
Qed.

Lemma keys_set_key k v d :
  keys (set_key k v d) = if has_key k d then keys d else keys d ++ [k].
Proof.
  unfold has_key. induction d as [|[a b] d IH]; cbn; [reflexivity|].
  destruct (String.eqb k a) eqn:E; cbn; [reflexivity|].
  change (map fst (set_key k v d)) with (keys (set_key k v d)). rewrite IH.
  destruct (lookup k d); reflexivity.
Qed.

Lemma has_key_set_key k k' v d : has_key k (set_key k' v d) = has_key k d || String.eqb k k'.
Proof.
  unfold has_key. destruct (String.eqb k k') eqn:E.
  - apply String.eqb_eq in E. subst k'. rewrite lookup_set_key. rewrite orb_true_r. reflexivity.
  - rewrite (lookup_set_key_other _ _ _ _ E). rewrite orb_false_r. reflexivity.
Qed.

Lemma nodup_snoc l k : nodup_str l = true -> mem_str k l = false -> nodup_str (l ++ [k]) = true.
Proof.
  induction l as [|x l IH]; cbn; [reflexivity|].
  intros H M. apply andb_prop in H as [H1 H2]. apply orb_false_iff in M as [M1 M2].
  rewrite mem_str_app. cbn. apply negb_true_iff in H1. rewrite H1. cbn.
  rewrite orb_false_r. rewrite String.eqb_sym, M1. cbn. apply IH; assumption.
Qed.

Lemma nodup_set_key k v d : nodup_str (keys d) = true -> nodup_str (keys (set_key k v d)) = true.
Proof.
  intro N. rewrite keys_set_key. destruct (has_key k d) eqn:H; [exact N|].
  apply nodup_snoc; [exact N|]. rewrite <- has_key_mem. exact H.
Qed.

Lemma forallb_set_key (P : string * jv -> bool) k v d :
  (forall k', P (k', v) = true) -> forallb P d = true -> forallb P (set_key k v d) = true.
Proof.
  intros Pv. induction d as [|[a b] d IH]; cbn.
  - intros _. rewrite Pv. reflexivity.
  - intro H. apply andb_prop in H as [H1 H2].
    destruct (String.eqb k a); cbn; [rewrite Pv, H2; reflexivity|rewrite H1, (IH H2); reflexivity].
Qed.

Lemma flat_set_key k v d : flat d = true -> leafb v = true -> convfix v = true -> flat (set_key k v d) = true.
Proof.
  unfold flat. intros F L C. apply andb_prop in F as [F N].
  rewrite (nodup_set_key k v d N), andb_true_r.
  apply forallb_set_key; [|exact F]. intros k'. cbn. rewrite L, C. reflexivity.
Qed.

Lemma flat_clean d : flat d = true -> clean d = true.
Proof.
  unfold flat, clean. intro F. apply andb_prop in F as [F _]. apply negb_true_iff.
  induction d as [|[k v] d IH]; cbn in *; [reflexivity|].
  apply andb_prop in F as [F1 F2]. rewrite (IH F2), orb_false_r.
  apply andb_prop in F1 as [_ C]. destruct v; cbn in *; try reflexivity.
  apply negb_true_iff in C. apply orb_false_iff in C as [C _]. apply orb_false_iff in C as [C _]. exact C.
Qed.

(* ------------------------------------------------------------------ the dictionary checker, unfolded *)

Definition entry_holds (orc : string -> jv -> option bool) (d : dict) (e : string * bool * schema) : bool :=
  match lookup (fst (fst e)) d with
  | Some x => accepts orc (snd e) x
  | None => snd (fst e)
  end.

Lemma accepts_dict orc ks d :
  accepts orc (SDict ks) (JDict d)
  = forallb (entry_holds orc d) ks && forallb (fun k => mem_str k (map (fun e => fst (fst e)) ks)) (keys d).
Proof.
  cbn [accepts]. f_equal. induction ks as [|[[k o] s] r IH]; [reflexivity|].
  cbn [forallb]. rewrite <- IH. reflexivity.
Qed.

(* ------------------------------------------------------------------ prologue on a fixpoint *)

Lemma run_prologue_self_fixed g ops : forall d,
  clean d = true -> ops_clean ops = true -> run_prologue g ops d = Some d ->
  forall op, In op ops -> run_op g op d = Some d.
Proof.
  induction ops as [|o r IH]; intros d C OC R op I; [contradiction|].
  cbn [run_prologue] in R. destruct (run_op g o d) as [c1|] eqn:E; [|discriminate].
  pose proof (run_op_appends _ _ _ _ C E) as H1.
  assert (OC' := OC). cbn [ops_clean forallb] in OC'. apply andb_prop in OC' as [OC1 OC2].
  assert (C1 : clean c1 = true).
  { rewrite H1, clean_app, C. destruct (op_default o) as [[k v]|]; [|reflexivity].
    destruct (has_key k d); [reflexivity|]. unfold clean. cbn. rewrite orb_false_r, OC1. reflexivity. }
  destruct (run_prologue_appends _ _ _ _ C1 OC2 R) as [H2 _].
  assert (E1 : c1 = d).
  { rewrite H1 in H2. rewrite <- app_assoc in H2. rewrite <- (app_nil_r d) in H2 at 1.
    apply app_inv_head in H2. symmetry in H2. apply app_eq_nil in H2 as [H2 _].
    rewrite H1, H2, app_nil_r. reflexivity. }
  clear H1. subst c1. destruct I as [<-|I]; [exact E|]. exact (IH d C OC2 R op I).
Qed.

Section Indicator.
  Variable s : string.
  Notation upd := (set_key ind (JStr s)).

  Lemma has_key_upd k d : has_key ind d = true -> has_key k (upd d) = has_key k d.
  Proof.
    intro H. rewrite has_key_set_key. destruct (String.eqb k ind) eqn:E; [|apply orb_false_r].
    apply String.eqb_eq in E. subst k. rewrite H. reflexivity.
  Qed.

  Lemma length_app_self (d x : dict) : d ++ x = d -> x = [].
  Proof.
    intro H. rewrite <- (app_nil_r d) in H at 2. apply app_inv_head in H. exact H.
  Qed.

  Lemma run_op_upd g op d :
    (match op with
     | PDefault _ _ | PNoGrids => true
     | PDefaultOrNaN k _ | PRequireEq k _ => negb (String.eqb k ind)
     end) = true ->
    clean d = true -> has_key ind d = true ->
    run_op g op d = Some d -> run_op g op (upd d) = Some (upd d).
  Proof.
    intros F C HK R. destruct op as [k v|k v|k z|]; cbn [run_op] in *.
    - rewrite (has_key_upd k d HK). destruct (has_key k d); [reflexivity|].
      inversion R as [R']. apply length_app_self in R'. discriminate.
    - apply negb_true_iff in F. rewrite (lookup_set_key_other _ _ _ _ F).
      destruct (lookup k d) as [x|] eqn:L.
      + destruct x; try reflexivity. rewrite (clean_lookup _ _ _ C L). reflexivity.
      + inversion R as [R']. apply length_app_self in R'. discriminate.
    - apply negb_true_iff in F. rewrite (lookup_set_key_other _ _ _ _ F).
      destruct (lookup k d) as [x|]; [|reflexivity]. destruct (py_eq_z x z); [reflexivity|discriminate].
    - destruct g; [discriminate|reflexivity].
  Qed.

  Lemma class_check_upd g c d :
    indicator_free c = true -> clean d = true -> ops_clean (c_prologue c) = true ->
    class_check no_oracle g c d = Some d ->
    class_check no_oracle g c (upd d) = Some (upd d).
  Proof.
    unfold indicator_free, class_check. intros IF C OC H.
    apply andb_prop in IF as [IF F4]. apply andb_prop in IF as [IF F3]. apply andb_prop in IF as [_ F2].
    destruct (run_prologue g (c_prologue c) d) as [c1|] eqn:R; [|discriminate].
    destruct (accepts no_oracle (SDict (c_schema c)) (JDict c1)) eqn:A; [|discriminate].
    inversion H; subst c1. rewrite accepts_dict in A. apply andb_prop in A as [A1 A2].
    (* the key is there *)
    assert (HK : has_key ind d = true).
    { apply existsb_exists in F3 as [[[k o] s'] [I E]]. cbn in E. apply andb_prop in E as [E1 E2].
      apply String.eqb_eq in E1. subst k. apply negb_true_iff in E2. subst o.
      rewrite forallb_forall in A1. specialize (A1 _ I). unfold entry_holds in A1. cbn in A1.
      unfold has_key. destruct (lookup ind d); [reflexivity|discriminate]. }
    assert (Rn : run_prologue g (c_prologue c) (upd d) = Some (upd d)).
    { apply run_prologue_of_fixed. intros op I. rewrite forallb_forall in F2.
      apply (run_op_upd g op d (F2 op I) C HK).
      exact (run_prologue_self_fixed g _ d C OC R op I). }
    rewrite Rn. rewrite accepts_dict.
    assert (K : keys (upd d) = keys d) by (rewrite keys_set_key, HK; reflexivity).
    rewrite K, A2, andb_true_r.
    assert (A1' : forallb (entry_holds no_oracle (upd d)) (c_schema c) = true).
    { rewrite forallb_forall in *. intros e I. specialize (A1 e I). specialize (F4 e I).
      unfold entry_holds in *. destruct (String.eqb (fst (fst e)) ind) eqn:E.
      - apply String.eqb_eq in E. rewrite E, lookup_set_key. cbn in F4. apply any_str_sound. exact F4.
      - rewrite (lookup_set_key_other _ _ _ _ E). exact A1. }
    rewrite A1'. reflexivity.
  Qed.
End Indicator.

(* ------------------------------------------------------------------ steps and pipelines *)

Lemma indicator_convfix name : convfix (JStr (indicator_of name)) = true.
Proof.
  unfold indicator_of. destruct (split_dot name) as [|a [|b [|c l]]]; try reflexivity.
Qed.

Definition rw (kv : string * jv) : string * jv := (fst kv, rewrite_step (fst kv) (snd kv)).

Lemma rw_cons name d r :
  map rw ((name, JDict d) :: r)
  = (name, if String.eqb (kind_of_step name) "cost_volume_confidence"
           then JDict (set_key "indicator" (JStr (indicator_of name)) d) else JDict d) :: map rw r.
Proof. cbn [map]. unfold rw at 1. cbn [fst snd rewrite_step]. destruct (String.eqb _ _); reflexivity. Qed.

Definition steps_flat (d : dict) : bool :=
  forallb (fun kv => match snd kv with JDict s => flat s | _ => false end) d.

Section Pipe.
  Variable classes : list class_def.
  Variable interp : list string.
  Hypothesis W : classes_wf classes = true.
  Hypothesis CW : confidence_wf classes = true.

  Lemma cvc_class c : In c classes -> String.eqb (c_kind c) cvc = true -> indicator_free c = true.
  Proof.
    intros I E. unfold confidence_wf in CW. rewrite forallb_forall in CW. specialize (CW c I).
    rewrite E in CW. exact CW.
  Qed.

  Lemma step_check_upd g s d :
    clean d = true ->
    step_check no_oracle classes g cvc d = Some d ->
    step_check no_oracle classes g cvc (set_key ind (JStr s) d) = Some (set_key ind (JStr s) d).
  Proof.
    intros C H. unfold step_check, find_class in *.
    destruct (find (fun c => String.eqb (c_kind c) cvc) classes) as [c0|] eqn:F0; [|discriminate].
    pose proof (find_some _ _ F0) as [I0 E0].
    pose proof (cvc_class c0 I0 E0) as IF0.
    assert (MK : String.eqb (c_method_key c0) ind = false).
    { unfold indicator_free in IF0. apply andb_prop in IF0 as [IF0 _]. apply andb_prop in IF0 as [IF0 _].
      apply andb_prop in IF0 as [IF0 _]. apply negb_true_iff in IF0. exact IF0. }
    rewrite (lookup_set_key_other _ _ _ _ MK).
    destruct (lookup (c_method_key c0) d) as [mv|]; [|discriminate].
    destruct mv as [| | | |m| | | |]; try discriminate.
    destruct (find (fun c => String.eqb (c_kind c) cvc && mem_str m (c_names c)) classes) as [c|] eqn:Fc; [|discriminate].
    pose proof (find_some _ _ Fc) as [Ic Ec]. apply andb_prop in Ec as [Ec _].
    destruct (class_in_wf classes W c Ic) as [OC _].
    exact (class_check_upd s g c d (cvc_class c Ic Ec) C OC H).
  Qed.

  Lemma step_full_upd im s d :
    flat d = true ->
    step_full classes interp im cvc d = Some d ->
    step_full classes interp im cvc (set_key ind (JStr s) d) = Some (set_key ind (JStr s) d).
  Proof.
    intros F H. unfold step_full in *.
    change (String.eqb cvc "matching_cost") with false in *.
    change (String.eqb cvc "validation") with false in *.
    change (String.eqb cvc "filter") with false in *. cbv iota in *.
    destruct (step_check no_oracle classes (is_grid (src_left im) || is_grid (src_right im)) cvc d) as [d0|] eqn:S;
      [|discriminate].
    inversion H; subst d0.
    rewrite (step_check_upd _ s d (flat_clean d F) S). reflexivity.
  Qed.

  (* the steps as the run leaves them are accepted and returned unchanged *)
  Lemma check_steps_rw im : forall done,
    steps_flat done = true -> check_steps classes interp im done = Some done ->
    check_steps classes interp im (map rw done) = Some (map rw done).
  Proof.
    induction done as [|[name v] r IH]; intros F H; [reflexivity|].
    cbn [steps_flat forallb snd] in F. apply andb_prop in F as [F1 F2].
    cbn [check_steps] in H. destruct v as [| | | | | | | |d]; try discriminate.
    destruct (step_full classes interp im (kind_of_step name) d) as [dn|] eqn:S; [|discriminate].
    destruct (check_steps classes interp im r) as [rest|] eqn:R; [|discriminate].
    inversion H; subst dn rest. specialize (IH F2 eq_refl).
    rewrite rw_cons.
    destruct (String.eqb (kind_of_step name) "cost_volume_confidence") eqn:E.
    - apply String.eqb_eq in E. cbn [check_steps]. rewrite E in *.
      change "cost_volume_confidence" with cvc in *. change "indicator" with ind.
      rewrite (step_full_upd im _ d F1 S). rewrite IH. reflexivity.
    - cbn [check_steps]. rewrite S. rewrite IH. reflexivity.
  Qed.
End Pipe.

Lemma keys_map_rw d : keys (map rw d) = keys d.
Proof. unfold keys. rewrite map_map. reflexivity. Qed.

Lemma steps_flat_rw : forall d, steps_flat d = true -> steps_flat (map rw d) = true.
Proof.
  induction d as [|[name v] r IH]; [reflexivity|]. cbn [steps_flat forallb snd map rw fst].
  intro F. apply andb_prop in F as [F1 F2]. fold (steps_flat (map rw r)). rewrite (IH F2), andb_true_r.
  destruct v; try discriminate. cbn [rewrite_step].
  destruct (String.eqb (kind_of_step name) "cost_volume_confidence"); [|exact F1].
  apply flat_set_key; [exact F1|reflexivity|apply indicator_convfix].
Qed.

Lemma flat2_split d : flat2 d = steps_flat d && nodup_str (keys d).
Proof. reflexivity. Qed.

Lemma flat2_rw d : flat2 d = true -> flat2 (map rw d) = true.
Proof.
  rewrite !flat2_split. intro F. apply andb_prop in F as [F N].
  rewrite (steps_flat_rw d F), keys_map_rw, N. reflexivity.
Qed.

Lemma run_rewrites_form (i : jv) (done : dict) :
  run_rewrites [("input", i); ("pipeline", JDict done)] = [("input", i); ("pipeline", JDict (map rw done))].
Proof.
  unfold run_rewrites. cbn [lookup]. change ("pipeline" =? "input") with false. cbv iota.
  rewrite String.eqb_refl. cbn [set_key]. change ("pipeline" =? "input") with false. cbv iota.
  rewrite String.eqb_refl. reflexivity.
Qed.

(* ------------------------------------------------------------------ check_conf and main *)

Section MainR.
  Variable D : input_defs.
  Variable orc : string -> jv -> option bool.
  Variable grid_ok : jv -> jv -> bool.
  Variable images_ok : dict -> bool.
  Variable bands_of : jv -> list jv.
  Variable classes : list class_def.
  Variable interp : list string.
  Hypothesis W : classes_wf classes = true.
  Hypothesis CW : confidence_wf classes = true.

  Notation input_check := (input_check D orc grid_ok images_ok).
  Notation full_check := (full_check D orc grid_ok images_ok bands_of classes interp).
  Notation main_saved := (main_saved D orc grid_ok images_ok bands_of classes interp).
  Notation replay_guard := (replay_guard D orc grid_ok images_ok bands_of classes interp).

  (* as SavedCfgP.full_check_form, keeping the facts about the completed steps *)
  Lemma full_check_form2 user cfg :
    full_check user = Some cfg -> replay_guard user = true ->
    exists l r done im,
      cfg = [("input", JDict [("left", JDict l); ("right", JDict r)]); ("pipeline", JDict done)]
      /\ input_check [("input", JDict [("left", JDict l); ("right", JDict r)])]
         = Some [("input", JDict [("left", JDict l); ("right", JDict r)])]
      /\ images_of bands_of [("input", JDict [("left", JDict l); ("right", JDict r)])] = Some im
      /\ flat2 done = true
      /\ check_steps classes interp im done = Some done
      /\ (has_validation done = true -> check_steps classes interp (swap_images im) done = Some done).
  Proof.
    unfold SavedCfg.full_check, SavedCfgP.replay_guard.
    destruct (input_check (section_of "input" user)) as [cfg_in|] eqn:Ic; [|discriminate].
    destruct (images_of bands_of cfg_in) as [im|] eqn:Im; [|discriminate].
    destruct (pipeline_check classes interp im (section_of "pipeline" user)) as [cfg_p|] eqn:Pc; [|discriminate].
    intros H G. apply andb_prop in G as [Sh Pg].
    destruct (input_shape_form _ _ Sh) as [l [r El]]. subst cfg_in.
    destruct (pipeline_check_out classes interp W im _ cfg_p Pc Pg) as [done [Ep [F [Fx Sw]]]]. subst cfg_p.
    exists l, r, done, im. split.
    - inversion H. unfold concat_conf. cbn [fold_left fst snd set_key].
      change ("pipeline" =? "input") with false. reflexivity.
    - split; [|split; [exact Im|split; [exact F|split; [exact Fx|exact Sw]]]].
      apply (input_check_fix D orc grid_ok images_ok _ _ Ic). apply update_conf_input_shape. exact Sh.
  Qed.

  (* THE CONFIGURATION AS RUN (indicators rewritten) IS A FIXPOINT OF check_conf, with or without
     a "margins" entry *)
  Theorem full_check_rewritten user cfg :
    full_check user = Some cfg -> replay_guard user = true ->
    full_check (run_rewrites cfg) = Some (run_rewrites cfg)
    /\ forall m, full_check (set_key "margins" m (run_rewrites cfg)) = Some (run_rewrites cfg).
  Proof.
    intros H G. destruct (full_check_form2 user cfg H G) as [l [r [done [im [E [Ic [Im [F [Fx Sw]]]]]]]]]. subst cfg.
    rewrite run_rewrites_form.
    assert (F' : flat2 (map rw done) = true) by exact (flat2_rw done F).
    assert (SF : steps_flat done = true) by (rewrite flat2_split in F; apply andb_prop in F; tauto).
    assert (Fx' : check_steps classes interp im (map rw done) = Some (map rw done))
      by exact (check_steps_rw classes interp W CW im done SF Fx).
    assert (Sw' : has_validation (map rw done) = true ->
                  check_steps classes interp (swap_images im) (map rw done) = Some (map rw done)).
    { intro V. rewrite (has_validation_keys (map rw done) done (keys_map_rw done)) in V.
      exact (check_steps_rw classes interp W CW (swap_images im) done SF (Sw V)). }
    pose proof (pipeline_check_fix classes interp im (map rw done) F' Fx' Sw') as Pc.
    assert (X : forall extra,
      full_check ([("input", JDict [("left", JDict l); ("right", JDict r)]); ("pipeline", JDict (map rw done))] ++ extra)
      = Some [("input", JDict [("left", JDict l); ("right", JDict r)]); ("pipeline", JDict (map rw done))]).
    { intro extra. unfold SavedCfg.full_check, section_of. cbn [app lookup]. rewrite !String.eqb_refl.
      change ("pipeline" =? "input") with false. cbv iota.
      rewrite Ic, Im, Pc. unfold concat_conf. cbn [fold_left fst snd set_key].
      change ("pipeline" =? "input") with false. reflexivity. }
    split; [rewrite <- (app_nil_r [_; _]); apply X|].
    intro m. cbn [set_key]. change ("margins" =? "input") with false. change ("margins" =? "pipeline") with false.
    cbv iota. apply (X [("margins", m)]).
  Qed.

  (* THE SAVED CONFIGURATION REPLAYS, suffixed confidence steps included *)
  Theorem main_saved_replays_rw user m saved :
    main_saved m user = Some saved -> replay_guard user = true ->
    exists cfg, full_check user = Some cfg
                /\ saved = set_key "margins" m (run_rewrites cfg)
                /\ full_check saved = Some (run_rewrites cfg)
                /\ main_saved m saved = Some saved.
  Proof.
    unfold SavedCfg.main_saved. destruct (full_check user) as [cfg|] eqn:Fc; [|discriminate].
    intros H G. inversion H. subst saved. exists cfg.
    destruct (full_check_rewritten user cfg Fc G) as [_ Fm].
    split; [reflexivity|]. split; [reflexivity|]. split; [apply Fm|].
    rewrite (Fm m). rewrite run_rewrites_idem. reflexivity.
  Qed.
End MainR.
