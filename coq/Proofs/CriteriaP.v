(* C04 -- the criteria model (Model/Criteria.v: validity_mask, allocate_left/right_mask,
   mask_invalid_variable_disparity_range, mask_border, read through ANY well-formed list of flag
   sites) computes, for every layout and every pixel, exactly the flag the documentation
   prescribes (Spec/Validity.v: expected_flag), given C02's statement "all costs NaN <-> no
   disparity of the global interval is computable" as the NaN pattern handed to
   mask_invalid_variable_disparity_range. *)
From Coq Require Import ZArith List Bool Lia ZifyBool.
From Pandora Require Import Model.Criteria Model.FlagSteps Spec.Validity Proofs.FlagEnvP.
Import ListNotations.
Open Scope Z_scope.

(* ------------------------------------------------------------------ ranges *)

Lemma zseq_In : forall n lo x, In x (zseq lo n) <-> lo <= x < lo + Z.of_nat n.
Proof.
  induction n as [|n IH]; intros lo x; cbn [zseq In].
  - lia.
  - rewrite IH. lia.
Qed.

Lemma zrange_In : forall lo hi x, In x (zrange lo hi) <-> lo <= x <= hi.
Proof. intros. unfold zrange. rewrite zseq_In. lia. Qed.

Lemma zseq'_zseq : forall n lo, zseq' lo n = zseq lo n.
Proof. induction n; intros; cbn; [reflexivity | now rewrite IHn]. Qed.

Lemma zr_zrange : forall lo hi, zr lo hi = zrange lo hi.
Proof. intros. unfold zr, zrange. apply zseq'_zseq. Qed.

Lemma existsb_zrange : forall f lo hi,
  existsb f (zrange lo hi) = true <-> exists x, lo <= x <= hi /\ f x = true.
Proof.
  intros. rewrite existsb_exists. split; intros (x & H1 & H2); exists x; split; auto; now apply zrange_In.
Qed.

Lemma forallb_zrange : forall f lo hi,
  forallb f (zrange lo hi) = true <-> forall x, lo <= x <= hi -> f x = true.
Proof.
  intros. rewrite forallb_forall. split; intros H x Hx; apply H; now apply zrange_In.
Qed.

Lemma bool_eq_iff : forall a b : bool, (a = true <-> b = true) -> a = b.
Proof. intros [] [] H; try reflexivity; destruct H as [H1 H2]; try (now rewrite H1); now rewrite H2. Qed.

(* ------------------------------------------------------------------ allocate_right_mask *)

Section Arm.
  Variables (E : env) (L : layout) (r c : Z).

  Definition vidx (d : Z) : bool := (c + d >=? 0 + off L) && (c + d <=? last_col L - off L).
  Definition inc7 (d : Z) : bool := negb (vidx d) || isinv (rm L) (r_nd L) (r_vl L) r (c + d).
  Definition incn (d : Z) : bool := negb (vidx d) || dil L (rm L) (r_nd L) r (c + d).
  Definition cnt (p : Z -> bool) (l : list Z) : Z :=
    fold_right (fun d a => (if p d then 1 else 0) + a) 0 l.

  Lemma cnt_bounds : forall p l, 0 <= cnt p l <= Z.of_nat (length l).
  Proof. induction l; cbn [cnt fold_right length]; [lia|]. fold (cnt p l). destruct (p a); lia. Qed.

  Lemma cnt_full : forall p l, cnt p l = Z.of_nat (length l) <-> forallb p l = true.
  Proof.
    induction l; cbn [cnt fold_right length forallb]; [tauto|]. fold (cnt p l).
    pose proof (cnt_bounds p l). destruct (p a); cbn [andb].
    - rewrite <- IHl. lia.
    - split; [lia | discriminate].
  Qed.

  Lemma arm_step_eq : forall b27 ndr m d, bit1_col L c = false ->
    arm_step E L r c (b27, ndr, m) d =
    let b27' := b27 + (if inc7 d then 1 else 0) in
    let ndr' := ndr + (if incn d then 1 else 0) in
    let m1 := if b27' =? range_len L then fire E R_r_b27 m true else m in
    (b27', ndr', if ndr' =? range_len L then fire E R_r_nodata m1 true else m1).
  Proof.
    intros b27 ndr m d Hb. unfold arm_step. rewrite Hb. unfold inc7, incn, vidx.
    destruct ((c + d >=? 0 + off L) && (c + d <=? last_col L - off L)); cbn [negb orb]; reflexivity.
  Qed.

  Lemma arm_fold : bit1_col L c = false -> forall n lo b27 ndr m,
    b27 + Z.of_nat n <= range_len L -> ndr + Z.of_nat n <= range_len L ->
    fold_left (arm_step E L r c) (zseq lo n) (b27, ndr, m) =
    (b27 + cnt inc7 (zseq lo n), ndr + cnt incn (zseq lo n),
     match n with
     | O => m
     | _ => let m1 := if b27 + cnt inc7 (zseq lo n) =? range_len L then fire E R_r_b27 m true else m in
            if ndr + cnt incn (zseq lo n) =? range_len L then fire E R_r_nodata m1 true else m1
     end).
  Proof.
    intros Hb. induction n as [|k IH]; intros lo b27 ndr m H1 H2.
    - cbn. repeat f_equal; lia.
    - cbn [zseq fold_left]. rewrite arm_step_eq by exact Hb. cbv zeta.
      set (b27' := b27 + (if inc7 lo then 1 else 0)).
      set (ndr' := ndr + (if incn lo then 1 else 0)).
      assert (Hb' : b27' <= b27 + 1) by (unfold b27'; destruct (inc7 lo); lia).
      assert (Hn' : ndr' <= ndr + 1) by (unfold ndr'; destruct (incn lo); lia).
      rewrite IH by lia.
      cbn [cnt fold_right]. fold (cnt inc7 (zseq (lo + 1) k)). fold (cnt incn (zseq (lo + 1) k)).
      replace (b27 + ((if inc7 lo then 1 else 0) + cnt inc7 (zseq (lo + 1) k)))
        with (b27' + cnt inc7 (zseq (lo + 1) k)) by (unfold b27'; lia).
      replace (ndr + ((if incn lo then 1 else 0) + cnt incn (zseq (lo + 1) k)))
        with (ndr' + cnt incn (zseq (lo + 1) k)) by (unfold ndr'; lia).
      f_equal. destruct k as [|k'].
      + cbn [zseq cnt fold_right]. rewrite !Z.add_0_r. reflexivity.
      + assert (T1 : (b27' =? range_len L) = false) by lia.
        assert (T2 : (ndr' =? range_len L) = false) by lia.
        rewrite T1, T2. reflexivity.
  Qed.

  Lemma arm_fold_b1 : bit1_col L c = true -> 1 <= range_len L -> forall l m,
    fold_left (arm_step E L r c) l (0, 0, m) = (0, 0, m).
  Proof.
    intros Hb Hl. induction l as [|d l IH]; intro m; [reflexivity|].
    cbn [fold_left]. unfold arm_step at 2. rewrite Hb.
    assert (T : (0 =? range_len L) = false) by lia. rewrite T.
    destruct ((c + d >=? 0 + off L) && (c + d <=? last_col L - off L)); apply IH.
  Qed.

  (* the loop, said without counters *)
  Lemma alloc_right_char : forall m, dmin L <= dmax L ->
    alloc_right E L m r c =
    if bit1_col L c then m
    else let m1 := if forallb inc7 (zrange (dmin L) (dmax L)) then fire E R_r_b27 m true else m in
         if forallb incn (zrange (dmin L) (dmax L)) then fire E R_r_nodata m1 true else m1.
  Proof.
    intros m Hd. unfold alloc_right. destruct (bit1_col L c) eqn:Hb.
    - rewrite arm_fold_b1; [reflexivity | exact Hb | unfold range_len; lia].
    - unfold zrange. set (n := Z.to_nat (dmax L - dmin L + 1)).
      assert (Hn : Z.of_nat n = range_len L) by (unfold n, range_len; lia).
      rewrite arm_fold by (try exact Hb; lia). cbn [snd].
      destruct n as [|n']; [unfold range_len in Hn; lia|].
      cbv zeta. rewrite !Z.add_0_l.
      set (l := zseq (dmin L) (S n')).
      assert (Hlen : Z.of_nat (length l) = range_len L).
      { unfold l. clear -Hn. revert Hn. generalize (S n') as k. generalize (dmin L) as lo.
        intros lo k; revert lo. induction k; intros lo Hk; cbn [zseq length] in *; [exact Hk|].
        rewrite <- Hk. f_equal. f_equal. specialize (IHk (lo + 1)).
        assert (forall j lo', length (zseq lo' j) = j) as Hlen.
        { induction j; intros; cbn; [reflexivity | now rewrite IHj]. }
        apply Hlen. }
      assert (E7 : (cnt inc7 l =? range_len L) = forallb inc7 l).
      { apply bool_eq_iff. rewrite <- cnt_full, <- Hlen. lia. }
      assert (En : (cnt incn l =? range_len L) = forallb incn l).
      { apply bool_eq_iff. rewrite <- cnt_full, <- Hlen. lia. }
      rewrite E7, En. reflexivity.
  Qed.
End Arm.

(* ------------------------------------------------------------------ layout -> scene *)

(* the documented reading of a layout: mask value = no_data_mask -> no data, = valid_pixels ->
   valid, anything else -> masked; an image without `msk` has neither *)
Definition scene_of (L : layout) (gmin gmax : Z -> Z -> Z) : scene :=
  mkScene (nr L) (nc L) (off L) (dmin L) (dmax L)
    (fun r c => lhas L && (lm L r c =? l_nd L))
    (fun r c => lhas L && isinv (lm L) (l_nd L) (l_vl L) r c)
    (fun r c => rhas L && (rm L r c =? r_nd L))
    (fun r c => rhas L && isinv (rm L) (r_nd L) (r_vl L) r c)
    gmin gmax.

Definition b2_col (L : layout) (c : Z) : bool :=
  if dmax L <? 0 then (c + dmax L >=? 0 + off L) && (c + dmin L <? 0 + off L)
  else if dmin L >? 0 then (c + dmin L <=? last_col L - off L) && (c + dmax L >? last_col L - off L)
  else (c + dmin L <? 0 + off L) || (c + dmax L >? last_col L - off L).

Section Main.
  Variables (E : env) (L : layout) (gmin gmax : Z -> Z -> Z).
  Hypothesis Hwf : wf_env E = true.
  Hypothesis Hoff : 0 <= off L.
  Hypothesis Hd : dmin L <= dmax L.
  Let S := scene_of L gmin gmax.

  Lemma fadd : forall r c m b, adds r = Some c -> (Z.land m (bval b c) =? 0) = true ->
    fire E r m b = m + bval b c.
  Proof. intros r c m b Ha Hl. apply Z.eqb_eq in Hl. apply (fire_add E Hwf r c m b Ha Hl). Qed.

  (* rewrite the innermost write whose flag is already a closed sum *)
  Ltac fadd1 :=
    match goal with
    | |- context [fire ?E ?r ?m ?b] =>
      lazymatch m with context [fire] => fail | _ => idtac end;
      erewrite (fadd r _ m b); [ | reflexivity | reflexivity ]
    end.

  (* --- mask_border *)
  Lemma mask_border_char : forall r c m, 0 < off L -> 0 <= r < nr L -> 0 <= c < nc L ->
    mask_border_px E L r c m = if win_in_b S r c then m else 1.
  Proof.
    intros r c m Ho Hr Hc. unfold mask_border_px. cbv zeta.
    rewrite (fire_set E Hwf R_bord_top K_LEFT_NODATA_OR_BORDER _ eq_refl).
    rewrite (fire_set E Hwf R_bord_bot K_LEFT_NODATA_OR_BORDER _ eq_refl).
    rewrite (fire_set E Hwf R_bord_left K_LEFT_NODATA_OR_BORDER _ eq_refl).
    rewrite (fire_set E Hwf R_bord_right K_LEFT_NODATA_OR_BORDER _ eq_refl).
    change (doc_value K_LEFT_NODATA_OR_BORDER) with 1.
    assert (P1 : forall n, py_idx n (off L) = Z.min (off L) n) by (intro n; unfold py_idx; destruct (off L <? 0) eqn:?; lia).
    assert (P2 : forall n, py_idx n (- off L) = Z.max 0 (n + - off L)) by (intro n; unfold py_idx; destruct (- off L <? 0) eqn:?; lia).
    rewrite !P1, !P2.
    unfold win_in_b, S, scene_of, in_sl. cbn [s_off s_nr s_nc].
    repeat match goal with |- context [if ?b then _ else _] => destruct b eqn:? end; try reflexivity; lia.
  Qed.

  (* --- validity_mask, column part *)
  Lemma vm_base_char : forall c, vm_base E L c = b2z (b2_col L c) 2 + b2z (bit1_col L c) 1.
  Proof.
    intro c. unfold vm_base, b2_col. cbv zeta. rewrite (fire_init E Hwf).
    destruct (dmax L <? 0) eqn:E1; [| destruct (dmin L >? 0) eqn:E2];
      match goal with |- context [if ?b then fire E ?r 0 true else 0] => destruct b eqn:? end;
      destruct (bit1_col L c) eqn:?;
      repeat fadd1; reflexivity.
  Qed.

  Definition B0 (r c : Z) : bool := lhas L && dil L (lm L) (l_nd L) r c.
  Definition B6 (r c : Z) : bool := lhas L && isinv (lm L) (l_nd L) (l_vl L) r c.
  Definition B7 (r c : Z) : bool :=
    rhas L && negb (bit1_col L c) && forallb (inc7 L r c) (zrange (dmin L) (dmax L)).
  Definition BN (r c : Z) : bool :=
    rhas L && negb (bit1_col L c) && forallb (incn L r c) (zrange (dmin L) (dmax L)).

  (* --- criteria.validity_mask, every pixel: a sum of distinct bits, each with its own condition *)
  Lemma validity_mask_px_char : forall r c,
    validity_mask_px E L r c =
    b2z (b2_col L c) 2 + b2z (bit1_col L c) 1 + b2z (B0 r c) 0 + b2z (B6 r c) 6
    + b2z (B7 r c) 7 + b2z (BN r c) 1.
  Proof.
    intros r c. unfold validity_mask_px, B0, B6, B7, BN. cbv zeta. rewrite vm_base_char.
    destruct (b2_col L c), (bit1_col L c) eqn:Hb1;
    (destruct (lhas L); [unfold alloc_left; cbv zeta;
       destruct (dil L (lm L) (l_nd L) r c), (isinv (lm L) (l_nd L) (l_vl L) r c) |]);
    (destruct (rhas L); [rewrite alloc_right_char by exact Hd; rewrite Hb1; cbv zeta;
       try (destruct (forallb (inc7 L r c) (zrange (dmin L) (dmax L))),
                     (forallb (incn L r c) (zrange (dmin L) (dmax L)))) |]);
    repeat fadd1; reflexivity.
  Qed.

  (* --- mask_invalid_variable_disparity_range *)
  Lemma mivdr_char : forall an m,
    mivdr E an m = if an && (Z.land m 2 =? 0) then m + 2 else m.
  Proof.
    intros an m. unfold mivdr. rewrite (wf_const E Hwf).
    change (doc_value K_RIGHT_NODATA_OR_DISPARITY_RANGE_MISSING) with 2.
    destruct an; [|reflexivity]. cbn [andb]. destruct (Z.land m 2 =? 0) eqn:T; [|reflexivity].
    rewrite (fadd R_mivdr K_RIGHT_NODATA_OR_DISPARITY_RANGE_MISSING m true eq_refl T). reflexivity.
  Qed.
End Main.

(* ------------------------------------------------------------------ model conditions = documented causes *)

Section Corr.
  Variables (L : layout) (gmin gmax : Z -> Z -> Z).
  Hypothesis Hoff : 0 <= off L.
  Hypothesis Hd : dmin L <= dmax L.
  Let S := scene_of L gmin gmax.

  (* the dilated no-data mask is "some no-data pixel in the window, inside the image" *)
  Lemma dil_win_nodata : forall has m ndv r c,
    win_nodata_b S (fun i j => has && (m i j =? ndv)) r c = has && dil L m ndv r c.
  Proof.
    intros has m ndv r c. apply bool_eq_iff. unfold win_nodata_b, dil. rewrite !zr_zrange.
    unfold S, scene_of, in_img_b. cbn [s_off s_nr s_nc].
    rewrite andb_true_iff, !existsb_zrange. split.
    - intros (i & Hi & H). apply existsb_zrange in H as (j & Hj & H).
      split; [lia|]. exists i. split; [lia|]. apply existsb_zrange. exists j. split; lia.
    - intros (Hh & i & Hi & H). apply existsb_zrange in H as (j & Hj & H).
      exists i. split; [lia|]. apply existsb_zrange. exists j. split; lia.
  Qed.

  Section Px.
    Variables r c : Z.
    Hypothesis Hwin : win_in_b S r c = true.

    Lemma win_cand : forall d, win_in_b S r (c + d) = vidx L c d.
    Proof.
      intro d. unfold win_in_b, vidx, last_col in *. unfold S, scene_of in *. cbn [s_off s_nr s_nc] in *. lia.
    Qed.

    Lemma no_cand_iff : bit1_col L c = true <-> forall d, dmin L <= d <= dmax L -> vidx L c d = false.
    Proof.
      unfold win_in_b, S, scene_of in Hwin. cbn [s_off s_nr s_nc] in Hwin.
      unfold bit1_col, vidx, last_col. split.
      - intros H d Hdd. destruct (dmax L <? 0) eqn:?; [lia|]. destruct (dmin L >? 0) eqn:?; [lia|discriminate].
      - intro H. destruct (dmax L <? 0) eqn:?; [specialize (H (dmax L)); lia|].
        destruct (dmin L >? 0) eqn:?; [specialize (H (dmin L)); lia | specialize (H 0); lia].
    Qed.

    Lemma cause0_B0 : cause0_b S r c = B0 L r c.
    Proof.
      unfold cause0_b. rewrite Hwin. cbn [negb orb]. unfold B0.
      change (s_lnodata S) with (fun i j => lhas L && (lm L i j =? l_nd L)). apply dil_win_nodata.
    Qed.

    Lemma cause6_B6 : cause6_b S r c = B6 L r c.
    Proof. reflexivity. Qed.

    Lemma cause2_B2 : cause2_b S r c = b2_col L c.
    Proof.
      apply bool_eq_iff. unfold cause2_b. rewrite !zr_zrange, andb_true_iff, !existsb_zrange.
      change (s_dmin S) with (dmin L). change (s_dmax S) with (dmax L).
      assert (Hw := Hwin). unfold win_in_b, S, scene_of in Hw. cbn [s_off s_nr s_nc] in Hw.
      split.
      - intros ((d1 & Hd1 & H1) & (d2 & Hd2 & H2)). rewrite win_cand in H1, H2.
        unfold b2_col, vidx, last_col in *.
        destruct (dmax L <? 0) eqn:?; [lia|]. destruct (dmin L >? 0) eqn:?; lia.
      - intro H. unfold b2_col, last_col in H.
        destruct (dmax L <? 0) eqn:?; [| destruct (dmin L >? 0) eqn:?].
        + split; [exists (dmin L) | exists (dmax L)]; rewrite win_cand; unfold vidx, last_col; lia.
        + split; [exists (dmax L) | exists (dmin L)]; rewrite win_cand; unfold vidx, last_col; lia.
        + split; [| exists 0; rewrite win_cand; unfold vidx, last_col; lia].
          destruct (c + dmin L <? 0 + off L) eqn:?;
            [exists (dmin L) | exists (dmax L)]; rewrite win_cand; unfold vidx, last_col; lia.
    Qed.

    Lemma cause7_B7 : cause7_b S r c = B7 L r c.
    Proof.
      apply bool_eq_iff. unfold cause7_b, B7. rewrite !zr_zrange, !andb_true_iff, existsb_zrange, !forallb_zrange.
      change (s_dmin S) with (dmin L). change (s_dmax S) with (dmax L).
      split.
      - intros ((d0 & Hd0 & H0) & H). rewrite win_cand in H0.
        assert (Hr : rhas L = true).
        { specialize (H d0 Hd0). rewrite win_cand, H0 in H. cbn in H. apply andb_true_iff in H. tauto. }
        split; [split; [exact Hr|]|].
        + destruct (bit1_col L c) eqn:Hb; [|reflexivity]. pose proof (proj1 no_cand_iff Hb) as Hb'. rewrite (Hb' d0 Hd0) in H0. discriminate.
        + intros d Hdd. specialize (H d Hdd). rewrite win_cand in H. unfold inc7.
          destruct (vidx L c d); [|reflexivity]. cbn in H |- *. rewrite Hr in H. exact H.
      - intros ((Hr & Hb) & H). split.
        + destruct (bit1_col L c) eqn:Hb1; [discriminate|].
          assert (~ (forall d, dmin L <= d <= dmax L -> vidx L c d = false)) as Hn
            by (intro Hc; pose proof (proj2 no_cand_iff Hc); congruence).
          (* a candidate exists: the one no_cand_iff looks at *)
          assert (Hw := Hwin). unfold win_in_b, S, scene_of in Hw. cbn [s_off s_nr s_nc] in Hw.
          unfold bit1_col, last_col in Hb1. revert Hb1.
          destruct (dmax L <? 0) eqn:?; [| destruct (dmin L >? 0) eqn:?]; intro Hb1;
            [exists (dmax L) | exists (dmin L) | exists 0]; rewrite win_cand; unfold vidx, last_col; lia.
        + intros d Hdd. specialize (H d Hdd). rewrite win_cand. unfold inc7 in H.
          destruct (vidx L c d); [|reflexivity]. cbn in H |- *. rewrite Hr. exact H.
    Qed.

    (* every model condition that raises an invalid bit implies "no computable disparity" *)
    Lemma nocost_of : (bit1_col L c || BN L r c || B0 L r c || B6 L r c || B7 L r c) = true ->
      no_cost_b S r c = true.
    Proof.
      intro H. unfold no_cost_b. rewrite zr_zrange, forallb_zrange.
      change (s_dmin S) with (dmin L). change (s_dmax S) with (dmax L).
      intros d Hdd. apply negb_true_iff. unfold computable_b.
      repeat (apply orb_true_iff in H as [H | H]).
      - pose proof (proj1 no_cand_iff H) as H'. rewrite win_cand, (H' d Hdd). rewrite Hwin. reflexivity.
      - unfold BN in H. apply andb_true_iff in H as [H1 H2]. apply andb_true_iff in H1 as [Hr _].
        rewrite forallb_zrange in H2. specialize (H2 d Hdd). unfold incn in H2. rewrite win_cand.
        destruct (vidx L c d); [| rewrite Hwin; reflexivity].
        cbn in H2.
        change (s_rnodata S) with (fun i j => rhas L && (rm L i j =? r_nd L)).
        rewrite (dil_win_nodata (rhas L) (rm L) (r_nd L) r (c + d)), Hr, H2. cbn. rewrite !andb_false_r. reflexivity.
      - rewrite <- cause0_B0 in H. unfold cause0_b in H. rewrite Hwin in H. cbn [negb] in H. rewrite orb_false_l in H. rewrite H.
        cbn. rewrite !andb_false_r. reflexivity.
      - unfold B6 in H. change (s_linvalid S r c) with (lhas L && isinv (lm L) (l_nd L) (l_vl L) r c).
        rewrite H. cbn. rewrite !andb_false_r. reflexivity.
      - unfold B7 in H. apply andb_true_iff in H as [H1 H2]. apply andb_true_iff in H1 as [Hr _].
        rewrite forallb_zrange in H2. specialize (H2 d Hdd). unfold inc7 in H2. rewrite win_cand.
        destruct (vidx L c d); [| rewrite Hwin; reflexivity].
        cbn in H2. change (s_rinvalid S r (c + d)) with (rhas L && isinv (rm L) (r_nd L) (r_vl L) r (c + d)).
        rewrite Hr, H2. cbn. rewrite !andb_false_r. reflexivity.
    Qed.
  End Px.
End Corr.

(* ------------------------------------------------------------------ boolean spec = declarative spec *)

Section Reflect.
  Variable S : scene.

  Lemma in_img_b_iff : forall r c, in_img_b S r c = true <-> in_img S r c.
  Proof. intros. unfold in_img_b, in_img. lia. Qed.

  Lemma win_in_b_iff : forall r c, win_in_b S r c = true <-> win_in S r c.
  Proof. intros. unfold win_in_b, win_in. lia. Qed.

  Lemma win_nodata_b_iff : forall N r c, win_nodata_b S N r c = true <-> win_nodata S N r c.
  Proof.
    intros N r c. unfold win_nodata_b, win_nodata. rewrite !zr_zrange, existsb_zrange. split.
    - intros (i & Hi & H). apply existsb_zrange in H as (j & Hj & H). apply andb_true_iff in H as [H1 H2].
      exists i, j. rewrite <- in_img_b_iff. auto.
    - intros (i & j & Hi & Hj & H1 & H2). exists i. split; [exact Hi|]. apply existsb_zrange.
      exists j. split; [exact Hj|]. apply andb_true_iff. rewrite in_img_b_iff. auto.
  Qed.

  Lemma computable_b_iff : forall r c d, computable_b S r c d = true <-> computable S r c d.
  Proof.
    intros r c d. unfold computable_b, computable. rewrite !andb_true_iff, !negb_true_iff, !win_in_b_iff.
    rewrite <- !win_nodata_b_iff, !Z.leb_le.
    destruct (win_nodata_b S (s_lnodata S) r c), (win_nodata_b S (s_rnodata S) r (c + d));
      intuition congruence.
  Qed.

  Lemma no_cost_b_iff : forall r c, no_cost_b S r c = true <-> no_cost S r c.
  Proof.
    intros r c. unfold no_cost_b, no_cost, in_interval. rewrite zr_zrange, forallb_zrange.
    split; intros H d Hd; specialize (H d Hd).
    - rewrite <- computable_b_iff. apply negb_true_iff in H. congruence.
    - apply negb_true_iff. rewrite <- computable_b_iff in H. destruct (computable_b S r c d); congruence.
  Qed.

  Lemma cause0_b_iff : forall r c, in_img S r c -> (cause0_b S r c = true <-> cause0 S r c).
  Proof.
    intros r c Hi. unfold cause0_b, cause0, border. rewrite orb_true_iff, negb_true_iff, win_nodata_b_iff.
    rewrite <- win_in_b_iff. destruct (win_in_b S r c); intuition congruence.
  Qed.

  Lemma cause6_b_iff : forall r c, cause6_b S r c = true <-> cause6 S r c.
  Proof. intros. reflexivity. Qed.

  Lemma cause2_b_iff : forall r c, cause2_b S r c = true <-> cause2 S r c.
  Proof.
    intros r c. unfold cause2_b, cause2, in_interval. rewrite !zr_zrange, andb_true_iff, !existsb_zrange.
    split; intros ((d1 & H1 & H1') & (d2 & H2 & H2')); (split; [exists d1 | exists d2]); split; auto.
    - rewrite <- win_in_b_iff. apply negb_true_iff in H1'. congruence.
    - apply win_in_b_iff, H2'.
    - apply negb_true_iff. rewrite <- win_in_b_iff in H1'. destruct (win_in_b S r (c + d1)); congruence.
    - apply win_in_b_iff, H2'.
  Qed.

  Lemma cause7_b_iff : forall r c, cause7_b S r c = true <-> cause7 S r c.
  Proof.
    intros r c. unfold cause7_b, cause7, in_interval. rewrite !zr_zrange, andb_true_iff, existsb_zrange, forallb_zrange.
    split; intros ((d1 & H1 & H1') & H); (split; [exists d1; split; [exact H1 | apply win_in_b_iff, H1'] |]).
    - intros d Hd Hw. specialize (H d Hd). apply win_in_b_iff in Hw. rewrite Hw in H. exact H.
    - intros d Hd. specialize (H d Hd). rewrite <- win_in_b_iff in H.
      destruct (win_in_b S r (c + d)); [cbn; auto | reflexivity].
  Qed.

  (* the prescribed flag of a non-border pixel, bit by bit *)
  Lemma sum_bits : forall a b c d e,
    let m := b2z a 0 + b2z b 1 + b2z c 2 + b2z d 6 + b2z e 7 in
    Z.testbit m 0 = a /\ Z.testbit m 1 = b /\ Z.testbit m 2 = c /\ Z.testbit m 6 = d /\ Z.testbit m 7 = e
    /\ (Z.land m 195 =? 0) = negb (a || b || d || e) /\ Z.land m 199 = m /\ 0 <= m < 256.
  Proof. intros [] [] [] [] []; vm_compute; intuition congruence. Qed.
End Reflect.

(* ------------------------------------------------------------------ the main statement *)

Section Final.
  Variables (E : env) (L : layout) (gmin gmax : Z -> Z -> Z) (allnan : Z -> Z -> bool).
  Hypothesis Hwf : wf_env E = true.
  Hypothesis Hoff : 0 <= off L.
  Hypothesis Hd : dmin L <= dmax L.
  Let S := scene_of L gmin gmax.

  (* for every layout and every pixel of the image, when the NaN pattern of the cost volume is the one
     C02 states (all costs NaN iff no disparity of the global interval is computable), the mask after
     matching_cost_prepare + cv_masked is the documented one *)
  Theorem after_mc_expected : forall r c, in_img S r c ->
    allnan r c = no_cost_b S r c -> after_mc E L allnan r c = expected_flag S r c.
  Proof.
    intros r c Hi Han. unfold S in *. unfold after_mc, expected_flag.
    assert (Hi' := Hi). unfold in_img, scene_of in Hi'. cbn [s_nr s_nc] in Hi'.
    destruct (win_in_b (scene_of L gmin gmax) r c) eqn:Hwin; cbn [negb].
    2:{ assert (Ho : (off L >? 0) = true).
        { unfold win_in_b, scene_of in Hwin. cbn [s_off s_nr s_nc] in Hwin. lia. }
        rewrite Ho, (mask_border_char E L gmin gmax Hwf) by lia. rewrite Hwin. reflexivity. }
    assert (Hm : (if off L >? 0 then mask_border_px E L r c (mivdr E (allnan r c) (validity_mask_px E L r c))
                  else mivdr E (allnan r c) (validity_mask_px E L r c))
                 = mivdr E (allnan r c) (validity_mask_px E L r c)).
    { destruct (off L >? 0) eqn:Ho; [|reflexivity].
      rewrite (mask_border_char E L gmin gmax Hwf) by lia. rewrite Hwin. reflexivity. }
    rewrite Hm. clear Hm.
    rewrite (mivdr_char E Hwf), (validity_mask_px_char E L Hwf Hd), Han.
    rewrite cause0_B0, cause2_B2, cause7_B7 by assumption.
    change (cause6_b (scene_of L gmin gmax) r c) with (B6 L r c).
    assert (Hnc : (bit1_col L c || BN L r c || B0 L r c || B6 L r c || B7 L r c) = true -> no_cost_b (scene_of L gmin gmax) r c = true) by (apply nocost_of; assumption).
    assert (Hx : bit1_col L c = true -> BN L r c = false).
    { intro Hb. unfold BN. rewrite Hb. cbn. rewrite andb_false_r. reflexivity. }
    destruct (b2_col L c), (bit1_col L c), (B0 L r c), (B6 L r c), (B7 L r c), (BN L r c), (no_cost_b (scene_of L gmin gmax) r c);
      try reflexivity; cbn in Hnc; try (specialize (Hnc eq_refl); discriminate);
      try (specialize (Hx eq_refl); discriminate).
  Qed.
End Final.

(* ------------------------------------------------------------------ corollaries, in the words of the property *)

Section Corollaries.
  Variables (E : env) (L : layout) (gmin gmax : Z -> Z -> Z) (allnan : Z -> Z -> bool).
  Hypothesis Hwf : wf_env E = true.
  Hypothesis Hoff : 0 <= off L.
  Hypothesis Hd : dmin L <= dmax L.
  Let S := scene_of L gmin gmax.
  (* C02: every cost of the pixel is NaN iff no disparity of the global interval is computable *)
  Definition nan_pattern_ok (r c : Z) : Prop := allnan r c = true <-> no_cost S r c.

  Let flag := after_mc E L allnan.

  Lemma flag_expected : forall r c, in_img S r c -> nan_pattern_ok r c -> flag r c = expected_flag S r c.
  Proof.
    intros r c Hi Hn. apply after_mc_expected; try assumption.
    apply bool_eq_iff. rewrite no_cost_b_iff. exact Hn.
  Qed.

  Lemma border_bit0_only : forall r c, border S r c -> nan_pattern_ok r c -> flag r c = 1.
  Proof.
    intros r c [Hi Hb] Hn. rewrite flag_expected by assumption. unfold expected_flag.
    rewrite <- win_in_b_iff in Hb. destruct (win_in_b S r c); [congruence | reflexivity].
  Qed.

  Lemma nonborder_flag : forall r c, in_img S r c -> win_in S r c -> nan_pattern_ok r c ->
    flag r c = b2z (cause0_b S r c) 0 + b2z (no_cost_b S r c) 1 + b2z (cause2_b S r c) 2
               + b2z (cause6_b S r c) 6 + b2z (cause7_b S r c) 7.
  Proof.
    intros r c Hi Hw Hn. rewrite flag_expected by assumption. unfold expected_flag.
    apply win_in_b_iff in Hw. rewrite Hw. reflexivity.
  Qed.

  Lemma bit0_iff : forall r c, in_img S r c -> win_in S r c -> nan_pattern_ok r c ->
    (Z.testbit (flag r c) 0 = true <-> cause0 S r c).
  Proof.
    intros r c Hi Hw Hn. rewrite nonborder_flag by assumption. rewrite <- cause0_b_iff by assumption.
    destruct (sum_bits (cause0_b S r c) (no_cost_b S r c) (cause2_b S r c) (cause6_b S r c) (cause7_b S r c))
      as (H & _). rewrite H. tauto.
  Qed.

  Lemma bit1_iff : forall r c, in_img S r c -> win_in S r c -> nan_pattern_ok r c ->
    (Z.testbit (flag r c) 1 = true <-> cause1 S r c).
  Proof.
    intros r c Hi Hw Hn. rewrite nonborder_flag by assumption. unfold cause1. rewrite <- no_cost_b_iff.
    destruct (sum_bits (cause0_b S r c) (no_cost_b S r c) (cause2_b S r c) (cause6_b S r c) (cause7_b S r c))
      as (_ & H & _). rewrite H. tauto.
  Qed.

  Lemma bit2_iff : forall r c, in_img S r c -> win_in S r c -> nan_pattern_ok r c ->
    (Z.testbit (flag r c) 2 = true <-> cause2 S r c).
  Proof.
    intros r c Hi Hw Hn. rewrite nonborder_flag by assumption. rewrite <- cause2_b_iff.
    destruct (sum_bits (cause0_b S r c) (no_cost_b S r c) (cause2_b S r c) (cause6_b S r c) (cause7_b S r c))
      as (_ & _ & H & _). rewrite H. tauto.
  Qed.

  Lemma bit6_iff : forall r c, in_img S r c -> win_in S r c -> nan_pattern_ok r c ->
    (Z.testbit (flag r c) 6 = true <-> cause6 S r c).
  Proof.
    intros r c Hi Hw Hn. rewrite nonborder_flag by assumption. rewrite <- cause6_b_iff.
    destruct (sum_bits (cause0_b S r c) (no_cost_b S r c) (cause2_b S r c) (cause6_b S r c) (cause7_b S r c))
      as (_ & _ & _ & H & _). rewrite H. tauto.
  Qed.

  Lemma bit7_iff : forall r c, in_img S r c -> win_in S r c -> nan_pattern_ok r c ->
    (Z.testbit (flag r c) 7 = true <-> cause7 S r c).
  Proof.
    intros r c Hi Hw Hn. rewrite nonborder_flag by assumption. rewrite <- cause7_b_iff.
    destruct (sum_bits (cause0_b S r c) (no_cost_b S r c) (cause2_b S r c) (cause6_b S r c) (cause7_b S r c))
      as (_ & _ & _ & _ & H & _). rewrite H. tauto.
  Qed.

  (* nothing but bits 0, 1, 2, 6, 7 after the matching cost *)
  Lemma mc_only_criteria_bits : forall r c, in_img S r c -> nan_pattern_ok r c ->
    Z.land (flag r c) 199 = flag r c /\ 0 <= flag r c < 256.
  Proof.
    intros r c Hi Hn. rewrite flag_expected by assumption. unfold expected_flag.
    destruct (win_in_b S r c); cbn [negb]; [|split; [reflexivity | lia]].
    destruct (sum_bits (cause0_b S r c) (no_cost_b S r c) (cause2_b S r c) (cause6_b S r c) (cause7_b S r c))
      as (_ & _ & _ & _ & _ & _ & H1 & H2). split; assumption.
  Qed.

  (* an invalid flag (bits 0, 1, 6, 7) iff none of the pixel's costs is computable *)
  Lemma invalid_iff_nocost : forall r c, in_img S r c -> nan_pattern_ok r c ->
    (Z.land (flag r c) 195 <> 0 <-> no_cost S r c).
  Proof.
    intros r c Hi Hn. rewrite flag_expected by assumption. unfold expected_flag.
    destruct (win_in_b S r c) eqn:Hw; cbn [negb].
    - destruct (sum_bits (cause0_b S r c) (no_cost_b S r c) (cause2_b S r c) (cause6_b S r c) (cause7_b S r c))
        as (_ & _ & _ & _ & _ & H & _).
      rewrite <- no_cost_b_iff.
      assert (Hnc := nocost_of L gmin gmax).
      assert (H0 : cause0_b S r c = true -> no_cost_b S r c = true).
      { intro Hc. apply Hnc; [assumption..|]. unfold S in Hc. rewrite cause0_B0 in Hc by assumption. rewrite Hc.
        rewrite !orb_true_r. reflexivity. }
      assert (H6 : cause6_b S r c = true -> no_cost_b S r c = true).
      { intro Hc. apply Hnc; [assumption..|]. change (cause6_b S r c) with (B6 L r c) in Hc. rewrite Hc.
        rewrite !orb_true_r. reflexivity. }
      assert (H7 : cause7_b S r c = true -> no_cost_b S r c = true).
      { intro Hc. apply Hnc; [assumption..|]. unfold S in Hc. rewrite cause7_B7 in Hc by assumption. rewrite Hc.
        rewrite !orb_true_r. reflexivity. }
      destruct (no_cost_b S r c).
      + rewrite orb_true_r in H. cbn in H. apply Z.eqb_neq in H. tauto.
      + destruct (cause0_b S r c); [specialize (H0 eq_refl); discriminate|].
        destruct (cause6_b S r c); [specialize (H6 eq_refl); discriminate|].
        destruct (cause7_b S r c); [specialize (H7 eq_refl); discriminate|].
        cbn in H. apply Z.eqb_eq in H. split; [tauto | discriminate].
    - split; [|intros _; discriminate]. intros _ d Hdd Hc. destruct Hc as (Hc & _).
      apply win_in_b_iff in Hc. congruence.
  Qed.

  Lemma invalid_iff_allnan : forall r c, in_img S r c -> nan_pattern_ok r c ->
    (Z.land (flag r c) 195 <> 0 <-> allnan r c = true).
  Proof. intros r c Hi Hn. rewrite invalid_iff_nocost by assumption. symmetry. exact Hn. Qed.
End Corollaries.
