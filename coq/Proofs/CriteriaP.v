(* C04 -- the criteria model (Model/Criteria.v: validity_mask, allocate_left/right_mask,
   mask_invalid_variable_disparity_range, mask_border, read through ANY well-formed list of flag
   sites) computes, for every layout and every pixel, exactly the flag the documentation
   prescribes (Spec/Validity.v: expected_flag), given C02's statement "all costs NaN <-> no
   disparity of the global interval is computable" as the NaN pattern handed to
   mask_invalid_variable_disparity_range. *)
From Coq Require Import ZArith List Bool Lia ZifyBool.
From Pandora Require Import Model.Criteria Model.FlagSteps Spec.Validity Proofs.FlagEnvP.
Import ListNotations.
Open Scope Z_scope.

(* ------------------------------------------------------------------ ranges *)

Lemma zseq_In : forall n lo x, In x (zseq lo n) <-> lo <= x < lo + Z.of_nat n.
Proof.
  induction n as [|n IH]; intros lo x; cbn [zseq In].
  - lia.
  - rewrite IH. lia.
Qed.

Lemma zrange_In : forall lo hi x, In x (zrange lo hi) <-> lo <= x <= hi.
Proof. intros. unfold zrange. rewrite zseq_In. lia. Qed.

Lemma zseq'_zseq : forall n lo, zseq' lo n = zseq lo n.
Proof. induction n; intros; cbn; [reflexivity | now rewrite IHn]. Qed.

Lemma zr_zrange : forall lo hi, zr lo hi = zrange lo hi.
Proof. intros. unfold zr, zrange. apply zseq'_zseq. Qed.

Lemma existsb_zrange : forall f lo hi,
  existsb f (zrange lo hi) = true <-> exists x, lo <= x <= hi /\ f x = true.
Proof.
  intros. rewrite existsb_exists. split; intros (x & H1 & H2); exists x; split; auto; now apply zrange_In.
Qed.

Lemma forallb_zrange : forall f lo hi,
  forallb f (zrange lo hi) = true <-> forall x, lo <= x <= hi -> f x = true.
Proof.
  intros. rewrite forallb_forall. split; intros H x Hx; apply H; now apply zrange_In.
Qed.

Lemma bool_eq_iff : forall a b : bool, (a = true <-> b = true) -> a = b.
Proof. intros [] [] H; try reflexivity; destruct H as [H1 H2]; try (now rewrite H1); now rewrite H2. Qed.

(* ------------------------------------------------------------------ allocate_right_mask *)

Section Arm.
  Variables (E : env) (L : layout) (r c : Z).

  Definition vidx (d : Z) : bool := (c + d >=? 0 + off L) && (c + d <=? last_col L - off L).
  Definition inc7 (d : Z) : bool := negb (vidx d) || isinv (rm L) (r_nd L) (r_vl L) r (c + d).
  Definition incn (d : Z) : bool := negb (vidx d) || dil L (rm L) (r_nd L) r (c + d).
  Definition cnt (p : Z -> bool) (l : list Z) : Z :=
    fold_right (fun d a => (if p d then 1 else 0) + a) 0 l.

  Lemma cnt_bounds : forall p l, 0 <= cnt p l <= Z.of_nat (length l).
  Proof. induction l; cbn [cnt fold_right length]; [lia|]. fold (cnt p l). destruct (p a); lia. Qed.

  Lemma cnt_full : forall p l, cnt p l = Z.of_nat (length l) <-> forallb p l = true.
  Proof.
    induction l; cbn [cnt fold_right length forallb]; [tauto|]. fold (cnt p l).
    pose proof (cnt_bounds p l). destruct (p a); cbn [andb].
    - rewrite <- IHl. lia.
    - split; [lia | discriminate].
  Qed.

  Lemma arm_step_eq : forall b27 ndr m d, bit1_col L c = false ->
    arm_step E L r c (b27, ndr, m) d =
    let b27' := b27 + (if inc7 d then 1 else 0) in
    let ndr' := ndr + (if incn d then 1 else 0) in
    let m1 := if b27' =? range_len L then fire E R_r_b27 m true else m in
    (b27', ndr', if ndr' =? range_len L then fire E R_r_nodata m1 true else m1).
  Proof.
    intros b27 ndr m d Hb. unfold arm_step. rewrite Hb. unfold inc7, incn, vidx.
    destruct ((c + d >=? 0 + off L) && (c + d <=? last_col L - off L)); cbn [negb orb]; reflexivity.
  Qed.

  Lemma arm_fold : bit1_col L c = false -> forall n lo b27 ndr m,
    b27 + Z.of_nat n <= range_len L -> ndr + Z.of_nat n <= range_len L ->
    fold_left (arm_step E L r c) (zseq lo n) (b27, ndr, m) =
    (b27 + cnt inc7 (zseq lo n), ndr + cnt incn (zseq lo n),
     match n with
     | O => m
     | _ => let m1 := if b27 + cnt inc7 (zseq lo n) =? range_len L then fire E R_r_b27 m true else m in
            if ndr + cnt incn (zseq lo n) =? range_len L then fire E R_r_nodata m1 true else m1
     end).
  Proof.
    intros Hb. induction n as [|k IH]; intros lo b27 ndr m H1 H2.
    - cbn. repeat f_equal; lia.
    - cbn [zseq fold_left]. rewrite arm_step_eq by exact Hb. cbv zeta.
      set (b27' := b27 + (if inc7 lo then 1 else 0)).
      set (ndr' := ndr + (if incn lo then 1 else 0)).
      assert (Hb' : b27' <= b27 + 1) by (unfold b27'; destruct (inc7 lo); lia).
      assert (Hn' : ndr' <= ndr + 1) by (unfold ndr'; destruct (incn lo); lia).
      rewrite IH by lia.
      cbn [cnt fold_right]. fold (cnt inc7 (zseq (lo + 1) k)). fold (cnt incn (zseq (lo + 1) k)).
      replace (b27 + ((if inc7 lo then 1 else 0) + cnt inc7 (zseq (lo + 1) k)))
        with (b27' + cnt inc7 (zseq (lo + 1) k)) by (unfold b27'; lia).
      replace (ndr + ((if incn lo then 1 else 0) + cnt incn (zseq (lo + 1) k)))
        with (ndr' + cnt incn (zseq (lo + 1) k)) by (unfold ndr'; lia).
      f_equal. destruct k as [|k'].
      + cbn [zseq cnt fold_right]. rewrite !Z.add_0_r. reflexivity.
      + assert (T1 : (b27' =? range_len L) = false) by lia.
        assert (T2 : (ndr' =? range_len L) = false) by lia.
        rewrite T1, T2. reflexivity.
  Qed.

  Lemma arm_fold_b1 : bit1_col L c = true -> 1 <= range_len L -> forall l m,
    fold_left (arm_step E L r c) l (0, 0, m) = (0, 0, m).
  Proof.
    intros Hb Hl. induction l as [|d l IH]; intro m; [reflexivity|].
    cbn [fold_left]. unfold arm_step at 2. rewrite Hb.
    assert (T : (0 =? range_len L) = false) by lia. rewrite T.
    destruct ((c + d >=? 0 + off L) && (c + d <=? last_col L - off L)); apply IH.
  Qed.

  (* the loop, said without counters *)
  Lemma alloc_right_char : forall m, dmin L <= dmax L ->
    alloc_right E L m r c =
    if bit1_col L c then m
    else let m1 := if forallb inc7 (zrange (dmin L) (dmax L)) then fire E R_r_b27 m true else m in
         if forallb incn (zrange (dmin L) (dmax L)) then fire E R_r_nodata m1 true else m1.
  Proof.
    intros m Hd. unfold alloc_right. destruct (bit1_col L c) eqn:Hb.
    - rewrite arm_fold_b1; [reflexivity | exact Hb | unfold range_len; lia].
    - unfold zrange. set (n := Z.to_nat (dmax L - dmin L + 1)).
      assert (Hn : Z.of_nat n = range_len L) by (unfold n, range_len; lia).
      rewrite arm_fold by (try exact Hb; lia). cbn [snd].
      destruct n as [|n']; [unfold range_len in Hn; lia|].
      cbv zeta. rewrite !Z.add_0_l.
      set (l := zseq (dmin L) (S n')).
      assert (Hlen : Z.of_nat (length l) = range_len L).
      { unfold l. clear -Hn. revert Hn. generalize (S n') as k. generalize (dmin L) as lo.
        intros lo k; revert lo. induction k; intros lo Hk; cbn [zseq length] in *; [exact Hk|].
        rewrite <- Hk. f_equal. f_equal. specialize (IHk (lo + 1)).
        assert (forall j lo', length (zseq lo' j) = j) as Hlen.
        { induction j; intros; cbn; [reflexivity | now rewrite IHj]. }
        apply Hlen. }
      assert (E7 : (cnt inc7 l =? range_len L) = forallb inc7 l).
      { apply bool_eq_iff. rewrite <- cnt_full, <- Hlen. lia. }
      assert (En : (cnt incn l =? range_len L) = forallb incn l).
      { apply bool_eq_iff. rewrite <- cnt_full, <- Hlen. lia. }
      rewrite E7, En. reflexivity.
  Qed.
End Arm.

(* ------------------------------------------------------------------ layout -> scene *)

(* the documented reading of a layout: mask value = no_data_mask -> no data, = valid_pixels ->
   valid, anything else -> masked; an image without `msk` has neither *)
Definition scene_of (L : layout) (gmin gmax : Z -> Z -> Z) : scene :=
  mkScene (nr L) (nc L) (off L) (dmin L) (dmax L)
    (fun r c => lhas L && (lm L r c =? l_nd L))
    (fun r c => lhas L && isinv (lm L) (l_nd L) (l_vl L) r c)
    (fun r c => rhas L && (rm L r c =? r_nd L))
    (fun r c => rhas L && isinv (rm L) (r_nd L) (r_vl L) r c)
    gmin gmax.

Definition b2_col (L : layout) (c : Z) : bool :=
  if dmax L <? 0 then (c + dmax L >=? 0 + off L) && (c + dmin L <? 0 + off L)
  else if dmin L >? 0 then (c + dmin L <=? last_col L - off L) && (c + dmax L >? last_col L - off L)
  else (c + dmin L <? 0 + off L) || (c + dmax L >? last_col L - off L).

Section Main.
  Variables (E : env) (L : layout) (gmin gmax : Z -> Z -> Z).
  Hypothesis Hwf : wf_env E = true.
  Hypothesis Hoff : 0 <= off L.
  Hypothesis Hd : dmin L <= dmax L.
  Let S := scene_of L gmin gmax.

  Lemma fadd : forall r c m b, adds r = Some c -> (Z.land m (bval b c) =? 0) = true ->
    fire E r m b = m + bval b c.
  Proof. intros r c m b Ha Hl. apply Z.eqb_eq in Hl. apply (fire_add E Hwf r c m b Ha Hl). Qed.

  (* rewrite the innermost write whose flag is already a closed sum *)
  Ltac fadd1 :=
    match goal with
    | |- context [fire ?E ?r ?m ?b] =>
      lazymatch m with context [fire] => fail | _ => idtac end;
      erewrite (fadd r _ m b); [ | reflexivity | reflexivity ]
    end.

  (* --- mask_border *)
  Lemma mask_border_char : forall r c m, 0 < off L -> 0 <= r < nr L -> 0 <= c < nc L ->
    mask_border_px E L r c m = if win_in_b S r c then m else 1.
  Proof.
    intros r c m Ho Hr Hc. unfold mask_border_px. cbv zeta.
    rewrite (fire_set E Hwf R_bord_top K_LEFT_NODATA_OR_BORDER _ eq_refl).
    rewrite (fire_set E Hwf R_bord_bot K_LEFT_NODATA_OR_BORDER _ eq_refl).
    rewrite (fire_set E Hwf R_bord_left K_LEFT_NODATA_OR_BORDER _ eq_refl).
    rewrite (fire_set E Hwf R_bord_right K_LEFT_NODATA_OR_BORDER _ eq_refl).
    change (doc_value K_LEFT_NODATA_OR_BORDER) with 1.
    assert (P1 : forall n, py_idx n (off L) = Z.min (off L) n) by (intro n; unfold py_idx; destruct (off L <? 0) eqn:?; lia).
    assert (P2 : forall n, py_idx n (- off L) = Z.max 0 (n + - off L)) by (intro n; unfold py_idx; destruct (- off L <? 0) eqn:?; lia).
    rewrite !P1, !P2.
    unfold win_in_b, S, scene_of, in_sl. cbn [s_off s_nr s_nc].
    repeat match goal with |- context [if ?b then _ else _] => destruct b eqn:? end; try reflexivity; lia.
  Qed.

  (* --- validity_mask, column part *)
  Lemma vm_base_char : forall c, vm_base E L c = b2z (b2_col L c) 2 + b2z (bit1_col L c) 1.
  Proof.
    intro c. unfold vm_base, b2_col. cbv zeta. rewrite (fire_init E Hwf).
    destruct (dmax L <? 0) eqn:E1; [| destruct (dmin L >? 0) eqn:E2];
      match goal with |- context [if ?b then fire E ?r 0 true else 0] => destruct b eqn:? end;
      destruct (bit1_col L c) eqn:?;
      repeat fadd1; reflexivity.
  Qed.

  Definition B0 (r c : Z) : bool := lhas L && dil L (lm L) (l_nd L) r c.
  Definition B6 (r c : Z) : bool := lhas L && isinv (lm L) (l_nd L) (l_vl L) r c.
  Definition B7 (r c : Z) : bool :=
    rhas L && negb (bit1_col L c) && forallb (inc7 L r c) (zrange (dmin L) (dmax L)).
  Definition BN (r c : Z) : bool :=
    rhas L && negb (bit1_col L c) && forallb (incn L r c) (zrange (dmin L) (dmax L)).

  (* --- criteria.validity_mask, every pixel: a sum of distinct bits, each with its own condition *)
  Lemma validity_mask_px_char : forall r c,
    validity_mask_px E L r c =
    b2z (b2_col L c) 2 + b2z (bit1_col L c) 1 + b2z (B0 r c) 0 + b2z (B6 r c) 6
    + b2z (B7 r c) 7 + b2z (BN r c) 1.
  Proof.
    intros r c. unfold validity_mask_px, B0, B6, B7, BN. cbv zeta. rewrite vm_base_char.
    destruct (b2_col L c), (bit1_col L c) eqn:Hb1;
    (destruct (lhas L); [unfold alloc_left; cbv zeta;
       destruct (dil L (lm L) (l_nd L) r c), (isinv (lm L) (l_nd L) (l_vl L) r c) |]);
    (destruct (rhas L); [rewrite alloc_right_char by exact Hd; rewrite Hb1; cbv zeta;
       try (destruct (forallb (inc7 L r c) (zrange (dmin L) (dmax L))),
                     (forallb (incn L r c) (zrange (dmin L) (dmax L)))) |]);
    repeat fadd1; reflexivity.
  Qed.

  (* --- mask_invalid_variable_disparity_range *)
  Lemma mivdr_char : forall an m,
    mivdr E an m = if an && (Z.land m 2 =? 0) then m + 2 else m.
  Proof.
    intros an m. unfold mivdr. rewrite (wf_const E Hwf).
    change (doc_value K_RIGHT_NODATA_OR_DISPARITY_RANGE_MISSING) with 2.
    destruct an; [|reflexivity]. cbn [andb]. destruct (Z.land m 2 =? 0) eqn:T; [|reflexivity].
    rewrite (fadd R_mivdr K_RIGHT_NODATA_OR_DISPARITY_RANGE_MISSING m true eq_refl T). reflexivity.
  Qed.
End Main.
