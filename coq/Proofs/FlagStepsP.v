(* C04 -- the flag updates of the steps after the matching cost (Model/FlagSteps.v), read through
   ANY well-formed list of flag sites:
     1. reference semantics [r_*]: the same steps written with set-bit / clear-bit only;
     2. [s_*]: the carry-freeness conditions of each += / -= along the reference path;
     3. normalisation: when the conditions hold, the model step IS the reference step and every write
        of the step is carry-free ([ok_*] = true);
     4. facts about the reference steps on the finite domain of flags 0 <= m < 4096, established by a
        complete computation over that domain (a proof by reflection, not a sample);
     5. the invariant of a run and the induction over the disparity-map part of any pipeline. *)
From Coq Require Import ZArith List Bool Lia ZifyBool.
From Pandora Require Import Model.Criteria Model.FlagSteps Proofs.FlagEnvP.
Import ListNotations.
Open Scope Z_scope.

(* ------------------------------------------------------------------ 1. reference semantics *)

Definition hasv (m v : Z) : bool := negb (Z.land m v =? 0).
Definition bv (b : bool) (v : Z) : Z := if b then v else 0.

Definition r_refine (d : dec) (m : Z) : Z :=
  if hasv m 963 then m
  else match d_ref d with
       | RNan => m
       | RMethod b => Z.lor m (bv b 8)
       | RBound => Z.lor m 8
       end.

Definition r_border (ob : bool) (m : Z) : Z := if ob then 1 else m.

Definition r_xcheck (d : dec) (m : Z) : Z :=
  if hasv m 963 then m
  else match d_x d with
       | XOk => m
       | XInval comp => Z.ldiff (Z.lor (Z.lor m 256) (bv comp 512)) (bv comp 256)
       | XOutside => Z.lor m 256
       end.

Definition r_mc_occl (d : dec) (m : Z) : Z :=
  if hasv m 256 then Z.lor (Z.ldiff m (bv (d_fill d) 256)) (bv (d_fill d) 16) else m.
Definition r_mc_mism (d : dec) (m : Z) : Z :=
  if hasv m 512 then if d_fillm d then Z.lor (Z.ldiff m 512) 32 else m else m.
Definition r_sgm_mism (d : dec) (m : Z) : Z :=
  if hasv m 512 then
    if d_near d then Z.lor (Z.ldiff m 512) 256
    else if d_fillm d then Z.lor (Z.ldiff m 512) 32 else m
  else m.
Definition r_sgm_occl (d : dec) (m : Z) : Z :=
  if hasv m 256 then if d_fill d then Z.lor (Z.ldiff m 256) 16 else m else m.
Definition r_interp (i : imeth) (ob : bool) (d : dec) (m : Z) : Z :=
  match i with
  | INone => m
  | IMcCnn => r_border ob (r_mc_mism d (r_mc_occl d m))
  | ISgm => r_sgm_occl d (r_sgm_mism d m)
  end.
Definition r_mfi (d : dec) (m : Z) : Z := if d_reg d then Z.lor m 2048 else m.
Definition r_step (ob : bool) (s : fstep) (d : dec) (m : Z) : Z :=
  match s with
  | SFlt mfi => if mfi then r_mfi d m else m
  | SRef => r_refine d m
  | SVal i => r_interp i ob d (r_border ob (r_xcheck d m))
  | SMsc => m
  end.

(* ------------------------------------------------------------------ 2. carry-freeness conditions *)

Definition clr (m v : Z) : bool := Z.land m v =? 0.
Definition set (m v : Z) : bool := Z.land m v =? v.

(* [idR]: the refinement sites are `|=`; [idI]: the filled-flag sites of the interpolation are `|=` *)
Definition s_refine (idR : bool) (d : dec) (m : Z) : bool :=
  if hasv m 963 then true
  else match d_ref d with
       | RNan => true
       | RMethod b => idR || clr m (bv b 8)
       | RBound => idR || clr m 8
       end.
Definition s_xcheck (d : dec) (m : Z) : bool :=
  if hasv m 963 then true
  else match d_x d with
       | XOk => true
       | XInval comp =>
         clr m 256 && clr (Z.lor m 256) (bv comp 512)
         && set (Z.lor (Z.lor m 256) (bv comp 512)) (bv comp 256)
       | XOutside => clr m 256
       end.
Definition s_mc_occl (idI : bool) (d : dec) (m : Z) : bool :=
  if hasv m 256 then
    set m (bv (d_fill d) 256) && (idI || clr (Z.ldiff m (bv (d_fill d) 256)) (bv (d_fill d) 16))
  else true.
Definition s_mc_mism (idI : bool) (d : dec) (m : Z) : bool :=
  if hasv m 512 then if d_fillm d then set m 512 && (idI || clr (Z.ldiff m 512) 32) else true else true.
Definition s_sgm_mism (idI : bool) (d : dec) (m : Z) : bool :=
  if hasv m 512 then
    if d_near d then set m 512 && clr (Z.ldiff m 512) 256
    else if d_fillm d then set m 512 && (idI || clr (Z.ldiff m 512) 32) else true
  else true.
Definition s_sgm_occl (idI : bool) (d : dec) (m : Z) : bool :=
  if hasv m 256 then if d_fill d then set m 256 && (idI || clr (Z.ldiff m 256) 16) else true else true.
Definition s_interp (i : imeth) (idI : bool) (d : dec) (m : Z) : bool :=
  match i with
  | INone => true
  | IMcCnn => s_mc_occl idI d m && s_mc_mism idI d (r_mc_occl d m)
  | ISgm => s_sgm_mism idI d m && s_sgm_occl idI d (r_sgm_mism d m)
  end.
Definition s_step (idR idI : bool) (ob : bool) (s : fstep) (d : dec) (m : Z) : bool :=
  match s with
  | SFlt _ => true
  | SRef => s_refine idR d m
  | SVal i => s_xcheck d m && s_interp i idI d (r_border ob (r_xcheck d m))
  | SMsc => true
  end.

(* ------------------------------------------------------------------ 3. normalisation *)

Section Norm.
  Variable E : env.
  Hypothesis Hwf : wf_env E = true.

  Lemma has_hasv : forall m c, has E m c = hasv m (doc_value c).
  Proof. intros. unfold has, hasv, K. rewrite (wf_const E Hwf). reflexivity. Qed.

  (* a write that adds: carry-free when its bit is clear, or unconditionally when it is `|=` *)
  Lemma n_add : forall r c m b id, adds r = Some c -> (id = true -> is_or E r = true) ->
    (id || clr m (bval b c)) = true ->
    fire E r m b = Z.lor m (bval b c) /\ fire_ok E r m b = true.
  Proof.
    intros r c m b id Ha Hid H. destruct id; cbn [orb] in H.
    - apply (fire_or E Hwf r c m b Ha (Hid eq_refl)).
    - unfold clr in H. apply Z.eqb_eq in H. destruct (fire_add E Hwf r c m b Ha H) as (H1 & _ & H3). auto.
  Qed.

  Lemma n_add0 : forall r c m b, adds r = Some c -> clr m (bval b c) = true ->
    fire E r m b = Z.lor m (bval b c) /\ fire_ok E r m b = true.
  Proof. intros r c m b Ha H. apply (n_add r c m b false Ha); [discriminate | exact H]. Qed.

  Lemma n_sub : forall r c m b, subs r = Some c -> set m (bval b c) = true ->
    fire E r m b = Z.ldiff m (bval b c) /\ fire_ok E r m b = true.
  Proof. intros r c m b Hs H. unfold set in H. apply Z.eqb_eq in H. apply (fire_sub E Hwf r c m b Hs H). Qed.

  Variables idR idI : bool.
  Hypothesis HidR : idR = true -> refine_idem E = true.
  Hypothesis HidI_mc : idI = true -> interp_idem E IMcCnn = true.
  Hypothesis HidI_sgm : idI = true -> interp_idem E ISgm = true.

  Ltac split_and := repeat match goal with H : _ && _ = true |- _ => apply andb_true_iff in H as [? ?] end.

  Lemma norm_refine : forall d m, s_refine idR d m = true ->
    t_refine E d m = r_refine d m /\ ok_refine E d m = true.
  Proof.
    intros d m H. unfold t_refine, ok_refine, r_refine, s_refine in *. rewrite has_hasv.
    change (doc_value K_INVALID) with 963. destruct (hasv m 963); [auto|]. destruct (d_ref d) as [|b|]; [auto| |].
    - apply (n_add R_ref_method K_STOPPED_INTERPOLATION m b idR eq_refl); [|exact H].
      intro Hi. specialize (HidR Hi). unfold refine_idem in HidR. apply andb_true_iff in HidR. tauto.
    - apply (n_add R_ref_stopped K_STOPPED_INTERPOLATION m true idR eq_refl); [|exact H].
      intro Hi. specialize (HidR Hi). unfold refine_idem in HidR. apply andb_true_iff in HidR. tauto.
  Qed.

  Lemma norm_border : forall offpos border m,
    t_border E offpos border m = r_border (offpos && border) m.
  Proof.
    intros. unfold t_border, r_border. destruct (offpos && border); [|reflexivity].
    apply (fire_set E Hwf R_bord_top K_LEFT_NODATA_OR_BORDER m eq_refl).
  Qed.

  Lemma norm_xcheck : forall d m, s_xcheck d m = true ->
    t_xcheck E d m = r_xcheck d m /\ ok_xcheck E d m = true.
  Proof.
    intros d m H. unfold t_xcheck, ok_xcheck, r_xcheck, s_xcheck in *. rewrite has_hasv.
    change (doc_value K_INVALID) with 963. destruct (hasv m 963); [auto|]. destruct (d_x d) as [|comp|]; [auto| |].
    - split_and. cbv zeta.
      destruct (n_add0 R_xc_occl K_OCCLUSION m true eq_refl) as [E1 O1]; [assumption|].
      rewrite E1, O1. change (bval true K_OCCLUSION) with 256.
      destruct (n_add0 R_xc_mism K_MISMATCH (Z.lor m 256) comp eq_refl) as [E2 O2]; [assumption|].
      rewrite E2, O2. change (bval comp K_MISMATCH) with (bv comp 512).
      destruct (n_sub R_xc_unoccl K_OCCLUSION (Z.lor (Z.lor m 256) (bv comp 512)) comp eq_refl) as [E3 O3]; [assumption|].
      rewrite E3, O3. auto.
    - apply (n_add0 R_xc_outside K_OCCLUSION m true eq_refl). exact H.
  Qed.

  Lemma idI_mc : idI = true ->
    is_or E R_mco_add_r = true /\ is_or E R_mco_add_l = true /\ is_or E R_mcm_add = true.
  Proof.
    intro Hi. specialize (HidI_mc Hi). unfold interp_idem in HidI_mc.
    apply andb_true_iff in HidI_mc as [H1 H3]. apply andb_true_iff in H1 as [H1 H2]. auto.
  Qed.
  Lemma idI_sgm : idI = true -> is_or E R_sgo_add = true /\ is_or E R_sgm_add_f = true.
  Proof. intro Hi. specialize (HidI_sgm Hi). unfold interp_idem in HidI_sgm. apply andb_true_iff in HidI_sgm. exact HidI_sgm. Qed.

  Lemma norm_mc_occl : forall d m, s_mc_occl idI d m = true ->
    t_mc_occl E d m = r_mc_occl d m /\ ok_mc_occl E d m = true.
  Proof.
    intros d m H. unfold t_mc_occl, ok_mc_occl, r_mc_occl, s_mc_occl in *. rewrite has_hasv.
    change (doc_value K_OCCLUSION) with 256. destruct (hasv m 256); [|auto]. split_and.
    destruct (d_left d).
    - destruct (n_sub R_mco_sub_l K_OCCLUSION m (d_fill d) eq_refl) as [E1 O1]; [assumption|].
      rewrite E1, O1. change (bval (d_fill d) K_OCCLUSION) with (bv (d_fill d) 256).
      destruct (n_add R_mco_add_l K_FILLED_OCCLUSION (Z.ldiff m (bv (d_fill d) 256)) (d_fill d) idI eq_refl) as [E2 O2];
        [intro Hi; apply (idI_mc Hi) | assumption |].
      rewrite E2, O2. auto.
    - destruct (n_sub R_mco_sub_r K_OCCLUSION m (d_fill d) eq_refl) as [E1 O1]; [assumption|].
      rewrite E1, O1. change (bval (d_fill d) K_OCCLUSION) with (bv (d_fill d) 256).
      destruct (n_add R_mco_add_r K_FILLED_OCCLUSION (Z.ldiff m (bv (d_fill d) 256)) (d_fill d) idI eq_refl) as [E2 O2];
        [intro Hi; apply (idI_mc Hi) | assumption |].
      rewrite E2, O2. auto.
  Qed.

  Lemma norm_mc_mism : forall d m, s_mc_mism idI d m = true ->
    t_mc_mism E d m = r_mc_mism d m /\ ok_mc_mism E d m = true.
  Proof.
    intros d m H. unfold t_mc_mism, ok_mc_mism, r_mc_mism, s_mc_mism in *. rewrite has_hasv.
    change (doc_value K_MISMATCH) with 512. destruct (hasv m 512); [|auto]. destruct (d_fillm d); [|auto]. split_and.
    destruct (n_sub R_mcm_sub K_MISMATCH m true eq_refl) as [E1 O1]; [assumption|].
    rewrite E1, O1. change (bval true K_MISMATCH) with 512.
    destruct (n_add R_mcm_add K_FILLED_MISMATCH (Z.ldiff m 512) true idI eq_refl) as [E2 O2];
      [intro Hi; apply (idI_mc Hi) | assumption |].
    rewrite E2, O2. auto.
  Qed.

  Lemma norm_sgm_mism : forall d m, s_sgm_mism idI d m = true ->
    t_sgm_mism E d m = r_sgm_mism d m /\ ok_sgm_mism E d m = true.
  Proof.
    intros d m H. unfold t_sgm_mism, ok_sgm_mism, r_sgm_mism, s_sgm_mism in *. rewrite has_hasv.
    change (doc_value K_MISMATCH) with 512. destruct (hasv m 512); [|auto].
    destruct (d_near d); [| destruct (d_fillm d); [|auto]]; split_and.
    - destruct (n_sub R_sgm_sub_o K_MISMATCH m true eq_refl) as [E1 O1]; [assumption|].
      rewrite E1, O1. change (bval true K_MISMATCH) with 512.
      destruct (n_add0 R_sgm_add_o K_OCCLUSION (Z.ldiff m 512) true eq_refl) as [E2 O2]; [assumption|].
      rewrite E2, O2. auto.
    - destruct (n_sub R_sgm_sub_f K_MISMATCH m true eq_refl) as [E1 O1]; [assumption|].
      rewrite E1, O1. change (bval true K_MISMATCH) with 512.
      destruct (n_add R_sgm_add_f K_FILLED_MISMATCH (Z.ldiff m 512) true idI eq_refl) as [E2 O2];
        [intro Hi; apply (idI_sgm Hi) | assumption |].
      rewrite E2, O2. auto.
  Qed.

  Lemma norm_sgm_occl : forall d m, s_sgm_occl idI d m = true ->
    t_sgm_occl E d m = r_sgm_occl d m /\ ok_sgm_occl E d m = true.
  Proof.
    intros d m H. unfold t_sgm_occl, ok_sgm_occl, r_sgm_occl, s_sgm_occl in *. rewrite has_hasv.
    change (doc_value K_OCCLUSION) with 256. destruct (hasv m 256); [|auto]. destruct (d_fill d); [|auto]. split_and.
    destruct (n_sub R_sgo_sub K_OCCLUSION m true eq_refl) as [E1 O1]; [assumption|].
    rewrite E1, O1. change (bval true K_OCCLUSION) with 256.
    destruct (n_add R_sgo_add K_FILLED_OCCLUSION (Z.ldiff m 256) true idI eq_refl) as [E2 O2];
      [intro Hi; apply (idI_sgm Hi) | assumption |].
    rewrite E2, O2. auto.
  Qed.

  Lemma norm_mfi : forall d m, t_mfi E d m = r_mfi d m.
  Proof.
    intros. unfold t_mfi, r_mfi. destruct (d_reg d); [|reflexivity].
    apply (fire_or E Hwf R_mfi_or K_INTERVAL_REGULARIZED m true eq_refl).
    destruct (wf_site E Hwf R_mfi_or) as [Hr Hc]. unfold check_site in Hc. rewrite Hr in Hc. cbn in Hc.
    apply andb_true_iff in Hc as [Hc _]. unfold is_or. destruct (s_op (site_of E R_mfi_or)); try discriminate. reflexivity.
  Qed.

End Norm.

(* one step: the model is the reference step, and every += / -= of the step was carry-free.
   [idR] / [idI] may be taken true only when the corresponding sites of E are `|=` *)
Lemma norm_step : forall E, wf_env E = true -> forall idR idI offpos border s d m,
  (idR = true -> refine_idem E = true) ->
  (idI = true -> match s with SVal i => interp_idem E i = true | _ => True end) ->
  s_step idR idI (offpos && border) s d m = true ->
  t_step E offpos border s d m = r_step (offpos && border) s d m /\ ok_step E offpos border s d m = true.
Proof.
  intros E Hwf idR idI offpos border s d m HidR HidI H.
  destruct s as [mfi| |i|]; cbn [t_step r_step ok_step s_step] in *.
  - destruct mfi; [rewrite norm_mfi by exact Hwf|]; auto.
  - eapply norm_refine; eauto.
  - apply andb_true_iff in H as [H1 H2]. destruct (norm_xcheck E Hwf d m H1) as [E1 O1].
    rewrite E1, O1, (norm_border E Hwf). cbn [andb].
    set (m1 := r_border (offpos && border) (r_xcheck d m)) in *.
    destruct i; cbn [t_interp r_interp ok_interp s_interp] in *.
    + auto.
    + apply andb_true_iff in H2 as [H2 H3].
      destruct (norm_mc_occl E Hwf idI HidI d m1 H2) as [E2 O2].
      rewrite E2, O2 in *. destruct (norm_mc_mism E Hwf idI HidI d _ H3) as [E3 O3].
      rewrite E3, O3, (norm_border E Hwf). auto.
    + apply andb_true_iff in H2 as [H2 H3].
      destruct (norm_sgm_mism E Hwf idI HidI d m1 H2) as [E2 O2].
      rewrite E2, O2 in *. destruct (norm_sgm_occl E Hwf idI HidI d _ H3) as [E3 O3]. rewrite E3, O3. auto.
  - auto.
Qed.

(* ------------------------------------------------------------------ 4. the finite domain of flags *)

(* the invariant of a flag: a 12-bit value, bit 10 clear, never both occlusion and mismatch *)
Definition inv_b (m : Z) : bool :=
  (0 <=? m) && (m <? 4096) && negb (Z.testbit m 10) && negb (Z.testbit m 8 && Z.testbit m 9).
(* cR: no refinement has run yet (bit 3 clear); cI: no interpolation has run yet (bits 4, 5 clear) *)
Definition rest_b (cR cI : bool) (m : Z) : bool :=
  implb cR (negb (Z.testbit m 3)) && implb cI (Z.land m 48 =? 0).
Definition pinv_b (cR cI : bool) (m : Z) : bool := inv_b m && rest_b cR cI m.

Lemma zseq_In' : forall n lo x, In x (zseq lo n) <-> lo <= x < lo + Z.of_nat n.
Proof. induction n as [|n IH]; intros lo x; cbn [zseq In]; [lia | rewrite IH; lia]. Qed.

(* a complete computation over the 4096 flags is a proof for every flag satisfying inv_b *)
Lemma fin_all : forall P : Z -> bool,
  forallb (fun m => implb (inv_b m) (P m)) (zrange 0 4095) = true ->
  forall m, inv_b m = true -> P m = true.
Proof.
  intros P H m Hm. rewrite forallb_forall in H.
  assert (Hin : In m (zrange 0 4095)) by (unfold zrange; apply zseq_In'; unfold inv_b in Hm; lia).
  specialize (H m Hin). rewrite Hm in H. exact H.
Qed.

Ltac fin :=
  match goal with
  | |- forall m, inv_b m = true -> @?P m = true => apply (fin_all P); vm_compute; reflexivity
  end.

Definition own (s : fstep) : Z :=
  match s with
  | SFlt true => 2048
  | SFlt false => 0
  | SRef => 8
  | SVal INone => 768
  | SVal _ => 816
  | SMsc => 0
  end.

Lemma F_ref : forall idR cR cI d m, inv_b m = true ->
  implb (rest_b cR cI m && (idR || cR))
        (s_refine idR d m && pinv_b false cI (r_refine d m) && (Z.ldiff (r_refine d m) 8 =? Z.ldiff m 8)) = true.
Proof.
  intros idR cR cI [dr dx dl df dfm dn dg]. unfold s_refine, r_refine. cbn [d_ref].
  destruct idR, cR, cI, dr as [|[]|]; fin.
Qed.

Lemma F_xc : forall cR cI d m, inv_b m = true ->
  implb (rest_b cR cI m)
        (s_xcheck d m && pinv_b cR cI (r_xcheck d m) && (Z.ldiff (r_xcheck d m) 768 =? Z.ldiff m 768)) = true.
Proof.
  intros cR cI [dr dx dl df dfm dn dg]. unfold s_xcheck, r_xcheck. cbn [d_x].
  destruct cR, cI, dx as [|[]|]; fin.
Qed.

Lemma F_int : forall i idI cR cI d m, inv_b m = true ->
  implb (rest_b cR cI m && (idI || cI))
        (s_interp i idI d m && pinv_b cR (match i with INone => cI | _ => false end) (r_interp i false d m)
         && (Z.ldiff (r_interp i false d m) 816 =? Z.ldiff m 816)) = true.
Proof.
  intros i idI cR cI [dr dx dl df dfm dn dg].
  unfold s_interp, r_interp, s_mc_occl, s_mc_mism, s_sgm_mism, s_sgm_occl, r_mc_occl, r_mc_mism, r_sgm_mism,
    r_sgm_occl, r_border. cbn [d_fill d_fillm d_near].
  destruct i, idI, cR, cI; try (destruct df, dfm); try (destruct dn); fin.
Qed.

(* what an earlier step recorded as filled (bits 4, 5) is still recorded after an interpolation *)
Lemma F_int_keeps : forall i idI cR cI d m, inv_b m = true ->
  implb (rest_b cR cI m && (idI || cI))
        (Z.land (Z.land m 48) (r_interp i false d m) =? Z.land m 48) = true.
Proof.
  intros i idI cR cI [dr dx dl df dfm dn dg].
  unfold r_interp, r_mc_occl, r_mc_mism, r_sgm_mism, r_sgm_occl, r_border. cbn [d_fill d_fillm d_near d_left].
  destruct i, idI, cR, cI; try (destruct df, dfm); try (destruct dn); try (destruct dl); fin.
Qed.

Lemma F_mfi : forall cR cI d m, inv_b m = true ->
  implb (rest_b cR cI m) (pinv_b cR cI (r_mfi d m) && (Z.ldiff (r_mfi d m) 2048 =? Z.ldiff m 2048)) = true.
Proof.
  intros cR cI [dr dx dl df dfm dn dg]. unfold r_mfi. cbn [d_reg]. destruct cR, cI, dg; fin.
Qed.
