(* C13 -- locality of the cross-based cost aggregation.

   Part 1 (SPEC, Spec/Cbca.v): the aggregated cost of a pixel at a disparity depends on the filtered images only
   through the (2A+1) x (2A+1) square around the pixel (left image) and around column c + shift (right image), and
   on the costs of that square, A = max(cbca_distance - 1, 1) being the longest possible arm: an arm reads at most
   the A pixels next to its pixel, the vertical arm of the pixel has at most A pixels on each side, and so has the
   horizontal arm of each of them.  Being inside the image is part of what must agree ([px]): no hypothesis that
   the square is inside the images.

   Part 2 (MODEL, Model/Cbca.v through C11's model = spec): the cost volume aggregated by the model, at a pixel
   whose cone is inside the image, depends on the two images (3x3 median pre-filter: one pixel more), the masks
   and the input costs of the cone only. *)
From Coq Require Import ZArith QArith Qround List Bool Lia.
From Pandora Require Import Model.Cbca Spec.Cbca Proofs.CbcaP.
Import ListNotations.
Open Scope Z_scope.

(* ------------------------------------------------------------------ lists *)

Lemma map_span_ext : forall {B} (f g : Z -> B) n a a',
  (forall i, 0 <= i < Z.of_nat n -> f (a + i) = g (a' + i)) -> map f (span a n) = map g (span a' n).
Proof.
  induction n; intros a a' H; cbn [span map]; [reflexivity|].
  pose proof (H 0 ltac:(lia)) as H0. rewrite !Z.add_0_r in H0. rewrite H0. f_equal.
  apply IHn. intros i Hi. replace (a + 1 + i) with (a + (i + 1)) by lia.
  replace (a' + 1 + i) with (a' + (i + 1)) by lia. apply H. lia.
Qed.

Lemma flat_map_span_ext : forall {B} (f g : Z -> list B) n a a',
  (forall i, 0 <= i < Z.of_nat n -> f (a + i) = g (a' + i)) -> flat_map f (span a n) = flat_map g (span a' n).
Proof.
  induction n; intros a a' H; cbn [span flat_map]; [reflexivity|].
  pose proof (H 0 ltac:(lia)) as H0. rewrite !Z.add_0_r in H0. rewrite H0. f_equal.
  apply IHn. intros i Hi. replace (a + 1 + i) with (a + (i + 1)) by lia.
  replace (a' + 1 + i) with (a' + (i + 1)) by lia. apply H. lia.
Qed.

Lemma map_flat_map_comm : forall {X Y W} (g : Y -> W) (h : X -> list Y) l,
  map g (flat_map h l) = flat_map (fun x => map g (h x)) l.
Proof. induction l; cbn [flat_map map]; [reflexivity|]. rewrite map_app, IHl. reflexivity. Qed.

(* ------------------------------------------------------------------ arms *)

(* the longest possible arm *)
Definition arm_max (dist : Z) : Z := Z.max (dist - 1) 1.

Lemma ray_arm_le : forall get dist inten v, 0 <= ray_arm get dist inten v <= arm_max dist.
Proof.
  intros. unfold ray_arm, arm_max.
  pose proof (take_while_span (takes get inten v) (Z.to_nat (dist - 1)) 1) as T. cbv zeta in T.
  destruct T as (T1 & _ & _).
  set (k := length (take_while (takes get inten v) (span 1 (Z.to_nat (dist - 1))))) in *.
  destruct (0 <? Z.of_nat k) eqn:E; [lia|]. destruct (get 1); lia.
Qed.

(* an arm reads the arm_max pixels next to its pixel along the ray, nothing further *)
Lemma ray_arm_ext_upto : forall get get' dist inten v,
  (forall j, 1 <= j <= arm_max dist -> get j = get' j) -> ray_arm get dist inten v = ray_arm get' dist inten v.
Proof.
  intros get get' dist inten v H. unfold ray_arm, arm_max in *.
  rewrite (take_while_ext_in _ (takes get inten v) (takes get' inten v)).
  2:{ intros x Hx. apply in_span in Hx. unfold takes. rewrite H by lia. reflexivity. }
  rewrite (H 1) by lia. reflexivity.
Qed.

Lemma spec_arm_le : forall I dist inten d r c, 0 <= spec_arm I dist inten d r c <= arm_max dist.
Proof.
  intros. unfold spec_arm. destruct (px I r c); [apply ray_arm_le|]. unfold arm_max. lia.
Qed.

Lemma spec_arm_local : forall I I' dist inten d r c r' c',
  px I r c = px I' r' c' ->
  (forall j, 1 <= j <= arm_max dist ->
     px I (r + j * drow d) (c + j * dcol d) = px I' (r' + j * drow d) (c' + j * dcol d)) ->
  spec_arm I dist inten d r c = spec_arm I' dist inten d r' c'.
Proof.
  intros I I' dist inten d r c r' c' H0 H. unfold spec_arm. rewrite H0.
  destruct (px I' r' c'); [|reflexivity]. apply ray_arm_ext_upto. intros j Hj. unfold ray. apply H. exact Hj.
Qed.

(* ------------------------------------------------------------------ the support region and the aggregate *)

Section AggLocal.
  Variables (IL IR IL' IR' : fimg) (dist : Z) (inten : Q) (shift : Z).
  Variables (cost cost' : Z -> Z -> option Q) (r c r' c' : Z).
  Let A := arm_max dist.
  (* the squares of the two left images, of the two right images (around column c + shift), of the two cost planes *)
  Hypothesis HL : forall a b, - A <= a <= A -> - A <= b <= A -> px IL (r + a) (c + b) = px IL' (r' + a) (c' + b).
  Hypothesis HR : forall a b, - A <= a <= A -> - A <= b <= A ->
    px IR (r + a) (c + shift + b) = px IR' (r' + a) (c' + shift + b).
  Hypothesis HC : forall a b, - A <= a <= A -> - A <= b <= A -> cost (r + a) (c + b) = cost' (r' + a) (c' + b).

  Let aL := spec_arm IL dist inten.   Let aR := spec_arm IR dist inten.
  Let aL' := spec_arm IL' dist inten. Let aR' := spec_arm IR' dist inten.

  Lemma A_pos : 1 <= A.
  Proof. unfold A, arm_max. lia. Qed.

  Lemma carm_bounds : forall d ρ γ, 0 <= carm aL aR shift d ρ γ <= A.
  Proof.
    intros. unfold carm, aL, aR. pose proof (spec_arm_le IL dist inten d ρ γ) as X.
    pose proof (spec_arm_le IR dist inten d ρ (γ + shift)) as Y. fold A in X, Y. lia.
  Qed.

  (* the horizontal arms of a pixel of the column, at most A rows away *)
  Lemma carm_h_local : forall d a, dcol d <> 0 -> - A <= a <= A ->
    carm aL aR shift d (r + a) c = carm aL' aR' shift d (r' + a) c'.
  Proof.
    intros d a Hd Ha. pose proof A_pos as HA. unfold carm, aL, aR, aL', aR'. f_equal.
    - apply spec_arm_local.
      + pose proof (HL a 0 Ha ltac:(lia)) as X. rewrite !Z.add_0_r in X. exact X.
      + intros j Hj. fold A in Hj. assert (Hr : drow d = 0) by (destruct d; cbn in *; congruence).
        rewrite Hr, !Z.mul_0_r, !Z.add_0_r. apply HL; [exact Ha|]. destruct d; cbn in *; try congruence; lia.
    - apply spec_arm_local.
      + pose proof (HR a 0 Ha ltac:(lia)) as X. rewrite !Z.add_0_r in X. exact X.
      + intros j Hj. fold A in Hj. assert (Hr : drow d = 0) by (destruct d; cbn in *; congruence).
        rewrite Hr, !Z.mul_0_r, !Z.add_0_r.
        replace (c + shift + j * dcol d) with (c + shift + (j * dcol d)) by lia.
        replace (c' + shift + j * dcol d) with (c' + shift + (j * dcol d)) by lia.
        apply HR; [exact Ha|]. destruct d; cbn in *; try congruence; lia.
  Qed.

  (* the vertical arms of the pixel itself *)
  Lemma carm_v_local : forall d, drow d <> 0 -> carm aL aR shift d r c = carm aL' aR' shift d r' c'.
  Proof.
    intros d Hd. pose proof A_pos as HA. unfold carm, aL, aR, aL', aR'.
    assert (Hc : dcol d = 0) by (destruct d; cbn in *; congruence).
    f_equal.
    - apply spec_arm_local.
      + pose proof (HL 0 0 ltac:(lia) ltac:(lia)) as X. rewrite !Z.add_0_r in X. exact X.
      + intros j Hj. fold A in Hj. rewrite Hc, !Z.mul_0_r, !Z.add_0_r.
        pose proof (HL (j * drow d) 0) as X. rewrite !Z.add_0_r in X. apply X; [|lia].
        destruct d; cbn in *; try congruence; lia.
    - apply spec_arm_local.
      + pose proof (HR 0 0 ltac:(lia) ltac:(lia)) as X. rewrite !Z.add_0_r in X. exact X.
      + intros j Hj. fold A in Hj. rewrite Hc, !Z.mul_0_r, !Z.add_0_r.
        pose proof (HR (j * drow d) 0) as X. rewrite !Z.add_0_r in X. apply X; [|lia].
        destruct d; cbn in *; try congruence; lia.
  Qed.

  (* the costs met along the region, in the order of the region *)
  Lemma region_costs_local :
    map (fun p => cost_or_0 (cost (fst p) (snd p))) (region aL aR shift r c)
    = map (fun p => cost_or_0 (cost' (fst p) (snd p))) (region aL' aR' shift r' c').
  Proof.
    pose proof A_pos as HA. unfold region.
    rewrite <- (carm_v_local DUp) by (cbn; lia). rewrite <- (carm_v_local DDown) by (cbn; lia).
    pose proof (carm_bounds DUp r c) as BU. pose proof (carm_bounds DDown r c) as BD.
    set (up := carm aL aR shift DUp r c) in *. set (dn := carm aL aR shift DDown r c) in *.
    rewrite !map_flat_map_comm. apply flat_map_span_ext. intros i Hi.
    rewrite Z2Nat.id in Hi by lia.
    replace (r - up + i) with (r + (i - up)) by lia. replace (r' - up + i) with (r' + (i - up)) by lia.
    assert (Ha : - A <= i - up <= A) by lia.
    unfold hspan. rewrite !map_map. cbn [fst snd].
    rewrite <- (carm_h_local DLeft (i - up)) by (cbn; lia || exact Ha).
    rewrite <- (carm_h_local DRight (i - up)) by (cbn; lia || exact Ha).
    pose proof (carm_bounds DLeft (r + (i - up)) c) as BL. pose proof (carm_bounds DRight (r + (i - up)) c) as BR.
    set (lf := carm aL aR shift DLeft (r + (i - up)) c) in *. set (rt := carm aL aR shift DRight (r + (i - up)) c) in *.
    apply map_span_ext. intros j Hj. rewrite Z2Nat.id in Hj by lia.
    replace (c - lf + j) with (c + (j - lf)) by lia. replace (c' - lf + j) with (c' + (j - lf)) by lia.
    rewrite HC by lia. reflexivity.
  Qed.

  Lemma region_length_local : length (region aL aR shift r c) = length (region aL' aR' shift r' c').
  Proof.
    rewrite <- (map_length (fun p => cost_or_0 (cost (fst p) (snd p)))), region_costs_local, map_length. reflexivity.
  Qed.

  Theorem agg_spec_local :
    agg_spec IL IR dist inten shift cost r c = agg_spec IL' IR' dist inten shift cost' r' c'.
  Proof.
    pose proof A_pos as HA. unfold agg_spec.
    pose proof (HC 0 0 ltac:(lia) ltac:(lia)) as C0. rewrite !Z.add_0_r in C0. rewrite C0.
    destruct (cost' r' c'); [|reflexivity].
    unfold region_mean. fold aL aR aL' aR'. rewrite region_costs_local, region_length_local. reflexivity.
  Qed.
End AggLocal.
